(* C12 — the "audience" parameter of the authorization request and the client's
   allow_client_chose_audiences flag: what they can change (the ACCESS token's audience list, and only
   for a client configured to choose audiences, and only to an audience CorsOriginAllowed accepts) and
   what they cannot (whether tokens are released, and every claim of the ID token: its audience is the
   authenticated client alone and it carries no other claim than the seven of openIDConnectIDToken). *)
From Coq Require Import String ZArith NArith List Bool Lia.
From KM Require Import Base.Bytes Model.Tokens Model.OIDC Proofs.Tokens Proofs.OIDC.
Import ListNotations.
Open Scope Z_scope.

(* ---------------------------------------------------------------- the authorization step *)

(* an audience is bound into a code only for a client that may choose audiences, and only if
   CorsOriginAllowed accepted it *)
Lemma authorize_audience i now u a t : authorize i now u a = Some t -> ar_audience a <> [] ->
  exists c, find_client (ar_client a) (clients i) = Some c /\ cl_allow_aud c = true /\ ar_audience_ok a = true.
Proof.
  unfold authorize. intros A NE. apply nonempty_true in NE. rewrite NE in A. cbn [andb] in A.
  destruct (negb (ar_method_ok a)); [discriminate|].
  destruct (negb (bs_eqb (ar_response_type a) rt_code)); [discriminate|].
  destruct (negb (nonempty (ar_client a))); [discriminate|].
  destruct (negb (ar_scope_openid a)); [discriminate|].
  destruct (find_client (ar_client a) (clients i)) as [c|]; [|discriminate].
  destruct (negb (ar_redirect_ok a)); [discriminate|].
  destruct (nonempty (ar_challenge a) && nonempty (ar_method a) && negb (bs_eqb (ar_method a) m_S256)); [discriminate|].
  destruct (nonempty (ar_challenge a) && negb (can_seal (srv i))); [discriminate|].
  destruct (cl_allow_aud c && ar_audience_ok a) eqn:OK; cbn [negb] in A; [|discriminate].
  apply andb_true_iff in OK. destruct OK as [O1 O2]. exists c. auto.
Qed.

(* the list bound into the code: nothing, or exactly the first value of the parameter *)
Definition chosen_audience (a : areq) : list bs := if nonempty (ar_audience a) then [ar_audience a] else [].

(* ---------------------------------------------------------------- the ID token of a release *)

(* the JSON member names of openIDConnectIDToken *)
Definition id_claim_names : list string := ["iss"; "sub"; "aud"; "exp"; "iat"; "auth_time"; "nonce"]%string.

(* whatever the code carries (in particular whatever access_audience it carries): the ID token of a
   release has the seven members of openIDConnectIDToken and no other, and its "aud" member is the
   one-element list holding the client id the caller authenticated as *)
Lemma idtoken_sole_audience i now r idt act : token_endpoint i now r = Release idt act ->
  map fst (t_claims idt) = id_claim_names /\
  lookup "aud" (t_claims idt) = Some (VList [fst (presented_creds r)]).
Proof.
  intro R. apply token_release_sound in R.
  destruct R as [k [c [_ [_ [_ [_ [_ [_ [_ [_ [-> _]]]]]]]]]]].
  split; reflexivity.
Qed.

(* a code that differs from another one in its access_audience member only *)
Definition set_access_aud (k : codejwt) (aa : list bs) : codejwt :=
  {| c_iss := c_iss k; c_sub := c_sub k; c_iat := c_iat k; c_exp := c_exp k; c_aud := c_aud k;
     c_username := c_username k; c_auth_level := c_auth_level k; c_auth_exp := c_auth_exp k;
     c_nonce := c_nonce k; c_redirect := c_redirect k; c_access_aud := aa; c_scope := c_scope k;
     c_type := c_type k; c_jti := c_jti k; c_sealed := c_sealed k |}.

(* same verdict (released, or refused with the same status) and, when released, the same ID token *)
Definition same_but_access (x y : tresult) : Prop :=
  match x, y with
  | Release idt1 _, Release idt2 _ => idt1 = idt2
  | Refuse s1, Refuse s2 => s1 = s2
  | _, _ => False
  end.

Lemma token_endpoint_access_aud i now r k aa1 aa2 :
  same_but_access (token_endpoint i now (with_code r (sign (srv i) (enc_code (set_access_aud k aa1)))))
                  (token_endpoint i now (with_code r (sign (srv i) (enc_code (set_access_aud k aa2))))).
Proof.
  unfold token_endpoint, token_endpoint_gen, with_code, caller.
  cbn [tr_post tr_grant tr_redirect tr_code tr_verifier tr_vhash tr_basic tr_form_client tr_form_secret].
  unfold sign at 1 3. unfold verify. cbn [t_signer t_alg t_tampered].
  unfold sign. cbn [t_claims]. rewrite !dec_enc_code.
  unfold pkce_ok, p_id, set_access_aud.
  cbn [c_sealed c_jti c_sub c_exp c_redirect c_type c_username c_auth_exp c_nonce].
  cbn [andb negb]. rewrite !andb_true_r.
  destruct (tr_post r); cbn [negb]; [|reflexivity].
  destruct (bs_eqb (tr_grant r) gt_authcode); cbn [negb]; [|reflexivity].
  destruct (nonempty (tr_redirect r)); cbn [negb]; [|reflexivity].
  destruct (trusted_key (srv i) (s_signer (srv i)) && allowed_alg (srv i) (s_signer_alg (srv i))); cbn [negb]; [|reflexivity].
  destruct (tr_basic r) as [[id pw]|].
  - destruct (find_client id (clients i)) as [c|]; [|reflexivity].
    destruct (nonempty (tr_verifier r) && nonempty (cl_secret c)); [reflexivity|].
    match goal with |- context [if negb ?v then Refuse 401 else _] => destruct v end; cbn [negb]; [|reflexivity].
    destruct (bs_eqb id (c_sub k)); cbn [negb]; [|reflexivity].
    destruct (c_exp k <? unix now); [reflexivity|].
    destruct (bs_eqb (c_redirect k) (tr_redirect r)); cbn [negb]; [|reflexivity].
    destruct (bs_eqb (c_type k) k_code); cbn [negb]; reflexivity.
  - destruct (negb (nonempty (tr_form_secret r)) && negb (nonempty (tr_verifier r))); [reflexivity|].
    destruct (negb (nonempty (tr_form_client r))); [reflexivity|].
    destruct (find_client (tr_form_client r) (clients i)) as [c|]; [|reflexivity].
    destruct (nonempty (tr_verifier r) && nonempty (cl_secret c)); [reflexivity|].
    match goal with |- context [if negb ?v then Refuse 401 else _] => destruct v end; cbn [negb]; [|reflexivity].
    destruct (bs_eqb (tr_form_client r) (c_sub k)); cbn [negb]; [|reflexivity].
    destruct (c_exp k <? unix now); [reflexivity|].
    destruct (bs_eqb (c_redirect k) (tr_redirect r)); cbn [negb]; [|reflexivity].
    destruct (bs_eqb (c_type k) k_code); cbn [negb]; reflexivity.
Qed.

Lemma code_of_set_access_aud i now u a :
  code_of i now u a = set_access_aud (code_of i now u a) (chosen_audience a).
Proof. reflexivity. Qed.

Lemma code_of_with_audience i now u a aud ok :
  code_of i now u (with_audience a aud ok) = set_access_aud (code_of i now u a) (chosen_audience (with_audience a aud ok)).
Proof. reflexivity. Qed.

Lemma authorize_token i now u a t : authorize i now u a = Some t -> t = sign (srv i) (enc_code (code_of i now u a)).
Proof. intro A. apply authorize_sound in A. destruct A as [-> _]. reflexivity. Qed.

(* The audience parameter of the authorization request is invisible in the ID token.  Two
   authorization requests of the same user at the same instant that differ in nothing but the audience
   parameter (and CorsOriginAllowed's verdict on it), both accepted; ANY token request, presenting the
   one code or the other: the token endpoint gives the same verdict, and when it releases tokens the
   two ID tokens are EQUAL - claim for claim, signature included. *)
Lemma idtoken_ignores_audience i t_a u a aud ok code1 code2 now r :
  authorize i t_a u a = Some code1 -> authorize i t_a u (with_audience a aud ok) = Some code2 ->
  same_but_access (token_endpoint i now (with_code r code1)) (token_endpoint i now (with_code r code2)).
Proof.
  intros A1 A2. apply authorize_token in A1. apply authorize_token in A2. subst code1 code2.
  rewrite code_of_with_audience. rewrite (code_of_set_access_aud i t_a u a) at 1.
  apply token_endpoint_access_aud.
Qed.

(* ---------------------------------------------------------------- the access token of a release, in histories *)

(* every release in a valid history: the access token's audience list is empty when the authorization
   request named no audience; otherwise it is exactly [that audience; the userinfo URL], the client is
   configured with allow_client_chose_audiences and CorsOriginAllowed accepted the audience; the ID
   token's audience is the client alone in both cases *)
Lemma release_audiences i pre now r post idt act :
  valid i [] (pre ++ OToken now r :: post) -> token_endpoint i now r = Release idt act ->
  exists t_a u a c x,
    In (OAuthorize t_a u a) pre /\ authorize i t_a u a = Some (tr_code r) /\
    fst (presented_creds r) = ar_client a /\ find_client (ar_client a) (clients i) = Some c /\
    lookup "aud" (t_claims idt) = Some (VList [ar_client a]) /\
    dec_access (t_claims act) = Some x /\
    x_aud x = (if nonempty (ar_audience a) then [ar_audience a; s_userinfo (srv i)] else []) /\
    (ar_audience a <> [] -> cl_allow_aud c = true /\ ar_audience_ok a = true).
Proof.
  intros V R.
  destruct (idtoken_sole_audience _ _ _ _ _ R) as [_ AUD].
  destruct (release_origin _ _ _ _ _ _ _ V R) as [t_a [u [a [c [IN [A [F [FC [_ [_ [_ [_ ->]]]]]]]]]]]].
  exists t_a, u, a, c. eexists. split; [exact IN|]. split; [exact A|]. split; [exact F|]. split; [exact FC|].
  split; [rewrite <- F; exact AUD|].
  split; [unfold p_access, sign; cbn [t_claims]; apply dec_enc_access|].
  split.
  - cbn [x_aud code_of c_access_aud]. destruct (nonempty (ar_audience a)); reflexivity.
  - intro NE. destruct (authorize_audience _ _ _ _ _ A NE) as [c' [FC' [AL OK]]].
    rewrite FC in FC'. inversion FC'. subst c'. auto.
Qed.
