(* C16 — exhaustive exploration of small fixed pools: ALL schedules (lists of thread indices of any
   length) of a pool of handlers stay inside an explicitly computed finite set of worlds, which is
   closed under the step function; properties are then checked on every member of the set.
   The candidate set is computed with a first-order key (only to drop duplicates while exploring);
   closure is re-checked world by world by conversion, so nothing depends on the key. *)
From Coq Require Import Lia.
From KM Require Import Base.Bytes Model.Conc Proofs.Conc.
Open Scope N_scope.

(* ------------------------------------------------------------------ keys *)
Definition k_opt (o : option N) : list N := match o with Some x => [1; x] | None => [0] end.
Definition k_bool (b : bool) : N := if b then 1 else 0.
Definition k_tok (t : token) : list N := [t_idx t; k_bool (t_enabled t); t_name t].
Definition k_profile (p : profile) : list N :=
  N.of_nat (length (toks p)) :: flat_map k_tok (toks p) ++ k_opt (botp p) ++ [last_totp p].
Definition k_oprofile (o : option profile) : list N := match o with Some p => 1 :: k_profile p | None => [0] end.
Definition k_thread (t : thread) : list N :=
  N.of_nat (length (prog t)) :: k_opt (held t) ++ [k_bool (alive t)] ++
  (match reg t with Some (u, o) => 1 :: u :: k_oprofile o | None => [0] end) ++ k_opt (mreg t) ++ k_opt (resp t).
Definition key (w : world) : list N :=
  flat_map (fun '(u, p) => u :: k_profile p) (store w) ++ [777] ++
  flat_map (fun '(m, k, v) => [m; k; v]) (mem w) ++ [777] ++
  flat_map (fun '(l, i) => [l; N.of_nat i]) (owner w) ++ [777] ++
  flat_map k_thread (threads w) ++ [777] ++
  flat_map (fun '(u, p) => u :: k_profile p) (saved w).

Fixpoint key_eqb (a b : list N) : bool :=
  match a, b with [], [] => true | x :: a', y :: b' => (x =? y) && key_eqb a' b' | _, _ => false end.

Fixpoint find_key (k : list N) (l : list world) (i : nat) : nat :=
  match l with [] => i | w :: r => if key_eqb k (key w) then i else find_key k r (S i) end.

Fixpoint explore (stepf : world -> nat -> world) (n fuel : nat) (todo seen : list world) : list world :=
  match fuel with
  | O => seen
  | S f =>
      match todo with
      | [] => seen
      | w :: r =>
          if existsb (fun v => key_eqb (key w) (key v)) seen then explore stepf n f r seen
          else explore stepf n f (map (stepf w) (seq 0 n) ++ r) (seen ++ [w])
      end
  end.

(* ------------------------------------------------------------------ the closure argument *)
Section Closure.
  Variable stepf : world -> nat -> world.
  Variable n : nat.
  Variable S : list world.
  Variable w0 : world.
  Hypothesis stutter : forall w i, In w S -> (n <= i)%nat -> stepf w i = w.
  Hypothesis closed : forall k i, (k < length S)%nat -> (i < n)%nat -> In (stepf (nth k S w0) i) S.

  Lemma closed_step w i : In w S -> In (stepf w i) S.
  Proof.
    intros Hw. destruct (Nat.lt_ge_cases i n) as [Hi|Hi].
    - destruct (In_nth S w w0 Hw) as [k [Hk E]]. rewrite <- E. apply closed; assumption.
    - rewrite stutter; assumption.
  Qed.

  Lemma closed_fold sched : forall w, In w S -> In (fold_left stepf sched w) S.
  Proof. induction sched as [|i r IH]; simpl; intros w Hw; [exact Hw|]. apply IH, closed_step, Hw. Qed.

  Lemma closed_all (P : world -> Prop) : Forall P S -> forall w sched, In w S -> P (fold_left stepf sched w).
  Proof. intros HP w sched Hw. rewrite Forall_forall in HP. apply HP, closed_fold, Hw. Qed.
End Closure.

(* an index beyond the pool does nothing *)
Lemma step_out w i : (length (threads w) <= i)%nat -> step w i = w.
Proof. intros H. unfold step. apply nth_error_None in H. rewrite H. reflexivity. Qed.

Lemma sseg_out w i : (length (threads w) <= i)%nat -> sseg w i = w.
Proof.
  intros H. unfold sseg. rewrite (step_out w i H). unfold fuel_of.
  apply nth_error_None in H. rewrite H. reflexivity.
Qed.

Lemma stutter_of (stepf : world -> nat -> world) (n : nat) (S : list world) :
  (forall w i, (length (threads w) <= i)%nat -> stepf w i = w) ->
  forallb (fun w => Nat.eqb (length (threads w)) n) S = true ->
  forall w i, In w S -> (n <= i)%nat -> stepf w i = w.
Proof.
  intros Hout Hlen w i Hw Hi. apply Hout. rewrite forallb_forall in Hlen.
  specialize (Hlen w Hw). apply Nat.eqb_eq in Hlen. lia.
Qed.

(* ------------------------------------------------------------------ boolean race check *)
Definition race_free_b (w : world) : bool :=
  let ids := seq 0 (length (threads w)) in
  forallb (fun i => forallb (fun j => Nat.eqb i j || negb (racing w i j)) ids) ids.

Lemma race_free_sound w : race_free_b w = true -> ~ data_race w.
Proof.
  intros H (i & j & ti & tj & m & bi & bj & Ne & Hi & Hj & Ai & Aj & Hb).
  unfold race_free_b in H. rewrite forallb_forall in H.
  assert (Li : (i < length (threads w))%nat) by (apply nth_error_Some; congruence).
  assert (Lj : (j < length (threads w))%nat) by (apply nth_error_Some; congruence).
  specialize (H i). rewrite in_seq in H. specialize (H ltac:(lia)).
  rewrite forallb_forall in H. specialize (H j). rewrite in_seq in H. specialize (H ltac:(lia)).
  apply orb_true_iff in H. destruct H as [H|H]; [apply Nat.eqb_eq in H; contradiction|].
  unfold racing in H. rewrite Hi, Hj, Ai, Aj, N.eqb_refl in H. simpl in H.
  destruct Hb as [-> | ->]; [|rewrite orb_true_r in H]; discriminate.
Qed.

(* the goals `In (stepf (nth k S w0) i) S` of a concrete closure, by looking the key up *)
Ltac close_one :=
  match goal with
  | |- In ?x ?S =>
      let k := eval vm_compute in (find_key (key x) S 0) in
      apply (nth_error_In S k); vm_compute; reflexivity
  end.

(* ------------------------------------------------------------------ (6) unseal || key-serving requests *)
Definition pub_w0 : world := init_world [] [] [handler HUnseal; handler HUnseal; handler HReadKeys].
Definition pub_S : list world := Eval vm_compute in explore step 3 5000 [pub_w0] [].

Definition pub_ok (w : world) : bool :=
  race_free_b w &&
  forallb (fun t => negb (oN_eq (resp t) (Some 299))) (threads w) &&
  negb (oN_eq (resp_at w 0) (Some 200) && oN_eq (resp_at w 1) (Some 200)).

Lemma pub_closed k i : (k < length pub_S)%nat -> (i < 3)%nat -> In (step (nth k pub_S pub_w0) i) pub_S.
Proof.
  intros Hk Hi.
  destruct i as [|[|[|i]]]; [| | |exfalso; lia];
  (do 230 (destruct k as [|k]; [close_one|]); vm_compute in Hk; exfalso; lia).
Qed.

Lemma pub_stutter : forall w i, In w pub_S -> (3 <= i)%nat -> step w i = w.
Proof. apply (stutter_of step 3 pub_S step_out). vm_compute. reflexivity. Qed.

Lemma pub_all_ok : Forall (fun w => pub_ok w = true) pub_S.
Proof. apply Forall_forall. apply forallb_forall. vm_compute. reflexivity. Qed.

Lemma pub_w0_in : In pub_w0 pub_S.
Proof. left. reflexivity. Qed.

Theorem publication_safe sched :
  let w := run pub_w0 sched in
  ~ data_race w /\
  (forall i t, nth_error (threads w) i = Some t -> resp t <> Some 299) /\
  ~ (resp_at w 0 = Some 200 /\ resp_at w 1 = Some 200).
Proof.
  intros w.
  assert (H : pub_ok w = true).
  { unfold w, run. apply (closed_all step 3 pub_S pub_w0 pub_stutter pub_closed (fun w => pub_ok w = true) pub_all_ok), pub_w0_in. }
  unfold pub_ok in H. apply andb_true_iff in H. destruct H as [H H3]. apply andb_true_iff in H. destruct H as [H1 H2].
  split; [apply race_free_sound, H1|]. split.
  - intros i t Hi E. rewrite forallb_forall in H2. specialize (H2 t (nth_error_In _ _ Hi)). rewrite E in H2. discriminate.
  - intros [A B]. rewrite A, B in H3. discriminate.
Qed.

(* with the key list appended after the mutex was released: a data race on the list, and a request
   that is told "unsealed" and served no key *)
Definition split_w0 : world := init_world [] [] [handler HUnsealSplit; handler HReadKeys].
Lemma split_unseal_races : exists sched, data_race (run split_w0 sched).
Proof. exists [0; 0; 0; 0; 0; 1; 1; 1; 1]%nat. apply (racing_sound _ 0%nat 1%nat); [discriminate|]. vm_compute. reflexivity. Qed.
Lemma split_unseal_no_keys : exists sched, resp_at (run split_w0 sched) 1 = Some 299.
Proof. exists [0; 0; 0; 0; 0; 1; 1; 1; 1; 1; 1]%nat. vm_compute. reflexivity. Qed.

(* non-vacuity: the reader does get the keys after the unseal, and is refused before *)
Example pub_reader_after : map resp (threads (run pub_w0 [0; 0; 0; 0; 0; 0; 0; 2; 2; 2; 2; 2; 2; 2; 1; 1; 1; 1]%nat)) = [Some 200; Some 400; Some 200].
Proof. vm_compute. reflexivity. Qed.
Example pub_reader_before : map resp (threads (run pub_w0 [2; 2; 2; 2; 0; 0; 0; 0; 0; 0; 0]%nat)) = [Some 200; None; Some 500].
Proof. vm_compute. reflexivity. Qed.

(* ------------------------------------------------------------------ (7) one U2F assertion presented twice *)
Definition u2f_w0 : world := init_world ex_db [(M_localAuth, 1, 3)] [handler (HU2fSignResp 1 3); handler (HU2fSignResp 1 3)].
Definition u2f_S : list world := Eval vm_compute in explore sseg 2 5000 [sstart u2f_w0] [].

Lemma u2f_closed k i : (k < length u2f_S)%nat -> (i < 2)%nat -> In (sseg (nth k u2f_S (sstart u2f_w0)) i) u2f_S.
Proof.
  intros Hk Hi.
  destruct i as [|[|i]]; [| |exfalso; lia];
  (do 30 (destruct k as [|k]; [close_one|]); vm_compute in Hk; exfalso; lia).
Qed.

Lemma u2f_stutter : forall w i, In w u2f_S -> (2 <= i)%nat -> sseg w i = w.
Proof. apply (stutter_of sseg 2 u2f_S sseg_out). vm_compute. reflexivity. Qed.

Definition once_ok (w : world) : bool := negb (oN_eq (resp_at w 0) (Some 200) && oN_eq (resp_at w 1) (Some 200)).

Theorem u2f_once_at_storage_granularity sched :
  let w := run_sseg u2f_w0 sched in ~ (resp_at w 0 = Some 200 /\ resp_at w 1 = Some 200).
Proof.
  intros w.
  assert (H : once_ok w = true).
  { unfold w, run_sseg.
    apply (closed_all sseg 2 u2f_S (sstart u2f_w0) u2f_stutter u2f_closed (fun w => once_ok w = true)).
    - apply Forall_forall. apply forallb_forall. vm_compute. reflexivity.
    - left. reflexivity. }
  intros [A B]. unfold once_ok in H. rewrite A, B in H. discriminate.
Qed.

(* ... but not when a request can be pre-empted between its two critical sections (lookup, delete) *)
Lemma u2f_double_spend : exists sched,
  map resp (threads (run_seg u2f_w0 sched)) = [Some 200; Some 200] /\
  forallb (fun o => let '(r, _, _) := o in negb (list_eqb oN_eq r [Some 200; Some 200])) (serial_outcomes [1; 2] u2f_w0) = true.
Proof. exists [0; 1; 0; 1; 0; 1]%nat. vm_compute. split; reflexivity. Qed.

Example u2f_one_accepted : map resp (threads (run_sseg u2f_w0 [0; 1]%nat)) = [Some 200; Some 400].
Proof. vm_compute. reflexivity. Qed.

(* segments at storage granularity are runs, too *)
Lemma sburst_is_run f : forall w i, exists k, sburst f w i = run w (repeat i k).
Proof.
  induction f as [|f IH]; intros w i; simpl; [exists 0%nat; reflexivity|].
  destruct (nth_error (threads w) i) as [t|]; [|exists 0%nat; reflexivity].
  destruct (prog t) as [|a r]; [exists 0%nat; reflexivity|].
  destruct (is_syield a); [exists 0%nat; reflexivity|].
  destruct (IH (step w i) i) as [k Hk]. exists (S k). exact Hk.
Qed.

Lemma sseg_is_run w i : exists s, sseg w i = run w s.
Proof.
  unfold sseg. destruct (sburst_is_run (fuel_of (step w i) i) (step w i) i) as [k Hk].
  exists (i :: repeat i k). exact Hk.
Qed.

Theorem ssegments_are_runs w sched : exists s, run_sseg w sched = run w s.
Proof.
  unfold run_sseg, sstart.
  destruct (fold_runs (fun w i => sburst (fuel_of w i) w i)
              (fun w i => let (k, Hk) := sburst_is_run (fuel_of w i) w i in ex_intro _ (repeat i k) Hk)
              (seq 0 (length (threads w))) w) as [s1 H1].
  destruct (fold_runs sseg sseg_is_run sched (fold_left (fun w i => sburst (fuel_of w i) w i) (seq 0 (length (threads w))) w)) as [s2 H2].
  exists (s1 ++ s2). rewrite run_app, <- H1. exact H2.
Qed.
