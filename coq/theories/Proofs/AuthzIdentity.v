(* C08 — role certificates only for CONFIGURED automation identities, taken literally.

   cmd/keymasterd/app.go isAutomationUser compares the requested identity with every entry of
   Config.Base.AutomationUsers by Go's == on strings: byte for byte.  An entry is a name, never a
   pattern: no character of it (. + * [ ] ( ) | ? ^ $ \ { } _ % space ...) stands for anything but
   itself, letter case counts, a prefix / suffix / padded spelling of an entry is another name, and
   the empty entry names nobody (the handler refuses the empty identity before it looks).  In the
   model (Model/Authz.v) names are byte strings, [memn] is [existsb bs_eqb]; the lemmas below say
   what that means for the role-certificate step in terms of [In] (Leibniz equality of byte lists).

   The only other way to be an automation identity is the directory: membership (as the directory
   answers for the requested identity, an input of the request) of a group whose name is literally
   one of Config.Base.AutomationUserGroups. *)
From KM Require Import Base.Bytes Base.Tactics Model.Auth Model.Authz Proofs.Authz.
Import ListNotations.
Open Scope N_scope.

(* the directory's answer about the identity names no configured automation group (it failed, or it
   lists other groups only) *)
Definition no_automation_group (c : cfg) (dir : answer) : Prop :=
  forall gs g, dir = Some gs -> In g gs -> ~ In g (automation_user_groups c).

Definition no_automation_groupb (c : cfg) (dir : answer) : bool :=
  match dir with
  | None => true
  | Some gs => negb (existsb (fun g => mem g (automation_user_groups c)) gs)
  end.

Lemma no_automation_groupb_iff c dir :
  no_automation_groupb c dir = true <-> no_automation_group c dir.
Proof.
  unfold no_automation_groupb, no_automation_group. destruct dir as [gs|].
  - rewrite negb_true_iff. split.
    + intros Hn gs' g E Hg Hm. inversion E; subst gs'.
      assert (X : existsb (fun g => mem g (automation_user_groups c)) gs = true).
      { apply existsb_exists. exists g. split; [exact Hg|now apply mem_In]. }
      congruence.
    + intros H. destruct (existsb (fun g => mem g (automation_user_groups c)) gs) eqn:X; [|reflexivity].
      exfalso. apply existsb_exists in X. destruct X as (g & Hg & Hm). apply mem_In in Hm.
      exact (H gs g eq_refl Hg Hm).
  - split; [intros _ gs g E; discriminate|reflexivity].
Qed.

(* a success of the role-certificate step for an identity the directory does not put into a
   configured automation group: the identity IS an entry of automation_users *)
Theorem rolecert_exact_identity c s r :
  r_op r = RoleCert -> snd (step c s r) = ROk ->
  no_automation_group c (r_dir_target r) ->
  In (r_target r) (automation_users c).
Proof.
  intros Ho Hok Hng.
  destruct (rolecert_sound c s r Ho Hok) as (actor & level & _ & _ & Hid & _).
  destruct Hid as [Hin|(gs & g & E & Hg & Hm)]; [exact Hin|].
  exfalso. exact (Hng gs g E Hg Hm).
Qed.

(* ... and it is not the empty name *)
Theorem rolecert_identity_nonempty c s r :
  r_op r = RoleCert -> snd (step c s r) = ROk -> r_target r <> [].
Proof.
  intros Ho Hok E.
  destruct (ok_authorized c s r Hok) as (actor & level & Ha & Hal).
  unfold step in Hok. rewrite Ha, Hal, Ho in Hok. simpl in Hok.
  destruct (r_post r); simpl in Hok; [|discriminate].
  unfold perform in Hok. rewrite Ho in Hok. simpl in Hok. rewrite E in Hok. simpl in Hok. discriminate.
Qed.

(* the same read the other way: whoever asks (any credential, any administrator verdict, any
   parameters, any stored profiles), an identity that is not literally configured — however much
   it resembles an entry — is refused and nothing is stored *)
Theorem rolecert_unconfigured_refused c s r :
  r_op r = RoleCert ->
  ~ In (r_target r) (automation_users c) ->
  no_automation_group c (r_dir_target r) ->
  snd (step c s r) <> ROk /\ fst (step c s r) = s.
Proof.
  intros Ho Hn Hng.
  assert (X : snd (step c s r) <> ROk).
  { intros Hok. exact (Hn (rolecert_exact_identity c s r Ho Hok Hng)). }
  split; [exact X|exact (not_ok_untouched c s r X)].
Qed.

(* an entry is matched by itself only: two names that differ in one byte (a '.' against a '-', a
   capital against a small letter, a trailing space ...), in length, or by a prefix are different
   elements as far as [In] goes *)
Lemma name_differs_at (a b : name) (i : nat) :
  nth i a 256 <> nth i b 256 -> a <> b.
Proof. intros H E. apply H. now rewrite E. Qed.

Lemma name_differs_length (a b : name) : length a <> length b -> a <> b.
Proof. intros H E. apply H. now rewrite E. Qed.

(* a single configured entry: the step succeeds for that entry only *)
Corollary rolecert_single_entry c s r e :
  automation_users c = [e] ->
  r_op r = RoleCert -> snd (step c s r) = ROk ->
  no_automation_group c (r_dir_target r) ->
  r_target r = e.
Proof.
  intros Hc Ho Hok Hng. pose proof (rolecert_exact_identity c s r Ho Hok Hng) as H.
  rewrite Hc in H. destruct H as [H|[]]. now symmetry.
Qed.
