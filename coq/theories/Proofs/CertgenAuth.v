(* C01 — lemmas about the factor bits, the sufficientAuthLevel loop and check_auth as
   certGenHandler calls it (requiredAuthType = AuthTypeAny).  (Proofs/Auth*.v is reserved for C06.) *)
From Coq Require Import ZArith.
From KM Require Import Base.Bytes Base.Tactics Model.Auth Model.Certgen Model.CertgenCases Proofs.CertgenSpec.
Open Scope N_scope.

Lemma land_pow2 l k : N.land l (2 ^ k) = if N.testbit l k then 2 ^ k else 0.
Proof.
  apply N.bits_inj. intro n. rewrite N.land_spec, N.pow2_bits_eqb.
  destruct (N.testbit l k) eqn:E.
  - rewrite N.pow2_bits_eqb. destruct (N.eqb_spec k n) as [->|Hn].
    + rewrite E. reflexivity.
    + apply andb_false_r.
  - rewrite N.bits_0. destruct (N.eqb_spec k n) as [->|Hn].
    + rewrite E. reflexivity.
    + apply andb_false_r.
Qed.

Lemma has_all_pow2 l k : has_all l (2 ^ k) = N.testbit l k.
Proof.
  unfold has_all. rewrite land_pow2. destruct (N.testbit l k).
  - apply N.eqb_refl.
  - apply N.eqb_neq. intro H. symmetry in H. revert H. apply N.pow_nonzero. discriminate.
Qed.

Lemma hasb_pow2 l k : hasb l (2 ^ k) = N.testbit l k.
Proof.
  unfold hasb. rewrite land_pow2. destruct (N.testbit l k).
  - apply negb_true_iff. apply N.eqb_neq. apply N.pow_nonzero. discriminate.
  - reflexivity.
Qed.

Lemma has_all_factor level f : has_all level (2 ^ bit_index f) = true <-> carries level f.
Proof. rewrite has_all_pow2. reflexivity. Qed.

(* one turn of the loop never clears the flag *)
Lemma loop_turn_or level flag s : loop_turn level flag s = flag || loop_turn level false s.
Proof.
  unfold loop_turn.
  destruct (bs_eqb s sPassword); destruct (bs_eqb s sU2F && has_all level bU2F);
  destruct (bs_eqb s sTOTP && has_all level bTOTP); destruct (bs_eqb s sVIP && has_all level bVIP);
  destruct (bs_eqb s sIPCert && has_all level bIPCert); destruct (bs_eqb s sOkta && has_all level bOkta);
  destruct (bs_eqb s sCLI && has_all level bCLI); destruct flag; reflexivity.
Qed.

Lemma loop_fold level cfg : forall flag,
  fold_left (loop_turn level) cfg flag = flag || existsb (loop_turn level false) cfg.
Proof.
  induction cfg as [|s r IH]; intro flag; simpl.
  - rewrite orb_false_r. reflexivity.
  - rewrite IH, loop_turn_or, orb_assoc. reflexivity.
Qed.

Lemma turn_spec level s :
  loop_turn level false s = true <-> s = sPassword \/ exists f, asks_for s f /\ carries level f.
Proof.
  unfold loop_turn. split.
  - intro H.
    destruct (bs_eqb s sPassword) eqn:E0; [left; apply bs_eqb_eq; exact E0|]. right.
    destruct (bs_eqb s sCLI && has_all level bCLI) eqn:E7.
    { apply andb_true_iff in E7. destruct E7 as [A B]. apply bs_eqb_eq in A. subst s.
      exists FCLI. split; [constructor|]. apply (has_all_factor level FCLI). exact B. }
    destruct (bs_eqb s sOkta && has_all level bOkta) eqn:E6.
    { apply andb_true_iff in E6. destruct E6 as [A B]. apply bs_eqb_eq in A. subst s.
      exists FOkta. split; [constructor|]. apply (has_all_factor level FOkta). exact B. }
    destruct (bs_eqb s sIPCert && has_all level bIPCert) eqn:E5.
    { apply andb_true_iff in E5. destruct E5 as [A B]. apply bs_eqb_eq in A. subst s.
      exists FIPCert. split; [constructor|]. apply (has_all_factor level FIPCert). exact B. }
    destruct (bs_eqb s sVIP && has_all level bVIP) eqn:E4.
    { apply andb_true_iff in E4. destruct E4 as [A B]. apply bs_eqb_eq in A. subst s.
      exists FVIP. split; [constructor|]. apply (has_all_factor level FVIP). exact B. }
    destruct (bs_eqb s sTOTP && has_all level bTOTP) eqn:E3.
    { apply andb_true_iff in E3. destruct E3 as [A B]. apply bs_eqb_eq in A. subst s.
      exists FTOTP. split; [constructor|]. apply (has_all_factor level FTOTP). exact B. }
    destruct (bs_eqb s sU2F && has_all level bU2F) eqn:E2.
    { apply andb_true_iff in E2. destruct E2 as [A B]. apply bs_eqb_eq in A. subst s.
      exists FU2F. split; [constructor|]. apply (has_all_factor level FU2F). exact B. }
    discriminate.
  - intros [->|[f [A C]]].
    + reflexivity.
    + apply (has_all_factor level f) in C.
      destruct A; cbn [bit_index] in C;
        change (2 ^ 3) with bU2F in C; change (2 ^ 6) with bTOTP in C; change (2 ^ 4) with bVIP in C;
        change (2 ^ 5) with bIPCert in C; change (2 ^ 7) with bOkta in C; change (2 ^ 10) with bCLI in C;
        rewrite C; vm_compute; reflexivity.
Qed.

Lemma sufficient_iff cfg level : sufficient cfg level = true <-> qualifies cfg level.
Proof.
  unfold sufficient, qualifies. rewrite loop_fold. simpl.
  destruct (has_all level bU2F) eqn:U.
  - split; [|reflexivity]. intros _. left. apply (has_all_factor level FU2F). exact U.
  - rewrite existsb_exists. split.
    + intros [s [Hin Hs]]. apply turn_spec in Hs. destruct Hs as [->|[f [A C]]].
      * right. left. exact Hin.
      * right. right. exists s, f. auto.
    + intros [H|[H|[s [f [Hin [A C]]]]]].
      * apply (has_all_factor level FU2F) in H. change (2 ^ bit_index FU2F) with bU2F in H. congruence.
      * exists sPassword. split; [exact H|]. apply turn_spec. left. reflexivity.
      * exists s. split; [exact Hin|]. apply turn_spec. right. exists f. auto.
Qed.

Lemma sufficient_false_iff cfg level : sufficient cfg level = false <-> ~ qualifies cfg level.
Proof.
  rewrite <- sufficient_iff. destruct (sufficient cfg level); split; intro H; try discriminate; auto.
  exfalso. apply H. reflexivity.
Qed.

(* ---- check_auth with requiredAuthType = AuthTypeAny, the way certGenHandler calls it *)
Definition cookie_branch_any (now : Z) (lim : bool) (c : cred) : result :=
  match c with
  | NoCred => Refuse 401
  | Basic u ok berr =>
      if negb lim then Refuse 429 else if berr then Refuse 500
      else if ok then Admit u bPassword now else Refuse 401
  | Cookie t =>
      if negb (token_ok now t) then Refuse 401
      else if (t_exp t <? now)%Z then Refuse 401
      else if negb (hasb (t_level t) bAny) then Refuse 401
      else Admit (t_sub t) (t_level t) (t_iat t)
  end.

Definition check_auth_any (now : Z) (lim : bool) (r : request) : result :=
  let csrf :=
    if r_get r then None
    else match r_origin r with
         | BadOrigin => Some (Refuse 400)
         | CrossOrigin => Some (Refuse 401)
         | _ => None
         end in
  match csrf with
  | Some x => x
  | None =>
    match r_tls r with
    | Some c =>
        match ip_restricted c, km_signed c with
        | IpOk, Some _ => Admit (c_cn c) (N.lor bKMX509 bIPCert) now
        | IpOk, None => Admit (c_cn c) bIPCert now
        | _, Some (u, nb) => Admit u bKMX509 nb
        | IpUserErr, None => Refuse 403
        | IpErr, None => Refuse 500
        end
    | None => cookie_branch_any now lim (r_cred r)
    end
  end.

Lemma check_auth_any_eq now lim r : check_auth now lim bAny r = check_auth_any now lim r.
Proof. reflexivity. Qed.

Lemma km_signed_some c u nb : km_signed c = Some (u, nb) -> keymaster_cert c /\ u = c_cn c.
Proof.
  unfold km_signed, keymaster_cert.
  destruct (c_chain2 c); simpl; [|discriminate].
  destruct (c_issuer c); try discriminate;
  destruct (c_denied c); try discriminate; destruct (c_issuer_key_trusted c); try discriminate;
  intro H; inversion H; subst; repeat split; auto; discriminate.
Qed.

Lemma km_signed_complete c : keymaster_cert c -> km_signed c = Some (c_cn c, c_not_before c).
Proof.
  unfold km_signed, keymaster_cert. intros [A [B [C D]]]. rewrite A, C, D. simpl.
  destruct (c_issuer c); try reflexivity. contradiction B. reflexivity.
Qed.

Lemma ip_restricted_ok c : ip_restricted c = IpOk <-> ip_cert_ok c.
Proof.
  unfold ip_restricted, ip_cert_ok.
  destruct (c_ip_error c), (c_ip_valid c), (c_automation c), (c_revoked c); simpl; split;
    intro H; try discriminate; try reflexivity; repeat split; try reflexivity;
    destruct H as [A [B [C D]]]; discriminate.
Qed.

Lemma aud0_is_spec aud x : aud0_is aud x = true <-> exists rest, aud = x :: rest.
Proof.
  destruct aud as [|a r]; simpl.
  - split; [discriminate|]. intros [rest H]. discriminate.
  - rewrite bs_eqb_eq. split; [intros ->; eauto|]. intros [rest H]. inversion H. reflexivity.
Qed.

(* the cookie branch's tests on the wire token, with iss / aud compared as strings *)
Lemma token_ok_valid issuer now w :
  token_ok now (token_of issuer w) = true /\ (w_exp w <? now)%Z = false <-> valid_session issuer now w.
Proof.
  unfold token_ok, valid_session, token_of. cbn.
  rewrite !andb_true_iff, negb_true_iff, N.eqb_eq, Z.leb_le, Z.ltb_ge, bs_eqb_eq, aud0_is_spec.
  tauto.
Qed.

Lemma valid_session_b_iff issuer now w : valid_session_b issuer now w = true <-> valid_session issuer now w.
Proof.
  unfold valid_session_b, valid_session.
  rewrite !andb_true_iff, negb_true_iff, N.eqb_eq, !Z.leb_le, bs_eqb_eq, aud0_is_spec. tauto.
Qed.

Lemma cookie_branch_sound st now lim q u level iat :
  cookie_branch_any now lim (carried_cred st q) = Admit u level iat -> proves st now q u level.
Proof.
  unfold cookie_branch_any, carried_cred.
  destruct (q_cookie q) as [w|] eqn:C.
  - destruct (token_ok now (token_of (issuer_of st) w)) eqn:T; simpl; [|discriminate].
    change (t_exp (token_of (issuer_of st) w)) with (w_exp w).
    change (t_level (token_of (issuer_of st) w)) with (w_level w).
    change (t_sub (token_of (issuer_of st) w)) with (w_sub w).
    destruct (w_exp w <? now)%Z eqn:E; [discriminate|].
    destruct (hasb (w_level w) bAny); simpl; [|discriminate].
    intro H. inversion H; subst. eapply P_session; eauto. apply token_ok_valid. auto.
  - destruct (q_basic q) as [b|] eqn:B; [|discriminate].
    destruct lim; simpl; [|discriminate]. destruct (b_err b) eqn:BE; [discriminate|].
    destruct (b_ok b) eqn:BO; [|discriminate].
    intro H. inversion H; subst. eapply P_password; eauto.
Qed.

Lemma csrf_none_or_refuse (q : certreq) x :
  (if match q_method q with HGet => true | _ => false end then None
   else match q_origin q with BadOrigin => Some (Refuse 400) | CrossOrigin => Some (Refuse 401) | _ => None end) = Some x ->
  exists code, x = Refuse code.
Proof.
  destruct (q_method q); destruct (q_origin q); try discriminate; intro H; inversion H; eauto.
Qed.

(* what checkAuth returns when a client certificate is presented (AuthTypeAny): the certificate
   alone decides *)
Definition tls_result (now : Z) (c : tlsinfo) : result :=
  match ip_restricted c, km_signed c with
  | IpOk, Some _ => Admit (c_cn c) (N.lor bKMX509 bIPCert) now
  | IpOk, None => Admit (c_cn c) bIPCert now
  | _, Some (u, nb) => Admit u bKMX509 nb
  | IpUserErr, None => Refuse 403
  | IpErr, None => Refuse 500
  end.

Lemma tls_result_sound st now q c u level iat :
  q_tls q = Some c -> names_somebody st c -> tls_result now c = Admit u level iat -> cert_proves st q u level.
Proof.
  intros TL NS. unfold tls_result.
  destruct (ip_restricted c) eqn:IP; destruct (km_signed c) as [[ku knb]|] eqn:KM;
    intro H; inversion H; subst; clear H.
  - apply km_signed_some in KM. destruct KM as [K _]. apply ip_restricted_ok in IP. eapply CP_both; eauto.
  - apply ip_restricted_ok in IP. eapply CP_ip; eauto.
  - apply km_signed_some in KM. destruct KM as [K ->]. eapply CP_km; eauto.
  - apply km_signed_some in KM. destruct KM as [K ->]. eapply CP_km; eauto.
Qed.

Lemma cert_proves_proves st now q u level : cert_proves st q u level -> proves st now q u level.
Proof.
  intros [c A N B C D|c A N B C D|c A N B C D E].
  - eapply P_km_cert; eauto.
  - eapply P_ip_cert; eauto.
  - eapply P_both; eauto.
Qed.

(* a certificate without a name: never a keymaster identity; refused unless the address test accepts it *)
Lemma km_signed_without_km c : km_signed (without_km c) = None.
Proof. unfold km_signed, without_km. cbn. destruct (c_chain2 c); cbn; [|reflexivity]. destruct (c_issuer c); destruct (c_denied c); reflexivity. Qed.
Lemma ip_restricted_without_km c : ip_restricted (without_km c) = ip_restricted c.
Proof. reflexivity. Qed.
Lemma tls_result_nameless now c : ip_restricted c <> IpOk -> exists code, tls_result now (without_km c) = Refuse code.
Proof.
  intro N. unfold tls_result. rewrite km_signed_without_km, ip_restricted_without_km.
  destruct (ip_restricted c); [contradiction| |]; eauto.
Qed.

Lemma effective_tls_named st q c : q_tls q = Some c -> names_somebody st c -> effective_tls st q = Some c.
Proof.
  intros TL NS. unfold effective_tls. rewrite TL. unfold names_somebody in NS.
  destruct (s_name st (c_cn c)); [contradiction NS; reflexivity|reflexivity].
Qed.
Lemma effective_tls_none st q : q_tls q = None -> effective_tls st q = None.
Proof. intro TL. unfold effective_tls. rewrite TL. reflexivity. Qed.

Lemma check_auth_sound st now lim q u level iat :
  check_auth now lim bAny (auth_request st q) = Admit u level iat -> proves st now q u level.
Proof.
  rewrite check_auth_any_eq. unfold check_auth_any. cbn [auth_request r_get r_origin r_tls r_cred].
  set (csrf := if match q_method q with HGet => true | _ => false end then None else _).
  destruct csrf as [x|] eqn:CS.
  - subst csrf. apply csrf_none_or_refuse in CS. destruct CS as [code ->]. discriminate.
  - clear CS csrf. unfold effective_tls. destruct (q_tls q) as [c|] eqn:TL.
    + destruct (s_name st (c_cn c)) as [|n0 nr] eqn:NM.
      * destruct (ip_restricted c) eqn:IP.
        -- apply cookie_branch_sound.
        -- intro H. destruct (tls_result_nameless now c) as [code E]; [rewrite IP; discriminate|].
           unfold tls_result in E. rewrite E in H. discriminate.
        -- intro H. destruct (tls_result_nameless now c) as [code E]; [rewrite IP; discriminate|].
           unfold tls_result in E. rewrite E in H. discriminate.
      * intro H. apply cert_proves_proves. eapply tls_result_sound; eauto.
        unfold names_somebody. rewrite NM. discriminate.
    + apply cookie_branch_sound.
Qed.

(* with a client certificate that names somebody on the connection the answer of checkAuth does not
   depend on the cookie or the Basic header, and an admission is the certificate's own *)
Lemma check_auth_with_cert st now lim q c :
  q_tls q = Some c -> names_somebody st c ->
  check_auth now lim bAny (auth_request st q) =
  match (if match q_method q with HGet => true | _ => false end then None
         else match q_origin q with BadOrigin => Some (Refuse 400) | CrossOrigin => Some (Refuse 401) | _ => None end) with
  | Some x => x
  | None => tls_result now c
  end.
Proof.
  intros TL NS. rewrite check_auth_any_eq. unfold check_auth_any. cbn [auth_request r_get r_origin r_tls r_cred].
  rewrite (effective_tls_named st q c TL NS). reflexivity.
Qed.

Lemma csrf_cases (q : certreq) :
  (exists code, (if match q_method q with HGet => true | _ => false end then None
                 else match q_origin q with BadOrigin => Some (Refuse 400) | CrossOrigin => Some (Refuse 401) | _ => None end) = Some (Refuse code)) \/
  (if match q_method q with HGet => true | _ => false end then None
   else match q_origin q with BadOrigin => Some (Refuse 400) | CrossOrigin => Some (Refuse 401) | _ => None end) = None.
Proof. destruct (q_method q); destruct (q_origin q); eauto. Qed.

(* every refusal of checkAuth carries an error status *)
Lemma check_auth_refuse_code now lim r code :
  check_auth now lim bAny r = Refuse code -> 400 <= code.
Proof.
  rewrite check_auth_any_eq. unfold check_auth_any, cookie_branch_any.
  destruct (r_get r); destruct (r_origin r); destruct (r_tls r) as [c|];
    try destruct (ip_restricted c); try destruct (km_signed c) as [[? ?]|];
    destruct (r_cred r) as [|? ok berr|t]; try destruct lim; try destruct berr; try destruct ok;
    try destruct (token_ok now t); try destruct (t_exp t <? now)%Z; try destruct (hasb (t_level t) bAny);
    simpl; intro H; inversion H; subst; vm_compute; discriminate.
Qed.
