(* C01 — lemmas about the factor bits, the sufficientAuthLevel loop and check_auth as
   certGenHandler calls it (requiredAuthType = AuthTypeAny).  (Proofs/Auth*.v is reserved for C06.) *)
From Coq Require Import ZArith.
From KM Require Import Base.Bytes Base.Tactics Model.Auth Model.Certgen Proofs.CertgenSpec.
Open Scope N_scope.

Lemma land_pow2 l k : N.land l (2 ^ k) = if N.testbit l k then 2 ^ k else 0.
Proof.
  apply N.bits_inj. intro n. rewrite N.land_spec, N.pow2_bits_eqb.
  destruct (N.testbit l k) eqn:E.
  - rewrite N.pow2_bits_eqb. destruct (N.eqb_spec k n) as [->|Hn].
    + rewrite E. reflexivity.
    + apply andb_false_r.
  - rewrite N.bits_0. destruct (N.eqb_spec k n) as [->|Hn].
    + rewrite E. reflexivity.
    + apply andb_false_r.
Qed.

Lemma has_all_pow2 l k : has_all l (2 ^ k) = N.testbit l k.
Proof.
  unfold has_all. rewrite land_pow2. destruct (N.testbit l k).
  - apply N.eqb_refl.
  - apply N.eqb_neq. intro H. symmetry in H. revert H. apply N.pow_nonzero. discriminate.
Qed.

Lemma hasb_pow2 l k : hasb l (2 ^ k) = N.testbit l k.
Proof.
  unfold hasb. rewrite land_pow2. destruct (N.testbit l k).
  - apply negb_true_iff. apply N.eqb_neq. apply N.pow_nonzero. discriminate.
  - reflexivity.
Qed.

Lemma has_all_factor level f : has_all level (2 ^ bit_index f) = true <-> carries level f.
Proof. rewrite has_all_pow2. reflexivity. Qed.

(* one turn of the loop never clears the flag *)
Lemma loop_turn_or level flag s : loop_turn level flag s = flag || loop_turn level false s.
Proof.
  unfold loop_turn.
  destruct (bs_eqb s sPassword); destruct (bs_eqb s sU2F && has_all level bU2F);
  destruct (bs_eqb s sTOTP && has_all level bTOTP); destruct (bs_eqb s sVIP && has_all level bVIP);
  destruct (bs_eqb s sIPCert && has_all level bIPCert); destruct (bs_eqb s sOkta && has_all level bOkta);
  destruct (bs_eqb s sCLI && has_all level bCLI); destruct flag; reflexivity.
Qed.

Lemma loop_fold level cfg : forall flag,
  fold_left (loop_turn level) cfg flag = flag || existsb (loop_turn level false) cfg.
Proof.
  induction cfg as [|s r IH]; intro flag; simpl.
  - rewrite orb_false_r. reflexivity.
  - rewrite IH, loop_turn_or, orb_assoc. reflexivity.
Qed.

Lemma turn_spec level s :
  loop_turn level false s = true <-> s = sPassword \/ exists f, asks_for s f /\ carries level f.
Proof.
  unfold loop_turn. split.
  - intro H.
    destruct (bs_eqb s sPassword) eqn:E0; [left; apply bs_eqb_eq; exact E0|]. right.
    destruct (bs_eqb s sCLI && has_all level bCLI) eqn:E7.
    { apply andb_true_iff in E7. destruct E7 as [A B]. apply bs_eqb_eq in A. subst s.
      exists FCLI. split; [constructor|]. apply (has_all_factor level FCLI). exact B. }
    destruct (bs_eqb s sOkta && has_all level bOkta) eqn:E6.
    { apply andb_true_iff in E6. destruct E6 as [A B]. apply bs_eqb_eq in A. subst s.
      exists FOkta. split; [constructor|]. apply (has_all_factor level FOkta). exact B. }
    destruct (bs_eqb s sIPCert && has_all level bIPCert) eqn:E5.
    { apply andb_true_iff in E5. destruct E5 as [A B]. apply bs_eqb_eq in A. subst s.
      exists FIPCert. split; [constructor|]. apply (has_all_factor level FIPCert). exact B. }
    destruct (bs_eqb s sVIP && has_all level bVIP) eqn:E4.
    { apply andb_true_iff in E4. destruct E4 as [A B]. apply bs_eqb_eq in A. subst s.
      exists FVIP. split; [constructor|]. apply (has_all_factor level FVIP). exact B. }
    destruct (bs_eqb s sTOTP && has_all level bTOTP) eqn:E3.
    { apply andb_true_iff in E3. destruct E3 as [A B]. apply bs_eqb_eq in A. subst s.
      exists FTOTP. split; [constructor|]. apply (has_all_factor level FTOTP). exact B. }
    destruct (bs_eqb s sU2F && has_all level bU2F) eqn:E2.
    { apply andb_true_iff in E2. destruct E2 as [A B]. apply bs_eqb_eq in A. subst s.
      exists FU2F. split; [constructor|]. apply (has_all_factor level FU2F). exact B. }
    discriminate.
  - intros [->|[f [A C]]].
    + reflexivity.
    + apply (has_all_factor level f) in C.
      destruct A; cbn [bit_index] in C;
        change (2 ^ 3) with bU2F in C; change (2 ^ 6) with bTOTP in C; change (2 ^ 4) with bVIP in C;
        change (2 ^ 5) with bIPCert in C; change (2 ^ 7) with bOkta in C; change (2 ^ 10) with bCLI in C;
        rewrite C; vm_compute; reflexivity.
Qed.

Lemma sufficient_iff cfg level : sufficient cfg level = true <-> qualifies cfg level.
Proof.
  unfold sufficient, qualifies. rewrite loop_fold. simpl.
  destruct (has_all level bU2F) eqn:U.
  - split; [|reflexivity]. intros _. left. apply (has_all_factor level FU2F). exact U.
  - rewrite existsb_exists. split.
    + intros [s [Hin Hs]]. apply turn_spec in Hs. destruct Hs as [->|[f [A C]]].
      * right. left. exact Hin.
      * right. right. exists s, f. auto.
    + intros [H|[H|[s [f [Hin [A C]]]]]].
      * apply (has_all_factor level FU2F) in H. change (2 ^ bit_index FU2F) with bU2F in H. congruence.
      * exists sPassword. split; [exact H|]. apply turn_spec. left. reflexivity.
      * exists s. split; [exact Hin|]. apply turn_spec. right. exists f. auto.
Qed.

Lemma sufficient_false_iff cfg level : sufficient cfg level = false <-> ~ qualifies cfg level.
Proof.
  rewrite <- sufficient_iff. destruct (sufficient cfg level); split; intro H; try discriminate; auto.
  exfalso. apply H. reflexivity.
Qed.

(* ---- check_auth with requiredAuthType = AuthTypeAny, the way certGenHandler calls it *)
Definition cookie_branch_any (now : Z) (lim : bool) (c : cred) : result :=
  match c with
  | NoCred => Refuse 401
  | Basic u ok berr =>
      if negb lim then Refuse 429 else if berr then Refuse 500
      else if ok then Admit u bPassword now else Refuse 401
  | Cookie t =>
      if negb (token_ok now t) then Refuse 401
      else if (t_exp t <? now)%Z then Refuse 401
      else if negb (hasb (t_level t) bAny) then Refuse 401
      else Admit (t_sub t) (t_level t) (t_iat t)
  end.

Definition check_auth_any (now : Z) (lim : bool) (r : request) : result :=
  let csrf :=
    if r_get r then None
    else match r_origin r with
         | BadOrigin => Some (Refuse 400)
         | CrossOrigin => Some (Refuse 401)
         | _ => None
         end in
  match csrf with
  | Some x => x
  | None =>
    match r_tls r with
    | Some c =>
        match ip_restricted c, km_signed c with
        | IpOk, Some _ => Admit (c_cn c) (N.lor bKMX509 bIPCert) now
        | IpOk, None => Admit (c_cn c) bIPCert now
        | _, Some (u, nb) => Admit u bKMX509 nb
        | IpUserErr, None => Refuse 403
        | IpErr, None => Refuse 500
        end
    | None => cookie_branch_any now lim (r_cred r)
    end
  end.

Lemma check_auth_any_eq now lim r : check_auth now lim bAny r = check_auth_any now lim r.
Proof. reflexivity. Qed.

Lemma km_signed_some c u nb : km_signed c = Some (u, nb) -> keymaster_cert c /\ u = c_cn c.
Proof.
  unfold km_signed, keymaster_cert.
  destruct (c_chain2 c); simpl; [|discriminate].
  destruct (c_issuer c); try discriminate;
  destruct (c_denied c); try discriminate; destruct (c_issuer_key_trusted c); try discriminate;
  intro H; inversion H; subst; repeat split; auto; discriminate.
Qed.

Lemma km_signed_complete c : keymaster_cert c -> km_signed c = Some (c_cn c, c_not_before c).
Proof.
  unfold km_signed, keymaster_cert. intros [A [B [C D]]]. rewrite A, C, D. simpl.
  destruct (c_issuer c); try reflexivity. contradiction B. reflexivity.
Qed.

Lemma ip_restricted_ok c : ip_restricted c = IpOk <-> ip_cert_ok c.
Proof.
  unfold ip_restricted, ip_cert_ok.
  destruct (c_ip_error c), (c_ip_valid c), (c_automation c), (c_revoked c); simpl; split;
    intro H; try discriminate; try reflexivity; repeat split; try reflexivity;
    destruct H as [A [B [C D]]]; discriminate.
Qed.

Lemma token_ok_valid now t :
  token_ok now t = true /\ (t_exp t <? now)%Z = false <-> valid_session now t.
Proof.
  unfold token_ok, valid_session. rewrite !andb_true_iff, negb_true_iff, N.eqb_eq, Z.leb_le, Z.ltb_ge.
  tauto.
Qed.

Lemma cookie_branch_sound now lim q u level iat :
  cookie_branch_any now lim (q_cred q) = Admit u level iat -> proves now q u level.
Proof.
  unfold cookie_branch_any. destruct (q_cred q) as [|bu ok berr|t] eqn:C; [discriminate| |].
  - destruct lim; simpl; [|discriminate]. destruct berr; [discriminate|]. destruct ok; [|discriminate].
    intro H. inversion H; subst. apply P_password; [exact C|reflexivity].
  - destruct (token_ok now t) eqn:T; simpl; [|discriminate].
    destruct (t_exp t <? now)%Z eqn:E; [discriminate|].
    destruct (hasb (t_level t) bAny); simpl; [|discriminate].
    intro H. inversion H; subst. eapply P_session; eauto. apply token_ok_valid. auto.
Qed.

Lemma check_auth_sound now lim q u level iat :
  check_auth now lim bAny (auth_request q) = Admit u level iat -> proves now q u level.
Proof.
  rewrite check_auth_any_eq. unfold check_auth_any. cbn [auth_request r_get r_origin r_tls r_cred].
  set (csrf := if match q_method q with HGet => true | _ => false end then None else _).
  destruct csrf as [x|] eqn:CS.
  - subst csrf. destruct (q_method q); destruct (q_origin q); try discriminate;
      inversion CS; subst; discriminate.
  - clear CS csrf. destruct (q_tls q) as [c|] eqn:TL.
    + destruct (ip_restricted c) eqn:IP; destruct (km_signed c) as [[ku knb]|] eqn:KM;
        intro H; inversion H; subst; clear H.
      * apply km_signed_some in KM. destruct KM as [K _]. apply ip_restricted_ok in IP.
        eapply P_both; eauto.
      * apply ip_restricted_ok in IP. eapply P_ip_cert; eauto.
      * apply km_signed_some in KM. destruct KM as [K ->]. eapply P_km_cert; eauto.
      * apply km_signed_some in KM. destruct KM as [K ->]. eapply P_km_cert; eauto.
    + apply cookie_branch_sound.
Qed.

(* every refusal of checkAuth carries an error status *)
Lemma check_auth_refuse_code now lim r code :
  check_auth now lim bAny r = Refuse code -> 400 <= code.
Proof.
  rewrite check_auth_any_eq. unfold check_auth_any, cookie_branch_any.
  destruct (r_get r); destruct (r_origin r); destruct (r_tls r) as [c|];
    try destruct (ip_restricted c); try destruct (km_signed c) as [[? ?]|];
    destruct (r_cred r) as [|? ok berr|t]; try destruct lim; try destruct berr; try destruct ok;
    try destruct (token_ok now t); try destruct (t_exp t <? now)%Z; try destruct (hasb (t_level t) bAny);
    simpl; intro H; inversion H; subst; vm_compute; discriminate.
Qed.
