From KM Require Import Base.Bytes Model.Dest.

Definition good (c : N) : Prop := is_bad c = false.
Definition nosl (c : N) : Prop := (c =? SL) = false.

Lemma has_false_Forall p s : has p s = false <-> Forall (fun c => p c = false) s.
Proof.
  induction s as [|x r IH]; simpl.
  - split; auto.
  - rewrite orb_false_iff, IH. split.
    + intros [A B]. constructor; auto.
    + intros H. inversion H; subst. auto.
Qed.

Lemma good_SL : good SL. Proof. reflexivity. Qed.
Lemma good_not_ctl c : good c -> is_ctl c = false.
Proof. unfold good, is_bad. rewrite orb_false_iff. tauto. Qed.
Lemma good_not_bsl c : good c -> (c =? BSL) = false.
Proof. unfold good, is_bad. rewrite orb_false_iff. tauto. Qed.

Lemma strip_good s : Forall good s -> strip s = s.
Proof.
  unfold strip. induction 1 as [|x r Hx Hr IH]; simpl; auto.
  apply good_not_ctl in Hx. unfold is_ctl in Hx. apply orb_false_iff in Hx. destruct Hx as [A B].
  apply N.ltb_ge in A.
  assert ((x =? 9) = false) by (apply N.eqb_neq; lia).
  assert ((x =? 10) = false) by (apply N.eqb_neq; lia).
  assert ((x =? 13) = false) by (apply N.eqb_neq; lia).
  rewrite H, H0, H1. simpl. now rewrite IH.
Qed.

(* split_q *)
Lemma split_q_app s : forall acc p q, split_q s acc = (p, q) -> rev acc ++ s = p ++ q.
Proof.
  induction s as [|x r IH]; simpl; intros acc p q H.
  - inversion H; subst. now rewrite !app_nil_r.
  - destruct (x =? QM) eqn:E.
    + inversion H; subst. reflexivity.
    + apply IH in H. simpl in H. rewrite <- app_assoc in H. exact H.
Qed.
Lemma split_q_tail s : forall acc p q, split_q s acc = (p, q) -> q = [] \/ exists r, q = QM :: r.
Proof.
  induction s as [|x r IH]; simpl; intros acc p q H.
  - inversion H; auto.
  - destruct (x =? QM) eqn:E.
    + inversion H; subst. apply N.eqb_eq in E. subst x. eauto.
    + eapply IH; eauto.
Qed.
Lemma split_q_good s : forall acc p q, split_q s acc = (p, q) ->
  Forall good acc -> Forall good s -> Forall good p /\ Forall good q.
Proof.
  induction s as [|x r IH]; simpl; intros acc p q H Ha Hs.
  - inversion H; subst. split; auto. apply Forall_rev. auto.
  - inversion Hs; subst. destruct (x =? QM) eqn:E.
    + inversion H; subst. split; auto. apply Forall_rev. auto.
    + eapply IH; eauto.
Qed.

(* segments *)
Definition seg_ok (g : bs) : Prop := Forall good g /\ Forall nosl g.

Lemma split_sl_ok s : forall cur, Forall good s -> seg_ok cur -> Forall seg_ok (split_sl s cur).
Proof.
  induction s as [|x r IH]; simpl; intros cur Hs [Hc1 Hc2].
  - constructor; [|constructor]. split; apply Forall_rev; auto.
  - inversion Hs; subst. destruct (x =? SL) eqn:E.
    + constructor. { split; apply Forall_rev; auto. }
      apply IH; auto. split; constructor.
    + apply IH; auto. split; constructor; auto.
Qed.

Definition seg_ne (g : bs) : Prop := g <> [].

Lemma norm_ok segs : forall stack,
  Forall seg_ok segs -> Forall (fun g => seg_ok g /\ seg_ne g) stack ->
  Forall (fun g => seg_ok g /\ seg_ne g) (norm segs stack).
Proof.
  induction segs as [|g r IH]; simpl; intros stack Hs Hst.
  - apply Forall_rev. auto.
  - inversion Hs; subst.
    destruct (is_empty g || is_dot g) eqn:E1; [apply IH; auto|].
    destruct (is_dotdot g) eqn:E2.
    + apply IH; auto. destruct stack; simpl; auto. inversion Hst; auto.
    + apply IH; auto. constructor; auto. split; auto.
      intro; subst. simpl in E1. discriminate.
Qed.

Lemma join_good segs : Forall (fun g => seg_ok g /\ seg_ne g) segs -> Forall good (join_sl segs).
Proof.
  induction 1 as [|g r [[Hg _] _] Hr IH]; simpl; auto.
  destruct r; auto. apply Forall_app. split; auto. constructor; auto. apply good_SL.
Qed.

Lemma join_head segs : Forall (fun g => seg_ok g /\ seg_ne g) segs ->
  join_sl segs = [] \/ exists c t, join_sl segs = c :: t /\ good c /\ nosl c.
Proof.
  intros H. destruct H as [|g r [[Hg Hn] Hne] Hr]; simpl; auto.
  right. destruct g as [|c t]; [exfalso; apply Hne; reflexivity|].
  inversion Hg; subst. inversion Hn; subst.
  destruct r; simpl; eauto.
Qed.

Lemma ends_slash_single : ends_slash [SL] = true. Proof. reflexivity. Qed.

Lemma accepted_facts s : accepted s = true ->
  exists r, s = SL :: r /\ second_slash s = false /\ Forall good s.
Proof.
  unfold accepted. rewrite !andb_true_iff, !negb_true_iff. intros [[A B] C].
  destruct s as [|x r]; simpl in A; [discriminate|]. apply N.eqb_eq in A. subst x.
  exists r. repeat split; auto. apply has_false_Forall in C. exact C.
Qed.

Lemma same_origin_intro loc c t :
  Forall good loc -> loc = SL :: c :: t -> nosl c -> same_origin loc = true.
Proof.
  intros G E Hc. unfold same_origin. rewrite (strip_good _ G).
  assert (Hctl : has is_ctl loc = false).
  { apply has_false_Forall.
    apply Forall_impl with (P := good); [intros; apply good_not_ctl; auto|]. exact G. }
  rewrite Hctl. subst loc.
  inversion G as [|? ? _ G1]; subst. inversion G1 as [|? ? Gc G2]; subst.
  cbn [starts_slash second_is]. unfold nosl in Hc. rewrite Hc, (good_not_bsl _ Gc).
  reflexivity.
Qed.

Lemma same_origin_single : same_origin [SL] = true. Proof. reflexivity. Qed.

(* hex escaping keeps "good" bytes good and the head of the string in place *)
Lemma hexd_good n : good (hexd n) /\ nosl (hexd n).
Proof.
  unfold hexd, good, nosl, is_bad, is_ctl, SL, BSL.
  destruct (n <? 10) eqn:A; [|destruct (n <? 16) eqn:B].
  - apply N.ltb_lt in A. rewrite ?orb_false_iff.
    repeat split; try (apply N.ltb_ge; lia); apply N.eqb_neq; lia.
  - apply N.ltb_ge in A. apply N.ltb_lt in B. rewrite ?orb_false_iff.
    repeat split; try (apply N.ltb_ge; lia); apply N.eqb_neq; lia.
  - split; reflexivity.
Qed.

Lemma good_PCT : good PCT /\ nosl PCT. Proof. split; reflexivity. Qed.

Lemma hex_escape_good s : Forall good s -> Forall good (hex_escape s).
Proof.
  induction 1 as [|c r Hc Hr IH]; simpl; auto.
  destruct (c <? 128).
  - constructor; auto.
  - constructor; [apply good_PCT|]. constructor; [apply hexd_good|]. constructor; [apply hexd_good|]. exact IH.
Qed.

Lemma hex_escape_head c t : good c -> nosl c ->
  exists c' t', hex_escape (SL :: c :: t) = SL :: c' :: t' /\ nosl c'.
Proof.
  intros Gc Nc. cbn [hex_escape]. change (SL <? 128) with true. cbv iota.
  destruct (c <? 128); eauto. eexists _, _. split; [reflexivity|]. apply good_PCT.
Qed.

Lemma same_origin_hex loc c t :
  Forall good loc -> loc = SL :: c :: t -> nosl c -> same_origin (hex_escape loc) = true.
Proof.
  intros G E Nc. subst loc.
  assert (Gc : good c) by (inversion G as [|? ? _ G1]; inversion G1; auto).
  destruct (hex_escape_head c t Gc Nc) as [c' [t' [E' Nc']]].
  eapply same_origin_intro; [apply hex_escape_good; exact G | exact E' | exact Nc'].
Qed.

Theorem location_same_origin : forall pf s, same_origin (location pf s) = true.
Proof.
  intros pf s. unfold location, get_login_destination.
  destruct (accepted s) eqn:A.
  2:{ destruct pf; vm_compute; reflexivity. }
  apply accepted_facts in A. destruct A as [r [E [S2 G]]].
  unfold redirect_location. destruct pf.
  - (* verbatim *)
    subst s. destruct r as [|c t]; [reflexivity|].
    eapply same_origin_hex; [exact G | reflexivity | exact S2].
  - destruct (split_q s []) as [p q] eqn:Q.
    assert (Q2 := split_q_tail _ _ _ _ Q).
    destruct (split_q_good _ _ _ _ Q (Forall_nil _) G) as [Gp Gq].
    set (segs := norm (split_sl p []) []).
    assert (Hsegs : Forall (fun g => seg_ok g /\ seg_ne g) segs).
    { apply norm_ok; [|constructor]. apply split_sl_ok; auto. split; constructor. }
    unfold clean_rooted. fold segs.
    assert (Gj := join_good _ Hsegs).
    destruct (join_head _ Hsegs) as [J | [c [t [J [Gc Nc]]]]].
    + rewrite J. rewrite ends_slash_single. rewrite andb_false_r. simpl app.
      destruct Q2 as [-> | [r' ->]]; [reflexivity|].
      eapply same_origin_hex with (c := QM) (t := r'); auto.
      * constructor; [apply good_SL|]. exact Gq.
      * reflexivity.
    + rewrite J in *.
      match goal with |- same_origin (hex_escape (?x ++ q)) = true => set (cc := x) end.
      assert (exists t', cc = SL :: c :: t' /\ Forall good cc) as [t' [Ecc Gcc]].
      { subst cc. destruct (ends_slash p && negb (ends_slash (SL :: c :: t))).
        - exists (t ++ [SL]). split; [reflexivity|].
          apply Forall_app. split; [constructor; [apply good_SL|exact Gj]|constructor; [apply good_SL|constructor]].
        - exists t. split; [reflexivity|]. constructor; [apply good_SL|exact Gj]. }
      rewrite Ecc. simpl app. eapply same_origin_hex with (c := c) (t := t' ++ q); auto.
      rewrite Ecc in Gcc. inversion Gcc as [|? ? _ H2]; subst.
      constructor; [apply good_SL|]. inversion H2 as [|? ? Hc' Ht']; subst.
      constructor; [exact Hc'|]. apply Forall_app. split; assumption.
Qed.

(* the filter's own contract *)
Theorem filter_contract : forall s,
  get_login_destination s = profile \/
  (get_login_destination s = s /\ starts_slash s = true /\ second_slash s = false /\
   has is_bad s = false).
Proof.
  intros s. unfold get_login_destination. destruct (accepted s) eqn:A; [right|left; reflexivity].
  unfold accepted in A. rewrite !andb_true_iff, !negb_true_iff in A. tauto.
Qed.

(* the pre-fix filter let a backslash through; http.Redirect's own cleaning turns
   "/./\e" into "/\e" *)
Theorem location_old_refuted : exists pf s, same_origin (location_old pf s) = false.
Proof. exists false, [47;46;47;92;101]. vm_compute. reflexivity. Qed.

(* ---- the login prompt, the federated round trip, the logout redirect ---- *)
Lemma gld_not_nil s : is_nil (get_login_destination s) = false.
Proof.
  unfold get_login_destination. destruct (accepted s) eqn:A; [|reflexivity].
  destruct s; [vm_compute in A; discriminate|reflexivity].
Qed.

Theorem federated_same_origin : forall pf v, same_origin (federated_location pf v) = true.
Proof.
  intros pf v. unfold federated_location, callback_location, callback_target, pending_store.
  rewrite gld_not_nil. apply location_same_origin.
Qed.

Theorem prompt_flow_same_origin : forall oa force pf q posted,
  same_origin (prompt_flow_location oa force pf q posted) = true.
Proof.
  intros. unfold prompt_flow_location, prompt_flow_pending. cbn [prompt_starts_federated].
  apply federated_same_origin.
Qed.

Theorem prompt_never_starts : forall oa force, prompt_starts_federated oa force = false.
Proof. reflexivity. Qed.

(* parking the page destination itself would not be safe *)
Theorem unfiltered_prompt_refuted : exists q,
  same_origin (hex_escape (redirect_emit false true (callback_target (page_destination q)))) = false.
Proof.
  exists {| pr_post := false; pr_comeback := true;
                   pr_url := [104;116;116;112;115;58;47;47;101;46;120;47;97]; pr_form := [] |}.
  vm_compute. reflexivity.
Qed.

(* logout *)
Lemma strip_keep c r : is_ctl c = false -> strip (c :: r) = c :: strip r.
Proof.
  intro H. unfold is_ctl in H. apply orb_false_iff in H. destruct H as [A B]. apply N.ltb_ge in A.
  unfold strip. cbn [filter].
  replace (c =? 9) with false by (symmetry; apply N.eqb_neq; lia).
  replace (c =? 10) with false by (symmetry; apply N.eqb_neq; lia).
  replace (c =? 13) with false by (symmetry; apply N.eqb_neq; lia). reflexivity.
Qed.

Lemma hexd_not_ctl n : is_ctl (hexd n) = false.
Proof. apply good_not_ctl. apply hexd_good. Qed.

Lemma strip_hex_ctl u : has is_ctl (strip (hex_escape u)) = has is_ctl (strip u).
Proof.
  induction u as [|c r IH]; [reflexivity|].
  cbn [hex_escape]. destruct (c <? 128) eqn:L.
  - unfold strip in *. cbn [filter]. destruct (negb ((c =? 9) || (c =? 10) || (c =? 13))); cbn [has]; rewrite IH; reflexivity.
  - apply N.ltb_ge in L.
    assert (C : is_ctl c = false).
    { unfold is_ctl. apply orb_false_iff. split; [apply N.ltb_ge; lia|apply N.eqb_neq; lia]. }
    rewrite (strip_keep c r C).
    rewrite (strip_keep PCT _ eq_refl), (strip_keep _ _ (hexd_not_ctl (c / 16))), (strip_keep _ _ (hexd_not_ctl (c mod 16))).
    cbn [has]. rewrite C, !hexd_not_ctl. change (is_ctl PCT) with false. cbn [orb]. exact IH.
Qed.

Lemma logout_redirect pf u : redirect_location pf (logout_target u) = logout_target u.
Proof.
  unfold redirect_location. destruct pf; [reflexivity|].
  unfold logout_target. destruct (is_nil u); reflexivity.
Qed.

Theorem logout_same_origin : forall pf u,
  has is_ctl (strip u) = false -> same_origin (logout_location pf u) = true.
Proof.
  intros pf u H. unfold logout_location. rewrite logout_redirect.
  unfold logout_target. destruct (is_nil u); [reflexivity|].
  unfold same_origin.
  change (hex_escape (logout_prefix ++ u)) with (logout_prefix ++ hex_escape u).
  change (strip (logout_prefix ++ hex_escape u)) with (logout_prefix ++ strip (hex_escape u)).
  cbn [logout_prefix app starts_slash second_is has].
  rewrite strip_hex_ctl, H. reflexivity.
Qed.

Theorem logout_ctl_refuted : exists pf u, same_origin (logout_location pf u) = false.
Proof. exists true, [1]. vm_compute. reflexivity. Qed.
