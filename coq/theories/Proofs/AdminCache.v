(* C08 — the admin verdict memo: every verdict IsAdminUser hands out, in any history of
   queries, is backed by what the directory said (or by its failure) less than maxDuration ago. *)
From KM Require Import Base.Bytes Base.Tactics Model.AdminCache.
Import ListNotations.
Open Scope Z_scope.

(* ---- specification side (does not mention the cache) ---- *)

(* the verdict the most recent earlier query about u received (false if there is none) *)
Fixpoint last_verdict (hist : list obs) (u : bs) : bool :=
  match hist with
  | [] => false
  | o :: r => if bs_eqb (q_user (o_q o)) u then o_v o else last_verdict r u
  end.

(* verdict v for query q, after the earlier queries hist, is justified when
   (1) the directory says v right now, or
   (2) less than W ago a query about the same user got the same verdict while the directory
       said v, or
   (3) less than W ago a query about the same user got the same verdict while the directory
       was failing (the outage extends the previous verdict, retried at least every W), or
   (4) the directory fails right now and v is the previous verdict (or a refusal). *)
Definition justified (W : Z) (hist : list obs) (q : query) (v : bool) : Prop :=
  q_raw q = Some v
  \/ (exists o, In o hist /\ q_user (o_q o) = q_user q /\ o_v o = v /\
                q_raw (o_q o) = Some v /\ q_t q - q_tp (o_q o) < W)
  \/ (exists o, In o hist /\ q_user (o_q o) = q_user q /\ o_v o = v /\
                q_raw (o_q o) = None /\ q_t q - q_tp (o_q o) < W)
  \/ (q_raw q = None /\ (v = last_verdict hist (q_user q) \/ v = false)).

Fixpoint all_justified (W : Z) (hist : list obs) : Prop :=
  match hist with
  | [] => True
  | o :: older => justified W older (o_q o) (o_v o) /\ all_justified W older
  end.

(* ---- proof ---- *)

Lemma is_valid_true maxd now ts :
  min_dur < maxd <= max_dur -> is_valid maxd now ts = true -> ts <> 0 /\ now - ts < maxd.
Proof.
  intros Hm H. unfold is_valid in H.
  destruct (ts =? 0) eqn:E0; [discriminate|].
  apply Z.eqb_neq in E0. split; [exact E0|].
  unfold sat_sub in H. apply Z.ltb_lt in H.
  destruct (now - ts <? min_dur) eqn:E1.
  - apply Z.ltb_lt in E1. lia.
  - destruct (max_dur <? now - ts) eqn:E2.
    + apply Z.ltb_lt in E2. lia.
    + exact H.
Qed.

(* the saturation of time.Sub never changes the outcome of the comparison *)
Lemma is_valid_spec maxd now ts :
  min_dur < maxd <= max_dur ->
  is_valid maxd now ts = negb (ts =? 0) && (now - ts <? maxd).
Proof.
  intros Hm. unfold is_valid, sat_sub.
  destruct (ts =? 0); [reflexivity|]. simpl.
  destruct (now - ts <? min_dur) eqn:E1; [|destruct (max_dur <? now - ts) eqn:E2]; [| |reflexivity].
  - apply Z.ltb_lt in E1.
    rewrite (proj2 (Z.ltb_lt min_dur maxd)) by lia. symmetry. apply Z.ltb_lt. lia.
  - apply Z.ltb_lt in E2.
    rewrite (proj2 (Z.ltb_ge max_dur maxd)) by lia. symmetry. apply Z.ltb_ge. lia.
Qed.

Definition cache_inv (c : option cache) (hist : list obs) : Prop :=
  match c with
  | None => True
  | Some d => forall u,
      let e := lookup d u in
      e_admin e = last_verdict hist u /\
      (e_ts e <> 0 -> exists o, In o hist /\ q_user (o_q o) = u /\ o_v o = e_admin e /\
                                q_tp (o_q o) = e_ts e /\
                                (q_raw (o_q o) = Some (e_admin e) \/ q_raw (o_q o) = None))
  end.

Definition inv (W : Z) (st : option cache * list obs) : Prop :=
  all_justified W (snd st) /\ cache_inv (fst st) (snd st).

Lemma cache_inv_put d hist q v :
  cache_inv (Some d) hist ->
  (q_raw q = Some v \/ q_raw q = None) ->
  cache_inv (put (Some d) (q_tp q) (q_user q) v) ({| o_q := q; o_v := v |} :: hist).
Proof.
  intros Hc Hraw u. simpl.
  destruct (bs_eqb (q_user q) u) eqn:Eu.
  - apply bs_eqb_eq in Eu. simpl. split; [reflexivity|].
    intros _. exists {| o_q := q; o_v := v |}. simpl. auto 6.
  - destruct (Hc u) as [Ha Hs]. split; [exact Ha|].
    intros Hnz. destruct (Hs Hnz) as [o [Hin Ho]]. exists o. split; [right; exact Hin|exact Ho].
Qed.

Lemma cache_inv_keep d hist q :
  cache_inv (Some d) hist ->
  cache_inv (Some d) ({| o_q := q; o_v := e_admin (lookup d (q_user q)) |} :: hist).
Proof.
  intros Hc u. simpl.
  destruct (Hc u) as [Ha Hs].
  destruct (bs_eqb (q_user q) u) eqn:Eu.
  - apply bs_eqb_eq in Eu. subst u. split; [reflexivity|].
    intros Hnz. destruct (Hs Hnz) as [o [Hin Ho]]. exists o. split; [right; exact Hin|exact Ho].
  - split; [exact Ha|].
    intros Hnz. destruct (Hs Hnz) as [o [Hin Ho]]. exists o. split; [right; exact Hin|exact Ho].
Qed.

Lemma hstep_inv maxd st q :
  min_dur < maxd <= max_dur -> inv maxd st -> inv maxd (hstep maxd st q).
Proof.
  intros Hm [Hj Hc]. destruct st as [c hist]. simpl in Hj, Hc.
  unfold hstep, is_admin_user. simpl fst; simpl snd.
  destruct c as [d|].
  - (* a real cache *)
    simpl get.
    destruct (is_valid maxd (q_t q) (e_ts (lookup d (q_user q)))) eqn:Ev.
    + (* valid: the cached value is returned as is *)
      destruct (is_valid_true _ _ _ Hm Ev) as [Hnz Hlt].
      split; simpl.
      * split; [|exact Hj].
        destruct (Hc (q_user q)) as [_ Hs]. destruct (Hs Hnz) as [o [Hin [Hu [Hv [Htp Hr]]]]].
        destruct Hr as [Hr|Hr].
        -- right; left. exists o. rewrite Htp. auto 6.
        -- right; right; left. exists o. rewrite Htp. auto 6.
      * apply cache_inv_keep. exact Hc.
    + destruct (q_raw q) as [v|] eqn:Er.
      * (* evaluated now *)
        split; simpl.
        -- split; [left; exact Er|exact Hj].
        -- apply (cache_inv_put d hist q v Hc). left; exact Er.
      * (* the directory failed: previous value re-cached *)
        split; simpl.
        -- split; [|exact Hj]. right; right; right. split; [exact Er|].
           left. destruct (Hc (q_user q)) as [Ha _]. exact Ha.
        -- apply (cache_inv_put d hist q _ Hc). right; exact Er.
  - (* nil cache: every query is evaluated, an error refuses *)
    simpl get. cbv iota beta.
    destruct (q_raw q) as [v|] eqn:Er; simpl.
    + split; simpl; [split; [left; exact Er|exact Hj]|exact I].
    + split; simpl; [split; [|exact Hj]|exact I].
      right; right; right. split; [exact Er|right; reflexivity].
Qed.

Lemma fold_inv maxd qs : forall st,
  min_dur < maxd <= max_dur -> inv maxd st -> inv maxd (fold_left (hstep maxd) qs st).
Proof.
  induction qs as [|q r IH]; intros st Hm Hi; [exact Hi|].
  simpl. apply IH; [exact Hm|]. apply hstep_inv; assumption.
Qed.

Lemma inv_init maxd c0 : c0 = None \/ c0 = Some [] -> inv maxd (c0, []).
Proof.
  intros [->| ->]; split; simpl; auto.
  intros u. split; [reflexivity|]. intros H; exfalso; apply H; reflexivity.
Qed.

(* every verdict of every history is justified *)
Theorem cache_justified maxd c0 qs :
  min_dur < maxd <= max_dur -> (c0 = None \/ c0 = Some []) ->
  all_justified maxd (snd (hrun maxd c0 qs)).
Proof.
  intros Hm H0. unfold hrun. apply (fold_inv maxd qs (c0, []) Hm (inv_init maxd c0 H0)).
Qed.

(* ---- consequences that read like the statement ---- *)

Lemma all_justified_in W hist : all_justified W hist ->
  forall pre o post, hist = pre ++ o :: post -> justified W post (o_q o) (o_v o).
Proof.
  intros H pre. revert hist H. induction pre as [|x pre IH]; intros hist H o post ->.
  - destruct H as [H _]. exact H.
  - destruct H as [_ H]. eapply IH; [exact H|reflexivity].
Qed.

(* "re-evaluated at least every five minutes while the directory answers": if every query
   about this user during the last W (this one included) found the directory answering a, the
   verdict is a *)
Lemma justified_window W hist q v a :
  justified W hist q v ->
  q_raw q = Some a ->
  (forall o, In o hist -> q_user (o_q o) = q_user q -> q_t q - q_tp (o_q o) < W ->
             q_raw (o_q o) = Some a) ->
  v = a.
Proof.
  intros [H|[[o [Hin [Hu [_ [Hr Ht]]]]]|[[o [Hin [Hu [_ [Hr Ht]]]]]|[H _]]]] Ha Hall.
  - congruence.
  - specialize (Hall o Hin Hu Ht). congruence.
  - specialize (Hall o Hin Hu Ht). congruence.
  - congruence.
Qed.

Lemma last_verdict_in hist u : last_verdict hist u = true ->
  exists o, In o hist /\ q_user (o_q o) = u /\ o_v o = true.
Proof.
  induction hist as [|x r IH]; intros H; [discriminate|]. simpl in H.
  destruct (bs_eqb (q_user (o_q x)) u) eqn:Eu.
  - apply bs_eqb_eq in Eu. exists x. split; [left; reflexivity|auto].
  - destruct (IH H) as [o [Hin Ho]]. exists o. split; [right; exact Hin|exact Ho].
Qed.

(* a granted verdict always has a source: at this or an earlier query about the same user the
   directory (or the configured list) really said "administrator" *)
Lemma granted_has_source W hist : all_justified W hist ->
  forall o, In o hist -> o_v o = true ->
  exists o2, In o2 hist /\ q_user (o_q o2) = q_user (o_q o) /\ q_raw (o_q o2) = Some true.
Proof.
  induction hist as [|x older IH]; intros Hj o Hin Hv; [destruct Hin|].
  destruct Hj as [Hjx Hj].
  assert (Hlift : forall u, (exists o2, In o2 older /\ q_user (o_q o2) = u /\ q_raw (o_q o2) = Some true) ->
                  exists o2, In o2 (x :: older) /\ q_user (o_q o2) = u /\ q_raw (o_q o2) = Some true).
  { intros u [o2 [Hi2 H2]]. exists o2. split; [right; exact Hi2|exact H2]. }
  destruct Hin as [->|Hin].
  - rewrite Hv in Hjx.
    destruct Hjx as [H|[[o' [Hi [Hu [_ [Hr _]]]]]|[[o' [Hi [Hu [Hv' _]]]]|[_ [H|H]]]]].
    + exists o. split; [left; reflexivity|auto].
    + exists o'. split; [right; exact Hi|auto].
    + apply Hlift. destruct (IH Hj o' Hi Hv') as [o2 [Hi2 [Hu2 Hr2]]].
      exists o2. split; [exact Hi2|]. split; [congruence|exact Hr2].
    + apply Hlift. symmetry in H. destruct (last_verdict_in _ _ H) as [o' [Hi [Hu Hv']]].
      destruct (IH Hj o' Hi Hv') as [o2 [Hi2 [Hu2 Hr2]]].
      exists o2. split; [exact Hi2|]. split; [congruence|exact Hr2].
    + discriminate.
  - apply Hlift. apply (IH Hj o Hin Hv).
Qed.

(* ---- the two role questions over the shared memo ---- *)

(* the cache and the administrator evaluations of a role history are those of the plain
   IsAdminUser history over the same queries: asking "automation administrator?" adds nothing
   to the memo but an administrator evaluation *)
Lemma rrun_is_hrun maxd rs : forall c0 (racc : list robs),
  fst (fold_left (rstep maxd) rs (c0, racc)) = fst (fold_left (hstep maxd) (map rq_q rs) (c0, map admin_obs racc)) /\
  map admin_obs (snd (fold_left (rstep maxd) rs (c0, racc))) =
  snd (fold_left (hstep maxd) (map rq_q rs) (c0, map admin_obs racc)).
Proof.
  induction rs as [|r rest IH]; intros c0 racc; simpl; [split; reflexivity|].
  unfold rstep at 2 4. unfold hstep at 2 4. unfold role_step. simpl fst. simpl snd.
  destruct (is_admin_user maxd c0 (rq_q r)) as [c' adm] eqn:E.
  specialize (IH c' ({| ro_q := r; ro_adm := adm; ro_ans := match rq_kind r with KAdmin => adm | KAutoAdmin => adm || rq_listed r end |} :: racc)).
  simpl in IH. exact IH.
Qed.

Lemma rrun_admin_obs maxd c0 rs :
  map admin_obs (snd (rrun maxd c0 rs)) = snd (hrun maxd c0 (map rq_q rs)).
Proof. unfold rrun, hrun. exact (proj2 (rrun_is_hrun maxd rs c0 [])). Qed.

(* the answer to "administrator?" is the administrator verdict of the memo, the answer to
   "automation administrator?" is that verdict or the list *)
Lemma rrun_answers maxd rs : forall c0 racc,
  (forall o, In o racc -> ro_ans o = match rq_kind (ro_q o) with KAdmin => ro_adm o | KAutoAdmin => ro_adm o || rq_listed (ro_q o) end) ->
  forall o, In o (snd (fold_left (rstep maxd) rs (c0, racc))) ->
  ro_ans o = match rq_kind (ro_q o) with KAdmin => ro_adm o | KAutoAdmin => ro_adm o || rq_listed (ro_q o) end.
Proof.
  induction rs as [|r rest IH]; intros c0 racc Hacc o Hin; simpl in Hin; [apply Hacc; exact Hin|].
  unfold rstep at 2 in Hin. unfold role_step in Hin. simpl fst in Hin. simpl snd in Hin.
  destruct (is_admin_user maxd c0 (rq_q r)) as [c' adm] eqn:E.
  eapply IH; [|exact Hin].
  intros o' [<-|Ho']; [reflexivity|apply Hacc; exact Ho'].
Qed.

(* every "administrator" answer of every role history is justified by administrator evaluations
   only: the directory / the configured list says so now; or less than maxd ago an administrator
   evaluation about the same user gave that verdict; or the directory fails and the previous
   administrator verdict (or a refusal) is repeated.  Lookups of any other kind never enter. *)
Theorem roles_admin_justified maxd c0 rs pre o post :
  min_dur < maxd <= max_dur -> (c0 = None \/ c0 = Some []) ->
  snd (rrun maxd c0 rs) = pre ++ o :: post ->
  rq_kind (ro_q o) = KAdmin ->
  justified maxd (map admin_obs post) (rq_q (ro_q o)) (ro_ans o).
Proof.
  intros Hm H0 Hs Hk.
  assert (Hans : ro_ans o = ro_adm o).
  { assert (Hin : In o (snd (rrun maxd c0 rs))) by (rewrite Hs; apply in_or_app; right; left; reflexivity).
    pose proof (rrun_answers maxd rs c0 [] (fun o H => match H with end) o Hin) as Ha.
    rewrite Hk in Ha. exact Ha. }
  rewrite Hans.
  pose proof (cache_justified maxd c0 (map rq_q rs) Hm H0) as Hj.
  rewrite <- rrun_admin_obs in Hj. rewrite Hs, map_app in Hj. simpl in Hj.
  exact (all_justified_in maxd _ Hj (map admin_obs pre) (admin_obs o) (map admin_obs post) eq_refl).
Qed.

(* a granted "administrator" answer has a source: at this or an earlier role query of EITHER kind
   about the same user, _IsAdminUser itself (configured name or group) said "administrator" *)
Theorem roles_admin_has_source maxd c0 rs o :
  min_dur < maxd <= max_dur -> (c0 = None \/ c0 = Some []) ->
  In o (snd (rrun maxd c0 rs)) -> rq_kind (ro_q o) = KAdmin -> ro_ans o = true ->
  exists o2, In o2 (snd (rrun maxd c0 rs)) /\ q_user (rq_q (ro_q o2)) = q_user (rq_q (ro_q o)) /\
             q_raw (rq_q (ro_q o2)) = Some true.
Proof.
  intros Hm H0 Hin Hk Hv.
  assert (Hans : ro_ans o = ro_adm o).
  { pose proof (rrun_answers maxd rs c0 [] (fun o H => match H with end) o Hin) as Ha.
    rewrite Hk in Ha. exact Ha. }
  pose proof (cache_justified maxd c0 (map rq_q rs) Hm H0) as Hj.
  rewrite <- rrun_admin_obs in Hj.
  assert (Hin' : In (admin_obs o) (map admin_obs (snd (rrun maxd c0 rs)))) by (apply in_map; exact Hin).
  assert (Hv' : o_v (admin_obs o) = true) by (simpl; congruence).
  destruct (granted_has_source maxd _ Hj (admin_obs o) Hin' Hv') as [x [Hx [Hu Hr]]].
  apply in_map_iff in Hx. destruct Hx as [o2 [<- Hi2]].
  exists o2. simpl in Hu, Hr. auto.
Qed.

(* the observations of a role history are about the queries of the history *)
Lemma rrun_queries maxd c0 rs o : In o (snd (rrun maxd c0 rs)) -> In (ro_q o) rs.
Proof.
  unfold rrun. intros Hi.
  assert (G : forall l c racc x, In x (snd (fold_left (rstep maxd) l (c, racc))) -> In x racc \/ In (ro_q x) l).
  { induction l as [|r rest IH]; intros c racc x Hx; simpl in Hx; [left; exact Hx|].
    unfold rstep at 2 in Hx. simpl fst in Hx. simpl snd in Hx.
    destruct (role_step maxd c r) as [c' [adm ans]].
    destruct (IH _ _ _ Hx) as [[<-|H]|H]; [right; left; reflexivity|left; exact H|right; right; exact H]. }
  destruct (G rs c0 [] o Hi) as [[]|H]. exact H.
Qed.

(* hence: somebody about whom no administrator evaluation ever says "administrator" is never
   answered "administrator" — however many "automation administrator?" questions about them were
   answered yes in between *)
Corollary roles_never_promoted maxd c0 rs u :
  min_dur < maxd <= max_dur -> (c0 = None \/ c0 = Some []) ->
  (forall r, In r rs -> q_user (rq_q r) = u -> q_raw (rq_q r) <> Some true) ->
  forall o, In o (snd (rrun maxd c0 rs)) -> rq_kind (ro_q o) = KAdmin -> q_user (rq_q (ro_q o)) = u ->
  ro_ans o = false.
Proof.
  intros Hm H0 Hnever o Hin Hk Hu.
  destruct (ro_ans o) eqn:Hv; [|reflexivity]. exfalso.
  destruct (roles_admin_has_source maxd c0 rs o Hm H0 Hin Hk Hv) as [o2 [Hi2 [Hu2 Hr2]]].
  assert (Hq : In (ro_q o2) rs) by (apply (rrun_queries maxd c0 rs o2 Hi2)).
  apply (Hnever (ro_q o2) Hq); congruence.
Qed.
