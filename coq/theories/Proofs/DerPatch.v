(* C02: changePrintableStringToGeneralString (Model/DerPatch.v) on the bytes asn1.Marshal produces for the
   PKINIT name: it changes the two string tags and nothing else, for every realm and name whose encoding is
   shorter than 2^24 bytes (the three length octets derWalk accepts); and on ANY input it returns bytes or an
   error, it never indexes out of range. *)
From KM Require Import Base.Bytes Model.DerPatch.

Local Open Scope N_scope.

(* ---------------------------------------------------------------- lengths and indexing *)
Lemma blen_app a b : blen (a ++ b) = blen a + blen b.
Proof. unfold blen. rewrite app_length. lia. Qed.
Lemma blen_cons x a : blen (x :: a) = 1 + blen a.
Proof. unfold blen. simpl length. lia. Qed.
Lemma blen_nil : blen [] = 0.
Proof. reflexivity. Qed.

Lemma get_shift pre l p : get (pre ++ l) (blen pre + p) = get l p.
Proof.
  unfold get, blen. rewrite N2Nat.inj_add, Nat2N.id.
  rewrite nth_error_app2 by lia. replace (length pre + N.to_nat p - length pre)%nat with (N.to_nat p) by lia.
  reflexivity.
Qed.

Lemma be_read_shift pre l k : forall p acc, be_read (pre ++ l) (blen pre + p) k acc = be_read l p k acc.
Proof.
  induction k as [|k IH]; intros p acc; simpl; [reflexivity|].
  rewrite get_shift. destruct (get l p); try reflexivity.
  rewrite <- N.add_assoc. apply IH.
Qed.

Lemma ltb_shift a x y : (a + x <? a + y) = (x <? y).
Proof. destruct (N.ltb_spec (a + x) (a + y)), (N.ltb_spec x y); try reflexivity; lia. Qed.
Lemma leb_shift a x y : (a + x <=? a + y) = (x <=? y).
Proof. destruct (N.leb_spec (a + x) (a + y)), (N.leb_spec x y); try reflexivity; lia. Qed.

Definition radd (k : N) (r : res N) : res N := match r with Ok x => Ok (k + x) | Err => Err | Panic => Panic end.

Lemma header_shift pre l p : der_header_at (pre ++ l) (blen pre + p) = der_header_at l p.
Proof.
  unfold der_header_at. rewrite blen_app.
  rewrite <- !N.add_assoc. rewrite !ltb_shift, !get_shift.
  destruct (blen l <? p + 2); [reflexivity|].
  destruct (get l p) as [tag| |]; destruct (get l (p + 1)) as [l0| |]; try reflexivity.
  destruct (N.land l0 128 =? 0).
  - rewrite <- !N.add_assoc, ltb_shift. reflexivity.
  - rewrite <- !N.add_assoc, !ltb_shift, be_read_shift.
    destruct ((N.land l0 127 <? 1) || (3 <? N.land l0 127) || (blen l <? p + (2 + N.land l0 127))); [reflexivity|].
    destruct (be_read l (p + 2) (N.to_nat (N.land l0 127)) 0); try reflexivity.
    rewrite <- !N.add_assoc, ltb_shift. reflexivity.
Qed.

Lemma walk_shift pre l pa : forall p, der_walk_from (pre ++ l) pa (blen pre + p) = radd (blen pre) (der_walk_from l pa p).
Proof.
  induction pa as [|e pa IH]; intros p; simpl.
  - rewrite blen_app, leb_shift. destruct (blen l <=? p); reflexivity.
  - rewrite header_shift. destruct (der_header_at l p) as [[[t n] h]| |]; try reflexivity.
    destruct e; rewrite <- ?N.add_assoc; apply IH.
Qed.

(* ---------------------------------------------------------------- bit operations on octets *)
Lemma bits_above n i k : n < 2 ^ k -> k <= i -> N.testbit n i = false.
Proof.
  intros H Hi. destruct (N.eq_dec n 0) as [->|Hn]; [apply N.bits_0|].
  apply N.bits_above_log2. apply N.lt_le_trans with k; [|exact Hi]. apply N.log2_lt_pow2; lia.
Qed.

Lemma land_small n : n < 128 -> N.land n 128 = 0.
Proof.
  intros H. apply N.bits_inj. intro i. rewrite N.land_spec, N.bits_0.
  change 128 with (2 ^ 7). rewrite N.pow2_bits_eqb.
  destruct (N.eqb_spec 7 i) as [<-|Hne]; [|apply andb_false_r].
  rewrite andb_true_r. apply bits_above with 7; [exact H|lia].
Qed.

Lemma lor_shift a b : b < 256 -> N.lor (N.shiftl a 8) b = a * 256 + b.
Proof.
  intros H. rewrite N.shiftl_mul_pow2. change (2 ^ 8) with 256.
  assert (L : N.land (a * 256) b = 0).
  { apply N.bits_inj. intro i. rewrite N.land_spec, N.bits_0.
    destruct (N.lt_ge_cases i 8) as [Hi|Hi].
    - change 256 with (2 ^ 8). rewrite N.mul_pow2_bits_low by exact Hi. reflexivity.
    - rewrite (bits_above b i 8) by (try exact Hi; exact H). apply andb_false_r. }
  rewrite <- N.lxor_lor by exact L. rewrite <- N.add_nocarry_lxor by exact L. reflexivity.
Qed.

(* ---------------------------------------------------------------- one header, as the encoder writes it *)
Lemma div_bound n a b : n < a * b -> b <> 0 -> n / b < a.
Proof. intros H Hb. apply N.div_lt_upper_bound; [exact Hb|]. lia. Qed.

Ltac numerals :=
  change (0 + 1) with 1; change (0 + 2) with 2; change (2 + 1) with 3; change (3 + 1) with 4;
  change (2 + 2) with 4; change (2 + 3) with 5.
Ltac gets :=
  numerals; unfold get;
  change (N.to_nat 0) with 0%nat; change (N.to_nat 1) with 1%nat; change (N.to_nat 2) with 2%nat;
  change (N.to_nat 3) with 3%nat; change (N.to_nat 4) with 4%nat; cbn [nth_error].

Ltac ltb_false := match goal with |- context[?a <? ?b] => destruct (N.ltb_spec a b); [lia|] end.

Lemma header_hdr t n rest : n < 16777216 -> n <= blen rest ->
  der_header_at (hdr t n ++ rest) 0 = Ok (t, n, blen (hdr t n)).
Proof.
  intros Hn Hr. unfold hdr, enc_len.
  destruct (N.ltb_spec n 128) as [H1|H1].
  { unfold der_header_at. simpl app. rewrite !blen_cons. gets. cbv beta iota.
    rewrite land_small by exact H1. change (0 =? 0) with true. cbv beta iota.
    repeat ltb_false. reflexivity. }
  destruct (N.ltb_spec n 256) as [H2|H2].
  { unfold der_header_at. simpl app. rewrite !blen_cons. gets. cbv beta iota.
    change (N.land 129 128 =? 0) with false. change (N.land 129 127) with 1. cbv beta iota.
    change (1 <? 1) with false. change (3 <? 1) with false. cbn [orb].
    change (N.to_nat 1) with 1%nat. cbn [be_read]. gets. cbv beta iota.
    change (N.shiftl 0 8) with 0. rewrite N.lor_0_l.
    repeat ltb_false. reflexivity. }
  destruct (N.ltb_spec n 65536) as [H3|H3].
  { unfold der_header_at. simpl app. rewrite !blen_cons. gets. cbv beta iota.
    change (N.land 130 128 =? 0) with false. change (N.land 130 127) with 2. cbv beta iota.
    change (2 <? 1) with false. change (3 <? 2) with false. cbn [orb].
    change (N.to_nat 2) with 2%nat. cbn [be_read]. gets. cbv beta iota.
    change (N.shiftl 0 8) with 0. rewrite N.lor_0_l.
    rewrite lor_shift by (apply N.mod_lt; lia).
    replace (n / 256 * 256 + n mod 256) with n by (rewrite (N.div_mod n 256) at 1; lia).
    repeat ltb_false. reflexivity. }
  destruct (N.ltb_spec n 16777216) as [H4|H4]; [|lia].
  { unfold der_header_at. simpl app. rewrite !blen_cons. gets. cbv beta iota.
    change (N.land 131 128 =? 0) with false. change (N.land 131 127) with 3. cbv beta iota.
    change (3 <? 1) with false. change (3 <? 3) with false. cbn [orb].
    change (N.to_nat 3) with 3%nat. cbn [be_read]. gets. cbv beta iota.
    change (N.shiftl 0 8) with 0. rewrite N.lor_0_l.
    rewrite !lor_shift by (apply N.mod_lt; lia).
    assert (E1 : n / 65536 * 256 + (n / 256) mod 256 = n / 256).
    { change 65536 with (256 * 256). rewrite <- N.div_div by lia.
      rewrite (N.div_mod (n / 256) 256) at 3 by lia. lia. }
    rewrite E1.
    replace (n / 256 * 256 + n mod 256) with n by (rewrite (N.div_mod n 256) at 1; lia).
    repeat ltb_false. reflexivity. }
Qed.

Definition hl (n : N) : N := blen (hdr 0 n).
Lemma blen_hdr t n : blen (hdr t n) = hl n.
Proof. reflexivity. Qed.
Lemma blen_tlv t c : blen (tlv t c) = hl (blen c) + blen c.
Proof. unfold tlv. rewrite blen_app. reflexivity. Qed.
Lemma hl_pos n : 2 <= hl n.
Proof.
  unfold hl, hdr, enc_len. rewrite blen_cons.
  destruct (n <? 128); [|destruct (n <? 256); [|destruct (n <? 65536); [|destruct (n <? 16777216)]]];
    rewrite ?blen_cons, blen_nil; lia.
Qed.

(* ---------------------------------------------------------------- one step of the walk over an element *)
Lemma walk_enter t c post pa : blen c < 16777216 ->
  der_walk_from (tlv t c ++ post) (E :: pa) 0 = radd (hl (blen c)) (der_walk_from (c ++ post) pa 0).
Proof.
  intros H. unfold tlv. rewrite <- app_assoc. cbn [der_walk_from].
  rewrite header_hdr by (rewrite ?blen_app; lia). change E with true. cbv iota. rewrite N.add_0_l.
  pose proof (walk_shift (hdr t (blen c)) (c ++ post) pa 0) as W. rewrite N.add_0_r in W. rewrite W. reflexivity.
Qed.

Lemma walk_skip t c post pa : blen c < 16777216 ->
  der_walk_from (tlv t c ++ post) (S_ :: pa) 0 = radd (blen (tlv t c)) (der_walk_from post pa 0).
Proof.
  intros H. pose proof (walk_shift (tlv t c) post pa 0) as W. rewrite N.add_0_r in W. rewrite <- W. clear W.
  unfold tlv at 1. rewrite <- app_assoc. cbn [der_walk_from].
  rewrite header_hdr by (rewrite ?blen_app; lia). change S_ with false. cbv iota. rewrite N.add_0_l.
  unfold tlv. rewrite <- app_assoc, blen_app. reflexivity.
Qed.

Lemma walk_here x l : der_walk_from (x :: l) [] 0 = Ok 0.
Proof. cbn [der_walk_from]. rewrite blen_cons. destruct (N.leb_spec (1 + blen l) 0); [lia|reflexivity]. Qed.

(* ---------------------------------------------------------------- set *)
Lemma upd_app pre x rest v : upd_nat (pre ++ x :: rest) (length pre) v = Some (pre ++ v :: rest).
Proof. induction pre as [|y pre IH]; simpl; [reflexivity|]. rewrite IH. reflexivity. Qed.
Lemma set_app pre x rest v : set (pre ++ x :: rest) (blen pre) v = Ok (pre ++ v :: rest).
Proof. unfold set, blen. rewrite Nat2N.id, upd_app. reflexivity. Qed.

Lemma set_at pre x rest v b pos : b = pre ++ x :: rest -> pos = blen pre -> set b pos v = Ok (pre ++ v :: rest).
Proof. intros -> ->. apply set_app. Qed.

(* ---------------------------------------------------------------- the structure *)
Lemma hdr_app_eq t n n' r r' : n = n' -> r = r' -> hdr t n ++ r = hdr t n' ++ r'.
Proof. intros -> ->. reflexivity. Qed.

Ltac lens := rewrite ?blen_app, ?blen_tlv, ?blen_cons, ?blen_nil, ?blen_hdr; try reflexivity; try lia.

Lemma krb_shape_eq tr tn realm name : krb_der_with tr tn realm name = krb_shape tr tn realm name.
Proof.
  unfold krb_der_with, krb_shape, krb_pre, krb_mid, krb_seq, princ_seq, name_seq.
  rewrite <- ?app_assoc.
  repeat first [ match goal with |- ?a ++ _ = ?a ++ _ => f_equal end
               | apply hdr_app_eq; [repeat lens|]
               | match goal with |- tlv ?t ?c = _ => unfold tlv at 1; rewrite <- ?app_assoc end
               | match goal with |- tlv ?t ?c ++ _ = _ => unfold tlv at 1; rewrite <- ?app_assoc end ].
  reflexivity.
Qed.

Lemma walk_enter0 t c pa : blen c < 16777216 ->
  der_walk_from (tlv t c) (E :: pa) 0 = radd (hl (blen c)) (der_walk_from c pa 0).
Proof. intros H. pose proof (walk_enter t c [] pa H) as W. rewrite !app_nil_r in W. exact W. Qed.

Lemma walk_here_tlv t c post : der_walk_from (tlv t c ++ post) [] 0 = Ok 0.
Proof. apply walk_here. Qed.
Lemma walk_here_tlv0 t c : der_walk_from (tlv t c) [] 0 = Ok 0.
Proof. apply walk_here. Qed.

Ltac norm := repeat (rewrite blen_app || rewrite blen_tlv || rewrite blen_cons || rewrite blen_nil || rewrite blen_hdr).
Ltac norm_in H := repeat (rewrite blen_app in H || rewrite blen_tlv in H || rewrite blen_cons in H || rewrite blen_nil in H || rewrite blen_hdr in H).
Ltac bound := norm; lia.
Ltac step := first [ rewrite walk_enter by bound | rewrite walk_enter0 by bound | rewrite walk_skip by bound ].

Lemma walk_realm tr tn realm name : blen (krb_der_with tr tn realm name) < 16777216 ->
  der_walk (krb_der_with tr tn realm name) path_realm = Ok (blen (krb_pre realm name)).
Proof.
  intros H. unfold der_walk, path_realm, krb_pre.
  unfold krb_der_with, krb_seq, princ_seq, name_seq, krb_oid in *. norm_in H.
  do 5 step. rewrite walk_here_tlv. cbn [radd]. f_equal. norm. lia.
Qed.

Lemma walk_name tr tn realm name : blen (krb_der_with tr tn realm name) < 16777216 ->
  der_walk (krb_der_with tr tn realm name) path_name =
  Ok (blen (krb_pre realm name ++ tlv tr realm ++ krb_mid name)).
Proof.
  intros H. unfold der_walk, path_name, krb_pre, krb_mid.
  unfold krb_der_with, krb_seq, princ_seq, name_seq, krb_oid in *. norm_in H.
  do 10 step. rewrite walk_here_tlv0. cbn [radd]. f_equal. norm. lia.
Qed.

Lemma blen_krb_tags tr tn tr' tn' realm name :
  blen (krb_der_with tr tn realm name) = blen (krb_der_with tr' tn' realm name).
Proof. unfold krb_der_with, krb_seq, princ_seq, name_seq. norm. reflexivity. Qed.

Lemma tlv_cons t c post : tlv t c ++ post = t :: (enc_len (blen c) ++ c ++ post).
Proof. unfold tlv, hdr. simpl. rewrite <- app_assoc. reflexivity. Qed.

Lemma patch_res_krb tr tn realm name : blen (krb_der_with tr tn realm name) < 16777216 ->
  patch_res (krb_der_with tr tn realm name) = Ok (krb_der_with 27 27 realm name).
Proof.
  intros H. unfold patch_res. cbn [patch_paths].
  rewrite walk_realm by exact H.
  assert (S1 : set (krb_der_with tr tn realm name) (blen (krb_pre realm name)) 27 = Ok (krb_der_with 27 tn realm name)).
  { rewrite !krb_shape_eq. unfold krb_shape. apply set_app. }
  rewrite S1.
  rewrite walk_name by (rewrite (blen_krb_tags 27 tn tr tn); exact H).
  assert (S2 : set (krb_der_with 27 tn realm name) (blen (krb_pre realm name ++ tlv 27 realm ++ krb_mid name)) 27
               = Ok (krb_der_with 27 27 realm name)).
  { rewrite !krb_shape_eq. unfold krb_shape.
    erewrite (set_at (krb_pre realm name ++ tlv 27 realm ++ krb_mid name) tn (enc_len (blen name) ++ name));
      [| rewrite <- !app_assoc, ?tlv_cons; cbn [app]; rewrite <- ?app_assoc; reflexivity | reflexivity].
    rewrite <- !app_assoc, ?tlv_cons. cbn [app]. rewrite <- ?app_assoc. reflexivity. }
  rewrite S2. reflexivity.
Qed.

(* ---------------------------------------------------------------- the theorems *)
Theorem krb_patch_tags_only realm name :
  blen (krb_der realm name) < 16777216 ->
  patch (krb_der realm name) = Some (retag realm name) /\
  length (retag realm name) = length (krb_der realm name) /\
  krb_der realm name = krb_pre realm name ++ tlv (str_tag realm) realm ++ krb_mid name ++ tlv (str_tag name) name /\
  retag realm name = krb_pre realm name ++ tlv 27 realm ++ krb_mid name ++ tlv 27 name.
Proof.
  intros H. unfold patch, krb_der, retag in *. rewrite patch_res_krb by exact H.
  split; [reflexivity|]. split.
  - pose proof (blen_krb_tags 27 27 (str_tag realm) (str_tag name) realm name) as L. unfold blen in L. lia.
  - split; apply krb_shape_eq.
Qed.

(* a bound in terms of the two strings *)
Lemma hl_le n : hl n <= 6.
Proof.
  unfold hl, hdr, enc_len. rewrite blen_cons.
  destruct (n <? 128); [|destruct (n <? 256); [|destruct (n <? 65536); [|destruct (n <? 16777216)]]];
    rewrite ?blen_cons, blen_nil; lia.
Qed.

Lemma krb_der_len_bound tr tn realm name : blen (krb_der_with tr tn realm name) <= blen realm + blen name + 81.
Proof.
  unfold krb_der_with, krb_seq, princ_seq, name_seq, krb_oid. norm.
  repeat match goal with |- context[hl ?n] => let h := fresh "h" in let Hh := fresh "Hh" in
           pose proof (hl_le n) as Hh; set (h := hl n) in *; clearbody h end.
  lia.
Qed.

(* ---------------------------------------------------------------- no panic, on any input *)
Lemma get_ok der i : i < blen der -> exists x, get der i = Ok x.
Proof.
  intros H. unfold get. destruct (nth_error der (N.to_nat i)) eqn:E; [eauto|].
  apply nth_error_None in E. unfold blen in H. lia.
Qed.

Lemma be_read_no_panic der k : forall from acc, from + N.of_nat k <= blen der -> be_read der from k acc <> Panic.
Proof.
  induction k as [|k IH]; intros from acc H; simpl; [discriminate|].
  destruct (get_ok der from) as [x ->]; [lia|]. apply IH. lia.
Qed.

Lemma header_no_panic der p : der_header_at der p <> Panic.
Proof.
  unfold der_header_at. destruct (N.ltb_spec (blen der) (p + 2)) as [H|H]; [discriminate|].
  destruct (get_ok der p) as [t ->]; [lia|]. destruct (get_ok der (p + 1)) as [l0 ->]; [lia|].
  destruct (N.land l0 128 =? 0).
  - destruct (blen der <? p + 2 + l0); discriminate.
  - destruct (N.land l0 127 <? 1); [discriminate|]. destruct (3 <? N.land l0 127); [discriminate|].
    destruct (N.ltb_spec (blen der) (p + 2 + N.land l0 127)) as [H2|H2]; [discriminate|]. cbn [orb].
    pose proof (be_read_no_panic der (N.to_nat (N.land l0 127)) (p + 2) 0) as B.
    destruct (be_read der (p + 2) (N.to_nat (N.land l0 127)) 0).
    + destruct (blen der <? p + 2 + N.land l0 127 + a); discriminate.
    + discriminate.
    + exfalso. apply B; [|reflexivity]. rewrite N2Nat.id. exact H2.
Qed.

Lemma walk_no_panic der pa : forall p, der_walk_from der pa p <> Panic /\
  forall q, der_walk_from der pa p = Ok q -> q < blen der.
Proof.
  induction pa as [|e pa IH]; intros p; simpl.
  - destruct (N.leb_spec (blen der) p); split; try discriminate. intros q [= <-]. exact H.
  - pose proof (header_no_panic der p) as HP.
    destruct (der_header_at der p) as [[[t l] h]| |]; [apply IH| split; discriminate | contradiction].
Qed.

Lemma upd_ok b : forall i v, (i < length b)%nat -> exists b', upd_nat b i v = Some b' /\ length b' = length b.
Proof.
  induction b as [|x b IH]; intros i v H; simpl in *; [lia|].
  destruct i as [|i]; [eexists; split; reflexivity|].
  destruct (IH i v) as [b' [-> L]]; [lia|]. eexists; split; [reflexivity|]. simpl. congruence.
Qed.

Lemma set_ok b i v : i < blen b -> exists b', set b i v = Ok b' /\ blen b' = blen b.
Proof.
  intros H. unfold set. destruct (upd_ok b (N.to_nat i) v) as [b' [-> L]]; [unfold blen in H; lia|].
  exists b'. split; [reflexivity|]. unfold blen. congruence.
Qed.

Lemma patch_paths_no_panic ps : forall b, patch_paths b ps <> Panic.
Proof.
  induction ps as [|p ps IH]; intros b; simpl; [discriminate|].
  unfold der_walk. destruct (walk_no_panic b p 0) as [NP LT].
  destruct (der_walk_from b p 0) as [pos| |]; [|discriminate|contradiction].
  destruct (set_ok b pos 27 (LT pos eq_refl)) as [b' [-> _]]. apply IH.
Qed.

Theorem krb_patch_total b : patch_res b <> Panic.
Proof. apply patch_paths_no_panic. Qed.

(* what comes back has the length of what went in *)
Lemma patch_paths_length ps : forall b o, patch_paths b ps = Ok o -> length o = length b.
Proof.
  induction ps as [|p ps IH]; intros b o; simpl; [intros [= <-]; reflexivity|].
  unfold der_walk. destruct (walk_no_panic b p 0) as [NP LT].
  destruct (der_walk_from b p 0) as [pos| |]; try discriminate.
  destruct (set_ok b pos 27 (LT pos eq_refl)) as [b' [-> L]]. intros H. apply IH in H.
  unfold blen in L. lia.
Qed.

Theorem krb_patch_length b o : patch b = Some o -> length o = length b.
Proof.
  unfold patch, patch_res. destruct (patch_paths b [path_realm; path_name]) eqn:E; try discriminate.
  intros [= <-]. eapply patch_paths_length; eauto.
Qed.

(* the fixed-offset version of the function (before 0889d74): inString[16] = 27; inString[31+len(realm)] = 27.
   With a 100-byte name the second offset is no tag: a length octet is overwritten, the name's tag is not. *)
Definition patch_old (realm_len : N) (b : bs) : res bs :=
  match set b 16 27 with
  | Ok b' => set b' (31 + realm_len) 27
  | r => r
  end.

Lemma old_patch_refuted :
  let realm := [69; 88; 65; 77; 80; 76; 69; 46; 67; 79; 77] in     (* EXAMPLE.COM *)
  let name := repeat 110 100 in                                      (* 100 x "n" *)
  patch_old (blen realm) (krb_der realm name) <> Ok (retag realm name) /\
  patch (krb_der realm name) = Some (retag realm name).
Proof. vm_compute. split; [discriminate|reflexivity]. Qed.

Theorem krb_patch_tags_only_sizes realm name :
  blen realm + blen name + 81 < 16777216 -> patch (krb_der realm name) = Some (retag realm name).
Proof.
  intros H. apply krb_patch_tags_only. pose proof (krb_der_len_bound (str_tag realm) (str_tag name) realm name).
  unfold krb_der. lia.
Qed.
