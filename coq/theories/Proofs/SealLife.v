(* C09 — proofs about Model/SealLife.v: the readiness probe as a request, life cycles across restarts *)
From KM Require Import Base.Bytes Base.Tactics Model.Seal Model.SealLife Proofs.Seal.
Open Scope N_scope.

(* ------------------------------------------------------------------ the readiness probe *)
Lemma readyz_200_iff s : readyz s = 200 <-> signer s <> None.
Proof.
  unfold readyz. destruct (signer s); simpl; split; intros H; try reflexivity; try congruence; discriminate.
Qed.

Lemma readyz_probe_iff s p :
  (readyz_probe s p = 200 <-> (signer s <> None /\ p_slash p = false)) /\
  (signer s = None -> readyz_probe s p <> 200) /\
  (readyz_probe s p = 200 \/ readyz_probe s p = 503 \/ readyz_probe s p = 404).
Proof.
  unfold readyz_probe. destruct (p_slash p).
  - split; [split; [discriminate|intros [_ H]; discriminate]|]. split; [intros _; discriminate|auto].
  - split; [|split].
    + rewrite readyz_200_iff. tauto.
    + intros Hs. rewrite readyz_200_iff. tauto.
    + unfold readyz. destruct (is_some (signer s)); auto.
Qed.

Lemma readyz_probe_request_independent s p p' : p_slash p = p_slash p' -> readyz_probe s p = readyz_probe s p'.
Proof. unfold readyz_probe. intros ->. reflexivity. Qed.

(* on every state reachable by injections, for every probe: 200 exactly when one of the injections unsealed *)
Lemma readyz_probe_reachable c l p :
  let s := inject_all c (sealed_init c) l in
  readyz_probe s p = 200 -> signer s = Some (main_key c).
Proof.
  intros s H. destruct (readyz_probe_iff s p) as [[A _] _]. destruct (A H) as [Hn _].
  assert (HQ : Q c s) by (apply inject_all_Q, sealed_init_Q).
  destruct HQ as [HQ _]. assert (Hc : completeb c s = true) by (apply HQ; destruct (signer s); [reflexivity|congruence]).
  destruct (completeb_parts c s Hc) as [E _]. exact E.
Qed.

Lemma probe_predicate_sound s p : probe_violates (is_some (signer s)) (readyz_probe s p) = false.
Proof.
  unfold probe_violates, readyz_probe, readyz. destruct (p_slash p); [reflexivity|].
  destruct (signer s); reflexivity.
Qed.

Lemma chatty_refuted :
  exists (c : cfg) (p : probe),
    let s := sealed_init c in
    signer s = None /\ readyz_probe_chatty [[118; 101; 114; 98; 111; 115; 101]] s p = 200 /\ readyz_probe s p = 503 /\
    probe_violates (is_some (signer s)) (readyz_probe_chatty [[118; 101; 114; 98; 111; 115; 101]] s p) = true.
Proof.
  exists {| right_pass := [1]; main_key := 1; main_res := FGood; role_ok := true; ed_file := None; extra_pubkeys := [] |}.
  exists {| p_method := MGet; p_query := [([118; 101; 114; 98; 111; 115; 101], [])]; p_slash := false; p_accept := None |}.
  vm_compute. auto.
Qed.

(* ------------------------------------------------------------------ life cycles *)
Lemma life_is_last before : forall d last,
  life d before last = inject_all (cy_cfg last) (sealed_init (cy_cfg last)) (cy_ops last).
Proof.
  induction before as [|cy rest IH]; intros d last; simpl; [reflexivity|apply IH].
Qed.

(* what a run has derived from its key files: nothing, or the CA certificates of exactly the loaded signers *)
Definition J (c : cfg) (s : state) : Prop :=
  (signer s = None /\ ed s = None /\ ca_ders s = []) \/
  (signer s = Some (main_key c) /\ ca_ders s = loaded_keys s /\
   match ed s with Some e => exists pe r, ed_file c = Some (pe, e, r) | None => True end).

Lemma unseal_J c s p : J c s -> J c (fst (unseal_ca c s p)).
Proof.
  intros [[Hs [He Hc]]|H].
  - unfold unseal_ca. rewrite Hs. simpl.
    destruct (bs_eqb p (right_pass c)); simpl; [|left; auto].
    destruct (ed_file c) as [[[pe e] r]|] eqn:Ee.
    + destruct (bs_eqb p pe); simpl; [|left; auto].
      destruct (file_ok r); simpl; [|left; auto].
      destruct (main_ok c); simpl; [|left; auto].
      destruct (role_ok c); simpl; [|left; auto].
      right. unfold loaded_keys. simpl. rewrite Hc. simpl. split; [reflexivity|]. split; [reflexivity|]. eauto.
    + destruct (main_ok c); simpl; [|left; auto].
      destruct (role_ok c); simpl; [|left; auto].
      right. unfold loaded_keys. simpl. rewrite Hc, He. simpl. split; [reflexivity|]. split; [reflexivity|]. exact I.
  - pose proof H as H0. destruct H as [Hs _]. unfold unseal_ca. rewrite Hs. simpl. right. exact H0.
Qed.

Lemma inject_J c s r : J c s -> J c (fst (inject c s r)).
Proof.
  intros HJ. unfold inject, inject_with.
  destruct (i_tls r); simpl; [|exact HJ].
  destruct (i_chain r); simpl; [|exact HJ]. destruct (i_leaf r) as [leaf|]; simpl; [|exact HJ].
  destruct (i_field r) as [p|]; [|exact HJ].
  pose proof (unseal_J c s p HJ) as H. destruct (unseal_ca c s p) as [s' ok]. exact H.
Qed.

Lemma inject_all_J c l : forall s, J c s -> J c (inject_all c s l).
Proof. induction l as [|r rest IH]; intros s HJ; simpl; [exact HJ|apply IH, inject_J, HJ]. Qed.

Lemma sealed_init_J c : J c (sealed_init c).
Proof. left. auto. Qed.

Lemma ca_ders_loaded c l :
  let s := inject_all c (sealed_init c) l in
  ca_ders s = loaded_keys s /\
  (forall k, In k (ca_ders s) -> k = main_key c \/ exists pe r, ed_file c = Some (pe, k, r)).
Proof.
  intros s. assert (HJ : J c s) by (apply inject_all_J, sealed_init_J).
  destruct HJ as [[Hs [He Hc]]|[Hs [Hc He]]].
  - split; [unfold loaded_keys; rewrite Hs, He, Hc; reflexivity|]. rewrite Hc. intros k [].
  - split; [exact Hc|]. rewrite Hc. unfold loaded_keys. rewrite Hs. intros k Hin. apply in_app_or in Hin.
    destruct Hin as [Hin|[Hin|[]]]; [|left; auto].
    destruct (ed s) as [e|]; [|destruct Hin]. destruct Hin as [Hin|[]]. subst. right. exact He.
Qed.

(* After ANY earlier runs on the data directory (any key files, any injections, directory kept or emptied) and for
   ANY content the directory had at the very beginning: the state of the present run is the one its own key files
   and injections give; its CA certificates are those of exactly the signers loaded now; whatever any handler signs
   is signed with a key that has a CA certificate and is published. *)
Theorem published_across_restarts d before last :
  let c := cy_cfg last in
  let s := life d before last in
  (forall d' before', life d' before' last = s) /\
  ca_ders s = loaded_keys s /\
  (forall k, In k (ca_ders s) -> k = main_key c \/ exists pe r, ed_file c = Some (pe, k, r)) /\
  (forall (p : list hstep) kd k ck, In (kd, k, ck) (snd (run_handler s p [])) -> In k (ca_ders s) /\ In k (pubkeys s)).
Proof.
  intros c s. unfold s. rewrite life_is_last. split; [intros d' before'; apply life_is_last|].
  destruct (ca_ders_loaded c (cy_ops last)) as [A B]. split; [exact A|]. split; [exact B|].
  intros p kd k ck H. exact (published c (cy_ops last) p kd k ck H).
Qed.

Definition cfg_a : cfg := {| right_pass := [1]; main_key := 1; main_res := FGood; role_ok := true; ed_file := None; extra_pubkeys := [] |}.
Definition cfg_b : cfg := {| right_pass := [1]; main_key := 11; main_res := FGood; role_ok := true; ed_file := None; extra_pubkeys := [] |}.
Definition run_of (c : cfg) (fresh : bool) : cycle := {| cy_cfg := c; cy_fresh := fresh; cy_ops := [admin_inj (Some [1])] |}.

(* NOT the code: with the certificate kept per KIND of key, a rotation of the main key on a kept data directory
   publishes the OLD key's certificate; the login cookie / certificate is signed with the new key, which has no CA
   certificate.  On an emptied directory, or without a rotation, the variant agrees with the code. *)
Lemma kept_ca_refuted :
  let s := life_kept 0 [] [run_of cfg_a false] (run_of cfg_b false) in
  signer s = Some 11 /\ ca_ders s = [1] /\ pubkeys s = [11] /\
  In (1, 11, false) (snd (run_handler s [HGuard; HSign 1 false false] [])) /\ ~ In 11 (ca_ders s) /\
  ca_ders (life [] [run_of cfg_a false] (run_of cfg_b false)) = [11] /\
  ca_ders (life_kept 0 [] [run_of cfg_a false] (run_of cfg_b true)) = [11] /\
  ca_ders (life_kept 0 [] [run_of cfg_a false] (run_of cfg_a false)) = [1].
Proof.
  vm_compute. repeat split; auto. intros [H|[]]; discriminate.
Qed.
(* every published key is a pre-listed one or the key of a loaded signer *)
Definition P (c : cfg) (s : state) : Prop :=
  forall k, In k (pubkeys s) -> In k (extra_pubkeys c) \/ In k (loaded_keys s).

Lemma In_add_key k x l : In k (add_key x l) -> In k l \/ k = x.
Proof.
  unfold add_key. destruct (mem x l); [auto|]. intros H. apply in_app_or in H. destruct H as [H|[H|[]]]; auto.
Qed.

Lemma unseal_P c s p : signer s = None -> ed s = None -> P c s -> P c (fst (unseal_ca c s p)).
Proof.
  intros Hs He HP. unfold unseal_ca. rewrite Hs. simpl.
  destruct (bs_eqb p (right_pass c)); simpl; [|exact HP].
  destruct (ed_file c) as [[[pe e] r]|] eqn:Ee.
  - destruct (bs_eqb p pe); simpl; [|exact HP].
    destruct (file_ok r); simpl; [|exact HP].
    destruct (main_ok c); simpl; [|exact HP].
    destruct (role_ok c); simpl; [|exact HP].
    intros k Hk. unfold loaded_keys. simpl. unfold add_pubkeys in Hk. simpl in Hk.
    apply In_add_key in Hk. destruct Hk as [Hk|Hk]; [|right; simpl; auto].
    apply In_add_key in Hk. destruct Hk as [Hk|Hk]; [|right; simpl; auto].
    destruct (HP k Hk) as [A|A]; [left; exact A|]. unfold loaded_keys in A. rewrite Hs, He in A. destruct A.
  - destruct (main_ok c); simpl; [|exact HP].
    destruct (role_ok c); simpl; [|exact HP].
    intros k Hk. unfold loaded_keys. simpl. unfold add_pubkeys in Hk. simpl in Hk. rewrite He in Hk.
    apply In_add_key in Hk. destruct Hk as [Hk|Hk]; [|right; rewrite He; simpl; auto].
    destruct (HP k Hk) as [A|A]; [left; exact A|]. unfold loaded_keys in A. rewrite Hs, He in A. destruct A.
Qed.

Lemma inject_JP c s r : J c s /\ P c s -> J c (fst (inject c s r)) /\ P c (fst (inject c s r)).
Proof.
  intros [HJ HP]. split; [apply inject_J, HJ|].
  unfold inject, inject_with.
  destruct (i_tls r); simpl; [|exact HP].
  destruct (i_chain r); simpl; [|exact HP]. destruct (i_leaf r) as [leaf|]; simpl; [|exact HP].
  destruct (i_field r) as [p|]; [|exact HP].
  destruct HJ as [[Hs [He Hc]]|[Hs _]].
  - pose proof (unseal_P c s p Hs He HP) as H. destruct (unseal_ca c s p) as [s' ok]. exact H.
  - unfold unseal_ca. rewrite Hs. simpl. exact HP.
Qed.

Lemma inject_all_JP c l : forall s, J c s /\ P c s -> J c (inject_all c s l) /\ P c (inject_all c s l).
Proof. induction l as [|r rest IH]; intros s H; simpl; [exact H|apply IH, inject_JP, H]. Qed.

Lemma pubkeys_listed_or_loaded c l :
  let s := inject_all c (sealed_init c) l in
  forall k, In k (pubkeys s) -> In k (extra_pubkeys c) \/ In k (ca_ders s).
Proof.
  intros s k Hk.
  assert (H : J c s /\ P c s).
  { apply inject_all_JP. split; [apply sealed_init_J|]. intros k' Hk'. left. exact Hk'. }
  destruct H as [_ HP]. destruct (ca_ders_loaded c l) as [E _]. fold s in E. rewrite E. apply HP, Hk.
Qed.

Lemma mem_of_In k l : In k l -> mem k l = true.
Proof. intros H. unfold mem. apply existsb_exists. exists k. split; [exact H|apply N.eqb_refl]. Qed.

(* the predicate the case file evaluates on observed runs is never true of the model's own observation, when
   keymaster_public_keys_filename lists nothing (as in the life cases) *)
Lemma life_predicate_sound d before last :
  extra_pubkeys (cy_cfg last) = [] ->
  let s := life d before last in
  life_case_violates (is_some (signer s), pubkeys s, ca_ders s, is_some (signer s)) = false.
Proof.
  intros Hx s. unfold s. rewrite life_is_last. unfold life_case_violates.
  set (c := cy_cfg last). set (s' := inject_all c (sealed_init c) (cy_ops last)).
  destruct (is_some (signer s')) eqn:Es; [|reflexivity]. simpl.
  rewrite orb_false_r. apply negb_false_iff. unfold subset. apply forallb_forall. intros k Hk.
  destruct (pubkeys_listed_or_loaded c (cy_ops last) k Hk) as [A|A].
  - fold c in Hx. rewrite Hx in A. destruct A.
  - apply mem_of_In, A.
Qed.
