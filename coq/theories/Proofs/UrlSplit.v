From KM Require Import Base.Bytes Base.Tactics Model.Redirect Proofs.Redirect.
From KM Require Import Model.UrlSplit.

Lemma span_app p s : forall a b, span p s = (a, b) -> s = a ++ b /\ forallb p a = true /\
  (b = [] \/ exists c r, b = c :: r /\ p c = false).
Proof.
  induction s as [|c r IH]; intros a b H; simpl in H.
  - inversion H; subst. simpl. auto.
  - destruct (p c) eqn:E.
    + destruct (span p r) as [a' b'] eqn:S. inversion H; subst.
      destruct (IH _ _ eq_refl) as [-> [F T]]. simpl. rewrite E, F. auto.
    + inversion H; subst. simpl. split; auto. split; auto. right. eauto.
Qed.

Lemma span_complete p a : forall b, forallb p a = true ->
  (b = [] \/ exists c r, b = c :: r /\ p c = false) -> span p (a ++ b) = (a, b).
Proof.
  induction a as [|x a IH]; intros b F T; simpl in *.
  - destruct T as [->|[c [r [-> E]]]]; simpl; [reflexivity|]. rewrite E. reflexivity.
  - apply andb_true_iff in F. destruct F as [F1 F2]. rewrite F1, (IH b F2 T). reflexivity.
Qed.

(* what the raw string looks like when the splitter accepts it *)
Theorem plain_split_sound s u : plain_split s = Some u ->
  exists portpart,
    s = https_pfx ++ hostname u ++ portpart ++ upath u /\
    hostname u <> [] /\ forallb is_hostc (hostname u) = true /\
    (portpart = [] \/ exists port, portpart = COLON :: port /\ port <> [] /\ forallb is_digit port = true) /\
    path_ok (upath u) = true /\
    uhost u = hostname u ++ portpart /\ scheme u = https /\ opaque u = false /\ rawquery u = [].
Proof.
  unfold plain_split. destruct (prefix_b https_pfx s) eqn:P; [|discriminate]. cbn [negb].
  apply prefix_b_spec in P. destruct P as [rest ->].
  change (skipn 8 (https_pfx ++ rest)) with rest.
  destruct (span is_hostc rest) as [host r1] eqn:S1.
  destruct (span_app _ _ _ _ S1) as [-> [Fh T1]].
  destruct host as [|h0 host']; [discriminate|]. cbn [is_nil].
  destruct r1 as [|c r1'].
  - intros H. inversion H; subst. exists []. cbn. rewrite !app_nil_r.
    repeat split; auto. discriminate.
  - destruct (c =? COLON) eqn:EC.
    + apply N.eqb_eq in EC. subst c.
      destruct (span is_digit r1') as [port r2] eqn:S2.
      destruct (span_app _ _ _ _ S2) as [-> [Fp T2]].
      destruct port as [|p0 port']; [discriminate|]. cbn [is_nil].
      destruct (path_ok r2) eqn:PO; [|discriminate].
      intros H. inversion H; subst. exists (COLON :: p0 :: port'). cbn [hostname upath uhost scheme opaque rawquery mkp].
      repeat split; auto; try discriminate; try reflexivity.
      right. exists (p0 :: port'). repeat split; auto. discriminate.
    + destruct (path_ok (c :: r1')) eqn:PO; [|discriminate].
      intros H. inversion H; subst. exists []. cbn [hostname upath uhost scheme opaque rawquery mkp app].
      rewrite app_nil_r. repeat split; auto. discriminate.
Qed.

Lemma path_ok_head p : path_ok p = true -> p = [] \/ exists r, p = SLASH :: r.
Proof.
  destruct p as [|c r]; [auto|]. simpl. intros H. apply andb_true_iff in H. destruct H as [H _].
  apply N.eqb_eq in H. subst. right. eauto.
Qed.

(* every member of the grammar is split into exactly its parts *)
Theorem plain_split_complete host portpart path :
  host <> [] -> forallb is_hostc host = true ->
  (portpart = [] \/ exists port, portpart = COLON :: port /\ port <> [] /\ forallb is_digit port = true) ->
  path_ok path = true ->
  plain_split (https_pfx ++ host ++ portpart ++ path) = Some (mkp host (host ++ portpart) path).
Proof.
  intros Hne Fh Hport Hpath. unfold plain_split.
  assert (prefix_b https_pfx (https_pfx ++ host ++ portpart ++ path) = true) as P
    by (apply prefix_b_spec; eauto).
  rewrite P. cbn [negb].
  change (skipn 8 (https_pfx ++ host ++ portpart ++ path)) with (host ++ portpart ++ path).
  assert (Hslash : is_hostc SLASH = false) by reflexivity.
  assert (Hcolon : is_hostc COLON = false) by reflexivity.
  assert (Hdslash : is_digit SLASH = false) by reflexivity.
  destruct (path_ok_head _ Hpath) as [->|[pr ->]]; destruct Hport as [->|[port [-> [Pne Fp]]]].
  - cbn [app]. rewrite app_nil_r.
    rewrite <- (app_nil_r host) at 1. rewrite (span_complete is_hostc host [] Fh (or_introl eq_refl)).
    destruct host; [congruence|]. cbn [is_nil]. rewrite ?app_nil_r. reflexivity.
  - rewrite app_nil_r. rewrite (span_complete is_hostc host (COLON :: port) Fh) by (right; eauto).
    destruct host as [|h0 h]; [congruence|]. cbn [is_nil]. rewrite N.eqb_refl.
    rewrite <- (app_nil_r port) at 1. rewrite (span_complete is_digit port [] Fp (or_introl eq_refl)).
    destruct port; [congruence|]. reflexivity.
  - cbn [app]. rewrite (span_complete is_hostc host (SLASH :: pr) Fh) by (right; eauto).
    destruct host as [|h0 h]; [congruence|]. cbn [is_nil].
    change (SLASH =? COLON) with false. cbv iota. rewrite Hpath, ?app_nil_r. reflexivity.
  - rewrite (span_complete is_hostc host ((COLON :: port) ++ SLASH :: pr) Fh) by (right; cbn; eauto).
    destruct host as [|h0 h]; [congruence|]. cbn [is_nil app]. rewrite N.eqb_refl.
    rewrite (span_complete is_digit port (SLASH :: pr) Fp) by (right; eauto).
    destruct port; [congruence|]. cbn [is_nil]. rewrite Hpath. reflexivity.
Qed.

(* the decision theorem restated on raw strings of the conservative grammar: acceptance means the
   bytes between "https://" and the first ':' '/' or the end ARE a configured domain or a
   dot-separated subdomain of one *)
Theorem plain_grammar_decision domains np re s :
  domains <> [] -> can_redirect domains np re (plain_split s) = true ->
  exists host rest d,
    s = https_pfx ++ host ++ rest /\ host <> [] /\ forallb is_hostc host = true /\
    (rest = [] \/ exists c r, rest = c :: r /\ (c = COLON \/ c = SLASH)) /\
    In d domains /\ dom_spec host d.
Proof.
  intros Hd H. destruct (can_redirect_sound _ _ _ _ H) as [u [E [_ [_ [_ [_ [_ [D _]]]]]]]].
  destruct (D Hd) as [d [I DS]].
  destruct (plain_split_sound _ _ E) as [pp [Hs [Hne [Fh [Hpp [Hpo _]]]]]].
  exists (hostname u), (pp ++ upath u), d.
  split; [exact Hs|]. split; [exact Hne|]. split; [exact Fh|]. split; [|split; [exact I|exact DS]].
  destruct Hpp as [->|[port [-> _]]].
  - cbn [app]. destruct (path_ok_head _ Hpo) as [->|[r ->]]; [auto|]. right. eauto.
  - right. cbn [app]. eauto.
Qed.
