(* C01 / C02 — the specification side: what it means that a request proves a currently valid
   credential for (user, level), and that a level is one the operator accepts for certificates.
   Nothing here mentions check_auth, sufficient or certgen. *)
From Coq Require Import ZArith.
From KM Require Import Base.Bytes Model.Auth Model.Certgen.
Open Scope N_scope.

(* ---- factors: AuthTypeX = 1 << index *)
Inductive factor := FPassword | FFederated | FU2F | FVIP | FIPCert | FTOTP | FOkta | FBootstrap
                  | FKMX509 | FCLI | FFIDO2.
Definition bit_index (f : factor) : N :=
  match f with
  | FPassword => 1 | FFederated => 2 | FU2F => 3 | FVIP => 4 | FIPCert => 5 | FTOTP => 6
  | FOkta => 7 | FBootstrap => 8 | FKMX509 => 9 | FCLI => 10 | FFIDO2 => 11
  end.
Definition carries (level : N) (f : factor) : Prop := N.testbit level (bit_index f) = true.

(* the second factors an entry of allowed_auth_backends_for_certs can ask for *)
Inductive asks_for : bs -> factor -> Prop :=
| AF_U2F : asks_for sU2F FU2F
| AF_TOTP : asks_for sTOTP FTOTP
| AF_VIP : asks_for sVIP FVIP
| AF_IPCert : asks_for sIPCert FIPCert
| AF_Okta : asks_for sOkta FOkta
| AF_CLI : asks_for sCLI FCLI.

(* The operator-required authentication.  A hardware-token session always qualifies; an entry
   naming a second factor is met by a credential carrying that factor; the entry "password" is
   the weakest bar: any credential checkAuth accepts meets it (reading fixed in DESIGN, F18). *)
Definition qualifies (cfg : list bs) (level : N) : Prop :=
  carries level FU2F \/ In sPassword cfg \/
  exists s f, In s cfg /\ asks_for s f /\ carries level f.

(* the stricter reading, kept visible: "password" is met only by the password factor itself *)
Definition qualifies_strict (cfg : list bs) (level : N) : Prop :=
  carries level FU2F \/ (In sPassword cfg /\ carries level FPassword) \/
  exists s f, In s cfg /\ asks_for s f /\ carries level f.

(* ---- currently valid credentials.  A session cookie is this keymaster's own only if its iss claim
   IS the server's issuer string and the first entry of its aud claim IS that string (equality of
   byte strings: no prefix, no other port, no other case, no second place in the list). *)
Definition valid_session (issuer : bs) (now : Z) (w : wtoken) : Prop :=
  w_signer_trusted w = true /\ w_alg_allowed w = true /\ w_tampered w = false /\
  w_iss w = issuer /\ (exists rest, w_aud w = issuer :: rest) /\ w_kind w = 0 /\
  (w_nbf w <= now)%Z /\ (now <= w_exp w)%Z.

(* a client certificate issued to a user by this keymaster: a verified chain of at least two
   certificates whose issuer key is one of the keymaster keys, not the role-requesting CA, leaf
   key not on the deny list *)
Definition keymaster_cert (c : tlsinfo) : Prop :=
  c_chain2 c = true /\ c_issuer c <> RoleCA /\ c_issuer_key_trusted c = true /\ c_denied c = false.

(* an IP-restricted automation certificate presented from inside its netblocks *)
Definition ip_cert_ok (c : tlsinfo) : Prop :=
  c_ip_error c = false /\ c_ip_valid c = true /\ c_automation c = true /\ c_revoked c = false.

(* a certificate whose common name is the empty string names nobody: it is no credential *)
Definition names_somebody (st : server) (c : tlsinfo) : Prop := s_name st (c_cn c) <> [].

(* some credential among those the request carries (client certificate, session cookie, Basic
   header: any subset can be present) establishes (u, level) *)
Inductive proves (st : server) (now : Z) (q : certreq) (u level : N) : Prop :=
| P_session w : q_cookie q = Some w -> valid_session (issuer_of st) now w -> u = w_sub w -> level = w_level w ->
                proves st now q u level
| P_password b : q_basic q = Some b -> b_ok b = true -> b_err b = false -> u = b_user b -> level = bPassword ->
                 proves st now q u level
| P_km_cert c : q_tls q = Some c -> names_somebody st c -> keymaster_cert c -> u = c_cn c -> level = bKMX509 ->
                proves st now q u level
| P_ip_cert c : q_tls q = Some c -> names_somebody st c -> ip_cert_ok c -> u = c_cn c -> level = bIPCert ->
                proves st now q u level
| P_both c : q_tls q = Some c -> names_somebody st c -> keymaster_cert c -> ip_cert_ok c -> u = c_cn c ->
             level = N.lor bKMX509 bIPCert -> proves st now q u level.

(* what the presented client certificate alone establishes *)
Inductive cert_proves (st : server) (q : certreq) (u level : N) : Prop :=
| CP_km c : q_tls q = Some c -> names_somebody st c -> keymaster_cert c -> u = c_cn c -> level = bKMX509 -> cert_proves st q u level
| CP_ip c : q_tls q = Some c -> names_somebody st c -> ip_cert_ok c -> u = c_cn c -> level = bIPCert -> cert_proves st q u level
| CP_both c : q_tls q = Some c -> names_somebody st c -> keymaster_cert c -> ip_cert_ok c -> u = c_cn c ->
              level = N.lor bKMX509 bIPCert -> cert_proves st q u level.

(* ---- SSH extensions: what the certificate must carry under key k.  The last configured pair
   whose expanded key is k decides; otherwise the five standard names map to the empty string;
   the empty key is never present. *)
Section ExtSpec.
Variable expand : bs -> bs -> option bs.
Fixpoint last_writer (tpl : list (bs * bs)) (user k : bs) : option bs :=
  match tpl with
  | [] => None
  | (tk, tv) :: r =>
      match last_writer r user k with
      | Some v => Some v
      | None => match expand tk user, expand tv user with
                | Some k', Some v' => if bs_eqb k' k then Some v' else None
                | _, _ => None
                end
      end
  end.
Definition spec_ext (tpl : list (bs * bs)) (user k : bs) : option bs :=
  match k with
  | [] => None
  | _ => match last_writer tpl user k with
         | Some v => Some v
         | None => if mem_bs k std5 then Some [] else None
         end
  end.
End ExtSpec.

(* ---- a request that is otherwise in order: unsealed server, POST, no foreign Origin/Referer,
   well-formed form, a recognised type, an acceptable key, and the lookups the type needs succeed *)
Section Servable.
Variable expand : bs -> bs -> option bs.
Definition servable (st : server) (q : certreq) (user : bs) : Prop :=
  s_sealed st = false /\ q_method q = HPost /\ (q_origin q = NoOrigin \/ q_origin q = SameOrigin) /\
  q_form_ok q = true /\
  exists k ed, q_key q = Some (k, ed) /\
  match q_type q with
  | TSsh => (ed = true -> s_ed25519_ca st = true) /\
            expand_extensions expand (s_templates st) user [] <> None
  | TX509 => (q_add_groups q = true -> s_groups st user <> None) /\ s_methods st user <> None
  | TKube => s_groups st user <> None /\ s_methods st user <> None
  | TBogus => False
  end.
End Servable.
