From KM Require Import Base.Tactics Model.Lifetime.
Open Scope Z_scope.
Ltac Zify.zify_post_hook ::= Z.to_euclidean_division_equations.

Lemma handler_duration_facts maxc req iat now1 d :
  handler_duration maxc req iat now1 = Some d ->
  d <= maxc /\ d <= iat + maxc - now1 /\
  match req with Some r => 0 < r <= maxc /\ d <= r | None => True end /\
  (d = iat + maxc - now1 \/ match req with Some r => d = r | None => d = maxc end).
Proof.
  unfold handler_duration. destruct req as [r|].
  - destruct (r >? maxc) eqn:A; [discriminate|].
    destruct (r <=? 0) eqn:B; [discriminate|].
    destruct (r >? iat + maxc - now1) eqn:C; intro H; inversion H; subst; lia.
  - destruct (maxc >? iat + maxc - now1) eqn:C; intro H; inversion H; subst; lia.
Qed.

(* SSH: no wrap-around, and ValidBefore (in ns) within every bound *)
Lemma quot_cases d : (0 <= d /\ Z.quot d NS = d / NS) \/ (d < 0 /\ Z.quot d NS = - ((- d) / NS)).
Proof.
  destruct (Z_lt_le_dec d 0) as [Hd|Hd]; [right|left]; split; auto.
  - rewrite <- (Z.opp_involutive d) at 1. rewrite Z.quot_opp_l by (unfold NS; lia).
    rewrite Z.quot_div_nonneg by (unfold NS; lia). reflexivity.
  - apply Z.quot_div_nonneg; unfold NS; lia.
Qed.

Lemma ssh_bound maxc req iat now1 now2 d :
  0 < maxc < two64 * NS / 4 -> 0 <= iat -> 0 <= now1 <= now2 -> now2 < two64 * NS / 4 ->
  now1 < iat + two64 * NS / 4 ->
  handler_duration maxc req iat now1 = Some d ->
  let '(va, vb) := ssh_window now2 d in
  va = now2 / NS /\ vb = now2 / NS + Z.quot d NS /\ 0 <= vb < two64 /\
  va * NS <= now2 /\
  (0 <= d -> vb * NS <= now2 + d /\ vb * NS <= now2 + maxc /\
             vb * NS <= iat + maxc + (now2 - now1) /\
             match req with Some r => vb * NS <= now2 + r | None => True end) /\
  (d < 0 -> vb <= va).
Proof.
  intros Hm Hi Hn Hb Hb2 H. apply handler_duration_facts in H. destruct H as [H1 [H2 [H3 H4]]].
  unfold ssh_window, u64_of_secs.
  assert (E1 : (now2 / NS) mod two64 = now2 / NS).
  { apply Z.mod_small. unfold two64, NS in *. lia. }
  rewrite E1.
  assert (E2 : (now2 / NS + Z.quot d NS mod two64) mod two64 = (now2 / NS + Z.quot d NS) mod two64).
  { rewrite Zplus_mod_idemp_r. reflexivity. }
  rewrite E2.
  assert (R : 0 <= now2 / NS + Z.quot d NS < two64).
  { destruct (quot_cases d) as [[Hd E]|[Hd E]]; rewrite E; unfold two64, NS in *;
      destruct req as [r|]; lia. }
  rewrite (Z.mod_small _ _ R).
  destruct (quot_cases d) as [[Hd E]|[Hd E]]; rewrite E in *; unfold NS in *;
    (repeat split; try lia; destruct req as [r|]; try exact I; lia).
Qed.

Lemma x509_bound maxc req iat now1 now2 d :
  now1 <= now2 ->
  handler_duration maxc req iat now1 = Some d ->
  let '(nb, na) := x509_window now2 d in
  nb = now2 /\ na <= now2 + maxc /\ na <= iat + maxc + (now2 - now1) /\
  match req with Some r => na <= now2 + r | None => True end.
Proof.
  intros Hn H. apply handler_duration_facts in H. destruct H as [H1 [H2 [H3 H4]]].
  unfold x509_window. repeat split; try lia. destruct req; [lia|exact I].
Qed.

(* refusals: what the handler never signs *)
Lemma too_long_refused maxc r iat now1 : maxc < r -> handler_duration maxc (Some r) iat now1 = None.
Proof. intros H. unfold handler_duration. destruct (r >? maxc) eqn:A; [reflexivity|lia]. Qed.
Lemma nonpositive_refused maxc r iat now1 : r <= 0 -> handler_duration maxc (Some r) iat now1 = None.
Proof.
  intros H. unfold handler_duration. destruct (r >? maxc) eqn:A; [reflexivity|].
  destruct (r <=? 0) eqn:B; [reflexivity|lia].
Qed.

(* the pre-fix handler: a negative request wraps the unsigned epoch arithmetic *)
Lemma old_wraps : exists req iat now1 now2 d,
  handler_duration_old (86400 * NS) req iat now1 = Some d /\
  snd (ssh_window now2 d) > now2 / NS + 100 * 365 * 86400.
Proof.
  exists (Some (-9223372036 * NS)), (1790000000 * NS), (1790000000 * NS), (1790000000 * NS), (-9223372036 * NS).
  vm_compute. split; reflexivity.
Qed.

(* late second factors do not move the authenticated-at instant *)
Lemma upgrades_keep_iat : forall levels s, fst (upgrades s levels) = fst s.
Proof.
  unfold upgrades. induction levels as [|l r IH]; intros s; simpl; [reflexivity|].
  rewrite IH. reflexivity.
Qed.

Lemma ssh_bound_after_upgrades : forall maxc req s levels now1 now2 d,
  0 < maxc < two64 * NS / 4 -> 0 <= fst s -> 0 <= now1 <= now2 -> now2 < two64 * NS / 4 ->
  now1 < fst s + two64 * NS / 4 ->
  handler_duration maxc req (fst (upgrades s levels)) now1 = Some d -> 0 <= d ->
  snd (ssh_window now2 d) * NS <= fst s + maxc + (now2 - now1).
Proof.
  intros maxc req s levels now1 now2 d Hm Hi Hn Hn2 Hn1 Hd Hd0.
  rewrite upgrades_keep_iat in Hd.
  pose proof (ssh_bound maxc req (fst s) now1 now2 d Hm Hi Hn Hn2 Hn1 Hd) as B.
  destruct (ssh_window now2 d) as [va vb]. cbn [snd].
  destruct B as [_ [_ [_ [_ [B _]]]]]. destruct (B Hd0) as [_ [_ [B3 _]]]. exact B3.
Qed.

Lemma restamp_refuted : exists now s level, fst s < now /\ fst (upgrade_restamp now s level) = now.
Proof. exists 100, (0, 2), 8. split; [reflexivity|reflexivity]. Qed.

(* ---- every issuing path, every configuration ---- *)
Lemma effective_window_bound : forall cfg L p req c now0 now1 now2 nb na,
  sane L -> 0 <= issued_at c now0 -> 0 <= now1 <= now2 -> now2 < two64 * NS / 4 ->
  now1 < issued_at c now0 + two64 * NS / 4 ->
  effective_window cfg L p req c now0 now1 now2 = Some (nb, na) ->
  nb <= now2 /\ now2 - NS < nb /\
  na <= now2 + path_limit L p /\
  (is_certgen p = true ->
     na <= Z.max nb (issued_at c now0 + maxc L + (now2 - now1)) /\
     match req with Some r => 0 < r <= maxc L /\ na <= now2 + r | None => True end) /\
  (is_certgen p = false -> na = nb + path_limit L p).
Proof.
  intros cfg L p req c now0 now1 now2 nb na [Hc [Hr Ha]] Hi Hn Hb Hb2.
  unfold effective_window, effective_duration.
  destruct p; cbn [is_certgen path_limit].
  - (* ssh *)
    destruct (handler_duration (maxc L) req (issued_at c now0) now1) as [d|] eqn:H; [|discriminate].
    pose proof (ssh_bound _ _ _ _ now2 _ Hc Hi Hn Hb Hb2 H) as S.
    pose proof (handler_duration_facts _ _ _ _ _ H) as [_ [_ [F _]]].
    destruct (ssh_window now2 d) as [va vb]. intro E. inversion E; subst nb na; clear E.
    destruct S as [S1 [S2 [S3 [S4 [S5 S6]]]]].
    assert (G : now2 - NS < va * NS) by (subst va; unfold NS in *; lia).
    assert (K : vb * NS <= va * NS \/ (0 <= d /\ vb * NS <= now2 + d /\ vb * NS <= now2 + maxc L /\
                  vb * NS <= issued_at c now0 + maxc L + (now2 - now1) /\
                  match req with Some r => vb * NS <= now2 + r | None => True end)).
    { destruct (Z_lt_le_dec d 0) as [Hd|Hd]; [left; specialize (S6 Hd); unfold NS; lia|right].
      split; [exact Hd|]. exact (S5 Hd). }
    split; [lia|]. split; [lia|]. split; [lia|]. split; [|discriminate].
    intros _. split; [lia|]. destruct req as [r|]; [|exact I]. split; [lia|].
    destruct K as [K|[_ [_ [_ [_ K]]]]]; lia.
  - (* x509 *)
    destruct (handler_duration (maxc L) req (issued_at c now0) now1) as [d|] eqn:H; [|discriminate].
    pose proof (x509_bound _ _ _ _ now2 _ (proj2 Hn) H) as X.
    pose proof (handler_duration_facts _ _ _ _ _ H) as [_ [_ [F _]]].
    unfold x509_window in *. intro E. inversion E; subst nb na; clear E.
    destruct X as [_ [X2 [X3 X4]]].
    split; [lia|]. split; [unfold NS; lia|]. split; [lia|]. split; [|discriminate].
    intros _. split; [lia|]. destruct req as [r|]; [|exact I]. split; lia.
  - unfold x509_window. intro E. inversion E; subst.
    split; [lia|]. split; [unfold NS; lia|]. split; [lia|]. split; [discriminate|reflexivity].
  - unfold x509_window. intro E. inversion E; subst.
    split; [lia|]. split; [unfold NS; lia|]. split; [lia|]. split; [discriminate|reflexivity].
  - unfold x509_window. intro E. inversion E; subst.
    split; [lia|]. split; [unfold NS; lia|]. split; [lia|]. split; [discriminate|reflexivity].
Qed.

(* nothing depends on the configuration or, outside /certgen/, on the request or the credential *)
Lemma effective_window_cfg_independent : forall cfg cfg' L p req c now0 now1 now2,
  effective_window cfg L p req c now0 now1 now2 = effective_window cfg' L p req c now0 now1 now2.
Proof. reflexivity. Qed.
Lemma fixed_paths_ignore_request : forall cfg L p req req' c c' now0 now0' now1 now1' now2,
  is_certgen p = false ->
  effective_window cfg L p req c now0 now1 now2 = effective_window cfg L p req' c' now0' now1' now2.
Proof. intros cfg L p; destruct p; intros; try discriminate; reflexivity. Qed.
