From KM Require Import Base.Tactics Model.Lifetime.
Open Scope Z_scope.
Ltac Zify.zify_post_hook ::= Z.to_euclidean_division_equations.

Lemma handler_duration_facts maxc req iat now1 d :
  handler_duration maxc req iat now1 = Some d ->
  d <= maxc /\ d <= iat + maxc - now1 /\
  match req with Some r => 0 < r <= maxc /\ d <= r | None => True end /\
  (d = iat + maxc - now1 \/ match req with Some r => d = r | None => d = maxc end).
Proof.
  unfold handler_duration. destruct req as [r|].
  - destruct (r >? maxc) eqn:A; [discriminate|].
    destruct (r <=? 0) eqn:B; [discriminate|].
    destruct (r >? iat + maxc - now1) eqn:C; intro H; inversion H; subst; lia.
  - destruct (maxc >? iat + maxc - now1) eqn:C; intro H; inversion H; subst; lia.
Qed.

(* SSH: no wrap-around, and ValidBefore (in ns) within every bound *)
Lemma quot_cases d : (0 <= d /\ Z.quot d NS = d / NS) \/ (d < 0 /\ Z.quot d NS = - ((- d) / NS)).
Proof.
  destruct (Z_lt_le_dec d 0) as [Hd|Hd]; [right|left]; split; auto.
  - rewrite <- (Z.opp_involutive d) at 1. rewrite Z.quot_opp_l by (unfold NS; lia).
    rewrite Z.quot_div_nonneg by (unfold NS; lia). reflexivity.
  - apply Z.quot_div_nonneg; unfold NS; lia.
Qed.

Lemma ssh_bound maxc req iat now1 now2 d :
  0 < maxc < two64 * NS / 4 -> 0 <= iat -> 0 <= now1 <= now2 -> now2 < two64 * NS / 4 ->
  now1 < iat + two64 * NS / 4 ->
  handler_duration maxc req iat now1 = Some d ->
  let '(va, vb) := ssh_window now2 d in
  va = now2 / NS /\ vb = now2 / NS + Z.quot d NS /\ 0 <= vb < two64 /\
  va * NS <= now2 /\
  (0 <= d -> vb * NS <= now2 + d /\ vb * NS <= now2 + maxc /\
             vb * NS <= iat + maxc + (now2 - now1) /\
             match req with Some r => vb * NS <= now2 + r | None => True end) /\
  (d < 0 -> vb <= va).
Proof.
  intros Hm Hi Hn Hb Hb2 H. apply handler_duration_facts in H. destruct H as [H1 [H2 [H3 H4]]].
  unfold ssh_window, u64_of_secs.
  assert (E1 : (now2 / NS) mod two64 = now2 / NS).
  { apply Z.mod_small. unfold two64, NS in *. lia. }
  rewrite E1.
  assert (E2 : (now2 / NS + Z.quot d NS mod two64) mod two64 = (now2 / NS + Z.quot d NS) mod two64).
  { rewrite Zplus_mod_idemp_r. reflexivity. }
  rewrite E2.
  assert (R : 0 <= now2 / NS + Z.quot d NS < two64).
  { destruct (quot_cases d) as [[Hd E]|[Hd E]]; rewrite E; unfold two64, NS in *;
      destruct req as [r|]; lia. }
  rewrite (Z.mod_small _ _ R).
  destruct (quot_cases d) as [[Hd E]|[Hd E]]; rewrite E in *; unfold NS in *;
    (repeat split; try lia; destruct req as [r|]; try exact I; lia).
Qed.

Lemma x509_bound maxc req iat now1 now2 d :
  now1 <= now2 ->
  handler_duration maxc req iat now1 = Some d ->
  let '(nb, na) := x509_window now2 d in
  nb = now2 /\ na <= now2 + maxc /\ na <= iat + maxc + (now2 - now1) /\
  match req with Some r => na <= now2 + r | None => True end.
Proof.
  intros Hn H. apply handler_duration_facts in H. destruct H as [H1 [H2 [H3 H4]]].
  unfold x509_window. repeat split; try lia. destruct req; [lia|exact I].
Qed.

(* refusals: what the handler never signs *)
Lemma too_long_refused maxc r iat now1 : maxc < r -> handler_duration maxc (Some r) iat now1 = None.
Proof. intros H. unfold handler_duration. destruct (r >? maxc) eqn:A; [reflexivity|lia]. Qed.
Lemma nonpositive_refused maxc r iat now1 : r <= 0 -> handler_duration maxc (Some r) iat now1 = None.
Proof.
  intros H. unfold handler_duration. destruct (r >? maxc) eqn:A; [reflexivity|].
  destruct (r <=? 0) eqn:B; [reflexivity|lia].
Qed.

(* the pre-fix handler: a negative request wraps the unsigned epoch arithmetic *)
Lemma old_wraps : exists req iat now1 now2 d,
  handler_duration_old (86400 * NS) req iat now1 = Some d /\
  snd (ssh_window now2 d) > now2 / NS + 100 * 365 * 86400.
Proof.
  exists (Some (-9223372036 * NS)), (1790000000 * NS), (1790000000 * NS), (1790000000 * NS), (-9223372036 * NS).
  vm_compute. split; reflexivity.
Qed.

(* late second factors do not move the authenticated-at instant *)
Lemma upgrades_keep_iat : forall levels s, fst (upgrades s levels) = fst s.
Proof.
  unfold upgrades. induction levels as [|l r IH]; intros s; simpl; [reflexivity|].
  rewrite IH. reflexivity.
Qed.

Lemma ssh_bound_after_upgrades : forall maxc req s levels now1 now2 d,
  0 < maxc < two64 * NS / 4 -> 0 <= fst s -> 0 <= now1 <= now2 -> now2 < two64 * NS / 4 ->
  now1 < fst s + two64 * NS / 4 ->
  handler_duration maxc req (fst (upgrades s levels)) now1 = Some d -> 0 <= d ->
  snd (ssh_window now2 d) * NS <= fst s + maxc + (now2 - now1).
Proof.
  intros maxc req s levels now1 now2 d Hm Hi Hn Hn2 Hn1 Hd Hd0.
  rewrite upgrades_keep_iat in Hd.
  pose proof (ssh_bound maxc req (fst s) now1 now2 d Hm Hi Hn Hn2 Hn1 Hd) as B.
  destruct (ssh_window now2 d) as [va vb]. cbn [snd].
  destruct B as [_ [_ [_ [_ [B _]]]]]. destruct (B Hd0) as [_ [_ [B3 _]]]. exact B3.
Qed.

Lemma restamp_refuted : exists now s level, fst s < now /\ fst (upgrade_restamp now s level) = now.
Proof. exists 100, (0, 2), 8. split; [reflexivity|reflexivity]. Qed.

(* ---- every issuing path, every configuration ---- *)
Lemma effective_window_bound : forall cfg L p req c now0 now1 now2 nb na,
  sane L -> 0 <= issued_at c now0 -> 0 <= now1 <= now2 -> now2 < two64 * NS / 4 ->
  now1 < issued_at c now0 + two64 * NS / 4 ->
  effective_window cfg L p req c now0 now1 now2 = Some (nb, na) ->
  nb <= now2 /\ now2 - NS < nb /\
  na <= now2 + path_limit L p /\
  (is_certgen p = true ->
     na <= Z.max nb (issued_at c now0 + maxc L + (now2 - now1)) /\
     match req with Some r => 0 < r <= maxc L /\ na <= now2 + r | None => True end) /\
  (is_certgen p = false -> na = nb + path_limit L p).
Proof.
  intros cfg L p req c now0 now1 now2 nb na [Hc [Hr Ha]] Hi Hn Hb Hb2.
  unfold effective_window, effective_duration.
  destruct p; cbn [is_certgen path_limit].
  - (* ssh *)
    destruct (handler_duration (maxc L) req (issued_at c now0) now1) as [d|] eqn:H; [|discriminate].
    pose proof (ssh_bound _ _ _ _ now2 _ Hc Hi Hn Hb Hb2 H) as S.
    pose proof (handler_duration_facts _ _ _ _ _ H) as [_ [_ [F _]]].
    destruct (ssh_window now2 d) as [va vb]. intro E. inversion E; subst nb na; clear E.
    destruct S as [S1 [S2 [S3 [S4 [S5 S6]]]]].
    assert (G : now2 - NS < va * NS) by (subst va; unfold NS in *; lia).
    assert (K : vb * NS <= va * NS \/ (0 <= d /\ vb * NS <= now2 + d /\ vb * NS <= now2 + maxc L /\
                  vb * NS <= issued_at c now0 + maxc L + (now2 - now1) /\
                  match req with Some r => vb * NS <= now2 + r | None => True end)).
    { destruct (Z_lt_le_dec d 0) as [Hd|Hd]; [left; specialize (S6 Hd); unfold NS; lia|right].
      split; [exact Hd|]. exact (S5 Hd). }
    split; [lia|]. split; [lia|]. split; [lia|]. split; [|discriminate].
    intros _. split; [lia|]. destruct req as [r|]; [|exact I]. split; [lia|].
    destruct K as [K|[_ [_ [_ [_ K]]]]]; lia.
  - (* x509 *)
    destruct (handler_duration (maxc L) req (issued_at c now0) now1) as [d|] eqn:H; [|discriminate].
    pose proof (x509_bound _ _ _ _ now2 _ (proj2 Hn) H) as X.
    pose proof (handler_duration_facts _ _ _ _ _ H) as [_ [_ [F _]]].
    unfold x509_window in *. intro E. inversion E; subst nb na; clear E.
    destruct X as [_ [X2 [X3 X4]]].
    split; [lia|]. split; [unfold NS; lia|]. split; [lia|]. split; [|discriminate].
    intros _. split; [lia|]. destruct req as [r|]; [|exact I]. split; lia.
  - unfold x509_window. intro E. inversion E; subst.
    split; [lia|]. split; [unfold NS; lia|]. split; [lia|]. split; [discriminate|reflexivity].
  - unfold x509_window. intro E. inversion E; subst.
    split; [lia|]. split; [unfold NS; lia|]. split; [lia|]. split; [discriminate|reflexivity].
  - unfold x509_window. intro E. inversion E; subst.
    split; [lia|]. split; [unfold NS; lia|]. split; [lia|]. split; [discriminate|reflexivity].
Qed.

(* nothing depends on the configuration or, outside /certgen/, on the request or the credential *)
Lemma effective_window_cfg_independent : forall cfg cfg' L p req c now0 now1 now2,
  effective_window cfg L p req c now0 now1 now2 = effective_window cfg' L p req c now0 now1 now2.
Proof. reflexivity. Qed.
Lemma fixed_paths_ignore_request : forall cfg L p req req' c c' now0 now0' now1 now1' now2,
  is_certgen p = false ->
  effective_window cfg L p req c now0 now1 now2 = effective_window cfg L p req' c' now0' now1' now2.
Proof. intros cfg L p; destruct p; intros; try discriminate; reflexivity. Qed.

(* ---- the issuing CA certificate's validity is not an input of the window ---- *)
Lemma effective_window_ca_bound : forall ca_nb ca_na cfg L p req c now0 now1 now2 nb na,
  sane L -> 0 <= issued_at c now0 -> 0 <= now1 <= now2 -> now2 < two64 * NS / 4 ->
  now1 < issued_at c now0 + two64 * NS / 4 ->
  effective_window_ca (ca_nb, ca_na) cfg L p req c now0 now1 now2 = Some (nb, na) ->
  nb <= now2 /\ now2 - NS < nb /\
  na <= now2 + path_limit L p /\
  (is_certgen p = true ->
     na <= Z.max nb (issued_at c now0 + maxc L + (now2 - now1)) /\
     match req with Some r => 0 < r <= maxc L /\ na <= now2 + r | None => True end) /\
  (is_certgen p = false -> na = nb + path_limit L p).
Proof.
  intros ca_nb ca_na cfg L p req c now0 now1 now2 nb na HL Hi Hn Hb Hb2 H.
  unfold effective_window_ca in H.
  exact (effective_window_bound cfg L p req c now0 now1 now2 nb na HL Hi Hn Hb Hb2 H).
Qed.

Lemma effective_window_ca_independent : forall ca ca' cfg L p req c now0 now1 now2,
  effective_window_ca ca cfg L p req c now0 now1 now2 = effective_window_ca ca' cfg L p req c now0 now1 now2.
Proof. reflexivity. Qed.

(* a certificate may outlive its CA (allowed by the statement); it never starts after now2, even
   under a CA that is not valid yet *)
Lemma not_yet_valid_ca_starts_now : forall ca_nb ca_na cfg L p req c now0 now1 now2 nb na,
  sane L -> 0 <= issued_at c now0 -> 0 <= now1 <= now2 -> now2 < two64 * NS / 4 ->
  now1 < issued_at c now0 + two64 * NS / 4 -> now2 < ca_nb ->
  effective_window_ca (ca_nb, ca_na) cfg L p req c now0 now1 now2 = Some (nb, na) ->
  nb < ca_nb /\ nb <= now2.
Proof.
  intros ca_nb ca_na cfg L p req c now0 now1 now2 nb na HL Hi Hn Hb Hb2 Hca H.
  destruct (effective_window_ca_bound ca_nb ca_na cfg L p req c now0 now1 now2 nb na HL Hi Hn Hb Hb2 H)
    as [A _]. lia.
Qed.

(* the nested-validity generator: under a CA certificate that becomes valid 40 minutes from now (and
   is far from its end) a 24 h certificate starts in the future and ends after now2 + 24 h *)
Lemma nested_validity_refuted : exists ca_nb ca_na now2 d,
  0 < d /\ now2 + d < ca_na /\
  let '(nb, na) := x509_window_nested ca_nb ca_na now2 d in now2 < nb /\ now2 + d < na.
Proof.
  exists ((1790000000 + 2400) * NS), ((1790000000 + 8 * 365 * 86400) * NS), (1790000000 * NS), (86400 * NS).
  vm_compute. repeat split; reflexivity.
Qed.
(* and with a CA whose NotBefore is not in the future it is the code's window (clamped above) *)
Lemma nested_validity_agrees_when_ca_valid : forall ca_nb ca_na now2 d,
  ca_nb <= now2 -> now2 + d <= ca_na -> x509_window_nested ca_nb ca_na now2 d = x509_window now2 d.
Proof.
  intros ca_nb ca_na now2 d H1 H2. unfold x509_window_nested, x509_window.
  rewrite Z.max_l by lia. rewrite Z.min_l by lia. reflexivity.
Qed.

(* an observation the correspondence accepts does not start in the future *)
Lemma obs_ok_not_future : forall ca cfg L p req c t0 t1 va vb,
  window_obs_ok_ca ca cfg L p req c t0 t1 true va vb = true -> obs_starts_in_future t1 va = false.
Proof.
  intros ca cfg L p req c t0 t1 va vb. unfold window_obs_ok_ca, window_obs_ok, obs_starts_in_future.
  destruct (effective_duration cfg L p req c (t0 * NS) (t0 * NS)) as [dhi|]; [|discriminate].
  destruct (effective_duration cfg L p req c ((t1 + 1) * NS) ((t1 + 1) * NS)) as [dlo|]; [|discriminate].
  intro H. apply andb_prop in H. destruct H as [H _]. apply andb_prop in H. destruct H as [_ H].
  apply Z.leb_le in H. apply Z.ltb_ge. lia.
Qed.

(* ... nor ends beyond the moment of issuance plus the requested duration / the path's limit *)
Lemma effective_duration_le_limit : forall cfg L p req c now0 now1 d,
  effective_duration cfg L p req c now0 now1 = Some d -> d <= obs_limit L p req.
Proof.
  intros cfg L p req c now0 now1 d. unfold effective_duration, obs_limit.
  destruct p; cbn [is_certgen path_limit andb].
  1,2: intro H; apply handler_duration_facts in H; destruct H as [H1 [_ [H3 _]]];
       destruct req as [r|]; [|exact H1];
       destruct H3 as [[R1 R2] R3];
       destruct (0 <? r) eqn:A; [|lia]; destruct (r <=? maxc L) eqn:B; [|lia]; cbn [andb]; exact R3.
  all: intro H; inversion H; subst; destruct req; lia.
Qed.

Lemma obs_ok_not_beyond_limit : forall ca cfg L p req c t0 t1 va vb,
  window_obs_ok_ca ca cfg L p req c t0 t1 true va vb = true ->
  (t1 + 1 + Z.quot (obs_limit L p req) NS + 1 <? vb) = false.
Proof.
  intros ca cfg L p req c t0 t1 va vb. unfold window_obs_ok_ca, window_obs_ok.
  destruct (effective_duration cfg L p req c (t0 * NS) (t0 * NS)) as [dhi|] eqn:E; [|discriminate].
  destruct (effective_duration cfg L p req c ((t1 + 1) * NS) ((t1 + 1) * NS)) as [dlo|]; [|discriminate].
  intro H. apply andb_prop in H. destruct H as [H H3]. apply andb_prop in H. destruct H as [_ H2].
  apply andb_prop in H3. destruct H3 as [_ H3].
  apply Z.leb_le in H2. apply Z.leb_le in H3.
  pose proof (effective_duration_le_limit _ _ _ _ _ _ _ _ E) as Q.
  assert (M : Z.quot dhi NS <= Z.quot (obs_limit L p req) NS) by (apply Z.quot_le_mono; [unfold NS; lia|exact Q]).
  apply Z.ltb_ge. lia.
Qed.
