(* C02 — the identity of a request on every credential path (Model/CertgenIdent.v) *)
From Coq Require Import ZArith.
From KM Require Import Base.Bytes Base.Tactics Model.Auth Model.Certgen Model.CertgenCases Model.CertgenIdent
                       Proofs.CertgenSpec Proofs.CertgenAuth Proofs.Certgen Proofs.CertgenCert.
From KM Require Model.Seal.
Open Scope N_scope.

Section Thms.
Variable okta : option (bs -> bs).
Variable disable : bool.
Variable backend : bs -> bs -> bool.
Variable automation : bs -> bool.

(* every credential path hands on the account the typed name stands for - and on the password paths
   that is the one account the backend was asked about, and it accepted the password for it *)
Theorem path_identity k typed pw id :
  identity_of okta disable backend automation k typed pw = Some id ->
  id = account_of okta disable k typed /\
  (password_kind k = true -> p_asked (cred_path okta disable backend automation k typed pw) = Some id /\ backend id pw = true) /\
  (k = KIpCert -> automation id = true).
Proof.
  unfold identity_of. destruct k; cbn [cred_path account_of password_kind].
  - unfold login_handler. cbn [andb].
    destruct (is_nil (strip_crlf typed) || is_nil pw); cbn [p_identity p_asked]; [discriminate|].
    destruct (backend (normalise okta disable (strip_crlf typed)) pw) eqn:B; [|discriminate].
    intro H. inversion H. subst. split; [reflexivity|]. split; [|discriminate]. intros _. split; [reflexivity|exact B].
  - unfold login_handler. cbn [andb p_identity p_asked].
    destruct (backend (normalise okta disable typed) pw) eqn:B; [|discriminate].
    intro H. inversion H. subst. split; [reflexivity|]. split; [|discriminate]. intros _. split; [reflexivity|exact B].
  - unfold basic_branch. cbn [p_identity p_asked].
    destruct (backend (normalise okta disable typed) pw) eqn:B; [|discriminate].
    intro H. inversion H. subst. split; [reflexivity|]. split; [|discriminate]. intros _. split; [reflexivity|exact B].
  - unfold cert_branch. cbn [p_identity]. destruct (is_nil typed); [discriminate|].
    intro H. inversion H. split; [reflexivity|]. split; discriminate.
  - unfold ip_cert_branch. cbn [p_identity]. destruct (is_nil typed); [discriminate|].
    destruct (automation typed) eqn:AU; [|discriminate].
    intro H. inversion H. subst. split; [reflexivity|]. split; [discriminate|]. intros _. exact AU.
Qed.

(* the backend is asked about at most one account, and never about another one than account_of *)
Theorem path_asks_account k typed pw a :
  p_asked (cred_path okta disable backend automation k typed pw) = Some a -> a = account_of okta disable k typed.
Proof.
  destruct k; cbn [cred_path account_of].
  - unfold login_handler. cbn [andb]. destruct (is_nil (strip_crlf typed) || is_nil pw); cbn [p_asked]; [discriminate|].
    intro H. inversion H. reflexivity.
  - unfold login_handler. cbn [andb p_asked]. intro H. inversion H. reflexivity.
  - unfold basic_branch. cbn [p_asked]. intro H. inversion H. reflexivity.
  - unfold cert_branch. cbn [p_asked]. discriminate.
  - unfold ip_cert_branch. cbn [p_asked]. discriminate.
Qed.

Variable expand : bs -> bs -> option bs.

Lemma ident_request_target st0 q0 now k typed pw :
  q_target (ident_request okta disable backend automation st0 q0 now k typed pw) = q_target q0.
Proof.
  unfold ident_request. destruct k; try reflexivity;
    destruct (identity_of okta disable backend automation _ typed pw); reflexivity.
Qed.

Lemma ident_request_key st0 q0 now k typed pw :
  q_key (ident_request okta disable backend automation st0 q0 now k typed pw) = q_key q0.
Proof.
  unfold ident_request. destruct k; try reflexivity;
    destruct (identity_of okta disable backend automation _ typed pw); reflexivity.
Qed.

(* a certificate for a request authenticated on ANY credential path: the path handed on the account the
   typed name stands for, the certificate names exactly that account, the URL segment is that account
   byte for byte, and on the password paths the backend accepted the password for that account *)
Theorem ident_issued st0 q0 now k typed pw u c :
  ident_certgen okta disable backend automation expand st0 q0 now k typed pw = Issued u c ->
  identity_of okta disable backend automation k typed pw = Some (account_of okta disable k typed) /\
  d_names c = [account_of okta disable k typed] /\
  q_target q0 = account_of okta disable k typed /\
  (exists ed, q_key q0 = Some (d_key c, ed)) /\
  (password_kind k = true -> backend (account_of okta disable k typed) pw = true) /\
  (k = KIpCert -> automation (account_of okta disable k typed) = true).
Proof.
  unfold ident_certgen. intro H.
  pose proof (binding_fields _ _ _ _ _ _ _ H) as [[level P] [DN [T [K _]]]].
  rewrite ident_request_target in T. rewrite ident_request_key in K.
  assert (A : exists id, identity_of okta disable backend automation k typed pw = Some id).
  { destruct (identity_of okta disable backend automation k typed pw) as [id|] eqn:E; [eauto|]. exfalso.
    assert (NS0 : forall cc, ~ names_somebody (ident_server okta disable backend automation st0 k typed pw) cc).
    { intros cc NS. unfold names_somebody, ident_server in NS. cbn in NS. rewrite E in NS. apply NS. reflexivity. }
    destruct P as [w QC _ _ _|b QB OK _ _ _|cc QT NS _ _ _|cc QT NS _ _ _|cc QT NS _ _ _ _];
      try (exact (NS0 _ NS));
      unfold ident_request in *; rewrite E in *; destruct k; cbn in *; try discriminate.
    inversion QB. subst b. cbn in OK. discriminate. }
  destruct A as [id A]. pose proof (path_identity _ _ _ _ A) as [ID [B AU]].
  unfold ident_server in DN, T. cbn [with_name s_name] in DN, T. rewrite A in DN, T.
  rewrite ID in A, DN, T, B, AU.
  split; [exact A|]. split; [exact DN|]. split; [exact T|]. split; [exact K|].
  split; [intro N; apply B; exact N|exact AU].
Qed.

(* a request on behalf of any other spelling than the account - in particular the name as it was typed,
   when that is not the normalised one - is refused, whatever the credential path *)
Theorem ident_other_spelling_refused st0 q0 now k typed pw :
  q_target q0 <> account_of okta disable k typed ->
  exists code, ident_certgen okta disable backend automation expand st0 q0 now k typed pw = Refused code.
Proof.
  intro NE. destruct (ident_certgen okta disable backend automation expand st0 q0 now k typed pw) as [u c|code] eqn:E; [|eauto].
  exfalso. apply ident_issued in E. destruct E as [_ [_ [T _]]]. exact (NE T).
Qed.
End Thms.

(* ---- the default Okta filter: nothing of a mail domain is left, so normalising twice changes nothing *)
Lemma okta_from_no_at s : forall b, ~ In 64 (okta_at_filter_from b s).
Proof.
  induction s as [|c r IH]; intros b; cbn; [tauto|].
  destruct b.
  - destruct (c =? 10) eqn:E; [|apply IH]. apply N.eqb_eq in E. subst. cbn. intros [X|X]; [discriminate|exact (IH false X)].
  - destruct (c =? 64) eqn:E; [apply IH|]. apply N.eqb_neq in E. cbn. intros [X|X]; [congruence|exact (IH false X)].
Qed.
Lemma okta_fixed_without_at s : ~ In 64 s -> okta_at_filter_from false s = s.
Proof.
  induction s as [|c r IH]; intro H; cbn; [reflexivity|].
  destruct (c =? 64) eqn:E.
  - apply N.eqb_eq in E. subst. exfalso. apply H. left. reflexivity.
  - rewrite IH; [reflexivity|]. intro X. apply H. right. exact X.
Qed.
Lemma lower_byte_not_at c : lower_byte c = 64 -> c = 64.
Proof.
  unfold lower_byte. destruct ((65 <=? c) && (c <=? 90)) eqn:E; [|auto].
  apply andb_true_iff in E. destruct E as [A B]. apply N.leb_le in A, B. lia.
Qed.
Lemma lower_no_at s : ~ In 64 s -> ~ In 64 (map lower_byte s).
Proof.
  intros H X. apply in_map_iff in X. destruct X as [c [E I]]. apply lower_byte_not_at in E. subst. exact (H I).
Qed.
Lemma lower_byte_idem c : lower_byte (lower_byte c) = lower_byte c.
Proof.
  unfold lower_byte. destruct ((65 <=? c) && (c <=? 90)) eqn:E; [|rewrite E; reflexivity].
  apply andb_true_iff in E. destruct E as [A B]. apply N.leb_le in A, B.
  replace ((65 <=? c + 32) && (c + 32 <=? 90)) with false; [reflexivity|].
  symmetry. apply andb_false_iff. right. apply N.leb_gt. lia.
Qed.
Lemma lower_filter_commute s : forall b, map lower_byte (okta_at_filter_from b s) = okta_at_filter_from b (map lower_byte s).
Proof.
  induction s as [|c r IH]; intros b; cbn; [reflexivity|].
  assert (L10 : (lower_byte c =? 10) = (c =? 10)).
  { unfold lower_byte. destruct ((65 <=? c) && (c <=? 90)) eqn:E; [|reflexivity].
    apply andb_true_iff in E. destruct E as [A B]. apply N.leb_le in A, B.
    destruct (c =? 10) eqn:X; [apply N.eqb_eq in X; lia|]. apply N.eqb_neq. lia. }
  assert (L64 : (lower_byte c =? 64) = (c =? 64)).
  { unfold lower_byte. destruct ((65 <=? c) && (c <=? 90)) eqn:E; [|reflexivity].
    apply andb_true_iff in E. destruct E as [A B]. apply N.leb_le in A, B.
    destruct (c =? 64) eqn:X; [apply N.eqb_eq in X; lia|]. apply N.eqb_neq. lia. }
  destruct b.
  - rewrite L10. destruct (c =? 10); cbn; [rewrite IH; reflexivity|apply IH].
  - rewrite L64. destruct (c =? 64); cbn; [apply IH|rewrite IH; reflexivity].
Qed.

Theorem normalise_okta_idem disable name :
  normalise (Some okta_at_filter) disable (normalise (Some okta_at_filter) disable name) =
  normalise (Some okta_at_filter) disable name.
Proof.
  unfold normalise, okta_at_filter. destruct disable.
  - apply okta_fixed_without_at. apply okta_from_no_at.
  - rewrite (lower_filter_commute (map lower_byte name) false). rewrite map_map.
    rewrite (map_ext (fun x => lower_byte (lower_byte x)) lower_byte); [|intro; apply lower_byte_idem].
    apply okta_fixed_without_at. apply okta_from_no_at.
Qed.

(* ---- the branch that hands on the name as typed (the change of the fourth wave): the backend accepts
   the password for the account "alice", the identity is "Alice" - not the account *)
Theorem typed_identity_refuted :
  exists okta disable backend typed pw id,
    p_identity (basic_branch_typed okta disable backend typed pw) = Some id /\
    p_asked (basic_branch_typed okta disable backend typed pw) <> Some id /\
    id <> normalise okta disable typed.
Proof.
  exists None, false, (fun a _ => bs_eqb a n_alice), n_Alice, [112], n_Alice.
  vm_compute. repeat split; discriminate.
Qed.
