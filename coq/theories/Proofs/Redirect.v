From KM Require Import Base.Bytes Model.Redirect.

Definition dom_spec (host d : bs) : Prop :=
  d <> [] /\
  (host = d \/ (exists pre, host = pre ++ DOT :: d) \/
   (starts_with_dot d = true /\ exists pre, host = pre ++ d)).

Lemma host_matches_spec host d : host_matches host d = true -> dom_spec host d.
Proof.
  unfold host_matches, dom_spec. destruct d as [|c d']; cbn [is_nil]; [discriminate|].
  intros M. split; [discriminate|].
  destruct (starts_with_dot (c :: d')) eqn:S.
  - apply suffix_b_spec in M. right. right. split; auto.
  - apply orb_true_iff in M. destruct M as [M|M].
    + left. apply bs_eqb_eq. exact M.
    + right. left. apply suffix_b_spec in M. exact M.
Qed.

Lemma host_matches_complete host d : d <> [] -> starts_with_dot d = false ->
  (host = d \/ exists pre, host = pre ++ DOT :: d) -> host_matches host d = true.
Proof.
  intros Hd Hs H. unfold host_matches. destruct d as [|c d']; [contradiction|]. cbn [is_nil].
  rewrite Hs. apply orb_true_iff. destruct H as [->|H].
  - left. apply bs_eqb_refl.
  - right. apply suffix_b_spec. exact H.
Qed.

(* a look-alike that merely ends with the domain, without a dot boundary, never matches *)
Lemma no_lookalike pre c d :
  d <> [] -> starts_with_dot d = false -> c <> DOT -> host_matches (pre ++ c :: d) d = false.
Proof.
  intros Hd Hs Hc. unfold host_matches. destruct d as [|x d']; [contradiction|]. cbn [is_nil].
  rewrite Hs. apply orb_false_iff. split.
  - apply bs_eqb_neq. intro E. apply (f_equal (@length N)) in E.
    rewrite app_length in E. cbn in E. lia.
  - destruct (suffix_b (DOT :: x :: d') (pre ++ c :: x :: d')) eqn:S; [|reflexivity].
    apply suffix_b_spec in S. destruct S as [t E].
    change (pre ++ c :: x :: d') with (pre ++ [c] ++ (x :: d')) in E.
    change (t ++ DOT :: x :: d') with (t ++ [DOT] ++ (x :: d')) in E.
    rewrite !app_assoc in E. apply app_inv_tail in E.
    apply app_inj_tail in E. destruct E as [_ E]. contradiction.
Qed.

Lemma existsb_spec host domains :
  existsb (host_matches host) domains = true -> exists d, In d domains /\ dom_spec host d.
Proof.
  intros H. apply existsb_exists in H. destruct H as [d [I M]]. exists d. split; auto.
  apply host_matches_spec. exact M.
Qed.

Theorem can_redirect_sound domains np re parse :
  can_redirect domains np re parse = true ->
  exists u, parse = Some u /\ scheme u = https /\ opaque u = false /\ uhost u <> [] /\
    rawquery u = [] /\ has_dotdot (upath u) = false /\
    (domains <> [] -> exists d, In d domains /\ dom_spec (hostname u) d) /\
    (np <> 0%nat -> re = true) /\
    (domains = [] -> np <> 0%nat /\ re = true).
Proof.
  unfold can_redirect.
  destruct (is_nil_l domains && Nat.eqb np 0) eqn:E0; [discriminate|].
  destruct parse as [u|]; [|discriminate].
  destruct (bs_eqb (scheme u) https) eqn:E1; cbn [negb]; [|discriminate].
  destruct (opaque u) eqn:EO; cbn [orb]; [discriminate|].
  destruct (is_nil (uhost u)) eqn:EH; [discriminate|].
  destruct (is_nil (rawquery u)) eqn:E2; cbn [negb]; [|discriminate].
  destruct (has_dotdot (upath u)) eqn:E3; [discriminate|].
  intros H. exists u. split; [reflexivity|].
  apply bs_eqb_eq in E1. split; [exact E1|].
  split; [exact EO|].
  split; [destruct (uhost u); [discriminate|discriminate]|].
  split; [destruct (rawquery u); [reflexivity|discriminate]|].
  split; [exact E3|].
  destruct domains as [|d0 ds]; cbn [is_nil_l] in *.
  - cbn [andb] in E0. apply Nat.eqb_neq in E0. subst re.
    split; [intro C; contradiction|]. split; auto.
  - apply andb_true_iff in H. destruct H as [H1 H2].
    split; [intros _; apply existsb_spec; exact H2|].
    split; [|discriminate].
    intros Hn. apply Nat.eqb_neq in Hn. rewrite Hn in H1. exact H1.
Qed.

Theorem cors_sound domains parse :
  cors_allowed domains parse = true ->
  exists u, parse = Some u /\ scheme u = https /\ exists d, In d domains /\ dom_spec (hostname u) d.
Proof.
  unfold cors_allowed. destruct parse as [u|]; [|discriminate].
  intros H. apply andb_true_iff in H. destruct H as [H1 H2]. exists u.
  split; [reflexivity|]. split; [apply bs_eqb_eq; exact H1|]. apply existsb_spec. exact H2.
Qed.

Theorem no_config_refused re parse : can_redirect [] 0 re parse = false.
Proof. reflexivity. Qed.

(* "evilexample.com" for "example.com" *)
Theorem old_rule_refuted : exists host d,
  host_matches_old host d = true /\ host_matches host d = false.
Proof.
  exists [101;118;105;108;101;120;97;109;112;108;101;46;99;111;109],
         [101;120;97;109;112;108;101;46;99;111;109].
  vm_compute. split; reflexivity.
Qed.

(* the pattern loop: a redirect is allowed only if a configured pattern really matched (and every
   pattern before it was evaluated without error), whenever patterns are configured at all *)
Lemma eval_patterns_true l : eval_patterns l = Some true ->
  exists pre post, l = pre ++ PMatch :: post /\ Forall (fun x => x = PNoMatch) pre.
Proof.
  induction l as [|x r IH]; cbn [eval_patterns]; [discriminate|].
  destruct x; intros H.
  - exists [], r. split; [reflexivity|constructor].
  - destruct (IH H) as [pre [post [E F]]]. exists (PNoMatch :: pre), post.
    split; [rewrite E; reflexivity|constructor; [reflexivity|exact F]].
  - discriminate.
Qed.

Theorem can_redirect_p_sound domains pats parse :
  can_redirect_p domains pats parse = Some true ->
  (exists u, parse = Some u /\ scheme u = https /\ opaque u = false /\ uhost u <> [] /\
    rawquery u = [] /\ has_dotdot (upath u) = false /\
    (domains <> [] -> exists d, In d domains /\ dom_spec (hostname u) d)) /\
  (pats <> [] -> exists pre post, pats = pre ++ PMatch :: post /\ Forall (fun x => x = PNoMatch) pre) /\
  (domains = [] -> pats <> []).
Proof.
  unfold can_redirect_p.
  destruct (is_nil_l domains && Nat.eqb (length pats) 0) eqn:E0; [discriminate|].
  destruct (eval_patterns pats) as [re|] eqn:EP; [|discriminate].
  intros H. injection H as H.
  destruct (can_redirect_sound _ _ _ _ H) as [u [P [S [O [UH [Q [D [HD [HN HE]]]]]]]]].
  split; [exists u; repeat (split; [assumption|]); exact HD|].
  split.
  - intros NE. apply eval_patterns_true.
    assert (L : length pats <> 0%nat) by (destruct pats; [contradiction|discriminate]).
    rewrite (HN L) in EP. exact EP.
  - intros DE. destruct (HE DE) as [L _]. intro C. subst pats. apply L. reflexivity.
Qed.

(* an unusable pattern never widens: the decision is an error whatever follows, unless a pattern before it matched *)
Theorem pattern_error_refuses domains pre post parse :
  Forall (fun x => x = PNoMatch) pre -> can_redirect_p domains (pre ++ PErr :: post) parse <> Some true.
Proof.
  intros F. unfold can_redirect_p.
  destruct (is_nil_l domains && Nat.eqb (length (pre ++ PErr :: post)) 0); [discriminate|].
  assert (E : eval_patterns (pre ++ PErr :: post) = None).
  { induction F as [|x r Hx F IH]; [reflexivity|]. subst x. cbn [app eval_patterns]. exact IH. }
  rewrite E. discriminate.
Qed.

(* skipping unusable patterns is NOT the same decision: a client whose only pattern is unusable would fall back to its domains *)
Theorem skip_errors_refuted : exists domains pats parse,
  can_redirect_p_skip domains pats parse = Some true /\ can_redirect_p domains pats parse = None.
Proof.
  exists [[101;120]], [PErr],
    (Some {| scheme := https; opaque := false; uhost := [97;46;101;120]; rawquery := []; upath := []; hostname := [97;46;101;120] |}).
  split; vm_compute; reflexivity.
Qed.

(* ---- the client as configured: the decision speaks about the configured strings, for every client kind *)
Theorem can_redirect_c_sound c pats parse :
  can_redirect_c c pats parse = Some true ->
  (exists u, parse = Some u /\ scheme u = https /\ opaque u = false /\ uhost u <> [] /\
    rawquery u = [] /\ has_dotdot (upath u) = false /\
    (configured_domains c <> [] -> exists d, In d (configured_domains c) /\ dom_spec (hostname u) d)) /\
  (pats <> [] -> exists pre post, pats = pre ++ PMatch :: post /\ Forall (fun x => x = PNoMatch) pre) /\
  (configured_domains c = [] -> pats <> []).
Proof. unfold can_redirect_c, loaded_domains. apply can_redirect_p_sound. Qed.

Theorem cors_c_sound c parse :
  cors_allowed_c c parse = true ->
  exists u, parse = Some u /\ scheme u = https /\
    exists d, In d (configured_domains c) /\ dom_spec (hostname u) d.
Proof. unfold cors_allowed_c, loaded_domains. apply cors_sound. Qed.

(* the kind of the client (public or with a secret) and every other option are irrelevant to the decision *)
Theorem client_kind_irrelevant c1 c2 pats parse :
  configured_domains c1 = configured_domains c2 ->
  can_redirect_c c1 pats parse = can_redirect_c c2 pats parse /\
  cors_allowed_c c1 parse = cors_allowed_c c2 parse.
Proof. unfold can_redirect_c, cors_allowed_c, loaded_domains. intros ->. split; reflexivity. Qed.

Lemma dom_spec_bytes host d c : dom_spec host d -> In c d -> In c host.
Proof.
  intros [_ [E|[[pre E]|[_ [pre E]]]]] I; subst host.
  - exact I.
  - apply in_or_app. right. right. exact I.
  - apply in_or_app. right. exact I.
Qed.

(* an entry written in a form host names cannot take (a byte that the host does not contain: '/', ':', '*',
   a space, an upper-case letter against a lower-case host ...) matches nothing *)
Theorem odd_entry_matches_nothing host d c : In c d -> ~ In c host -> host_matches host d = false.
Proof.
  intros I N. destruct (host_matches host d) eqn:M; [|reflexivity].
  exfalso. apply N. apply (dom_spec_bytes host d c); [apply host_matches_spec; exact M|exact I].
Qed.

(* the cut-set loader hands the validator a domain nobody configured: entry "https://ssh.example" is read as
   ".example", and https://evil.example/cb is accepted although no configured string is a dot-boundary suffix
   of the host *)
Theorem trimset_loader_refuted : exists c pats u,
  can_redirect_c_trimset c pats (Some u) = Some true /\ can_redirect_c c pats (Some u) = Some false /\
  forall d, In d (configured_domains c) -> host_matches (hostname u) d = false.
Proof.
  exists {| rc_public := false; rc_options := [];
            configured_domains := [[104;116;116;112;115;58;47;47;115;115;104;46;101;120;97;109;112;108;101]] |},
    [],
    {| scheme := https; opaque := false; uhost := [101;118;105;108;46;101;120;97;109;112;108;101]; rawquery := [];
       upath := [47;99;98]; hostname := [101;118;105;108;46;101;120;97;109;112;108;101] |}.
  split; [vm_compute; reflexivity|]. split; [vm_compute; reflexivity|].
  intros d [<-|[]]. vm_compute. reflexivity.
Qed.

(* the "starts like a loopback literal" exception sends a public client's code over http to 127.0.0.1.evil.com *)
Theorem loopback_prefix_refuted : exists c pats u,
  can_redirect_c_loopback c pats (Some u) = Some true /\ can_redirect_c c pats (Some u) = Some false /\
  scheme u <> https.
Proof.
  exists {| rc_public := true; rc_options := []; configured_domains := [[101;120;46;99;111]] |}, [],
    {| scheme := http_s; opaque := false; uhost := [49;50;55;46;48;46;48;46;49;46;101;118;105;108;46;99;111;109];
       rawquery := []; upath := [47;99;98]; hostname := [49;50;55;46;48;46;48;46;49;46;101;118;105;108;46;99;111;109] |}.
  split; [vm_compute; reflexivity|]. split; [vm_compute; reflexivity|]. discriminate.
Qed.
