(* C16 — the answer ends the request; lock copies *)
From KM Require Import Base.Bytes Base.Tactics Model.Conc Proofs.Conc.
Open Scope N_scope.

Lemma wa_ok_tail a r : wa_ok (a :: r) = true -> wa_ok r = true.
Proof. simpl. intros H. apply andb_true_iff in H. apply H. Qed.

Definition wa_inv (w : world) : Prop :=
  forall i t, nth_error (threads w) i = Some t -> wa_ok (prog t) = true.

Lemma wa_fail_hard t x : wa_ok (prog (fail_hard t x)) = true.
Proof. unfold fail_hard; simpl. destruct (held t); reflexivity. Qed.

Lemma wa_step w i : wa_inv w -> wa_inv (step w i).
Proof.
  intros HI. unfold step.
  destruct (nth_error (threads w) i) as [t|] eqn:Ei; [|exact HI].
  destruct (prog t) as [|a r] eqn:Ep; [exact HI|].
  assert (Hr : wa_ok r = true). { apply (wa_ok_tail a). rewrite <- Ep. eapply HI; eauto. }
  assert (Keep : forall ts' t', prog t' = r \/ wa_ok (prog t') = true ->
             ts' = upd (threads w) i t' ->
             forall j tj, nth_error ts' j = Some tj -> wa_ok (prog tj) = true).
  { intros ts' t' Hp -> j tj Hj. destruct (Nat.eq_dec i j) as [<-|Ne].
    - rewrite (nth_error_upd_same _ _ _ _ Ei) in Hj. inversion Hj; subst.
      destruct Hp as [-> | Hp]; assumption.
    - rewrite nth_error_upd_other in Hj by exact Ne. eapply HI; eauto. }
  destruct a; simpl; break_step; simpl; unfold wa_inv; simpl;
    try (exact HI);
    try (eapply Keep; [|reflexivity]; first [left; reflexivity | right; apply wa_fail_hard | right; simpl; exact Hr]).
Qed.

Lemma wa_run sched : forall w, wa_inv w -> wa_inv (run w sched).
Proof. induction sched as [|i l IH]; intros w H; simpl; [exact H|]. apply IH, wa_step, H. Qed.

Lemma wa_init d s progs : Forall (fun p => wa_ok p = true) progs -> wa_inv (init_world d s progs).
Proof.
  intros HF i t Hi. simpl in Hi. apply nth_error_In in Hi. apply in_map_iff in Hi.
  destruct Hi as [p [<- Hin]]. simpl. rewrite Forall_forall in HF. apply HF, Hin.
Qed.

(* an answered request does not write the store: its next action — at any later moment, under any
   schedule — leaves the stored profiles and the log of saves as they are *)
Theorem no_write_after_answer d s progs sched i t :
  Forall (fun p => wa_ok p = true) progs ->
  let w := run (init_world d s progs) sched in
  nth_error (threads w) i = Some t -> has_respond (prog t) = false ->
  store (step w i) = store w /\ saved (step w i) = saved w.
Proof.
  intros HF w Hi Hans.
  assert (HI : wa_inv w) by (apply wa_run, wa_init, HF).
  specialize (HI i t Hi).
  unfold step. rewrite Hi.
  destruct (prog t) as [|a r] eqn:Ep; [split; reflexivity|].
  destruct a; simpl in *; try discriminate;
    try (apply andb_true_iff in HI; destruct HI as [HI _]; congruence);
    break_step; simpl; split; reflexivity.
Qed.

(* ... and a request that has been answered stays answered *)
Lemma answered_stays w i j t t' :
  nth_error (threads w) j = Some t -> has_respond (prog t) = false ->
  nth_error (threads (step w i)) j = Some t' -> has_respond (prog t') = false.
Proof.
  intros Hj Hans Hj'.
  destruct (Nat.eq_dec i j) as [<-|Ne]; [|rewrite step_other in Hj' by exact Ne; congruence].
  revert Hj'. unfold step. rewrite Hj.
  destruct (prog t) as [|a r] eqn:Ep; [intros H; rewrite Hj in H; inversion H; subst; rewrite Ep; reflexivity|].
  assert (Hr : has_respond r = false) by (destruct a; simpl in Hans; try discriminate; exact Hans).
  destruct a; simpl in Hans; try discriminate; simpl; break_step; simpl;
    try rewrite (nth_error_upd_same _ _ _ _ Hj); intros H; try (rewrite Hj in H);
    inversion H; subst; simpl; try exact Hr; try (rewrite Ep; simpl; exact Hr);
    try (destruct (held t); reflexivity).
Qed.

Lemma respond_is_last h : wa_ok (handler h) = true /\ ends_in_respond (handler h) = true.
Proof. destruct h; split; reflexivity. Qed.

(* the abandoned write: request 0 (rename, write handed off, answered 500 on the time-out), THEN request 1
   (disable) from start to acknowledgement, THEN the abandoned write: the acknowledged disable is undone *)
Definition abandoned_w0 : world :=
  init_world ex_db [] [tok_handler_abandoned 1 1 (map_tok 1 (fun t => {| t_idx := t_idx t; t_enabled := t_enabled t; t_name := 21 |}));
                       handler (HTokDisable 1 1)].
Lemma abandoned_write :
  wa_ok (tok_handler_abandoned 1 1 (fun p => p)) = false /\
  let w1 := run abandoned_w0 [0; 0; 0]%nat in
  let w2 := run w1 [1; 1; 1; 1]%nat in
  let w3 := run w2 [0]%nat in
  (resp_at w1 0 = Some 500 /\ resp_at w1 1 = None /\
   match nth_error (threads w1) 0 with Some t => has_respond (prog t) | None => true end = false) /\
  (resp_at w2 1 = Some 200 /\
   get 1 (store w2) = Some {| toks := [{| t_idx := 1; t_enabled := false; t_name := 11 |}; tk 2 12]; botp := None; last_totp := 0 |}) /\
  get 1 (store w3) = Some {| toks := [{| t_idx := 1; t_enabled := true; t_name := 21 |}; tk 2 12]; botp := None; last_totp := 0 |} /\
  serializable_outcome [1; 2] abandoned_w0 w3 = false.
Proof. vm_compute. repeat split; reflexivity. Qed.

(* lock copies *)
Lemma sweep_disciplined : disciplined (sweep [(M_pendingOauth2, 9); (M_localAuth, 1); (M_vipPush, 4)]) = true.
Proof. reflexivity. Qed.

Definition copy_w0 : world := init_world [] [(M_pendingOauth2, 9, 5)] [oauth_callback_copied 9 5; handler (HOauthBegin 8 6)].
Definition copy_born_locked : world :=
  {| store := []; mem := [(M_pendingOauth2, 9, 5)]; owner := [(L_copy, 1%nat)];
     threads := [mk_thread (oauth_callback_copied 9 5)]; saved := [] |}.

Lemma lock_copy :
  (forall k st, disciplined (oauth_callback_copied k st) = false) /\
  (exists sched, data_race (run copy_w0 sched)) /\
  (forall n, run copy_born_locked (repeat 0%nat n) = copy_born_locked).
Proof.
  split; [intros; reflexivity|]. split.
  - exists [0; 0; 0; 0; 1]%nat. apply (racing_sound _ 0%nat 1%nat); [discriminate|]. vm_compute. reflexivity.
  - induction n as [|n IH]; [reflexivity|]. simpl. exact IH.
Qed.

(* the same pool with the real callback: begin || callback || sweep are disciplined programs *)
Lemma oauth_pool_disciplined k st k' st' ks :
  Forall (fun p => disciplined p = true) [handler (HOauthBegin k st); handler (HOauthCallback k' st'); sweep (map (fun x => (M_pendingOauth2, x)) ks)].
Proof.
  repeat constructor. unfold sweep, disciplined. simpl.
  induction ks as [|x ks IH]; simpl; [reflexivity|exact IH].
Qed.
