(* C06 — proofs about the gate (Model/AuthGate.v) and the route table (Model/Routes.v). *)
From Coq Require Import ZArith List Bool String Lia.
From KM Require Import Base.Bytes Model.Auth Model.AuthGate Model.Routes.
From KM Require Model.IPExt Proofs.IPExt.
Import ListNotations.
Open Scope N_scope.

(* ------------------------------------------------------------------ small facts *)

Ltac splits := repeat match goal with |- _ /\ _ => split end.

Lemma hasb_comm a b : hasb a b = hasb b a.
Proof. unfold hasb. now rewrite N.land_comm. Qed.

Lemma hasb_zero_l b : hasb 0 b = false.
Proof. unfold hasb. now rewrite N.land_0_l. Qed.

Lemma mask_eqb_eq a b : mask_eqb a b = true -> a = b.
Proof. destruct a, b; simpl; congruence. Qed.

Lemma extra_eqb_eq a b : extra_eqb a b = true -> a = b.
Proof. destruct a, b; simpl; congruence. Qed.

Lemma meth_eqb_eq a b : meth_eqb a b = true -> a = b.
Proof. destruct a, b; simpl; congruence. Qed.

(* ------------------------------------------------------------------ the certificate branch *)

Lemma km_walk_ok denied l :
  km_walk true denied l = KmOk ->
  denied = false /\ exists ch, In ch l /\ ch_len2 ch = true /\ ch_role_ca ch = false /\ ch_key_trusted ch = true.
Proof.
  induction l as [|c r IH]; simpl; [discriminate|].
  destruct (ch_len2 c) eqn:L; simpl.
  - destruct (ch_role_ca c) eqn:R; simpl.
    + intros H. destruct (IH H) as [Hd [ch [Hin Hch]]]. split; [exact Hd|]. exists ch. split; [now right|exact Hch].
    + destruct denied; [discriminate|].
      destruct (ch_key_trusted c) eqn:T.
      * intros _. split; [reflexivity|]. exists c. split; [now left|]. repeat split; auto.
      * intros H. destruct (IH H) as [Hd [ch [Hin Hch]]]. split; [exact Hd|]. exists ch. split; [now right|exact Hch].
  - intros H. destruct (IH H) as [Hd [ch [Hin Hch]]]. split; [exact Hd|]. exists ch. split; [now right|exact Hch].
Qed.

(* the loop over the deny list looks at every position *)
Lemma deny_hit_false deny key : deny_hit deny key = false -> ~ In key deny.
Proof.
  unfold deny_hit. intros H Hin.
  assert (E : existsb (N.eqb key) deny = true).
  { apply existsb_exists. exists key. split; [exact Hin|apply N.eqb_refl]. }
  congruence.
Qed.

Lemma deny_hit_true deny key : In key deny -> deny_hit deny key = true.
Proof. intros Hin. apply existsb_exists. exists key. split; [exact Hin|apply N.eqb_refl]. Qed.

Lemma km_user_cert deny c : km_user true deny c = true -> km_cert deny c.
Proof.
  unfold km_user, km_cert. destruct (km_walk true (deny_hit deny (x_key c)) (x_chains c)) eqn:W; try discriminate.
  intros Hcn. apply km_walk_ok in W. destruct W as [Hd Hex].
  split; [|split; [apply deny_hit_false; exact Hd|exact Hex]].
  intros E. rewrite E in Hcn. discriminate.
Qed.

(* the netblock walk says "inside" only when a block literally present in the extension holds the peer *)
Lemma ip_verify_inside c : ip_verify c = Some true -> x_ip_error c = false /\ peer_inside c.
Proof.
  unfold ip_verify, peer_inside. destruct (x_ip_error c); [discriminate|].
  destruct (x_ext c) as [ext|]; [|discriminate]. intros V. split; [reflexivity|].
  assert (Hv : IPExt.verify_ip ext (x_peer c) = true) by (unfold IPExt.verify_ip; now rewrite V).
  destruct (Proofs.IPExt.verify_ip_sound _ _ Hv) as (blocks & e & b & Hin & He & Hd & Hp & Hc).
  exists ext, blocks, e, b. repeat split; auto.
Qed.

Lemma ip_res_ok c : ip_res c = IpOk -> x_cn c <> 0 -> ip_cert c.
Proof.
  unfold ip_res, ip_cert.
  destruct (ip_verify c) as [[|]|] eqn:V; try discriminate.
  destruct (ip_verify_inside _ V) as [He Hi].
  destruct (x_auto_error c); [discriminate|]. destruct (x_automation c); simpl; [|discriminate].
  destruct (x_revoked c); [discriminate|]. intros _ Hcn. repeat split; auto.
Qed.

Lemma neqb_neq a : negb (a =? 0) = true -> a <> 0.
Proof. intros H E. subst. discriminate. Qed.

(* exact level the certificate branch assigns *)
Definition tls_level (deny : list N) (required : N) (c : tlsx) : N :=
  N.lor (if km_user true deny c then bKMX509 else 0)
        (if hasb required bIPCert then match ip_res c with IpOk => bIPCert | _ => 0 end else 0).
Definition tls_iat (now : Z) (required : N) (c : tlsx) : Z :=
  if hasb required bIPCert then match ip_res c with IpOk => now | _ => x_nb c end else x_nb c.

Lemma fin_inv required c lvl iat0 (named : bool) u l iat :
  (if negb named then None
   else if true && negb (hasb lvl required) then None else Some (Admit (x_cn c) lvl iat0)) = Some (Admit u l iat) ->
  named = true /\ hasb lvl required = true /\ u = x_cn c /\ l = lvl /\ iat = iat0.
Proof.
  destruct named; simpl; [|discriminate]. destruct (hasb lvl required); simpl; [|discriminate].
  intros H. inversion H. auto.
Qed.

Lemma tls_branch_accept now deny required c u l iat :
  tls_branch true true now deny required c = Some (Admit u l iat) ->
  u = x_cn c /\ u <> 0 /\ l = tls_level deny required c /\ iat = tls_iat now required c /\
  hasb l required = true /\
  (l = bKMX509 \/ l = bIPCert \/ l = N.lor bKMX509 bIPCert) /\
  (hasb l bKMX509 = true -> km_cert deny c) /\ (hasb l bIPCert = true -> ip_cert c).
Proof.
  unfold tls_branch, tls_level, tls_iat. intros H.
  assert (Hkm : km_user true deny c = true -> km_cert deny c) by apply km_user_cert.
  assert (Hkm0 : km_user true deny c = true -> x_cn c <> 0).
  { unfold km_user. destruct (km_walk true (deny_hit deny (x_key c)) (x_chains c)); try discriminate. apply neqb_neq. }
  Ltac fin_tac := splits; auto; try (right; right; reflexivity); try (right; left; reflexivity);
    try (intros E; vm_compute in E; discriminate); try (intros _; apply ip_res_ok; auto).
  destruct (km_user true deny c) eqn:K; destruct (hasb required bIPCert) eqn:RI.
  - destruct (ip_res c) eqn:IP; apply fin_inv in H; destruct H as (Hn & Hr & -> & -> & ->);
      try apply neqb_neq in Hn; fin_tac.
  - apply fin_inv in H. destruct H as (Hn & Hr & -> & -> & ->). fin_tac.
  - destruct (ip_res c) eqn:IP; try discriminate.
    apply fin_inv in H. destruct H as (Hn & Hr & -> & -> & ->). apply neqb_neq in Hn. fin_tac.
  - apply fin_inv in H. destruct H as (Hn & _). discriminate.
Qed.

(* ------------------------------------------------------------------ the cookie / basic branch *)

Lemma token_ok_valid now t :
  token_ok now t = true -> (t_exp t <? now)%Z = false -> valid_cookie now t.
Proof.
  unfold token_ok, valid_cookie. intros H E.
  repeat (apply andb_true_iff in H; destruct H as [H ?]).
  repeat split; auto.
  - now apply negb_true_iff.
  - now apply N.eqb_eq.
  - now apply Z.leb_le.
  - apply Z.ltb_ge in E. exact E.
Qed.

Lemma cookie_branch_accept now lim required cr u l iat :
  cookie_branch now lim required cr = Admit u l iat ->
  hasb l required = true /\
  ((exists t, k_cookie cr = Some t /\ valid_cookie now t /\ u = t_sub t /\ l = t_level t /\ iat = t_iat t) \/
   (exists b, k_cookie cr = None /\ k_basic cr = Some b /\ b_ok b = true /\ b_err b = false /\
              u = b_user b /\ l = bPassword /\ iat = now)).
Proof.
  unfold cookie_branch, basic_branch. destruct (k_cookie cr) as [t|].
  - destruct (token_ok now t) eqn:TK; simpl; [|discriminate].
    destruct (t_exp t <? now)%Z eqn:EX; [discriminate|].
    destruct (hasb (t_level t) required) eqn:HL; simpl; [|discriminate].
    intros H. inversion H; subst. split; [exact HL|]. left. exists t. splits; auto.
    now apply token_ok_valid.
  - destruct (hasb required bPassword) eqn:HP; simpl; [|discriminate].
    destruct (k_basic cr) as [b|]; [|discriminate].
    destruct lim; simpl; [|discriminate]. destruct (b_err b) eqn:BE; [discriminate|].
    destruct (b_ok b) eqn:BO; [|discriminate].
    intros H. inversion H; subst. split; [now rewrite hasb_comm|]. right. exists b. splits; auto.
Qed.

(* a request that carries an auth_cookie is never let in on the strength of its basic-auth header *)
Lemma cookie_present_no_basic now lim required cr t u l iat :
  k_cookie cr = Some t -> cookie_branch now lim required cr = Admit u l iat ->
  valid_cookie now t /\ u = t_sub t /\ l = t_level t /\ iat = t_iat t.
Proof.
  intros E H. apply cookie_branch_accept in H. destruct H as [_ [[t' (E' & V & Eu & El & Ei)]|[b (E' & _)]]].
  - rewrite E in E'. inversion E'; subst t'. auto.
  - congruence.
Qed.

(* ------------------------------------------------------------------ the gate *)

Lemma csrf_passed sr mt now lim deny required q u l iat :
  check_auth_gen sr mt now lim deny required q = Admit u l iat -> q_meth q <> GET -> origin_ok q.
Proof.
  unfold check_auth_gen, origin_ok. intros H Hm.
  destruct (q_meth q); [congruence| |]; destruct (q_origin q); auto; discriminate.
Qed.

Lemma csrf_refused sr mt now lim deny required q :
  q_meth q <> GET -> (q_origin q = CrossOrigin \/ q_origin q = BadOrigin) ->
  exists code, check_auth_gen sr mt now lim deny required q = Refuse code.
Proof.
  unfold check_auth_gen. intros Hm [E|E]; rewrite E; destruct (q_meth q); try congruence; eauto.
Qed.

(* what was decided, exactly: which credential, which identity, which level, which instant *)
Definition established (now : Z) (deny : list N) (required : N) (q : reqx) (u l : N) (iat : Z) : Prop :=
  (exists t, k_cookie (q_cred q) = Some t /\ valid_cookie now t /\ u = t_sub t /\ l = t_level t /\ iat = t_iat t) \/
  (exists b, k_cookie (q_cred q) = None /\ k_basic (q_cred q) = Some b /\ b_ok b = true /\ b_err b = false /\
             u = b_user b /\ l = bPassword /\ iat = now) \/
  (exists c, q_tls q = Some c /\ u = x_cn c /\ u <> 0 /\ l = tls_level deny required c /\ iat = tls_iat now required c /\
             (hasb l bKMX509 = true -> km_cert deny c) /\ (hasb l bIPCert = true -> ip_cert c)).

Lemma gate_cases now lim deny required q u l iat :
  check_auth now lim deny required q = Admit u l iat ->
  hasb l required = true /\ proves now deny q u l /\ established now deny required q u l iat.
Proof.
  unfold check_auth, check_auth_gen. intros H.
  assert (Hpass : match q_tls q with
                  | Some c => if hasb required (N.lor bIPCert bKMX509) then tls_branch true true now deny required c else None
                  | None => None end = Some (Admit u l iat) \/
                  cookie_branch now lim required (q_cred q) = Admit u l iat).
  { destruct (q_meth q); destruct (q_origin q); try discriminate;
    match type of H with
    | match ?t with Some _ => _ | None => _ end = _ => destruct t as [x|]; [left; now subst x | right; exact H]
    end. }
  clear H. destruct Hpass as [Ht|Hc].
  - destruct (q_tls q) as [c|] eqn:TL; [|discriminate].
    destruct (hasb required (N.lor bIPCert bKMX509)); [|discriminate].
    apply tls_branch_accept in Ht. destruct Ht as (Hu & Hu0 & Hl & Hi & Hreq & Hshape & Hkm & Hip).
    split; [exact Hreq|]. split.
    + right. right. exists c. splits; auto.
    + right. right. exists c. splits; auto.
  - apply cookie_branch_accept in Hc.
    destruct Hc as [Hreq [[t (E & V & Eu & El & Ei)]|[b (E0 & E & Bo & Be & Eu & El & Ei)]]].
    + split; [exact Hreq|]. split.
      * left. exists t. auto.
      * left. exists t. auto.
    + split; [exact Hreq|]. split.
      * right. left. exists b. auto.
      * right. left. exists b. splits; auto.
Qed.

Theorem gate_sound now lim deny required q u l iat :
  check_auth now lim deny required q = Admit u l iat ->
  proves now deny q u l /\ hasb l required = true /\ (q_meth q <> GET -> origin_ok q).
Proof.
  intros H. destruct (gate_cases _ _ _ _ _ _ _ _ H) as (Hreq & Hp & _).
  split; [exact Hp|]. split; [exact Hreq|]. exact (csrf_passed _ _ _ _ _ _ _ _ _ _ H).
Qed.

Theorem identity_real now lim deny required q u l iat :
  check_auth now lim deny required q = Admit u l iat -> established now deny required q u l iat.
Proof. intros H. exact (proj2 (proj2 (gate_cases _ _ _ _ _ _ _ _ H))). Qed.

(* a deny-listed key — at whatever position of a deny list of whatever length — never contributes
   the keymaster-certificate bit; an IP-restricted certificate presented from outside its
   netblocks never contributes the IP bit *)
Corollary never_denied now lim deny required q u l iat c :
  check_auth now lim deny required q = Admit u l iat -> q_tls q = Some c -> In (x_key c) deny ->
  hasb l bKMX509 = true -> exists t, k_cookie (q_cred q) = Some t /\ valid_cookie now t /\ l = t_level t.
Proof.
  intros H TL D HK.
  destruct (identity_real _ _ _ _ _ _ _ _ H) as [[t (E & V & _ & El & _)]|[[b (_ & _ & _ & _ & _ & El & _)]|[c' (TL' & _ & _ & _ & _ & Hkm & _)]]].
  - exists t. auto.
  - subst l. vm_compute in HK. discriminate.
  - rewrite TL in TL'. inversion TL'; subst c'. destruct (Hkm HK) as (_ & D' & _). contradiction.
Qed.

(* the same, said position by position: when the identity let in is the certificate's, with the
   keymaster-certificate bit, then no index of the deny list holds the leaf's key *)
Corollary deny_no_position now lim deny required q u l iat c :
  check_auth now lim deny required q = Admit u l iat -> q_tls q = Some c -> k_cookie (q_cred q) = None ->
  hasb l bKMX509 = true -> forall i, nth_error deny i <> Some (x_key c).
Proof.
  intros H TL NC HK i Hi. apply nth_error_In in Hi.
  destruct (never_denied _ _ _ _ _ _ _ _ _ H TL Hi HK) as (t & E & _). congruence.
Qed.

(* a statement about addresses: whoever is let in with the IP-certificate bit in the level presents a
   certificate that carries a netblock holding the TCP peer (or the bit came out of a valid session
   token) *)
Corollary never_outside now lim deny required q u l iat c :
  check_auth now lim deny required q = Admit u l iat -> q_tls q = Some c -> hasb l bIPCert = true ->
  peer_inside c \/ exists t, k_cookie (q_cred q) = Some t /\ valid_cookie now t /\ l = t_level t.
Proof.
  intros H TL HK.
  destruct (identity_real _ _ _ _ _ _ _ _ H) as [[t (E & V & _ & El & _)]|[[b (_ & _ & _ & _ & _ & El & _)]|[c' (TL' & _ & _ & _ & _ & _ & Hip)]]].
  - right. exists t. auto.
  - subst l. vm_compute in HK. discriminate.
  - rewrite TL in TL'. inversion TL'; subst c'. destruct (Hip HK) as (_ & _ & D' & _). left. exact D'.
Qed.

(* the contrapositive, block by block: if NO block of the extension holds the peer, the bit is not given *)
Corollary never_outside_blocks now lim deny required q u l iat c :
  check_auth now lim deny required q = Admit u l iat -> q_tls q = Some c -> k_cookie (q_cred q) = None ->
  (forall ext blocks e b, x_ext c = Some ext -> In (IPExt.ipv4_family, blocks) ext -> In e blocks ->
                          IPExt.decode e = Some b -> IPExt.contains b (x_peer c) = false) ->
  hasb l bIPCert = false.
Proof.
  intros H TL NC Hout. destruct (hasb l bIPCert) eqn:HK; [|reflexivity]. exfalso.
  destruct (never_outside _ _ _ _ _ _ _ _ _ H TL HK) as [(ext & blocks & e & b & Hx & Hf & He & Hd & _ & Hc)|(t & E & _)].
  - rewrite (Hout _ _ _ _ Hx Hf He Hd) in Hc. discriminate.
  - congruence.
Qed.

(* for a certificate minted for well-formed blocks (what the role-certificate endpoints produce) and an
   IPv4 peer, in numbers: some block of the certificate and the peer agree on the leading plen bits *)
Corollary never_outside_numeric now lim deny required q u l iat c blocks a0 a1 a2 a3 :
  check_auth now lim deny required q = Admit u l iat -> q_tls q = Some c -> k_cookie (q_cred q) = None ->
  x_ext c = Some (IPExt.ext_of blocks) -> forallb IPExt.wf_block blocks = true ->
  x_peer c = IPExt.V4 a0 a1 a2 a3 -> a0 < 256 -> a1 < 256 -> a2 < 256 -> a3 < 256 ->
  hasb l bIPCert = true ->
  exists b, In b blocks /\
    Proofs.IPExt.bnum b / 2 ^ (32 - IPExt.plen b) = Proofs.IPExt.num a0 a1 a2 a3 / 2 ^ (32 - IPExt.plen b).
Proof.
  intros H TL NC Hx Hwf Hp A0 A1 A2 A3 HK.
  destruct (never_outside _ _ _ _ _ _ _ _ _ H TL HK) as [(ext & bl & e & b & Hx' & Hf & He & Hd & Hpl & Hc)|(t & E & _)]; [|congruence].
  rewrite Hx in Hx'. inversion Hx'; subst ext. unfold IPExt.ext_of in Hf. destruct Hf as [Hf|[]].
  inversion Hf; subst bl. apply in_map_iff in He. destruct He as (b0 & Hb0 & Hin).
  assert (W : IPExt.wf_block b0 = true) by (exact (proj1 (forallb_forall _ _) Hwf b0 Hin)).
  subst e. rewrite (Proofs.IPExt.roundtrip _ W) in Hd. inversion Hd; subst b0.
  exists b. split; [exact Hin|]. rewrite Hp in Hc.
  unfold IPExt.wf_block in W. repeat (apply andb_true_iff in W; destruct W as [W ?]).
  unfold IPExt.is_byte in *.
  apply Proofs.IPExt.contains_numeric; auto; try (now apply N.ltb_lt).
Qed.

(* ------------------------------------------------------------------ credential combinations *)

(* the password is looked at only when the request has no auth_cookie and the mask has the password bit *)
Theorem basic_only_without_cookie now lim deny required q u l iat :
  check_auth now lim deny required q = Admit u l iat ->
  (exists t, k_cookie (q_cred q) = Some t) \/ hasb required bPassword = false ->
  (exists t, k_cookie (q_cred q) = Some t /\ valid_cookie now t /\ u = t_sub t /\ l = t_level t) \/
  (exists c, q_tls q = Some c /\ u = x_cn c /\ hasb l (N.lor bKMX509 bIPCert) = true).
Proof.
  intros H Hc.
  destruct (gate_cases _ _ _ _ _ _ _ _ H) as (Hreq & _ & [[t (E & V & Eu & El & _)]|[[b (E0 & _ & _ & _ & _ & El & _)]|[c (TL & Eu & _ & El & _ & _ & _)]]]).
  - left. exists t. auto.
  - exfalso. destruct Hc as [[t E]|Hp]; [congruence|].
    subst l. rewrite hasb_comm in Hp. congruence.
  - right. exists c. split; [exact TL|]. split; [exact Eu|].
    subst l. unfold tls_level in *.
    destruct (km_user true deny c); destruct (hasb required bIPCert); try destruct (ip_res c);
      try (vm_compute; reflexivity);
      (change (N.lor 0 0) with 0 in Hreq; rewrite hasb_zero_l in Hreq; discriminate).
Qed.

(* ------------------------------------------------------------------ the time window of a session cookie *)

(* exact on both sides, to the time unit: a request that carries an auth_cookie is let in on the
   strength of it only while nbf <= now <= exp (otherwise whoever is let in is the certificate's holder) *)
Theorem cookie_window now lim deny required q u l iat t :
  check_auth now lim deny required q = Admit u l iat -> k_cookie (q_cred q) = Some t ->
  ((t_nbf t <= now <= t_exp t)%Z /\ u = t_sub t /\ l = t_level t) \/
  (exists c, q_tls q = Some c /\ u = x_cn c /\ hasb l (N.lor bKMX509 bIPCert) = true).
Proof.
  intros H E.
  destruct (basic_only_without_cookie _ _ _ _ _ _ _ _ H (or_introl (ex_intro _ t E))) as [(t' & E' & V & Eu & El)|Hc].
  - left. rewrite E in E'. inversion E'; subst t'. destruct V as (_ & _ & _ & _ & _ & _ & W). auto.
  - right. exact Hc.
Qed.

(* an expired or not yet valid cookie - by however little - on a connection without client certificate: refused *)
Corollary cookie_outside_window_refused now lim deny required q t :
  q_tls q = None -> k_cookie (q_cred q) = Some t -> (t_exp t < now \/ now < t_nbf t)%Z ->
  exists code, check_auth now lim deny required q = Refuse code.
Proof.
  intros TL E W. destruct (check_auth now lim deny required q) as [u l iat|code] eqn:H; [|eauto]. exfalso.
  destruct (cookie_window _ _ _ _ _ _ _ _ _ H E) as [((W1 & W2) & _)|(c & TL' & _)]; [lia|congruence].
Qed.

(* any grace period, however short, lets in a cookie that is not valid *)
Lemma grace_refuted grace : (0 < grace)%Z ->
  exists now required t, cookie_admits_with_grace grace now required t = true /\ ~ valid_cookie now t.
Proof.
  intros G.
  exists 1001%Z, bU2F,
    {| t_signer_trusted := true; t_alg_allowed := true; t_tampered := false; t_iss_ok := true; t_aud_ok := true;
       t_kind := 0; t_nbf := 0%Z; t_exp := 1000%Z; t_iat := 0%Z; t_sub := 1; t_level := bU2F |}.
  split.
  - assert (E : (1000 + grace <? 1001)%Z = false) by (apply Z.ltb_ge; lia).
    unfold cookie_admits_with_grace, token_ok.
    cbv beta iota delta [t_signer_trusted t_alg_allowed t_tampered t_iss_ok t_aud_ok t_kind t_nbf t_exp t_level].
    rewrite E. vm_compute. reflexivity.
  - intros (_ & _ & _ & _ & _ & _ & W). cbn in W. lia.
Qed.

Lemma webui_level_bits l : forall acc b,
  hasb (fold_left (fun a x => N.lor a (backend_bit x)) l acc) b = true ->
  hasb acc b = true \/ exists x, In x l /\ hasb (backend_bit x) b = true.
Proof.
  induction l as [|x r IH]; intros acc b H; simpl in *; [now left|].
  destruct (IH _ _ H) as [Ha|[y [Hin Hy]]].
  - unfold hasb in *. rewrite N.land_lor_distr_l in Ha.
    destruct (N.land acc b =? 0) eqn:A; [|now left].
    right. exists x. split; [now left|]. apply N.eqb_eq in A. rewrite A in Ha. exact Ha.
  - right. exists y. split; [now right|exact Hy].
Qed.

(* a web-UI backend list without `password` gives a mask without the password bit and without
   certificate bits *)
Lemma webui_no_password l : ~ In BPassword l -> hasb (webui_level l) bPassword = false.
Proof.
  intros Hn. destruct (hasb (webui_level l) bPassword) eqn:H; [|reflexivity]. exfalso.
  destruct (webui_level_bits _ _ _ H) as [H0|[x [Hin Hx]]]; [rewrite hasb_zero_l in H0; discriminate|].
  destruct x; try (vm_compute in Hx; discriminate). contradiction.
Qed.

Lemma webui_no_cert_bits l : hasb (webui_level l) (N.lor bIPCert bKMX509) = false.
Proof.
  destruct (hasb (webui_level l) (N.lor bIPCert bKMX509)) eqn:H; [|reflexivity]. exfalso.
  destruct (webui_level_bits _ _ _ H) as [H0|[x [Hin Hx]]]; [rewrite hasb_zero_l in H0; discriminate|].
  destruct x; vm_compute in Hx; discriminate.
Qed.

(* where the web UI does not take passwords, whoever is let in by a web-UI endpoint holds a valid
   session cookie for exactly that user and level — whatever else the request carries *)
Theorem webui_without_password now lim deny backends q u l iat :
  ~ In BPassword backends ->
  check_auth now lim deny (webui_level backends) q = Admit u l iat ->
  exists t, k_cookie (q_cred q) = Some t /\ valid_cookie now t /\ u = t_sub t /\ l = t_level t /\
            hasb (t_level t) (webui_level backends) = true.
Proof.
  intros Hn H.
  destruct (gate_cases _ _ _ _ _ _ _ _ H) as (Hreq & _ & _).
  unfold check_auth, check_auth_gen in H. rewrite webui_no_cert_bits in H.
  assert (Hc : cookie_branch now lim (webui_level backends) (q_cred q) = Admit u l iat).
  { destruct (q_meth q); destruct (q_origin q); try discriminate; destruct (q_tls q); exact H. }
  apply cookie_branch_accept in Hc. destruct Hc as [_ [[t (E & V & Eu & El & _)]|[b (_ & _ & _ & _ & _ & El & _)]]].
  - exists t. splits; auto. subst l. exact Hreq.
  - exfalso. subst l. rewrite hasb_comm in Hreq. rewrite (webui_no_password _ Hn) in Hreq. discriminate.
Qed.

(* ------------------------------------------------------------------ refutations for the old branches *)

Definition role_chain := {| ch_len2 := true; ch_role_ca := true; ch_key_trusted := true |}.
Definition main_chain := {| ch_len2 := true; ch_role_ca := false; ch_key_trusted := true |}.
(* an automation certificate for 10.0.0.0/8 presented from 192.168.1.1 with its real chain *)
Definition outside_cert : tlsx :=
  {| x_chains := [role_chain]; x_cn := 4; x_key := 1; x_nb := 0%Z; x_ip_error := false;
     x_ext := Some (IPExt.ext_of [IPExt.mk 10 0 0 0 8]); x_peer := IPExt.V4 192 168 1 1;
     x_auto_error := false; x_automation := true; x_revoked := false |}.
(* an ordinary user certificate issued by the main CA *)
Definition user_cert : tlsx :=
  {| x_chains := [main_chain]; x_cn := 1; x_key := 1; x_nb := 0%Z; x_ip_error := false;
     x_ext := None; x_peer := IPExt.V4 10 1 2 3; x_auto_error := false; x_automation := false; x_revoked := false |}.
Definition with_cert (m : meth) (c : tlsx) : reqx :=
  {| q_meth := m; q_origin := NoOrigin; q_tls := Some c; q_cred := no_cred |}.

Lemma old_role_refuted :
  exists now lim deny required q u l iat,
    check_auth_gen false true now lim deny required q = Admit u l iat /\ ~ proves now deny q u l.
Proof.
  exists 100%Z, true, [], bAny, (with_cert POST outside_cert), 4, bKMX509, 0%Z.
  split; [vm_compute; reflexivity|].
  intros [[t [E _]]|[[b [E _]]|[c (TL & _ & _ & Hkm & _)]]]; try discriminate.
  inversion TL; subst c. destruct (Hkm eq_refl) as (_ & _ & ch & Hin & _ & Hr & _).
  destruct Hin as [<-|[]]. discriminate.
Qed.

Lemma old_mask_refuted :
  exists now lim deny required q u l iat,
    check_auth_gen true false now lim deny required q = Admit u l iat /\ hasb l required = false.
Proof.
  exists 100%Z, true, [], bIPCert, (with_cert POST user_cert), 1, bKMX509, 0%Z.
  split; vm_compute; reflexivity.
Qed.

(* ------------------------------------------------------------------ routes *)

Section Routes.
Variable env : envx.
Variable q : reqx.

Definition inv (f : flags) (id : ident) : Prop :=
  (forall m, f_auth f = Some m ->
     exists u l, id = Some (u, l) /\ proves (e_now env) (e_deny env) q u l /\
                 hasb l (mask_val (e_webui env) m) = true /\ (q_meth q <> GET -> origin_ok q)) /\
  (forall x, In x (f_extras f) -> exists u l, id = Some (u, l) /\ extra_ok x env u l) /\
  (f_own f = true -> e_own env = true) /\
  (f_pw f = true -> exists b, k_basic (q_cred q) = Some b /\ b_ok b = true).

Lemma inv0 id : inv flags0 id.
Proof. repeat split; simpl; intros; try discriminate; contradiction. Qed.

Lemma eff_allowed_accepts g f id : eff_allowed g f = true -> inv f id -> accepts env q g.
Proof.
  intros Ha (Ia & Ix & Io & Ip). destruct g as [| | |m x]; simpl in *.
  - discriminate.
  - auto.
  - auto.
  - destruct (f_auth f) as [m'|] eqn:FA; [|discriminate].
    apply andb_true_iff in Ha. destruct Ha as [Hm Hx]. apply mask_eqb_eq in Hm. subst m'.
    destruct (Ia m eq_refl) as (u & l & Hid & Hp & Hh & Hc).
    exists u, l. repeat split; auto.
    apply orb_true_iff in Hx. destruct Hx as [Hx|Hx].
    + apply extra_eqb_eq in Hx. subst x. exact I.
    + apply existsb_exists in Hx. destruct Hx as (y & Hin & Hy). apply extra_eqb_eq in Hy. subst y.
      destruct (Ix x Hin) as (u' & l' & Hid' & Hok). rewrite Hid in Hid'. inversion Hid'; subst. exact Hok.
Qed.

(* adding an extra that holds for the current identity keeps the invariant *)
Lemma inv_extra f u l x :
  inv f (Some (u, l)) -> extra_ok x env u l ->
  inv {| f_auth := f_auth f; f_extras := x :: f_extras f; f_own := f_own f; f_pw := f_pw f |} (Some (u, l)).
Proof.
  intros (Ia & Ix & Io & Ip) Hx. repeat split; simpl; auto.
  intros y [<-|Hy]; [exists u, l; auto | auto].
Qed.

Lemma run_sound g : forall steps f id e,
  guarded g f steps = true -> inv f id -> In e (snd (run env q steps id)) -> accepts env q g.
Proof.
  induction steps as [|s r IH]; intros f id e G I Hin; simpl in *; [contradiction|].
  destruct s; simpl in *.
  - (* SMeth *) destruct (existsb (meth_eqb (q_meth q)) l); [eapply IH; eauto | contradiction].
  - (* SAuth *)
    destruct (check_auth (e_now env) (e_limiter env) (e_deny env) (mask_val (e_webui env) m) q) as [u l iat|code] eqn:CA;
      [|contradiction].
    eapply IH; [exact G| |exact Hin].
    destruct (gate_sound _ _ _ _ _ _ _ _ CA) as (Hp & Hh & Hc). destruct I as (_ & _ & Io & _).
    repeat split; simpl; auto.
    + intros m' E. inversion E; subst m'. exists u, l. auto.
    + contradiction.
    + discriminate.
  - (* SAdmin *)
    destruct id as [[u l]|]; [|contradiction]. destruct (e_admin env u) eqn:A; [|contradiction].
    eapply IH; [exact G| |exact Hin]. apply inv_extra; auto.
  - (* SAutoAdmin *)
    destruct id as [[u l]|]; [|contradiction]. destruct (e_autoadmin env u) eqn:A; [|contradiction].
    eapply IH; [exact G| |exact Hin]. apply inv_extra; auto.
  - (* SSelfOrAdminU2F *)
    destruct id as [[u l]|]; [|contradiction].
    destruct ((e_target env =? u) || (e_admin env u && hasb l bU2F)) eqn:A; [|contradiction].
    eapply IH; [exact G| |exact Hin]. apply inv_extra; auto. simpl.
    apply orb_true_iff in A. destruct A as [A|A]; [left; now apply N.eqb_eq | right; now apply andb_true_iff].
  - (* SProfileTarget *)
    destruct id as [[u l]|]; [|contradiction].
    destruct ((e_target env =? 0) || e_admin env u) eqn:A; [|contradiction].
    eapply IH; [exact G| |exact Hin]. apply inv_extra; auto. simpl.
    apply orb_true_iff in A. destruct A as [A|A]; [left; now apply N.eqb_eq | now right].
  - (* SSelf *)
    destruct id as [[u l]|]; [|contradiction]. destruct (e_target env =? u) eqn:A; [|contradiction].
    eapply IH; [exact G| |exact Hin]. apply inv_extra; auto. simpl. now apply N.eqb_eq.
  - (* SOwn *)
    destruct (e_own env) eqn:O; [|contradiction].
    eapply IH; [exact G| |exact Hin]. destruct I as (Ia & Ix & Io & Ip). repeat split; simpl; auto.
  - (* SPassword *)
    destruct (k_basic (q_cred q)) as [b|] eqn:CR; try contradiction.
    destruct (e_limiter env && negb (b_err b) && b_ok b) eqn:A; [|contradiction].
    eapply IH; [exact G| |exact Hin]. destruct I as (_ & _ & Io & _).
    apply andb_true_iff in A. destruct A as [_ A].
    repeat split; simpl; auto; try discriminate; try contradiction.
    intros _. exists b. auto.
  - (* SCheck *) destruct (e_check env); [eapply IH; eauto | contradiction].
  - (* SEff *)
    apply andb_true_iff in G. destruct G as [Ga Gr].
    destruct (run env q r id) as [i es] eqn:R. simpl in Hin. destruct Hin as [<-|Hin].
    + eapply eff_allowed_accepts; eauto.
    + eapply IH; [exact Gr|exact I|]. rewrite R. exact Hin.
Qed.

Lemma run_csrf : forall steps authed noget id e,
  csrf_safe_from authed noget steps = true ->
  (authed = true -> q_meth q <> GET -> origin_ok q) ->
  (noget = true -> q_meth q <> GET) ->
  In e (snd (run env q steps id)) -> state_changing e = true -> origin_ok q.
Proof.
  induction steps as [|s r IH]; intros authed noget id e S Ha Hn Hin Hs; simpl in *; [contradiction|].
  destruct s; simpl in *.
  - (* SMeth *)
    destruct (existsb (meth_eqb (q_meth q)) l) eqn:B; [|contradiction].
    eapply IH; [exact S|exact Ha| |exact Hin|exact Hs].
    intros Hng. apply orb_true_iff in Hng. destruct Hng as [Hng|Hng]; [auto|].
    apply negb_true_iff in Hng. intros E. rewrite E in B. congruence.
  - (* SAuth *)
    destruct (check_auth (e_now env) (e_limiter env) (e_deny env) (mask_val (e_webui env) m) q) as [u' l' iat|code] eqn:CA;
      [|contradiction].
    eapply IH; [exact S| |exact Hn|exact Hin|exact Hs].
    intros _. exact (csrf_passed _ _ _ _ _ _ _ _ _ _ CA).
  - destruct id as [[u l]|]; [|contradiction]. destruct (e_admin env u); [eapply IH; eauto|contradiction].
  - destruct id as [[u l]|]; [|contradiction]. destruct (e_autoadmin env u); [eapply IH; eauto|contradiction].
  - destruct id as [[u l]|]; [|contradiction].
    destruct ((e_target env =? u) || (e_admin env u && hasb l bU2F)); [eapply IH; eauto|contradiction].
  - destruct id as [[u l]|]; [|contradiction].
    destruct ((e_target env =? 0) || e_admin env u); [eapply IH; eauto|contradiction].
  - destruct id as [[u l]|]; [|contradiction]. destruct (e_target env =? u); [eapply IH; eauto|contradiction].
  - destruct (e_own env); [eapply IH; eauto|contradiction].
  - destruct (k_basic (q_cred q)) as [b|]; try contradiction.
    destruct (e_limiter env && negb (b_err b) && b_ok b); [eapply IH; eauto | contradiction].
  - destruct (e_check env); [eapply IH; eauto|contradiction].
  - (* SEff *)
    apply andb_true_iff in S. destruct S as [Se Sr].
    destruct (run env q r id) as [i es] eqn:R. simpl in Hin. destruct Hin as [<-|Hin].
    + rewrite Hs in Se. simpl in Se. apply andb_true_iff in Se. destruct Se as [A N]. auto.
    + eapply IH; [exact Sr|exact Ha|exact Hn| |exact Hs]. rewrite R. exact Hin.
Qed.

End Routes.

(* every row of the hand-written table keeps its effects behind its declared gate *)
Lemma table_guarded : forallb (fun r => guarded (rt_gate r) flags0 (rt_steps r)) route_table = true.
Proof. vm_compute. reflexivity. Qed.

Theorem routes_sound : forall r env q e,
  In r route_table -> In e (snd (run env q (rt_steps r) None)) -> accepts env q (rt_gate r).
Proof.
  intros r env q e Hr He.
  pose proof (proj1 (forallb_forall _ _) table_guarded r Hr) as G. simpl in G.
  eapply run_sound; [exact G|apply inv0|exact He].
Qed.

Theorem routes_csrf : forall r env q e,
  In r route_table -> csrf_safe (rt_steps r) = true ->
  In e (snd (run env q (rt_steps r) None)) -> state_changing e = true -> origin_ok q.
Proof.
  intros r env q e _ S He Hs. unfold csrf_safe in S.
  eapply run_csrf; [exact S| | |exact He|exact Hs]; intros; discriminate.
Qed.

(* public rows have no protected effect whatever is sent *)
Theorem public_no_effect : forall r env q,
  In r route_table -> rt_gate r = GPublic -> snd (run env q (rt_steps r) None) = [].
Proof.
  intros r env q Hr Hg. destruct (snd (run env q (rt_steps r) None)) as [|e es] eqn:E; [reflexivity|].
  exfalso. assert (He : In e (snd (run env q (rt_steps r) None))) by (rewrite E; now left).
  pose proof (routes_sound r env q e Hr He) as A. rewrite Hg in A. exact A.
Qed.

(* ------------------------------------------------------------------ the login route as issuer of sessions *)

(* whatever the request carries besides its login credential: the minted session names the user of that
   credential, the credential is a verified password, the level is the password level and nothing more *)
Theorem login_mints_password_only : forall now lim lq u l,
  login_handler now lim lq = LMint u l -> login_spec lq u l.
Proof.
  intros now lim lq u l H. unfold login_handler, login_handler_gen in H. unfold login_spec.
  destruct (q_meth (lq_req lq)); try discriminate;
    (destruct (login_credential lq) as [b|] eqn:LC; [|discriminate];
     destruct (negb lim); [discriminate|]; destruct (b_err b); [discriminate|];
     destruct (b_ok b) eqn:OK; simpl in H; [|discriminate];
     inversion H; subst; split; [reflexivity|]; exists b; auto).
Qed.

(* the attached credentials are ignored: two login requests with the same method, the same Authorization
   header and the same form get the same answer - whatever auth_cookie (present or not, of whichever user and
   level, valid or not), client certificate, Origin/Referer and clock each of them comes with *)
Theorem login_ignores_attached : forall now now' lim lq lq',
  q_meth (lq_req lq) = q_meth (lq_req lq') ->
  k_basic (q_cred (lq_req lq)) = k_basic (q_cred (lq_req lq')) ->
  lq_form lq = lq_form lq' ->
  login_handler now lim lq = login_handler now' lim lq'.
Proof.
  intros now now' lim lq lq' Hm Hb Hf. unfold login_handler, login_handler_gen, login_credential.
  rewrite Hm, Hb, Hf. reflexivity.
Qed.

(* consequence at the gates: the session minted by a login, presented on its own, is refused by every endpoint
   whose mask has no password bit (every clock, method, origin, validity window of the cookie) *)
Theorem login_session_needs_second_factor : forall now lim lq u l now' lim' deny required m o nbf exp iat,
  login_handler now lim lq = LMint u l -> hasb bPassword required = false ->
  exists code, check_auth now' lim' deny required
                 {| q_meth := m; q_origin := o; q_tls := None; q_cred := cookie_only (session_token u l nbf exp iat) |} = Refuse code.
Proof.
  intros now lim lq u l now' lim' deny required m o nbf exp iat H Hreq.
  destruct (login_mints_password_only _ _ _ _ _ H) as (Hl & _). subst l.
  unfold check_auth, check_auth_gen, cookie_branch, cookie_only, session_token. simpl.
  rewrite Hreq. simpl.
  destruct m; destruct o; simpl; try (eexists; reflexivity);
    destruct (token_ok now' _); simpl; try (eexists; reflexivity);
    destruct (exp <? now')%Z; simpl; eexists; reflexivity.
Qed.

(* the login row of the route table is this issuer: signed material leaves the login route only when the
   issuer mints (the form of the login route travels as k_basic in the route cases) *)
Theorem login_row_is_issuer : forall env q e,
  In e (snd (run env q [SMeth gp; SCheck; SPassword; SCheck; SEff ESigned] None)) ->
  exists u, login_handler (e_now env) (e_limiter env) {| lq_req := q; lq_form := None |} = LMint u bPassword.
Proof.
  intros env q e H. unfold login_handler, login_handler_gen, login_credential. simpl in *.
  destruct (q_meth q); simpl in *; try contradiction;
    (destruct (e_check env); [|contradiction];
     destruct (k_basic (q_cred q)) as [b|]; [|contradiction];
     destruct (e_limiter env); simpl in *; [|contradiction];
     destruct (b_err b); simpl in *; [contradiction|];
     destruct (b_ok b); simpl in *; [|contradiction]; eexists; reflexivity).
Qed.

(* sharpness: a handler that keeps the factors of the session the request arrives with mints, for the user whose
   password was typed, a level with the U2F bit although nothing in the request proves that user at any level
   with that bit (the cookie is somebody else's) *)
Definition eve_session : token := session_token 1 (N.lor bPassword bU2F) 0 1000 0.
Definition eve_posts_bobs_password : loginq :=
  {| lq_req := {| q_meth := POST; q_origin := SameOrigin; q_tls := None; q_cred := cookie_only eve_session |};
     lq_form := Some {| b_user := 2; b_ok := true; b_err := false |} |}.

Theorem login_carry_refuted :
  exists now lim lq u l,
    login_handler_gen true now lim lq = LMint u l /\ hasb l bU2F = true /\ ~ login_spec lq u l /\
    (forall l', hasb l' bU2F = true -> ~ proves now [] (lq_req lq) u l') /\
    login_handler now lim lq = LMint u bPassword.
Proof.
  exists 100%Z, true, eve_posts_bobs_password, 2, (N.lor bPassword bU2F).
  split; [vm_compute; reflexivity|]. split; [vm_compute; reflexivity|]. split.
  - intros (Hl & _). vm_compute in Hl. discriminate.
  - split; [|vm_compute; reflexivity].
    intros l' Hl' [(t & Ht & _ & Hu & _)|[(b & Hb & _)|(c & Hc & _)]].
    + simpl in Ht. inversion Ht; subst t. vm_compute in Hu. discriminate.
    + simpl in Hb. discriminate.
    + simpl in Hc. discriminate.
Qed.
