(* C19 — proofs about Model/Client.v *)
From Coq Require Import String.
From KM Require Import Base.Bytes Base.Tactics Model.KeyStrength Model.Client.

(* ================================================================== the wire *)

(* whatever the three signers hold, the only key material setupCerts puts into a request is
   the result of signer.Public() *)
Lemma wire2_only_public otp sg a : In a (wire_atoms (setup_wire2 otp sg)) ->
  a = AText \/ a = ASecret \/ a = public (sg_x509 sg) \/ a = public (sg_ssh sg) \/ a = public (sg_ed sg).
Proof.
  unfold wire_atoms, setup_wire2, do_cert_request, create_key_body_request, authenticate_user, second_factor, encode.
  destruct otp; simpl; intros H; repeat (destruct H as [H|H]; [subst; auto 10|]); destruct H.
Qed.

Lemma wire_only_public sg a : In a (wire_atoms (setup_wire sg)) ->
  a = AText \/ a = ASecret \/ a = public (sg_x509 sg) \/ a = public (sg_ssh sg) \/ a = public (sg_ed sg).
Proof. apply wire2_only_public. Qed.

Lemma make_signers_public_not_private :
  is_priv (public (sg_x509 make_signers)) = false /\ is_priv (public (sg_ssh make_signers)) = false /\
  is_priv (public (sg_ed make_signers)) = false.
Proof. repeat split. Qed.

Lemma no_private_on_wire : forall otp a, In a (wire_atoms (setup_wire2 otp make_signers)) -> is_priv a = false.
Proof.
  intros otp a H. destruct (wire2_only_public _ _ _ H) as [->|[->|[->|[->| ->]]]]; reflexivity.
Qed.

(* the web-browser login: the same, and what is handed to the browser carries no key material at all *)
Lemma wire_web_only_public sg a : In a (wire_atoms (setup_wire_web sg)) ->
  a = AText \/ a = ASecret \/ a = public (sg_x509 sg) \/ a = public (sg_ssh sg) \/ a = public (sg_ed sg).
Proof.
  unfold wire_atoms, setup_wire_web, do_cert_request, create_key_body_request, verify_token, encode.
  simpl; intros H; repeat (destruct H as [H|H]; [subst; auto 10|]); destruct H.
Qed.

Lemma no_private_on_wire_web : forall a, In a (wire_atoms (setup_wire_web make_signers) ++ browser_url) -> is_priv a = false.
Proof.
  intros a H. apply in_app_or in H. destruct H as [H|H].
  - destruct (wire_web_only_public _ _ H) as [->|[->|[->|[->| ->]]]]; reflexivity.
  - unfold browser_url in H. simpl in H. destruct H as [<-|[<-|[<-|[]]]]; reflexivity.
Qed.

(* and each certificate request carries exactly the public half of the signer it was given *)
Lemma cert_request_carries_public s ct : r_body (do_cert_request s ct) = [public s; AText].
Proof. reflexivity. Qed.

(* ================================================================== local installation *)

Lemma install_private_ok sg p user agent_ok ed_ok k8s_ok :
  forallb sink_private_ok (install sg p user agent_ok ed_ok k8s_ok) = true.
Proof.
  unfold install, install_ssh. destruct agent_ok, ed_ok, k8s_ok; simpl;
    rewrite ?orb_true_r; reflexivity.
Qed.

(* ================================================================== the agent *)

Lemma filter_filter' {A} (f g : A -> bool) l : filter f (filter g l) = filter (fun x => g x && f x) l.
Proof.
  induction l as [|x r IH]; simpl; [reflexivity|].
  destruct (g x); simpl; [destruct (f x); simpl; rewrite IH; reflexivity|exact IH].
Qed.

Arguments is_dup : simpl never.

Definition hit (c : bs) (l : agent) (x : entry) : bool :=
  existsb (fun e => is_dup c e && bs_eqb (e_blob x) (e_blob e)) l.

Lemma delete_fold c l : forall acc,
  fold_left (delete_step c) l acc = filter (fun x => negb (hit c l x)) acc.
Proof.
  induction l as [|e r IH]; intro acc; simpl.
  - unfold hit. simpl. induction acc as [|y t IHt]; simpl; [reflexivity|]. rewrite <- IHt. reflexivity.
  - rewrite IH. unfold delete_step. destruct (is_dup c e) eqn:D.
    + unfold agent_remove. rewrite filter_filter'. apply filter_ext. intro x. unfold hit. simpl. rewrite ?D. simpl.
      rewrite negb_orb. reflexivity.
    + apply filter_ext. intro x. unfold hit. simpl. rewrite ?D. reflexivity.
Qed.

Lemma nodup_map_inj (a : agent) x y : NoDup (map e_blob a) -> In x a -> In y a -> e_blob x = e_blob y -> x = y.
Proof.
  induction a as [|z r IH]; simpl; intros N Hx Hy E; [destruct Hx|].
  inversion N as [|b l Nin N']; subst.
  destruct Hx as [->|Hx], Hy as [->|Hy]; auto.
  - exfalso. apply Nin. rewrite E. apply in_map. exact Hy.
  - exfalso. apply Nin. rewrite <- E. apply in_map. exact Hx.
Qed.

Lemma delete_duplicates_filter c a : NoDup (map e_blob a) ->
  delete_duplicates c a = filter (fun x => negb (is_dup c x)) a.
Proof.
  intro N. unfold delete_duplicates. rewrite delete_fold. apply filter_ext_in. intros x Hx. f_equal.
  unfold hit. destruct (is_dup c x) eqn:D.
  - apply existsb_exists. exists x. split; [exact Hx|]. rewrite D, bs_eqb_refl. reflexivity.
  - destruct (existsb _ a) eqn:E; [|reflexivity]. apply existsb_exists in E.
    destruct E as (e & He & H). apply andb_true_iff in H. destruct H as [De Be].
    apply bs_eqb_eq in Be. rewrite (nodup_map_inj a x e N Hx He Be) in D. congruence.
Qed.

Lemma agent_add_in n a e : In e (agent_add n a) -> e = n \/ In e a.
Proof.
  induction a as [|x r IH]; simpl; [intros [H|[]]; auto|].
  destruct (bs_eqb (e_blob x) (e_blob n)); simpl; intros [H|H]; auto. destruct (IH H); auto.
Qed.

Lemma agent_add_new n a : In n (agent_add n a).
Proof. induction a as [|x r IH]; simpl; [auto|]. destruct (bs_eqb _ _); simpl; auto. Qed.

Lemma agent_add_keeps n a e : In e a -> e_blob e <> e_blob n -> In e (agent_add n a).
Proof.
  induction a as [|x r IH]; simpl; [tauto|]. intros [->|H] Ne.
  - assert (E : bs_eqb (e_blob e) (e_blob n) = false) by (apply bs_eqb_neq; exact Ne). rewrite E. left. reflexivity.
  - destruct (bs_eqb (e_blob x) (e_blob n)); simpl; auto.
Qed.

Lemma agent_add_blobs n a :
  (In (e_blob n) (map e_blob a) -> map e_blob (agent_add n a) = map e_blob a) /\
  (~ In (e_blob n) (map e_blob a) -> map e_blob (agent_add n a) = map e_blob a ++ [e_blob n]).
Proof.
  induction a as [|x r [IH1 IH2]]; simpl; [split; [tauto|reflexivity]|].
  destruct (bs_eqb (e_blob x) (e_blob n)) eqn:E; simpl.
  - apply bs_eqb_eq in E. split; intro H; [rewrite E; reflexivity|exfalso; apply H; left; exact E].
  - apply bs_eqb_neq in E. split; intro H.
    + destruct H as [H|H]; [contradiction|]. rewrite (IH1 H). reflexivity.
    + rewrite IH2; [reflexivity|]. intro H'. apply H. right. exact H'.
Qed.

Lemma agent_add_nodup n a : NoDup (map e_blob a) -> NoDup (map e_blob (agent_add n a)).
Proof.
  intro N. destruct (agent_add_blobs n a) as [H1 H2].
  destruct (in_dec (list_eq_dec N.eq_dec) (e_blob n) (map e_blob a)) as [I|I].
  - rewrite (H1 I). exact N.
  - rewrite (H2 I). apply NoDup_rev in N. rewrite <- (rev_involutive (map e_blob a ++ [e_blob n])).
    apply NoDup_rev. rewrite rev_app_distr. simpl. constructor; [|exact N].
    intro H. apply I. apply in_rev. exact H.
Qed.

Lemma agent_add_single c n a : is_dup c n = true -> filter (is_dup c) a = [] ->
  filter (is_dup c) (agent_add n a) = [n].
Proof.
  intros Dn. induction a as [|x r IH]; simpl; intro F; [rewrite Dn; reflexivity|].
  destruct (is_dup c x) eqn:Dx; [discriminate|].
  destruct (bs_eqb (e_blob x) (e_blob n)); simpl.
  - rewrite Dn, F. reflexivity.
  - rewrite Dx. apply IH. exact F.
Qed.

Lemma filter_none {A} (f : A -> bool) l : filter f (filter (fun x => negb (f x)) l) = [].
Proof.
  induction l as [|x r IH]; simpl; [reflexivity|]. destruct (f x) eqn:E; simpl; [exact IH|].
  rewrite E. exact IH.
Qed.

Lemma filter_nodup_map (f : entry -> bool) a : NoDup (map e_blob a) -> NoDup (map e_blob (filter f a)).
Proof.
  induction a as [|x r IH]; simpl; intro N; [constructor|]. inversion N as [|b l Nin N']; subst.
  destruct (f x); simpl; [constructor|]; auto.
  intro H. apply Nin. apply in_map_iff in H. destruct H as (y & Ey & Hy). apply filter_In in Hy.
  rewrite <- Ey. apply in_map. tauto.
Qed.

(* installing certificate n under its label: afterwards exactly one certificate carries the label
   (the new one); plain keys, other labels and everything with another blob are still there;
   nothing else appeared; blobs stay unique *)
Lemma agent_replace n a : NoDup (map e_blob a) -> e_cert n = true ->
  let c := e_comment n in let a' := upsert n a in
  filter (is_dup c) a' = [n] /\
  (forall e, In e a -> is_dup c e = false -> e_blob e <> e_blob n -> In e a') /\
  (forall e, In e a' -> e = n \/ (In e a /\ is_dup c e = false)) /\
  NoDup (map e_blob a').
Proof.
  intros N C c a'. subst a'. unfold upsert. fold c. rewrite (delete_duplicates_filter c a N).
  assert (Dn : is_dup c n = true) by (unfold is_dup, c; rewrite C, bs_eqb_refl; reflexivity).
  split; [apply agent_add_single; [exact Dn|apply filter_none]|]. split; [|split].
  - intros e He De Ne. apply agent_add_keeps; [|exact Ne]. apply filter_In. rewrite De. auto.
  - intros e He. apply agent_add_in in He. destruct He as [->|He]; [left; reflexivity|].
    right. apply filter_In in He. destruct He as [He D]. apply negb_true_iff in D. auto.
  - apply agent_add_nodup, filter_nodup_map, N.
Qed.

(* ------------------------------------------------------------------ an agent that may refuse calls *)

(* the removal loop: either it ran over the whole snapshot without a refusal, or it stopped at a
   refused Remove having processed a prefix *)
Lemma delete_faulty_prefix c fr : forall snap k acc a1 ok,
  delete_faulty c fr k snap acc = (a1, ok) ->
  exists pre post, snap = pre ++ post /\ a1 = fold_left (delete_step c) pre acc /\ (ok = true -> post = []).
Proof.
  induction snap as [|e r IH]; simpl; intros k acc a1 ok H.
  - inversion H; subst. exists [], []. split; [reflexivity|split; [reflexivity|reflexivity]].
  - destruct (is_dup c e) eqn:D.
    + destruct (fr k).
      * inversion H; subst. exists [], (e :: r). split; [reflexivity|split; [reflexivity|discriminate]].
      * apply IH in H. destruct H as (pre & post & E & A & O). exists (e :: pre), post.
        split; [simpl; rewrite E; reflexivity|]. split; [|exact O]. simpl. unfold delete_step at 2. rewrite D. exact A.
    + apply IH in H. destruct H as (pre & post & E & A & O). exists (e :: pre), post.
      split; [simpl; rewrite E; reflexivity|]. split; [|exact O]. simpl. unfold delete_step at 2. rewrite D. exact A.
Qed.

(* a call that reports success did exactly what the fault-free upsert does *)
Lemma upsert_faulty_ok f n a a' : upsert_faulty f n a = (a', true) -> a' = upsert n a.
Proof.
  unfold upsert_faulty, upsert_faulty_on, upsert, delete_duplicates. destruct (f_list f); [discriminate|].
  destruct (delete_faulty (e_comment n) (f_remove f) 0 a a) as [a1 ok] eqn:E.
  destruct ok; [|discriminate]. destruct (f_add f); [discriminate|]. intro H. inversion H; subst.
  apply delete_faulty_prefix in E. destruct E as (pre & post & Es & A & O). rewrite (O eq_refl), app_nil_r in Es. subst pre.
  rewrite A. reflexivity.
Qed.

(* a call that reports an error added nothing and removed only certificates carrying the label *)
Lemma upsert_faulty_err f n a a' : NoDup (map e_blob a) -> upsert_faulty f n a = (a', false) ->
  (forall e, In e a' -> In e a) /\
  (forall e, In e a -> is_dup (e_comment n) e = false -> In e a').
Proof.
  intros N. unfold upsert_faulty, upsert_faulty_on. destruct (f_list f); [intro H; inversion H; subst; split; auto|].
  destruct (delete_faulty (e_comment n) (f_remove f) 0 a a) as [a1 ok] eqn:E.
  apply delete_faulty_prefix in E. destruct E as (pre & post & Es & A & _).
  assert (K : (forall e, In e a1 -> In e a) /\ (forall e, In e a -> is_dup (e_comment n) e = false -> In e a1)).
  { rewrite A, delete_fold. split.
    - intros e He. apply filter_In in He. tauto.
    - intros e He De. apply filter_In. split; [exact He|]. apply negb_true_iff.
      destruct (hit (e_comment n) pre e) eqn:Hh; [|reflexivity]. exfalso.
      unfold hit in Hh. apply existsb_exists in Hh. destruct Hh as (x & Hx & Hb). apply andb_true_iff in Hb. destruct Hb as [Dx Bx].
      apply bs_eqb_eq in Bx. assert (Hxa : In x a) by (rewrite Es; apply in_or_app; left; exact Hx).
      rewrite (nodup_map_inj a e x N He Hxa Bx) in De. congruence. }
  destruct ok; [destruct (f_add f); [|discriminate]|]; intro H; inversion H; subst; exact K.
Qed.

(* the property for an agent that may fail at any call *)
Theorem agent_replace_faulty f n a : NoDup (map e_blob a) -> e_cert n = true ->
  let c := e_comment n in let r := upsert_faulty f n a in
  (snd r = true -> filter (is_dup c) (fst r) = [n] /\ fst r = upsert n a) /\
  (snd r = false -> (forall e, In e (fst r) -> In e a) /\ (forall e, In e a -> is_dup c e = false -> In e (fst r))).
Proof.
  intros N C c r. subst r. destruct (upsert_faulty f n a) as [a' ok] eqn:E. simpl. split; intro H; subst ok.
  - apply upsert_faulty_ok in E. subst a'. split; [apply (agent_replace n a N C)|reflexivity].
  - apply (upsert_faulty_err f n a a' N E).
Qed.

(* ignoring the error of the clean-up: success is reported with two certificates under one label *)
Definition ex_old : entry := mkEntry [1] [10] true.
Definition ex_new : entry := mkEntry [1] [11] true.
Lemma best_effort_leaves_stale :
  let r := upsert_best_effort (mkFaults false (fun k => Nat.eqb k 0) false) ex_new [ex_old] in
  snd r = true /\ filter (is_dup [1]) (fst r) = [ex_old; ex_new].
Proof. vm_compute. split; reflexivity. Qed.

(* ------------------------------------------------------------------ key file modes *)
Lemma private_file_mode existing umask : others_bits (write_private existing umask) = 0%N.
Proof.
  unfold others_bits, write_private, write_file. destruct existing as [m|]; [reflexivity|].
  apply N.bits_inj_0. intro n. rewrite N.land_spec, N.ldiff_spec.
  assert (H : (N.testbit 384 n && N.testbit 63 n)%bool = false).
  { rewrite <- N.land_spec. change (N.land 384 63) with 0%N. apply N.bits_0. }
  destruct (N.testbit 384 n), (N.testbit 63 n), (N.testbit umask n); simpl in *; congruence.
Qed.

Lemma plain_write_keeps_mode : others_bits (write_file (Some 420%N) 18 384) <> 0%N.
Proof. vm_compute. discriminate. Qed.

(* ================================================================== offered and accepted *)

(* the statement about key types in terms of its parts *)
Lemma offered_all_accepted_spec alts rsa_bits : offered_all_accepted alts rsa_bits = true ->
  forall p t, In p all_prefs ->
    (In t (offered_ssh p) -> In (ssh_name t) alts /\ validate (desc rsa_bits t) = true) /\
    (In t (offered_x509 p) -> validate (desc rsa_bits t) = true).
Proof.
  unfold offered_all_accepted. intros H p t Hp. rewrite forallb_forall in H. specialize (H p Hp).
  apply andb_true_iff in H. destruct H as [Hs Hx]. rewrite forallb_forall in Hs, Hx. split; intro Ht.
  - specialize (Hs t Ht). unfold server_accepts_ssh in Hs. apply andb_true_iff in Hs. destruct Hs as [E V].
    split; [|exact V]. apply existsb_exists in E. destruct E as (s & Hs & E). apply String.eqb_eq in E.
    subst s. exact Hs.
  - exact (Hx t Ht).
Qed.

Lemma all_prefs_complete p : In p all_prefs.
Proof. destruct p; simpl; auto. Qed.

(* the pattern of the server before the fix lacked the P-384 name *)
Definition old_alternatives : list string :=
  ["ssh-rsa"; "ssh-dss"; "ecdsa-sha2-nistp256"; "ssh-ed25519"]%string.
Lemma old_p384_refused : server_accepts_ssh old_alternatives 3072 KP384 = false /\
  In KP384 (offered_ssh PrefP384).
Proof. split; [vm_compute; reflexivity|simpl; auto]. Qed.
