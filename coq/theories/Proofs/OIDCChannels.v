(* C04 / C12 — the two identity channels of a token request (Authorization header, body): the
   request authenticates as ONE client, and the code's subject and the released audience are that
   client, in every combination of what the two channels carry. *)
From Coq Require Import String ZArith NArith List Bool Lia.
From KM Require Import Base.Bytes Model.Tokens Model.OIDC Proofs.Tokens Proofs.OIDC.
Import ListNotations.
Open Scope Z_scope.

Lemma authenticated_client_creds r id : authenticated_client r = Some id -> fst (presented_creds r) = id.
Proof.
  unfold authenticated_client. destruct (caller r) as [[i p]|s] eqn:C; [|discriminate].
  intro H. inversion H; subst. apply caller_creds in C. rewrite C. reflexivity.
Qed.

(* which channel speaks *)
Lemma authenticated_client_header r hid hsec : tr_basic r = Some (hid, hsec) -> authenticated_client r = Some hid.
Proof. unfold authenticated_client, caller. intros ->. reflexivity. Qed.

Lemma authenticated_client_body r id : tr_basic r = None -> authenticated_client r = Some id ->
  id = tr_form_client r /\ id <> [].
Proof.
  unfold authenticated_client, caller. intros ->.
  destruct (negb (nonempty (tr_form_secret r)) && negb (nonempty (tr_verifier r))); [discriminate|].
  destruct (nonempty (tr_form_client r)) eqn:N; cbn [negb]; [|discriminate].
  intro H. inversion H. split; [reflexivity|]. apply nonempty_true. exact N.
Qed.

Lemma release_has_caller i now r idt act : token_endpoint i now r = Release idt act ->
  exists id, authenticated_client r = Some id.
Proof.
  unfold token_endpoint, token_endpoint_gen, authenticated_client. cbn [andb negb]. rewrite !andb_true_r.
  destruct (tr_post r); cbn [negb]; [|discriminate].
  destruct (bs_eqb (tr_grant r) gt_authcode); cbn [negb]; [|discriminate].
  destruct (nonempty (tr_redirect r)); cbn [negb]; [|discriminate].
  destruct (verify (srv i) (tr_code r)); cbn [negb]; [|discriminate].
  destruct (dec_code (t_claims (tr_code r))); [|discriminate].
  destruct (caller r) as [[id pass]|s]; [|discriminate]. eauto.
Qed.

Lemma p_id_aud st now cl k : rd_list "aud" (t_claims (p_id st now cl k)) = Some [cl].
Proof. reflexivity. Qed.

(* the one-client statement *)
Lemma token_one_client i now r idt act : token_endpoint i now r = Release idt act ->
  exists id c k,
    authenticated_client r = Some id /\ find_client id (clients i) = Some c /\ cl_id c = id /\
    dec_code (t_claims (tr_code r)) = Some k /\ client_authenticated c k r /\
    rd_str "sub" (t_claims (tr_code r)) = Some id /\
    rd_list "aud" (t_claims idt) = Some [id].
Proof.
  intro R. destruct (release_has_caller _ _ _ _ _ R) as [id A].
  pose proof (authenticated_client_creds _ _ A) as F.
  apply token_release_sound in R. destruct R as [k [c [_ [D [FC [AU [SUB [_ [_ [_ [-> _]]]]]]]]]]].
  rewrite F in *. exists id, c, k. pose proof (find_client_sound _ _ _ FC) as [_ CI].
  pose proof (dec_code_fields _ _ D) as [SB _].
  repeat split; auto. congruence.
Qed.

(* when a header is present the body's client_id / client_secret are not looked at ... *)
Lemma header_decides i now r fc fs : tr_basic r <> None ->
  token_endpoint i now (with_form r fc fs) = token_endpoint i now r.
Proof.
  intro H. unfold token_endpoint, token_endpoint_gen, caller. cbn [with_form tr_post tr_grant tr_redirect tr_code tr_verifier tr_vhash tr_basic].
  destruct (tr_basic r) as [[a p]|]; [reflexivity|congruence].
Qed.

(* ... and without one the header cannot matter, trivially: there is none. *)

(* so: a request whose code was issued to another client than the ONE it authenticates as is
   refused, whatever the other channel names and whichever secrets travel in it *)
Lemma code_of_other_client_refused i now r :
  (forall id, authenticated_client r = Some id -> rd_str "sub" (t_claims (tr_code r)) <> Some id) ->
  exists s, token_endpoint i now r = Refuse s.
Proof.
  intro H. destruct (token_endpoint i now r) as [idt act|s] eqn:R; [|eauto]. exfalso.
  apply token_one_client in R. destruct R as [id [c [k [A [_ [_ [_ [_ [S _]]]]]]]]]. exact (H id A S).
Qed.

Lemma header_names_other_client_refused i now r hid hsec a :
  tr_basic r = Some (hid, hsec) -> rd_str "sub" (t_claims (tr_code r)) = Some a -> a <> hid ->
  exists s, token_endpoint i now r = Refuse s.
Proof.
  intros B S NE. apply code_of_other_client_refused. intros id A.
  rewrite (authenticated_client_header _ _ _ B) in A. inversion A; subst. rewrite S. congruence.
Qed.

(* what the reading "compare the code's subject with the body's client_id when there is one" (a
   variant of the handler, Model.OIDC.token_endpoint_body_subject) releases: client C authenticates in
   the header with its own secret, names A in the body, and redeems A's code - for the audience C *)
Definition idp3 : idp :=
  {| srv := srv0; clients := [ {| cl_id := b "clientA"; cl_secret := b "secretA"; cl_allow_aud := false; cl_other := [] |};
                               {| cl_id := b "clientB"; cl_secret := []; cl_allow_aud := false; cl_other := [] |};
                               {| cl_id := b "clientC"; cl_secret := b "secretC"; cl_allow_aud := false; cl_other := [] |} ] |}.

Definition code_for_A : token :=
  p_code srv0 (1000 * NS) (b "clientA") (b "alice") (b "openid") (b "https://a.example/cb") (b "nonce123")
         (b "jti") [] [] [].

Definition two_channel_req : treq :=
  {| tr_conn := conn_none; tr_post := true; tr_grant := gt_authcode; tr_redirect := b "https://a.example/cb"; tr_code := code_for_A;
     tr_verifier := []; tr_vhash := []; tr_basic := Some (b "clientC", b "secretC");
     tr_form_client := b "clientA"; tr_form_secret := [] |}.

Lemma body_subject_reading_refuted :
  (exists idt act, token_endpoint_body_subject idp3 (1010 * NS) two_channel_req = Release idt act /\
     rd_list "aud" (t_claims idt) = Some [b "clientC"] /\
     rd_str "sub" (t_claims (tr_code two_channel_req)) = Some (b "clientA") /\
     authenticated_client two_channel_req = Some (b "clientC")) /\
  token_endpoint idp3 (1010 * NS) two_channel_req = Refuse 401 /\
  (* the same code redeemed by A itself, whatever the body says *)
  ch_is_release (token_endpoint idp3 (1010 * NS) (with_form (with_basic two_channel_req (Some (b "clientA", b "secretA"))) (b "clientC") (b "secretC"))) = true.
Proof.
  split; [|split; vm_compute; reflexivity].
  eexists. eexists. split; [vm_compute; reflexivity|]. vm_compute. repeat split; reflexivity.
Qed.
