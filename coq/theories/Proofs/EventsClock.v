(* C20 — proofs about Model/EventsClock.v: the retention test, the clock and entries from the future *)
From KM Require Import Base.Bytes Base.Tactics Model.Events Proofs.Events Model.EventsClock.
Import ListNotations.
Open Scope Z_scope.

(* ------------------------------------------------------------------ the parameterised walk is the model's *)

Lemma drop_while_old_ext f g l : (forall e, f e = g e) -> drop_while_old f l = drop_while_old g l.
Proof.
  intro H. induction l as [|e r IH]; simpl; [reflexivity|]. rewrite H, IH. reflexivity.
Qed.

Lemma drop_while_is_old m l : drop_while_old (is_old m) l = drop_old m l.
Proof. induction l as [|e r IH]; simpl; [reflexivity|]. rewrite IH. reflexivity. Qed.

Lemma expire_by_is_old m l : expire_by (is_old m) l = expire m l.
Proof. unfold expire_by, expire. rewrite drop_while_is_old. reflexivity. Qed.

Lemma expire_by_ext f g l : (forall e, f e = g e) -> expire_by f l = expire_by g l.
Proof. intro H. unfold expire_by. rewrite (drop_while_old_ext f g _ H). reflexivity. Qed.

Lemma load_by_fold (f : ev -> bool) l : forall acc : ulist,
  fold_left (fun (a : ulist) (e : ev) => if f e then a else e :: a) l acc = rev (filter (fun e => negb (f e)) l) ++ acc.
Proof.
  induction l as [|e r IH]; intro acc; simpl; [reflexivity|].
  rewrite IH. destruct (f e); simpl; [reflexivity|]. rewrite <- app_assoc. reflexivity.
Qed.

Lemma load_by_filter f saved : load_by f saved = filter (fun e => negb (f e)) saved.
Proof. unfold load_by. rewrite load_by_fold, app_nil_r, filter_rev, rev_involutive. reflexivity. Qed.

Lemma load_by_is_old m saved : load_by (is_old m) saved = load m saved.
Proof. reflexivity. Qed.

Lemma load_by_ext f g l : (forall e, f e = g e) -> load_by f l = load_by g l.
Proof.
  intro H. rewrite !load_by_filter. apply filter_ext. intro e. rewrite H. reflexivity.
Qed.

(* ------------------------------------------------------------------ the machine arithmetic *)

Lemma two64_val : two64 = 18446744073709551616.
Proof. reflexivity. Qed.

Lemma retention_val : retention = 2678400.
Proof. reflexivity. Qed.

(* a clock reading of 1970-02-01 or later (and within int64): the conversion to uint64 changes nothing *)
Lemma min_ctime_u64_eq now : retention <= now < 2 ^ 63 -> min_ctime_u64 now = min_ctime now.
Proof.
  intro H. unfold min_ctime_u64, min_ctime, u64. rewrite two64_val. rewrite retention_val in *.
  change (2 ^ 63) with 9223372036854775808 in H. apply Z.mod_small. lia.
Qed.

(* before that date the subtraction goes negative and the conversion wraps: the cut-off is huge *)
Lemma min_ctime_u64_wraps now : - 2 ^ 63 <= now < retention -> min_ctime_u64 now = two64 + now - retention.
Proof.
  intro H. unfold min_ctime_u64, u64. rewrite two64_val. rewrite retention_val in *.
  change (2 ^ 63) with 9223372036854775808 in H.
  replace (now - 2678400) with ((now - 2678400 + 18446744073709551616) + (-1) * 18446744073709551616) by lia.
  rewrite Z.mod_add by lia. rewrite Z.mod_small by lia. lia.
Qed.

Lemma is_old_u64_eq now : retention <= now < 2 ^ 63 -> forall e, is_old_u64 now e = is_old (min_ctime now) e.
Proof. intros H e. unfold is_old_u64, is_old. rewrite (min_ctime_u64_eq now H). reflexivity. Qed.

(* the code on 64-bit words IS the model for every realistic clock reading, whatever the entries' stamps *)
Lemma code_u64_is_model now l : retention <= now < 2 ^ 63 ->
  expire_by (is_old_u64 now) l = expire (min_ctime now) l /\
  load_by (is_old_u64 now) (save l) = load (min_ctime now) (save l).
Proof.
  intro H. split.
  - rewrite (expire_by_ext _ _ l (is_old_u64_eq now H)). apply expire_by_is_old.
  - rewrite (load_by_ext _ _ (save l) (is_old_u64_eq now H)). apply load_by_is_old.
Qed.

(* ------------------------------------------------------------------ nothing young is dropped *)

Lemma expire_keeps_young m l e : In e l -> m <= ctime e -> In e (expire m l).
Proof.
  intros Hin Hy. destruct (expire_split m l) as (d & E & F & _).
  rewrite E in Hin. apply in_app_or in Hin. destruct Hin as [Hin|Hin]; [exact Hin|].
  rewrite Forall_forall in F. specialize (F e Hin). unfold is_old in F. apply Z.ltb_lt in F. lia.
Qed.

Lemma load_keeps_young m l e : In e l -> m <= ctime e -> In e (load m (save l)).
Proof.
  intros Hin Hy. rewrite roundtrip. apply filter_In. split; [exact Hin|]. unfold fresh. apply Z.leb_le. exact Hy.
Qed.

Lemma retention_keeps_young now l e : In e l -> now - 31 * 24 * 3600 <= ctime e ->
  In e (expire (min_ctime now) l) /\ In e (load (min_ctime now) (save l)).
Proof. intros Hin Hy. split; [apply expire_keeps_young|apply load_keeps_young]; assumption. Qed.

(* the statement for entries from the future, with the retention as a parameter *)
Lemma keeps_future now ret l e : 0 <= ret -> In e l -> now < ctime e ->
  In e (expire (now - ret) l) /\ In e (load (now - ret) (save l)).
Proof.
  intros Hr Hin Hf. split; [apply expire_keeps_young|apply load_keeps_young]; auto; lia.
Qed.

(* expiry = the list minus a block at its old end, all of it older than the retention; the
   survivors keep their order (they are a prefix of the newest-first list) *)
Lemma expire_prefix_old now l : exists dropped,
  l = expire (min_ctime now) l ++ dropped /\ Forall (fun e => ctime e < now - retention) dropped.
Proof.
  destruct (expire_split (min_ctime now) l) as (d & E & F & _).
  exists d. split; [exact E|]. eapply Forall_impl; [|exact F].
  intros e H. unfold is_old, min_ctime in H. apply Z.ltb_lt in H. exact H.
Qed.

Lemma retention_nonneg : 0 <= retention.
Proof. rewrite retention_val. lia. Qed.

(* the same for the code on 64-bit words *)
Lemma code_u64_keeps_future now l e : retention <= now < 2 ^ 63 -> In e l -> now < ctime e ->
  In e (expire_by (is_old_u64 now) l) /\ In e (load_by (is_old_u64 now) (save l)).
Proof.
  intros H Hin Hf. destruct (code_u64_is_model now l H) as [A B]. rewrite A, B.
  apply (keeps_future now retention l e retention_nonneg Hin Hf).
Qed.

(* ------------------------------------------------------------------ the age-by-subtraction variant *)

(* for an entry stamped at or before the clock reading the two tests agree ... *)
Lemma age_same_in_past now e : 0 <= ctime e <= now -> now < two64 ->
  is_old_age now e = is_old (min_ctime now) e.
Proof.
  intros H1 H2. unfold is_old_age, is_old, min_ctime, u64. rewrite two64_val in *. rewrite retention_val.
  rewrite Z.mod_small by lia.
  destruct (2678400 <? now - ctime e) eqn:A; destruct (ctime e <? now - 2678400) eqn:B; try reflexivity.
  - apply Z.ltb_lt in A. apply Z.ltb_ge in B. lia.
  - apply Z.ltb_ge in A. apply Z.ltb_lt in B. lia.
Qed.

Definition ev_at (t : Z) : ev := mkEv t 0 0 [] false true false 0.

(* ... but an entry one second ahead of the clock has a wrapped, huge "age" and is dropped, by the
   expiry and by the reload, while the code's own test keeps it *)
Lemma age_drops_future : exists now l e,
  retention <= now < 2 ^ 63 /\ In e l /\ ctime e = now + 1 /\
  ~ In e (expire_by (is_old_age now) l) /\ ~ In e (load_by (is_old_age now) (save l)) /\
  In e (expire_by (is_old_u64 now) l) /\ In e (load_by (is_old_u64 now) (save l)).
Proof.
  exists 1700000000, [ev_at 1700000001], (ev_at 1700000001).
  split; [rewrite retention_val; change (2 ^ 63) with 9223372036854775808; lia|].
  split; [left; reflexivity|]. split; [reflexivity|].
  split; [vm_compute; intros []|]. split; [vm_compute; intros []|].
  split; vm_compute; left; reflexivity.
Qed.

(* truthful about the corner the code has: with a clock reading before 1970-02-01 the cut-off
   wraps and an entry stamped at that very instant counts as old *)
Lemma small_clock_drops_now : exists now e,
  0 <= now < retention /\ ctime e = now /\ is_old_u64 now e = true /\ is_old (min_ctime now) e = false.
Proof.
  exists 1000, (ev_at 1000). rewrite retention_val. split; [lia|]. split; [reflexivity|].
  split; vm_compute; reflexivity.
Qed.

(* ------------------------------------------------------------------ non-vacuity of the observation predicate *)

Example future_lost_ex :
  future_lost 100 [([97%N], [ev_at 160; ev_at 90])] [([97%N], [ev_at 90])] = true /\
  future_lost 100 [([97%N], [ev_at 160; ev_at 90])] [([97%N], [ev_at 160])] = false.
Proof. split; vm_compute; reflexivity. Qed.
