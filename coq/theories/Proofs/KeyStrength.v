From KM Require Import Base.Bytes Model.KeyStrength.

Theorem validate_strong k : validate k = true ->
  match k with
  | RSA bits e => 2048 <= bits /\ 65537 <= e
  | ECDSA c => 256 <= curve_bits c
  | Ed25519 => True
  | OtherKey => False
  end.
Proof.
  destruct k as [bits e|c| |]; cbn [validate]; intro H; try exact I; try discriminate.
  - apply andb_true_iff in H. destruct H as [A B].
    apply negb_true_iff in A, B. apply N.ltb_ge in A, B. split; assumption.
  - destruct c; cbn in *; try discriminate; lia.
Qed.

Theorem validate_complete k :
  match k with
  | RSA bits e => 2048 <= bits /\ 65537 <= e
  | ECDSA c => 256 <= curve_bits c
  | Ed25519 => True
  | OtherKey => False
  end -> validate k = true.
Proof.
  destruct k as [bits e|c| |]; cbn [validate]; intro H; try reflexivity; try contradiction.
  - destruct H as [A B]. apply andb_true_iff. split; apply negb_true_iff; apply N.ltb_ge; assumption.
  - destruct c; cbn in *; try reflexivity; lia.
Qed.

Theorem pipeline_signs_only_strong parsed k : pipeline parsed = Signed k -> validate k = true.
Proof.
  unfold pipeline. destruct parsed as [k'|]; [|discriminate].
  destruct (validate k') eqn:V; [|discriminate]. intros H. inversion H; subst. exact V.
Qed.

Theorem pipeline_weak_is_client_error parsed :
  (forall k, parsed = Some k -> validate k = false) -> pipeline parsed = ClientError.
Proof.
  unfold pipeline. destruct parsed as [k|]; [|reflexivity]. intros H. rewrite (H k eq_refl). reflexivity.
Qed.

Theorem validate_old_refuted : exists k, validate_old k = true /\ validate k = false.
Proof. exists (RSA 2041 65537). vm_compute. split; reflexivity. Qed.
