From KM Require Import Base.Bytes Model.KeyStrength.

Theorem validate_strong k : validate k = true ->
  match k with
  | RSA bits e => 2048 <= bits /\ 65537 <= e
  | ECDSA c => 256 <= curve_bits c
  | Ed25519 => True
  | OtherKey => False
  end.
Proof.
  destruct k as [bits e|c| |]; cbn [validate]; intro H; try exact I; try discriminate.
  - apply andb_true_iff in H. destruct H as [A B].
    apply negb_true_iff in A, B. apply N.ltb_ge in A, B. split; assumption.
  - destruct c; cbn in *; try discriminate; lia.
Qed.

Theorem validate_complete k :
  match k with
  | RSA bits e => 2048 <= bits /\ 65537 <= e
  | ECDSA c => 256 <= curve_bits c
  | Ed25519 => True
  | OtherKey => False
  end -> validate k = true.
Proof.
  destruct k as [bits e|c| |]; cbn [validate]; intro H; try reflexivity; try contradiction.
  - destruct H as [A B]. apply andb_true_iff. split; apply negb_true_iff; apply N.ltb_ge; assumption.
  - destruct c; cbn in *; try reflexivity; lia.
Qed.

Theorem pipeline_signs_only_strong parsed k : pipeline parsed = Signed k -> validate k = true.
Proof.
  unfold pipeline. destruct parsed as [k'|]; [|discriminate].
  destruct (validate k') eqn:V; [|discriminate]. intros H. inversion H; subst. exact V.
Qed.

Theorem pipeline_weak_is_client_error parsed :
  (forall k, parsed = Some k -> validate k = false) -> pipeline parsed = ClientError.
Proof.
  unfold pipeline. destruct parsed as [k|]; [|reflexivity]. intros H. rewrite (H k eq_refl). reflexivity.
Qed.

Theorem validate_old_refuted : exists k, validate_old k = true /\ validate k = false.
Proof. exists (RSA 2041 65537). vm_compute. split; reflexivity. Qed.

(* ---- the parse step explicit ---- *)
Theorem pipeline2_signs_validated p k :
  agree p -> pipeline2 p = Signed k -> validate k = true.
Proof.
  unfold agree, pipeline2. intros A. destruct (validated p) as [kv|]; [|discriminate].
  destruct (validate (snd kv)) eqn:V; [|discriminate].
  rewrite A. intros H. inversion H; subst. exact V.
Qed.

(* without the agreement nothing follows: the validator approves a strong key, the signer's parser
   finds a weak one in the same text *)
Theorem pipeline2_disagree_refuted :
  exists p k, pipeline2 p = Signed k /\ validate k = false.
Proof.
  exists {| validated := Some (1, RSA 2048 65537); signed := Some (2, RSA 1024 65537) |}, (RSA 1024 65537).
  vm_compute. split; reflexivity.
Qed.

Theorem pipeline_of_single_parse path v s k :
  parses_twice path = false -> pipeline_of path v s = Signed k -> validate k = true.
Proof.
  unfold pipeline_of. intros T. rewrite T. apply pipeline2_signs_validated. reflexivity.
Qed.

Theorem pipeline_of_strong path v s k :
  (parses_twice path = true -> s = v) -> pipeline_of path v s = Signed k -> validate k = true.
Proof.
  unfold pipeline_of. intros A. apply pipeline2_signs_validated. unfold agree. cbn [signed validated].
  destruct (parses_twice path); [apply A; reflexivity|reflexivity].
Qed.

Lemma agreeb_sound p : agreeb p = true ->
  forall s v, signed p = Some s -> validated p = Some v -> fst s = fst v.
Proof.
  unfold agreeb, pkey_eqb. intros H s v Hs Hv. rewrite Hs, Hv in H. apply N.eqb_eq in H. exact H.
Qed.

(* a weak or unparsable key is a client error on every path, whatever the second parser says *)
Theorem pipeline_of_weak_is_client_error path v s :
  (forall k, v = Some k -> validate (snd k) = false) -> pipeline_of path v s = ClientError.
Proof.
  unfold pipeline_of, pipeline2. cbn [validated]. destruct v as [k|]; [|reflexivity].
  intros H. rewrite (H k eq_refl). reflexivity.
Qed.

(* the one-parser pipeline of the earlier model is the instance "both outputs are the same" *)
Lemma pipeline2_single parsed :
  pipeline2 {| validated := option_map (fun k => (0, k)) parsed; signed := option_map (fun k => (0, k)) parsed |} = pipeline parsed.
Proof. unfold pipeline2, pipeline. destruct parsed as [k|]; cbn; [destruct (validate k)|]; reflexivity. Qed.

Import ListNotations.
Theorem pipeline_cfg_weak_is_client_error consults cfg path v s fp :
  (forall k, v = Some k -> validate (snd k) = false) -> pipeline_cfg consults cfg path v s fp = ClientError.
Proof.
  intros H. unfold pipeline_cfg. rewrite (pipeline_of_weak_is_client_error path v s H). reflexivity.
Qed.

Theorem pipeline_cfg_strong consults cfg path v s fp k :
  (parses_twice path = true -> s = v) -> pipeline_cfg consults cfg path v s fp = Signed k ->
  validate k = true /\ (consults = true -> deny_lookup cfg fp = NotDenied).
Proof.
  intros A. unfold pipeline_cfg. destruct (pipeline_of path v s) as [k'| |] eqn:P; try discriminate.
  destruct consults.
  - destruct (deny_lookup cfg fp) eqn:D; try discriminate. intros H. inversion H; subst.
    split; [exact (pipeline_of_strong path v s k A P)|reflexivity].
  - intros H. inversion H; subst. split; [exact (pipeline_of_strong path v s k A P)|discriminate].
Qed.

Lemma deny_lookup_empty cfg fp : deny_list cfg = [] -> deny_lookup cfg fp = NotDenied.
Proof. unfold deny_lookup. intros ->. reflexivity. Qed.

(* a denied key is on the list, literally *)
Lemma deny_lookup_denied cfg fp : deny_lookup cfg fp = Denied -> exists f, fp = Some f /\ In f (deny_list cfg).
Proof.
  unfold deny_lookup. destruct (deny_list cfg) as [|d l] eqn:L; [discriminate|].
  destruct fp as [f|]; [|discriminate]. destruct (existsb (N.eqb f) (d :: l)) eqn:E; [|discriminate].
  intros _. exists f. split; [reflexivity|]. apply existsb_exists in E. destruct E as [x [Hin Hx]].
  apply N.eqb_eq in Hx. subst x. exact Hin.
Qed.

Theorem pipeline_cfg_empty_list consults cfg path v s fp :
  deny_list cfg = [] -> pipeline_cfg consults cfg path v s fp = pipeline_of path v s.
Proof.
  intros E. unfold pipeline_cfg. rewrite (deny_lookup_empty cfg fp E).
  destruct (pipeline_of path v s); destruct consults; reflexivity.
Qed.

(* with the default (empty) list the other order cannot be told apart from the right one: a check that
   drives one configuration does not see it *)
Theorem pipeline_deny_first_empty_list cfg path v s fp :
  deny_list cfg = [] -> pipeline_deny_first cfg path v s fp = pipeline_of path v s.
Proof.
  intros E. unfold pipeline_deny_first. rewrite (deny_lookup_empty cfg fp E).
  destruct v; reflexivity.
Qed.

(* look-up before the strength check: a weak key without an SSH form is answered with a server error
   as soon as the list is not empty *)
Theorem pipeline_deny_first_refuted :
  exists cfg path v s fp, (forall k, v = Some k -> validate (snd k) = false) /\
                          pipeline_deny_first cfg path v s fp = ServerError.
Proof.
  exists {| deny_list := [7] |}, KX509, (Some (1, ECDSA P224)), (Some (1, ECDSA P224)), None.
  split; [|reflexivity]. intros k H. inversion H; subst. reflexivity.
Qed.
