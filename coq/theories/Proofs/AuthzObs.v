(* C08 — the property's own predicate as a boolean on OBSERVATIONS of a management request: given what
   the implementation was seen to do on a cell (response class, rows of the profile table afterwards)
   decide whether the conclusions of c08_history / c08_self_or_admin / c08_ok_authorized / c08_rolecert
   hold of it.  [cell_violating_false_iff]: the boolean is false exactly when they do. *)
From KM Require Import Base.Bytes Base.Tactics Model.Auth Model.Authz Proofs.Authz.
Import ListNotations.
Open Scope N_scope.

Definition may_actb (adm : bool) (actor : name) (level : N) (victim : name) (o : op) : bool :=
  bs_eqb victim actor || (adm && (admin_plain_op o || hasb level bU2F)).

Lemma may_actb_iff adm actor level victim o :
  may_actb adm actor level victim o = true <-> may_act adm actor level victim o.
Proof.
  unfold may_actb, may_act. rewrite orb_true_iff, andb_true_iff, orb_true_iff, bs_eqb_eq. tauto.
Qed.

Definition is_automation_identityb (c : cfg) (id : name) (dir : answer) : bool :=
  memn id (automation_users c) ||
  match dir with
  | Some gs => existsb (fun g => mem g (automation_user_groups c)) gs
  | None => false
  end.

Lemma memn_In x l : memn x l = true <-> In x l.
Proof.
  unfold memn. rewrite existsb_exists. split.
  - intros (y & Hy & E). apply bs_eqb_eq in E. subst. exact Hy.
  - intros H. exists x. split; [exact H|apply bs_eqb_refl].
Qed.

Lemma is_automation_identityb_iff c id dir :
  is_automation_identityb c id dir = true <-> is_automation_identity c id dir.
Proof.
  unfold is_automation_identityb, is_automation_identity. rewrite orb_true_iff, memn_In. split.
  - intros [H|H]; [now left|]. right. destruct dir as [gs|]; [|discriminate].
    apply existsb_exists in H. destruct H as (g & Hg & Hm). apply mem_In in Hm. exists gs, g. auto.
  - intros [H|(gs & g & E & Hg & Hm)]; [now left|]. right. subst dir.
    apply existsb_exists. exists g. split; [exact Hg|now apply mem_In].
Qed.

(* the users (of a finite list) whose row differs between two stores *)
Definition changed (us : list name) (before after : store) : list name :=
  filter (fun v => negb (oprofile_eqb (find before v) (find after v))) us.

Definition is_ok (x : resp) : bool := match x with ROk => true | _ => false end.

(* what a success needs *)
Definition ok_allowed (c : cfg) (r : request) (actor : name) (level : N) : bool :=
  match r_op r with
  | RoleCert => (r_adm r || memn actor (automation_admins c)) && is_automation_identityb c (r_target r) (r_dir_target r)
  | o => may_actb (r_adm r) actor level (effective_target actor (r_target r) o) o
  end.

Definition cell_violating (c : cfg) (us : list name) (s : store) (r : request) (obs : resp) (s' : store) : bool :=
  match authenticate (required_for c (r_op r)) (resolve c (r_cred r)) with
  | None => is_ok obs || negb (match changed us s s' with [] => true | _ => false end)
  | Some (actor, level) =>
      (is_ok obs && negb (ok_allowed c r actor level)) ||
      existsb (fun v => negb (may_actb (r_adm r) actor level v (r_op r))) (changed us s s')
  end.

Definition ok_allowed_P (c : cfg) (r : request) (actor : name) (level : N) : Prop :=
  (r_op r = RoleCert /\ (r_adm r = true \/ In actor (automation_admins c)) /\
   is_automation_identity c (r_target r) (r_dir_target r)) \/
  (r_op r <> RoleCert /\ may_act (r_adm r) actor level (effective_target actor (r_target r) (r_op r)) (r_op r)).

Lemma ok_allowed_iff c r actor level : ok_allowed c r actor level = true <-> ok_allowed_P c r actor level.
Proof.
  unfold ok_allowed, ok_allowed_P.
  destruct (r_op r) eqn:O;
    try (rewrite may_actb_iff; split; [intros H; right; split; [discriminate|exact H] | intros [[E _]|[_ H]]; [discriminate|exact H]]).
  rewrite andb_true_iff, orb_true_iff, memn_In, is_automation_identityb_iff. split.
  - intros H. left. tauto.
  - intros [(_ & H)|(E & _)]; [tauto|congruence].
Qed.

(* the flag is off exactly when the observation satisfies the statements: every changed row belongs to the
   authenticated caller or to somebody an administrator may act on (c08_history for one request), and a
   success was given to an authenticated caller who may act on the effective target (c08_ok_authorized +
   c08_self_or_admin), resp. to an (automation) administrator for an automation identity (c08_rolecert) *)
Theorem cell_violating_false_iff c us s r obs s' :
  cell_violating c us s r obs s' = false <->
  ((forall v, In v us -> oprofile_eqb (find s v) (find s' v) = false ->
      exists actor level, authenticate (required_for c (r_op r)) (resolve c (r_cred r)) = Some (actor, level) /\
                          may_act (r_adm r) actor level v (r_op r)) /\
   (obs = ROk ->
      exists actor level, authenticate (required_for c (r_op r)) (resolve c (r_cred r)) = Some (actor, level) /\
                          ok_allowed_P c r actor level)).
Proof.
  unfold cell_violating.
  assert (Hch : forall v, In v (changed us s s') <-> In v us /\ oprofile_eqb (find s v) (find s' v) = false).
  { intros v. unfold changed. rewrite filter_In, negb_true_iff. tauto. }
  destruct (authenticate (required_for c (r_op r)) (resolve c (r_cred r))) as [[actor level]|].
  - rewrite orb_false_iff, andb_false_iff, negb_false_iff. split.
    + intros [Hok Hex]. split.
      * intros v Hv Hd. exists actor, level. split; [reflexivity|].
        apply may_actb_iff. destruct (may_actb (r_adm r) actor level v (r_op r)) eqn:M; [reflexivity|]. exfalso.
        assert (X : existsb (fun v => negb (may_actb (r_adm r) actor level v (r_op r))) (changed us s s') = true).
        { apply existsb_exists. exists v. split; [apply Hch; auto|]. now rewrite M. }
        congruence.
      * intros E. subst obs. exists actor, level. split; [reflexivity|]. apply ok_allowed_iff.
        destruct Hok as [Hok|Hok]; [discriminate|exact Hok].
    + intros [Hrows Hok]. split.
      * destruct obs; auto. right. destruct (Hok eq_refl) as (a & l & E & H). inversion E; subst. now apply ok_allowed_iff.
      * destruct (existsb (fun v => negb (may_actb (r_adm r) actor level v (r_op r))) (changed us s s')) eqn:X; [|reflexivity].
        exfalso. apply existsb_exists in X. destruct X as (v & Hin & Hn). apply Hch in Hin. destruct Hin as [Hv Hd].
        destruct (Hrows v Hv Hd) as (a & l & E & M). inversion E; subst. apply may_actb_iff in M. rewrite M in Hn. discriminate.
  - rewrite orb_false_iff, negb_false_iff. split.
    + intros [Hok Hnil]. split.
      * intros v Hv Hd. exfalso.
        assert (X : In v (changed us s s')) by (apply Hch; auto).
        destruct (changed us s s') as [|x xs]; [exact X|discriminate].
      * intros E. subst obs. discriminate.
    + intros [Hrows Hok]. split.
      * destruct obs; auto. destruct (Hok eq_refl) as (a & l & E & _). discriminate.
      * destruct (changed us s s') as [|x xs] eqn:C; [reflexivity|]. exfalso.
        assert (X : In x (x :: xs)) by now left. apply Hch in X. destruct X as [Hv Hd].
        destruct (Hrows x Hv Hd) as (a & l & E & _). discriminate.
Qed.
