(* C15 — proofs about Model/Storage.v *)
From Coq Require Import List NArith ZArith Bool Lia.
From KM Require Import Model.Storage.
Import ListNotations.
Open Scope Z_scope.

(* ------------------------------------------------------------------ association maps *)
Definition keys {K V} (m : list (K * V)) : list K := map fst m.

Section AssocFacts.
  Context {K V : Type} (keqb : K -> K -> bool).
  Hypothesis keqb_spec : forall a b, keqb a b = true <-> a = b.

  Lemma keqb_refl a : keqb a a = true.
  Proof. apply keqb_spec. reflexivity. Qed.

  Lemma keqb_neq a b : a <> b -> keqb a b = false.
  Proof. intro H. destruct (keqb a b) eqn:E; [apply keqb_spec in E; contradiction|reflexivity]. Qed.

  Lemma aget_adel_same k (m : list (K * V)) : aget keqb k (adel keqb k m) = None.
  Proof.
    induction m as [|[k' v] r IH]; simpl; [reflexivity|].
    destruct (keqb k k') eqn:E; [exact IH|]. simpl. rewrite E. exact IH.
  Qed.

  Lemma aget_adel_other k k' (m : list (K * V)) : k <> k' -> aget keqb k' (adel keqb k m) = aget keqb k' m.
  Proof.
    intro Hne. induction m as [|[k0 v] r IH]; simpl; [reflexivity|].
    destruct (keqb k k0) eqn:E.
    - apply keqb_spec in E. subst k0. rewrite (keqb_neq k' k) by congruence. exact IH.
    - simpl. destruct (keqb k' k0); [reflexivity|exact IH].
  Qed.

  Lemma aget_aset_same k v (m : list (K * V)) : aget keqb k (aset keqb k v m) = Some v.
  Proof. unfold aset. simpl. rewrite keqb_refl. reflexivity. Qed.

  Lemma aget_aset_other k k' v (m : list (K * V)) : k <> k' -> aget keqb k' (aset keqb k v m) = aget keqb k' m.
  Proof.
    intro Hne. unfold aset. simpl. rewrite (keqb_neq k' k) by congruence.
    apply aget_adel_other. exact Hne.
  Qed.

  Lemma keys_adel_incl k k' (m : list (K * V)) : In k' (keys (adel keqb k m)) -> In k' (keys m) /\ k' <> k.
  Proof.
    induction m as [|[k0 v] r IH]; simpl; [tauto|].
    destruct (keqb k k0) eqn:E.
    - intro H. destruct (IH H) as [A B]. split; [right; exact A|exact B].
    - simpl. intros [H|H].
      + subst k0. split; [left; reflexivity|]. intro C. subst k'. rewrite keqb_refl in E. discriminate.
      + destruct (IH H) as [A B]. split; [right; exact A|exact B].
  Qed.

  Lemma nodup_adel k (m : list (K * V)) : NoDup (keys m) -> NoDup (keys (adel keqb k m)).
  Proof.
    induction m as [|[k0 v] r IH]; simpl; intro H; [constructor|].
    inversion H as [|x l Hnin Hnd]; subst.
    destruct (keqb k k0); [apply IH; exact Hnd|].
    simpl. constructor; [|apply IH; exact Hnd].
    intro C. apply keys_adel_incl in C. destruct C as [C _]. contradiction.
  Qed.

  Lemma nodup_aset k v (m : list (K * V)) : NoDup (keys m) -> NoDup (keys (aset keqb k v m)).
  Proof.
    intro H. unfold aset. simpl. constructor; [|apply nodup_adel; exact H].
    intro C. apply keys_adel_incl in C. destruct C as [_ C]. congruence.
  Qed.

  Lemma aget_notin k (m : list (K * V)) : ~ In k (keys m) -> aget keqb k m = None.
  Proof.
    induction m as [|[k0 v] r IH]; simpl; intro H; [reflexivity|].
    rewrite keqb_neq by (intro C; apply H; left; congruence).
    apply IH. intro C. apply H. right. exact C.
  Qed.

  Lemma aget_in k v (m : list (K * V)) : aget keqb k m = Some v -> In k (keys m).
  Proof.
    induction m as [|[k0 v0] r IH]; simpl; [discriminate|].
    destruct (keqb k k0) eqn:E; [apply keqb_spec in E; left; congruence|].
    intro H. right. apply IH. exact H.
  Qed.

  (* insert-or-replace of every element of l, in order *)
  Definition ins_all (l acc : list (K * V)) : list (K * V) :=
    fold_left (fun m e => aset keqb (fst e) (snd e) m) l acc.

  Lemma aget_ins_all k (l : list (K * V)) : NoDup (keys l) -> forall acc,
    aget keqb k (ins_all l acc) = match aget keqb k l with Some v => Some v | None => aget keqb k acc end.
  Proof.
    induction l as [|[k0 v0] r IH]; intros Hnd acc; simpl; [reflexivity|].
    inversion Hnd as [|x l Hnin Hnd']; subst.
    unfold ins_all in *. simpl. rewrite (IH Hnd').
    destruct (keqb k k0) eqn:E.
    - apply keqb_spec in E. subst k0. rewrite (aget_notin k r Hnin). apply aget_aset_same.
    - destruct (aget keqb k r); [reflexivity|].
      apply aget_aset_other. intro C. subst k0. rewrite keqb_refl in E. discriminate.
  Qed.

  Lemma nodup_ins_all (l : list (K * V)) : forall acc, NoDup (keys acc) -> NoDup (keys (ins_all l acc)).
  Proof.
    induction l as [|[k0 v0] r IH]; intros acc H; [exact H|].
    unfold ins_all in *. simpl. apply IH. apply nodup_aset. exact H.
  Qed.

  Lemma keys_filter_incl (f : K * V -> bool) k (m : list (K * V)) : In k (keys (filter f m)) -> In k (keys m).
  Proof.
    induction m as [|e r IH]; simpl; [tauto|].
    destruct (f e); simpl; intros H; [destruct H as [H|H]; [left; exact H|right; apply IH; exact H]|right; apply IH; exact H].
  Qed.

  Lemma nodup_filter (f : K * V -> bool) (m : list (K * V)) : NoDup (keys m) -> NoDup (keys (filter f m)).
  Proof.
    induction m as [|e r IH]; simpl; intro H; [constructor|].
    inversion H as [|x l Hnin Hnd]; subst.
    destruct (f e); [|apply IH; exact Hnd].
    simpl. constructor; [|apply IH; exact Hnd].
    intro C. apply keys_filter_incl in C. contradiction.
  Qed.

  Lemma aget_filter (f : V -> bool) k (m : list (K * V)) : NoDup (keys m) ->
    aget keqb k (filter (fun e => f (snd e)) m) =
    match aget keqb k m with Some v => if f v then Some v else None | None => None end.
  Proof.
    induction m as [|[k0 v0] r IH]; simpl; intro H; [reflexivity|].
    inversion H as [|x l Hnin Hnd]; subst.
    destruct (keqb k k0) eqn:E.
    - apply keqb_spec in E. subst k0. destruct (f v0) eqn:F.
      + simpl. rewrite keqb_refl. reflexivity.
      + apply aget_notin. intro C. apply keys_filter_incl in C. contradiction.
    - destruct (f v0); [simpl; rewrite E|]; apply IH; exact Hnd.
  Qed.
End AssocFacts.

Lemma ukey_eqb_spec a b : ukey_eqb a b = true <-> a = b.
Proof. apply N.eqb_eq. Qed.

Lemma skey_eqb_spec a b : skey_eqb a b = true <-> a = b.
Proof.
  destruct a as [a1 a2], b as [b1 b2]. unfold skey_eqb. simpl.
  rewrite andb_true_iff, !N.eqb_eq. split; [intros [-> ->]; reflexivity|intro H; inversion H; auto].
Qed.

Arguments aset {K V} keqb k v m : simpl never.

(* ------------------------------------------------------------------ the copy *)
Definition tx_only (s : stmt) : Prop :=
  st_unchecked s = false /\ st_act s <> ACommit /\ st_place s <> OnPool.

Definition tx_eff (p : db) (s : stmt) : db :=
  match st_place s with InTx => act_on (st_act s) p | _ => p end.

Lemma apply_tx_only s c p : tx_only s -> apply_stmt s c p = (c, tx_eff p s).
Proof.
  intros [_ [Ha Hp]]. unfold apply_stmt, tx_eff.
  destruct (st_act s); try congruence; destruct (st_place s); try congruence; reflexivity.
Qed.

Lemma exec_tx_only_none sc : Forall tx_only sc -> forall c p,
  exec (sc ++ [s_commit]) None false c p = (fold_left tx_eff sc p, true).
Proof.
  induction sc as [|s r IH]; intros H c p; [reflexivity|].
  inversion H as [|x l Hs Hr]; subst. simpl.
  rewrite (apply_tx_only s c p Hs). apply IH. exact Hr.
Qed.

(* whatever fails — any statement, any kind of error, once or from there on *)
Lemma exec_tx_only_any sc : Forall tx_only sc -> forall f c p,
  exec (sc ++ [s_commit]) f false c p = (c, false) \/
  exec (sc ++ [s_commit]) f false c p = (fold_left tx_eff sc p, true).
Proof.
  induction sc as [|s r IH]; intros H f c p.
  - destruct f as [[[|n] k o]|]; simpl; auto.
    unfold absorbed. simpl. rewrite andb_false_r. auto.
  - inversion H as [|x l Hs Hr]; subst.
    destruct f as [[[|n] k o]|]; simpl.
    + destruct (absorbed (F 0 k o) s).
      * rewrite (apply_tx_only s c p Hs). right. apply exec_tx_only_none. exact Hr.
      * destruct Hs as [Hu _]. rewrite Hu. left. reflexivity.
    + rewrite (apply_tx_only s c p Hs). apply IH. exact Hr.
    + rewrite (apply_tx_only s c p Hs). apply IH. exact Hr.
Qed.

Definition ins_profile_stmts (l : list (ukey * N)) : list stmt :=
  flat_map (fun e => [s_next; s_ins_profile e]) l.
Definition ins_signed_stmts (l : list (skey * srow)) : list stmt :=
  flat_map (fun e => [s_next; s_ins_signed e]) l.

Lemma fold_ins_profiles l : forall p,
  fold_left tx_eff (ins_profile_stmts l) p = set_profiles p (ins_all ukey_eqb l (profiles p)).
Proof.
  induction l as [|e r IH]; intro p; simpl; [destruct p; reflexivity|].
  unfold ins_profile_stmts in IH. rewrite IH. reflexivity.
Qed.

Lemma fold_ins_signed l : forall p,
  fold_left tx_eff (ins_signed_stmts l) p = set_signed p (ins_all skey_eqb l (signed p)).
Proof.
  induction l as [|e r IH]; intro p; simpl; [destruct p; reflexivity|].
  unfold ins_signed_stmts in IH. rewrite IH. reflexivity.
Qed.

Lemma forall_tx_only_profiles l : Forall tx_only (ins_profile_stmts l).
Proof.
  induction l as [|e r IH]; simpl; [constructor|].
  constructor; [repeat split; simpl; congruence|].
  constructor; [repeat split; simpl; congruence|exact IH].
Qed.

Lemma forall_tx_only_signed l : Forall tx_only (ins_signed_stmts l).
Proof.
  induction l as [|e r IH]; simpl; [constructor|].
  constructor; [repeat split; simpl; congruence|].
  constructor; [repeat split; simpl; congruence|exact IH].
Qed.

Definition sync_body (src : db) (now : Z) : list stmt :=
  [q_src; q_src; s_begin; s_del_profiles; s_del_signed; s_prepare]
  ++ (ins_profile_stmts (profiles src) ++ [s_next]) ++ [s_prepare]
  ++ (ins_signed_stmts (live_signed src now) ++ [s_next]).

Lemma sync_script_body src now : sync_script src now = sync_body src now ++ [s_commit].
Proof.
  unfold sync_script, sync_body, copy_profiles, copy_signed, ins_profile_stmts, ins_signed_stmts.
  rewrite <- !app_assoc. reflexivity.
Qed.

Lemma tx_only_simple p a r : p <> OnPool -> a <> ACommit -> tx_only (mk_stmt p a false r).
Proof. intros H1 H2. repeat split; assumption. Qed.

Lemma sync_body_tx_only src now : Forall tx_only (sync_body src now).
Proof.
  unfold sync_body.
  repeat (apply Forall_app; split); repeat constructor; simpl; try congruence;
    try apply forall_tx_only_profiles; try apply forall_tx_only_signed.
Qed.

(* the content of the cache after a copy that ran to the end *)
Definition mirror_of (src : db) (now : Z) : db :=
  mk_db (ins_all ukey_eqb (profiles src) []) (ins_all skey_eqb (live_signed src now) []).

Lemma sync_body_effect src now p : fold_left tx_eff (sync_body src now) p = mirror_of src now.
Proof.
  unfold sync_body. rewrite !fold_left_app. simpl.
  rewrite fold_ins_profiles. simpl. rewrite fold_ins_signed. reflexivity.
Qed.

Lemma sync_none src now c : sync src now None c = (mirror_of src now, true).
Proof.
  unfold sync. rewrite sync_script_body.
  rewrite (exec_tx_only_none _ (sync_body_tx_only src now)). rewrite sync_body_effect. reflexivity.
Qed.

Lemma sync_any src now f c :
  sync src now f c = (c, false) \/ sync src now f c = (mirror_of src now, true).
Proof.
  unfold sync. rewrite sync_script_body.
  destruct (exec_tx_only_any _ (sync_body_tx_only src now) f c c) as [H|H]; rewrite H; [left|right]; [reflexivity|].
  rewrite sync_body_effect. reflexivity.
Qed.

(* what "mirror" means, stated on lookups *)
Definition mirrors (c src : db) (now : Z) : Prop :=
  (forall u, aget ukey_eqb u (profiles c) = aget ukey_eqb u (profiles src)) /\
  (forall k, aget skey_eqb k (signed c) =
             match aget skey_eqb k (signed src) with
             | Some r => if unexpired now r then Some r else None
             | None => None
             end).

Definition wf_db (d : db) : Prop := NoDup (keys (profiles d)) /\ NoDup (keys (signed d)).

Lemma mirror_of_mirrors src now : wf_db src -> mirrors (mirror_of src now) src now.
Proof.
  intros [Hp Hs]. split; intro k; simpl.
  - rewrite (aget_ins_all ukey_eqb ukey_eqb_spec k _ Hp). simpl. destruct (aget ukey_eqb k (profiles src)); reflexivity.
  - unfold live_signed.
    rewrite (aget_ins_all skey_eqb skey_eqb_spec k _ (nodup_filter _ _ Hs)). simpl.
    rewrite (aget_filter skey_eqb skey_eqb_spec (unexpired now) k _ Hs).
    destruct (aget skey_eqb k (signed src)) as [r|]; [destruct (unexpired now r)|]; reflexivity.
Qed.

Lemma mirror_of_wf src now : wf_db (mirror_of src now).
Proof.
  split; simpl; [apply (nodup_ins_all ukey_eqb ukey_eqb_spec)|apply (nodup_ins_all skey_eqb skey_eqb_spec)]; constructor.
Qed.

(* ------------------------------------------------------------------ reachable states *)
Definition wf (s : state) : Prop := wf_db (primary s) /\ wf_db (cache s).

Lemma cleanup_wf n d : wf_db d -> wf_db (cleanup n d).
Proof. intros [A B]. split; simpl; [exact A|apply nodup_filter; exact B]. Qed.

Lemma wf_with_primary s d : wf_db d -> wf s -> wf (with_primary s d).
Proof. intros Hd [_ Hc]. split; assumption. Qed.

Lemma wf_with_cache s d : wf_db d -> wf s -> wf (with_cache s d).
Proof. intros Hd [Hp _]. split; assumption. Qed.

Lemma wf_save s u b : wf s -> wf (save s u b).
Proof.
  intro H. unfold save. apply wf_with_primary; [|exact H]. destruct H as [[Pp Ps] _].
  split; [apply (nodup_aset ukey_eqb ukey_eqb_spec); exact Pp|exact Ps].
Qed.

Lemma wf_deluser s u : wf s -> wf (with_primary s (set_profiles (primary s) (adel ukey_eqb u (profiles (primary s))))).
Proof.
  intro H. apply wf_with_primary; [|exact H]. destruct H as [[Pp Ps] _].
  split; [apply (nodup_adel ukey_eqb ukey_eqb_spec); exact Pp|exact Ps].
Qed.

Lemma read_source_none m : read_source reports_none m <> ReadFails.
Proof. destruct m as [|[] w]; discriminate. Qed.

Lemma handler_wf s h u b : wf s -> wf (fst (handler true reports_none s h u b)).
Proof.
  intro H. unfold handler.
  destruct h; [destruct (read_source reports_none (pmode s)); [| |exact H]..|].
  - destruct (load s u) as [[fd fc] cur]. destruct fc; [exact H|].
    destruct (writable s); [apply wf_save|]; exact H.
  - destruct (load s u) as [[fd fc] cur]. destruct fc; [exact H|].
    destruct (writable s); [apply wf_save|]; exact H.
  - destruct (load s u) as [[fd fc] cur]. destruct fd; [|exact H]. destruct fc; [exact H|].
    destruct (writable s); [apply wf_save|]; exact H.
  - destruct (load s u) as [[fd fc] cur]. destruct fd; [|exact H]. destruct fc; [exact H|].
    destruct (writable s); [apply wf_save|]; exact H.
  - exact H.
  - exact H.
  - destruct (writable s); [apply wf_deluser|]; exact H.
Qed.

Lemma step_wf s o : wf s -> wf (fst (step s o)).
Proof.
  intros Hwf. destruct o; unfold step, step_gen; try (apply handler_wf; exact Hwf).
  - (* Save *) destruct (writable s); [apply wf_save|]; exact Hwf.
  - (* DelUser *) destruct (writable s); [apply wf_deluser|]; exact Hwf.
  - (* Upsert *) destruct (writable s); [|exact Hwf].
    destruct Hwf as [[Pp Ps] [Cp Cs]]. repeat split; cbn [fst signed_both primary cache set_signed profiles signed]; try assumption;
      apply (nodup_aset skey_eqb skey_eqb_spec); assumption.
  - (* DelSigned *) destruct (writable s); [|exact Hwf].
    destruct Hwf as [[Pp Ps] [Cp Cs]]. repeat split; cbn [fst signed_both primary cache set_signed profiles signed]; try assumption;
      apply (nodup_adel skey_eqb skey_eqb_spec); assumption.
  - (* Tick *) exact Hwf.
  - (* Sync *) destruct (writable s); [|exact Hwf].
    destruct (sync_any (primary s) (now s) f (cache s)) as [H|H]; rewrite H; cbn [fst].
    + apply wf_with_cache; [apply Hwf|exact Hwf].
    + apply wf_with_cache; [apply mirror_of_wf|exact Hwf].
  - (* Cleanup *) cbn [fst]. destruct (writable s).
    + apply wf_with_cache; [apply cleanup_wf; apply Hwf|]. apply wf_with_primary; [apply cleanup_wf; apply Hwf|exact Hwf].
    + apply wf_with_cache; [apply cleanup_wf; apply Hwf|exact Hwf].
  - (* SetMode *) exact Hwf.
  - (* Restart *) cbn [fst]. apply wf_with_cache; [apply Hwf|exact Hwf].
  - (* Copier *)
    assert (forall s0 x, wf s0 -> wf (fst (let s1 := if writable s0 then with_primary s0 (cleanup (now s0) (primary s0)) else s0 in
                                           (with_cache s1 (cleanup (now s0) (cache s1)), x : out)))) as Hc.
    { intros s0 x H0. cbn [fst]. destruct (writable s0).
      - apply wf_with_cache; [apply cleanup_wf; apply H0|]. apply wf_with_primary; [apply cleanup_wf; apply H0|exact H0].
      - apply wf_with_cache; [apply cleanup_wf; apply H0|exact H0]. }
    destruct (writable s) eqn:W.
    + destruct (sync_any (primary s) (now s) f (cache s)) as [H|H]; rewrite H; apply Hc.
      * apply wf_with_cache; [apply Hwf|exact Hwf].
      * apply wf_with_cache; [apply mirror_of_wf|exact Hwf].
    + apply Hc. exact Hwf.
  - (* Load *) destruct (read_source reports_none (pmode s)); try exact Hwf; destruct (load s u) as [[a b] c]; exact Hwf.
  - (* GetS *) destruct (read_source reports_none (pmode s)); try exact Hwf; destruct (get_signed s u t); exact Hwf.
  - (* Users *) destruct (read_source reports_none (pmode s)); exact Hwf.
Qed.

Lemma run_wf ops : forall s, wf s -> wf (fst (run s ops)).
Proof.
  induction ops as [|o r IH]; intros s H; [exact H|].
  unfold run in *. simpl. pose proof (step_wf s o H) as H1.
  destruct (step s o) as [s1 x]. simpl in H1.
  specialize (IH s1 H1). destruct (run_gen step s1 r) as [s2 xs]. exact IH.
Qed.

Lemma init_wf : wf init.
Proof. repeat split; constructor. Qed.

Lemma final_wf ops : wf (final ops).
Proof. apply run_wf. apply init_wf. Qed.

(* ------------------------------------------------------------------ the property, on histories *)

(* a synchronisation that returned nil leaves the cache a mirror of the primary *)
Lemma sync_mirror ops f s' :
  step (final ops) (Sync f) = (s', OSync true) ->
  mirrors (cache s') (primary s') (now s') /\ primary s' = primary (final ops).
Proof.
  pose proof (final_wf ops) as [Hp _]. set (s := final ops) in *.
  unfold step, step_gen. destruct (writable s); [|intro H; inversion H].
  destruct (sync_any (primary s) (now s) f (cache s)) as [H|H]; rewrite H; intro E; inversion E; subst; simpl.
  split; [apply mirror_of_mirrors; exact Hp|reflexivity].
Qed.

(* ... and, the primary being reachable, an un-faulted synchronisation does return nil *)
Lemma sync_completes s : writable s = true -> snd (step s (Sync None)) = OSync true.
Proof.
  intro H. unfold step, step_gen. rewrite H, sync_none. reflexivity.
Qed.

(* a fault at any statement: the cache is the old one or the one of the completed copy *)
Lemma sync_atomic s f :
  cache (fst (step s (Sync f))) = cache s \/
  cache (fst (step s (Sync f))) = cache (fst (step s (Sync None))).
Proof.
  unfold step, step_gen. destruct (writable s); [|left; reflexivity].
  rewrite sync_none. destruct (sync_any (primary s) (now s) f (cache s)) as [H|H]; rewrite H; simpl; auto.
Qed.

Lemma sync_keeps_primary s f : primary (fst (step s (Sync f))) = primary s.
Proof.
  unfold step, step_gen. destruct (writable s); [|reflexivity].
  destruct (sync (primary s) (now s) f (cache s)). reflexivity.
Qed.

Lemma outage_reads s u : pmode s <> Up ->
  step s (Load u) = (s, match aget ukey_eqb u (profiles (cache s)) with
                        | Some b => OLoad true true b
                        | None => OLoad false true 0%N
                        end).
Proof.
  intro H. unfold step, step_gen, load. destruct (pmode s) as [|[] w]; try congruence; simpl;
    destruct (aget ukey_eqb u (profiles (cache s))); reflexivity.
Qed.

Lemma outage_reads_signed s u t : pmode s <> Up ->
  step s (GetS u t) = (s, match aget skey_eqb (u, t) (signed (cache s)) with
                          | Some r => if unexpired (now s) r then OSigned true (sr_data r) else OSigned false 0%N
                          | None => OSigned false 0%N
                          end).
Proof.
  intro H. unfold step, step_gen, get_signed. destruct (pmode s) as [|[] w]; try congruence; simpl;
    (destruct (aget skey_eqb (u, t) (signed (cache s))) as [r|]; [destruct (unexpired (now s) r)|]; reflexivity).
Qed.

Lemma outage_reads_users s : pmode s <> Up ->
  step s Users = (s, OUsers true (map fst (profiles (cache s)))).
Proof.
  intro H. unfold step, step_gen, users. destruct (pmode s) as [|[] w]; try congruence; reflexivity.
Qed.

(* after a completed copy, the cache answers every load exactly as the primary would *)
Lemma mirror_reads ops f s' m u : m <> Up ->
  step (final ops) (Sync f) = (s', OSync true) ->
  snd (step (fst (step s' (SetMode m))) (Load u)) =
  match aget ukey_eqb u (profiles (primary (final ops))) with
  | Some b => OLoad true true b
  | None => OLoad false true 0%N
  end.
Proof.
  intros Hm Hs. destruct (sync_mirror ops f s' Hs) as [[Hmp _] Hprim].
  change (fst (step s' (SetMode m))) with (mk_state (primary s') (cache s') (now s') m).
  rewrite outage_reads by (simpl; exact Hm). simpl. rewrite Hmp, Hprim. reflexivity.
Qed.

Lemma outage_writes s h u b : pmode s <> Up ->
  let '(s', o) := step s (Handler h u b) in
  cache s' = cache s /\ signed (primary s') = signed (primary s) /\
  (forall u', aget ukey_eqb u' (profiles (primary s')) = aget ukey_eqb u' (profiles (primary s)) \/
              (h = HDelete /\ u' = u /\ aget ukey_eqb u' (profiles (primary s')) = None)) /\
  (h = HMutate -> o = ORefused) /\
  (h = HAuthSave \/ h = HRead -> o = OServed \/ (h = HAuthSave /\ o = ORefused /\ aget ukey_eqb u (profiles (cache s)) = None)) /\
  (writable s = false -> primary s' = primary s).
Proof.
  intro H. unfold step, step_gen, handler, load, writable.
  destruct h; destruct (pmode s) as [|[] w] eqn:M; try congruence; simpl;
    try (destruct (aget ukey_eqb u (profiles (cache s))) eqn:G; simpl);
    try (destruct w; simpl);
    repeat split; auto; try congruence; try tauto; try (intros [X|X]; congruence).
  all: intro u'; destruct (N.eq_dec u' u) as [->|Hne];
    [right; repeat split; apply (aget_adel_same ukey_eqb)
    |left; apply (aget_adel_other ukey_eqb ukey_eqb_spec); congruence].
Qed.

(* with the primary truly unreachable nothing changes anywhere, whatever is attempted
   (Cleanup still purges expired rows of the local cache) *)
Lemma dead_frozen s o : writable s = false -> (forall m, o <> SetMode m) ->
  primary (fst (step s o)) = primary s /\ (o <> Cleanup -> (forall f, o <> Copier f) -> cache (fst (step s o)) = cache s).
Proof.
  intros M Hm. destruct o; unfold step, step_gen, handler; rewrite ?M; simpl; auto.
  - split; [reflexivity|congruence].
  - split; [reflexivity|]. intros _ H. exfalso. apply (H f). reflexivity.
  - destruct (read_source reports_none (pmode s)); auto; destruct (load s u) as [[a b] c]; auto.
  - destruct (read_source reports_none (pmode s)); auto; destruct (get_signed s u t); auto.
  - destruct (read_source reports_none (pmode s)); auto.
  - assert (load s u = (match aget ukey_eqb u (profiles (cache s)) with Some b => (true, true, b) | None => (false, true, 0%N) end)) as L.
    { unfold load. unfold writable in M. destruct (pmode s) as [|k w]; [discriminate|]. simpl.
      destruct (aget ukey_eqb u (profiles (cache s))); reflexivity. }
    destruct h; simpl; auto; destruct (read_source reports_none (pmode s)); simpl; auto; rewrite L;
      destruct (aget ukey_eqb u (profiles (cache s))); simpl; auto.
Qed.

Lemma load_up s u : pmode s = Up ->
  load s u = match aget ukey_eqb u (profiles (primary s)) with
             | Some b => (true, false, b)
             | None => (false, false, 0%N)
             end.
Proof. intro M. unfold load. rewrite M. reflexivity. Qed.

Lemma roundtrip s u b : pmode s = Up ->
  snd (step (fst (step s (Save u b))) (Load u)) = OLoad true false b /\
  (forall u', u' <> u -> snd (step (fst (step s (Save u b))) (Load u')) = snd (step s (Load u'))).
Proof.
  intro M.
  assert (pmode (save s u b) = Up) as M' by exact M.
  assert (forall x v, pmode x = Up -> snd (step x (Load v)) = let '(f, c, d) := load x v in OLoad f c d) as L.
  { intros x v Mx. unfold step, step_gen. rewrite Mx. cbn [read_source].
    destruct (load x v) as [[f c] d]. reflexivity. }
  assert (fst (step s (Save u b)) = save s u b) as S.
  { unfold step, step_gen, writable. rewrite M. reflexivity. }
  rewrite S. split.
  - rewrite L by exact M'. rewrite (load_up _ u M'). unfold save, with_primary, set_profiles. cbn [primary profiles].
    rewrite (aget_aset_same ukey_eqb ukey_eqb_spec). reflexivity.
  - intros u' Hne. rewrite L by exact M'. rewrite L by exact M. rewrite (load_up _ u' M'), (load_up _ u' M).
    unfold save, with_primary, set_profiles. cbn [primary profiles].
    rewrite (aget_aset_other ukey_eqb ukey_eqb_spec) by congruence.
    destruct (aget ukey_eqb u' (profiles (primary s))); reflexivity.
Qed.

(* purging expired rows is invisible to every reader *)
Definition live (d : db) (n : Z) (k : skey) : option srow :=
  match aget skey_eqb k (signed d) with Some r => if unexpired n r then Some r else None | None => None end.

Lemma get_signed_live s u t :
  get_signed s u t = live (if mode_eqb (pmode s) Up then primary s else cache s) (now s) (u, t).
Proof. reflexivity. Qed.

Lemma cleanup_live n d k : NoDup (keys (signed d)) -> live (cleanup n d) n k = live d n k.
Proof.
  intro H. unfold live, cleanup. cbn [signed set_signed].
  rewrite (aget_filter skey_eqb skey_eqb_spec (fun r => negb (sr_exp r <? n)) k _ H).
  destruct (aget skey_eqb k (signed d)) as [r|]; [|reflexivity].
  unfold unexpired. destruct (sr_exp r <? n) eqn:E; cbn [negb]; [|reflexivity].
  destruct (n <? sr_exp r) eqn:E2; [|reflexivity]. apply Z.ltb_lt in E, E2. lia.
Qed.

Lemma cleanup_get_signed s u t : wf s -> get_signed (fst (step s Cleanup)) u t = get_signed s u t.
Proof.
  intros [[_ Ps] [_ Cs]]. rewrite !get_signed_live. unfold step, step_gen. cbn [fst].
  destruct (writable s); destruct (mode_eqb (pmode s) Up) eqn:M;
    unfold with_cache, with_primary; cbn [pmode primary cache now]; rewrite ?M;
    first [apply cleanup_live; assumption | reflexivity].
Qed.

Lemma gets_out s u t :
  snd (step s (GetS u t)) = match get_signed s u t with
                            | Some r => OSigned true (sr_data r)
                            | None => OSigned false 0%N
                            end.
Proof. unfold step, step_gen. destruct (pmode s) as [|[] w]; simpl; destruct (get_signed s u t); reflexivity. Qed.

Lemma cleanup_invisible ops u t :
  snd (step (fst (step (final ops) Cleanup)) (GetS u t)) = snd (step (final ops) (GetS u t)).
Proof. rewrite !gets_out. rewrite cleanup_get_signed by apply final_wf. reflexivity. Qed.

Lemma cleanup_purges s k r :
  aget skey_eqb k (signed (cache (fst (step s Cleanup)))) = Some r -> now s <= sr_exp r.
Proof.
  unfold step, step_gen. destruct (writable s); simpl; intro H.
  - assert (In (k, r) (filter (fun e => negb (sr_exp (snd e) <? now s)) (signed (cache s)))) as Hin.
    { revert H. generalize (filter (fun e => negb (sr_exp (snd e) <? now s)) (signed (cache s))).
      induction l as [|[k0 r0] l IH]; simpl; [discriminate|].
      destruct (skey_eqb k k0) eqn:E; [apply skey_eqb_spec in E; subst; intro H; inversion H; left; reflexivity|].
      intro H. right. apply IH. exact H. }
    apply filter_In in Hin. destruct Hin as [_ Hf]. simpl in Hf. apply negb_true_iff, Z.ltb_ge in Hf. exact Hf.
  - assert (In (k, r) (filter (fun e => negb (sr_exp (snd e) <? now s)) (signed (cache s)))) as Hin.
    { revert H. generalize (filter (fun e => negb (sr_exp (snd e) <? now s)) (signed (cache s))).
      induction l as [|[k0 r0] l IH]; simpl; [discriminate|].
      destruct (skey_eqb k k0) eqn:E; [apply skey_eqb_spec in E; subst; intro H; inversion H; left; reflexivity|].
      intro H. right. apply IH. exact H. }
    apply filter_In in Hin. destruct Hin as [_ Hf]. simpl in Hf. apply negb_true_iff, Z.ltb_ge in Hf. exact Hf.
Qed.

(* ------------------------------------------------------------------ the code before the repairs *)
Definition run_old (qde : bool) := run_gen (step_old qde).

Local Open Scope N_scope.
(* SQLite: a completed copy does not mirror deletions *)
Definition old_mirror_history : list op :=
  [Save 1 10; Save 2 20; Upsert 1 1 5 1000%Z; Sync None; DelUser 2; DelSigned 1 1; Sync None].

Lemma old_mirror_refuted :
  let '(s, outs) := run_old false init old_mirror_history in
  nth 6 outs OErr = OSync true /\
  aget ukey_eqb 2 (profiles (primary s)) = None /\ aget ukey_eqb 2 (profiles (cache s)) = Some 20 /\
  aget skey_eqb (1, 1) (signed (primary s)) = None /\
  aget skey_eqb (1, 1) (signed (cache s)) = Some (mk_srow 5 1000%Z 0%Z).
Proof. vm_compute. repeat split; reflexivity. Qed.

(* the cursor error of the second loop is never looked at: a partial copy is committed *)
Definition old_cursor_history : list op := [Upsert 1 1 5 1000%Z; Upsert 2 1 6 1000%Z].

Lemma old_atomic_refuted_cursor :
  let s := fst (run_old false init old_cursor_history) in
  let c := cache (fst (step_old false s (Sync (Some (gen 9))))) in
  let cnew := cache (fst (step_old false s (Sync None))) in
  snd (step_old false s (Sync (Some (gen 9)))) = OSync true /\
  same_db c (cache s) = false /\ same_db c cnew = false.
Proof. vm_compute. repeat split; reflexivity. Qed.

(* a driver that executes the pool DELETE at once: it survives the roll-back *)
Definition old_eager_history : list op := [Save 1 10; Upsert 1 1 5 1000%Z; Sync None; Save 1 11].

Lemma old_atomic_refuted_eager :
  let s := fst (run_old true init old_eager_history) in
  let c := cache (fst (step_old true s (Sync (Some (gen 6))))) in
  let cnew := cache (fst (step_old true s (Sync None))) in
  snd (step_old true s (Sync (Some (gen 6)))) = OSync false /\
  same_db c (cache s) = false /\ same_db c cnew = false.
Proof. vm_compute. repeat split; reflexivity. Qed.

(* slow primary: the WebAuthn login handler wrote the cache's (older) profile over the newer one *)
Definition old_writeback_history : list op :=
  [Save 1 10; Sync None; Save 1 11; SetMode Slow; Handler HAuthSave 1 12].

Lemma old_stale_writeback_refuted :
  let s := fst (run_old false init old_writeback_history) in
  aget ukey_eqb 1 (profiles (primary s)) = Some 10.
Proof. vm_compute. reflexivity. Qed.

(* cleanupDBData never purged anything on SQLite *)
Lemma old_cleanup_refuted :
  let s := fst (run_old false init [Upsert 1 1 5 10%Z; Tick 100%Z; Cleanup]) in
  aget skey_eqb (1, 1) (signed (primary s)) = Some (mk_srow 5 10%Z 0%Z).
Proof. vm_compute. reflexivity. Qed.

(* before the repair of the read path a failed query / row fetch of the primary was put on the
   channel and returned to the caller: the cache holds the profile, the signed record and the user
   list, and still every read fails and the second-factor check answers with an error — whether
   or not writes would still go through.  The repaired machine answers from the cache. *)
Definition old_outage_history (k : rfail) (w : bool) : list op :=
  [Save 1 10; Upsert 1 1 5 1000%Z; Sync None; SetMode (Out k w)].

Lemma old_outage_reported_refuted k w : k = RQuery \/ k = RScan ->
  let s := fst (run init (old_outage_history k w)) in
  snd (step_reporting s (Load 1)) = OErr /\ snd (step_reporting s (GetS 1 1)) = OErr /\
  snd (step_reporting s Users) = OErr /\ snd (step_reporting s (Handler HAuthSave 1 12)) = OErr /\
  snd (step s (Load 1)) = OLoad true true 10 /\ snd (step s (GetS 1 1)) = OSigned true 5 /\
  snd (step s Users) = OUsers true [1] /\ snd (step s (Handler HAuthSave 1 12)) = OServed.
Proof. intros [-> | ->]; destruct w; vm_compute; repeat split; reflexivity. Qed.

Local Close Scope N_scope.
Local Open Scope Z_scope.

(* a read of a signed record never returns an expired row, whichever store answers and whatever
   happened before (purged or not) *)
Lemma reads_unexpired s u t d :
  snd (step s (GetS u t)) = OSigned true d ->
  exists r, aget skey_eqb (u, t) (signed (if mode_eqb (pmode s) Up then primary s else cache s)) = Some r /\
            sr_data r = d /\ now s < sr_exp r.
Proof.
  rewrite gets_out. unfold get_signed.
  destruct (aget skey_eqb (u, t) (signed (if mode_eqb (pmode s) Up then primary s else cache s))) as [r|]; [|discriminate].
  unfold unexpired. destruct (now s <? sr_exp r) eqn:E; [|discriminate].
  intro H. inversion H. exists r. repeat split. apply Z.ltb_lt. exact E.
Qed.

(* ------------------------------------------------------------------ kinds of faults; restarts *)

(* a synchronisation that reports success — whatever failed on the way, in whichever way — left the
   content of the completed copy *)
Lemma sync_success_is_new s f :
  snd (step s (Sync f)) = OSync true ->
  cache (fst (step s (Sync f))) = cache (fst (step s (Sync None))).
Proof.
  unfold step, step_gen. destruct (writable s); [|discriminate].
  rewrite sync_none. destruct (sync_any (primary s) (now s) f (cache s)) as [H|H]; rewrite H; simpl; [discriminate|reflexivity].
Qed.

(* a failed one reports failure and keeps the previous content *)
Lemma sync_failure_is_old s f :
  snd (step s (Sync f)) = OSync false -> cache (fst (step s (Sync f))) = cache s.
Proof.
  unfold step, step_gen. destruct (writable s); [|reflexivity].
  destruct (sync_any (primary s) (now s) f (cache s)) as [H|H]; rewrite H; simpl; [reflexivity|discriminate].
Qed.

Local Open Scope N_scope.
(* the variant that writes the transaction again after SQLITE_BUSY / SQLITE_LOCKED with the source
   cursors already consumed: a transient busy error at the second insert commits a cache without the
   first two users and reports success; at the COMMIT it commits an EMPTY cache and reports success.
   The code keeps the previous cache and reports the failure, for the same faults. *)
Definition retry_history : list op := [Save 1 10; Sync None; Save 1 11; Save 2 20; Save 3 30; Upsert 1 1 5 1000%Z].

Lemma retrying_refuted :
  let s := fst (run init retry_history) in
  let cnew := cache (fst (step s (Sync None))) in
  (* F 9: stmt.Exec of the second profile row; F 17: the COMMIT (script length 18) *)
  length (sync_script (primary s) (now s)) = 18%nat /\
  forallb (fun k =>
    forallb (fun at_ =>
      let f := Some (F at_ k true) in
      out_eqb (snd (step_retrying s (Sync f))) (OSync true) &&
      negb (same_db (cache (fst (step_retrying s (Sync f)))) (cache s)) &&
      negb (same_db (cache (fst (step_retrying s (Sync f)))) cnew) &&
      out_eqb (snd (step s (Sync f))) (OSync false) &&
      same_db (cache (fst (step s (Sync f)))) (cache s)) [9%nat; 17%nat]) [KBusy; KLocked] = true /\
  profiles (cache (fst (step_retrying s (Sync (Some (F 17 KBusy true)))))) = [] /\
  map fst (profiles (cache (fst (step_retrying s (Sync (Some (F 9 KBusy true))))))) = [1] /\
  (* a standing busy condition makes every attempt fail: old content, failure reported *)
  snd (step_retrying s (Sync (Some (F 9 KBusy false)))) = OSync false.
Proof. vm_compute. repeat split; reflexivity. Qed.

(* a transient bad connection on a call that database/sql repeats is not seen by the copy; a standing
   one, or one on a call that is not repeated, fails it *)
Lemma badconn_examples :
  let s := fst (run init retry_history) in
  map (fun f => snd (step s (Sync (Some f))))
      [F 0 KBadConn true; F 2 KBadConn true; F 7 KBadConn true; F 0 KBadConn false; F 3 KBadConn true; F 6 KBadConn true; F 17 KBadConn true]
  = [OSync true; OSync true; OSync true; OSync false; OSync false; OSync false; OSync false].
Proof. vm_compute. reflexivity. Qed.
Local Close Scope N_scope.

(* a restart changes nothing that is on disk *)
Lemma restart_keeps s :
  snd (step s Restart) = OOk /\
  primary (fst (step s Restart)) = primary s /\ cache (fst (step s Restart)) = cache s /\
  now (fst (step s Restart)) = now s /\ pmode (fst (step s Restart)) = pmode s.
Proof. repeat split. Qed.

(* operations that leave the cache alone and do not end an outage: everything except a copy (alone or as a
   turn of the copier), the purge, the write-through of signed records and the primary coming back *)
Definition cache_quiet (o : op) : Prop :=
  match o with
  | Sync _ | Copier _ | Cleanup | Upsert _ _ _ _ | DelSigned _ _ | SetMode Up => False
  | _ => True
  end.

Lemma cache_quiet_step s o : cache_quiet o -> pmode s <> Up ->
  cache (fst (step s o)) = cache s /\ pmode (fst (step s o)) <> Up.
Proof.
  intros Hq Hm. destruct o; simpl in Hq; try contradiction; unfold step, step_gen; cbn [fst].
  - destruct (writable s); split; auto.
  - destruct (writable s); split; auto.
  - split; auto.
  - destruct m; [contradiction|]. split; [reflexivity|discriminate].
  - split; auto.
  - destruct (read_source reports_none (pmode s)); [destruct (load s u) as [[a b] c]..|]; split; auto.
  - destruct (read_source reports_none (pmode s)); [destruct (get_signed s u t)..|]; split; auto.
  - destruct (read_source reports_none (pmode s)); split; auto.
  - pose proof (outage_writes s h u b Hm) as P. unfold step, step_gen in P.
    destruct (handler true reports_none s h u b) as [s' o] eqn:E. destruct P as [A _]. cbn [fst]. split; [exact A|].
    revert E. unfold handler, load, save, with_primary.
    destruct h; destruct (writable s); destruct (read_source reports_none (pmode s));
      destruct (negb (mode_eqb (pmode s) Up)); try destruct (aget ukey_eqb u (profiles (cache s)));
      try destruct (aget ukey_eqb u (profiles (primary s))); simpl; intro E; inversion E; subst; simpl; exact Hm.
Qed.

Lemma cache_quiet_run tail : Forall cache_quiet tail -> forall s, pmode s <> Up ->
  cache (fst (run s tail)) = cache s /\ pmode (fst (run s tail)) <> Up.
Proof.
  induction tail as [|o r IH]; intros H s Hm; [split; [reflexivity|exact Hm]|].
  inversion H as [|x l Ho Hr]; subst.
  destruct (cache_quiet_step s o Ho Hm) as [A B].
  unfold run in *. simpl. destruct (step s o) as [s1 x] eqn:E. simpl in A, B.
  specialize (IH Hr s1 B). destruct (run_gen step s1 r) as [s2 xs]. simpl in *. rewrite <- A. exact IH.
Qed.

Lemma run_cons_fst s o r : fst (run s (o :: r)) = fst (run (fst (step s o)) r).
Proof. unfold run. simpl. destruct (step s o) as [s1 x]. simpl. destruct (run_gen step s1 r) as [s2 xs]. reflexivity. Qed.

(* after a completed copy and the primary going out (in whichever way), whatever follows that leaves the
   cache alone — restarts of the daemon, reads, refused or served requests, further changes of the kind
   of outage — every load is still answered from the cache with what the primary held at the copy *)
Lemma restart_outage_reads ops f s' k w tail u :
  step (final ops) (Sync f) = (s', OSync true) -> Forall cache_quiet tail ->
  snd (step (fst (run s' (SetMode (Out k w) :: tail))) (Load u)) =
  match aget ukey_eqb u (profiles (primary (final ops))) with
  | Some b => OLoad true true b
  | None => OLoad false true 0%N
  end.
Proof.
  intros Hs Hq. destruct (sync_mirror ops f s' Hs) as [[Hmp _] Hprim].
  rewrite run_cons_fst.
  change (fst (step s' (SetMode (Out k w)))) with (mk_state (primary s') (cache s') (now s') (Out k w)).
  set (s1 := mk_state (primary s') (cache s') (now s') (Out k w)).
  assert (pmode s1 <> Up) as Hm by discriminate.
  destruct (cache_quiet_run tail Hq s1 Hm) as [A B].
  rewrite outage_reads by exact B. cbn [snd]. rewrite A. subst s1. cbn [cache]. rewrite Hmp, Hprim. reflexivity.
Qed.

Local Open Scope N_scope.
(* a start-up that recreates the cache file loses what the previous process served from it *)
Lemma wiping_refuted : forall k w,
  let h := [Save 1 10; Upsert 1 1 5 1000%Z; Sync None; SetMode (Out k w); Restart] in
  snd (step_wiping (fst (run_gen step_wiping init h)) (Load 1)) = OLoad false true 0 /\
  snd (step_wiping (fst (run_gen step_wiping init h)) Users) = OUsers true [] /\
  snd (step_wiping (fst (run_gen step_wiping init h)) (Handler HAuthSave 1 12)) = ORefused /\
  snd (step (fst (run init h)) (Load 1)) = OLoad true true 10 /\
  snd (step (fst (run init h)) Users) = OUsers true [1] /\
  snd (step (fst (run init h)) (Handler HAuthSave 1 12)) = OServed.
Proof. intros [] []; vm_compute; repeat split; reflexivity. Qed.
Local Close Scope N_scope.

(* ------------------------------------------------------------------ the background copier *)
(* one turn of the copier is the copy followed by the purge *)
Lemma step_copier s f :
  step s (Copier f) = (fst (step (fst (step s (Sync f))) Cleanup), snd (step s (Sync f))).
Proof.
  unfold step, step_gen. destruct (writable s) eqn:W.
  - destruct (sync (primary s) (now s) f (cache s)) as [c ok]. cbn [fst snd]. reflexivity.
  - cbn [fst snd]. reflexivity.
Qed.

Lemma handler_cache s h u b : cache (fst (handler true reports_none s h u b)) = cache s.
Proof.
  unfold handler.
  destruct h; [destruct (read_source reports_none (pmode s)); [| |reflexivity]..|].
  - destruct (load s u) as [[fd fc] cur]. destruct fc; [reflexivity|]. destruct (writable s); reflexivity.
  - destruct (load s u) as [[fd fc] cur]. destruct fc; [reflexivity|]. destruct (writable s); reflexivity.
  - destruct (load s u) as [[fd fc] cur]. destruct fd; [|reflexivity]. destruct fc; [reflexivity|]. destruct (writable s); reflexivity.
  - destruct (load s u) as [[fd fc] cur]. destruct fd; [|reflexivity]. destruct fc; [reflexivity|]. destruct (writable s); reflexivity.
  - reflexivity.
  - reflexivity.
  - destruct (writable s); reflexivity.
Qed.

(* the user profiles in the cache change only when a copy completes *)
Lemma step_cache_profiles s o : completes o (snd (step s o)) = false ->
  profiles (cache (fst (step s o))) = profiles (cache s).
Proof.
  destruct o; intro H;
    try solve [unfold step, step_gen; cbn [fst]; first [destruct (writable s); reflexivity | reflexivity]].
  - unfold step, step_gen in *. destruct (writable s); [|reflexivity].
    destruct (sync_any (primary s) (now s) f (cache s)) as [E|E]; rewrite E in *; simpl in *; [reflexivity|discriminate].
  - rewrite step_copier in *. cbn [fst snd] in *.
    assert (profiles (cache (fst (step s (Sync f)))) = profiles (cache s)) as A.
    { unfold step, step_gen in *. destruct (writable s); [|reflexivity].
      destruct (sync_any (primary s) (now s) f (cache s)) as [E|E]; rewrite E in *; simpl in *; [reflexivity|discriminate]. }
    rewrite <- A. unfold step at 1, step_gen. cbn [fst]. destruct (writable (fst (step s (Sync f)))); reflexivity.
  - unfold step, step_gen. destruct (read_source reports_none (pmode s)); [destruct (load s u) as [[a b] c]..|]; reflexivity.
  - unfold step, step_gen. destruct (read_source reports_none (pmode s)); [destruct (get_signed s u t)..|]; reflexivity.
  - unfold step, step_gen. destruct (read_source reports_none (pmode s)); reflexivity.
  - unfold step, step_gen. rewrite handler_cache. reflexivity.
Qed.

(* ... and then they are the primary's *)
Lemma step_completes_profiles s o u : wf s -> completes o (snd (step s o)) = true ->
  aget ukey_eqb u (profiles (cache (fst (step s o)))) = aget ukey_eqb u (profiles (primary s)).
Proof.
  intros [Hp _] H.
  assert (forall f, snd (step s (Sync f)) = OSync true ->
                    aget ukey_eqb u (profiles (cache (fst (step s (Sync f))))) = aget ukey_eqb u (profiles (primary s))) as A.
  { intros f. unfold step, step_gen. destruct (writable s); [|discriminate].
    destruct (sync_any (primary s) (now s) f (cache s)) as [E|E]; rewrite E; simpl; [discriminate|]. intros _.
    destruct (mirror_of_mirrors (primary s) (now s) Hp) as [M _]. apply M. }
  destruct o; cbn [completes] in H; try discriminate H.
  - apply A. destruct (snd (step s (Sync f))) as [| | | | |[]| |]; try discriminate H. reflexivity.
  - rewrite step_copier in *. cbn [fst snd] in *.
    assert (snd (step s (Sync f)) = OSync true) as B by (destruct (snd (step s (Sync f))) as [| | | | |[]| |]; try discriminate H; reflexivity).
    rewrite <- (A f B). unfold step at 1, step_gen. cbn [fst]. destruct (writable (fst (step s (Sync f)))); reflexivity.
Qed.

(* the cache is never more than one completed copy behind: at every moment of every history its user
   profiles are those the primary held when the last copy completed (none before the first) *)
Lemma ghost_inv ops : forall s g, wf s -> (forall u, aget ukey_eqb u (profiles (cache s)) = aget ukey_eqb u g) ->
  forall u, aget ukey_eqb u (profiles (cache (fst (run_ghost s g ops)))) = aget ukey_eqb u (snd (run_ghost s g ops)).
Proof.
  induction ops as [|o r IH]; intros s g Hwf Hg u; [apply Hg|].
  simpl. pose proof (step_wf s o Hwf) as Hwf1.
  destruct (step s o) as [s1 x] eqn:E. simpl in Hwf1.
  apply IH; [exact Hwf1|]. intro v.
  destruct (completes o x) eqn:C.
  - pose proof (step_completes_profiles s o v Hwf) as P. rewrite E in P. apply P. exact C.
  - pose proof (step_cache_profiles s o) as P. rewrite E in P. simpl in P. rewrite (P C). apply Hg.
Qed.

Lemma copier_lag ops u :
  aget ukey_eqb u (profiles (cache (fst (run_ghost init [] ops)))) = aget ukey_eqb u (snd (run_ghost init [] ops)).
Proof. apply ghost_inv; [apply init_wf|reflexivity]. Qed.

Lemma run_ghost_final ops : forall s g, fst (run_ghost s g ops) = fst (run s ops).
Proof.
  induction ops as [|o r IH]; intros s g; [reflexivity|].
  rewrite run_cons_fst. simpl. destruct (step s o) as [s1 x]. apply IH.
Qed.
