(* C15 — proofs about Model/StorageJournal.v: with a journal that can restore the old content the
   copy is the copy of Model/Storage.v (so every theorem about [step] holds for the daemon with such a
   cache connection); without one the property fails. *)
From Coq Require Import List NArith ZArith Bool String Lia.
From KM Require Import Model.Storage Proofs.Storage Model.StorageJournal.
Import ListNotations.
Open Scope Z_scope.

Lemma transactional_file_journal j :
  transactional j = match j with JDelete | JTruncate | JPersist | JWal => true | JMemory | JOff => false end.
Proof. destruct j; reflexivity. Qed.

Lemma transactional_restores j sy i : transactional j = true -> i <> IPower -> restores j sy i = true.
Proof. destruct j, i; simpl; intros Ht Hi; try reflexivity; try discriminate; congruence. Qed.

Lemma power_safe_restores j sy i : transactional j = true -> power_safe j sy = true -> restores j sy i = true.
Proof.
  intros Ht Hp. destruct i; [apply transactional_restores; [exact Ht|discriminate]..|exact Hp].
Qed.

(* a journal that restores: the roll-back is the one of Model/Storage.v, whatever the environment *)
Lemma exec_j_restored mix sc : forall f skip wrote c p,
  exec_j true mix sc f skip wrote c p = exec sc f skip c p.
Proof.
  induction sc as [|s r IH]; intros f skip wrote c p; [reflexivity|].
  simpl. destruct (skip && st_unchecked s); [apply IH|].
  destruct f as [[[|n] k o]|].
  - destruct (absorbed (F 0 k o) s).
    + destruct (apply_stmt s c p) as [c' p']. apply IH.
    + destruct (st_unchecked s); [apply IH|reflexivity].
  - destruct (apply_stmt s c p) as [c' p']. apply IH.
  - destruct (apply_stmt s c p) as [c' p']. apply IH.
Qed.

Lemma sync_j_restored j sy i mix : restores j sy i = true ->
  forall src now f c, sync_j j sy i mix src now f c = sync src now f c.
Proof. intros H src now f c. unfold sync_j, sync. rewrite H. apply exec_j_restored. Qed.

Lemma step_gen_sync_ext g w r cl rc (sf1 sf2 : db -> Z -> option fault -> db -> db * bool) :
  (forall src now f c, sf1 src now f c = sf2 src now f c) ->
  forall s o, step_gen g w r sf1 cl rc s o = step_gen g w r sf2 cl rc s o.
Proof.
  intros H s o. destruct o; simpl; try reflexivity; rewrite H; reflexivity.
Qed.

Lemma step_j_restored j sy i mix : restores j sy i = true ->
  forall s o, step_j j sy i mix s o = step s o.
Proof.
  intros H s o. unfold step_j, step. apply step_gen_sync_ext. apply sync_j_restored. exact H.
Qed.

(* the daemon whose cache connection keeps a file journal or a WAL IS the daemon of Model/Storage.v, for a
   failed statement and for a killed process alike, whatever the environment would do without a journal *)
Lemma journal_transparent j sy i mix : transactional j = true -> i <> IPower ->
  forall s o, step_j j sy i mix s o = step s o.
Proof. intros Ht Hi. apply step_j_restored. apply transactional_restores; assumption. Qed.

Lemma journal_transparent_power j sy mix : transactional j = true -> power_safe j sy = true ->
  forall i s o, step_j j sy i mix s o = step s o.
Proof. intros Ht Hp i. apply step_j_restored. apply power_safe_restores; assumption. Qed.

(* c15_atomic with its precondition named *)
Lemma atomic_journal j sy i mix : transactional j = true -> (i <> IPower \/ power_safe j sy = true) ->
  forall s f,
  (cache (fst (step_j j sy i mix s (Sync f))) = cache s \/
   cache (fst (step_j j sy i mix s (Sync f))) = cache (fst (step_j j sy i mix s (Sync None)))) /\
  primary (fst (step_j j sy i mix s (Sync f))) = primary s /\
  (snd (step_j j sy i mix s (Sync f)) = OSync true ->
   cache (fst (step_j j sy i mix s (Sync f))) = cache (fst (step_j j sy i mix s (Sync None)))) /\
  (snd (step_j j sy i mix s (Sync f)) = OSync false -> cache (fst (step_j j sy i mix s (Sync f))) = cache s).
Proof.
  intros Ht Hi s f.
  assert (E : forall s o, step_j j sy i mix s o = step s o).
  { destruct Hi as [Hi|Hp]; [apply journal_transparent; assumption|apply journal_transparent_power; assumption]. }
  rewrite !E.
  split; [apply sync_atomic|]. split; [apply sync_keeps_primary|].
  split; [apply sync_success_is_new|apply sync_failure_is_old].
Qed.

(* the copier's lag bound etc. carry over the same way: a whole run *)
Lemma run_j_restored j sy i mix : restores j sy i = true ->
  forall ops s, run_gen (step_j j sy i mix) s ops = run s ops.
Proof.
  intros H ops. induction ops as [|o r IH]; intro s; [reflexivity|].
  unfold run in *. simpl. rewrite (step_j_restored j sy i mix H).
  destruct (step s o) as [s1 x]. rewrite IH. reflexivity.
Qed.

(* ------------------------------------------------------------------ without a journal *)
(* three users whose profiles changed (10 -> 11) since the last copy, one signed record *)
Definition nj_primary : db := mk_db [(1%N, 11%N); (2%N, 11%N); (3%N, 11%N)] [((1%N, 1%N), mk_srow 5 100 0)].
Definition nj_cache : db := mk_db [(1%N, 10%N); (2%N, 10%N); (3%N, 10%N)] [((1%N, 1%N), mk_srow 5 100 0)].
Definition nj_state : state := mk_state nj_primary nj_cache 0 Up.
(* statement 11 = the third profile insert (0,1 source queries; 2 Begin; 3,4 DELETEs; 5 Prepare; 6..11 fetch+insert x3) *)
Definition nj_fault : option fault := Some (F 11 KGeneric true).

Lemma no_journal_refuted :
  (* journal_mode = OFF, the transaction outgrew the page cache (here: 3 rows): a failed statement,
     the process alive, copyDBIntoSQLite reports the failure — and the cache holds neither the old nor the
     new content (both DELETEs and two of three inserts) *)
  (let r := step_j JOff 2 IStmt (spilled 3) nj_state (Sync nj_fault) in
   snd r = OSync false /\ cache (fst r) <> cache nj_state /\
   cache (fst r) <> cache (fst (step nj_state (Sync None))) /\
   aget ukey_eqb 3%N (profiles (cache (fst r))) = None /\
   aget ukey_eqb 1%N (profiles (cache (fst r))) = Some 11%N) /\
  (* the same with a transaction that fits the page cache: the roll-back happens to work, which is why
     small databases show nothing *)
  cache (fst (step_j JOff 2 IStmt (spilled 100) nj_state (Sync nj_fault))) = cache nj_state /\
  (* the same fault with a journal: the old content, whatever the environment *)
  (forall mix, cache (fst (step_j JDelete 2 IStmt mix nj_state (Sync nj_fault))) = cache nj_state) /\
  (* and the un-faulted copy is not affected by the journal mode: completed copies look the same *)
  step_j JOff 2 IStmt (spilled 3) nj_state (Sync None) = step nj_state (Sync None).
Proof.
  split; [|split; [|split]].
  - vm_compute. repeat split; try reflexivity; intro H; discriminate H.
  - vm_compute. reflexivity.
  - intro mix. rewrite journal_transparent; [|reflexivity|discriminate]. vm_compute. reflexivity.
  - vm_compute. reflexivity.
Qed.

(* journal_mode = MEMORY rolls a failed statement back but not a killed process; a file journal with
   synchronous = OFF survives both and not a power loss *)
Lemma weak_journal_refuted :
  (forall mix, cache (fst (step_j JMemory 2 IStmt mix nj_state (Sync nj_fault))) = cache nj_state) /\
  (let r := step_j JMemory 2 IKill (spilled 3) nj_state (Sync nj_fault) in
   cache (fst r) <> cache nj_state /\ cache (fst r) <> cache (fst (step nj_state (Sync None)))) /\
  (forall mix i, i <> IPower -> cache (fst (step_j JDelete 0 i mix nj_state (Sync nj_fault))) = cache nj_state) /\
  (let r := step_j JDelete 0 IPower (spilled 3) nj_state (Sync nj_fault) in
   cache (fst r) <> cache nj_state /\ cache (fst r) <> cache (fst (step nj_state (Sync None)))) /\
  (forall mix i, cache (fst (step_j JDelete 1 i mix nj_state (Sync nj_fault))) = cache nj_state).
Proof.
  split; [|split; [|split; [|split]]].
  - intro mix. rewrite step_j_restored; [|reflexivity]. vm_compute. reflexivity.
  - vm_compute. split; intro H; discriminate H.
  - intros mix i Hi. rewrite journal_transparent; [|reflexivity|exact Hi]. vm_compute. reflexivity.
  - vm_compute. split; intro H; discriminate H.
  - intros mix i. rewrite journal_transparent_power; [|reflexivity|reflexivity]. vm_compute. reflexivity.
Qed.

(* ------------------------------------------------------------------ probed connections *)
Lemma probe_transactional_atomic p : probe_transactional p = true ->
  exists j, jmode_of_string (cp_journal p) = Some j /\ transactional j = true.
Proof.
  unfold probe_transactional. destruct (jmode_of_string (cp_journal p)) as [j|]; [|discriminate].
  intro H. exists j. split; [reflexivity|exact H].
Qed.

(* the conclusion of c15_atomic for a step function *)
Definition atomic_at (st : state -> op -> state * out) (s : state) (f : option fault) : Prop :=
  (cache (fst (st s (Sync f))) = cache s \/ cache (fst (st s (Sync f))) = cache (fst (st s (Sync None)))) /\
  primary (fst (st s (Sync f))) = primary s /\
  (snd (st s (Sync f)) = OSync true -> cache (fst (st s (Sync f))) = cache (fst (st s (Sync None)))) /\
  (snd (st s (Sync f)) = OSync false -> cache (fst (st s (Sync f))) = cache s).

(* a probed connection that passes both tests: the copy on it is atomic however it ends early *)
Lemma probe_atomic p : probe_transactional p = true -> probe_power_safe p = true ->
  exists j, jmode_of_string (cp_journal p) = Some j /\
            forall i mix s f, atomic_at (step_j j (cp_sync p) i mix) s f.
Proof.
  unfold probe_transactional, probe_power_safe.
  destruct (jmode_of_string (cp_journal p)) as [j|]; [|discriminate].
  intros Ht Hp. exists j. split; [reflexivity|].
  intros i mix s f. apply atomic_journal; [exact Ht|right; exact Hp].
Qed.

(* ... that passes the first: atomic for every failed statement and every killed process *)
Lemma probe_atomic_running p : probe_transactional p = true ->
  exists j, jmode_of_string (cp_journal p) = Some j /\
            forall i mix s f, i <> IPower -> atomic_at (step_j j (cp_sync p) i mix) s f.
Proof.
  unfold probe_transactional.
  destruct (jmode_of_string (cp_journal p)) as [j|]; [|discriminate].
  intros Ht. exists j. split; [reflexivity|].
  intros i mix s f Hi. apply atomic_journal; [exact Ht|left; exact Hi].
Qed.
