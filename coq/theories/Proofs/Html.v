From KM Require Import Base.Bytes Model.Html.

Lemma esc_safe c : has markup_byte (esc c) = false.
Proof.
  unfold esc.
  destruct (c =? 0) eqn:E0; [reflexivity|].
  destruct (c =? 34) eqn:E1; [reflexivity|].
  destruct (c =? 39) eqn:E2; [reflexivity|].
  destruct (c =? 38) eqn:E3; [reflexivity|].
  destruct (c =? 60) eqn:E4; [reflexivity|].
  destruct (c =? 62) eqn:E5; [reflexivity|].
  cbn [has]. unfold markup_byte. rewrite E1, E2, E4, E5. reflexivity.
Qed.

Lemma has_app p a b : has p (a ++ b) = has p a || has p b.
Proof. induction a as [|x a IH]; cbn [has app]; [reflexivity|]. rewrite IH, orb_assoc. reflexivity. Qed.

Theorem escape_safe s : attr_safe (html_escape s) = true.
Proof.
  unfold attr_safe, html_escape. apply negb_true_iff.
  induction s as [|c r IH]; cbn [flat_map]; [reflexivity|].
  rewrite has_app, esc_safe, IH. reflexivity.
Qed.

Lemma until_quote_app a b : has (fun c => c =? 34) a = false -> until_quote (a ++ 34 :: b) = a.
Proof.
  induction a as [|x a IH]; cbn [has app until_quote]; intros H.
  - reflexivity.
  - apply orb_false_iff in H. destruct H as [H1 H2]. rewrite H1, (IH H2). reflexivity.
Qed.

Lemma no_quote s : attr_safe s = true -> has (fun c => c =? 34) s = false.
Proof.
  unfold attr_safe. rewrite negb_true_iff. induction s as [|c r IH]; cbn [has]; auto.
  intros H. apply orb_false_iff in H. destruct H as [H1 H2]. rewrite (IH H2).
  unfold markup_byte in H1. rewrite !orb_false_iff in H1. destruct H1 as [[[A _] _] _]. rewrite A. reflexivity.
Qed.

(* the attribute value a tokenizer reads is exactly the escaped text: the destination can
   neither end the attribute nor add one *)
Theorem value_is_escaped_text ensure dest :
  exists v, hidden_input ensure dest = input_prefix ++ v ++ input_suffix /\
            until_quote (v ++ input_suffix) = v /\ v = html_escape (ensure dest) /\ attr_safe v = true.
Proof.
  exists (html_escape (ensure dest)). split; [reflexivity|]. split.
  - unfold input_suffix. apply until_quote_app. apply no_quote. apply escape_safe.
  - split; [reflexivity|apply escape_safe].
Qed.

(* before the fix: slash x question-mark quote greater-than less-than script greater-than *)
Theorem old_input_refuted : exists dest,
  attr_safe (until_quote ((fun x => x) dest ++ input_suffix)) = true /\
  until_quote ((fun x => x) dest ++ input_suffix) <> dest.
Proof.
  exists [47;120;63;34;62;60;115;99;114;105;112;116;62]. split; [vm_compute; reflexivity|].
  vm_compute. discriminate.
Qed.

(* ---- html/template field escapers by context *)
Lemma flat_map_has_false (p : N -> bool) (e : N -> bs) s :
  (forall c, has p (e c) = false) -> has p (flat_map e s) = false.
Proof.
  intros H. induction s as [|c r IH]; cbn [flat_map]; [reflexivity|].
  rewrite has_app, H, IH. reflexivity.
Qed.

Lemma tmpl_esc_safe c : has markup_byte (tmpl_esc c) = false.
Proof. unfold tmpl_esc. destruct (c =? 43); [reflexivity|apply esc_safe]. Qed.

Theorem tmpl_escape_safe s : attr_safe (tmpl_escape s) = true.
Proof. unfold attr_safe, tmpl_escape. apply negb_true_iff. apply flat_map_has_false. exact tmpl_esc_safe. Qed.

Lemma nospace_esc_safe c : has unq_break (nospace_esc c) = false.
Proof.
  unfold nospace_esc.
  repeat match goal with
  | |- context [if ?x =? ?k then _ else _] => destruct (x =? k) eqn:?; [reflexivity|]
  end.
  cbn [has]. unfold unq_break.
  repeat match goal with H : (_ =? _) = false |- _ => rewrite H; clear H end.
  reflexivity.
Qed.

Lemma nospace_esc_nonempty c : nospace_esc c <> [].
Proof.
  unfold nospace_esc.
  repeat match goal with
  | |- context [if ?x =? ?k then _ else _] => destruct (x =? k); [discriminate|]
  end.
  discriminate.
Qed.

Theorem nospace_escape_safe s : unq_safe (nospace_escape s) = true.
Proof.
  unfold unq_safe, nospace_escape. destruct s as [|c r]; [reflexivity|].
  apply andb_true_iff. split.
  - apply negb_true_iff. apply flat_map_has_false. exact nospace_esc_safe.
  - cbn [flat_map]. destruct (nospace_esc c) eqn:E; [exfalso; exact (nospace_esc_nonempty c E)|reflexivity].
Qed.

Lemma markup_is_break c : markup_byte c = true -> unq_break c = true.
Proof.
  unfold markup_byte, unq_break.
  destruct (c =? 34), (c =? 60), (c =? 62), (c =? 39); cbn [orb]; intros H; try discriminate;
    repeat (rewrite ?orb_true_r; cbn [orb]); reflexivity.
Qed.

Lemma has_weaken (p q : N -> bool) s : (forall c, p c = true -> q c = true) -> has q s = false -> has p s = false.
Proof.
  intros PQ. induction s as [|c r IH]; cbn [has]; [reflexivity|]. intros H.
  apply orb_false_iff in H. destruct H as [H1 H2]. rewrite (IH H2), orb_false_r.
  destruct (p c) eqn:E; [|reflexivity]. rewrite (PQ c E) in H1. discriminate.
Qed.

Lemma unq_safe_attr_safe s : unq_safe s = true -> attr_safe s = true.
Proof.
  unfold unq_safe, attr_safe. intros H. apply andb_true_iff in H. destruct H as [H _].
  apply negb_true_iff in H. apply negb_true_iff. eapply has_weaken; [exact markup_is_break|exact H].
Qed.

Theorem field_contexts_safe c s :
  attr_safe (render_field c s) = true /\
  (c = CtxAttrUnquoted -> unq_safe (render_field c s) = true).
Proof.
  split.
  - destruct c; cbn [render_field]; try apply tmpl_escape_safe.
    apply unq_safe_attr_safe. apply nospace_escape_safe.
  - intros ->. apply nospace_escape_safe.
Qed.

(* the tokenizer's view: the quoted value is exactly the escaped text, whatever follows the closing quote *)
Theorem quoted_value_is_field s rest :
  until_quote (tmpl_escape s ++ 34 :: rest) = tmpl_escape s.
Proof. apply until_quote_app. apply no_quote. apply tmpl_escape_safe. Qed.

Lemma unq_end_is_break c : unq_end c = true -> unq_break c = true.
Proof.
  unfold unq_end, unq_break.
  destruct (c =? 9), (c =? 10), (c =? 12), (c =? 13), (c =? 32), (c =? 62); cbn [orb]; intros H; try discriminate;
    repeat (rewrite ?orb_true_r; cbn [orb]); reflexivity.
Qed.

Lemma until_unq_end_app a c b : has unq_break a = false -> unq_end c = true ->
  until_unq_end (a ++ c :: b) = a.
Proof.
  intros Ha Hc. induction a as [|x a IH]; cbn [app until_unq_end].
  - rewrite Hc. reflexivity.
  - cbn [has] in Ha. apply orb_false_iff in Ha. destruct Ha as [H1 H2].
    destruct (unq_end x) eqn:E; [rewrite (unq_end_is_break x E) in H1; discriminate|].
    rewrite (IH H2). reflexivity.
Qed.

(* the unquoted value a tokenizer reads is exactly the escaped text (never empty), whatever follows *)
Theorem unquoted_value_is_field s c rest : unq_end c = true ->
  until_unq_end (nospace_escape s ++ c :: rest) = nospace_escape s /\ nospace_escape s <> [].
Proof.
  intros Hc. pose proof (nospace_escape_safe s) as H. unfold unq_safe in H.
  apply andb_true_iff in H. destruct H as [H1 H2]. apply negb_true_iff in H1. split.
  - apply until_unq_end_app; assumption.
  - intros E. rewrite E in H2. discriminate.
Qed.

(* ---- responses: a response rendered as a document has no Raw segment, and the markup bytes of a
   Raw-free body are those of its trusted text alone *)
Lemma skeleton_app a b : skeleton (a ++ b) = skeleton a ++ skeleton b.
Proof. unfold skeleton. apply filter_app. Qed.

Lemma has_false_filter p s : has p s = false -> filter p s = [].
Proof.
  induction s as [|c r IH]; cbn [has filter]; intros H; [reflexivity|].
  apply orb_false_iff in H. destruct H as [H1 H2]. rewrite H1. auto.
Qed.

Lemma escaped_skeleton s : skeleton (html_escape s) = [].
Proof.
  unfold skeleton. apply has_false_filter.
  pose proof (escape_safe s) as H. unfold attr_safe in H. apply negb_true_iff in H. exact H.
Qed.

Lemma field_skeleton c s : skeleton (render_field c s) = [].
Proof.
  unfold skeleton. apply has_false_filter.
  destruct (field_contexts_safe c s) as [H _]. unfold attr_safe in H. apply negb_true_iff in H. exact H.
Qed.

Theorem raw_free_skeleton l : raw_free l = true ->
  skeleton (render l) = skeleton (render (strip l)).
Proof.
  unfold raw_free. rewrite negb_true_iff.
  induction l as [|g r IH]; cbn [existsb]; intros H; [reflexivity|].
  apply orb_false_iff in H. destruct H as [Hg Hr].
  unfold render in *. cbn [flat_map strip filter].
  destruct g as [t|s|c s|s]; cbn [is_raw is_trusted render_seg] in *; try discriminate.
  - cbn [flat_map render_seg]. rewrite !skeleton_app. f_equal. apply IH. exact Hr.
  - rewrite skeleton_app, escaped_skeleton. cbn [app]. apply IH. exact Hr.
  - rewrite skeleton_app, field_skeleton. cbn [app]. apply IH. exact Hr.
Qed.

Lemma page_raw_free tpl tail : raw_free (page tpl tail) = true.
Proof.
  unfold raw_free, page. rewrite negb_true_iff, existsb_app.
  cbn [existsb is_raw]. rewrite !orb_false_r.
  induction tpl as [|p r IH]; cbn [flat_map existsb app is_raw]; [reflexivity|].
  destruct (snd p); cbn [seg_of_pfield is_raw orb]; exact IH.
Qed.

Lemma digit_range n : 48 <= digit n /\ digit n <= 57.
Proof.
  unfold digit. assert (H : n mod 10 < 10) by (apply N.mod_upper_bound; discriminate).
  set (m := n mod 10) in *. clearbody m. lia.
Qed.

Lemma failure_line_not_document code status msg :
  sniffs_html (render (failure_line code status msg)) = false.
Proof.
  unfold failure_line, render, code_bytes. cbn [flat_map render_seg app].
  pose proof (digit_range (code / 100)) as [A B].
  unfold sniffs_html. cbn [skip_ws].
  assert (W : is_ws (digit (code / 100)) = false).
  { unfold is_ws. rewrite !orb_false_iff. repeat split; apply N.eqb_neq; lia. }
  rewrite W. apply N.eqb_neq. lia.
Qed.

Theorem document_fields_inert admin_port accept_html code status msg tpl tail :
  let r := failure_response admin_port accept_html code status msg (page tpl tail) in
  rendered_as_document r = true ->
  raw_free (r_body r) = true /\
  skeleton (render (r_body r)) = skeleton (render (strip (r_body r))).
Proof.
  intros r H.
  assert (RF : raw_free (r_body r) = true).
  { subst r. unfold failure_response in *.
    destruct admin_port; [cbn in H; discriminate|].
    destruct (accept_html && (code =? 401)).
    - cbn [r_body]. apply page_raw_free.
    - unfold rendered_as_document in H. cbn [r_ctype r_body] in H.
      rewrite failure_line_not_document in H. discriminate. }
  split; [exact RF|]. apply raw_free_skeleton. exact RF.
Qed.

Theorem page_fields_inert ct tpl tail :
  skeleton (render (r_body (mkResp ct (page tpl tail)))) =
  skeleton (render (strip (r_body (mkResp ct (page tpl tail))))).
Proof. cbn [r_body]. apply raw_free_skeleton. apply page_raw_free. Qed.

(* the failure line declared text/html for browsers: the detail becomes markup *)
Theorem typed_failure_refuted : exists status msg,
  let r := failure_response_typed false true 400 status msg (page [] []) in
  rendered_as_document r = true /\
  skeleton (render (r_body r)) <> skeleton (render (strip (r_body r))).
Proof.
  exists [66;97;100], [60;105;109;103;62]. split; [reflexivity|]. vm_compute. discriminate.
Qed.

(* a Raw field inside a page (a template.HTML conversion of request text) breaks the statement as well *)
Theorem raw_field_refuted : exists s,
  skeleton (render [Trusted [60;98;62]; Raw s; Trusted [60;47;98;62]]) <>
  skeleton (render (strip [Trusted [60;98;62]; Raw s; Trusted [60;47;98;62]])).
Proof. exists [60;105;62]. vm_compute. discriminate. Qed.

(* ---- hand-built attributes with a quoting mode *)
Lemma until_squote_app a b : has (fun c => c =? 39) a = false -> until_squote (a ++ 39 :: b) = a.
Proof.
  induction a as [|x a IH]; cbn [has app until_squote]; intros H.
  - reflexivity.
  - apply orb_false_iff in H. destruct H as [H1 H2]. rewrite H1, (IH H2). reflexivity.
Qed.

Lemma no_squote s : attr_safe s = true -> has (fun c => c =? 39) s = false.
Proof.
  unfold attr_safe. rewrite negb_true_iff. induction s as [|c r IH]; cbn [has]; auto.
  intros H. apply orb_false_iff in H. destruct H as [H1 H2]. rewrite (IH H2).
  unfold markup_byte in H1. rewrite !orb_false_iff in H1. destruct H1 as [_ A]. rewrite A. reflexivity.
Qed.

Theorem hand_attr_quoted_inert s rest :
  attr_read (hand_attr QDouble s ++ rest) = html_escape s /\
  attr_read (hand_attr QSingle s ++ rest) = html_escape s.
Proof.
  split; unfold hand_attr, attr_read; cbn [app]; rewrite <- app_assoc; cbn [app N.eqb].
  - apply until_quote_app. apply no_quote. apply escape_safe.
  - apply until_squote_app. apply no_squote. apply escape_safe.
Qed.

Lemma esc_no_unq_end c : unq_end c = false -> has unq_end (esc c) = false.
Proof.
  intros H. unfold esc.
  destruct (c =? 0) eqn:E0; [reflexivity|].
  destruct (c =? 34) eqn:E1; [reflexivity|].
  destruct (c =? 39) eqn:E2; [reflexivity|].
  destruct (c =? 38) eqn:E3; [reflexivity|].
  destruct (c =? 60) eqn:E4; [reflexivity|].
  destruct (c =? 62) eqn:E5; [reflexivity|].
  cbn [has]. rewrite H. reflexivity.
Qed.

Lemma escape_no_unq_end s : has unq_end s = false -> has unq_end (html_escape s) = false.
Proof.
  unfold html_escape. induction s as [|c r IH]; cbn [has flat_map]; intros H; [reflexivity|].
  apply orb_false_iff in H. destruct H as [H1 H2].
  rewrite has_app, (esc_no_unq_end c H1), (IH H2). reflexivity.
Qed.

Lemma until_unq_end_app' a c b : has unq_end a = false -> unq_end c = true ->
  until_unq_end (a ++ c :: b) = a.
Proof.
  intros Ha Hc. induction a as [|x a IH]; cbn [app until_unq_end].
  - rewrite Hc. reflexivity.
  - cbn [has] in Ha. apply orb_false_iff in Ha. destruct Ha as [H1 H2].
    rewrite H1, (IH H2). reflexivity.
Qed.

Lemma attr_read_unquoted t : match t with [] => True | c :: _ => (c =? 34) = false /\ (c =? 39) = false end ->
  attr_read t = until_unq_end t.
Proof.
  destruct t as [|c r]; [reflexivity|]. intros [A B]. unfold attr_read. rewrite A, B. reflexivity.
Qed.

Lemma unq_end_not_quote c : unq_end c = true -> (c =? 34) = false /\ (c =? 39) = false.
Proof.
  unfold unq_end. intros H. split; apply N.eqb_neq; intros ->; cbn in H; discriminate.
Qed.

Lemma safe_head_not_quote s t : attr_safe s = true ->
  match t with [] => True | c :: _ => (c =? 34) = false /\ (c =? 39) = false end ->
  match s ++ t with [] => True | c :: _ => (c =? 34) = false /\ (c =? 39) = false end.
Proof.
  destruct s as [|c r]; [intros _ H; exact H|]. intros H _. cbn [app].
  unfold attr_safe in H. apply negb_true_iff in H. cbn [has] in H. apply orb_false_iff in H.
  destruct H as [H _]. unfold markup_byte in H. rewrite !orb_false_iff in H.
  destruct H as [[[A _] _] B]. split; assumption.
Qed.

(* an unquoted hand-built attribute is read whole exactly when the text has no blank and no '>' ... *)
Theorem hand_attr_unquoted_blankfree s c rest : has unq_end s = false -> unq_end c = true ->
  attr_read (hand_attr QUnquoted s ++ c :: rest) = html_escape s.
Proof.
  intros Hs Hc. unfold hand_attr. rewrite attr_read_unquoted.
  - apply until_unq_end_app'; [apply escape_no_unq_end; exact Hs|exact Hc].
  - apply safe_head_not_quote; [apply escape_safe|]. apply unq_end_not_quote. exact Hc.
Qed.

(* ... and not otherwise: HTMLEscapeString leaves blanks alone, a blank ends the value, the rest of the
   request text is read as further attributes of the element *)
Theorem hand_attr_unquoted_refuted : exists s,
  attr_read (hand_attr QUnquoted s ++ [62]) <> html_escape s /\
  unq_safe (html_escape s) = false /\
  attr_read (hand_attr QDouble s ++ [62]) = html_escape s.
Proof. exists x_onx. split; [vm_compute; discriminate|]. split; reflexivity. Qed.


(* ---- stored text and parts of a field *)
Lemma strip_page_render tpl tail : render (strip (page tpl tail)) = flat_map fst tpl ++ tail.
Proof.
  unfold page, render. induction tpl as [|[t f] r IH]; cbn [flat_map app strip filter is_trusted fst snd].
  - cbn. rewrite app_nil_r. reflexivity.
  - destruct f; cbn [seg_of_pfield is_trusted flat_map render_seg app]; unfold strip in IH; rewrite IH, app_assoc; reflexivity.
Qed.

Theorem stored_fields_inert decode history row c tail ct :
  let st := store_of decode history in
  skeleton (render (r_body (mkResp ct (stored_page row c st tail)))) =
  skeleton (flat_map (fun _ => row) st ++ tail).
Proof.
  cbn zeta. unfold stored_page. rewrite page_fields_inert. cbn [r_body]. rewrite strip_page_render.
  f_equal. f_equal. induction (store_of decode history) as [|s r IH]; [reflexivity|].
  cbn [map flat_map fst]. rewrite IH. reflexivity.
Qed.

Theorem stored_raw_refuted : exists decode history,
  let st := store_of decode history in
  skeleton (render (stored_page_raw [60;116;100;62] st [])) <>
  skeleton (render (strip (stored_page_raw [60;116;100;62] st []))).
Proof. exists (fun r => [r]), [[60;105;62]]. vm_compute. discriminate. Qed.

Lemma before_at_wrap p d : has (fun c => c =? 64) p = false -> before_at (p ++ 64 :: d) = p.
Proof.
  induction p as [|x p IH]; cbn [has app before_at]; intros H.
  - reflexivity.
  - apply orb_false_iff in H. destruct H as [H1 H2]. rewrite H1, (IH H2). reflexivity.
Qed.

Theorem part_quoted_inert (part : bs -> bs) s rest :
  attr_read (hand_attr QDouble (part s) ++ rest) = html_escape (part s) /\
  attr_read (hand_attr QSingle (part s) ++ rest) = html_escape (part s).
Proof. apply hand_attr_quoted_inert. Qed.

Theorem part_unquoted_refuted : exists s,
  let p := before_at s in
  attr_read (hand_attr QUnquoted p ++ [62]) <> html_escape p /\
  unq_safe (html_escape p) = false /\
  html_escape s = s /\
  attr_read (hand_attr QDouble p ++ [62]) = html_escape p.
Proof. exists x_onx_mail. cbn zeta. split; [vm_compute; discriminate|]. repeat split; reflexivity. Qed.
