From KM Require Import Base.Bytes Model.Html.

Lemma esc_safe c : has markup_byte (esc c) = false.
Proof.
  unfold esc.
  destruct (c =? 0) eqn:E0; [reflexivity|].
  destruct (c =? 34) eqn:E1; [reflexivity|].
  destruct (c =? 39) eqn:E2; [reflexivity|].
  destruct (c =? 38) eqn:E3; [reflexivity|].
  destruct (c =? 60) eqn:E4; [reflexivity|].
  destruct (c =? 62) eqn:E5; [reflexivity|].
  cbn [has]. unfold markup_byte. rewrite E1, E2, E4, E5. reflexivity.
Qed.

Lemma has_app p a b : has p (a ++ b) = has p a || has p b.
Proof. induction a as [|x a IH]; cbn [has app]; [reflexivity|]. rewrite IH, orb_assoc. reflexivity. Qed.

Theorem escape_safe s : attr_safe (html_escape s) = true.
Proof.
  unfold attr_safe, html_escape. apply negb_true_iff.
  induction s as [|c r IH]; cbn [flat_map]; [reflexivity|].
  rewrite has_app, esc_safe, IH. reflexivity.
Qed.

Lemma until_quote_app a b : has (fun c => c =? 34) a = false -> until_quote (a ++ 34 :: b) = a.
Proof.
  induction a as [|x a IH]; cbn [has app until_quote]; intros H.
  - reflexivity.
  - apply orb_false_iff in H. destruct H as [H1 H2]. rewrite H1, (IH H2). reflexivity.
Qed.

Lemma no_quote s : attr_safe s = true -> has (fun c => c =? 34) s = false.
Proof.
  unfold attr_safe. rewrite negb_true_iff. induction s as [|c r IH]; cbn [has]; auto.
  intros H. apply orb_false_iff in H. destruct H as [H1 H2]. rewrite (IH H2).
  unfold markup_byte in H1. rewrite !orb_false_iff in H1. destruct H1 as [[[A _] _] _]. rewrite A. reflexivity.
Qed.

(* the attribute value a tokenizer reads is exactly the escaped text: the destination can
   neither end the attribute nor add one *)
Theorem value_is_escaped_text ensure dest :
  exists v, hidden_input ensure dest = input_prefix ++ v ++ input_suffix /\
            until_quote (v ++ input_suffix) = v /\ v = html_escape (ensure dest) /\ attr_safe v = true.
Proof.
  exists (html_escape (ensure dest)). split; [reflexivity|]. split.
  - unfold input_suffix. apply until_quote_app. apply no_quote. apply escape_safe.
  - split; [reflexivity|apply escape_safe].
Qed.

(* before the fix: slash x question-mark quote greater-than less-than script greater-than *)
Theorem old_input_refuted : exists dest,
  attr_safe (until_quote ((fun x => x) dest ++ input_suffix)) = true /\
  until_quote ((fun x => x) dest ++ input_suffix) <> dest.
Proof.
  exists [47;120;63;34;62;60;115;99;114;105;112;116;62]. split; [vm_compute; reflexivity|].
  vm_compute. discriminate.
Qed.
