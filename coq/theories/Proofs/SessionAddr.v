(* C05 — the client address of a request is no input of any second-factor decision (Model.SessionAddr) *)
From Coq Require Import List NArith ZArith Bool Lia.
From KM Require Import Base.Tactics Model.Session Proofs.Session Model.SessionAddr.
Import ListNotations.

(* ---------------------------------------------------------------- the session machine *)
Lemma step_at_addr k s a a' o : step_at k s (a, o) = step_at k s (a', o).
Proof. reflexivity. Qed.

Lemma run_at_ops k : forall l s, run_at k s l = run k s (ops_of l).
Proof.
  induction l as [|[a o] t IH]; intros s; [reflexivity|].
  cbn [run_at ops_of map snd run step_at]. destruct (step k s o) as [s1 out].
  fold (ops_of t). rewrite IH. reflexivity.
Qed.

Lemma run_obs_at_ops k : forall l s, run_obs_at k s l = run_obs k s (ops_of l).
Proof.
  induction l as [|[a o] t IH]; intros s; [reflexivity|].
  cbn [run_obs_at ops_of map snd run_obs step_obs_at]. destruct (step_obs k s o) as [s1 ob].
  fold (ops_of t). rewrite IH. reflexivity.
Qed.

(* histories that agree on their operations give the same outputs, the same observations and the
   same final state, whatever addresses their requests come from *)
Lemma address_irrelevant k s l l' :
  ops_of l = ops_of l' -> run_at k s l = run_at k s l' /\ run_obs_at k s l = run_obs_at k s l'.
Proof. intros H. rewrite !run_at_ops, !run_obs_at_ops, H. split; reflexivity. Qed.

(* in particular: re-addressing the requests of a history in any way (per position and old address) *)
Lemma ops_of_readdress (f : nat -> addr -> addr) : forall l i,
  ops_of (map (fun p => (f (fst p) (fst (snd p)), snd (snd p))) (combine (seq i (length l)) l)) = ops_of l.
Proof.
  induction l as [|[a o] t IH]; intros i; [reflexivity|].
  cbn [length seq combine map ops_of snd fst]. f_equal. exact (IH (S i)).
Qed.

(* ---------------------------------------------------------------- the TOTP replay guard *)
Section Guard.
Variable K : Type.
Variable keq : K -> K -> bool.
Variable key : N -> addr -> K.
Hypothesis keq_spec : forall x y, keq x y = true <-> x = y.

(* the guard never goes down, for any user and address, whatever the request *)
Lemma gstep_mono s r u a : (glast key s u a <= glast key (fst (gstep keq key s r)) u a)%Z.
Proof.
  unfold gstep. destruct (g_code r) as [c|]; [|cbn [fst]; lia].
  destruct (c <=? glast key s (g_user r) (g_addr r))%Z eqn:E; [cbn [fst]; lia|].
  apply Z.leb_gt in E.
  destruct (negb (g_cached r) && g_fault r); [cbn [fst]; lia|].
  cbn [fst]. unfold glast in *. cbn [persisted mem].
  assert (Hm : (mem s (key u a) <= (if keq (key u a) (key (g_user r) (g_addr r)) then c else mem s (key u a)))%Z).
  { destruct (keq (key u a) (key (g_user r) (g_addr r))) eqn:Ek; [|lia].
    apply keq_spec in Ek. rewrite Ek. lia. }
  assert (Hp : (persisted s u <= (if g_cached r then persisted s
                                   else fun x => if N.eqb x (g_user r) then c else persisted s x) u)%Z).
  { destruct (g_cached r); [lia|]. destruct (N.eqb u (g_user r)) eqn:Eu; [|lia].
    apply N.eqb_eq in Eu. subst u. lia. }
  lia.
Qed.

Lemma grun_mono : forall l s u a, (glast key s u a <= glast key (fst (grun keq key s l)) u a)%Z.
Proof.
  induction l as [|r t IH]; intros s u a; [cbn; lia|].
  cbn [grun]. pose proof (gstep_mono s r u a) as H1. destruct (gstep keq key s r) as [s1 b].
  pose proof (IH s1 u a) as H2. destruct (grun keq key s1 t) as [s2 bs]. cbn [fst] in *. lia.
Qed.

(* an accepted request raises the in-memory counter under ITS key to the accepted step *)
Lemma gstep_accept s r :
  snd (gstep keq key s r) = true ->
  exists c, g_code r = Some c /\ mem (fst (gstep keq key s r)) (key (g_user r) (g_addr r)) = c.
Proof.
  unfold gstep. destruct (g_code r) as [c|]; [|discriminate].
  destruct (c <=? glast key s (g_user r) (g_addr r))%Z; [discriminate|].
  destruct (negb (g_cached r) && g_fault r); [discriminate|].
  intros _. exists c. split; [reflexivity|]. cbn [fst mem].
  assert (E : keq (key (g_user r) (g_addr r)) (key (g_user r) (g_addr r)) = true) by (apply keq_spec; reflexivity).
  rewrite E. reflexivity.
Qed.

Lemma gstep_refuse s r c :
  g_code r = Some c -> (c <= glast key s (g_user r) (g_addr r))%Z -> snd (gstep keq key s r) = false.
Proof.
  intros Hc Hl. unfold gstep. rewrite Hc. apply Z.leb_le in Hl. rewrite Hl. reflexivity.
Qed.

(* the key does not look at the address *)
Hypothesis key_ignores_addr : forall u a a', key u a = key u a'.

Lemma guard_once s0 pre r post r' :
  g_user r' = g_user r -> g_code r' = g_code r ->
  let s1 := fst (grun keq key s0 pre) in
  snd (gstep keq key s1 r) = true ->
  let s2 := fst (grun keq key (fst (gstep keq key s1 r)) post) in
  snd (gstep keq key s2 r') = false.
Proof.
  intros Hu Hc s1 Hacc s2.
  destruct (gstep_accept s1 r Hacc) as [c [Hcode Hmem]].
  apply (gstep_refuse s2 r' c); [congruence|].
  pose proof (grun_mono post (fst (gstep keq key s1 r)) (g_user r') (g_addr r')) as Hm. fold s2 in Hm.
  assert (Hge : (c <= glast key (fst (gstep keq key s1 r)) (g_user r') (g_addr r'))%Z).
  { unfold glast. rewrite Hu, (key_ignores_addr (g_user r) (g_addr r') (g_addr r)), Hmem. lia. }
  lia.
Qed.

(* the same over the list of answers: of two requests of a history that present the same step of the
   same user at most one is accepted *)
Lemma guard_once_nth : forall l s0 i j r r',
  (i < j)%nat -> nth_error l i = Some r -> nth_error l j = Some r' ->
  g_user r' = g_user r -> g_code r' = g_code r ->
  nth_error (snd (grun keq key s0 l)) i = Some true ->
  nth_error (snd (grun keq key s0 l)) j = Some false.
Proof.
  induction l as [|x t IH]; intros s0 i j r r' Hij Hi Hj Hu Hc Hacc; [destruct i; discriminate|].
  destruct j as [|j]; [lia|]. cbn [grun] in *.
  destruct (gstep keq key s0 x) as [s1 b] eqn:Ex. destruct (grun keq key s1 t) as [s2 bs] eqn:Et.
  cbn [snd nth_error] in *. destruct i as [|i].
  - cbn [nth_error] in Hi, Hacc. inversion Hi; subst x. inversion Hacc; subst b. clear Hi Hacc.
    (* split t at j *)
    assert (Hsplit : exists post rest, t = post ++ r' :: rest /\ length post = j).
    { apply nth_error_split in Hj. destruct Hj as [l1 [l2 [E L]]]. eauto. }
    destruct Hsplit as [post [rest [Et' Lp]]]. subst t.
    assert (G : forall l1 l2 s, snd (grun keq key s (l1 ++ l2)) =
                                 snd (grun keq key s l1) ++ snd (grun keq key (fst (grun keq key s l1)) l2)).
    { induction l1 as [|y l1 IH1]; intros l2 s; [cbn; destruct (grun keq key s l2); reflexivity|].
      cbn [app grun]. destruct (gstep keq key s y) as [sy by_]. specialize (IH1 l2 sy).
      destruct (grun keq key sy (l1 ++ l2)) as [sa ba]. destruct (grun keq key sy l1) as [sb bb].
      cbn [fst snd] in *. rewrite IH1. reflexivity. }
    assert (Lb : forall l s, length (snd (grun keq key s l)) = length l).
    { induction l as [|y l IHl]; intros s; [reflexivity|]. cbn [grun]. destruct (gstep keq key s y) as [sy by_].
      specialize (IHl sy). destruct (grun keq key sy l). cbn [snd length] in *. lia. }
    pose proof (G post (r' :: rest) s1) as G1. rewrite Et in G1. cbn [snd] in G1. rewrite G1.
    rewrite nth_error_app2; rewrite Lb; [|lia]. rewrite Lp, Nat.sub_diag.
    cbn [grun]. pose proof (guard_once s0 [] r post r' Hu Hc) as Once. cbn [grun fst] in Once.
    rewrite Ex in Once. cbn [fst snd] in Once. specialize (Once eq_refl).
    destruct (gstep keq key (fst (grun keq key s1 post)) r') as [s3 b3]. cbn [snd] in Once. subst b3.
    destruct (grun keq key s3 rest). reflexivity.
  - cbn [nth_error] in Hi, Hacc.
    pose proof (IH s1 i j r r' ltac:(lia) Hi Hj Hu Hc) as IH'. rewrite Et in IH'. cbn [snd] in IH'. exact (IH' Hacc).
Qed.
End Guard.

(* the two key functions *)
Lemma pair_eqb_spec x y : pair_eqb x y = true <-> x = y.
Proof.
  destruct x as [a b], y as [c d]. unfold pair_eqb. cbn [fst snd]. rewrite andb_true_iff, !N.eqb_eq.
  split; [intros [-> ->]; reflexivity|intros H; inversion H; auto].
Qed.

Lemma key_user_ignores_addr u a a' : key_user u a = key_user u a'.
Proof. reflexivity. Qed.

(* validateUserTOTP as it is (key = the user): an accepted step is never accepted again *)
Lemma totp_guard_once pre r post r' :
  g_user r' = g_user r -> g_code r' = g_code r ->
  let s1 := fst (grun N.eqb key_user ginit pre) in
  snd (gstep N.eqb key_user s1 r) = true ->
  let s2 := fst (grun N.eqb key_user (fst (gstep N.eqb key_user s1 r)) post) in
  snd (gstep N.eqb key_user s2 r') = false.
Proof. exact (guard_once N N.eqb key_user N.eqb_eq key_user_ignores_addr ginit pre r post r'). Qed.

(* the in-memory record keyed by (user, client address): the boolean equality is a correct one, only the
   hypothesis on the key fails — and the code of user 1 for step 100 is accepted from address 0 and again
   from address 1 while profiles come from the cache; under the user key the second request is refused *)
Lemma guard_by_address :
  (forall x y, pair_eqb x y = true <-> x = y) /\
  (exists pre r post r',
     g_user r' = g_user r /\ g_code r' = g_code r /\ g_code r <> None /\
     let s1 := fst (grun pair_eqb key_user_addr ginit pre) in
     snd (gstep pair_eqb key_user_addr s1 r) = true /\
     snd (gstep pair_eqb key_user_addr
            (fst (grun pair_eqb key_user_addr (fst (gstep pair_eqb key_user_addr s1 r)) post)) r') = true) /\
  snd (grun pair_eqb key_user_addr ginit w_guard_two_addresses) = [true; true] /\
  snd (grun N.eqb key_user ginit w_guard_two_addresses) = [true; false].
Proof.
  split; [exact pair_eqb_spec|]. split.
  - exists [], (nth 0 w_guard_two_addresses (Build_greq 0%N 0%N false false None)), [],
           (nth 1 w_guard_two_addresses (Build_greq 0%N 0%N false false None)).
    vm_compute. repeat split; discriminate.
  - split; vm_compute; reflexivity.
Qed.


(* ---------------------------------------------------------------- the guard of Model.Session's Totp step is this guard
   under the user key: `last_totp` is the value the guard compares with (the larger of the two counters),
   `saved_totp` the persisted counter *)
Lemma g_rel_init : g_rel init ginit.
Proof. intros u a. split; reflexivity. Qed.

Lemma totp_step_is_guard k cert fault s cs u l stp g a :
  totp_monotone k = true -> totp_mem_guard k = true ->
  auth k s cert cs any_mask = Some (u, l) ->
  has_totp (devs k u) = true -> (totp_step (now s) - 1 <= stp <= totp_step (now s) + 1)%Z ->
  g_rel s g ->
  let r := {| g_user := u; g_addr := a; g_cached := from_cache k; g_fault := fault; g_code := Some stp |} in
  let s' := fst (step_req k cert fault s (Totp cs (TCode u stp))) in
  g_rel s' (fst (gstep N.eqb key_user g r)) /\
  (snd (gstep N.eqb key_user g r) = true <-> spent s' = OtTotp u stp :: spent s) /\
  (snd (gstep N.eqb key_user g r) = false -> s' = s).
Proof.
  intros Hm Hg Ha Hd Hwin HR r s'.
  assert (Hw : (has_totp (devs k u) && N.eqb u u && (totp_step (now s) - 1 <=? stp)%Z && (stp <=? totp_step (now s) + 1)%Z) = true).
  { rewrite Hd, N.eqb_refl. cbn [andb]. apply andb_true_iff. split; apply Z.leb_le; lia. }
  subst s'. cbn [step_req]. rewrite Ha, Hw, Hm. unfold gstep. cbn [g_code g_user g_addr g_cached g_fault r].
  destruct (HR u a) as [HL HS]. rewrite <- HL.
  destruct (stp <=? last_totp s u)%Z eqn:E.
  { cbn [fst snd]. split; [exact HR|]. split; [|reflexivity]. split; [discriminate|].
    intros H. exfalso. apply (f_equal (@length _)) in H. cbn [length] in H. lia. }
  rewrite (andb_comm fault). destruct (negb (from_cache k) && fault) eqn:F.
  { cbn [fst snd]. split; [exact HR|]. split; [|reflexivity]. split; [discriminate|].
    intros H. exfalso. apply (f_equal (@length _)) in H. cbn [length] in H. lia. }
  apply Z.leb_gt in E. rewrite Hg.
  match goal with |- context [upgrade k ?s1 u cs ?lvl] => set (s1' := s1); destruct (upgrade k s1' u cs lvl) as [s2 out] eqn:HU end.
  pose proof (upgrade_fields _ _ _ _ _ _ _ HU) as [_ [_ [_ [_ [_ [HLt [_ [_ [HSp _]]]]]]]]].
  pose proof (upgrade_saved_totp _ _ _ _ _ _ _ HU) as HSv.
  cbn [fst snd set_ghost spent last_totp saved_totp]. split; [|split; [|discriminate]].
  - intros v b. cbn [last_totp saved_totp set_ghost]. rewrite HLt, HSv. destruct (HR v b) as [HLv HSv']. unfold glast, key_user in *. cbn [persisted mem].
    subst s1'. destruct (from_cache k); cbn [last_totp saved_totp set_totp]; unfold upd.
    + destruct (N.eqb v u) eqn:Ev.
      * apply N.eqb_eq in Ev. subst v. split; [|exact HSv']. lia.
      * split; [exact HLv|exact HSv'].
    + destruct (N.eqb v u) eqn:Ev.
      * split; [lia|reflexivity].
      * split; [exact HLv|exact HSv'].
  - split; [intros _|reflexivity]. rewrite HSp. subst s1'. destruct (from_cache k); reflexivity.
Qed.
