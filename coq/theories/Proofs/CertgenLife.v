(* C01 over the life of one server process (Model/CertgenLife.v): the verdict on a request depends on the
   presented credential and the configuration only, never on earlier requests; the accepted-algorithm set
   follows the current key list, so whatever came before an unseal, the server's own sessions are served *)
From Coq Require Import ZArith.
From KM Require Import Base.Bytes Base.Tactics Model.Auth Model.Certgen Model.CertgenLife
                       Proofs.CertgenSpec Proofs.CertgenAuth Proofs.Certgen.
From KM Require Model.Seal Proofs.Seal.
Open Scope N_scope.

Section Thms.
Variable alg_of : N -> N.
Variable expand : bs -> bs -> option bs.
Variable now : Z.
Variable life : Z.

Notation step := (step alg_of expand now life).
Notation run := (run alg_of expand now life).
Notation see := (see alg_of).
Local Opaque N.lor.

(* ---- no request leaves anything behind *)
Lemma step_request_srv lim p o : is_inject o = false ->
  p_srv (fst (step lim p o)) = p_srv p /\ p_cfg (fst (step lim p o)) = p_cfg p.
Proof.
  intros NI. destruct o as [u ok|ref bit ok|ref q|ref|i]; simpl in *; try discriminate.
  - destruct (s_sealed (p_srv p)); [split; reflexivity|]. destruct ok; split; reflexivity.
  - destruct (s_sealed (p_srv p)); [split; reflexivity|].
    destruct (nth_error (p_minted p) ref); [|split; reflexivity].
    destruct (check_auth _ _ _ _); [|split; reflexivity]. destruct ok; split; reflexivity.
  - split; reflexivity.
  - split; reflexivity.
Qed.

Lemma step_cfg lim p o : p_cfg (fst (step lim p o)) = p_cfg p.
Proof.
  destruct (is_inject o) eqn:E; [|apply step_request_srv, E].
  destruct o; try discriminate. simpl. destruct (Seal.inject _ _ _). reflexivity.
Qed.

Lemma step_minted lim p o : exists m, p_minted (fst (step lim p o)) = p_minted p ++ [m].
Proof.
  destruct o as [u ok|ref bit ok|ref q|ref|i]; simpl.
  - destruct (s_sealed (p_srv p)); [eexists; reflexivity|]. destruct ok; eexists; reflexivity.
  - destruct (s_sealed (p_srv p)); [eexists; reflexivity|].
    destruct (nth_error (p_minted p) ref); [|eexists; reflexivity].
    destruct (check_auth _ _ _ _); [|eexists; reflexivity]. destruct ok; eexists; reflexivity.
  - eexists; reflexivity.
  - eexists; reflexivity.
  - destruct (Seal.inject _ _ _). eexists; reflexivity.
Qed.

Lemma run_requests_srv lim h : forall p, (forall o, In o h -> is_inject o = false) ->
  p_srv (run lim p h) = p_srv p.
Proof.
  induction h as [|o r IH]; intros p NI; [reflexivity|]. simpl.
  rewrite IH; [|intros x Hx; apply NI; right; exact Hx].
  apply step_request_srv, NI. left. reflexivity.
Qed.

Lemma run_minted lim h : forall p, exists l, p_minted (run lim p h) = p_minted p ++ l.
Proof.
  induction h as [|o r IH]; intros p; simpl; [exists []; rewrite app_nil_r; reflexivity|].
  destruct (IH (fst (step lim p o))) as [l E]. destruct (step_minted lim p o) as [m M].
  rewrite E, M, <- app_assoc. eexists; reflexivity.
Qed.

(* a token value handed out at step i is the same value for ever *)
Lemma minted_stable lim p h i m :
  nth_error (p_minted p) i = Some m -> nth_error (p_minted (run lim p h)) i = Some m.
Proof.
  intros H. destruct (run_minted lim h p) as [l E]. rewrite E.
  rewrite nth_error_app1; [exact H|]. apply nth_error_Some. rewrite H. discriminate.
Qed.

(* the key state, hence the whole server record, after a history is the one after its unseal
   operations alone *)
Lemma run_srv_injects lim lim' h : forall p p', p_cfg p = p_cfg p' -> p_srv p = p_srv p' ->
  p_srv (run lim p h) = p_srv (run lim' p' (filter is_inject h)) /\
  p_cfg (run lim p h) = p_cfg (run lim' p' (filter is_inject h)).
Proof.
  induction h as [|o r IH]; intros p p' C S; simpl; [split; assumption|].
  destruct (is_inject o) eqn:E.
  - simpl. apply IH.
    + rewrite !step_cfg. exact C.
    + destruct o; try discriminate. simpl. unfold keys_of. rewrite C, S.
      destruct (Seal.inject _ _ _). reflexivity.
  - destruct (step_request_srv lim p o E) as [A B]. apply IH; [rewrite B; exact C|rewrite A; exact S].
Qed.

(* ---- the verdict on a certificate request is independent of the requests before it *)
Theorem verdict_history_independent lim lim' p h ref q :
  (forall o, In o h -> is_inject o = false) ->
  (forall i, ref = Some i -> (i < length (p_minted p))%nat) ->
  snd (step lim' (run lim p h) (OCertgen ref q)) = snd (step lim' p (OCertgen ref q)).
Proof.
  intros NI R. simpl. rewrite (run_requests_srv lim h p NI).
  destruct ref as [i|]; [|reflexivity].
  unfold presented, keys_of. rewrite (run_requests_srv lim h p NI).
  destruct (nth_error (p_minted p) i) as [m|] eqn:E.
  - rewrite (minted_stable lim p h i m E). reflexivity.
  - apply nth_error_None in E. specialize (R i eq_refl). lia.
Qed.

(* with unseal operations in the history: only they matter *)
Theorem verdict_depends_on_unseals_only lim lim' p h q :
  snd (step lim' (run lim p h) (OCertgen None q)) =
  snd (step lim' (run lim p (filter is_inject h)) (OCertgen None q)).
Proof.
  simpl. destruct (run_srv_injects lim lim h p p eq_refl eq_refl) as [A _]. rewrite A. reflexivity.
Qed.

(* the session a login handed out stays a password-only session whatever was done with it since -
   second factors completed with it included: presented again it gets no certificate when only second
   factors are listed *)
Theorem old_cookie_stays_password_only lim lim' p h i m q :
  (forall o, In o h -> is_inject o = false) ->
  nth_error (p_minted p) i = Some m -> m_level m = bPassword ->
  ~ In sPassword (s_cfg (p_srv p)) -> q_tls q = None -> q_basic q = None ->
  exists code, snd (step lim' (run lim p h) (OCertgen (Some i) q)) = XCert (Refused code).
Proof.
  intros NI M L NP TL B.
  rewrite verdict_history_independent; [|exact NI|].
  2:{ intros j E. inversion E; subst. apply nth_error_Some. rewrite M. discriminate. }
  simpl. unfold presented. rewrite M.
  destruct (password_only_refused expand (p_srv p) now lim' (with_cookie q (Some (see (keys_of p) m))) NP) as [code E].
  - intros u level P. destruct P as [w C V U Lv|b Bq|c T|c T|c T]; simpl in *; try congruence.
    inversion C; subst. exact L.
  - exists code. rewrite E. reflexivity.
Qed.

(* ---- the upgraded session: the level is the old one plus the factor; the old token is untouched *)
Theorem second_factor_mints lim p ref bit m' :
  snd (step lim p (OSecond ref bit true)) = XMinted m' ->
  exists m, nth_error (p_minted p) ref = Some m /\ m_sub m' = m_sub m /\ m_level m' = N.lor (m_level m) bit /\
            nth_error (p_minted (fst (step lim p (OSecond ref bit true)))) ref = Some m /\
            valid_session (issuer_of (p_srv p)) now (see (keys_of p) m).
Proof.
  simpl. destruct (s_sealed (p_srv p)); [discriminate|].
  destruct (nth_error (p_minted p) ref) as [m|] eqn:E; [|discriminate].
  destruct (check_auth _ _ _ _) as [u level iat|code] eqn:CA; [|discriminate].
  simpl. intros X. inversion X; subst. exists m.
  rewrite check_auth_any_eq in CA. unfold check_auth_any in CA. simpl in CA.
  unfold cookie_branch_any in CA.
  destruct (token_ok now (token_of (issuer_of (p_srv p)) (see (keys_of p) m))) eqn:TO; [|discriminate].
  simpl in CA. destruct (m_exp m <? now)%Z eqn:EX; [discriminate|].
  destruct (hasb (m_level m) bAny); [|discriminate]. inversion CA; subst.
  split; [reflexivity|]. split; [reflexivity|]. split; [reflexivity|]. split.
  - rewrite nth_error_app1; [exact E|]. apply nth_error_Some. rewrite E. discriminate.
  - apply token_ok_valid. split; assumption.
Qed.

(* ---- the accepted algorithms follow the key list *)
Lemma mem_map_alg k l : Seal.mem k l = true -> Seal.mem (alg_of k) (map alg_of l) = true.
Proof.
  unfold Seal.mem. induction l as [|x r IH]; simpl; [discriminate|].
  intros H. apply orb_true_iff in H. destruct H as [H|H].
  - apply N.eqb_eq in H. subst. rewrite N.eqb_refl. reflexivity.
  - rewrite (IH H). apply orb_true_r.
Qed.

Lemma own_alg_accepted c ks k : Proofs.Seal.Q c ks -> Seal.signer ks = Some k ->
  Seal.mem k (Seal.pubkeys ks) = true /\ Seal.mem (alg_of k) (accepted_algs alg_of ks) = true.
Proof.
  intros [QC _] S. rewrite S in QC. specialize (QC eq_refl).
  apply Proofs.Seal.completeb_elim in QC. destruct QC as [S' [_ [P _]]].
  rewrite S in S'. inversion S'; subst. split; [exact P|]. apply mem_map_alg, P.
Qed.

Lemma run_Q lim h : forall p, Proofs.Seal.Q (p_cfg p) (keys_of p) ->
  Proofs.Seal.Q (p_cfg (run lim p h)) (keys_of (run lim p h)).
Proof.
  induction h as [|o r IH]; intros p HQ; [exact HQ|]. simpl. apply IH.
  destruct (is_inject o) eqn:E.
  - destruct o; try discriminate. simpl.
    pose proof (Proofs.Seal.inject_Q (p_cfg p) (keys_of p) i HQ) as H.
    destruct (Seal.inject (p_cfg p) (keys_of p) i). exact H.
  - destruct (step_request_srv lim p o E) as [A B]. unfold keys_of. rewrite A, B. exact HQ.
Qed.

(* whatever requests and injections came since the daemon started - token-parsing requests while it was
   still sealed included - and whatever peer keys of whatever type are configured: once a signer is
   loaded, its key is listed and its algorithm is accepted *)
Theorem own_alg_accepted_after_unseal lim c st h k :
  Seal.signer (keys_of (run lim (boot c st) h)) = Some k ->
  Seal.mem k (Seal.pubkeys (keys_of (run lim (boot c st) h))) = true /\
  Seal.mem (alg_of k) (accepted_algs alg_of (keys_of (run lim (boot c st) h))) = true.
Proof.
  intros S. apply (own_alg_accepted (p_cfg (run lim (boot c st) h))); [|exact S].
  apply run_Q. simpl. apply Proofs.Seal.sealed_init_Q.
Qed.

(* ---- completeness over the life cycle: on a process that got where it is by ANY history from the start
   (sealed, any peer keys), once unsealed: a login, a second factor completed with the login's cookie,
   and an orderly certificate request with the upgraded cookie is SERVED when the operator's list accepts
   password + that factor *)
Lemma fresh_valid p k u level : Proofs.Seal.Q (p_cfg p) (keys_of p) -> Seal.signer (keys_of p) = Some k ->
  (0 <= life)%Z ->
  valid_session (issuer_of (p_srv p)) now (see (keys_of p) (fresh_token alg_of now life (p_srv p) u level)).
Proof.
  intros HQ S L. destruct (own_alg_accepted _ _ _ HQ S) as [A B].
  unfold valid_session, see, fresh_token, main_key_of. cbn. unfold keys_of in S. rewrite S. cbn.
  repeat split; try assumption; try reflexivity; try lia. eexists; reflexivity.
Qed.

Theorem complete_after_unseal lim p k u bit q :
  Proofs.Seal.Q (p_cfg p) (keys_of p) -> Seal.signer (keys_of p) = Some k -> (0 <= life)%Z ->
  let i0 := length (p_minted p) in
  let p1 := fst (step lim p (OLogin u true)) in
  let p2 := fst (step lim p1 (OSecond i0 bit true)) in
  servable expand (p_srv p) q (s_name (p_srv p) u) -> q_tls q = None -> q_target q = s_name (p_srv p) u ->
  qualifies (s_cfg (p_srv p)) (N.lor bPassword bit) ->
  exists m0 m1 c,
    snd (step lim p (OLogin u true)) = XMinted m0 /\ m_level m0 = bPassword /\
    snd (step lim p1 (OSecond i0 bit true)) = XMinted m1 /\ m_level m1 = N.lor bPassword bit /\
    snd (step lim p2 (OCertgen (Some (S i0)) q)) = XCert (Issued u c).
Proof.
  intros HQ SG L i0 p1 p2 SV TL T QU.
  assert (US : s_sealed (p_srv p) = false).
  { unfold s_sealed. unfold keys_of in SG. rewrite SG. reflexivity. }
  set (m0 := fresh_token alg_of now life (p_srv p) u bPassword).
  assert (P1 : p1 = {| p_cfg := p_cfg p; p_srv := p_srv p; p_minted := p_minted p ++ [m0] |}).
  { unfold p1. simpl. rewrite US. reflexivity. }
  assert (N0 : nth_error (p_minted p1) i0 = Some m0).
  { rewrite P1. simpl. rewrite nth_error_app2; [|unfold i0; lia]. unfold i0. rewrite Nat.sub_diag. reflexivity. }
  pose proof (fresh_valid p k u bPassword HQ SG L) as V0. fold m0 in V0.
  assert (K1 : keys_of p1 = keys_of p) by (rewrite P1; reflexivity).
  assert (S1 : p_srv p1 = p_srv p) by (rewrite P1; reflexivity).
  set (w0 := see (keys_of p) m0).
  set (m1 := upgraded alg_of (p_srv p) w0 (N.lor bPassword bit)).
  assert (O2 : step lim p1 (OSecond i0 bit true) = mint p1 m1).
  { simpl. rewrite S1, US. unfold presented. rewrite N0, K1. fold w0.
    rewrite check_auth_any_eq. unfold check_auth_any. simpl. unfold cookie_branch_any.
    apply token_ok_valid in V0. destruct V0 as [V1 V2]. fold w0 in V1. rewrite V1.
    cbn [t_exp t_level t_sub t_iat token_of]. fold w0. unfold w0 at 1. cbn [see w_exp m_exp m0 fresh_token].
    unfold w0 in V2. cbn [see w_exp m_exp m0 fresh_token] in V2. rewrite V2. simpl. reflexivity. }
  exists m0, m1.
  assert (P2 : p2 = {| p_cfg := p_cfg p1; p_srv := p_srv p1; p_minted := p_minted p1 ++ [m1] |}).
  { unfold p2. rewrite O2. reflexivity. }
  assert (N1 : nth_error (p_minted p2) (S i0) = Some m1).
  { rewrite P2, P1. cbn [p_minted]. rewrite nth_error_app2; rewrite app_length; cbn [length]; [|unfold i0; lia].
    replace (S i0 - (length (p_minted p) + 1))%nat with 0%nat by (unfold i0; lia). reflexivity. }
  assert (S2 : p_srv p2 = p_srv p) by (rewrite P2, P1; reflexivity).
  assert (K2 : keys_of p2 = keys_of p) by (unfold keys_of; rewrite S2; reflexivity).
  destruct (own_alg_accepted _ _ _ HQ SG) as [A B].
  assert (MK : main_key_of (p_srv p) = k).
  { unfold main_key_of. unfold keys_of in SG. rewrite SG. reflexivity. }
  assert (V1 : valid_session (issuer_of (p_srv p)) now (see (keys_of p) m1)).
  { destruct V0 as [_ [_ [_ [I [AU [KD [NB EX]]]]]]].
    unfold valid_session, see, m1, upgraded. cbn. rewrite MK.
    repeat split; try assumption; try reflexivity. }
  destruct (complete_session expand (p_srv p) now lim (with_cookie q (Some (see (keys_of p) m1))) (see (keys_of p) m1)) as [c E].
  - exact SV.
  - exact TL.
  - reflexivity.
  - exact V1.
  - cbn. intros Z. apply (f_equal (fun x => N.testbit x 1)) in Z.
    rewrite N.land_spec, N.lor_spec in Z. vm_compute in Z. discriminate.
  - exact QU.
  - exact T.
  - exists c. split; [unfold p1; simpl; rewrite US; reflexivity|]. split; [reflexivity|].
    split; [rewrite O2; reflexivity|]. split; [reflexivity|].
    unfold CertgenLife.step. unfold presented. rewrite N1, K2, S2. cbn in E. cbn. rewrite E. reflexivity.
Qed.

(* for a process that got where it is by any history from the start *)
Theorem complete_after_any_history lim c st h :
  Proofs.Seal.Q (p_cfg (run lim (boot c st) h)) (keys_of (run lim (boot c st) h)).
Proof. apply run_Q. simpl. apply Proofs.Seal.sealed_init_Q. Qed.

(* the same, stated for every history since the daemon started *)
Theorem complete_after_unseal_history lim lim' c st h k u bit q :
  let p := run lim (boot c st) h in
  Seal.signer (keys_of p) = Some k -> (0 <= life)%Z ->
  let i0 := length (p_minted p) in
  let p1 := fst (step lim' p (OLogin u true)) in
  let p2 := fst (step lim' p1 (OSecond i0 bit true)) in
  servable expand (p_srv p) q (s_name (p_srv p) u) -> q_tls q = None -> q_target q = s_name (p_srv p) u ->
  qualifies (s_cfg (p_srv p)) (N.lor bPassword bit) ->
  exists m0 m1 c,
    snd (step lim' p (OLogin u true)) = XMinted m0 /\ m_level m0 = bPassword /\
    snd (step lim' p1 (OSecond i0 bit true)) = XMinted m1 /\ m_level m1 = N.lor bPassword bit /\
    snd (step lim' p2 (OCertgen (Some (S i0)) q)) = XCert (Issued u c).
Proof.
  intros p SG L. apply (complete_after_unseal lim' p k u bit q); [|exact SG|exact L].
  apply complete_after_any_history.
Qed.

End Thms.
