(* C07 — proofs about Model/PwCache.v *)
From Coq Require Import List NArith ZArith Bool Lia.
From KM Require Import Model.Storage Proofs.Storage Model.PwCache.
Import ListNotations.
Open Scope Z_scope.

(* ------------------------------------------------------------------ the directory *)
(* an answering replica gives the directory's verdict under the FIRST pattern, whatever diagnostic
   comes with a refusal and however many more patterns are configured; a replica that does not
   answer does not answer under any pattern *)
Lemma bind_at_first s sv u pw : bind_at s sv 0 u pw = bind s sv u pw.
Proof. reflexivity. Qed.

Lemma verdict_up s u pw : verdict interp_code (bind s SUp u pw) = Some (dir_accepts s u pw).
Proof. unfold bind, bind_at. fold (dir_accepts s u pw). destruct (dir_accepts s u pw); reflexivity. Qed.

Lemma try_patterns_up s ps u pw : try_patterns interp_code s SUp (0%nat :: ps) u pw = Some (dir_accepts s u pw).
Proof. cbn [try_patterns]. rewrite bind_at_first, verdict_up. reflexivity. Qed.

Lemma try_patterns_silent s sv ps u pw : sv <> SUp -> try_patterns interp_code s sv ps u pw = None.
Proof. intro H. induction ps as [|p r IH]; [reflexivity|]. destruct sv; [congruence| | |]; simpl; exact IH. Qed.

Lemma patterns_cons s : patterns s = 0%nat :: seq 1 (extra_patterns s).
Proof. reflexivity. Qed.

Lemma first_answer_some s svs u pw v :
  first_answer s svs u pw = Some v -> In SUp svs /\ v = dir_accepts s u pw.
Proof.
  unfold first_answer. induction svs as [|sv r IH]; cbn [first_answer_gen]; [discriminate|].
  destruct sv.
  - rewrite patterns_cons, try_patterns_up. intro H. inversion H. split; [left; reflexivity|reflexivity].
  - rewrite try_patterns_silent by discriminate. intro H. destruct (IH H) as [A B]. split; [right; exact A|exact B].
  - rewrite try_patterns_silent by discriminate. intro H. destruct (IH H) as [A B]. split; [right; exact A|exact B].
  - rewrite try_patterns_silent by discriminate. intro H. destruct (IH H) as [A B]. split; [right; exact A|exact B].
Qed.

Lemma first_answer_none s svs u pw : first_answer s svs u pw = None -> ~ In SUp svs.
Proof.
  unfold first_answer. induction svs as [|sv r IH]; cbn [first_answer_gen]; [simpl; tauto|].
  destruct sv; [rewrite patterns_cons, try_patterns_up; discriminate| | |];
    rewrite try_patterns_silent by discriminate; intros H [C|C]; try discriminate; exact (IH H C).
Qed.

Lemma first_answer_in s svs u pw : In SUp svs -> first_answer s svs u pw = Some (dir_accepts s u pw).
Proof.
  unfold first_answer. induction svs as [|sv r IH]; cbn [first_answer_gen]; [simpl; tauto|].
  destruct sv; [rewrite patterns_cons, try_patterns_up; reflexivity| | |];
    rewrite try_patterns_silent by discriminate; intros [C|C]; try discriminate; exact (IH C).
Qed.

(* ------------------------------------------------------------------ facts about the storage steps used *)
Lemma now_upsert x u t d e : now (fst (step x (Upsert u t d e))) = now x.
Proof. unfold step, step_gen. destruct (writable x); reflexivity. Qed.

Lemma now_delsigned x u t : now (fst (step x (DelSigned u t))) = now x.
Proof. unfold step, step_gen. destruct (writable x); reflexivity. Qed.

Lemma now_setmode x m : now (fst (step x (SetMode m))) = now x.
Proof. reflexivity. Qed.

Lemma now_sync x f : now (fst (step x (Sync f))) = now x.
Proof. unfold step, step_gen. destruct (writable x); [|reflexivity]. destruct (sync (primary x) (now x) f (cache x)). reflexivity. Qed.

Lemma now_tick x dt : now (fst (step x (Tick dt))) = now x + dt.
Proof. reflexivity. Qed.

Lemma now_put w x u r : now (put w x u r) = now x.
Proof. destruct w; reflexivity. Qed.

Lemma get_signed_unexpired x u t r : get_signed x u t = Some r -> now x < sr_exp r.
Proof.
  unfold get_signed.
  destruct (aget skey_eqb (u, t) (signed (if mode_eqb (pmode x) Up then primary x else cache x))) as [r'|]; [|discriminate].
  destruct (unexpired (now x) r') eqn:E; [|discriminate].
  intro H. inversion H; subst. unfold unexpired in E. apply Z.ltb_lt in E. exact E.
Qed.

Lemma nth_error_snoc {A} (l : list A) x id j :
  nth_error (l ++ [x]) id = Some j -> nth_error l id = Some j \/ (id = length l /\ j = x).
Proof.
  intro H. destruct (Nat.lt_ge_cases id (length l)) as [L|L].
  - rewrite nth_error_app1 in H by exact L. left. exact H.
  - rewrite nth_error_app2 in H by exact L.
    destruct (id - length l)%nat eqn:E; simpl in H.
    + inversion H. right. split; [lia|reflexivity].
    + destruct n; discriminate.
Qed.

Lemma prun_snoc n ops o : prun n (ops ++ [o]) = fst (pstep (prun n ops) o).
Proof. unfold prun. rewrite fold_left_app. reflexivity. Qed.

(* ------------------------------------------------------------------ provenance of genuine records *)
(* "written by an earlier directory-confirmed login of its subject": the history contains a
   Login of the record's subject with the record's password at which a directory server
   answered and accepted, at the instant the record carries as not-before *)
(* (at this instance, or at another instance that shares the primary database: PeerLogin) *)
Definition confirmed (n : nat) (ops : list pop) (j : jws) : Prop :=
  exists pre post o, ops = pre ++ o :: post /\
    (o = Login (j_sub j) (j_pw j) \/ o = PeerLogin (j_sub j) (j_pw j)) /\
    In SUp (servers (prun n pre)) /\
    dir_accepts (prun n pre) (j_sub j) (j_pw j) = true /\
    now (st (prun n pre)) = j_nbf j.

Lemma confirmed_snoc n ops o j : confirmed n ops j -> confirmed n (ops ++ [o]) j.
Proof.
  intros [pre [post [o0 [E H]]]]. exists pre, (post ++ [o]), o0. split; [|exact H].
  rewrite E. rewrite <- app_assoc. reflexivity.
Qed.

Definition inv (n : nat) (ops : list pop) (s : pstate) : Prop :=
  forall id j, nth_error (jwss s) id = Some j -> j_genuine j = true ->
    confirmed n ops j /\ j_exp j = j_nbf j + cache_secs /\ j_nbf j <= now (st s).

(* a step that keeps the table and does not move the clock backwards keeps the invariant *)
Lemma inv_keep n ops o s s' :
  inv n ops s -> jwss s' = jwss s -> now (st s) <= now (st s') -> inv n (ops ++ [o]) s'.
Proof.
  intros I J T id j H G. rewrite J in H. destruct (I id j H G) as [A [B C]].
  repeat split; [apply confirmed_snoc; exact A|exact B|lia].
Qed.

Lemma inv_step n ops o : inv n ops (prun n ops) -> inv n (ops ++ [o]) (fst (pstep (prun n ops) o)).
Proof.
  set (s := prun n ops). intro I.
  destruct o as [u pw|i sv|u pw|dt|m| |w slot r col|ua da|ds|uh ph|up pwp]; unfold pstep, pstep_gen.
  - (* Login *)
    unfold login_gen. fold (first_answer s (servers s) u pw).
    destruct (first_answer s (servers s) u pw) as [[|]|] eqn:FA; cbn [fst].
    + unfold refresh. destruct (writable (st s)) eqn:W; [|apply (inv_keep n ops _ s s I); [reflexivity|lia]].
      intros id j H G. cbn [jwss st] in *. rewrite now_upsert.
      destruct (nth_error_snoc _ _ _ _ H) as [H1|[_ ->]].
      * destruct (I id j H1 G) as [A [B C]]. repeat split; [apply confirmed_snoc; exact A|exact B|exact C].
      * cbn [j_sub j_pw j_nbf j_exp]. destruct (first_answer_some _ _ _ _ _ FA) as [Hup Hacc].
        repeat split; [|lia].
        exists ops, [], (Login u pw). repeat split; [left; reflexivity|exact Hup|symmetry; exact Hacc].
    + destruct (get_pw true s u) as [| |j0]; try (apply (inv_keep n ops _ s s I); [reflexivity|lia]).
      destruct (N.eqb (j_pw j0) pw); [|apply (inv_keep n ops _ s s I); [reflexivity|lia]].
      apply (inv_keep n ops _ s _ I); [reflexivity|]. unfold evict. cbn [st with_st]. rewrite now_delsigned. lia.
    + apply (inv_keep n ops _ s s I); [reflexivity|lia].
  - apply (inv_keep n ops _ s _ I); [reflexivity|cbn [fst st]; lia].
  - apply (inv_keep n ops _ s _ I); [reflexivity|cbn [fst st]; lia].
  - apply (inv_keep n ops _ s _ I); [reflexivity|]. cbn [fst st with_st]. rewrite now_tick. lia.
  - apply (inv_keep n ops _ s _ I); [reflexivity|]. cbn [fst st with_st]. rewrite now_setmode. lia.
  - apply (inv_keep n ops _ s _ I); [reflexivity|]. cbn [fst st with_st]. rewrite now_sync. lia.
  - destruct r as [id0|sub pw0 nbf ex|]; cbn [fst].
    + apply (inv_keep n ops _ s _ I); [reflexivity|]. cbn [st with_st]. rewrite now_put. lia.
    + intros id j H G. cbn [jwss st] in *. rewrite now_put.
      destruct (nth_error_snoc _ _ _ _ H) as [H1|[_ ->]]; [|discriminate G].
      destruct (I id j H1 G) as [A [B C]]. repeat split; [apply confirmed_snoc; exact A|exact B|exact C].
    + apply (inv_keep n ops _ s _ I); [reflexivity|]. cbn [st with_st]. rewrite now_put. lia.
  - apply (inv_keep n ops _ s _ I); [reflexivity|cbn [fst st]; lia].
  - apply (inv_keep n ops _ s _ I); [reflexivity|cbn [fst st]; lia].
  - apply (inv_keep n ops _ s _ I); [reflexivity|cbn [fst st]; lia].
  - (* PeerLogin *)
    cbn [fst]. unfold peer_login. fold (first_answer s (servers s) up pwp).
    destruct (first_answer s (servers s) up pwp) as [[|]|] eqn:FA.
    + intros id j H G. cbn [jwss st] in *.
      assert (NOW : now (set_primary_row (st s) up (Some (mk_srow (N.of_nat (length (jwss s))) (now (st s) + cache_secs) (now (st s))))) = now (st s)) by reflexivity.
      rewrite NOW.
      destruct (nth_error_snoc _ _ _ _ H) as [H1|[_ ->]].
      * destruct (I id j H1 G) as [A [B C]]. repeat split; [apply confirmed_snoc; exact A|exact B|exact C].
      * cbn [j_sub j_pw j_nbf j_exp]. destruct (first_answer_some _ _ _ _ _ FA) as [Hup Hacc].
        repeat split; [|lia].
        exists ops, [], (PeerLogin up pwp). repeat split; [right; reflexivity|exact Hup|symmetry; exact Hacc].
    + destruct (get_pw true (peer_view s) up) as [| |j0]; try (apply (inv_keep n ops _ s s I); [reflexivity|lia]).
      destruct (N.eqb (j_pw j0) pwp); [|apply (inv_keep n ops _ s s I); [reflexivity|lia]].
      apply (inv_keep n ops _ s _ I); [reflexivity|]. cbn [st with_st]. unfold set_primary_row, with_primary. cbn [now]. lia.
    + apply (inv_keep n ops _ s s I); [reflexivity|lia].
Qed.

Lemma inv_run n ops : inv n ops (prun n ops).
Proof.
  induction ops as [|o ops IH] using rev_ind.
  - intros id j H. destruct id; discriminate H.
  - rewrite prun_snoc. apply inv_step. exact IH.
Qed.

(* ------------------------------------------------------------------ the property *)
Lemma accept_sound n ops u pw :
  let s := prun n ops in
  snd (login s u pw) = true ->
  (In SUp (servers s) /\ dir_accepts s u pw = true) \/
  (~ In SUp (servers s) /\
   exists r j, get_signed (st s) u pw_type = Some r /\
               nth_error (jwss s) (N.to_nat (sr_data r)) = Some j /\
               j_genuine j = true /\ j_sub j = u /\ j_pw j = pw /\
               now (st s) < sr_exp r /\ now (st s) < j_exp j /\
               confirmed n ops j /\ 0 <= now (st s) - j_nbf j < cache_secs).
Proof.
  intro s. unfold login, login_gen. fold (first_answer s (servers s) u pw).
  destruct (first_answer s (servers s) u pw) as [[|]|] eqn:FA; cbn [snd].
  - intros _. left. destruct (first_answer_some _ _ _ _ _ FA) as [A B]. split; [exact A|symmetry; exact B].
  - discriminate.
  - unfold get_pw. destruct (get_signed (st s) u pw_type) as [r|] eqn:G; [|discriminate].
    destruct (nth_error (jwss s) (N.to_nat (sr_data r))) as [j|] eqn:NE; [|discriminate].
    destruct (jws_valid true (now (st s)) j) eqn:JV; cbn [negb]; [|discriminate].
    destruct (N.eqb (j_sub j) u) eqn:SU; cbn [negb]; [|discriminate].
    intro H. right. split; [exact (first_answer_none _ _ _ _ FA)|].
    exists r, j. unfold jws_valid in JV. cbn [negb orb] in JV.
    apply andb_true_iff in JV. destruct JV as [JV Hexp]. apply andb_true_iff in JV. destruct JV as [Hg Hnbf].
    apply Z.leb_le in Hnbf. apply Z.ltb_lt in Hexp. apply N.eqb_eq in SU, H.
    destruct (inv_run n ops _ j NE Hg) as [C [E L]].
    repeat split; try assumption; try lia. exact (get_signed_unexpired _ _ _ _ G).
Qed.

Lemma verdict_final s u pw : In SUp (servers s) -> snd (login s u pw) = dir_accepts s u pw.
Proof.
  intro H. unfold login, login_gen. fold (first_answer s (servers s) u pw). rewrite (first_answer_in s _ u pw H).
  destruct (dir_accepts s u pw); reflexivity.
Qed.

Lemma evicts s u pw j :
  In SUp (servers s) -> dir_accepts s u pw = false ->
  get_pw true s u = GOk j -> j_pw j = pw ->
  let s' := fst (login s u pw) in
  (writable (st s) = true ->
     aget skey_eqb (u, pw_type) (signed (primary (st s'))) = None /\
     aget skey_eqb (u, pw_type) (signed (cache (st s'))) = None) /\
  (writable (st s) = false -> s' = s).
Proof.
  intros Hup Hrej Hg Hpw. unfold login, login_gen. fold (first_answer s (servers s) u pw). rewrite (first_answer_in s _ u pw Hup), Hrej, Hg.
  subst pw. rewrite N.eqb_refl. cbn [fst]. unfold evict, step, step_gen.
  destruct (writable (st s)); split; intro W; try discriminate.
  - cbn [fst st with_st signed_both primary cache signed set_signed].
    split; apply (aget_adel_same skey_eqb).
  - destruct s; reflexivity.
Qed.

Lemma reject_keeps_other s u pw :
  In SUp (servers s) -> dir_accepts s u pw = false ->
  (forall j, get_pw true s u = GOk j -> j_pw j <> pw) ->
  fst (login s u pw) = s.
Proof.
  intros Hup Hrej Hother. unfold login, login_gen. fold (first_answer s (servers s) u pw). rewrite (first_answer_in s _ u pw Hup), Hrej. cbn [fst].
  destruct (get_pw true s u) as [| |j] eqn:G; try reflexivity.
  destruct (N.eqb (j_pw j) pw) eqn:E; [|reflexivity]. apply N.eqb_eq in E. exfalso. exact (Hother j eq_refl E).
Qed.

Lemma refreshes s u pw :
  In SUp (servers s) -> dir_accepts s u pw = true -> writable (st s) = true ->
  let s' := fst (login s u pw) in
  let id := N.of_nat (length (jwss s)) in
  let n := now (st s) in
  aget skey_eqb (u, pw_type) (signed (primary (st s'))) = Some (mk_srow id (n + cache_secs) n) /\
  aget skey_eqb (u, pw_type) (signed (cache (st s'))) = Some (mk_srow id (n + cache_secs) n) /\
  nth_error (jwss s') (N.to_nat id) = Some (mk_jws true u pw n (n + cache_secs)).
Proof.
  intros Hup Hacc W. unfold login, login_gen. fold (first_answer s (servers s) u pw). rewrite (first_answer_in s _ u pw Hup), Hacc. cbn [fst].
  unfold refresh, step, step_gen. rewrite W. cbn [fst st jwss signed_both primary cache signed set_signed].
  repeat split; try apply (aget_aset_same skey_eqb skey_eqb_spec).
  rewrite Nnat.Nat2N.id. rewrite nth_error_app2 by lia. rewrite Nat.sub_diag. reflexivity.
Qed.

(* nobody answers: nothing is written, whatever the verdict *)
Lemma outage_login_pure s u pw : ~ In SUp (servers s) -> fst (login s u pw) = s.
Proof.
  intro H. unfold login, login_gen. fold (first_answer s (servers s) u pw).
  destruct (first_answer s (servers s) u pw) as [v|] eqn:FA; [|reflexivity].
  destruct (first_answer_some _ _ _ _ _ FA) as [C _]. contradiction.
Qed.

Lemma backend_normalised backend raw pw : backend_login backend raw pw = backend (normalise raw) pw.
Proof. reflexivity. Qed.

Lemma lower_idem c : lower (lower c) = lower c.
Proof.
  unfold lower. destruct ((65 <=? c)%N && (c <=? 90)%N) eqn:E; [|rewrite E; reflexivity].
  apply andb_true_iff in E. destruct E as [A B]. apply N.leb_le in A, B.
  destruct ((65 <=? c + 32)%N && (c + 32 <=? 90)%N) eqn:F; [|reflexivity].
  apply andb_true_iff in F. destruct F as [_ F]. apply N.leb_le in F. lia.
Qed.

Lemma normalise_idem u : normalise (normalise u) = normalise u.
Proof. unfold normalise. rewrite map_map. apply map_ext. intro c. apply lower_idem. Qed.

(* ------------------------------------------------------------------ the code before the repairs; what remains *)
Local Open Scope N_scope.

(* alice (1) logs in with password 7 while the directory is up; 97 hours later the record's
   signed lifetime is over, but with the expiration column of the cached row rewritten it
   decided a login during an outage *)
Definition old_expired_history : list pop :=
  [ChangePw 1 7; PTick 1000%Z; Login 1 7; PSync; PTick 349200%Z;
   Tamper WCache 1 (RExisting 0) 9999999%Z; SetServer 0 SDown; PMode Dead; Login 1 7].

Lemma old_expired_record_refuted :
  snd (pstep_old (prun_old 1 (removelast old_expired_history)) (Login 1 7)) = Some true /\
  snd (pstep (prun 1 (removelast old_expired_history)) (Login 1 7)) = Some false.
Proof. vm_compute. split; reflexivity. Qed.

(* the directory rejected the old password 7 (which evicted the hash from the primary) and a
   copy completed; the cache still held the hash and accepted 7 during the next outage *)
Definition old_evict_history : list pop :=
  [ChangePw 1 7; PTick 1000%Z; Login 1 7; PSync; ChangePw 1 8; Login 1 7; PSync;
   SetServer 0 SDown; PMode Dead; Login 1 7].

Lemma old_evict_cache_refuted :
  snd (pstep_old (prun_old 1 (removelast old_evict_history)) (Login 1 7)) = Some true /\
  snd (pstep (prun 1 (removelast old_evict_history)) (Login 1 7)) = Some false.
Proof. vm_compute. split; reflexivity. Qed.

(* still true of the repaired code (recorded as a known finding): when the primary cannot be
   read or written at the moment the directory rejects the cached password, the hash survives
   in the primary, comes back with the next copy and decides a later outage *)
Definition evict_outage_history : list pop :=
  [ChangePw 1 7; PTick 1000%Z; Login 1 7; PSync; ChangePw 1 8; PMode Dead; Login 1 7;
   PMode Up; PSync; SetServer 0 SDown; Login 1 7].

Lemma evict_primary_outage_refuted :
  let s := prun 1 (removelast evict_outage_history) in
  nth 6 (map snd (prun_outs (pinit 1) evict_outage_history)) None = Some false /\
  snd (pstep s (Login 1 7)) = Some true.
Proof. vm_compute. split; reflexivity. Qed.

(* ------------------------------------------------------------------ refusals and their diagnostics *)
Local Close Scope N_scope.

(* result code 49 is a verdict whatever text comes with it; no other result code is one *)
Lemma interp_code_any_diag c d :
  interp_code c d = if N.eqb c invalid_credentials then Some false else None.
Proof. reflexivity. Qed.

Lemma bind_refused_rejects s u pw c d : bind s SUp u pw = RRefused c d -> c = invalid_credentials /\ dir_accepts s u pw = false.
Proof. unfold bind, bind_at. fold (dir_accepts s u pw). destruct (dir_accepts s u pw); [discriminate|]. intro H. inversion H. split; reflexivity. Qed.

(* a replica answers the bind with invalidCredentials and ANY diagnostic (bad password, no such
   user, account disabled / locked out / expired, password expired, no text at all): the login
   is refused, and if the presented password is the cached one its hash is evicted from both
   stores *)
Lemma refusal_final s u pw d :
  In SUp (servers s) -> bind s SUp u pw = RRefused invalid_credentials d ->
  snd (login s u pw) = false /\
  forall j, get_pw true s u = GOk j -> j_pw j = pw -> writable (st s) = true ->
    aget skey_eqb (u, pw_type) (signed (primary (st (fst (login s u pw))))) = None /\
    aget skey_eqb (u, pw_type) (signed (cache (st (fst (login s u pw))))) = None.
Proof.
  intros Hup Hb. destruct (bind_refused_rejects _ _ _ _ _ Hb) as [_ Hrej]. split.
  - rewrite (verdict_final s u pw Hup). exact Hrej.
  - intros j Hg Hpw W. destruct (evicts s u pw j Hup Hrej Hg Hpw) as [E _]. exact (E W).
Qed.

(* an account out of order is refused with result code 49 and the diagnostic of its state *)
Lemma acct_refused s u pw d : aget N.eqb u (acct s) = Some d ->
  bind s SUp u pw = RRefused invalid_credentials (if Nat.eqb (home s u) 0 then d else style s).
Proof.
  intro H. unfold bind, bind_at, entry_accepts, refusal_diag. rewrite H. rewrite andb_false_r. reflexivity.
Qed.

(* a reading of the diagnostic under which only "bad password" / "no such user" count as the
   directory's answer lets the cache overrule a directory that refused: alice's password 7 was
   cached by a confirmed login, her account is then disabled (AD sub status 0x533); while the
   directory is up and refusing her, the diagnostic-sensitive machine accepts 7 from the cache *)
Definition prun_ad (n : nat) (ops : list pop) : pstate :=
  fold_left (fun s o => fst (pstep_ad s o)) ops (pinit n).
Definition ad_disabled_history : list pop :=
  [ChangePw 1 7; PTick 1000%Z; Login 1 7; SetStyle (DAD 1326); SetAcct 1 (Some (DAD 1331)); Login 1 7].

Lemma diag_sensitive_refuted :
  let ops := removelast ad_disabled_history in
  In SUp (servers (prun_ad 1 ops)) /\ dir_accepts (prun_ad 1 ops) 1 7 = false /\
  snd (pstep_ad (prun_ad 1 ops) (Login 1 7)) = Some true /\
  snd (pstep (prun 1 ops) (Login 1 7)) = Some false /\
  aget skey_eqb (1%N, pw_type) (signed (cache (st (fst (pstep (prun 1 ops) (Login 1 7)))))) = None.
Proof. vm_compute. repeat split; try reflexivity. left. reflexivity. Qed.

(* ------------------------------------------------------------------ several bind patterns *)
Definition with_extra (s : pstate) (e : nat) : pstate :=
  mk_pstate (st s) (dir s) (servers s) (jwss s) (acct s) (style s) e (homes s).

(* however many bind patterns are configured beyond the first, the answer is that of the first
   pattern on the first replica that answers: further patterns are never consulted for a
   replica that answers, and a replica that does not answer does not answer any of them *)
Lemma first_pattern_decides s e svs u pw :
  first_answer (with_extra s e) svs u pw = first_answer s svs u pw.
Proof.
  unfold first_answer. induction svs as [|sv r IH]; [reflexivity|]. cbn [first_answer_gen].
  destruct sv.
  - rewrite !patterns_cons, !try_patterns_up. reflexivity.
  - rewrite !try_patterns_silent by discriminate. exact IH.
  - rewrite !try_patterns_silent by discriminate. exact IH.
  - rewrite !try_patterns_silent by discriminate. exact IH.
Qed.

Lemma login_patterns_irrelevant s e u pw :
  snd (login (with_extra s e) u pw) = snd (login s u pw) /\
  st (fst (login (with_extra s e) u pw)) = st (fst (login s u pw)) /\
  jwss (fst (login (with_extra s e) u pw)) = jwss (fst (login s u pw)).
Proof.
  unfold login, login_gen. fold (first_answer (with_extra s e) (servers (with_extra s e)) u pw).
  fold (first_answer s (servers s) u pw). cbn [servers with_extra]. rewrite first_pattern_decides.
  change (get_pw true (with_extra s e) u) with (get_pw true s u).
  destruct (first_answer s (servers s) u pw) as [[|]|].
  - unfold refresh. cbn [st with_extra jwss]. destruct (writable (st s)); repeat split; reflexivity.
  - destruct (get_pw true s u) as [| |j]; try (repeat split; reflexivity).
    destruct (N.eqb (j_pw j) pw); repeat split; reflexivity.
  - repeat split; reflexivity.
Qed.

(* a user whose entry lives under a LATER pattern cannot log in while a replica answers (the first
   pattern's invalidCredentials is final) - a false reject, outside the statement, and the reason
   why keymasterd's configuration passes one pattern *)
Lemma later_pattern_user_refused s u pw : In SUp (servers s) -> home s u <> 0%nat -> snd (login s u pw) = false.
Proof.
  intros Hup Hh. rewrite (verdict_final s u pw Hup). unfold dir_accepts.
  destruct (home s u); [congruence|]. apply andb_false_r.
Qed.

(* with a second pattern configured the diagnostic-sensitive reading is MASKED: the attempt under
   the second pattern is answered "no such entry" (code 49, the style's bad-password sub status),
   which that reading does take for the directory's verdict *)
Definition prun_ad2 (n e : nat) (ops : list pop) : pstate :=
  fold_left (fun s o => fst (pstep_ad s o)) ops (pinit2 n e).
Lemma ad_masked_by_second_pattern :
  let ops := removelast ad_disabled_history in
  snd (pstep_ad (prun_ad2 1 0 ops) (Login 1 7)) = Some true /\
  snd (pstep_ad (prun_ad2 1 1 ops) (Login 1 7)) = Some false.
Proof. vm_compute. split; reflexivity. Qed.

(* ------------------------------------------------------------------ the cache is consulted only while the primary does not answer *)
(* [read_source] (Model/Storage.v) is a function of the primary's CURRENT mode: a read that finds the
   primary answering takes the primary's row, whatever happened to earlier reads. *)
Definition with_cache_db (s : pstate) (c : db) : pstate := with_st s (with_cache (st s) c).

Lemma try_patterns_with_st s x sv ps u pw :
  try_patterns interp_code (with_st s x) sv ps u pw = try_patterns interp_code s sv ps u pw.
Proof.
  induction ps as [|p r IH]; [reflexivity|]. cbn [try_patterns].
  change (bind_at (with_st s x) sv p u pw) with (bind_at s sv p u pw). rewrite IH. reflexivity.
Qed.

Lemma first_answer_with_st s x svs u pw : first_answer (with_st s x) svs u pw = first_answer s svs u pw.
Proof.
  unfold first_answer. induction svs as [|sv r IH]; [reflexivity|]. cbn [first_answer_gen].
  rewrite IH. change (patterns (with_st s x)) with (patterns s). rewrite try_patterns_with_st. reflexivity.
Qed.

Lemma get_signed_up_primary x c u t : pmode x = Up -> get_signed (with_cache x c) u t = get_signed x u t.
Proof. intro M. unfold get_signed, with_cache. cbn [pmode primary cache now]. rewrite M. reflexivity. Qed.

Lemma get_pw_up_primary s c u : pmode (st s) = Up -> get_pw true (with_cache_db s c) u = get_pw true s u.
Proof.
  intro M. unfold get_pw, with_cache_db. cbn [st with_st jwss]. rewrite (get_signed_up_primary _ c u pw_type M).
  reflexivity.
Qed.

(* while the primary answers, the local cache database has no say: replace its content by anything
   and the verdict of a login, and what the login leaves in the primary, are the same *)
Lemma step_upsert_primary x c u t d e : pmode x = Up ->
  primary (fst (step (with_cache x c) (Upsert u t d e))) = primary (fst (step x (Upsert u t d e))).
Proof. intro M. unfold step, step_gen, writable, with_cache. cbn [pmode]. rewrite M. reflexivity. Qed.

Lemma step_delsigned_primary x c u t : pmode x = Up ->
  primary (fst (step (with_cache x c) (DelSigned u t))) = primary (fst (step x (DelSigned u t))).
Proof. intro M. unfold step, step_gen, writable, with_cache. cbn [pmode]. rewrite M. reflexivity. Qed.

Lemma cache_silent_while_primary_answers s c u pw : pmode (st s) = Up ->
  snd (login (with_cache_db s c) u pw) = snd (login s u pw) /\
  primary (st (fst (login (with_cache_db s c) u pw))) = primary (st (fst (login s u pw))).
Proof.
  intro M.
  assert (FA : first_answer_gen interp_code (with_cache_db s c) (servers (with_cache_db s c)) u pw =
               first_answer_gen interp_code s (servers s) u pw)
    by (apply (first_answer_with_st s (with_cache (st s) c) (servers s) u pw)).
  pose proof (get_pw_up_primary s c u M) as GP.
  unfold login, login_gen. rewrite FA, GP.
  destruct (first_answer_gen interp_code s (servers s) u pw) as [[|]|]; cbn [snd fst].
  - split; [reflexivity|]. unfold refresh.
    assert (W : writable (st (with_cache_db s c)) = writable (st s)) by reflexivity. rewrite W.
    destruct (writable (st s)); [|reflexivity]. cbn [st with_cache_db with_st].
    apply step_upsert_primary. exact M.
  - split; [reflexivity|]. destruct (get_pw true s u) as [| |j]; try reflexivity.
    destruct (N.eqb (j_pw j) pw); [|reflexivity].
    unfold evict. cbn [st with_cache_db with_st]. apply step_delsigned_primary. exact M.
  - split; reflexivity.
Qed.

(* ... for every history, including those in which earlier reads of the primary failed (PMode
   outages before): no memory of earlier failures *)
Lemma cache_only_while_primary_silent n ops c u pw :
  pmode (st (prun n ops)) = Up ->
  snd (login (with_cache_db (prun n ops) c) u pw) = snd (login (prun n ops) u pw).
Proof. intro M. exact (proj1 (cache_silent_while_primary_answers _ c u pw M)). Qed.

(* the verdict follows the primary's CURRENT row: nobody answers, the primary does - a login is
   accepted only if the primary holds, now, an unexpired row of the user whose record is genuine,
   current, signed for this user and hashes this password; whatever the cache database holds *)
Lemma primary_row_decides s u pw :
  pmode (st s) = Up -> ~ In SUp (servers s) -> snd (login s u pw) = true ->
  exists r j, aget skey_eqb (u, pw_type) (signed (primary (st s))) = Some r /\ now (st s) < sr_exp r /\
    nth_error (jwss s) (N.to_nat (sr_data r)) = Some j /\
    j_genuine j = true /\ j_sub j = u /\ j_pw j = pw /\ j_nbf j <= now (st s) < j_exp j.
Proof.
  intros M Hdown. unfold login, login_gen. fold (first_answer s (servers s) u pw).
  destruct (first_answer s (servers s) u pw) as [v|] eqn:FA.
  - destruct (first_answer_some _ _ _ _ _ FA) as [C _]. contradiction.
  - cbn [snd]. unfold get_pw, get_signed. rewrite M. cbn [mode_eqb].
    destruct (aget skey_eqb (u, pw_type) (signed (primary (st s)))) as [r|] eqn:A; [|discriminate].
    destruct (unexpired (now (st s)) r) eqn:UX; [|discriminate].
    destruct (nth_error (jwss s) (N.to_nat (sr_data r))) as [j|] eqn:NE; [|discriminate].
    destruct (jws_valid true (now (st s)) j) eqn:JV; cbn [negb]; [|discriminate].
    destruct (N.eqb (j_sub j) u) eqn:SU; cbn [negb]; [|discriminate].
    intro H. exists r, j. unfold jws_valid in JV. cbn [negb orb] in JV.
    apply andb_true_iff in JV. destruct JV as [JV Hexp]. apply andb_true_iff in JV. destruct JV as [Hg Hnbf].
    apply Z.leb_le in Hnbf. apply Z.ltb_lt in Hexp. apply N.eqb_eq in SU, H. unfold unexpired in UX. apply Z.ltb_lt in UX.
    repeat split; auto.
Qed.

Lemma evicted_in_primary_refused s u pw :
  pmode (st s) = Up -> ~ In SUp (servers s) ->
  aget skey_eqb (u, pw_type) (signed (primary (st s))) = None -> snd (login s u pw) = false.
Proof.
  intros M D A. destruct (snd (login s u pw)) eqn:L; [|reflexivity]. exfalso.
  destruct (primary_row_decides s u pw M D L) as [r [j [A' _]]]. congruence.
Qed.

(* A variant that REMEMBERS a timed-out read of the primary: for [retry] seconds afterwards GetSigned
   goes straight to the cache database although the primary answers again (NOT the code: kept for
   sticky_fallback_refuted).  State: the machine's state and the instant until which the primary is
   skipped. *)
Definition sticky_retry : Z := 30.
Definition pstep_sticky (sr : pstate * Z) (o : pop) : (pstate * Z) * option bool :=
  let '(s, until) := sr in
  match o with
  | Login u pw =>
      let skipping := now (st s) <? until in
      let view := if skipping && mode_eqb (pmode (st s)) Up
                  then with_st s (mk_state (primary (st s)) (cache (st s)) (now (st s)) Slow) else s in
      let '(s', v) := login view u pw in
      let s'' := with_st s' (mk_state (primary (st s')) (cache (st s')) (now (st s')) (pmode (st s))) in
      (* a read of the primary that hangs (mode Out RHang) arms the back-off *)
      let until' := match pmode (st s) with Out RHang _ => if skipping then until else now (st s) + sticky_retry | _ => until end in
      ((s'', until'), Some v)
  | _ => let '(s', v) := pstep s o in ((s', until), v)
  end.
Definition prun_sticky (n : nat) (ops : list pop) : pstate * Z :=
  fold_left (fun sr o => fst (pstep_sticky sr o)) ops (pinit n, 0).

Local Open Scope N_scope.
(* alice's password 7 is confirmed and cached; one read of the primary times out (a typo of bob's
   while the primary hangs); the primary answers again; the password is changed and the OTHER
   instance sees the directory reject 7, which evicts the hash from the shared primary; the
   directory goes away: the code refuses 7 (the primary answers and has no row), the remembering
   variant accepts it from its stale cache row *)
Definition sticky_history : list pop :=
  [ChangePw 1 7; ChangePw 2 9; PTick 1000%Z; Login 1 7; PMode Slow; Login 2 5; PMode Up;
   ChangePw 1 8; PeerLogin 1 7; SetServer 0 SDown; PTick 5%Z; Login 1 7].

Lemma sticky_fallback_refuted :
  let ops := removelast sticky_history in
  pmode (st (prun 1 ops)) = Up /\ ~ In SUp (servers (prun 1 ops)) /\
  aget skey_eqb (1, pw_type) (signed (primary (st (prun 1 ops)))) = None /\
  snd (pstep_sticky (prun_sticky 1 ops) (Login 1 7)) = Some true /\
  snd (pstep (prun 1 ops) (Login 1 7)) = Some false.
Proof. vm_compute. repeat split; try reflexivity. intros [H|[]]. discriminate H. Qed.

(* the same with a refresh at the other instance: the new password 8, confirmed by the directory
   there, is what the primary holds; the code accepts 8 and refuses 7 during the outage, the
   remembering variant does the opposite *)
Definition sticky_history2 : list pop :=
  [ChangePw 1 7; ChangePw 2 9; PTick 1000%Z; Login 1 7; PMode Slow; Login 2 5; PMode Up;
   ChangePw 1 8; PeerLogin 1 8; SetServer 0 SDown; PTick 5%Z].

Lemma sticky_fallback_refuted2 :
  snd (pstep (prun 1 sticky_history2) (Login 1 8)) = Some true /\
  snd (pstep (prun 1 sticky_history2) (Login 1 7)) = Some false /\
  snd (pstep_sticky (prun_sticky 1 sticky_history2) (Login 1 8)) = Some false /\
  snd (pstep_sticky (prun_sticky 1 sticky_history2) (Login 1 7)) = Some true.
Proof. vm_compute. repeat split; reflexivity. Qed.
Local Close Scope N_scope.

(* ------------------------------------------------------------------ the text test of the code before the repair *)
(* CheckLDAPUserPassword looked for the words "Invalid Credentials" in the error text.  A replica that
   answers every bind with another result code (busy, unavailable, operations error ...) and a
   diagnostic that mentions those words was taken for a directory that REFUSES: with a healthy second
   replica that would have accepted, alice's right password 7 is rejected and her cached hash evicted;
   with no healthy replica at all the cache should fill the outage and instead the hash is evicted. *)
Definition prun_text (n : nat) (ops : list pop) : pstate :=
  fold_left (fun s o => fst (pstep_text s o)) ops (pinit n).
Local Open Scope N_scope.
Definition misleading_history : list pop :=
  [ChangePw 1 7; PTick 1000%Z; Login 1 7; SetServer 0 SMisleading; Login 1 7].

Lemma old_text_test_refuted :
  let ops := removelast misleading_history in
  (* two replicas, the second is up and the directory accepts *)
  In SUp (servers (prun 2 ops)) /\ dir_accepts (prun 2 ops) 1 7 = true /\
  snd (pstep_text (prun_text 2 ops) (Login 1 7)) = Some false /\
  aget skey_eqb (1, pw_type) (signed (primary (st (fst (pstep_text (prun_text 2 ops) (Login 1 7)))))) = None /\
  snd (pstep (prun 2 ops) (Login 1 7)) = Some true /\
  (* one replica: nobody answers, the cache fills the outage - the text test rejects and evicts *)
  snd (pstep (prun 1 ops) (Login 1 7)) = Some true /\
  snd (pstep_text (prun_text 1 ops) (Login 1 7)) = Some false /\
  aget skey_eqb (1, pw_type) (signed (cache (st (fst (pstep_text (prun_text 1 ops) (Login 1 7)))))) = None.
Proof. vm_compute. repeat split; try reflexivity. right. left. reflexivity. Qed.
Local Close Scope N_scope.

(* only result code 49 is a verdict: any other result code, whatever its diagnostic says, is "this
   server did not answer" *)
Lemma other_code_no_verdict c d : c <> invalid_credentials -> verdict interp_code (RRefused c d) = None.
Proof. intro H. cbn. unfold interp_code. destruct (N.eqb c invalid_credentials) eqn:E; [apply N.eqb_eq in E; congruence|reflexivity]. Qed.

Lemma misleading_replica_silent s ps u pw : try_patterns interp_code s SMisleading ps u pw = None.
Proof. apply try_patterns_silent. discriminate. Qed.

(* ------------------------------------------------------------------ acceptance refreshes WHATEVER was stored *)
(* After a login that a replica answered and the directory accepted (primary writable), the hash
   that decides during an outage is the hash of the password just accepted - whatever the stores
   held for the user before (nothing, the hash of a replaced password, a record written a second
   ago, a tampered row): the row GetSigned yields is the new record, and if from then on no replica
   answers, a login of the user is accepted for exactly that password. *)
Definition with_servers (s : pstate) (svs : list status) : pstate :=
  mk_pstate (st s) (dir s) svs (jwss s) (acct s) (style s) (extra_patterns s) (homes s).

Lemma first_answer_all_silent s svs u pw : ~ In SUp svs -> first_answer s svs u pw = None.
Proof.
  induction svs as [|sv r IH]; intro H; [reflexivity|].
  unfold first_answer in *. cbn [first_answer_gen].
  rewrite try_patterns_silent by (intro E; apply H; left; exact E).
  apply IH. intro I. apply H. right. exact I.
Qed.

Lemma try_patterns_with_servers s svs sv ps u pw :
  try_patterns interp_code (with_servers s svs) sv ps u pw = try_patterns interp_code s sv ps u pw.
Proof. induction ps as [|p r IH]; [reflexivity|]. cbn [try_patterns]. rewrite IH. reflexivity. Qed.

Lemma refresh_whatever_was_stored s u pw :
  In SUp (servers s) -> dir_accepts s u pw = true -> writable (st s) = true ->
  let s' := fst (login s u pw) in
  snd (login s u pw) = true /\
  get_pw true s' u = GOk (mk_jws true u pw (now (st s)) (now (st s) + 96 * 3600)) /\
  forall svs pw', ~ In SUp svs -> snd (login (with_servers s' svs) u pw') = N.eqb pw pw'.
Proof.
  intros Hup Hacc W s'.
  destruct (refreshes s u pw Hup Hacc W) as [HP [HC HJ]].
  fold s' in HP, HC, HJ.
  assert (Hnow : now (st s') = now (st s)).
  { unfold s', login, login_gen. fold (first_answer s (servers s) u pw). rewrite (first_answer_in s _ u pw Hup), Hacc. cbn [fst].
    unfold refresh. rewrite W. cbn [st]. apply now_upsert. }
  assert (G : get_pw true s' u = GOk (mk_jws true u pw (now (st s)) (now (st s) + 96 * 3600))).
  { unfold get_pw, get_signed.
    assert (A : aget skey_eqb (u, pw_type) (signed (if mode_eqb (pmode (st s')) Up then primary (st s') else cache (st s'))) =
                Some (mk_srow (N.of_nat (length (jwss s))) (now (st s) + cache_secs) (now (st s)))).
    { destruct (mode_eqb (pmode (st s')) Up); assumption. }
    rewrite A. unfold unexpired. cbn [sr_exp sr_data]. rewrite Hnow.
    replace (now (st s) <? now (st s) + cache_secs) with true by (symmetry; apply Z.ltb_lt; unfold cache_secs; lia).
    cbv iota. cbn [sr_data]. rewrite HJ. unfold jws_valid. cbn [j_genuine j_nbf j_exp j_sub negb orb andb].
    replace (now (st s) <=? now (st s)) with true by (symmetry; apply Z.leb_le; lia).
    replace (now (st s) <? now (st s) + cache_secs) with true by (symmetry; apply Z.ltb_lt; unfold cache_secs; lia).
    cbn [negb andb]. rewrite N.eqb_refl. cbn [negb]. reflexivity. }
  split; [rewrite (verdict_final s u pw Hup); exact Hacc|].
  split; [exact G|].
  intros svs pw' Hd. unfold login, login_gen. cbn [servers with_servers].
  fold (first_answer (with_servers s' svs) svs u pw'). rewrite first_answer_all_silent by exact Hd.
  cbn [snd].
  replace (get_pw true (with_servers s' svs) u) with (get_pw true s' u) by reflexivity.
  rewrite G. reflexivity.
Qed.
