(* C19 — proofs about Model/ServerKeys.v: offered key types are certified whatever CA key material the daemon runs with *)
From Coq Require Import String.
From KM Require Import Base.Bytes Base.Tactics Model.KeyStrength Model.Client Proofs.Client.
From KM Require Import Model.ServerKeys.

Lemma offered_ssh_accepts alts rsa_bits : offered_all_accepted alts rsa_bits = true ->
  forall p t, In t (offered_ssh p) -> server_accepts_ssh alts rsa_bits t = true.
Proof.
  unfold offered_all_accepted. intros H p t Ht. rewrite forallb_forall in H.
  specialize (H p (all_prefs_complete p)). apply andb_true_iff in H. destruct H as [Hs _].
  rewrite forallb_forall in Hs. exact (Hs t Ht).
Qed.

Lemma offered_x509_accepts alts rsa_bits : offered_all_accepted alts rsa_bits = true ->
  forall p t, In t (offered_x509 p) -> server_accepts_x509 rsa_bits t = true.
Proof.
  unfold offered_all_accepted. intros H p t Ht. rewrite forallb_forall in H.
  specialize (H p (all_prefs_complete p)). apply andb_true_iff in H. destruct H as [_ Hx].
  rewrite forallb_forall in Hx. exact (Hx t Ht).
Qed.

(* what a successful load leaves: the second component is there exactly when an Ed25519 CA file is configured *)
Lemma load_signers_ed k s : load_signers k = Some s -> (snd s = None <-> sk_ed k = None).
Proof.
  unfold load_signers. destruct (load_signer (sk_main k)) as [m|]; [|discriminate].
  destruct (is_main_type m); [|discriminate]. destruct (sk_ed k) as [f|].
  - destruct (load_signer f) as [e|]; [|discriminate]. destruct (is_ed_type e); [|discriminate].
    intro H. inversion H; subst. simpl. split; discriminate.
  - intro H. inversion H; subst. simpl. tauto.
Qed.

(* for every server key material with which the daemon starts (any algorithm and file format of the main CA, with
   or without an Ed25519 CA in either of its formats): every SSH key type the client offers is certified -- the
   Ed25519 key whenever an Ed25519 CA is configured, else the answer is "no such CA" and never a refusal of the
   key -- and every X.509 key type is certified *)
Theorem offered_certified_any_ca alts rsa_bits : offered_all_accepted alts rsa_bits = true ->
  forall k s, load_signers k = Some s -> forall p t,
    (In t (offered_ssh p) -> t <> KEd25519 \/ sk_ed k <> None -> ssh_answer_of alts rsa_bits s t = SshCertified) /\
    (In t (offered_ssh p) -> t = KEd25519 -> sk_ed k = None -> ssh_answer_of alts rsa_bits s t = SshNoSuchCA) /\
    (In t (offered_x509 p) -> x509_certified rsa_bits s t = true).
Proof.
  intros H k s L p t. pose proof (load_signers_ed k s L) as E. split; [|split].
  - intros Ht C. unfold ssh_answer_of, ssh_answer_with. rewrite (offered_ssh_accepts alts rsa_bits H p t Ht).
    destruct t; try reflexivity. destruct (snd s) as [e|] eqn:Se; [reflexivity|].
    destruct C as [C|C]; [congruence|]. exfalso. apply C. apply E. reflexivity.
  - intros Ht -> N. unfold ssh_answer_of, ssh_answer_with. rewrite (offered_ssh_accepts alts rsa_bits H p KEd25519 Ht).
    destruct E as [_ E]. rewrite (E N). reflexivity.
  - intro Ht. exact (offered_x509_accepts alts rsa_bits H p t Ht).
Qed.

(* the key material with which the daemon starts is exactly: a main CA of one of the twelve (algorithm, format)
   pairs and no Ed25519 CA or one in PKCS#8 or OpenSSH form -- the configurations the harness enumerates *)
Lemma server_loads_enumerated k : server_loads k = true <->
  In (sk_main k) all_main_files /\ (sk_ed k = None \/ exists f, sk_ed k = Some f /\ In f all_ed_files).
Proof.
  destruct k as [[ma mf] ed]. unfold server_loads, load_signers. simpl. split.
  - intro H. split.
    + destruct ma, mf; simpl in *; try discriminate; unfold all_main_files; simpl; auto 20.
    + destruct ed as [[ea ef]|]; [right|left; reflexivity].
      exists (mkCaFile ea ef). split; [reflexivity|].
      destruct ma, mf; simpl in H; try discriminate; destruct ea, ef; simpl in H; try discriminate; unfold all_ed_files; simpl; auto.
  - intros [Hm He].
    assert (M : exists m, load_signer (mkCaFile ma mf) = Some m /\ is_main_type m = true).
    { unfold all_main_files in Hm. simpl in Hm. repeat (destruct Hm as [Hm|Hm]; [inversion Hm; subst; eexists; split; reflexivity|]). destruct Hm. }
    destruct M as (m & Lm & Tm). rewrite Lm, Tm.
    destruct He as [->|(f & -> & Hf)]; [reflexivity|].
    unfold all_ed_files in Hf. simpl in Hf. destruct Hf as [<-|[<-|[]]]; reflexivity.
Qed.

(* a signer constructor that knows only the value form of an Ed25519 key refuses the offered ssh-ed25519 key
   when the Ed25519 CA file is in OpenSSH format *)
Definition ex_openssh_ed : server_keys :=
  mkServerKeys (mkCaFile CaRSA FmtPKCS8) (Some (mkCaFile CaEd25519 FmtOpenSSH)).
Lemma value_form_signer_refuses alts rsa_bits : offered_all_accepted alts rsa_bits = true ->
  exists s, load_signers ex_openssh_ed = Some s /\ In KEd25519 (offered_ssh PrefRSA) /\
            ssh_answer_with new_signer_value_forms alts rsa_bits s KEd25519 = SshRefused.
Proof.
  intro H. exists (GoPtrRSA, Some GoEd25519Ptr). split; [reflexivity|]. split; [simpl; auto|].
  unfold ssh_answer_with. rewrite (offered_ssh_accepts alts rsa_bits H PrefRSA KEd25519); [reflexivity|simpl; auto].
Qed.
