(* C08 — properties of the authorization tests and of the profile-store step model. *)
From KM Require Import Base.Bytes Base.Tactics Model.Auth Model.Authz.
Import ListNotations.
Open Scope N_scope.

(* ---- specification side ---- *)

(* operations the statement grants to any administrator, without a hardware-token factor *)
Definition admin_plain_op (o : op) : bool :=
  match o with
  | ViewProfile | ListUsers | AddUser | DeleteUser | NewBootstrapOTP => true
  | _ => false
  end.

(* operations that change or register second-factor tokens *)
Definition token_op (o : op) : bool :=
  match o with
  | ManageU2F _ | ManageTOTP _ | U2FRegBegin | U2FRegFinish | WARegBegin | WARegFinish
  | TOTPGenerate | TOTPValidate => true
  | _ => false
  end.

Definition user_admin_op (o : op) : bool :=
  match o with ListUsers | AddUser | DeleteUser | NewBootstrapOTP => true | _ => false end.

(* the statement: `actor`, holding a session of `level`, may act on `victim`'s data with `o` *)
Definition may_act (adm : bool) (actor : name) (level : N) (victim : name) (o : op) : Prop :=
  victim = actor \/
  (adm = true /\ (admin_plain_op o = true \/ hasb level bU2F = true)).

Definition is_admin_by_config (c : cfg) (u : name) (dir : answer) : Prop :=
  In u (admin_users c) \/
  (exists gs g, dir = Some gs /\ In g gs /\ In g (admin_groups c)).

Definition is_automation_identity (c : cfg) (id : name) (dir : answer) : Prop :=
  In id (automation_users c) \/
  (exists gs g, dir = Some gs /\ In g gs /\ In g (automation_user_groups c)).

(* ---- list membership ---- *)

Lemma mem_In x l : mem x l = true <-> In x l.
Proof.
  unfold mem. rewrite existsb_exists. split.
  - intros [y [Hy He]]. apply N.eqb_eq in He. subst. exact Hy.
  - intros H. exists x. split; [exact H|apply N.eqb_refl].
Qed.

Lemma memn_In x l : memn x l = true <-> In x l.
Proof.
  unfold memn. rewrite existsb_exists. split.
  - intros [y [Hy He]]. apply bs_eqb_eq in He. subst. exact Hy.
  - intros H. exists x. split; [exact H|apply bs_eqb_refl].
Qed.

Lemma empty_spec t : empty t = true <-> t = [].
Proof. destruct t; simpl; split; intros H; congruence. Qed.

Lemma share_In gs l : existsb (fun g => mem g gs) l = true <-> exists g, In g gs /\ In g l.
Proof.
  rewrite existsb_exists. split.
  - intros [g [Hl Hm]]. apply mem_In in Hm. eauto.
  - intros [g [Hg Hl]]. exists g. split; [exact Hl|]. apply mem_In. exact Hg.
Qed.

(* _IsAdminUser says "administrator" exactly for the configured names and group members *)
Lemma raw_is_admin_true c u dir :
  raw_is_admin c u dir = Some true <-> is_admin_by_config c u dir.
Proof.
  unfold raw_is_admin, is_admin_by_config.
  destruct (memn u (admin_users c)) eqn:Em.
  - split; [intros _; left; apply memn_In; exact Em|reflexivity].
  - assert (Hn : ~ In u (admin_users c)).
    { intros H. apply memn_In in H. congruence. }
    destruct (admin_groups c) as [|g0 gr] eqn:Eg.
    + split; [discriminate|]. intros [H|[gs [g [_ [_ H]]]]]; [contradiction|destruct H].
    + rewrite <- Eg. destruct dir as [gs|].
      * split.
        -- intros H. injection H as H. apply share_In in H. destruct H as [g [Hg Hl]].
           right. exists gs, g. auto.
        -- intros [H|[gs' [g [Hd [Hg Hl]]]]]; [contradiction|].
           injection Hd as <-. f_equal. apply share_In. eauto.
      * split; [discriminate|]. intros [H|[gs [g [H _]]]]; [contradiction|discriminate].
Qed.

Lemma is_automation_user_true c id dir :
  is_automation_user c id dir = Some true <-> is_automation_identity c id dir.
Proof.
  unfold is_automation_user, is_automation_identity.
  destruct (memn id (automation_users c)) eqn:Em.
  - split; [intros _; left; apply memn_In; exact Em|reflexivity].
  - assert (Hn : ~ In id (automation_users c)).
    { intros H. apply memn_In in H. congruence. }
    destruct dir as [gs|].
    + split.
      * intros H. injection H as H. apply share_In in H. destruct H as [g [Hg Hl]].
        right. exists gs, g. auto.
      * intros [H|[gs' [g [Hd [Hg Hl]]]]]; [contradiction|].
        injection Hd as <-. f_equal. apply share_In. eauto.
    + split; [discriminate|]. intros [H|[gs [g [H _]]]]; [contradiction|discriminate].
Qed.

(* ---- the authorization tests ---- *)

Lemma admin_and_u2f_true adm level :
  admin_and_u2f adm level = true <-> adm = true /\ hasb level bU2F = true.
Proof. unfold admin_and_u2f. apply andb_true_iff. Qed.

Theorem authorize_sound c adm actor level target o :
  o <> RoleCert ->
  authorize c adm actor level target o = Allow ->
  may_act adm actor level (effective_target actor target o) o.
Proof.
  intros Hrc H. unfold may_act.
  destruct o; simpl in *; try congruence.
  - (* ViewProfile *)
    destruct (empty target); [left; reflexivity|].
    destruct adm; simpl in H; [right; auto|discriminate].
  - (* ManageU2F *)
    destruct (admin_and_u2f adm level) eqn:Ea; simpl in H.
    + apply admin_and_u2f_true in Ea. right. tauto.
    + destruct (bs_eqb target actor) eqn:Et; simpl in H; [|discriminate].
      apply bs_eqb_eq in Et. left; exact Et.
  - destruct (admin_and_u2f adm level) eqn:Ea; simpl in H.
    + apply admin_and_u2f_true in Ea. right. tauto.
    + destruct (bs_eqb target actor) eqn:Et; simpl in H; [|discriminate].
      apply bs_eqb_eq in Et. left; exact Et.
  - destruct (admin_and_u2f adm level) eqn:Ea; simpl in H.
    + apply admin_and_u2f_true in Ea. right. tauto.
    + destruct (bs_eqb actor target) eqn:Et; simpl in H; [|discriminate].
      apply bs_eqb_eq in Et. left; auto.
  - destruct (admin_and_u2f adm level) eqn:Ea; simpl in H.
    + apply admin_and_u2f_true in Ea. right. tauto.
    + destruct (bs_eqb actor target) eqn:Et; simpl in H; [|discriminate].
      apply bs_eqb_eq in Et. left; auto.
  - destruct (admin_and_u2f adm level) eqn:Ea; simpl in H.
    + apply admin_and_u2f_true in Ea. right. tauto.
    + destruct (bs_eqb actor target) eqn:Et; simpl in H; [|discriminate].
      apply bs_eqb_eq in Et. left; auto.
  - destruct (admin_and_u2f adm level) eqn:Ea; simpl in H.
    + apply admin_and_u2f_true in Ea. right. tauto.
    + destruct (bs_eqb actor target) eqn:Et; simpl in H; [|discriminate].
      apply bs_eqb_eq in Et. left; auto.
  - left; reflexivity.
  - left; reflexivity.
  - destruct adm; simpl in H; [right; auto|discriminate].
  - destruct adm; simpl in H; [right; auto|discriminate].
  - destruct adm; simpl in H; [right; auto|discriminate].
  - destruct adm; simpl in H; [right; auto|discriminate].
Qed.

(* listing, adding, deleting users, bootstrap OTPs, and naming a user in /profile/<user> *)
Theorem admin_only c adm actor level target o :
  user_admin_op o = true \/ (o = ViewProfile /\ target <> []) ->
  authorize c adm actor level target o = Allow -> adm = true.
Proof.
  intros [Ho|[-> Ht]] H.
  - destruct o; simpl in Ho; try discriminate; simpl in H; destruct adm; auto; discriminate.
  - simpl in H. destruct target as [|x t]; [contradiction|]. simpl in H. destruct adm; auto; discriminate.
Qed.

(* another user's tokens: administrator AND hardware-token factor on the session *)
Theorem other_tokens_need_u2f c adm actor level target o :
  token_op o = true ->
  effective_target actor target o <> actor ->
  authorize c adm actor level target o = Allow ->
  adm = true /\ hasb level bU2F = true.
Proof.
  intros Ho Hne H.
  assert (Hrc : o <> RoleCert) by (intros ->; discriminate).
  destruct (authorize_sound c adm actor level target o Hrc H) as [Hs|[Ha [Hp|Hu]]].
  - contradiction.
  - destruct o; simpl in Ho, Hp; discriminate.
  - auto.
Qed.

Theorem rolecert_authorized c adm actor level target :
  authorize c adm actor level target RoleCert = Allow ->
  adm = true \/ In actor (automation_admins c).
Proof.
  simpl. unfold is_automation_admin. destruct adm; [left; reflexivity|]. simpl.
  destruct (memn actor (automation_admins c)) eqn:Em; simpl; [|discriminate].
  intros _. right. apply memn_In. exact Em.
Qed.

(* ---- the store ---- *)

Lemma find_remove_other s t u : u <> t -> find (remove s t) u = find s u.
Proof.
  intros Hne. induction s as [|[k p] r IH]; [reflexivity|]. simpl.
  destruct (bs_eqb k t) eqn:Ekt.
  - apply bs_eqb_eq in Ekt. subst k.
    destruct (bs_eqb t u) eqn:Etu; [apply bs_eqb_eq in Etu; congruence|exact IH].
  - simpl. destruct (bs_eqb k u); [reflexivity|exact IH].
Qed.

Lemma find_save_other s t p u : u <> t -> find (save s t p) u = find s u.
Proof.
  intros Hne. unfold save. simpl.
  destruct (bs_eqb t u) eqn:E; [apply bs_eqb_eq in E; congruence|].
  apply find_remove_other. exact Hne.
Qed.

(* what `perform` can do to the store: nothing, or (with a success response) rewrite or delete
   the row of the effective target *)
Lemma perform_shape c s r actor t :
  fst (perform c s r actor t) = s \/
  (snd (perform c s r actor t) = ROk /\
   ((exists p, fst (perform c s r actor t) = save s t p) \/ fst (perform c s r actor t) = remove s t)).
Proof.
  unfold perform.
  destruct (r_op r);
    repeat match goal with
           | |- context [match ?x with _ => _ end] => destruct x
           end; simpl; eauto.
Qed.

Lemma perform_rolecert c s r actor t : r_op r = RoleCert -> fst (perform c s r actor t) = s.
Proof.
  intros H. unfold perform. rewrite H.
  repeat match goal with
         | |- context [match ?x with _ => _ end] => destruct x
         end; reflexivity.
Qed.

Lemma perform_other c s r actor t u : u <> t -> find (fst (perform c s r actor t)) u = find s u.
Proof.
  intros Hne. destruct (perform_shape c s r actor t) as [->|[_ [[p ->]| ->]]].
  - reflexivity.
  - apply find_save_other; exact Hne.
  - apply find_remove_other; exact Hne.
Qed.

(* anything but a success response leaves the whole store as it was *)
Theorem not_ok_untouched c s r : snd (step c s r) <> ROk -> fst (step c s r) = s.
Proof.
  unfold step.
  destruct (authenticate (required_for c (r_op r)) (resolve c (r_cred r))) as [[actor level]|]; [|reflexivity].
  destruct (post_before_authz (r_op r) && negb (r_post r)); [reflexivity|].
  destruct (authorize c (r_adm r) actor level (r_target r) (r_op r)); [|reflexivity].
  destruct (post_after_authz (r_op r) && negb (r_post r)); [reflexivity|].
  intros H.
  destruct (perform_shape c s r actor (effective_target actor (r_target r) (r_op r))) as [H1|[H1 _]];
    [exact H1|contradiction].
Qed.

(* an unauthenticated request is refused *)
Theorem unauthenticated_denied c s r :
  authenticate (required_for c (r_op r)) (resolve c (r_cred r)) = None -> step c s r = (s, RDenied).
Proof. intros H. unfold step. rewrite H. reflexivity. Qed.

(* a request the handler's test refuses changes nothing, and the answer is not a success *)
Theorem deny_untouched c s r actor level :
  authenticate (required_for c (r_op r)) (resolve c (r_cred r)) = Some (actor, level) ->
  authorize c (r_adm r) actor level (r_target r) (r_op r) = Deny ->
  fst (step c s r) = s /\ snd (step c s r) <> ROk.
Proof.
  intros Ha Hd. unfold step. rewrite Ha.
  destruct (post_before_authz (r_op r) && negb (r_post r)); [split; [reflexivity|discriminate]|].
  rewrite Hd. split; [reflexivity|discriminate].
Qed.

(* a success response means: authenticated, and the handler's test allowed it *)
Theorem ok_authorized c s r :
  snd (step c s r) = ROk ->
  exists actor level,
    authenticate (required_for c (r_op r)) (resolve c (r_cred r)) = Some (actor, level) /\
    authorize c (r_adm r) actor level (r_target r) (r_op r) = Allow.
Proof.
  unfold step.
  destruct (authenticate (required_for c (r_op r)) (resolve c (r_cred r))) as [[actor level]|]; [|discriminate].
  destruct (post_before_authz (r_op r) && negb (r_post r)); [discriminate|].
  destruct (authorize c (r_adm r) actor level (r_target r) (r_op r)) eqn:Ea; [|discriminate].
  intros _. exists actor, level. auto.
Qed.

(* one step changes at most the row of the effective target, and only when allowed *)
Lemma step_change c s r v :
  find (fst (step c s r)) v = find s v \/
  (exists actor level,
     authenticate (required_for c (r_op r)) (resolve c (r_cred r)) = Some (actor, level) /\
     authorize c (r_adm r) actor level (r_target r) (r_op r) = Allow /\
     v = effective_target actor (r_target r) (r_op r) /\ r_op r <> RoleCert).
Proof.
  unfold step.
  destruct (authenticate (required_for c (r_op r)) (resolve c (r_cred r))) as [[actor level]|]; [|left; reflexivity].
  destruct (post_before_authz (r_op r) && negb (r_post r)); [left; reflexivity|].
  destruct (authorize c (r_adm r) actor level (r_target r) (r_op r)) eqn:Ea; [|left; reflexivity].
  destruct (post_after_authz (r_op r) && negb (r_post r)); [left; reflexivity|].
  destruct (list_eq_dec N.eq_dec v (effective_target actor (r_target r) (r_op r))) as [Hv|Hv].
  - destruct (r_op r) eqn:Eo;
      try (right; exists actor, level; repeat split; auto; discriminate).
    left. rewrite perform_rolecert by exact Eo. reflexivity.
  - left. apply perform_other. exact Hv.
Qed.

Theorem only_target_changes c s r actor level u :
  authenticate (required_for c (r_op r)) (resolve c (r_cred r)) = Some (actor, level) ->
  u <> effective_target actor (r_target r) (r_op r) ->
  find (fst (step c s r)) u = find s u.
Proof.
  intros Ha Hu. destruct (step_change c s r u) as [H|[a [l [Ha' [_ [Hv _]]]]]]; [exact H|].
  rewrite Ha in Ha'. injection Ha' as <- <-. contradiction.
Qed.

(* histories: whoever's row differs after any sequence of requests, some request in the
   sequence was made by that user, or by an administrator (with the hardware-token factor
   unless the operation is plain user administration) *)
Theorem history_sound c : forall reqs s v,
  find (run c s reqs) v <> find s v ->
  exists r actor level,
    In r reqs /\
    authenticate (required_for c (r_op r)) (resolve c (r_cred r)) = Some (actor, level) /\
    may_act (r_adm r) actor level v (r_op r).
Proof.
  induction reqs as [|r rest IH]; intros s v Hd; [exfalso; apply Hd; reflexivity|].
  simpl in Hd.
  destruct (step_change c s r v) as [Hsame|[actor [level [Ha [Hal [Hv Hrc]]]]]].
  - rewrite <- Hsame in Hd. destruct (IH _ _ Hd) as [r' [a [l [Hin H]]]].
    exists r', a, l. split; [right; exact Hin|exact H].
  - exists r, actor, level. split; [left; reflexivity|]. split; [exact Ha|].
    rewrite Hv. apply (authorize_sound c _ _ _ _ _ Hrc Hal).
Qed.

(* role certificates *)
Theorem rolecert_sound c s r :
  r_op r = RoleCert -> snd (step c s r) = ROk ->
  exists actor level,
    authenticate (required_for c RoleCert) (resolve c (r_cred r)) = Some (actor, level) /\
    (r_adm r = true \/ In actor (automation_admins c)) /\
    is_automation_identity c (r_target r) (r_dir_target r) /\
    fst (step c s r) = s.
Proof.
  intros Ho Hok.
  destruct (ok_authorized c s r Hok) as [actor [level [Ha Hal]]].
  rewrite Ho in Ha, Hal.
  exists actor, level. split; [exact Ha|]. split; [apply (rolecert_authorized _ _ _ _ _ Hal)|].
  revert Hok. unfold step. rewrite Ho, Ha.
  simpl post_before_authz. simpl andb. rewrite Hal.
  destruct (r_post r); [|simpl; discriminate]. simpl negb. cbv iota.
  unfold perform. rewrite Ho. simpl effective_target.
  destruct (empty (r_target r)); [simpl; discriminate|].
  destruct (is_automation_user c (r_target r) (r_dir_target r)) as [[|]|] eqn:Eu;
    try (simpl; discriminate).
  intros _. split; [apply is_automation_user_true; exact Eu|].
  destruct (r_params_ok r); reflexivity.
Qed.

(* ---- the two credential shapes are treated by Model/Auth.v's checkAuth in the same way ---- *)

(* Model/Auth.v keeps users abstract (numbers): [uid] is any numbering of the names *)
Section Numbering.
Variable uid : name -> N.

Definition good_token (u : name) (level : N) (now : Z) : token :=
  {| t_signer_trusted := true; t_alg_allowed := true; t_tampered := false; t_iss_ok := true;
     t_aud_ok := true; t_kind := 0; t_nbf := now; t_exp := now; t_iat := now;
     t_sub := uid u; t_level := level |}.

Definition good_chain (u : name) (now : Z) : tlsinfo :=
  {| c_chain2 := true; c_issuer := MainCA; c_issuer_key_trusted := true; c_cn := uid u;
     c_denied := false; c_not_before := now; c_ip_error := false; c_ip_valid := false;
     c_automation := false; c_revoked := false |}.

Definition role_chain (u : name) (now : Z) : tlsinfo :=
  {| c_chain2 := true; c_issuer := RoleCA; c_issuer_key_trusted := true; c_cn := uid u;
     c_denied := false; c_not_before := now; c_ip_error := false; c_ip_valid := true;
     c_automation := true; c_revoked := false |}.

Definition request_of (cr : cred) (now : Z) : Auth.request :=
  match cr with
  | NoCred => {| r_get := true; r_origin := NoOrigin; r_tls := None; Auth.r_cred := Auth.NoCred |}
  | Session u l => {| r_get := true; r_origin := NoOrigin; r_tls := None;
                      Auth.r_cred := Cookie (good_token u l now) |}
  | KMCert u => {| r_get := true; r_origin := NoOrigin; r_tls := Some (good_chain u now);
                   Auth.r_cred := Auth.NoCred |}
  | IPCert u => {| r_get := true; r_origin := NoOrigin; r_tls := Some (role_chain u now);
                   Auth.r_cred := Auth.NoCred |}
  | Login _ _ => {| r_get := true; r_origin := NoOrigin; r_tls := None; Auth.r_cred := Auth.NoCred |}
  end.

Lemma authenticate_is_check_auth required cr now :
  hasb required bIPCert = false ->
  match authenticate required cr with
  | Some (u, l) => exists iat, check_auth now true required (request_of cr now) = Admit (uid u) l iat
  | None => exists code, check_auth now true required (request_of cr now) = Refuse code
  end.
Proof.
  intros Hip. destruct cr as [|u l|u|u|u l]; simpl.
  - eexists; reflexivity.
  - unfold check_auth. simpl. unfold token_ok. simpl.
    rewrite Z.leb_refl, Z.ltb_irrefl. simpl.
    destruct (hasb l required); simpl; eexists; reflexivity.
  - unfold check_auth. cbn [request_of r_get r_origin r_tls Auth.r_cred authenticate].
    destruct (hasb required bKMX509) eqn:Ek.
    + assert (Hor : hasb required (N.lor bIPCert bKMX509) = true).
      { unfold hasb in *. apply negb_true_iff. apply N.eqb_neq.
        apply negb_true_iff in Ek. apply N.eqb_neq in Ek.
        intros H. apply Ek. rewrite N.land_lor_distr_r in H. apply N.lor_eq_0_iff in H. tauto. }
      rewrite Hor, Hip. exists now. reflexivity.
    + assert (Hor : hasb required (N.lor bIPCert bKMX509) = false).
      { unfold hasb in *. apply negb_false_iff. apply N.eqb_eq.
        apply negb_false_iff in Ek. apply N.eqb_eq in Ek.
        apply negb_false_iff in Hip. apply N.eqb_eq in Hip.
        rewrite N.land_lor_distr_r, Ek, Hip. reflexivity. }
      rewrite Hor. eexists; reflexivity.
  - unfold check_auth. cbn [request_of r_get r_origin r_tls Auth.r_cred authenticate].
    rewrite Hip. destruct (hasb required (N.lor bIPCert bKMX509)); eexists; reflexivity.
  - eexists; reflexivity.
Qed.
End Numbering.
