From Coq Require Import List NArith ZArith Bool Lia.
From KM Require Import Model.Session Proofs.Session Model.SessionPure.
Import ListNotations.

Lemma set_ghost_same s : set_ghost s (proved s) (spent s) = s.
Proof. destruct s; reflexivity. Qed.

Lemma upgrade_none k s u cs lvl s2 : upgrade k s u cs lvl = (s2, None) -> s2 = s.
Proof.
  unfold upgrade. destruct (pick_sel (upg_last k) (attached s cs)) as [c|]; [|intros H; now inversion H].
  destruct (upgrade_checks_owner k && negb (N.eqb (cuser c) u)); intros H; now inversion H.
Qed.

Lemma upgrade_proved k s u cs lvl s2 out : upgrade k s u cs lvl = (s2, out) -> proved s2 = proved s.
Proof. intros H. now destruct (upgrade_fields _ _ _ _ _ _ _ H) as [_ [_ [_ [_ [_ [_ [_ [F _]]]]]]]]. Qed.

Ltac grown :=
  match goal with
  | HU : upgrade _ _ _ _ _ = (_, _) |- _ => pose proof (upgrade_proved _ _ _ _ _ _ _ HU) as HP;
      repeat match type of HP with context [if ?b then _ else _] => destruct b end; revert HP; sset; intros HP
  end.

Lemma refused_pure_req k cert fault s o :
  attempt_req o = true ->
  length (proved (fst (step_req k cert fault s o))) = length (proved s) ->
  snd (step_req k cert fault s o) = None ->
  fst (step_req k cert fault s o) = s.
Proof.
  intros Ha. destruct o; try discriminate; clear Ha; cbn [step_req]; cbv zeta; break_step; sset; try reflexivity;
  repeat (match goal with |- context [if ?b then _ else _] => destruct b end; sset);
  try (intros HL _; exfalso; try (grown; rewrite HP in HL); cbn [length] in HL; lia).
  (* what is left: a poll whose transaction the service does not know — no ghost entry; nothing
     emitted means the upgrade did nothing *)
  all: intros _ HN; subst; match goal with HU : upgrade _ _ _ _ _ = (_, None) |- _ => apply upgrade_none in HU; subst end; apply set_ghost_same.
Qed.

Lemma refused_pure k s o :
  attempt o = true -> refused k s o = true -> step k s o = (found s o, None).
Proof.
  intros Ha Hr. unfold refused in Hr. apply andb_true_iff in Hr. destruct Hr as [HL HN].
  apply Nat.eqb_eq in HL. destruct (snd (step k s o)) eqn:E; [discriminate|].
  assert (fst (step k s o) = found s o).
  { destruct o; cbn [attempt found step] in *; try discriminate;
    try (apply refused_pure_req; assumption).
    all: apply refused_pure_req; assumption. }
  destruct (step k s o); cbn [fst snd] in *; subst; reflexivity.
Qed.

Lemma found_durable s o : durable (found s o) = durable s.
Proof. destruct o; try reflexivity. destruct cert; reflexivity. Qed.

Lemma refused_durable k s o :
  attempt o = true -> refused k s o = true -> durable (fst (step k s o)) = durable s.
Proof. intros Ha Hr. rewrite (refused_pure k s o Ha Hr). cbn [fst]. apply found_durable. Qed.

Lemma found_plain s o : plain o = true -> found s o = s.
Proof. destruct o; try reflexivity. destruct cert; [discriminate|reflexivity]. Qed.

(* a refused attempt commutes with any other request: whichever of the two runs first, the final state and
   the other request's answer are those of the other request alone *)
Lemma refused_commutes k s w b :
  attempt w = true -> plain w = true ->
  refused k s w = true -> refused k (fst (step k s b)) w = true ->
  both k s w b = (fst (step k s b), (None, snd (step k s b))) /\
  both k s b w = (fst (step k s b), (snd (step k s b), None)).
Proof.
  intros Ha Hp H1 H2. unfold both.
  rewrite (refused_pure k s w Ha H1), (found_plain s w Hp).
  destruct (step k s b) as [s1 ob] eqn:E. cbn [fst snd] in *.
  rewrite (refused_pure k s1 w Ha H2), (found_plain s1 w Hp). split; reflexivity.
Qed.

(* non-vacuity: a wrong bootstrap OTP is refused, the right one is not; same for a TOTP code *)
Definition dev_boot : devices := {| has_totp := false; has_u2f := false; has_wa := false; has_profile := true |}.
Definition dev_totp : devices := {| has_totp := true; has_u2f := false; has_wa := false; has_profile := true |}.
Definition kx : config := fixed (fun u => if N.eqb u 1 then dev_totp else dev_boot) (2 ^ F_U2F).
Definition s_pending : st := fst (run kx init [Tick 3000; Login 1 true []; Login 2 true []; IssueOtp 2 600]).
Example refused_examples :
  refused kx s_pending (Bootstrap [1%nat] BBad) = true /\
  refused kx s_pending (Bootstrap [1%nat] (BCode 2 0)) = false /\
  refused kx s_pending (Totp [0%nat] TBad) = true /\
  refused kx s_pending (Totp [0%nat] (TCode 1 100)) = false /\
  (* the pair of the seeded situation: right value || wrong value, then the right value again on another session *)
  snd (both kx (fst (both kx s_pending (Bootstrap [1%nat] BBad) (Bootstrap [1%nat] (BCode 2 0)))) (Login 2 true []) (Bootstrap [3%nat] (BCode 2 0))) = (snd (step kx s_pending (Login 2 true [])), None).
Proof. vm_compute. repeat split. Qed.
