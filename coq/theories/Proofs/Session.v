(* C05 — invariants of the session state machine *)
From Coq Require Import List NArith ZArith Bool Lia.
From KM Require Import Base.Tactics Model.Session.
Import ListNotations.

(* ---------------------------------------------------------------- bit sets *)
Lemma has_add l f g : has (add l f) g = has l g || N.eqb f g.
Proof. unfold has, add. rewrite N.lor_spec, N.pow2_bits_eqb. reflexivity. Qed.
Lemma has_zero g : has 0 g = false.
Proof. apply N.bits_0. Qed.

(* ---------------------------------------------------------------- sessions *)
Lemma attached_in s cs c : In (Some c) (attached s cs) -> In c (issued s).
Proof.
  unfold attached. rewrite in_map_iff. intros [i [H _]]. eapply nth_error_In; eauto.
Qed.

Lemma last_in {A} (l : list A) (d x : A) : last l d = x -> x <> d -> In x l.
Proof.
  induction l as [|a r IH]; [simpl; intros -> H; contradiction|]. destruct r as [|b r'].
  - simpl. intros -> _. now left.
  - intros H Hd. right. apply IH; assumption.
Qed.

Lemma pick_sel_in b s cs c : pick_sel b (attached s cs) = Some c -> In c (issued s).
Proof.
  unfold pick_sel. destruct b; intros H; apply (attached_in s cs).
  - apply (last_in _ None); [exact H|discriminate].
  - destruct (attached s cs); simpl in H; [discriminate|]. subst. now left.
Qed.

Lemma session_pick k s cs m c : session k s cs m = Some c -> pick k (attached s cs) = Some c /\ (now s < cexp c)%Z.
Proof.
  unfold session. destruct (pick k (attached s cs)) as [c'|] eqn:P; [|discriminate].
  destruct (cexp c' <=? now s)%Z eqn:E; [discriminate|]. apply Z.leb_gt in E.
  destruct (N.eqb (N.land (clevel c') m) 0); [discriminate|]. intros H; inversion H; subst. auto.
Qed.

Lemma session_in k s cs m c : session k s cs m = Some c -> In c (issued s).
Proof. intros H. apply session_pick in H. destruct H as [H _]. eapply pick_sel_in; exact H. Qed.

(* ---------------------------------------------------------------- the provenance invariant *)
(* factor f was verified for user u at or after time t0 *)
Definition since (P : list (N * N * Z)) (u f : N) (t0 : Z) : Prop := exists t, (t0 <= t)%Z /\ In (u, f, t) P.

Lemma since_incl P P' u f t0 : incl P P' -> since P u f t0 -> since P' u f t0.
Proof. intros Hi [t [H1 H2]]. exists t. split; [exact H1|apply Hi, H2]. Qed.

Lemma since_earlier P u f t0 t1 : (t1 <= t0)%Z -> since P u f t0 -> since P u f t1.
Proof. intros Hle [t [H1 H2]]. exists t. split; [lia|exact H2]. Qed.

(* every factor of every issued cookie was verified for the cookie's own user DURING the session
   the cookie belongs to: not before the session's iat (which the upgrade keeps) *)
Definition justified (s : st) (c : cookie) : Prop :=
  (ciat c <= now s)%Z /\ forall f, has (clevel c) f = true -> since (proved s) (cuser c) f (ciat c).

Definition Inv (s : st) : Prop :=
  (forall c, In c (issued s) -> justified s c) /\
  (forall e, In e (txs s) -> (fst e < fresh s)%N) /\
  (forall e, In e (vip s) -> tx_user s (vtx e) = Some (vuser e)) /\
  (forall tx, In tx (approved s) -> exists u t, tx_user s tx = Some u /\ In (u, F_VIP, t) (proved s)).

Lemma Inv_init : Inv init.
Proof. repeat split; simpl; intros; contradiction. Qed.

(* steps that leave the VIP bookkeeping alone, only add to `proved`, never turn the clock back, and
   only add justified cookies *)
Lemma Inv_mono s s' :
  Inv s -> txs s' = txs s -> vip s' = vip s -> approved s' = approved s -> (fresh s <= fresh s')%N ->
  incl (proved s) (proved s') -> (now s <= now s')%Z ->
  (forall c, In c (issued s') -> In c (issued s) \/ justified s' c) ->
  Inv s'.
Proof.
  intros [I1 [I2 [I3 I4]]] Ht Hv Ha Hf Hp Hn Hc. unfold Inv, tx_user. rewrite Ht, Hv, Ha.
  split; [|split; [|split]].
  - intros c Hin. destruct (Hc c Hin) as [Hold|Hnew]; [|exact Hnew].
    destruct (I1 c Hold) as [J1 J2]. split; [lia|]. intros f Hf'. apply (since_incl (proved s)); [exact Hp|apply J2, Hf'].
  - intros e He. specialize (I2 e He). lia.
  - exact I3.
  - intros tx Htx. destruct (I4 tx Htx) as [u [t [H1 H2]]]. exists u, t. split; [exact H1|apply Hp, H2].
Qed.

Lemma in_app_single {A} (l : list A) x c : In c (l ++ [x]) -> In c l \/ c = x.
Proof. intros H. apply in_app_or in H. destruct H as [H|[H|[]]]; auto. Qed.

Lemma tx_user_cons_other s tx u tx' :
  tx <> tx' ->
  match find (fun e => N.eqb (fst e) tx') ((tx, u) :: txs s) with Some e => Some (snd e) | None => None end
  = tx_user s tx'.
Proof. intros H. unfold tx_user. simpl. destruct (N.eqb tx tx') eqn:E; [apply N.eqb_eq in E; contradiction|reflexivity]. Qed.

Lemma tx_user_lt s tx u : Inv s -> tx_user s tx = Some u -> (tx < fresh s)%N.
Proof.
  intros [_ [I2 _]] H. unfold tx_user in H.
  destruct (find (fun e => N.eqb (fst e) tx) (txs s)) as [e|] eqn:F; [|discriminate].
  apply find_some in F. destruct F as [Hin He]. apply N.eqb_eq in He. subst tx. apply I2, Hin.
Qed.

Lemma find_vip_in k s v e : find_vip k s v = Some e -> In e (vip s).
Proof.
  unfold find_vip, find_vip_raw. destruct (find (fun e0 => N.eqb (vc e0) v) (vip s)) as [e0|] eqn:F; [|discriminate].
  destruct (vip_expiry k && (vexp e0 <=? now s)%Z); [discriminate|]. intros H; inversion H; subst.
  apply find_some in F. tauto.
Qed.

Lemma is_approved_in s tx : is_approved s tx = true -> In tx (approved s).
Proof. unfold is_approved. rewrite existsb_exists. intros [x [Hx E]]. apply N.eqb_eq in E. now subst. Qed.

Ltac break_step :=
  repeat match goal with
  | |- context [match auth ?k ?s ?c ?cs ?m with _ => _ end] => destruct (auth k s c cs m) as [[? ?]|] eqn:?
  | |- context [match upgrade ?k ?s ?u ?cs ?l with _ => _ end] => destruct (upgrade k s u cs l) as [? ?] eqn:?
  | |- context [match ?x with VGood _ => _ | VBad => _ end] => destruct x
  | |- context [match ?x with TCode _ _ => _ | TBad => _ end] => destruct x
  | |- context [match ?x with BCode _ _ => _ | BBad => _ end] => destruct x
  | |- context [match find_vip ?k ?s ?v with _ => _ end] => destruct (find_vip k s v) eqn:?
  | |- context [match tx_user ?s ?v with _ => _ end] => destruct (tx_user s v) eqn:?
  | |- context [match chal ?s ?v with _ => _ end] => destruct (chal s v) eqn:?
  | |- context [match boot ?s ?v with _ => _ end] => destruct (boot s v) eqn:?
  | |- context [match nth_error ?l ?v with _ => _ end] => destruct (nth_error l v) eqn:?
  | |- context [if ?b then _ else _] => destruct b eqn:?
  end.

Ltac sset := cbn [issued tokens vip txs approved chal last_totp boot proved spent now fresh minted okta opush acks saved_totp
                  set_ghost set_issued set_chal set_boot set_totp set_okta mint fst snd cuser clevel ciat cexp].
Ltac mono s := apply (Inv_mono s); sset; auto using incl_refl, incl_tl, N.le_refl, Z.le_refl; try lia.

Ltac clean :=
  repeat match goal with
  | H : _ && _ = true |- _ => apply andb_true_iff in H; destruct H
  | H : N.eqb _ _ = true |- _ => apply N.eqb_eq in H
  | H : negb _ = false |- _ => apply negb_false_iff in H
  end.

(* ---- what a request is authenticated as ---- *)
Lemma attached_ext s s' cs : issued s' = issued s -> attached s' cs = attached s cs.
Proof. intros H. unfold attached. rewrite H. reflexivity. Qed.

(* the client certificate's user has the certificate factor on record, verified now *)
Definition cert_known (s : st) (cert : option N) : Prop :=
  forall u, cert = Some u -> In (u, F_X509, now s) (proved s).

(* every factor of the authenticated level was verified for the authenticated user — and not
   before the iat of the cookie the upgrade is going to re-sign, when both functions look at the
   same one of several attached cookies *)
Lemma auth_since k s cert cs m u l :
  sel_last k = upg_last k -> Inv s -> cert_known s cert -> auth k s cert cs m = Some (u, l) ->
  forall c, pick_sel (upg_last k) (attached s cs) = Some c ->
  forall g, has l g = true -> since (proved s) u g (ciat c).
Proof.
  intros Hsel [I1 _] Hc. unfold auth.
  destruct (if N.eqb (N.land m cert_mask) 0 then None else cert) as [u0|] eqn:E.
  - intros H c Hp g Hg. inversion H; subst u0 l. rewrite has_add, has_zero in Hg. apply N.eqb_eq in Hg. subst g.
    destruct (I1 c (pick_sel_in _ _ _ _ Hp)) as [J1 _]. exists (now s). split; [exact J1|].
    apply Hc. destruct (N.eqb (N.land m cert_mask) 0); [discriminate|exact E].
  - destruct (session k s cs m) as [c0|] eqn:S; [|discriminate]. intros H c Hp g Hg. inversion H; subst u l.
    destruct (session_pick _ _ _ _ _ S) as [P _]. unfold pick in P. rewrite Hsel, Hp in P. inversion P; subst c0.
    destruct (I1 c (pick_sel_in _ _ _ _ Hp)) as [_ J2]. apply J2, Hg.
Qed.

(* ... in any case it was verified for that user at some time *)
Lemma auth_proved k s cert cs m u l :
  Inv s -> cert_known s cert -> auth k s cert cs m = Some (u, l) ->
  forall g, has l g = true -> exists t, In (u, g, t) (proved s).
Proof.
  intros [I1 _] Hc. unfold auth.
  destruct (if N.eqb (N.land m cert_mask) 0 then None else cert) as [u0|] eqn:E.
  - intros H g Hg. inversion H; subst u0 l. rewrite has_add, has_zero in Hg. apply N.eqb_eq in Hg. subst g.
    exists (now s). apply Hc. destruct (N.eqb (N.land m cert_mask) 0); [discriminate|exact E].
  - destruct (session k s cs m) as [c|] eqn:S; [|discriminate]. intros H g Hg. inversion H; subst u l.
    destruct (I1 c (session_in _ _ _ _ _ S)) as [_ J2]. destruct (J2 g Hg) as [t [_ Ht]]. exists t. exact Ht.
Qed.

(* updateAuthCookieAuthlevel touches nothing but the list of issued cookies *)
Lemma upgrade_fields k s u cs lvl s2 out :
  upgrade k s u cs lvl = (s2, out) ->
  tokens s2 = tokens s /\ vip s2 = vip s /\ txs s2 = txs s /\ approved s2 = approved s /\ chal s2 = chal s /\
  last_totp s2 = last_totp s /\ boot s2 = boot s /\ proved s2 = proved s /\ spent s2 = spent s /\
  now s2 = now s /\ fresh s2 = fresh s.
Proof.
  unfold upgrade. destruct (pick_sel (upg_last k) (attached s cs)) as [c|]; [|intros H; inversion H; subst; repeat split].
  destruct (upgrade_checks_owner k && negb (N.eqb (cuser c) u)); intros H; inversion H; subst; repeat split.
Qed.

(* ... and the cookie it adds is the chosen cookie of the authenticated user (repaired code) with
   the level it was given; sub, iat and exp are kept *)
Lemma upgrade_issued k s u cs lvl s2 out :
  upgrade_checks_owner k = true -> upgrade k s u cs lvl = (s2, out) ->
  (issued s2 = issued s /\ out = None) \/
  (exists c, pick_sel (upg_last k) (attached s cs) = Some c /\ cuser c = u /\
             let c' := {| cuser := u; clevel := lvl; ciat := ciat c; cexp := cexp c |} in
             issued s2 = issued s ++ [c'] /\ out = Some c').
Proof.
  intros Hk. unfold upgrade. destruct (pick_sel (upg_last k) (attached s cs)) as [c|]; [|intros H; inversion H; subst; now left].
  rewrite Hk. cbn [andb]. destruct (N.eqb (cuser c) u) eqn:E; cbn [negb]; intros H; inversion H; subst.
  - apply N.eqb_eq in E. right. exists c. rewrite E. repeat split; reflexivity.
  - now left.
Qed.

(* the general shape of a second-factor success: some Inv-irrelevant effect (s -> s1), the upgrade
   at level lvl for the authenticated user u, then the ghost record of what was proved *)
Lemma upgrade_ghost_Inv k s s1 u cs lvl s2 out extra sp :
  upgrade_checks_owner k = true -> Inv s ->
  issued s1 = issued s -> txs s1 = txs s -> vip s1 = vip s -> approved s1 = approved s ->
  proved s1 = proved s -> (fresh s <= fresh s1)%N -> now s1 = now s ->
  upgrade k s1 u cs lvl = (s2, out) ->
  (forall c, pick_sel (upg_last k) (attached s cs) = Some c ->
             forall g, has lvl g = true -> since (extra ++ proved s) u g (ciat c)) ->
  Inv (set_ghost s2 (extra ++ proved s2) sp).
Proof.
  intros Hk HI Hi Ht Hv Ha Hp Hf Hn HU Hl.
  destruct (upgrade_fields _ _ _ _ _ _ _ HU) as [_ [F2 [F3 [F4 [_ [_ [_ [F8 [_ [F10 F11]]]]]]]]]].
  apply (Inv_mono s); sset; try congruence; try exact HI.
  - rewrite F8, Hp. apply incl_appr, incl_refl.
  - rewrite F10, Hn. apply Z.le_refl.
  - intros c Hc. rewrite F8, Hp.
    destruct (upgrade_issued _ _ _ _ _ _ _ Hk HU) as [[E _]|[c0 [P [Hu [E _]]]]]; rewrite E, Hi in Hc.
    + now left.
    + apply in_app_single in Hc. destruct Hc as [Hc| ->]; [now left|right].
      rewrite (attached_ext s s1 cs Hi) in P. destruct HI as [I1 _].
      destruct (I1 c0 (pick_sel_in _ _ _ _ P)) as [J1 _].
      split; sset; [rewrite F10, Hn; exact J1|]. intros g Hg. apply (Hl c0 P g Hg).
Qed.

Lemma add_level_since (P : list (N * N * Z)) u l f t0 :
  (forall g, has l g = true -> since P u g t0) -> since P u f t0 ->
  forall g, has (add l f) g = true -> since P u g t0.
Proof.
  intros Hl Hf g Hg. rewrite has_add in Hg. apply orb_true_iff in Hg. destruct Hg as [Hg|Hg]; [apply Hl, Hg|].
  apply N.eqb_eq in Hg. subst g. exact Hf.
Qed.

(* a factor recorded now counts for every issued cookie *)
Lemma since_now s c u f (extra : list (N * N * Z)) b cs :
  Inv s -> pick_sel b (attached s cs) = Some c -> In (u, f, now s) extra -> since (extra ++ proved s) u f (ciat c).
Proof.
  intros [I1 _] P Hin. destruct (I1 c (pick_sel_in _ _ _ _ P)) as [J1 _].
  exists (now s). split; [exact J1|apply in_or_app; left; exact Hin].
Qed.

(* close a goal  Inv (set_ghost s2 (extra ++ proved s2) sp)  where s2 comes out of an upgrade *)
Ltac up_inv k s extra Hsel Hu HI Hc :=
  match goal with HA : auth _ _ _ _ _ = Some (?u, ?l), HU : upgrade _ ?s1 ?u ?cs ?lvl = (_, _) |- _ =>
    let HL := fresh "HL" in let c0 := fresh "c0" in let P0 := fresh "P0" in
    pose proof (auth_since _ _ _ _ _ _ _ Hsel HI Hc HA) as HL;
    eapply (upgrade_ghost_Inv k s s1 u cs lvl _ _ extra _ Hu HI);
    [ sset; first [reflexivity | apply N.le_refl] .. | exact HU | ];
    intros c0 P0;
    repeat (apply add_level_since);
    [ intros g Hg; apply (since_incl (proved s)); [apply incl_appr, incl_refl|apply (HL c0 P0 g Hg)]
    | apply (since_now s c0 _ _ extra _ cs HI P0); cbn [In]; auto .. ]
  end.

Lemma step_req_Inv k cert fault s o :
  sel_last k = upg_last k -> poll_checks_user k = true -> upgrade_checks_owner k = true ->
  Inv s -> cert_known s cert -> Inv (fst (step_req k cert fault s o)).
Proof.
  intros Hsel Hk Hu HI Hc. destruct o; cbn [step_req]; try exact HI.
  - (* Login *)
    break_step; sset; try exact HI;
    (mono s;
     intros c' Hin; apply in_app_single in Hin; destruct Hin as [Hin| ->]; [now left|right];
     split; sset; [apply Z.le_refl|];
     intros g Hg; rewrite has_add, has_zero in Hg; apply N.eqb_eq in Hg; subst g;
     exists (now s); split; [apply Z.le_refl|now left]).
  - (* VipOtp *)
    break_step; sset; try exact HI. clean; subst.
    match goal with |- Inv (set_ghost _ (?x :: _) _) => up_inv k s [x] Hsel Hu HI Hc end.
  - (* PushStart *)
    break_step; sset; try exact HI.
    pose proof HI as [I1 [I2 [I3 I4]]]. unfold Inv; sset. split; [exact I1|split; [|split]].
    + intros e [<-|He]; cbn [fst]; [lia|]. specialize (I2 e He). lia.
    + intros e [<-|He]; cbn [vtx vuser].
      * unfold tx_user; cbn [txs find fst snd]. rewrite N.eqb_refl. reflexivity.
      * pose proof (I3 e He) as I3e. unfold tx_user; cbn [txs find fst snd].
        destruct (N.eqb (fresh s) (vtx e)) eqn:E; [|exact I3e].
        apply N.eqb_eq in E. pose proof (tx_user_lt s (vtx e) (vuser e) HI I3e). lia.
    + intros tx Htx. destruct (I4 tx Htx) as [u [t [H1 H2]]]. exists u, t. split; [|exact H2].
      unfold tx_user; cbn [txs find fst snd]. destruct (N.eqb (fresh s) tx) eqn:E; [|exact H1].
      apply N.eqb_eq in E. pose proof (tx_user_lt s tx u HI H1). lia.
  - (* Approve *)
    break_step; sset; try exact HI.
    pose proof HI as [I1 [I2 [I3 I4]]]. unfold Inv; sset. split; [|split; [exact I2|split; [exact I3|]]].
    + intros c Hin. destruct (I1 c Hin) as [J1 J2]. split; sset; [exact J1|].
      intros f Hf. apply (since_incl (proved s)); [apply incl_tl, incl_refl|apply J2, Hf].
    + intros tx' [<-|Htx].
      * eexists. exists (now s). split; [eassumption|now left].
      * destruct (I4 tx' Htx) as [u [t [H1 H2]]]. exists u, t. split; [exact H1|now right].
  - (* Poll *)
    destruct (auth k s cert cs any_mask) as [[u l]|] eqn:HA; [|exact HI].
    destruct (find_vip k s v) as [e|] eqn:Hv; [|exact HI]. rewrite Hk. cbn [andb].
    destruct (negb (N.eqb (vuser e) u)) eqn:Hne; [exact HI|].
    destruct (is_approved s (vtx e)) eqn:Ha; [|exact HI].
    apply negb_false_iff, N.eqb_eq in Hne. pose proof HI as [I1 [I2 [I3 I4]]].
    rewrite (I3 e (find_vip_in _ _ _ _ Hv)), Hne.
    destruct (upgrade k s u cs (add l F_VIP)) as [s2 out] eqn:HU. sset.
    match goal with |- Inv (set_ghost _ (?x :: _) _) => up_inv k s [x] Hsel Hu HI Hc end.
  - (* Totp *)
    break_step; sset; try exact HI. clean; subst.
    destruct (from_cache k); [destruct (totp_mem_guard k)|];
    match goal with |- Inv (set_ghost _ (?x :: _) _) => up_inv k s [x] Hsel Hu HI Hc end.
  - (* U2fBegin *) break_step; sset; try exact HI; mono s.
  - (* U2fFinish *)
    break_step; sset; try exact HI; clean;
    match goal with H : a_owner _ = _ |- _ => rewrite H in * end;
    (destruct (a_wa_key a); [destruct (chal_delete_wa k)|]);
    match goal with |- Inv (set_ghost _ (?x :: _) _) => up_inv k s [x] Hsel Hu HI Hc end.
  - (* WaBegin *) break_step; sset; try exact HI; mono s.
  - (* WaFinish *)
    break_step; sset; try exact HI; clean;
    match goal with H : a_owner _ = _ |- _ => rewrite H in * end;
    match goal with
    | |- Inv (set_ghost _ (?x :: ?y :: proved _) _) => up_inv k s [x; y] Hsel Hu HI Hc
    | |- Inv (set_ghost _ (?x :: _) _) => up_inv k s [x] Hsel Hu HI Hc
    end.
  - (* IssueOtp *) break_step; sset; try exact HI; mono s.
  - (* Bootstrap *)
    break_step; sset; try exact HI. clean; subst.
    match goal with |- Inv (set_ghost _ (?x :: _) _) => up_inv k s [x] Hsel Hu HI Hc end.
  - (* ShowTok *) break_step; sset; try exact HI; mono s.
  - (* SendDoc *)
    break_step; sset; try exact HI; clean.
    match goal with H : towner _ = _ |- _ => rewrite H in * end. mono s.
    intros c' Hin. apply in_app_single in Hin. destruct Hin as [Hin| ->]; [now left|right].
    split; sset; [apply Z.le_refl|].
    intros g Hg. rewrite has_add, has_zero in Hg. apply N.eqb_eq in Hg. subst g.
    exists (now s). split; [apply Z.le_refl|now left].
  - (* Tick *) mono s.
  - (* OktaOtp *)
    break_step; sset; try exact HI. clean; subst.
    match goal with |- Inv (set_ghost _ (?x :: _) _) => up_inv k s [x] Hsel Hu HI Hc end.
  - (* OktaPushStart *) break_step; sset; try exact HI; mono s.
  - (* OktaApprove *) break_step; sset; try exact HI; mono s.
  - (* OktaPoll *)
    break_step; sset; try exact HI;
    first [ match goal with |- Inv (set_ghost _ (?x :: _) _) => up_inv k s [x] Hsel Hu HI Hc end | mono s ].
Qed.

Lemma present_cert_Inv s cert : Inv s -> Inv (present_cert s cert) /\ cert_known (present_cert s cert) cert.
Proof.
  intros HI. destruct cert as [u|]; cbn [present_cert].
  - split; [mono s|]. intros u0 H. inversion H; subst. sset. now left.
  - split; [exact HI|]. intros u0 H. discriminate.
Qed.

Lemma step_Inv k s o :
  sel_last k = upg_last k -> poll_checks_user k = true -> upgrade_checks_owner k = true ->
  Inv s -> Inv (fst (step k s o)).
Proof.
  intros Hsel Hk Hu HI.
  assert (Hn : cert_known s None) by (intros u H; discriminate).
  destruct o; try (apply (step_req_Inv k None false s _ Hsel Hk Hu HI Hn)).
  - cbn [step]. destruct (present_cert_Inv s cert HI) as [HI' Hc]. apply step_req_Inv; assumption.
  - cbn [step]. apply (step_req_Inv (with_cache k) None false s _ Hsel Hk Hu HI Hn).
Qed.

Lemma run_fst_step k : forall ops s, fst (run k s ops) = fold_left (fun s o => fst (step k s o)) ops s.
Proof.
  induction ops as [|o r IH]; intros s; [reflexivity|]. cbn [run fold_left].
  destruct (step k s o) as [s1 out] eqn:E. specialize (IH s1). destruct (run k s1 r) as [s2 outs].
  cbn [fst] in *. rewrite IH. reflexivity.
Qed.

Theorem run_Inv k ops :
  sel_last k = upg_last k -> poll_checks_user k = true -> upgrade_checks_owner k = true ->
  Inv (fst (run k init ops)).
Proof.
  intros Hsel Hk Hu. rewrite run_fst_step. generalize Inv_init. generalize init.
  induction ops as [|o r IH]; intros s HI; [exact HI|]. cbn [fold_left]. apply IH. apply step_Inv; assumption.
Qed.

(* ---------------------------------------------------------------- one-time values *)
Lemma upd_same {A} (m : N -> A) u a : upd m u a u = a.
Proof. unfold upd. rewrite N.eqb_refl. reflexivity. Qed.
Lemma upd_other {A} (m : N -> A) u a x : x <> u -> upd m u a x = m x.
Proof. unfold upd. intros H. destruct (N.eqb x u) eqn:E; [apply N.eqb_eq in E; contradiction|reflexivity]. Qed.

Definition Inv2 (s : st) : Prop :=
  NoDup (spent s) /\
  (forall u t, In (OtTotp u t) (spent s) -> (t <= last_totp s u)%Z) /\
  (forall u n, In (OtBoot u n) (spent s) -> (n < fresh s)%N) /\
  (forall u b, boot s u = Some b -> (bserial b < fresh s)%N /\ ~ In (OtBoot u (bserial b)) (spent s)) /\
  (forall i, In (OtChal i) (spent s) -> (i < fresh s)%N) /\
  (forall u ch, chal s u = Some ch -> (chid ch < fresh s)%N /\ ~ In (OtChal (chid ch)) (spent s)) /\
  (forall u u' ch ch', chal s u = Some ch -> chal s u' = Some ch' -> chid ch = chid ch' -> u = u').

Lemma Inv2_init : Inv2 init.
Proof.
  unfold Inv2, init; cbn. repeat split; try (intros; contradiction); try (intros; discriminate). constructor.
Qed.

Lemma Inv2_mono s s' :
  Inv2 s -> spent s' = spent s -> last_totp s' = last_totp s -> boot s' = boot s -> chal s' = chal s ->
  (fresh s <= fresh s')%N -> Inv2 s'.
Proof.
  intros [J0 [J1 [J2 [J3 [J4 [J5 J6]]]]]] Hs Ht Hb Hc Hf. unfold Inv2. rewrite Hs, Ht, Hb, Hc.
  repeat split; auto.
  - intros u n H. specialize (J2 u n H). lia.
  - destruct (J3 u b H). lia.
  - destruct (J3 u b H). assumption.
  - intros i H. specialize (J4 i H). lia.
  - destruct (J5 u ch H). lia.
  - destruct (J5 u ch H). assumption.
Qed.

Ltac mono2 s := apply (Inv2_mono s); sset; auto; try lia.

(* a new pending challenge with a fresh identifier *)
Lemma Inv2_new_chal s u w e :
  Inv2 s -> Inv2 (mint (set_chal s (upd (chal s) u (Some {| chid := fresh s; ch_wa := w; chexp := e |})) (fresh s))).
Proof.
  intros [J0 [J1 [J2 [J3 [J4 [J5 J6]]]]]]. unfold Inv2; sset. repeat split; auto.
  - intros u0 n H. specialize (J2 u0 n H). lia.
  - destruct (J3 u0 b H). lia.
  - destruct (J3 u0 b H). assumption.
  - intros i H. specialize (J4 i H). lia.
  - destruct (N.eq_dec u0 u) as [->|Hne].
    + rewrite upd_same in H. inversion H; subst; cbn. lia.
    + rewrite upd_other in H by exact Hne. destruct (J5 u0 ch H). lia.
  - destruct (N.eq_dec u0 u) as [->|Hne].
    + rewrite upd_same in H. inversion H; subst; cbn. intros Hin. specialize (J4 _ Hin). lia.
    + rewrite upd_other in H by exact Hne. destruct (J5 u0 ch H). assumption.
  - intros u1 u2 ch ch' H1 H2 E.
    destruct (N.eq_dec u1 u) as [->|N1]; destruct (N.eq_dec u2 u) as [->|N2]; auto.
    + rewrite upd_same in H1. rewrite upd_other in H2 by exact N2. inversion H1; subst; cbn in E.
      destruct (J5 u2 ch' H2). lia.
    + rewrite upd_same in H2. rewrite upd_other in H1 by exact N1. inversion H2; subst; cbn in E.
      destruct (J5 u1 ch H1). lia.
    + rewrite upd_other in H1 by exact N1. rewrite upd_other in H2 by exact N2. eapply J6; eauto.
Qed.

(* an answered challenge: deleted and recorded *)
Lemma Inv2_use_chal s u ch :
  Inv2 s -> chal s u = Some ch ->
  Inv2 (set_ghost (set_chal s (upd (chal s) u None) (fresh s)) (proved s) (OtChal (chid ch) :: spent s)).
Proof.
  intros [J0 [J1 [J2 [J3 [J4 [J5 J6]]]]]] Hch. destruct (J5 u ch Hch) as [Hlt Hnin].
  unfold Inv2; sset. repeat split; auto.
  - constructor; assumption.
  - intros u0 t [H|H]; [discriminate|]. apply J1, H.
  - intros u0 n [H|H]; [discriminate|]. apply (J2 u0 n H).
  - destruct (J3 u0 b H). assumption.
  - intros [H'|H']; [discriminate|]. destruct (J3 u0 b H). contradiction.
  - intros i [H|H]; [inversion H; subst; exact Hlt|apply J4, H].
  - destruct (N.eq_dec u0 u) as [->|Hne]; [rewrite upd_same in H; discriminate|].
    rewrite upd_other in H by exact Hne. destruct (J5 u0 ch0 H). assumption.
  - destruct (N.eq_dec u0 u) as [->|Hne]; [rewrite upd_same in H; discriminate|].
    rewrite upd_other in H by exact Hne. intros [E|Hin].
    + inversion E as [E']. symmetry in E'. specialize (J6 u0 u ch0 ch H Hch E'). contradiction.
    + destruct (J5 u0 ch0 H). contradiction.
  - intros u1 u2 c1 c2 H1 H2 E.
    destruct (N.eq_dec u1 u) as [->|N1]; [rewrite upd_same in H1; discriminate|].
    destruct (N.eq_dec u2 u) as [->|N2]; [rewrite upd_same in H2; discriminate|].
    rewrite upd_other in H1 by exact N1. rewrite upd_other in H2 by exact N2. eapply J6; eauto.
Qed.

Lemma Inv2_new_boot s u e :
  Inv2 s -> Inv2 (mint (set_boot s (upd (boot s) u (Some {| bserial := fresh s; bexp := e |})) (fresh s))).
Proof.
  intros [J0 [J1 [J2 [J3 [J4 [J5 J6]]]]]]. unfold Inv2; sset. repeat split; auto.
  - intros u0 n H. specialize (J2 u0 n H). lia.
  - destruct (N.eq_dec u0 u) as [->|Hne].
    + rewrite upd_same in H. inversion H; subst; cbn. lia.
    + rewrite upd_other in H by exact Hne. destruct (J3 u0 b H). lia.
  - destruct (N.eq_dec u0 u) as [->|Hne].
    + rewrite upd_same in H. inversion H; subst; cbn. intros Hin. specialize (J2 _ _ Hin). lia.
    + rewrite upd_other in H by exact Hne. destruct (J3 u0 b H). assumption.
  - intros i H. specialize (J4 i H). lia.
  - destruct (J5 u0 ch H). lia.
  - destruct (J5 u0 ch H). assumption.
Qed.

Lemma Inv2_use_boot s u b :
  Inv2 s -> boot s u = Some b ->
  Inv2 (set_ghost (set_boot s (upd (boot s) u None) (fresh s)) (proved s) (OtBoot u (bserial b) :: spent s)).
Proof.
  intros [J0 [J1 [J2 [J3 [J4 [J5 J6]]]]]] Hb. destruct (J3 u b Hb) as [Hlt Hnin].
  unfold Inv2; sset. repeat split; auto.
  - constructor; assumption.
  - intros u0 t [H|H]; [discriminate|]. apply J1, H.
  - intros u0 n [H|H]; [inversion H; subst; exact Hlt|apply (J2 u0 n H)].
  - destruct (N.eq_dec u0 u) as [->|Hne]; [rewrite upd_same in H; discriminate|].
    rewrite upd_other in H by exact Hne. destruct (J3 u0 b0 H). assumption.
  - destruct (N.eq_dec u0 u) as [->|Hne]; [rewrite upd_same in H; discriminate|].
    rewrite upd_other in H by exact Hne. intros [E|Hin].
    + inversion E; congruence.
    + destruct (J3 u0 b0 H). contradiction.
  - intros i [H|H]; [discriminate|apply J4, H].
  - destruct (J5 u0 ch H). assumption.
  - intros [H'|H']; [discriminate|]. destruct (J5 u0 ch H). contradiction.
Qed.

Lemma Inv2_use_totp s u t :
  Inv2 s -> (last_totp s u < t)%Z ->
  Inv2 (set_ghost (set_totp s (upd (last_totp s) u t) (saved_totp s)) (proved s) (OtTotp u t :: spent s)).
Proof.
  intros [J0 [J1 [J2 [J3 [J4 [J5 J6]]]]]] Hlt. unfold Inv2; sset. repeat split; auto.
  - constructor; [|assumption]. intros Hin. specialize (J1 u t Hin). lia.
  - intros u0 t0 [H|H].
    + inversion H; subst. rewrite upd_same. lia.
    + specialize (J1 u0 t0 H). destruct (N.eq_dec u0 u) as [->|Hne]; [rewrite upd_same; lia|].
      rewrite upd_other by exact Hne. exact J1.
  - intros u0 n [H|H]; [discriminate|apply (J2 u0 n H)].
  - destruct (J3 u0 b H). assumption.
  - intros [H'|H']; [discriminate|]. destruct (J3 u0 b H). contradiction.
  - intros i [H|H]; [discriminate|apply J4, H].
  - destruct (J5 u0 ch H). assumption.
  - intros [H'|H']; [discriminate|]. destruct (J5 u0 ch H). contradiction.
Qed.

(* Inv2 does not look at issued cookies, proved factors, tokens or the clock *)
Lemma Inv2_irrelevant s iss p : Inv2 s -> Inv2 (set_ghost (set_issued s iss) p (spent s)).
Proof. intros H. mono2 s. Qed.

Ltac sset_all := cbn [issued tokens vip txs approved chal last_totp boot proved spent now fresh minted okta opush acks saved_totp
                      set_ghost set_issued set_chal set_boot set_totp set_okta mint fst snd cuser clevel] in *.

(* goal: Inv2 (set_ghost s2 _ (V :: spent s2)) with s2 out of an upgrade of s1; R is the reference
   state the Inv2_use_* lemma speaks about *)
Ltac up_inv2 R lem :=
  match goal with HU : upgrade _ _ _ _ _ = (_, _) |- _ =>
    let F := fresh "F" in
    pose proof (upgrade_fields _ _ _ _ _ _ _ HU) as F; sset_all;
    destruct F as [_ [_ [_ [_ [F5 [F6 [F7 [_ [F9 [_ F11]]]]]]]]]];
    apply (Inv2_mono R); [apply lem; assumption | sset; try congruence; try (rewrite F11; apply N.le_refl) ..]
  end.

Lemma step_req_Inv2 k cert fault s o :
  totp_monotone k = true -> chal_delete_wa k = true -> totp_mem_guard k = true ->
  Inv2 s -> Inv2 (fst (step_req k cert fault s o)).
Proof.
  intros Hm Hd Hg HJ. destruct o; cbn [step_req]; rewrite ?Hm, ?Hd, ?Hg; try exact HJ.
  - (* Login *) break_step; sset; try exact HJ; try (mono2 s).
  - (* VipOtp *)
    break_step; sset; try exact HJ.
    match goal with HU : upgrade _ _ _ _ _ = (_, _) |- _ =>
      destruct (upgrade_fields _ _ _ _ _ _ _ HU) as [_ [_ [_ [_ [F5 [F6 [F7 [_ [F9 [_ F11]]]]]]]]]] end.
    apply (Inv2_mono s); sset; try congruence. rewrite F11. apply N.le_refl.
  - (* PushStart *) break_step; sset; try exact HJ; try (mono2 s).
  - (* Approve *) break_step; sset; try exact HJ; try (mono2 s).
  - (* Poll *)
    break_step; sset; try exact HJ;
    match goal with HU : upgrade _ _ _ _ _ = (_, _) |- _ =>
      destruct (upgrade_fields _ _ _ _ _ _ _ HU) as [_ [_ [_ [_ [F5 [F6 [F7 [_ [F9 [_ F11]]]]]]]]]] end;
    apply (Inv2_mono s); sset; try congruence; try exact HJ; rewrite F11; apply N.le_refl.
  - (* Totp *)
    break_step; sset; try exact HJ. clean; subst.
    destruct (from_cache k);
    match goal with H : (?t <=? last_totp s ?u)%Z = false |- _ => apply Z.leb_gt in H;
      up_inv2 (set_ghost (set_totp s (upd (last_totp s) u t) (saved_totp s)) (proved s) (OtTotp u t :: spent s)) Inv2_use_totp end.
  - (* U2fBegin *) break_step; sset; try exact HJ; apply Inv2_new_chal, HJ.
  - (* U2fFinish *)
    break_step; sset; try exact HJ;
    destruct (a_wa_key a);
    match goal with H : chal s ?u = Some ?ch |- _ =>
      up_inv2 (set_ghost (set_chal s (upd (chal s) u None) (fresh s)) (proved s) (OtChal (chid ch) :: spent s)) Inv2_use_chal end.
  - (* WaBegin *) break_step; sset; try exact HJ; apply Inv2_new_chal, HJ.
  - (* WaFinish *)
    break_step; sset; try exact HJ;
    match goal with H : chal s ?u = Some ?ch |- _ =>
      up_inv2 (set_ghost (set_chal s (upd (chal s) u None) (fresh s)) (proved s) (OtChal (chid ch) :: spent s)) Inv2_use_chal end.
  - (* IssueOtp *) break_step; sset; try exact HJ; apply Inv2_new_boot, HJ.
  - (* Bootstrap *)
    break_step; sset; try exact HJ. clean; subst.
    match goal with H : boot s ?u = Some ?b |- _ =>
      up_inv2 (set_ghost (set_boot s (upd (boot s) u None) (fresh s)) (proved s) (OtBoot u (bserial b) :: spent s)) Inv2_use_boot end.
  - (* ShowTok *) break_step; sset; try exact HJ; try (mono2 s).
  - (* SendDoc *) break_step; sset; try exact HJ; try (mono2 s).
  - (* OktaOtp *)
    break_step; sset; try exact HJ.
    match goal with HU : upgrade _ _ _ _ _ = (_, _) |- _ =>
      destruct (upgrade_fields _ _ _ _ _ _ _ HU) as [_ [_ [_ [_ [F5 [F6 [F7 [_ [F9 [_ F11]]]]]]]]]] end.
    apply (Inv2_mono s); sset; try congruence. rewrite F11. apply N.le_refl.
  - (* OktaPushStart *) break_step; sset; try exact HJ; try (mono2 s).
  - (* OktaApprove *) break_step; sset; try exact HJ; try (mono2 s).
  - (* OktaPoll *)
    break_step; sset; try exact HJ;
    first [ match goal with HU : upgrade _ _ _ _ _ = (_, _) |- _ =>
              destruct (upgrade_fields _ _ _ _ _ _ _ HU) as [_ [_ [_ [_ [F5 [F6 [F7 [_ [F9 [_ F11]]]]]]]]]] end; sset_all;
            apply (Inv2_mono s); sset; try congruence; rewrite F11; apply N.le_refl
          | mono2 s ].
Qed.

Lemma step_Inv2 k s o :
  totp_monotone k = true -> chal_delete_wa k = true -> totp_mem_guard k = true -> Inv2 s -> Inv2 (fst (step k s o)).
Proof.
  intros Hm Hd Hg HJ. destruct o; try (apply (step_req_Inv2 k None false s _ Hm Hd Hg HJ)).
  - cbn [step]. apply step_req_Inv2; try assumption. destruct cert; [|exact HJ]. cbn [present_cert]. mono2 s.
  - cbn [step]. apply (step_req_Inv2 (with_cache k) None false s _ Hm Hd Hg HJ).
Qed.

Theorem run_Inv2 k ops :
  totp_monotone k = true -> chal_delete_wa k = true -> totp_mem_guard k = true -> Inv2 (fst (run k init ops)).
Proof.
  intros Hm Hd Hg. rewrite run_fst_step. generalize Inv2_init. generalize init.
  induction ops as [|o r IH]; intros s HJ; [exact HJ|]. cbn [fold_left]. apply IH. apply step_Inv2; assumption.
Qed.


Lemma upgrade_minted k s u cs lvl s2 out : upgrade k s u cs lvl = (s2, out) -> minted s2 = minted s.
Proof.
  unfold upgrade. destruct (pick_sel (upg_last k) (attached s cs)) as [c|]; [|intros H; inversion H; subst; reflexivity].
  destruct (upgrade_checks_owner k && negb (N.eqb (cuser c) u)); intros H; inversion H; subst; reflexivity.
Qed.

(* ---------------------------------------------------------------- one-time values are fresh *)
(* `minted` is the list of the ids of all one-time values ever handed out.  A begin / issue / push
   start hands out `fresh s`; everything handed out before is smaller: the new value was never
   handed out before, is not pending for anybody and was never accepted *)
Definition spent_minted (s : st) (v : onetime) : Prop :=
  match v with OtChal i => In i (minted s) | OtBoot _ n => In n (minted s) | OtTotp _ _ => True end.

Definition Inv3 (s : st) : Prop :=
  NoDup (minted s) /\
  (forall i, In i (minted s) -> (i < fresh s)%N) /\
  (forall u ch, chal s u = Some ch -> In (chid ch) (minted s)) /\
  (forall u b, boot s u = Some b -> In (bserial b) (minted s)) /\
  (forall e, In e (txs s) -> In (fst e) (minted s)) /\
  (forall v, In v (spent s) -> spent_minted s v).

Lemma Inv3_init : Inv3 init.
Proof.
  unfold Inv3, init; cbn. repeat split; try (intros; contradiction); try (intros; discriminate). constructor.
Qed.

Lemma fresh_not_minted s : Inv3 s -> ~ In (fresh s) (minted s).
Proof. intros [_ [H _]] Hin. specialize (H _ Hin). lia. Qed.

(* what a newly accepted one-time value must be: the pending challenge / stored OTP of somebody *)
Definition spent_src (s : st) (v : onetime) : Prop :=
  match v with
  | OtChal i => exists u ch, chal s u = Some ch /\ chid ch = i
  | OtBoot _ n => exists u b, boot s u = Some b /\ bserial b = n
  | OtTotp _ _ => True
  end.

(* a step that hands nothing out *)
Lemma Inv3_same s s' :
  Inv3 s -> minted s' = minted s -> (fresh s <= fresh s')%N ->
  (forall u ch, chal s' u = Some ch -> exists u', chal s u' = Some ch) ->
  (forall u b, boot s' u = Some b -> exists u', boot s u' = Some b) ->
  txs s' = txs s ->
  (forall v, In v (spent s') -> In v (spent s) \/ spent_src s v) ->
  Inv3 s'.
Proof.
  intros [K0 [K1 [K2 [K3 [K4 K5]]]]] Hm Hf Hc Hb Ht Hs. unfold Inv3. rewrite Hm, Ht.
  split; [exact K0|]. split; [intros i Hi; specialize (K1 i Hi); lia|].
  split; [intros u ch H; destruct (Hc u ch H) as [u' H']; exact (K2 u' ch H')|].
  split; [intros u b H; destruct (Hb u b H) as [u' H']; exact (K3 u' b H')|].
  split; [exact K4|].
  intros v Hv. assert (G : spent_minted s v).
  { destruct (Hs v Hv) as [Hold|Hnew]; [exact (K5 v Hold)|].
    destruct v as [u t|u n|i]; cbn in *; [exact I| |].
    - destruct Hnew as [u' [b [H1 H2]]]. subst n. exact (K3 u' b H1).
    - destruct Hnew as [u' [ch [H1 H2]]]. subst i. exact (K2 u' ch H1). }
  destruct v; cbn in *; try rewrite Hm; exact G.
Qed.

(* a step that hands out the value `fresh s` *)
Lemma Inv3_mint s s' :
  Inv3 s -> minted s' = fresh s :: minted s -> fresh s' = (fresh s + 1)%N ->
  (forall u ch, chal s' u = Some ch -> (exists u', chal s u' = Some ch) \/ chid ch = fresh s) ->
  (forall u b, boot s' u = Some b -> (exists u', boot s u' = Some b) \/ bserial b = fresh s) ->
  (forall e, In e (txs s') -> In e (txs s) \/ fst e = fresh s) ->
  spent s' = spent s ->
  Inv3 s'.
Proof.
  intros HK Hm Hf Hc Hb Ht Hs. pose proof (fresh_not_minted s HK) as Hnew.
  destruct HK as [K0 [K1 [K2 [K3 [K4 K5]]]]]. unfold Inv3. rewrite Hm, Hf, Hs.
  split; [constructor; assumption|].
  split; [intros i [<-|Hi]; [lia|specialize (K1 i Hi); lia]|].
  split; [intros u ch H; destruct (Hc u ch H) as [[u' H']|E]; [right; exact (K2 u' ch H')|left; symmetry; exact E]|].
  split; [intros u b H; destruct (Hb u b H) as [[u' H']|E]; [right; exact (K3 u' b H')|left; symmetry; exact E]|].
  split; [intros e H; destruct (Ht e H) as [H'|E]; [right; exact (K4 e H')|left; symmetry; exact E]|].
  intros v Hv. specialize (K5 v Hv). destruct v; cbn in *; try rewrite Hm; try (right; exact K5); exact K5.
Qed.

Lemma upd_some_src {A} (m : N -> option A) u (x : option A) u0 a :
  upd m u x u0 = Some a -> (exists u', m u' = Some a) \/ x = Some a.
Proof.
  unfold upd. destruct (N.eqb u0 u); intros H; [right; exact H|left; exists u0; exact H].
Qed.

Ltac inv3_same s :=
  apply (Inv3_same s); sset; auto using N.le_refl; try lia;
  try (intros ? ? H; eexists; exact H).

(* goal: Inv3 of a state that comes out of an upgrade, nothing handed out *)
Ltac inv3_up s HK :=
  match goal with HU : upgrade _ _ _ _ _ = (_, _) |- _ =>
    let F := fresh "F" in let G := fresh "G" in
    pose proof (upgrade_fields _ _ _ _ _ _ _ HU) as F; pose proof (upgrade_minted _ _ _ _ _ _ _ HU) as G; sset_all;
    destruct F as [_ [_ [F3 [_ [F5 [_ [F7 [_ [F9 [_ F11]]]]]]]]]];
    apply (Inv3_same s); sset;
    [ exact HK
    | congruence
    | rewrite F11; apply N.le_refl
    | let H := fresh "H" in intros ? ? H; rewrite F5 in H;
      first [ apply upd_some_src in H; destruct H as [H|H]; [exact H|discriminate] | eexists; exact H ]
    | let H := fresh "H" in intros ? ? H; rewrite F7 in H;
      first [ apply upd_some_src in H; destruct H as [H|H]; [exact H|discriminate] | eexists; exact H ]
    | congruence
    | let Hv := fresh "Hv" in intros ? Hv;
      first [ rewrite F9 in Hv; now left
            | destruct Hv as [<-|Hv];
              [ right; cbn; first [exact I | eexists; eexists; split; [eassumption|reflexivity]]
              | rewrite F9 in Hv; now left ] ] ]
  end.

Lemma step_req_Inv3 k cert fault s o : Inv3 s -> Inv3 (fst (step_req k cert fault s o)).
Proof.
  intros HK. destruct o; cbn [step_req]; try exact HK.
  - (* Login *) break_step; sset; exact HK.
  - (* VipOtp *) break_step; sset; try exact HK. inv3_up s HK.
  - (* PushStart *)
    break_step; sset; try exact HK.
    apply (Inv3_mint s); sset; auto.
    + intros u0 ch H. left. eexists; exact H.
    + intros u0 b H. left. eexists; exact H.
    + intros e [<-|He]; [right; reflexivity|now left].
  - (* Approve *) break_step; sset; exact HK.
  - (* Poll *) break_step; sset; try exact HK; inv3_up s HK.
  - (* Totp *)
    break_step; sset; try exact HK. (destruct (from_cache k); [destruct (totp_mem_guard k)|]); inv3_up s HK.
  - (* U2fBegin *)
    break_step; sset; try exact HK.
    apply (Inv3_mint s); sset; auto.
    + intros u0 ch H. apply upd_some_src in H. destruct H as [H|H]; [now left|right]. inversion H; reflexivity.
    + intros u0 b H. left. eexists; exact H.
  - (* U2fFinish *)
    break_step; sset; try exact HK; (destruct (a_wa_key a); [destruct (chal_delete_wa k)|]); inv3_up s HK.
  - (* WaBegin *)
    break_step; sset; try exact HK.
    apply (Inv3_mint s); sset; auto.
    + intros u0 ch H. apply upd_some_src in H. destruct H as [H|H]; [now left|right]. inversion H; reflexivity.
    + intros u0 b H. left. eexists; exact H.
  - (* WaFinish *) break_step; sset; try exact HK; inv3_up s HK.
  - (* IssueOtp *)
    break_step; sset; try exact HK;
    (apply (Inv3_mint s); sset; auto;
     [ intros u0 ch H; left; eexists; exact H
     | intros u0 b H; apply upd_some_src in H; destruct H as [H|H]; [now left|right]; inversion H; reflexivity ]).
  - (* Bootstrap *) break_step; sset; try exact HK. clean; subst. inv3_up s HK.
  - (* ShowTok *) break_step; sset; exact HK.
  - (* SendDoc *) break_step; sset; exact HK.
  - (* OktaOtp *) break_step; sset; try exact HK. inv3_up s HK.
  - (* OktaPushStart *) break_step; sset; exact HK.
  - (* OktaApprove *) break_step; sset; exact HK.
  - (* OktaPoll *) break_step; sset; try exact HK. inv3_up s HK.
Qed.

Lemma step_Inv3 k s o : Inv3 s -> Inv3 (fst (step k s o)).
Proof.
  intros HK. destruct o; try (apply (step_req_Inv3 k None false s _ HK)).
  - cbn [step]. apply step_req_Inv3. destruct cert; exact HK.
  - cbn [step]. apply (step_req_Inv3 (with_cache k) None false s _ HK).
Qed.

Theorem run_Inv3 k ops : Inv3 (fst (run k init ops)).
Proof.
  rewrite run_fst_step. generalize Inv3_init. generalize init.
  induction ops as [|o r IH]; intros s HK; [exact HK|]. cbn [fold_left]. apply IH. apply step_Inv3; assumption.
Qed.

(* what a step hands out *)
Lemma step_req_minted k cert fault s o :
  let s' := fst (step_req k cert fault s o) in
  minted s' = minted s \/ (minted s' = fresh s :: minted s /\ fresh s' = (fresh s + 1)%N).
Proof.
  destruct o; cbn [step_req]; try (left; reflexivity);
  break_step; sset; try (left; reflexivity); try (right; split; reflexivity);
  match goal with HU : upgrade _ _ _ _ _ = (_, _) |- _ =>
    pose proof (upgrade_minted _ _ _ _ _ _ _ HU) as G end; sset_all;
  try (destruct (a_wa_key a); [destruct (chal_delete_wa k)|]);
  try (destruct (from_cache k); [destruct (totp_mem_guard k)|]); sset_all; left; exact G.
Qed.

Lemma step_minted k s o :
  let s' := fst (step k s o) in
  minted s' = minted s \/ (minted s' = fresh s :: minted s /\ fresh s' = (fresh s + 1)%N).
Proof.
  destruct o; try (apply (step_req_minted k None false s)).
  - cbn [step]. pose proof (step_req_minted k cert fault (present_cert s cert) o) as H.
    destruct cert; exact H.
  - cbn [step]. apply (step_req_minted (with_cache k) None false s).
Qed.

(* the value a step hands out (observation `handed`) was never handed out before *)
Lemma handed_fresh k s o i :
  Inv3 s -> handed s (fst (step k s o)) = Some i ->
  i = fresh s /\ ~ In i (minted s) /\ minted (fst (step k s o)) = i :: minted s.
Proof.
  intros HK. unfold handed. destruct (step_minted k s o) as [E|[E _]]; rewrite E.
  - destruct (minted s); [discriminate|]. rewrite Nat.eqb_refl. discriminate.
  - cbn [length]. replace (Nat.eqb (S (length (minted s))) (length (minted s))) with false
      by (symmetry; apply Nat.eqb_neq; lia).
    intros H; inversion H; subst i. split; [reflexivity|]. split; [apply fresh_not_minted, HK|reflexivity].
Qed.

(* the request proper inside a wrapper *)
Definition base (o : op) : op := match o with Req _ _ o' | Cached o' => o' | _ => o end.
(* the code serving the request: with the cache as read source for a `Cached` request *)
Definition cfg_for (k : config) (o : op) : config := match o with Cached _ => with_cache k | _ => k end.
Definition cert_of (o : op) : option N := match o with Req c _ _ => c | _ => None end.
Definition fault_of (o : op) : bool := match o with Req _ f _ => f | _ => false end.

Lemma step_unfold k s o :
  step k s o = step_req (cfg_for k o) (cert_of o) (fault_of o) (present_cert s (cert_of o)) (base o).
Proof. destruct o; reflexivity. Qed.

Lemma present_cert_spent s c : spent (present_cert s c) = spent s.
Proof. destruct c; reflexivity. Qed.

(* the one-time value an operation presents *)
Definition presents_req (o : op) : option onetime :=
  match o with
  | Totp _ (TCode owner t) => Some (OtTotp owner t)
  | Bootstrap _ (BCode owner n) => Some (OtBoot owner n)
  | U2fFinish _ a => Some (OtChal (a_chal a))
  | WaFinish _ a => Some (OtChal (a_chal a))
  | _ => None
  end.
Definition presents (o : op) : option onetime := presents_req (base o).

(* acceptance records the value ... *)
Lemma accepted_spent_req k cert fault s o v :
  presents_req o = Some v -> snd (step_req k cert fault s o) <> None ->
  spent (fst (step_req k cert fault s o)) = v :: spent s.
Proof.
  intros Hp Hacc. destruct o; try discriminate; cbn [presents_req] in Hp.
  - destruct code; [|discriminate]. inversion Hp; subst v. revert Hacc. cbn [step_req].
    break_step; sset; try (intros H; exfalso; apply H; reflexivity); intros _; clean; subst;
    match goal with HU : upgrade _ _ _ _ _ = (_, _) |- _ =>
      destruct (upgrade_fields _ _ _ _ _ _ _ HU) as [_ [_ [_ [_ [_ [_ [_ [_ [F9 _]]]]]]]]]; rewrite F9 end;
    (destruct (from_cache k); [destruct (totp_mem_guard k)|]); reflexivity.
  - inversion Hp; subst v. revert Hacc. cbn [step_req].
    break_step; sset; try (intros H; exfalso; apply H; reflexivity); intros _; clean;
    match goal with H : a_chal _ = _ |- _ => rewrite H end;
    match goal with HU : upgrade _ _ _ _ _ = (_, _) |- _ =>
      destruct (upgrade_fields _ _ _ _ _ _ _ HU) as [_ [_ [_ [_ [_ [_ [_ [_ [F9 _]]]]]]]]]; rewrite F9 end;
    try (destruct (a_wa_key a); try destruct (chal_delete_wa k)); reflexivity.
  - inversion Hp; subst v. revert Hacc. cbn [step_req].
    break_step; sset; try (intros H; exfalso; apply H; reflexivity); intros _; clean;
    match goal with H : a_chal _ = _ |- _ => rewrite H end;
    match goal with HU : upgrade _ _ _ _ _ = (_, _) |- _ =>
      destruct (upgrade_fields _ _ _ _ _ _ _ HU) as [_ [_ [_ [_ [_ [_ [_ [_ [F9 _]]]]]]]]]; rewrite F9 end; reflexivity.
  - destruct code; [|discriminate]. inversion Hp; subst v. revert Hacc. cbn [step_req].
    break_step; sset; try (intros H; exfalso; apply H; reflexivity); intros _; clean; subst;
    match goal with HU : upgrade _ _ _ _ _ = (_, _) |- _ =>
      destruct (upgrade_fields _ _ _ _ _ _ _ HU) as [_ [_ [_ [_ [_ [_ [_ [_ [F9 _]]]]]]]]]; rewrite F9 end; reflexivity.
Qed.

Lemma accepted_spent k s o v :
  presents o = Some v -> snd (step k s o) <> None -> spent (fst (step k s o)) = v :: spent s.
Proof.
  intros Hp Hacc. rewrite step_unfold in *. rewrite (accepted_spent_req _ _ _ _ _ v Hp Hacc).
  rewrite present_cert_spent. reflexivity.
Qed.

(* ... and a recorded value is never accepted again *)
Lemma spent_refused k s o v :
  totp_monotone k = true -> chal_delete_wa k = true -> totp_mem_guard k = true -> Inv2 s ->
  presents o = Some v -> In v (spent s) -> snd (step k s o) = None.
Proof.
  intros Hm Hd Hg HJ Hp Hin.
  destruct (snd (step k s o)) as [c|] eqn:E; [exfalso|reflexivity].
  assert (Hacc : snd (step k s o) <> None) by (rewrite E; discriminate).
  pose proof (accepted_spent k s o v Hp Hacc) as Hs.
  pose proof (step_Inv2 k s o Hm Hd Hg HJ) as [J0 _]. rewrite Hs in J0. inversion J0; contradiction.
Qed.

(* ---------------------------------------------------------------- answers about somebody else *)
(* whom the environment's positive answer carried by the request is about *)
Definition about (k : config) (s : st) (o : op) : option N :=
  match o with
  | VipOtp _ (VGood owner) => Some owner
  | OktaOtp _ (VGood owner) => Some owner
  | Totp _ (TCode owner _) => Some owner
  | Bootstrap _ (BCode owner _) => Some owner
  | U2fFinish _ a => Some (a_owner a)
  | WaFinish _ a => Some (a_owner a)
  | SendDoc _ tk => match nth_error (tokens s) tk with Some t => Some (towner t) | None => None end
  | Poll _ v => match find_vip k s v with Some e => tx_user s (vtx e) | None => None end
  | _ => None
  end.

(* the user the request is authenticated as (certificate first, else the session cookie) *)
Definition requester (k : config) (s : st) (cert : option N) (o : op) : option N :=
  let who cs m := match auth k s cert cs m with Some (u, _) => Some u | None => None end in
  match o with
  | VipOtp cs _ | Totp cs _ | Bootstrap cs _ | U2fFinish cs _ | WaFinish cs _ | Poll cs _ | OktaOtp cs _ => who cs any_mask
  | SendDoc cs _ => who cs (webui k)
  | _ => None
  end.

Lemma cross_user_refused k cert fault s o u u' :
  poll_checks_user k = true -> Inv s ->
  about k s o = Some u -> requester k s cert o = Some u' -> u <> u' -> step_req k cert fault s o = (s, None).
Proof.
  intros Hk HI Ha Hr Hne.
  assert (Hneb : forall x y : N, x = u -> y = u' -> N.eqb x y = false).
  { intros x y -> ->. apply N.eqb_neq. exact Hne. }
  destruct o; try discriminate; cbn [about requester] in Ha, Hr; cbn [step_req].
  - (* VipOtp *)
    destruct (auth k s cert cs any_mask) as [[w l]|]; [|discriminate]. inversion Hr; subst u'.
    destruct code; [|discriminate]. inversion Ha; subst u. rewrite (Hneb owner w) by reflexivity. reflexivity.
  - (* Poll *)
    destruct (auth k s cert cs any_mask) as [[w l]|]; [|discriminate]. inversion Hr; subst u'.
    destruct (find_vip k s v) as [e|] eqn:Hv; [|discriminate].
    destruct HI as [_ [_ [I3 _]]]. rewrite (I3 e (find_vip_in _ _ _ _ Hv)) in Ha. inversion Ha; subst u.
    rewrite Hk, (Hneb (vuser e) w) by reflexivity. reflexivity.
  - (* Totp *)
    destruct (auth k s cert cs any_mask) as [[w l]|]; [|discriminate]. inversion Hr; subst u'.
    destruct code; [|discriminate]. inversion Ha; subst u.
    rewrite (Hneb owner w) by reflexivity. rewrite andb_false_r. reflexivity.
  - (* U2fFinish *)
    destruct (auth k s cert cs any_mask) as [[w l]|]; [|discriminate]. inversion Hr; subst u'. inversion Ha; subst u.
    rewrite (Hneb (a_owner a) w) by reflexivity. cbn [andb].
    destruct (has_profile (devs k w) && has_any_key (devs k w)); [|reflexivity].
    destruct (chal s w) as [c0|]; [|reflexivity]. destruct (chal_expiry k && (chexp c0 <=? now s)%Z); reflexivity.
  - (* WaFinish *)
    destruct (auth k s cert cs any_mask) as [[w l]|]; [|discriminate]. inversion Hr; subst u'. inversion Ha; subst u.
    rewrite (Hneb (a_owner a) w) by reflexivity. cbn [andb].
    destruct (has_profile (devs k w)); [|reflexivity].
    destruct (chal s w) as [c0|]; [|reflexivity]. destruct (chal_expiry k && (chexp c0 <=? now s)%Z); [reflexivity|].
    destruct (negb (ch_wa c0)); reflexivity.
  - (* Bootstrap *)
    destruct (auth k s cert cs any_mask) as [[w l]|]; [|discriminate]. inversion Hr; subst u'.
    destruct code; [|discriminate]. inversion Ha; subst u.
    rewrite (Hneb owner w) by reflexivity. cbn [andb]. destruct (from_cache k); [reflexivity|].
    destruct (has_totp (devs k w) || has_u2f (devs k w)); [reflexivity|].
    destruct (boot s w) as [b|]; [|reflexivity]. destruct (bexp b <=? now s)%Z; reflexivity.
  - (* SendDoc *)
    destruct (auth k s cert cs (webui k)) as [[w l]|]; [|discriminate]. inversion Hr; subst u'.
    destruct (nth_error (tokens s) tk) as [t|]; [|discriminate]. inversion Ha; subst u.
    rewrite (Hneb (towner t) w) by reflexivity. reflexivity.
  - (* OktaOtp *)
    destruct (auth k s cert cs any_mask) as [[w l]|]; [|discriminate]. inversion Hr; subst u'.
    destruct code; [|discriminate]. inversion Ha; subst u. rewrite (Hneb owner w) by reflexivity.
    destruct (negb (okta_on k)); [reflexivity|]. destruct (negb (okta_valid s w)); reflexivity.
Qed.

(* ---------------------------------------------------------------- expired values *)
(* the value presented is past its expiry: a code of a step the validator no longer looks at, the
   stored bootstrap value / pending challenge of the authenticated user past ExpiresAt, a CLI
   token past its exp claim *)
Definition expired (k : config) (s : st) (cert : option N) (o : op) : bool :=
  match o with
  | Totp _ (TCode _ t) => (t <? totp_step (now s) - 1)%Z
  | Bootstrap cs _ =>
      match auth k s cert cs any_mask with
      | Some (u, _) => match boot s u with Some b => (bexp b <=? now s)%Z | None => false end
      | None => false
      end
  | U2fFinish cs _ | WaFinish cs _ =>
      match auth k s cert cs any_mask with
      | Some (u, _) => match chal s u with Some ch => (chexp ch <=? now s)%Z | None => false end
      | None => false
      end
  | SendDoc _ tk => match nth_error (tokens s) tk with Some t => (texp t <=? now s)%Z | None => false end
  | Poll _ v => match find_vip_raw s v with Some e => (vexp e <=? now s)%Z | None => false end
  | OktaOtp cs _ | OktaPushStart cs | OktaPoll cs =>
      (* the cached answer of the user's last password check (with the Okta state token) past its expiry *)
      match auth k s cert cs any_mask with
      | Some (u, _) => match okta s u with Some e => (e <=? now s)%Z | None => false end
      | None => false
      end
  | _ => false
  end.

Lemma expired_refused k cert fault s o :
  chal_expiry k = true -> vip_expiry k = true -> expired k s cert o = true -> step_req k cert fault s o = (s, None).
Proof.
  intros Hk Hv He. destruct o; try discriminate; cbn [expired] in He; cbn [step_req].
  - (* Poll *)
    destruct (auth k s cert cs any_mask) as [[w l]|]; [|reflexivity].
    unfold find_vip. destruct (find_vip_raw s v) as [e|]; [|discriminate]. rewrite Hv, He. reflexivity.
  - destruct code; [|discriminate]. destruct (auth k s cert cs any_mask) as [[w l]|]; [|reflexivity].
    apply Z.ltb_lt in He. replace (totp_step (now s) - 1 <=? stp)%Z with false by (symmetry; apply Z.leb_gt; lia).
    rewrite andb_false_r. reflexivity.
  - destruct (auth k s cert cs any_mask) as [[w l]|]; [|reflexivity].
    destruct (has_profile (devs k w) && has_any_key (devs k w)); [|reflexivity].
    destruct (chal s w); [|reflexivity]. rewrite Hk, He. reflexivity.
  - destruct (auth k s cert cs any_mask) as [[w l]|]; [|reflexivity].
    destruct (has_profile (devs k w)); [|reflexivity].
    destruct (chal s w); [|reflexivity]. rewrite Hk, He. reflexivity.
  - destruct (auth k s cert cs any_mask) as [[w l]|]; [|reflexivity]. destruct (from_cache k); [reflexivity|].
    destruct (has_totp (devs k w) || has_u2f (devs k w)); [reflexivity|].
    destruct (boot s w); [|reflexivity]. rewrite He. reflexivity.
  - destruct (auth k s cert cs (webui k)) as [[w l]|]; [|reflexivity].
    destruct (nth_error (tokens s) tk) as [t|]; [|reflexivity]. rewrite He.
    destruct (negb (N.eqb (towner t) w)); reflexivity.
  - destruct (auth k s cert cs any_mask) as [[w l]|]; [|reflexivity].
    destruct (negb (okta_on k)); [reflexivity|]. unfold okta_valid.
    destruct (okta s w); [|discriminate]. rewrite He. reflexivity.
  - destruct (auth k s cert cs any_mask) as [[w l]|]; [|reflexivity].
    destruct (negb (okta_on k)); [reflexivity|]. unfold okta_valid.
    destruct (okta s w); [|discriminate]. rewrite He. reflexivity.
  - destruct (auth k s cert cs any_mask) as [[w l]|]; [|reflexivity].
    destruct (negb (okta_on k)); [reflexivity|]. unfold okta_valid.
    destruct (okta s w); [|discriminate]. rewrite He. reflexivity.
Qed.

(* ---------------------------------------------------------------- expired session cookies *)
(* the auth_cookie indices of a request that goes through checkAuth *)
Definition cookies_of (o : op) : option (list nat) :=
  match o with
  | VipOtp cs _ | PushStart cs _ | Poll cs _ | Totp cs _ | U2fBegin cs | U2fFinish cs _ | WaBegin cs | WaFinish cs _
  | Bootstrap cs _ | ShowTok cs _ | SendDoc cs _ | OktaOtp cs _ | OktaPushStart cs | OktaPoll cs => Some cs
  | _ => None
  end.

Lemma auth_expired k s cs m c :
  pick k (attached s cs) = Some c -> (cexp c <= now s)%Z -> auth k s None cs m = None.
Proof.
  intros P E. unfold auth, session. rewrite P.
  replace (cexp c <=? now s)%Z with true by (symmetry; apply Z.leb_le; exact E).
  destruct (N.eqb (N.land m cert_mask) 0); reflexivity.
Qed.

(* a request authenticated by an expired cookie (the one checkAuth looks at) does nothing *)
Lemma expired_cookie_refused k fault s o cs c :
  cookies_of o = Some cs -> pick k (attached s cs) = Some c -> (cexp c <= now s)%Z ->
  step_req k None fault s o = (s, None).
Proof.
  intros Ho P E. destruct o; try discriminate; cbn [cookies_of] in Ho; inversion Ho; subst; cbn [step_req];
  rewrite (auth_expired k s cs _ c P E); reflexivity.
Qed.

(* ---------------------------------------------------------------- the code before the repairs *)
Definition dev_all : devices := {| has_totp := true; has_u2f := true; has_wa := true; has_profile := true |}.
Definition cfg_with (poll mono expi del : bool) : config :=
  {| devs := fun _ => dev_all; webui := 2 ^ F_U2F; cookie_life := 57600; sel_last := true; upg_last := true;
     vip_life := 120; vip_expiry := true; poll_checks_user := poll;
     totp_monotone := mono; chal_expiry := expi; chal_delete_wa := del; upgrade_checks_owner := true; okta_on := false; okta_life := 300; from_cache := false; totp_mem_guard := true |}.

(* user 2 polls with the push cookie of user 1's approved transaction *)
Definition w_poll : list op := [Login 1 true []; Login 2 true []; PushStart [0%nat] 7; Approve 0; Poll [1%nat] 7].
Lemma old_poll_cross_user :
  let s := fst (run (cfg_with false true true true) init w_poll) in
  exists c, In c (issued s) /\ cuser c = 2%N /\ has (clevel c) F_VIP = true /\ forall t, ~ In (2%N, F_VIP, t) (proved s).
Proof.
  eexists. split; [vm_compute; right; right; left; reflexivity|]. split; [reflexivity|]. split; [vm_compute; reflexivity|].
  vm_compute. intros t [H|[H|[H|[H|H]]]]; try discriminate; exact H.
Qed.

(* a code accepted in step n is accepted again in step n+1 *)
Definition w_totp : list op :=
  [Tick 3000; Login 1 true []; Totp [0%nat] (TCode 1 100); Tick 30; Totp [0%nat] (TCode 1 100)].
Lemma old_totp_replay :
  ~ NoDup (spent (fst (run (cfg_with true false true true) init w_totp))) /\
  NoDup (spent (fst (run (cfg_with true true true true) init w_totp))).
Proof.
  split.
  - vm_compute. intros H. inversion H as [|x l Hn Hd]; subst. apply Hn. left. reflexivity.
  - vm_compute. repeat constructor. intros [].
Qed.

(* a challenge answered 31 s after it was issued; an assertion accepted twice *)
Definition asrt (u ch : N) (wa : bool) : assertion := {| a_owner := u; a_wa_key := wa; a_chal := ch |}.
Definition w_chal_exp : list op := [Login 1 true []; U2fBegin [0%nat]; Tick 31; U2fFinish [0%nat] (asrt 1 0 false)].
Definition w_chal_twice : list op :=
  [Login 1 true []; U2fBegin [0%nat]; U2fFinish [0%nat] (asrt 1 0 true); U2fFinish [0%nat] (asrt 1 0 true)].
Lemma old_challenge :
  nth 3 (snd (run (cfg_with true true false true) init w_chal_exp)) None <> None /\
  nth 3 (snd (run (cfg_with true true true true) init w_chal_exp)) None = None /\
  ~ NoDup (spent (fst (run (cfg_with true true true false) init w_chal_twice))) /\
  NoDup (spent (fst (run (cfg_with true true true true) init w_chal_twice))).
Proof.
  split; [vm_compute; discriminate|]. split; [vm_compute; reflexivity|]. split.
  - vm_compute. intros H. inversion H as [|x l Hn Hd]; subst. apply Hn. left. reflexivity.
  - vm_compute. repeat constructor. intros [].
Qed.

(* the upgrade as it was: user 1 authenticates with her client certificate and her own bootstrap
   OTP while the password-only cookie of user 2 is attached — user 2's cookie gains the factors *)
Definition dev_none : devices := {| has_totp := false; has_u2f := false; has_wa := false; has_profile := true |}.
Definition cfg_old_upgrade : config :=
  {| devs := fun _ => dev_none; webui := 2 ^ F_U2F; cookie_life := 57600; sel_last := true; upg_last := true;
     vip_life := 120; vip_expiry := true; poll_checks_user := true;
     totp_monotone := true; chal_expiry := true; chal_delete_wa := true; upgrade_checks_owner := false; okta_on := false; okta_life := 300; from_cache := false; totp_mem_guard := true |}.
Definition cfg_new_upgrade : config :=
  {| devs := fun _ => dev_none; webui := 2 ^ F_U2F; cookie_life := 57600; sel_last := true; upg_last := true;
     vip_life := 120; vip_expiry := true; poll_checks_user := true;
     totp_monotone := true; chal_expiry := true; chal_delete_wa := true; upgrade_checks_owner := true; okta_on := false; okta_life := 300; from_cache := false; totp_mem_guard := true |}.
Definition w_cert : list op :=
  [Login 2 true []; IssueOtp 1 3600; Req (Some 1%N) false (Bootstrap [0%nat] (BCode 1 0))].
Lemma old_cert_cookie :
  let s := fst (run cfg_old_upgrade init w_cert) in
  (exists c, In c (issued s) /\ cuser c = 2%N /\ has (clevel c) F_BOOT = true /\ has (clevel c) F_X509 = true /\
             (forall t, ~ In (2%N, F_BOOT, t) (proved s)) /\ (forall t, ~ In (2%N, F_X509, t) (proved s))) /\
  nth 2 (snd (run cfg_new_upgrade init w_cert)) None = None.
Proof.
  split; [|vm_compute; reflexivity].
  eexists. split; [vm_compute; right; left; reflexivity|]. split; [reflexivity|].
  split; [vm_compute; reflexivity|]. split; [vm_compute; reflexivity|].
  split; vm_compute; intros t [H|[H|[H|H]]]; try discriminate; exact H.
Qed.

(* an upgrade that re-signs the FIRST of several auth_cookie values while checkAuth authenticates
   the LAST (both of the same user, so the owner test passes): user 1 proves TOTP in an old session,
   logs in again an hour later, and answers a hardware-token challenge with [new cookie; old cookie]
   attached.  The new session — which ends an hour later than the old one — comes back with the TOTP
   bit although TOTP was never verified during it *)
Definition cfg_first_cookie (lst : bool) : config :=
  {| devs := fun _ => dev_all; webui := 2 ^ F_U2F; cookie_life := 57600; sel_last := true; upg_last := lst;
     vip_life := 120; vip_expiry := true; poll_checks_user := true;
     totp_monotone := true; chal_expiry := true; chal_delete_wa := true; upgrade_checks_owner := true; okta_on := false; okta_life := 300; from_cache := false; totp_mem_guard := true |}.
Definition w_first : list op :=
  [Tick 3000; Login 1 true []; Totp [0%nat] (TCode 1 100); Tick 3600; Login 1 true [];
   U2fBegin [2%nat; 1%nat]; U2fFinish [2%nat; 1%nat] (asrt 1 0 false)].
Lemma old_first_cookie :
  (let s := fst (run (cfg_first_cookie false) init w_first) in
   exists c, In c (issued s) /\ cuser c = 1%N /\ has (clevel c) F_TOTP = true /\ ciat c = 6600%Z /\
             forall t, In (1%N, F_TOTP, t) (proved s) -> (t < ciat c)%Z) /\
  (let s := fst (run (cfg_first_cookie true) init w_first) in
   exists c, nth 6 (snd (run (cfg_first_cookie true) init w_first)) None = Some c /\ ciat c = 3000%Z).
Proof.
  split.
  - eexists. split; [vm_compute; right; right; right; left; reflexivity|]. split; [reflexivity|].
    split; [vm_compute; reflexivity|]. split; [reflexivity|].
    vm_compute. intros t [H|[H|[H|[H|H]]]]; try discriminate; try contradiction.
    inversion H; subst. reflexivity.
  - eexists. split; vm_compute; reflexivity.
Qed.

(* a push transaction polled five minutes after it was started (lifetime: two minutes) *)
Definition cfg_vip_expiry (b : bool) : config :=
  {| devs := fun _ => dev_all; webui := 2 ^ F_U2F; cookie_life := 57600; sel_last := true; upg_last := true;
     vip_life := 120; vip_expiry := b; poll_checks_user := true;
     totp_monotone := true; chal_expiry := true; chal_delete_wa := true; upgrade_checks_owner := true; okta_on := false; okta_life := 300; from_cache := false; totp_mem_guard := true |}.
Definition w_vip_exp : list op := [Login 1 true []; PushStart [0%nat] 7; Approve 0; Tick 300; Poll [0%nat] 7].
Lemma old_vip_expiry :
  nth 4 (snd (run (cfg_vip_expiry false) init w_vip_exp)) None <> None /\
  nth 4 (snd (run (cfg_vip_expiry true) init w_vip_exp)) None = None.
Proof. split; [vm_compute; discriminate|vm_compute; reflexivity]. Qed.

(* the ghost record of a presented certificate is invisible to the handlers *)
Lemma auth_present k s c cert cs m : auth k (present_cert s c) cert cs m = auth k s cert cs m.
Proof.
  unfold auth, session. rewrite (attached_ext s (present_cert s c) cs) by (destruct c; reflexivity).
  replace (now (present_cert s c)) with (now s) by (destruct c; reflexivity). reflexivity.
Qed.

Lemma requester_present k s c cert o : requester k (present_cert s c) cert o = requester k s cert o.
Proof. destruct o; cbn [requester]; rewrite ?auth_present; reflexivity. Qed.

Lemma about_present k s c o : about k (present_cert s c) o = about k s o.
Proof. destruct c; reflexivity. Qed.

(* ---------------------------------------------------------------- the expiry of a one-time value is fixed when it is handed out *)
(* how a request changes the pending challenges / stored bootstrap OTPs: not at all, one deleted, or
   one replaced by a value with the new id `fresh s` *)
Lemma step_req_chal k cert fault s o :
  let s' := fst (step_req k cert fault s o) in
  chal s' = chal s \/ (exists u, chal s' = upd (chal s) u None) \/
  (exists u w e, chal s' = upd (chal s) u (Some {| chid := fresh s; ch_wa := w; chexp := e |})).
Proof.
  destruct o; cbn [step_req]; try (left; reflexivity);
  break_step; sset; try (left; reflexivity);
  try (right; right; eexists; eexists; eexists; reflexivity);
  match goal with HU : upgrade _ _ _ _ _ = (_, _) |- _ =>
    destruct (upgrade_fields _ _ _ _ _ _ _ HU) as [_ [_ [_ [_ [F5 _]]]]] end; sset_all;
  try (destruct (a_wa_key a); [destruct (chal_delete_wa k)|]);
  try (destruct (from_cache k); [destruct (totp_mem_guard k)|]); sset_all; rewrite F5;
  first [left; reflexivity | right; left; eexists; reflexivity].
Qed.

Lemma step_req_boot k cert fault s o :
  let s' := fst (step_req k cert fault s o) in
  boot s' = boot s \/ (exists u, boot s' = upd (boot s) u None) \/
  (exists u e, boot s' = upd (boot s) u (Some {| bserial := fresh s; bexp := e |})).
Proof.
  destruct o; cbn [step_req]; try (left; reflexivity);
  break_step; sset; try (left; reflexivity);
  try (right; right; eexists; eexists; reflexivity);
  match goal with HU : upgrade _ _ _ _ _ = (_, _) |- _ =>
    destruct (upgrade_fields _ _ _ _ _ _ _ HU) as [_ [_ [_ [_ [_ [_ [F7 _]]]]]]] end; sset_all;
  try (destruct (a_wa_key a); [destruct (chal_delete_wa k)|]);
  try (destruct (from_cache k); [destruct (totp_mem_guard k)|]); sset_all; rewrite F7;
  first [left; reflexivity | right; left; eexists; reflexivity].
Qed.

(* a challenge that is pending after a request under the id of a challenge that was pending before
   it IS that challenge: same user, same expiry, same kind — no request re-stamps a pending value *)
Lemma chal_fixed_req k cert fault s o u ch u' ch' :
  Inv2 s -> Inv3 s ->
  chal s u = Some ch -> chal (fst (step_req k cert fault s o)) u' = Some ch' -> chid ch' = chid ch ->
  u' = u /\ ch' = ch.
Proof.
  intros [_ [_ [_ [_ [_ [_ J6]]]]]] HK Hc Hc' Hid.
  assert (Hold : chal s u' = Some ch' -> u' = u /\ ch' = ch).
  { intros H. assert (u' = u) by (eapply J6; eauto). subst u'. split; [reflexivity|congruence]. }
  destruct (step_req_chal k cert fault s o) as [E|[[x E]|[x [w [e E]]]]]; rewrite E in Hc'.
  - apply Hold, Hc'.
  - unfold upd in Hc'. destruct (N.eqb u' x); [discriminate|]. apply Hold, Hc'.
  - unfold upd in Hc'. destruct (N.eqb u' x); [|apply Hold, Hc'].
    inversion Hc'; subst ch'. cbn in Hid. destruct HK as [_ [K1 [K2 _]]].
    specialize (K1 _ (K2 u ch Hc)). lia.
Qed.

Lemma boot_fixed_req k cert fault s o u b b' :
  Inv3 s -> boot s u = Some b -> boot (fst (step_req k cert fault s o)) u = Some b' -> bserial b' = bserial b -> b' = b.
Proof.
  intros HK Hb Hb' Hid.
  destruct (step_req_boot k cert fault s o) as [E|[[x E]|[x [e E]]]]; rewrite E in Hb'.
  - congruence.
  - unfold upd in Hb'. destruct (N.eqb u x); [discriminate|congruence].
  - unfold upd in Hb'. destruct (N.eqb u x); [|congruence].
    inversion Hb'; subst b'. cbn in Hid. destruct HK as [_ [K1 [_ [K3 _]]]].
    specialize (K1 _ (K3 u b Hb)). lia.
Qed.

Lemma present_cert_fields s c :
  chal (present_cert s c) = chal s /\ boot (present_cert s c) = boot s /\ minted (present_cert s c) = minted s /\
  fresh (present_cert s c) = fresh s /\ txs (present_cert s c) = txs s /\ last_totp (present_cert s c) = last_totp s.
Proof. destruct c; repeat split; reflexivity. Qed.

Lemma Inv2_present s c : Inv2 s -> Inv2 (present_cert s c).
Proof. intros H. destruct c; [|exact H]. cbn [present_cert]. mono2 s. Qed.

Lemma Inv3_present s c : Inv3 s -> Inv3 (present_cert s c).
Proof. intros H. destruct c; exact H. Qed.

Lemma chal_fixed k s o u ch u' ch' :
  Inv2 s -> Inv3 s ->
  chal s u = Some ch -> chal (fst (step k s o)) u' = Some ch' -> chid ch' = chid ch -> u' = u /\ ch' = ch.
Proof.
  intros HJ HK. rewrite step_unfold. intros Hc. apply chal_fixed_req.
  - apply Inv2_present, HJ.
  - apply Inv3_present, HK.
  - destruct (present_cert_fields s (cert_of o)) as [E _]. rewrite E. exact Hc.
Qed.

Lemma boot_fixed k s o u b b' :
  Inv3 s -> boot s u = Some b -> boot (fst (step k s o)) u = Some b' -> bserial b' = bserial b -> b' = b.
Proof.
  intros HK. rewrite step_unfold. intros Hb. apply boot_fixed_req.
  - apply Inv3_present, HK.
  - destruct (present_cert_fields s (cert_of o)) as [_ [E _]]. rewrite E. exact Hb.
Qed.

(* the value a step hands out is new in every respect: never handed out, not pending, never accepted *)
Lemma handed_new k s o i :
  Inv3 s -> handed s (fst (step k s o)) = Some i ->
  ~ In i (minted s) /\ minted (fst (step k s o)) = i :: minted s /\
  (forall u ch, chal s u = Some ch -> chid ch <> i) /\
  (forall u b, boot s u = Some b -> bserial b <> i) /\
  ~ In (OtChal i) (spent s) /\ (forall u, ~ In (OtBoot u i) (spent s)).
Proof.
  intros HK Hh. destruct (handed_fresh k s o i HK Hh) as [_ [Hn Hm]].
  destruct HK as [_ [_ [K2 [K3 [_ K5]]]]].
  split; [exact Hn|]. split; [exact Hm|].
  split; [intros u ch H E; apply Hn; rewrite <- E; exact (K2 u ch H)|].
  split; [intros u b H E; apply Hn; rewrite <- E; exact (K3 u b H)|].
  split; [intros H; apply Hn; exact (K5 _ H)|intros u H; apply Hn; exact (K5 _ H)].
Qed.

(* ---------------------------------------------------------------- the cache as read source *)
Lemma upgrade_saved_totp k s u cs lvl s2 out : upgrade k s u cs lvl = (s2, out) -> saved_totp s2 = saved_totp s.
Proof.
  unfold upgrade. destruct (pick_sel (upg_last k) (attached s cs)) as [c|]; [|intros H; inversion H; subst; reflexivity].
  destruct (upgrade_checks_owner k && negb (N.eqb (cuser c) u)); intros H; inversion H; subst; reflexivity.
Qed.

(* a request served from the cache writes nothing back: the persisted TOTP counter and the stored
   bootstrap OTPs are what they were (the profile that came from the cache may be older than the one
   in the primary database) *)
Lemma cached_no_write k cert fault s o :
  from_cache k = true ->
  saved_totp (fst (step_req k cert fault s o)) = saved_totp s /\ boot (fst (step_req k cert fault s o)) = boot s.
Proof.
  intros Hc. destruct o; cbn [step_req]; rewrite ?Hc; try (split; reflexivity);
  break_step; sset; try (split; reflexivity);
  match goal with HU : upgrade _ _ _ _ _ = (_, _) |- _ =>
    pose proof (upgrade_saved_totp _ _ _ _ _ _ _ HU) as G;
    destruct (upgrade_fields _ _ _ _ _ _ _ HU) as [_ [_ [_ [_ [_ [_ [F7 _]]]]]]] end;
  try (destruct (a_wa_key a); [destruct (chal_delete_wa k)|]);
  try (destruct (totp_mem_guard k)); sset_all; split; congruence.
Qed.

(* the replay guard of validateUserTOTP as it was: in cached mode the accepted step was neither
   persisted nor remembered — the same code is accepted again as long as the primary is slow *)
Definition cfg_mem_guard (g : bool) : config :=
  {| devs := fun _ => dev_all; webui := 2 ^ F_U2F; cookie_life := 57600; sel_last := true; upg_last := true;
     vip_life := 120; vip_expiry := true; poll_checks_user := true;
     totp_monotone := true; chal_expiry := true; chal_delete_wa := true; upgrade_checks_owner := true;
     okta_on := false; okta_life := 300; from_cache := false; totp_mem_guard := g |}.
Definition w_cached_totp : list op :=
  [Tick 3000; Login 1 true []; Cached (Totp [0%nat] (TCode 1 100)); Cached (Totp [0%nat] (TCode 1 100));
   Totp [0%nat] (TCode 1 100)].
Lemma old_cached_totp :
  ~ NoDup (spent (fst (run (cfg_mem_guard false) init w_cached_totp))) /\
  NoDup (spent (fst (run (cfg_mem_guard true) init w_cached_totp))) /\
  saved_totp (fst (run (cfg_mem_guard true) init w_cached_totp)) 1%N = 0%Z.
Proof.
  split; [|split].
  - vm_compute. intros H. inversion H as [|x l Hn Hd]; subst. apply Hn. left. reflexivity.
  - vm_compute. repeat constructor. intros [].
  - vm_compute. reflexivity.
Qed.

(* ---------------------------------------------------------------- logins with auth_cookie values attached *)
(* what a login mints: only with the right password; the session of the user who logged in, beginning now, at the
   password level exactly, with the configured lifetime — whatever auth_cookie values (cs), client certificate or
   write fault come with the request, in any state *)
Lemma login_mints_password_only k cert fault s u ok cs s' c :
  step_req k cert fault s (Login u ok cs) = (s', Some c) ->
  ok = true /\ c = {| cuser := u; clevel := add 0 F_PW; ciat := now s; cexp := (now s + cookie_life k)%Z |} /\
  In c (issued s') /\ In (u, F_PW, now s) (proved s').
Proof.
  cbn [step_req]. destruct ok; [|discriminate]. intros H. inversion H; subst. clear H.
  split; [reflexivity|]. split; [reflexivity|]. split.
  - sset. apply in_or_app. right. now left.
  - sset. now left.
Qed.

(* the attached cookies are no input of the login *)
Lemma login_ignores_attached k cert fault s u ok cs cs' :
  step_req k cert fault s (Login u ok cs) = step_req k cert fault s (Login u ok cs').
Proof. reflexivity. Qed.

Lemma login_level_bits f : has (add 0 F_PW) f = true -> f = F_PW.
Proof. rewrite has_add, has_zero. cbn [orb]. intros H. apply N.eqb_eq in H. now subst. Qed.

(* a loginHandler that keeps the second factors of the attached session of the same user (expiry not looked at):
   user 1 proves U2F at 3000; 60000 s later that session has expired and authenticates nothing; attached to a
   password login it gives the NEW session (iat 63000) the U2F bit, verified only at 3000 *)
Definition w_carry : list op :=
  [Tick 3000; Login 1 true []; U2fBegin [0%nat]; U2fFinish [0%nat] (asrt 1 0 false); Tick 60000].
Lemma login_carry_unjustified :
  let k := cfg_with true true true true in
  let s := fst (run k init w_carry) in
  session k s [1%nat] any_mask = None /\
  (exists c, snd (login_carry k s 1 [1%nat]) = Some c /\ In c (issued (fst (login_carry k s 1 [1%nat]))) /\
             cuser c = 1%N /\ has (clevel c) F_U2F = true /\ ciat c = 63000%Z /\
             forall t, In (1%N, F_U2F, t) (proved (fst (login_carry k s 1 [1%nat]))) -> (t < ciat c)%Z) /\
  (exists c, snd (step k s (Login 1 true [1%nat])) = Some c /\ clevel c = add 0 F_PW /\ ciat c = 63000%Z).
Proof.
  split; [vm_compute; reflexivity|]. split.
  - eexists. split; [vm_compute; reflexivity|]. split; [vm_compute; right; right; left; reflexivity|].
    split; [reflexivity|]. split; [vm_compute; reflexivity|]. split; [reflexivity|].
    vm_compute. intros t [H|[H|[H|H]]]; try discriminate; try contradiction.
    inversion H; subst. reflexivity.
  - eexists. split; [vm_compute; reflexivity|]. split; vm_compute; reflexivity.
Qed.
