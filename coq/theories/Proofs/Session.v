(* C05 — invariants of the session state machine *)
From Coq Require Import List NArith ZArith Bool Lia.
From KM Require Import Base.Tactics Model.Session.
Import ListNotations.

(* ---------------------------------------------------------------- bit sets *)
Lemma has_add l f g : has (add l f) g = has l g || N.eqb f g.
Proof. unfold has, add. rewrite N.lor_spec, N.pow2_bits_eqb. reflexivity. Qed.
Lemma has_zero g : has 0 g = false.
Proof. apply N.bits_0. Qed.

(* ---------------------------------------------------------------- sessions *)
Lemma attached_in s cs c : In c (attached s cs) -> In c (issued s).
Proof.
  induction cs as [|i r IH]; simpl; [tauto|].
  destruct (nth_error (issued s) i) eqn:E; [|exact IH].
  intros [<-|H]; [eapply nth_error_In; eauto|auto].
Qed.

Lemma last_some_in {A} (l : list A) c : last (map Some l) None = Some c -> In c l.
Proof.
  induction l as [|a r IH]; [discriminate|]. cbn [map]. destruct r as [|b r'].
  - simpl. intros H. inversion H. now left.
  - intros H. right. apply IH. exact H.
Qed.

Lemma pick_in k l c : pick k l = Some c -> In c l.
Proof.
  unfold pick. destruct (sel_last k).
  - apply last_some_in.
  - destruct l; simpl; [discriminate|]. intros H; inversion H; now left.
Qed.

Lemma session_in k s cs m c : session k s cs m = Some c -> In c (issued s).
Proof.
  unfold session. destruct (pick k (attached s cs)) as [c'|] eqn:P; [|discriminate].
  destruct (N.eqb (N.land (clevel c') m) 0); [discriminate|]. intros H; inversion H; subst.
  eapply attached_in, pick_in; eauto.
Qed.

(* ---------------------------------------------------------------- the provenance invariant *)
Definition Inv (s : st) : Prop :=
  (forall c, In c (issued s) -> forall f, has (clevel c) f = true -> In (cuser c, f) (proved s)) /\
  (forall e, In e (txs s) -> (fst e < fresh s)%N) /\
  (forall e, In e (vip s) -> tx_user s (vtx e) = Some (vuser e)) /\
  (forall tx, In tx (approved s) -> exists u, tx_user s tx = Some u /\ In (u, F_VIP) (proved s)).

Lemma Inv_init : Inv init.
Proof. repeat split; simpl; intros; contradiction. Qed.

(* steps that leave the VIP bookkeeping alone, only add to `proved`, and only add cookies whose
   every factor is proved for their user *)
Lemma Inv_mono s s' :
  Inv s -> txs s' = txs s -> vip s' = vip s -> approved s' = approved s -> (fresh s <= fresh s')%N ->
  incl (proved s) (proved s') ->
  (forall c, In c (issued s') -> In c (issued s) \/
                                 (forall f, has (clevel c) f = true -> In (cuser c, f) (proved s'))) ->
  Inv s'.
Proof.
  intros [I1 [I2 [I3 I4]]] Ht Hv Ha Hf Hp Hc. unfold Inv, tx_user. rewrite Ht, Hv, Ha.
  split; [|split; [|split]].
  - intros c Hin f Hf'. destruct (Hc c Hin) as [Hold|Hnew]; [apply Hp, (I1 c Hold f Hf')|apply Hnew, Hf'].
  - intros e He. specialize (I2 e He). lia.
  - exact I3.
  - intros tx Htx. destruct (I4 tx Htx) as [u [H1 H2]]. exists u. split; [exact H1|apply Hp, H2].
Qed.

Lemma in_app_single {A} (l : list A) x c : In c (l ++ [x]) -> In c l \/ c = x.
Proof. intros H. apply in_app_or in H. destruct H as [H|[H|[]]]; auto. Qed.

(* the re-signed cookie: old factors of the session cookie plus one factor proved for its user *)
Lemma upgraded_ok s c f P :
  Inv s -> In c (issued s) -> incl (proved s) P -> In (cuser c, f) P ->
  forall g, has (add (clevel c) f) g = true -> In (cuser c, g) P.
Proof.
  intros [I1 _] Hc Hp Hf g Hg. rewrite has_add in Hg. apply orb_true_iff in Hg. destruct Hg as [Hg|Hg].
  - apply Hp, (I1 c Hc g Hg).
  - apply N.eqb_eq in Hg. subst g. exact Hf.
Qed.

Lemma tx_user_cons_other s tx u tx' :
  tx <> tx' ->
  match find (fun e => N.eqb (fst e) tx') ((tx, u) :: txs s) with Some e => Some (snd e) | None => None end
  = tx_user s tx'.
Proof. intros H. unfold tx_user. simpl. destruct (N.eqb tx tx') eqn:E; [apply N.eqb_eq in E; contradiction|reflexivity]. Qed.

Lemma tx_user_lt s tx u : Inv s -> tx_user s tx = Some u -> (tx < fresh s)%N.
Proof.
  intros [_ [I2 _]] H. unfold tx_user in H.
  destruct (find (fun e => N.eqb (fst e) tx) (txs s)) as [e|] eqn:F; [|discriminate].
  apply find_some in F. destruct F as [Hin He]. apply N.eqb_eq in He. subst tx. apply I2, Hin.
Qed.

Lemma find_vip_in s v e : find_vip s v = Some e -> In e (vip s).
Proof. unfold find_vip. intros H. apply find_some in H. tauto. Qed.

Lemma is_approved_in s tx : is_approved s tx = true -> In tx (approved s).
Proof. unfold is_approved. rewrite existsb_exists. intros [x [Hx E]]. apply N.eqb_eq in E. now subst. Qed.

Ltac break_step :=
  repeat match goal with
  | |- context [match session ?k ?s ?cs ?m with _ => _ end] => destruct (session k s cs m) eqn:?
  | |- context [match ?x with VGood _ => _ | VBad => _ end] => destruct x
  | |- context [match ?x with TCode _ _ => _ | TBad => _ end] => destruct x
  | |- context [match ?x with BCode _ _ => _ | BBad => _ end] => destruct x
  | |- context [match find_vip ?s ?v with _ => _ end] => destruct (find_vip s v) eqn:?
  | |- context [match tx_user ?s ?v with _ => _ end] => destruct (tx_user s v) eqn:?
  | |- context [match chal ?s ?v with _ => _ end] => destruct (chal s v) eqn:?
  | |- context [match boot ?s ?v with _ => _ end] => destruct (boot s v) eqn:?
  | |- context [match nth_error ?l ?v with _ => _ end] => destruct (nth_error l v) eqn:?
  | |- context [if ?b then _ else _] => destruct b eqn:?
  end.

Ltac sset := cbn [issued tokens vip txs approved chal last_totp boot proved spent now fresh
                  set_ghost set_issued set_chal set_boot set_totp upgrade fst snd cuser clevel].
Ltac mono s := apply (Inv_mono s); sset; auto using incl_refl, incl_tl, N.le_refl; try lia.

Ltac clean :=
  repeat match goal with
  | H : _ && _ = true |- _ => apply andb_true_iff in H; destruct H
  | H : N.eqb _ _ = true |- _ => apply N.eqb_eq in H
  | H : negb _ = false |- _ => apply negb_false_iff in H
  end.

(* the new cookie is the session cookie with factors added, each of which heads `proved` *)
Ltac new_cookie s HI :=
  let c' := fresh "c'" in let Hc := fresh "Hc" in let g := fresh "g" in let Hg := fresh "Hg" in
  intros c' Hc; apply in_app_single in Hc; destruct Hc as [Hc| ->]; [now left|right]; sset;
  intros g Hg; repeat rewrite has_add in Hg; rewrite ?has_zero in Hg;
  repeat (apply orb_true_iff in Hg; destruct Hg as [Hg|Hg]);
  try discriminate;
  match type of Hg with
  | has (clevel ?c) _ = true =>
      assert (In (cuser c, g) (proved s))
        by (destruct HI as [I1 _]; apply (I1 c); [eapply session_in; eauto|exact Hg]);
      cbn [In]; tauto
  | _ => apply N.eqb_eq in Hg; subst g; cbn [In]; auto
  end.

Lemma step_Inv k s o : poll_checks_user k = true -> Inv s -> Inv (fst (step k s o)).
Proof.
  intros Hk HI. destruct o.
  - (* Login *) cbn [step]; break_step; sset; try exact HI. mono s. new_cookie s HI.
  - (* Logout *) exact HI.
  - (* VipOtp *) cbn [step]; break_step; sset; try exact HI. clean; subst. mono s. new_cookie s HI.
  - (* PushStart *)
    cbn [step]; break_step; sset; try exact HI.
    pose proof HI as [I1 [I2 [I3 I4]]]. unfold Inv; sset. split; [exact I1|split; [|split]].
    + intros e [<-|He]; cbn [fst]; [lia|]. specialize (I2 e He). lia.
    + intros e [<-|He]; cbn [vtx vuser].
      * unfold tx_user; cbn [txs find fst snd]. rewrite N.eqb_refl. reflexivity.
      * pose proof (I3 e He) as I3e. unfold tx_user; cbn [txs find fst snd].
        destruct (N.eqb (fresh s) (vtx e)) eqn:E; [|exact I3e].
        apply N.eqb_eq in E. pose proof (tx_user_lt s (vtx e) (vuser e) HI I3e). lia.
    + intros tx Htx. destruct (I4 tx Htx) as [u [H1 H2]]. exists u. split; [|exact H2].
      unfold tx_user; cbn [txs find fst snd]. destruct (N.eqb (fresh s) tx) eqn:E; [|exact H1].
      apply N.eqb_eq in E. pose proof (tx_user_lt s tx u HI H1). lia.
  - (* Approve *)
    cbn [step]; break_step; sset; try exact HI.
    pose proof HI as [I1 [I2 [I3 I4]]]. unfold Inv; sset. split; [|split; [exact I2|split; [exact I3|]]].
    + intros c Hc f Hf. right. apply (I1 c Hc f Hf).
    + intros tx' [<-|Htx].
      * eexists. split; [eassumption|now left].
      * destruct (I4 tx' Htx) as [u [H1 H2]]. exists u. split; [exact H1|now right].
  - (* Poll *)
    cbn [step]. destruct (session k s cs any_mask) as [c|] eqn:Hs; [|exact HI].
    destruct (find_vip s v) as [e|] eqn:Hv; [|exact HI]. rewrite Hk. cbn [andb].
    destruct (negb (N.eqb (vuser e) (cuser c))) eqn:Hu; [exact HI|].
    destruct (is_approved s (vtx e)) eqn:Ha; [|exact HI]. sset.
    apply negb_false_iff, N.eqb_eq in Hu. pose proof HI as [I1 [I2 [I3 I4]]].
    apply is_approved_in in Ha. destruct (I4 _ Ha) as [u [H1 H2]].
    rewrite (I3 e (find_vip_in _ _ _ Hv)) in H1. inversion H1; subst u. rewrite Hu in H2.
    mono s. intros c' Hc. apply in_app_single in Hc. destruct Hc as [Hc| ->]; [now left|right]. sset.
    apply (upgraded_ok s c F_VIP); [exact HI|eapply session_in; eauto|apply incl_refl|exact H2].
  - (* Totp *)
    cbn [step]; break_step; sset; try exact HI; clean; subst; mono s; new_cookie s HI.
  - (* U2fBegin *) cbn [step]; break_step; sset; try exact HI; mono s.
  - (* U2fFinish *)
    cbn [step]; break_step; sset; try exact HI; clean;
      match goal with H : a_owner _ = _ |- _ => rewrite H in * end; mono s; new_cookie s HI.
  - (* WaBegin *) cbn [step]; break_step; sset; try exact HI; mono s.
  - (* WaFinish *)
    cbn [step]; break_step; sset; try exact HI; clean;
      match goal with H : a_owner _ = _ |- _ => rewrite H in * end; mono s;
      try (intros x Hx; right; right; exact Hx); new_cookie s HI.
  - (* IssueOtp *) cbn [step]; break_step; sset; try exact HI; mono s.
  - (* Bootstrap *)
    cbn [step]; break_step; sset; try exact HI; clean; subst; mono s; new_cookie s HI.
  - (* ShowTok *) cbn [step]; break_step; sset; try exact HI; mono s.
  - (* SendDoc *)
    cbn [step]; break_step; sset; try exact HI; clean.
    match goal with H : towner _ = _ |- _ => rewrite H in * end. mono s. new_cookie s HI.
  - (* Tick *) cbn [step]. mono s.
Qed.

Lemma run_fst_step k : forall ops s, fst (run k s ops) = fold_left (fun s o => fst (step k s o)) ops s.
Proof.
  induction ops as [|o r IH]; intros s; [reflexivity|]. cbn [run fold_left].
  destruct (step k s o) as [s1 out] eqn:E. specialize (IH s1). destruct (run k s1 r) as [s2 outs].
  cbn [fst] in *. rewrite IH. reflexivity.
Qed.

Theorem run_Inv k ops : poll_checks_user k = true -> Inv (fst (run k init ops)).
Proof.
  intros Hk. rewrite run_fst_step. generalize Inv_init. generalize init.
  induction ops as [|o r IH]; intros s HI; [exact HI|]. cbn [fold_left]. apply IH. apply step_Inv; assumption.
Qed.

(* ---------------------------------------------------------------- one-time values *)
Lemma upd_same {A} (m : N -> A) u a : upd m u a u = a.
Proof. unfold upd. rewrite N.eqb_refl. reflexivity. Qed.
Lemma upd_other {A} (m : N -> A) u a x : x <> u -> upd m u a x = m x.
Proof. unfold upd. intros H. destruct (N.eqb x u) eqn:E; [apply N.eqb_eq in E; contradiction|reflexivity]. Qed.

Definition Inv2 (s : st) : Prop :=
  NoDup (spent s) /\
  (forall u t, In (OtTotp u t) (spent s) -> (t <= last_totp s u)%Z) /\
  (forall u n, In (OtBoot u n) (spent s) -> (n < fresh s)%N) /\
  (forall u b, boot s u = Some b -> (bserial b < fresh s)%N /\ ~ In (OtBoot u (bserial b)) (spent s)) /\
  (forall i, In (OtChal i) (spent s) -> (i < fresh s)%N) /\
  (forall u ch, chal s u = Some ch -> (chid ch < fresh s)%N /\ ~ In (OtChal (chid ch)) (spent s)) /\
  (forall u u' ch ch', chal s u = Some ch -> chal s u' = Some ch' -> chid ch = chid ch' -> u = u').

Lemma Inv2_init : Inv2 init.
Proof.
  unfold Inv2, init; cbn. repeat split; try (intros; contradiction); try (intros; discriminate). constructor.
Qed.

Lemma Inv2_mono s s' :
  Inv2 s -> spent s' = spent s -> last_totp s' = last_totp s -> boot s' = boot s -> chal s' = chal s ->
  (fresh s <= fresh s')%N -> Inv2 s'.
Proof.
  intros [J0 [J1 [J2 [J3 [J4 [J5 J6]]]]]] Hs Ht Hb Hc Hf. unfold Inv2. rewrite Hs, Ht, Hb, Hc.
  repeat split; auto.
  - intros u n H. specialize (J2 u n H). lia.
  - destruct (J3 u b H). lia.
  - destruct (J3 u b H). assumption.
  - intros i H. specialize (J4 i H). lia.
  - destruct (J5 u ch H). lia.
  - destruct (J5 u ch H). assumption.
Qed.

Ltac mono2 s := apply (Inv2_mono s); sset; auto; try lia.

(* a new pending challenge with a fresh identifier *)
Lemma Inv2_new_chal s u w e :
  Inv2 s -> Inv2 (set_chal s (upd (chal s) u (Some {| chid := fresh s; ch_wa := w; chexp := e |})) (fresh s + 1)).
Proof.
  intros [J0 [J1 [J2 [J3 [J4 [J5 J6]]]]]]. unfold Inv2; sset. repeat split; auto.
  - intros u0 n H. specialize (J2 u0 n H). lia.
  - destruct (J3 u0 b H). lia.
  - destruct (J3 u0 b H). assumption.
  - intros i H. specialize (J4 i H). lia.
  - destruct (N.eq_dec u0 u) as [->|Hne].
    + rewrite upd_same in H. inversion H; subst; cbn. lia.
    + rewrite upd_other in H by exact Hne. destruct (J5 u0 ch H). lia.
  - destruct (N.eq_dec u0 u) as [->|Hne].
    + rewrite upd_same in H. inversion H; subst; cbn. intros Hin. specialize (J4 _ Hin). lia.
    + rewrite upd_other in H by exact Hne. destruct (J5 u0 ch H). assumption.
  - intros u1 u2 ch ch' H1 H2 E.
    destruct (N.eq_dec u1 u) as [->|N1]; destruct (N.eq_dec u2 u) as [->|N2]; auto.
    + rewrite upd_same in H1. rewrite upd_other in H2 by exact N2. inversion H1; subst; cbn in E.
      destruct (J5 u2 ch' H2). lia.
    + rewrite upd_same in H2. rewrite upd_other in H1 by exact N1. inversion H2; subst; cbn in E.
      destruct (J5 u1 ch H1). lia.
    + rewrite upd_other in H1 by exact N1. rewrite upd_other in H2 by exact N2. eapply J6; eauto.
Qed.

(* an answered challenge: deleted and recorded *)
Lemma Inv2_use_chal s u ch :
  Inv2 s -> chal s u = Some ch ->
  Inv2 (set_ghost (set_chal s (upd (chal s) u None) (fresh s)) (proved s) (OtChal (chid ch) :: spent s)).
Proof.
  intros [J0 [J1 [J2 [J3 [J4 [J5 J6]]]]]] Hch. destruct (J5 u ch Hch) as [Hlt Hnin].
  unfold Inv2; sset. repeat split; auto.
  - constructor; assumption.
  - intros u0 t [H|H]; [discriminate|]. apply J1, H.
  - intros u0 n [H|H]; [discriminate|]. apply (J2 u0 n H).
  - destruct (J3 u0 b H). assumption.
  - intros [H'|H']; [discriminate|]. destruct (J3 u0 b H). contradiction.
  - intros i [H|H]; [inversion H; subst; exact Hlt|apply J4, H].
  - destruct (N.eq_dec u0 u) as [->|Hne]; [rewrite upd_same in H; discriminate|].
    rewrite upd_other in H by exact Hne. destruct (J5 u0 ch0 H). assumption.
  - destruct (N.eq_dec u0 u) as [->|Hne]; [rewrite upd_same in H; discriminate|].
    rewrite upd_other in H by exact Hne. intros [E|Hin].
    + inversion E as [E']. symmetry in E'. specialize (J6 u0 u ch0 ch H Hch E'). contradiction.
    + destruct (J5 u0 ch0 H). contradiction.
  - intros u1 u2 c1 c2 H1 H2 E.
    destruct (N.eq_dec u1 u) as [->|N1]; [rewrite upd_same in H1; discriminate|].
    destruct (N.eq_dec u2 u) as [->|N2]; [rewrite upd_same in H2; discriminate|].
    rewrite upd_other in H1 by exact N1. rewrite upd_other in H2 by exact N2. eapply J6; eauto.
Qed.

Lemma Inv2_new_boot s u e :
  Inv2 s -> Inv2 (set_boot s (upd (boot s) u (Some {| bserial := fresh s; bexp := e |})) (fresh s + 1)).
Proof.
  intros [J0 [J1 [J2 [J3 [J4 [J5 J6]]]]]]. unfold Inv2; sset. repeat split; auto.
  - intros u0 n H. specialize (J2 u0 n H). lia.
  - destruct (N.eq_dec u0 u) as [->|Hne].
    + rewrite upd_same in H. inversion H; subst; cbn. lia.
    + rewrite upd_other in H by exact Hne. destruct (J3 u0 b H). lia.
  - destruct (N.eq_dec u0 u) as [->|Hne].
    + rewrite upd_same in H. inversion H; subst; cbn. intros Hin. specialize (J2 _ _ Hin). lia.
    + rewrite upd_other in H by exact Hne. destruct (J3 u0 b H). assumption.
  - intros i H. specialize (J4 i H). lia.
  - destruct (J5 u0 ch H). lia.
  - destruct (J5 u0 ch H). assumption.
Qed.

Lemma Inv2_use_boot s u b :
  Inv2 s -> boot s u = Some b ->
  Inv2 (set_ghost (set_boot s (upd (boot s) u None) (fresh s)) (proved s) (OtBoot u (bserial b) :: spent s)).
Proof.
  intros [J0 [J1 [J2 [J3 [J4 [J5 J6]]]]]] Hb. destruct (J3 u b Hb) as [Hlt Hnin].
  unfold Inv2; sset. repeat split; auto.
  - constructor; assumption.
  - intros u0 t [H|H]; [discriminate|]. apply J1, H.
  - intros u0 n [H|H]; [inversion H; subst; exact Hlt|apply (J2 u0 n H)].
  - destruct (N.eq_dec u0 u) as [->|Hne]; [rewrite upd_same in H; discriminate|].
    rewrite upd_other in H by exact Hne. destruct (J3 u0 b0 H). assumption.
  - destruct (N.eq_dec u0 u) as [->|Hne]; [rewrite upd_same in H; discriminate|].
    rewrite upd_other in H by exact Hne. intros [E|Hin].
    + inversion E; congruence.
    + destruct (J3 u0 b0 H). contradiction.
  - intros i [H|H]; [discriminate|apply J4, H].
  - destruct (J5 u0 ch H). assumption.
  - intros [H'|H']; [discriminate|]. destruct (J5 u0 ch H). contradiction.
Qed.

Lemma Inv2_use_totp s u t :
  Inv2 s -> (last_totp s u < t)%Z ->
  Inv2 (set_ghost (set_totp s (upd (last_totp s) u t)) (proved s) (OtTotp u t :: spent s)).
Proof.
  intros [J0 [J1 [J2 [J3 [J4 [J5 J6]]]]]] Hlt. unfold Inv2; sset. repeat split; auto.
  - constructor; [|assumption]. intros Hin. specialize (J1 u t Hin). lia.
  - intros u0 t0 [H|H].
    + inversion H; subst. rewrite upd_same. lia.
    + specialize (J1 u0 t0 H). destruct (N.eq_dec u0 u) as [->|Hne]; [rewrite upd_same; lia|].
      rewrite upd_other by exact Hne. exact J1.
  - intros u0 n [H|H]; [discriminate|apply (J2 u0 n H)].
  - destruct (J3 u0 b H). assumption.
  - intros [H'|H']; [discriminate|]. destruct (J3 u0 b H). contradiction.
  - intros i [H|H]; [discriminate|apply J4, H].
  - destruct (J5 u0 ch H). assumption.
  - intros [H'|H']; [discriminate|]. destruct (J5 u0 ch H). contradiction.
Qed.

(* Inv2 does not look at issued cookies, proved factors, tokens or the clock *)
Lemma Inv2_irrelevant s iss p : Inv2 s -> Inv2 (set_ghost (set_issued s iss) p (spent s)).
Proof. intros H. mono2 s. Qed.

Lemma step_Inv2 k s o :
  totp_monotone k = true -> chal_delete_wa k = true -> Inv2 s -> Inv2 (fst (step k s o)).
Proof.
  intros Hm Hd HJ. destruct o; cbn [step]; rewrite ?Hm, ?Hd.
  - (* Login *) break_step; sset; try exact HJ; try (mono2 s).
  - exact HJ.
  - (* VipOtp *) break_step; sset; try exact HJ; try (mono2 s).
  - (* PushStart *) break_step; sset; try exact HJ; try (mono2 s).
  - (* Approve *) break_step; sset; try exact HJ; try (mono2 s).
  - (* Poll *) break_step; sset; try exact HJ; try (mono2 s).
  - (* Totp *)
    break_step; sset; try exact HJ. clean; subst.
    match goal with H : (?t <=? last_totp s ?u)%Z = false |- _ => apply Z.leb_gt in H;
      apply (Inv2_mono (set_ghost (set_totp s (upd (last_totp s) u t)) (proved s) (OtTotp u t :: spent s)));
      [apply Inv2_use_totp; assumption|sset; auto; lia ..] end.
  - (* U2fBegin *) break_step; sset; try exact HJ; apply Inv2_new_chal, HJ.
  - (* U2fFinish *)
    break_step; sset; try exact HJ;
    try (match goal with H : (if ?x then true else true) = false |- _ => destruct x; discriminate end);
    match goal with H : chal s ?u = Some ?ch |- _ =>
      apply (Inv2_mono (set_ghost (set_chal s (upd (chal s) u None) (fresh s)) (proved s) (OtChal (chid ch) :: spent s)));
      [apply Inv2_use_chal; assumption|sset; auto; lia ..] end.
  - (* WaBegin *) break_step; sset; try exact HJ; apply Inv2_new_chal, HJ.
  - (* WaFinish *)
    break_step; sset; try exact HJ;
    match goal with H : chal s ?u = Some ?ch |- _ =>
      apply (Inv2_mono (set_ghost (set_chal s (upd (chal s) u None) (fresh s)) (proved s) (OtChal (chid ch) :: spent s)));
      [apply Inv2_use_chal; assumption|sset; auto; lia ..] end.
  - (* IssueOtp *) break_step; sset; try exact HJ; apply Inv2_new_boot, HJ.
  - (* Bootstrap *)
    break_step; sset; try exact HJ. clean; subst.
    match goal with H : boot s ?u = Some ?b |- _ =>
      apply (Inv2_mono (set_ghost (set_boot s (upd (boot s) u None) (fresh s)) (proved s) (OtBoot u (bserial b) :: spent s)));
      [apply Inv2_use_boot; assumption|sset; auto; lia ..] end.
  - (* ShowTok *) break_step; sset; try exact HJ; try (mono2 s).
  - (* SendDoc *) break_step; sset; try exact HJ; try (mono2 s).
  - (* Tick *) try exact HJ; try (mono2 s).
Qed.

Theorem run_Inv2 k ops : totp_monotone k = true -> chal_delete_wa k = true -> Inv2 (fst (run k init ops)).
Proof.
  intros Hm Hd. rewrite run_fst_step. generalize Inv2_init. generalize init.
  induction ops as [|o r IH]; intros s HJ; [exact HJ|]. cbn [fold_left]. apply IH. apply step_Inv2; assumption.
Qed.

(* the one-time value an operation presents *)
Definition presents (o : op) : option onetime :=
  match o with
  | Totp _ (TCode owner t) => Some (OtTotp owner t)
  | Bootstrap _ (BCode owner n) => Some (OtBoot owner n)
  | U2fFinish _ a => Some (OtChal (a_chal a))
  | WaFinish _ a => Some (OtChal (a_chal a))
  | _ => None
  end.

(* acceptance records the value ... *)
Lemma accepted_spent k s o v :
  presents o = Some v -> snd (step k s o) <> None ->
  spent (fst (step k s o)) = v :: spent s.
Proof.
  intros Hp Hacc. destruct o; try discriminate; cbn [presents] in Hp.
  - destruct code; [|discriminate]. inversion Hp; subst v. revert Hacc. cbn [step].
    break_step; sset; try (intros H; exfalso; apply H; reflexivity); intros _; clean; subst; reflexivity.
  - inversion Hp; subst v. revert Hacc. cbn [step].
    break_step; sset; try (intros H; exfalso; apply H; reflexivity); intros _; clean;
      match goal with H : a_chal _ = _ |- _ => rewrite H end; reflexivity.
  - inversion Hp; subst v. revert Hacc. cbn [step].
    break_step; sset; try (intros H; exfalso; apply H; reflexivity); intros _; clean;
      match goal with H : a_chal _ = _ |- _ => rewrite H end; reflexivity.
  - destruct code; [|discriminate]. inversion Hp; subst v. revert Hacc. cbn [step].
    break_step; sset; try (intros H; exfalso; apply H; reflexivity); intros _; clean; subst; reflexivity.
Qed.

(* ... and a recorded value is never accepted again *)
Lemma spent_refused k s o v :
  totp_monotone k = true -> chal_delete_wa k = true -> Inv2 s ->
  presents o = Some v -> In v (spent s) -> snd (step k s o) = None.
Proof.
  intros Hm Hd HJ Hp Hin.
  destruct (snd (step k s o)) as [c|] eqn:E; [exfalso|reflexivity].
  assert (Hacc : snd (step k s o) <> None) by (rewrite E; discriminate).
  pose proof (accepted_spent k s o v Hp Hacc) as Hs.
  pose proof (step_Inv2 k s o Hm Hd HJ) as [J0 _]. rewrite Hs in J0. inversion J0; contradiction.
Qed.

(* ---------------------------------------------------------------- answers about somebody else *)
(* whom the environment's positive answer carried by the operation is about *)
Definition about (s : st) (o : op) : option N :=
  match o with
  | VipOtp _ (VGood owner) => Some owner
  | Totp _ (TCode owner _) => Some owner
  | Bootstrap _ (BCode owner _) => Some owner
  | U2fFinish _ a => Some (a_owner a)
  | WaFinish _ a => Some (a_owner a)
  | SendDoc _ tk => match nth_error (tokens s) tk with Some t => Some (towner t) | None => None end
  | Poll _ v => match find_vip s v with Some e => tx_user s (vtx e) | None => None end
  | _ => None
  end.

(* the user of the session the request runs in *)
Definition requester (k : config) (s : st) (o : op) : option N :=
  let ses cs m := match session k s cs m with Some c => Some (cuser c) | None => None end in
  match o with
  | VipOtp cs _ | Totp cs _ | Bootstrap cs _ | U2fFinish cs _ | WaFinish cs _ | Poll cs _ => ses cs any_mask
  | SendDoc cs _ => ses cs (webui k)
  | _ => None
  end.

Lemma cross_user_refused k s o u u' :
  poll_checks_user k = true -> Inv s ->
  about s o = Some u -> requester k s o = Some u' -> u <> u' -> step k s o = (s, None).
Proof.
  intros Hk HI Ha Hr Hne.
  assert (Hneb : forall x y : N, x = u -> y = u' -> N.eqb x y = false).
  { intros x y -> ->. apply N.eqb_neq. exact Hne. }
  destruct o; try discriminate; cbn [about requester] in Ha, Hr; cbn [step].
  - (* VipOtp *)
    destruct (session k s cs any_mask) as [c|]; [|discriminate]. inversion Hr; subst u'.
    destruct code; [|discriminate]. inversion Ha; subst u. rewrite (Hneb owner (cuser c)) by reflexivity. reflexivity.
  - (* Poll *)
    destruct (session k s cs any_mask) as [c|]; [|discriminate]. inversion Hr; subst u'.
    destruct (find_vip s v) as [e|] eqn:Hv; [|discriminate].
    destruct HI as [_ [_ [I3 _]]]. rewrite (I3 e (find_vip_in _ _ _ Hv)) in Ha. inversion Ha; subst u.
    rewrite Hk, (Hneb (vuser e) (cuser c)) by reflexivity. reflexivity.
  - (* Totp *)
    destruct (session k s cs any_mask) as [c|]; [|discriminate]. inversion Hr; subst u'.
    destruct code; [|discriminate]. inversion Ha; subst u.
    rewrite (Hneb owner (cuser c)) by reflexivity. rewrite andb_false_r. reflexivity.
  - (* U2fFinish *)
    destruct (session k s cs any_mask) as [c|]; [|discriminate]. inversion Hr; subst u'. inversion Ha; subst u.
    rewrite (Hneb (a_owner a) (cuser c)) by reflexivity. cbn [andb].
    destruct (has_profile (devs k (cuser c)) && has_any_key (devs k (cuser c))); [|reflexivity].
    destruct (chal s (cuser c)); [|reflexivity]. destruct (chal_expiry k && (chexp c0 <=? now s)%Z); reflexivity.
  - (* WaFinish *)
    destruct (session k s cs any_mask) as [c|]; [|discriminate]. inversion Hr; subst u'. inversion Ha; subst u.
    rewrite (Hneb (a_owner a) (cuser c)) by reflexivity. cbn [andb].
    destruct (has_profile (devs k (cuser c))); [|reflexivity].
    destruct (chal s (cuser c)); [|reflexivity]. destruct (chal_expiry k && (chexp c0 <=? now s)%Z); [reflexivity|].
    destruct (negb (ch_wa c0)); reflexivity.
  - (* Bootstrap *)
    destruct (session k s cs any_mask) as [c|]; [|discriminate]. inversion Hr; subst u'.
    destruct code; [|discriminate]. inversion Ha; subst u.
    rewrite (Hneb owner (cuser c)) by reflexivity. cbn [andb].
    destruct (has_totp (devs k (cuser c)) || has_u2f (devs k (cuser c))); [reflexivity|].
    destruct (boot s (cuser c)); [|reflexivity]. destruct (bexp b <=? now s)%Z; reflexivity.
  - (* SendDoc *)
    destruct (session k s cs (webui k)) as [c|]; [|discriminate]. inversion Hr; subst u'.
    destruct (nth_error (tokens s) tk) as [t|]; [|discriminate]. inversion Ha; subst u.
    rewrite (Hneb (towner t) (cuser c)) by reflexivity. reflexivity.
Qed.

(* ---------------------------------------------------------------- expired values *)
(* the value presented is past its expiry: a code of a step the validator no longer looks at, the
   stored bootstrap value / pending challenge of the session's user past ExpiresAt, a CLI token
   past its exp claim *)
Definition expired (k : config) (s : st) (o : op) : bool :=
  match o with
  | Totp _ (TCode _ t) => (t <? totp_step (now s) - 1)%Z
  | Bootstrap cs _ =>
      match session k s cs any_mask with
      | Some c => match boot s (cuser c) with Some b => (bexp b <=? now s)%Z | None => false end
      | None => false
      end
  | U2fFinish cs _ | WaFinish cs _ =>
      match session k s cs any_mask with
      | Some c => match chal s (cuser c) with Some ch => (chexp ch <=? now s)%Z | None => false end
      | None => false
      end
  | SendDoc _ tk => match nth_error (tokens s) tk with Some t => (texp t <=? now s)%Z | None => false end
  | _ => false
  end.

Lemma expired_refused k s o : chal_expiry k = true -> expired k s o = true -> step k s o = (s, None).
Proof.
  intros Hk He. destruct o; try discriminate; cbn [expired] in He; cbn [step].
  - destruct code; [|discriminate]. destruct (session k s cs any_mask) as [c|]; [|reflexivity].
    apply Z.ltb_lt in He. replace (totp_step (now s) - 1 <=? stp)%Z with false by (symmetry; apply Z.leb_gt; lia).
    rewrite andb_false_r. reflexivity.
  - destruct (session k s cs any_mask) as [c|]; [|reflexivity].
    destruct (has_profile (devs k (cuser c)) && has_any_key (devs k (cuser c))); [|reflexivity].
    destruct (chal s (cuser c)); [|reflexivity]. rewrite Hk, He. reflexivity.
  - destruct (session k s cs any_mask) as [c|]; [|reflexivity].
    destruct (has_profile (devs k (cuser c))); [|reflexivity].
    destruct (chal s (cuser c)); [|reflexivity]. rewrite Hk, He. reflexivity.
  - destruct (session k s cs any_mask) as [c|]; [|reflexivity].
    destruct (has_totp (devs k (cuser c)) || has_u2f (devs k (cuser c))); [reflexivity|].
    destruct (boot s (cuser c)); [|reflexivity]. rewrite He. reflexivity.
  - destruct (session k s cs (webui k)) as [c|]; [|reflexivity].
    destruct (nth_error (tokens s) tk) as [t|]; [|reflexivity]. rewrite He.
    destruct (negb (N.eqb (towner t) (cuser c))); reflexivity.
Qed.

(* ---------------------------------------------------------------- the code before the repairs *)
Definition dev_all : devices := {| has_totp := true; has_u2f := true; has_wa := true; has_profile := true |}.
Definition cfg_with (poll mono expi del : bool) : config :=
  {| devs := fun _ => dev_all; webui := 2 ^ F_U2F; sel_last := true; poll_checks_user := poll;
     totp_monotone := mono; chal_expiry := expi; chal_delete_wa := del |}.

(* user 2 polls with the push cookie of user 1's approved transaction *)
Definition w_poll : list op := [Login 1 true; Login 2 true; PushStart [0%nat] 7; Approve 0; Poll [1%nat] 7].
Lemma old_poll_cross_user :
  let s := fst (run (cfg_with false true true true) init w_poll) in
  exists c, In c (issued s) /\ cuser c = 2%N /\ has (clevel c) F_VIP = true /\ ~ In (2%N, F_VIP) (proved s).
Proof.
  eexists. split; [vm_compute; right; right; left; reflexivity|]. split; [reflexivity|]. split; [vm_compute; reflexivity|].
  vm_compute. intros [H|[H|[H|H]]]; try discriminate; exact H.
Qed.

(* a code accepted in step n is accepted again in step n+1 *)
Definition w_totp : list op :=
  [Tick 3000; Login 1 true; Totp [0%nat] (TCode 1 100); Tick 30; Totp [0%nat] (TCode 1 100)].
Lemma old_totp_replay :
  ~ NoDup (spent (fst (run (cfg_with true false true true) init w_totp))) /\
  NoDup (spent (fst (run (cfg_with true true true true) init w_totp))).
Proof.
  split.
  - vm_compute. intros H. inversion H as [|x l Hn Hd]; subst. apply Hn. left. reflexivity.
  - vm_compute. repeat constructor. intros [].
Qed.

(* a challenge answered 31 s after it was issued; an assertion accepted twice *)
Definition asrt (u ch : N) (wa : bool) : assertion := {| a_owner := u; a_wa_key := wa; a_chal := ch |}.
Definition w_chal_exp : list op := [Login 1 true; U2fBegin [0%nat]; Tick 31; U2fFinish [0%nat] (asrt 1 0 false)].
Definition w_chal_twice : list op :=
  [Login 1 true; U2fBegin [0%nat]; U2fFinish [0%nat] (asrt 1 0 true); U2fFinish [0%nat] (asrt 1 0 true)].
Lemma old_challenge :
  nth 3 (snd (run (cfg_with true true false true) init w_chal_exp)) None <> None /\
  nth 3 (snd (run (cfg_with true true true true) init w_chal_exp)) None = None /\
  ~ NoDup (spent (fst (run (cfg_with true true true false) init w_chal_twice))) /\
  NoDup (spent (fst (run (cfg_with true true true true) init w_chal_twice))).
Proof.
  split; [vm_compute; discriminate|]. split; [vm_compute; reflexivity|]. split.
  - vm_compute. intros H. inversion H as [|x l Hn Hd]; subst. apply Hn. left. reflexivity.
  - vm_compute. repeat constructor. intros [].
Qed.
