(* C05 — invariants of the session state machine *)
From Coq Require Import List NArith ZArith Bool Lia.
From KM Require Import Base.Tactics Model.Session.
Import ListNotations.

(* ---------------------------------------------------------------- bit sets *)
Lemma has_add l f g : has (add l f) g = has l g || N.eqb f g.
Proof. unfold has, add. rewrite N.lor_spec, N.pow2_bits_eqb. reflexivity. Qed.
Lemma has_zero g : has 0 g = false.
Proof. apply N.bits_0. Qed.

(* ---------------------------------------------------------------- sessions *)
Lemma attached_in s cs c : In c (attached s cs) -> In c (issued s).
Proof.
  induction cs as [|i r IH]; simpl; [tauto|].
  destruct (nth_error (issued s) i) eqn:E; [|exact IH].
  intros [<-|H]; [eapply nth_error_In; eauto|auto].
Qed.

Lemma last_some_in {A} (l : list A) c : last (map Some l) None = Some c -> In c l.
Proof.
  induction l as [|a r IH]; [discriminate|]. cbn [map]. destruct r as [|b r'].
  - simpl. intros H. inversion H. now left.
  - intros H. right. apply IH. exact H.
Qed.

Lemma pick_in k l c : pick k l = Some c -> In c l.
Proof.
  unfold pick. destruct (sel_last k).
  - apply last_some_in.
  - destruct l; simpl; [discriminate|]. intros H; inversion H; now left.
Qed.

Lemma session_in k s cs m c : session k s cs m = Some c -> In c (issued s).
Proof.
  unfold session. destruct (pick k (attached s cs)) as [c'|] eqn:P; [|discriminate].
  destruct (N.eqb (N.land (clevel c') m) 0); [discriminate|]. intros H; inversion H; subst.
  eapply attached_in, pick_in; eauto.
Qed.

(* ---------------------------------------------------------------- the provenance invariant *)
Definition Inv (s : st) : Prop :=
  (forall c, In c (issued s) -> forall f, has (clevel c) f = true -> In (cuser c, f) (proved s)) /\
  (forall e, In e (txs s) -> (fst e < fresh s)%N) /\
  (forall e, In e (vip s) -> tx_user s (vtx e) = Some (vuser e)) /\
  (forall tx, In tx (approved s) -> exists u, tx_user s tx = Some u /\ In (u, F_VIP) (proved s)).

Lemma Inv_init : Inv init.
Proof. repeat split; simpl; intros; contradiction. Qed.

(* steps that leave the VIP bookkeeping alone, only add to `proved`, and only add cookies whose
   every factor is proved for their user *)
Lemma Inv_mono s s' :
  Inv s -> txs s' = txs s -> vip s' = vip s -> approved s' = approved s -> (fresh s <= fresh s')%N ->
  incl (proved s) (proved s') ->
  (forall c, In c (issued s') -> In c (issued s) \/
                                 (forall f, has (clevel c) f = true -> In (cuser c, f) (proved s'))) ->
  Inv s'.
Proof.
  intros [I1 [I2 [I3 I4]]] Ht Hv Ha Hf Hp Hc. unfold Inv, tx_user. rewrite Ht, Hv, Ha.
  split; [|split; [|split]].
  - intros c Hin f Hf'. destruct (Hc c Hin) as [Hold|Hnew]; [apply Hp, (I1 c Hold f Hf')|apply Hnew, Hf'].
  - intros e He. specialize (I2 e He). lia.
  - exact I3.
  - intros tx Htx. destruct (I4 tx Htx) as [u [H1 H2]]. exists u. split; [exact H1|apply Hp, H2].
Qed.

Lemma in_app_single {A} (l : list A) x c : In c (l ++ [x]) -> In c l \/ c = x.
Proof. intros H. apply in_app_or in H. destruct H as [H|[H|[]]]; auto. Qed.

(* the re-signed cookie: old factors of the session cookie plus one factor proved for its user *)
Lemma upgraded_ok s c f P :
  Inv s -> In c (issued s) -> incl (proved s) P -> In (cuser c, f) P ->
  forall g, has (add (clevel c) f) g = true -> In (cuser c, g) P.
Proof.
  intros [I1 _] Hc Hp Hf g Hg. rewrite has_add in Hg. apply orb_true_iff in Hg. destruct Hg as [Hg|Hg].
  - apply Hp, (I1 c Hc g Hg).
  - apply N.eqb_eq in Hg. subst g. exact Hf.
Qed.

Lemma tx_user_cons_other s tx u tx' :
  tx <> tx' ->
  match find (fun e => N.eqb (fst e) tx') ((tx, u) :: txs s) with Some e => Some (snd e) | None => None end
  = tx_user s tx'.
Proof. intros H. unfold tx_user. simpl. destruct (N.eqb tx tx') eqn:E; [apply N.eqb_eq in E; contradiction|reflexivity]. Qed.

Lemma tx_user_lt s tx u : Inv s -> tx_user s tx = Some u -> (tx < fresh s)%N.
Proof.
  intros [_ [I2 _]] H. unfold tx_user in H.
  destruct (find (fun e => N.eqb (fst e) tx) (txs s)) as [e|] eqn:F; [|discriminate].
  apply find_some in F. destruct F as [Hin He]. apply N.eqb_eq in He. subst tx. apply I2, Hin.
Qed.

Lemma find_vip_in s v e : find_vip s v = Some e -> In e (vip s).
Proof. unfold find_vip. intros H. apply find_some in H. tauto. Qed.

Lemma is_approved_in s tx : is_approved s tx = true -> In tx (approved s).
Proof. unfold is_approved. rewrite existsb_exists. intros [x [Hx E]]. apply N.eqb_eq in E. now subst. Qed.

Ltac break_step :=
  repeat match goal with
  | |- context [match auth ?k ?s ?c ?cs ?m with _ => _ end] => destruct (auth k s c cs m) as [[? ?]|] eqn:?
  | |- context [match upgrade ?k ?s ?u ?cs ?l with _ => _ end] => destruct (upgrade k s u cs l) as [? ?] eqn:?
  | |- context [match ?x with VGood _ => _ | VBad => _ end] => destruct x
  | |- context [match ?x with TCode _ _ => _ | TBad => _ end] => destruct x
  | |- context [match ?x with BCode _ _ => _ | BBad => _ end] => destruct x
  | |- context [match find_vip ?s ?v with _ => _ end] => destruct (find_vip s v) eqn:?
  | |- context [match tx_user ?s ?v with _ => _ end] => destruct (tx_user s v) eqn:?
  | |- context [match chal ?s ?v with _ => _ end] => destruct (chal s v) eqn:?
  | |- context [match boot ?s ?v with _ => _ end] => destruct (boot s v) eqn:?
  | |- context [match nth_error ?l ?v with _ => _ end] => destruct (nth_error l v) eqn:?
  | |- context [if ?b then _ else _] => destruct b eqn:?
  end.

Ltac sset := cbn [issued tokens vip txs approved chal last_totp boot proved spent now fresh
                  set_ghost set_issued set_chal set_boot set_totp fst snd cuser clevel].
Ltac mono s := apply (Inv_mono s); sset; auto using incl_refl, incl_tl, N.le_refl; try lia.

Ltac clean :=
  repeat match goal with
  | H : _ && _ = true |- _ => apply andb_true_iff in H; destruct H
  | H : N.eqb _ _ = true |- _ => apply N.eqb_eq in H
  | H : negb _ = false |- _ => apply negb_false_iff in H
  end.

(* ---- what a request is authenticated as ---- *)
Lemma attached_ext s s' cs : issued s' = issued s -> attached s' cs = attached s cs.
Proof. intros H. induction cs as [|i r IH]; [reflexivity|]. cbn [attached]. rewrite H, IH. reflexivity. Qed.

(* the client certificate's user has the certificate factor on record *)
Definition cert_known (s : st) (cert : option N) : Prop :=
  forall u, cert = Some u -> In (u, F_X509) (proved s).

Lemma auth_proved k s cert cs m u l :
  Inv s -> cert_known s cert -> auth k s cert cs m = Some (u, l) ->
  forall g, has l g = true -> In (u, g) (proved s).
Proof.
  intros [I1 _] Hc. unfold auth.
  destruct (if N.eqb (N.land m cert_mask) 0 then None else cert) as [u0|] eqn:E.
  - intros H g Hg. inversion H; subst u0 l. rewrite has_add, has_zero in Hg. apply N.eqb_eq in Hg. subst g.
    apply Hc. destruct (N.eqb (N.land m cert_mask) 0); [discriminate|exact E].
  - destruct (session k s cs m) as [c|] eqn:S; [|discriminate]. intros H g Hg. inversion H; subst u l.
    apply (I1 c (session_in _ _ _ _ _ S) g Hg).
Qed.

(* updateAuthCookieAuthlevel touches nothing but the list of issued cookies *)
Lemma upgrade_fields k s u cs lvl s2 out :
  upgrade k s u cs lvl = (s2, out) ->
  tokens s2 = tokens s /\ vip s2 = vip s /\ txs s2 = txs s /\ approved s2 = approved s /\ chal s2 = chal s /\
  last_totp s2 = last_totp s /\ boot s2 = boot s /\ proved s2 = proved s /\ spent s2 = spent s /\
  now s2 = now s /\ fresh s2 = fresh s.
Proof.
  unfold upgrade. destruct (pick k (attached s cs)) as [c|]; [|intros H; inversion H; subst; repeat split].
  destruct (upgrade_checks_owner k && negb (N.eqb (cuser c) u)); intros H; inversion H; subst; repeat split.
Qed.

(* ... and the cookie it adds belongs to the authenticated user (repaired code) and carries the
   level it was given *)
Lemma upgrade_issued k s u cs lvl s2 out :
  upgrade_checks_owner k = true -> upgrade k s u cs lvl = (s2, out) ->
  (issued s2 = issued s /\ out = None) \/
  (issued s2 = issued s ++ [{| cuser := u; clevel := lvl |}] /\ out = Some {| cuser := u; clevel := lvl |}).
Proof.
  intros Hk. unfold upgrade. destruct (pick k (attached s cs)) as [c|]; [|intros H; inversion H; subst; now left].
  rewrite Hk. cbn [andb]. destruct (N.eqb (cuser c) u) eqn:E; cbn [negb]; intros H; inversion H; subst.
  - apply N.eqb_eq in E. rewrite E. right. split; reflexivity.
  - now left.
Qed.

(* the general shape of a second-factor success: some Inv-irrelevant effect (s -> s1), the upgrade
   at level lvl for the authenticated user u, then the ghost record of what was proved *)
Lemma upgrade_ghost_Inv k s s1 u cs lvl s2 out extra sp :
  upgrade_checks_owner k = true -> Inv s ->
  issued s1 = issued s -> txs s1 = txs s -> vip s1 = vip s -> approved s1 = approved s ->
  proved s1 = proved s -> (fresh s <= fresh s1)%N ->
  upgrade k s1 u cs lvl = (s2, out) ->
  (forall g, has lvl g = true -> In (u, g) (extra ++ proved s)) ->
  Inv (set_ghost s2 (extra ++ proved s2) sp).
Proof.
  intros Hk HI Hi Ht Hv Ha Hp Hf HU Hl.
  destruct (upgrade_fields _ _ _ _ _ _ _ HU) as [_ [F2 [F3 [F4 [_ [_ [_ [F8 [_ [_ F11]]]]]]]]]].
  apply (Inv_mono s); sset; try congruence; try exact HI.
  - rewrite F8, Hp. apply incl_appr, incl_refl.
  - intros c Hc. rewrite F8, Hp.
    destruct (upgrade_issued _ _ _ _ _ _ _ Hk HU) as [[E _]|[E _]]; rewrite E, Hi in Hc.
    + now left.
    + apply in_app_single in Hc. destruct Hc as [Hc| ->]; [now left|right]. cbn [cuser clevel]. exact Hl.
Qed.

Lemma add_level_proved (P : list (N * N)) u l f :
  (forall g, has l g = true -> In (u, g) P) -> In (u, f) P ->
  forall g, has (add l f) g = true -> In (u, g) P.
Proof.
  intros Hl Hf g Hg. rewrite has_add in Hg. apply orb_true_iff in Hg. destruct Hg as [Hg|Hg]; [apply Hl, Hg|].
  apply N.eqb_eq in Hg. subst g. exact Hf.
Qed.

(* close a goal  Inv (set_ghost s2 (extra ++ proved s2) sp)  where s2 comes out of an upgrade *)
Ltac up_inv k s extra Hu HI Hc :=
  match goal with HA : auth _ _ _ _ _ = Some (?u, ?l), HU : upgrade _ ?s1 ?u ?cs ?lvl = (_, _) |- _ =>
    let HL := fresh "HL" in
    pose proof (auth_proved _ _ _ _ _ _ _ HI Hc HA) as HL;
    eapply (upgrade_ghost_Inv k s s1 u cs lvl _ _ extra _ Hu HI);
    [ sset; first [reflexivity | apply N.le_refl] .. | exact HU | ];
    repeat (apply add_level_proved);
    [ intros g Hg; apply in_or_app; right; apply HL, Hg | cbn [app In]; auto .. ]
  end.

Lemma step_req_Inv k cert fault s o :
  poll_checks_user k = true -> upgrade_checks_owner k = true ->
  Inv s -> cert_known s cert -> Inv (fst (step_req k cert fault s o)).
Proof.
  intros Hk Hu HI Hc. destruct o; cbn [step_req]; try exact HI.
  - (* Login *)
    break_step; sset; try exact HI. mono s.
    intros c' Hin. apply in_app_single in Hin. destruct Hin as [Hin| ->]; [now left|right]. cbn [cuser clevel].
    intros g Hg. rewrite has_add, has_zero in Hg. apply N.eqb_eq in Hg. subst g. now left.
  - (* VipOtp *)
    break_step; sset; try exact HI. clean; subst.
    match goal with |- Inv (set_ghost _ (?x :: _) _) => up_inv k s [x] Hu HI Hc end.
  - (* PushStart *)
    break_step; sset; try exact HI.
    pose proof HI as [I1 [I2 [I3 I4]]]. unfold Inv; sset. split; [exact I1|split; [|split]].
    + intros e [<-|He]; cbn [fst]; [lia|]. specialize (I2 e He). lia.
    + intros e [<-|He]; cbn [vtx vuser].
      * unfold tx_user; cbn [txs find fst snd]. rewrite N.eqb_refl. reflexivity.
      * pose proof (I3 e He) as I3e. unfold tx_user; cbn [txs find fst snd].
        destruct (N.eqb (fresh s) (vtx e)) eqn:E; [|exact I3e].
        apply N.eqb_eq in E. pose proof (tx_user_lt s (vtx e) (vuser e) HI I3e). lia.
    + intros tx Htx. destruct (I4 tx Htx) as [u [H1 H2]]. exists u. split; [|exact H2].
      unfold tx_user; cbn [txs find fst snd]. destruct (N.eqb (fresh s) tx) eqn:E; [|exact H1].
      apply N.eqb_eq in E. pose proof (tx_user_lt s tx u HI H1). lia.
  - (* Approve *)
    break_step; sset; try exact HI.
    pose proof HI as [I1 [I2 [I3 I4]]]. unfold Inv; sset. split; [|split; [exact I2|split; [exact I3|]]].
    + intros c Hin f Hf. right. apply (I1 c Hin f Hf).
    + intros tx' [<-|Htx].
      * eexists. split; [eassumption|now left].
      * destruct (I4 tx' Htx) as [u [H1 H2]]. exists u. split; [exact H1|now right].
  - (* Poll *)
    destruct (auth k s cert cs any_mask) as [[u l]|] eqn:HA; [|exact HI].
    destruct (find_vip s v) as [e|] eqn:Hv; [|exact HI]. rewrite Hk. cbn [andb].
    destruct (negb (N.eqb (vuser e) u)) eqn:Hne; [exact HI|].
    destruct (is_approved s (vtx e)) eqn:Ha; [|exact HI].
    apply negb_false_iff, N.eqb_eq in Hne. pose proof HI as [I1 [I2 [I3 I4]]].
    apply is_approved_in in Ha. destruct (I4 _ Ha) as [u0 [H1 H2]].
    rewrite (I3 e (find_vip_in _ _ _ Hv)) in H1. inversion H1; subst u0. rewrite Hne in H2.
    pose proof (auth_proved _ _ _ _ _ _ _ HI Hc HA) as HL.
    destruct (upgrade k s u cs (add l F_VIP)) as [s2 out] eqn:HU. cbn [fst].
    pose proof (upgrade_ghost_Inv k s s u cs (add l F_VIP) s2 out [] (spent s2) Hu HI eq_refl eq_refl eq_refl eq_refl
                  eq_refl (N.le_refl _) HU) as G. cbn [app] in G.
    assert (G' : Inv (set_ghost s2 (proved s2) (spent s2))).
    { apply G. apply add_level_proved; [exact HL|exact H2]. }
    destruct s2; exact G'.
  - (* Totp *)
    break_step; sset; try exact HI. clean; subst.
    match goal with |- Inv (set_ghost _ (?x :: _) _) => up_inv k s [x] Hu HI Hc end.
  - (* U2fBegin *) break_step; sset; try exact HI; mono s.
  - (* U2fFinish *)
    break_step; sset; try exact HI; clean;
    match goal with H : a_owner _ = _ |- _ => rewrite H in * end;
    (destruct (a_wa_key a); [destruct (chal_delete_wa k)|]);
    match goal with |- Inv (set_ghost _ (?x :: _) _) => up_inv k s [x] Hu HI Hc end.
  - (* WaBegin *) break_step; sset; try exact HI; mono s.
  - (* WaFinish *)
    break_step; sset; try exact HI; clean;
    match goal with H : a_owner _ = _ |- _ => rewrite H in * end;
    match goal with
    | |- Inv (set_ghost _ (?x :: ?y :: proved _) _) => up_inv k s [x; y] Hu HI Hc
    | |- Inv (set_ghost _ (?x :: _) _) => up_inv k s [x] Hu HI Hc
    end.
  - (* IssueOtp *) break_step; sset; try exact HI; mono s.
  - (* Bootstrap *)
    break_step; sset; try exact HI. clean; subst.
    match goal with |- Inv (set_ghost _ (?x :: _) _) => up_inv k s [x] Hu HI Hc end.
  - (* ShowTok *) break_step; sset; try exact HI; mono s.
  - (* SendDoc *)
    break_step; sset; try exact HI; clean.
    match goal with H : towner _ = _ |- _ => rewrite H in * end. mono s.
    intros c' Hin. apply in_app_single in Hin. destruct Hin as [Hin| ->]; [now left|right]. cbn [cuser clevel].
    intros g Hg. rewrite has_add, has_zero in Hg. apply N.eqb_eq in Hg. subst g. now left.
Qed.

Lemma present_cert_Inv s cert : Inv s -> Inv (present_cert s cert) /\ cert_known (present_cert s cert) cert.
Proof.
  intros HI. destruct cert as [u|]; cbn [present_cert].
  - split; [mono s|]. intros u0 H. inversion H; subst. sset. now left.
  - split; [exact HI|]. intros u0 H. discriminate.
Qed.

Lemma step_Inv k s o :
  poll_checks_user k = true -> upgrade_checks_owner k = true -> Inv s -> Inv (fst (step k s o)).
Proof.
  intros Hk Hu HI.
  assert (Hn : cert_known s None) by (intros u H; discriminate).
  destruct o; try (apply (step_req_Inv k None false s _ Hk Hu HI Hn)).
  cbn [step]. destruct (present_cert_Inv s cert HI) as [HI' Hc]. apply step_req_Inv; assumption.
Qed.

Lemma run_fst_step k : forall ops s, fst (run k s ops) = fold_left (fun s o => fst (step k s o)) ops s.
Proof.
  induction ops as [|o r IH]; intros s; [reflexivity|]. cbn [run fold_left].
  destruct (step k s o) as [s1 out] eqn:E. specialize (IH s1). destruct (run k s1 r) as [s2 outs].
  cbn [fst] in *. rewrite IH. reflexivity.
Qed.

Theorem run_Inv k ops :
  poll_checks_user k = true -> upgrade_checks_owner k = true -> Inv (fst (run k init ops)).
Proof.
  intros Hk Hu. rewrite run_fst_step. generalize Inv_init. generalize init.
  induction ops as [|o r IH]; intros s HI; [exact HI|]. cbn [fold_left]. apply IH. apply step_Inv; assumption.
Qed.

(* ---------------------------------------------------------------- one-time values *)
Lemma upd_same {A} (m : N -> A) u a : upd m u a u = a.
Proof. unfold upd. rewrite N.eqb_refl. reflexivity. Qed.
Lemma upd_other {A} (m : N -> A) u a x : x <> u -> upd m u a x = m x.
Proof. unfold upd. intros H. destruct (N.eqb x u) eqn:E; [apply N.eqb_eq in E; contradiction|reflexivity]. Qed.

Definition Inv2 (s : st) : Prop :=
  NoDup (spent s) /\
  (forall u t, In (OtTotp u t) (spent s) -> (t <= last_totp s u)%Z) /\
  (forall u n, In (OtBoot u n) (spent s) -> (n < fresh s)%N) /\
  (forall u b, boot s u = Some b -> (bserial b < fresh s)%N /\ ~ In (OtBoot u (bserial b)) (spent s)) /\
  (forall i, In (OtChal i) (spent s) -> (i < fresh s)%N) /\
  (forall u ch, chal s u = Some ch -> (chid ch < fresh s)%N /\ ~ In (OtChal (chid ch)) (spent s)) /\
  (forall u u' ch ch', chal s u = Some ch -> chal s u' = Some ch' -> chid ch = chid ch' -> u = u').

Lemma Inv2_init : Inv2 init.
Proof.
  unfold Inv2, init; cbn. repeat split; try (intros; contradiction); try (intros; discriminate). constructor.
Qed.

Lemma Inv2_mono s s' :
  Inv2 s -> spent s' = spent s -> last_totp s' = last_totp s -> boot s' = boot s -> chal s' = chal s ->
  (fresh s <= fresh s')%N -> Inv2 s'.
Proof.
  intros [J0 [J1 [J2 [J3 [J4 [J5 J6]]]]]] Hs Ht Hb Hc Hf. unfold Inv2. rewrite Hs, Ht, Hb, Hc.
  repeat split; auto.
  - intros u n H. specialize (J2 u n H). lia.
  - destruct (J3 u b H). lia.
  - destruct (J3 u b H). assumption.
  - intros i H. specialize (J4 i H). lia.
  - destruct (J5 u ch H). lia.
  - destruct (J5 u ch H). assumption.
Qed.

Ltac mono2 s := apply (Inv2_mono s); sset; auto; try lia.

(* a new pending challenge with a fresh identifier *)
Lemma Inv2_new_chal s u w e :
  Inv2 s -> Inv2 (set_chal s (upd (chal s) u (Some {| chid := fresh s; ch_wa := w; chexp := e |})) (fresh s + 1)).
Proof.
  intros [J0 [J1 [J2 [J3 [J4 [J5 J6]]]]]]. unfold Inv2; sset. repeat split; auto.
  - intros u0 n H. specialize (J2 u0 n H). lia.
  - destruct (J3 u0 b H). lia.
  - destruct (J3 u0 b H). assumption.
  - intros i H. specialize (J4 i H). lia.
  - destruct (N.eq_dec u0 u) as [->|Hne].
    + rewrite upd_same in H. inversion H; subst; cbn. lia.
    + rewrite upd_other in H by exact Hne. destruct (J5 u0 ch H). lia.
  - destruct (N.eq_dec u0 u) as [->|Hne].
    + rewrite upd_same in H. inversion H; subst; cbn. intros Hin. specialize (J4 _ Hin). lia.
    + rewrite upd_other in H by exact Hne. destruct (J5 u0 ch H). assumption.
  - intros u1 u2 ch ch' H1 H2 E.
    destruct (N.eq_dec u1 u) as [->|N1]; destruct (N.eq_dec u2 u) as [->|N2]; auto.
    + rewrite upd_same in H1. rewrite upd_other in H2 by exact N2. inversion H1; subst; cbn in E.
      destruct (J5 u2 ch' H2). lia.
    + rewrite upd_same in H2. rewrite upd_other in H1 by exact N1. inversion H2; subst; cbn in E.
      destruct (J5 u1 ch H1). lia.
    + rewrite upd_other in H1 by exact N1. rewrite upd_other in H2 by exact N2. eapply J6; eauto.
Qed.

(* an answered challenge: deleted and recorded *)
Lemma Inv2_use_chal s u ch :
  Inv2 s -> chal s u = Some ch ->
  Inv2 (set_ghost (set_chal s (upd (chal s) u None) (fresh s)) (proved s) (OtChal (chid ch) :: spent s)).
Proof.
  intros [J0 [J1 [J2 [J3 [J4 [J5 J6]]]]]] Hch. destruct (J5 u ch Hch) as [Hlt Hnin].
  unfold Inv2; sset. repeat split; auto.
  - constructor; assumption.
  - intros u0 t [H|H]; [discriminate|]. apply J1, H.
  - intros u0 n [H|H]; [discriminate|]. apply (J2 u0 n H).
  - destruct (J3 u0 b H). assumption.
  - intros [H'|H']; [discriminate|]. destruct (J3 u0 b H). contradiction.
  - intros i [H|H]; [inversion H; subst; exact Hlt|apply J4, H].
  - destruct (N.eq_dec u0 u) as [->|Hne]; [rewrite upd_same in H; discriminate|].
    rewrite upd_other in H by exact Hne. destruct (J5 u0 ch0 H). assumption.
  - destruct (N.eq_dec u0 u) as [->|Hne]; [rewrite upd_same in H; discriminate|].
    rewrite upd_other in H by exact Hne. intros [E|Hin].
    + inversion E as [E']. symmetry in E'. specialize (J6 u0 u ch0 ch H Hch E'). contradiction.
    + destruct (J5 u0 ch0 H). contradiction.
  - intros u1 u2 c1 c2 H1 H2 E.
    destruct (N.eq_dec u1 u) as [->|N1]; [rewrite upd_same in H1; discriminate|].
    destruct (N.eq_dec u2 u) as [->|N2]; [rewrite upd_same in H2; discriminate|].
    rewrite upd_other in H1 by exact N1. rewrite upd_other in H2 by exact N2. eapply J6; eauto.
Qed.

Lemma Inv2_new_boot s u e :
  Inv2 s -> Inv2 (set_boot s (upd (boot s) u (Some {| bserial := fresh s; bexp := e |})) (fresh s + 1)).
Proof.
  intros [J0 [J1 [J2 [J3 [J4 [J5 J6]]]]]]. unfold Inv2; sset. repeat split; auto.
  - intros u0 n H. specialize (J2 u0 n H). lia.
  - destruct (N.eq_dec u0 u) as [->|Hne].
    + rewrite upd_same in H. inversion H; subst; cbn. lia.
    + rewrite upd_other in H by exact Hne. destruct (J3 u0 b H). lia.
  - destruct (N.eq_dec u0 u) as [->|Hne].
    + rewrite upd_same in H. inversion H; subst; cbn. intros Hin. specialize (J2 _ _ Hin). lia.
    + rewrite upd_other in H by exact Hne. destruct (J3 u0 b H). assumption.
  - intros i H. specialize (J4 i H). lia.
  - destruct (J5 u0 ch H). lia.
  - destruct (J5 u0 ch H). assumption.
Qed.

Lemma Inv2_use_boot s u b :
  Inv2 s -> boot s u = Some b ->
  Inv2 (set_ghost (set_boot s (upd (boot s) u None) (fresh s)) (proved s) (OtBoot u (bserial b) :: spent s)).
Proof.
  intros [J0 [J1 [J2 [J3 [J4 [J5 J6]]]]]] Hb. destruct (J3 u b Hb) as [Hlt Hnin].
  unfold Inv2; sset. repeat split; auto.
  - constructor; assumption.
  - intros u0 t [H|H]; [discriminate|]. apply J1, H.
  - intros u0 n [H|H]; [inversion H; subst; exact Hlt|apply (J2 u0 n H)].
  - destruct (N.eq_dec u0 u) as [->|Hne]; [rewrite upd_same in H; discriminate|].
    rewrite upd_other in H by exact Hne. destruct (J3 u0 b0 H). assumption.
  - destruct (N.eq_dec u0 u) as [->|Hne]; [rewrite upd_same in H; discriminate|].
    rewrite upd_other in H by exact Hne. intros [E|Hin].
    + inversion E; congruence.
    + destruct (J3 u0 b0 H). contradiction.
  - intros i [H|H]; [discriminate|apply J4, H].
  - destruct (J5 u0 ch H). assumption.
  - intros [H'|H']; [discriminate|]. destruct (J5 u0 ch H). contradiction.
Qed.

Lemma Inv2_use_totp s u t :
  Inv2 s -> (last_totp s u < t)%Z ->
  Inv2 (set_ghost (set_totp s (upd (last_totp s) u t)) (proved s) (OtTotp u t :: spent s)).
Proof.
  intros [J0 [J1 [J2 [J3 [J4 [J5 J6]]]]]] Hlt. unfold Inv2; sset. repeat split; auto.
  - constructor; [|assumption]. intros Hin. specialize (J1 u t Hin). lia.
  - intros u0 t0 [H|H].
    + inversion H; subst. rewrite upd_same. lia.
    + specialize (J1 u0 t0 H). destruct (N.eq_dec u0 u) as [->|Hne]; [rewrite upd_same; lia|].
      rewrite upd_other by exact Hne. exact J1.
  - intros u0 n [H|H]; [discriminate|apply (J2 u0 n H)].
  - destruct (J3 u0 b H). assumption.
  - intros [H'|H']; [discriminate|]. destruct (J3 u0 b H). contradiction.
  - intros i [H|H]; [discriminate|apply J4, H].
  - destruct (J5 u0 ch H). assumption.
  - intros [H'|H']; [discriminate|]. destruct (J5 u0 ch H). contradiction.
Qed.

(* Inv2 does not look at issued cookies, proved factors, tokens or the clock *)
Lemma Inv2_irrelevant s iss p : Inv2 s -> Inv2 (set_ghost (set_issued s iss) p (spent s)).
Proof. intros H. mono2 s. Qed.

Ltac sset_all := cbn [issued tokens vip txs approved chal last_totp boot proved spent now fresh
                      set_ghost set_issued set_chal set_boot set_totp fst snd cuser clevel] in *.

(* goal: Inv2 (set_ghost s2 _ (V :: spent s2)) with s2 out of an upgrade of s1; R is the reference
   state the Inv2_use_* lemma speaks about *)
Ltac up_inv2 R lem :=
  match goal with HU : upgrade _ _ _ _ _ = (_, _) |- _ =>
    let F := fresh "F" in
    pose proof (upgrade_fields _ _ _ _ _ _ _ HU) as F; sset_all;
    destruct F as [_ [_ [_ [_ [F5 [F6 [F7 [_ [F9 [_ F11]]]]]]]]]];
    apply (Inv2_mono R); [apply lem; assumption | sset; try congruence; try (rewrite F11; apply N.le_refl) ..]
  end.

Lemma step_req_Inv2 k cert fault s o :
  totp_monotone k = true -> chal_delete_wa k = true -> Inv2 s -> Inv2 (fst (step_req k cert fault s o)).
Proof.
  intros Hm Hd HJ. destruct o; cbn [step_req]; rewrite ?Hm, ?Hd; try exact HJ.
  - (* Login *) break_step; sset; try exact HJ; try (mono2 s).
  - (* VipOtp *)
    break_step; sset; try exact HJ.
    match goal with HU : upgrade _ _ _ _ _ = (_, _) |- _ =>
      destruct (upgrade_fields _ _ _ _ _ _ _ HU) as [_ [_ [_ [_ [F5 [F6 [F7 [_ [F9 [_ F11]]]]]]]]]] end.
    apply (Inv2_mono s); sset; try congruence. rewrite F11. apply N.le_refl.
  - (* PushStart *) break_step; sset; try exact HJ; try (mono2 s).
  - (* Approve *) break_step; sset; try exact HJ; try (mono2 s).
  - (* Poll *)
    break_step; sset; try exact HJ;
    match goal with |- Inv2 (fst (upgrade ?k ?s ?u ?cs ?l)) => destruct (upgrade k s u cs l) as [s2 out] eqn:HU end;
    sset;
    match goal with HU : upgrade _ _ _ _ _ = (_, _) |- _ =>
      destruct (upgrade_fields _ _ _ _ _ _ _ HU) as [_ [_ [_ [_ [F5 [F6 [F7 [_ [F9 [_ F11]]]]]]]]]] end;
    apply (Inv2_mono s); sset; try congruence; try exact HJ; rewrite F11; apply N.le_refl.
  - (* Totp *)
    break_step; sset; try exact HJ. clean; subst.
    match goal with H : (?t <=? last_totp s ?u)%Z = false |- _ => apply Z.leb_gt in H;
      up_inv2 (set_ghost (set_totp s (upd (last_totp s) u t)) (proved s) (OtTotp u t :: spent s)) Inv2_use_totp end.
  - (* U2fBegin *) break_step; sset; try exact HJ; apply Inv2_new_chal, HJ.
  - (* U2fFinish *)
    break_step; sset; try exact HJ;
    destruct (a_wa_key a);
    match goal with H : chal s ?u = Some ?ch |- _ =>
      up_inv2 (set_ghost (set_chal s (upd (chal s) u None) (fresh s)) (proved s) (OtChal (chid ch) :: spent s)) Inv2_use_chal end.
  - (* WaBegin *) break_step; sset; try exact HJ; apply Inv2_new_chal, HJ.
  - (* WaFinish *)
    break_step; sset; try exact HJ;
    match goal with H : chal s ?u = Some ?ch |- _ =>
      up_inv2 (set_ghost (set_chal s (upd (chal s) u None) (fresh s)) (proved s) (OtChal (chid ch) :: spent s)) Inv2_use_chal end.
  - (* IssueOtp *) break_step; sset; try exact HJ; apply Inv2_new_boot, HJ.
  - (* Bootstrap *)
    break_step; sset; try exact HJ. clean; subst.
    match goal with H : boot s ?u = Some ?b |- _ =>
      up_inv2 (set_ghost (set_boot s (upd (boot s) u None) (fresh s)) (proved s) (OtBoot u (bserial b) :: spent s)) Inv2_use_boot end.
  - (* ShowTok *) break_step; sset; try exact HJ; try (mono2 s).
  - (* SendDoc *) break_step; sset; try exact HJ; try (mono2 s).
Qed.

Lemma step_Inv2 k s o :
  totp_monotone k = true -> chal_delete_wa k = true -> Inv2 s -> Inv2 (fst (step k s o)).
Proof.
  intros Hm Hd HJ. destruct o; try (apply (step_req_Inv2 k None false s _ Hm Hd HJ)).
  cbn [step]. apply step_req_Inv2; try assumption. destruct cert; [|exact HJ]. cbn [present_cert]. mono2 s.
Qed.

Theorem run_Inv2 k ops : totp_monotone k = true -> chal_delete_wa k = true -> Inv2 (fst (run k init ops)).
Proof.
  intros Hm Hd. rewrite run_fst_step. generalize Inv2_init. generalize init.
  induction ops as [|o r IH]; intros s HJ; [exact HJ|]. cbn [fold_left]. apply IH. apply step_Inv2; assumption.
Qed.

(* the request proper inside a wrapper *)
Definition base (o : op) : op := match o with Req _ _ o' => o' | _ => o end.
Definition cert_of (o : op) : option N := match o with Req c _ _ => c | _ => None end.
Definition fault_of (o : op) : bool := match o with Req _ f _ => f | _ => false end.

Lemma step_unfold k s o :
  step k s o = step_req k (cert_of o) (fault_of o) (present_cert s (cert_of o)) (base o).
Proof. destruct o; reflexivity. Qed.

Lemma present_cert_spent s c : spent (present_cert s c) = spent s.
Proof. destruct c; reflexivity. Qed.

(* the one-time value an operation presents *)
Definition presents_req (o : op) : option onetime :=
  match o with
  | Totp _ (TCode owner t) => Some (OtTotp owner t)
  | Bootstrap _ (BCode owner n) => Some (OtBoot owner n)
  | U2fFinish _ a => Some (OtChal (a_chal a))
  | WaFinish _ a => Some (OtChal (a_chal a))
  | _ => None
  end.
Definition presents (o : op) : option onetime := presents_req (base o).

(* acceptance records the value ... *)
Lemma accepted_spent_req k cert fault s o v :
  presents_req o = Some v -> snd (step_req k cert fault s o) <> None ->
  spent (fst (step_req k cert fault s o)) = v :: spent s.
Proof.
  intros Hp Hacc. destruct o; try discriminate; cbn [presents_req] in Hp.
  - destruct code; [|discriminate]. inversion Hp; subst v. revert Hacc. cbn [step_req].
    break_step; sset; try (intros H; exfalso; apply H; reflexivity); intros _; clean; subst;
    match goal with HU : upgrade _ _ _ _ _ = (_, _) |- _ =>
      destruct (upgrade_fields _ _ _ _ _ _ _ HU) as [_ [_ [_ [_ [_ [_ [_ [_ [F9 _]]]]]]]]]; rewrite F9 end; reflexivity.
  - inversion Hp; subst v. revert Hacc. cbn [step_req].
    break_step; sset; try (intros H; exfalso; apply H; reflexivity); intros _; clean;
    match goal with H : a_chal _ = _ |- _ => rewrite H end;
    match goal with HU : upgrade _ _ _ _ _ = (_, _) |- _ =>
      destruct (upgrade_fields _ _ _ _ _ _ _ HU) as [_ [_ [_ [_ [_ [_ [_ [_ [F9 _]]]]]]]]]; rewrite F9 end;
    try (destruct (a_wa_key a); try destruct (chal_delete_wa k)); reflexivity.
  - inversion Hp; subst v. revert Hacc. cbn [step_req].
    break_step; sset; try (intros H; exfalso; apply H; reflexivity); intros _; clean;
    match goal with H : a_chal _ = _ |- _ => rewrite H end;
    match goal with HU : upgrade _ _ _ _ _ = (_, _) |- _ =>
      destruct (upgrade_fields _ _ _ _ _ _ _ HU) as [_ [_ [_ [_ [_ [_ [_ [_ [F9 _]]]]]]]]]; rewrite F9 end; reflexivity.
  - destruct code; [|discriminate]. inversion Hp; subst v. revert Hacc. cbn [step_req].
    break_step; sset; try (intros H; exfalso; apply H; reflexivity); intros _; clean; subst;
    match goal with HU : upgrade _ _ _ _ _ = (_, _) |- _ =>
      destruct (upgrade_fields _ _ _ _ _ _ _ HU) as [_ [_ [_ [_ [_ [_ [_ [_ [F9 _]]]]]]]]]; rewrite F9 end; reflexivity.
Qed.

Lemma accepted_spent k s o v :
  presents o = Some v -> snd (step k s o) <> None -> spent (fst (step k s o)) = v :: spent s.
Proof.
  intros Hp Hacc. rewrite step_unfold in *. rewrite (accepted_spent_req _ _ _ _ _ v Hp Hacc).
  rewrite present_cert_spent. reflexivity.
Qed.

(* ... and a recorded value is never accepted again *)
Lemma spent_refused k s o v :
  totp_monotone k = true -> chal_delete_wa k = true -> Inv2 s ->
  presents o = Some v -> In v (spent s) -> snd (step k s o) = None.
Proof.
  intros Hm Hd HJ Hp Hin.
  destruct (snd (step k s o)) as [c|] eqn:E; [exfalso|reflexivity].
  assert (Hacc : snd (step k s o) <> None) by (rewrite E; discriminate).
  pose proof (accepted_spent k s o v Hp Hacc) as Hs.
  pose proof (step_Inv2 k s o Hm Hd HJ) as [J0 _]. rewrite Hs in J0. inversion J0; contradiction.
Qed.

(* ---------------------------------------------------------------- answers about somebody else *)
(* whom the environment's positive answer carried by the request is about *)
Definition about (s : st) (o : op) : option N :=
  match o with
  | VipOtp _ (VGood owner) => Some owner
  | Totp _ (TCode owner _) => Some owner
  | Bootstrap _ (BCode owner _) => Some owner
  | U2fFinish _ a => Some (a_owner a)
  | WaFinish _ a => Some (a_owner a)
  | SendDoc _ tk => match nth_error (tokens s) tk with Some t => Some (towner t) | None => None end
  | Poll _ v => match find_vip s v with Some e => tx_user s (vtx e) | None => None end
  | _ => None
  end.

(* the user the request is authenticated as (certificate first, else the session cookie) *)
Definition requester (k : config) (s : st) (cert : option N) (o : op) : option N :=
  let who cs m := match auth k s cert cs m with Some (u, _) => Some u | None => None end in
  match o with
  | VipOtp cs _ | Totp cs _ | Bootstrap cs _ | U2fFinish cs _ | WaFinish cs _ | Poll cs _ => who cs any_mask
  | SendDoc cs _ => who cs (webui k)
  | _ => None
  end.

Lemma cross_user_refused k cert fault s o u u' :
  poll_checks_user k = true -> Inv s ->
  about s o = Some u -> requester k s cert o = Some u' -> u <> u' -> step_req k cert fault s o = (s, None).
Proof.
  intros Hk HI Ha Hr Hne.
  assert (Hneb : forall x y : N, x = u -> y = u' -> N.eqb x y = false).
  { intros x y -> ->. apply N.eqb_neq. exact Hne. }
  destruct o; try discriminate; cbn [about requester] in Ha, Hr; cbn [step_req].
  - (* VipOtp *)
    destruct (auth k s cert cs any_mask) as [[w l]|]; [|discriminate]. inversion Hr; subst u'.
    destruct code; [|discriminate]. inversion Ha; subst u. rewrite (Hneb owner w) by reflexivity. reflexivity.
  - (* Poll *)
    destruct (auth k s cert cs any_mask) as [[w l]|]; [|discriminate]. inversion Hr; subst u'.
    destruct (find_vip s v) as [e|] eqn:Hv; [|discriminate].
    destruct HI as [_ [_ [I3 _]]]. rewrite (I3 e (find_vip_in _ _ _ Hv)) in Ha. inversion Ha; subst u.
    rewrite Hk, (Hneb (vuser e) w) by reflexivity. reflexivity.
  - (* Totp *)
    destruct (auth k s cert cs any_mask) as [[w l]|]; [|discriminate]. inversion Hr; subst u'.
    destruct code; [|discriminate]. inversion Ha; subst u.
    rewrite (Hneb owner w) by reflexivity. rewrite andb_false_r. reflexivity.
  - (* U2fFinish *)
    destruct (auth k s cert cs any_mask) as [[w l]|]; [|discriminate]. inversion Hr; subst u'. inversion Ha; subst u.
    rewrite (Hneb (a_owner a) w) by reflexivity. cbn [andb].
    destruct (has_profile (devs k w) && has_any_key (devs k w)); [|reflexivity].
    destruct (chal s w) as [c0|]; [|reflexivity]. destruct (chal_expiry k && (chexp c0 <=? now s)%Z); reflexivity.
  - (* WaFinish *)
    destruct (auth k s cert cs any_mask) as [[w l]|]; [|discriminate]. inversion Hr; subst u'. inversion Ha; subst u.
    rewrite (Hneb (a_owner a) w) by reflexivity. cbn [andb].
    destruct (has_profile (devs k w)); [|reflexivity].
    destruct (chal s w) as [c0|]; [|reflexivity]. destruct (chal_expiry k && (chexp c0 <=? now s)%Z); [reflexivity|].
    destruct (negb (ch_wa c0)); reflexivity.
  - (* Bootstrap *)
    destruct (auth k s cert cs any_mask) as [[w l]|]; [|discriminate]. inversion Hr; subst u'.
    destruct code; [|discriminate]. inversion Ha; subst u.
    rewrite (Hneb owner w) by reflexivity. cbn [andb].
    destruct (has_totp (devs k w) || has_u2f (devs k w)); [reflexivity|].
    destruct (boot s w) as [b|]; [|reflexivity]. destruct (bexp b <=? now s)%Z; reflexivity.
  - (* SendDoc *)
    destruct (auth k s cert cs (webui k)) as [[w l]|]; [|discriminate]. inversion Hr; subst u'.
    destruct (nth_error (tokens s) tk) as [t|]; [|discriminate]. inversion Ha; subst u.
    rewrite (Hneb (towner t) w) by reflexivity. reflexivity.
Qed.

(* ---------------------------------------------------------------- expired values *)
(* the value presented is past its expiry: a code of a step the validator no longer looks at, the
   stored bootstrap value / pending challenge of the authenticated user past ExpiresAt, a CLI
   token past its exp claim *)
Definition expired (k : config) (s : st) (cert : option N) (o : op) : bool :=
  match o with
  | Totp _ (TCode _ t) => (t <? totp_step (now s) - 1)%Z
  | Bootstrap cs _ =>
      match auth k s cert cs any_mask with
      | Some (u, _) => match boot s u with Some b => (bexp b <=? now s)%Z | None => false end
      | None => false
      end
  | U2fFinish cs _ | WaFinish cs _ =>
      match auth k s cert cs any_mask with
      | Some (u, _) => match chal s u with Some ch => (chexp ch <=? now s)%Z | None => false end
      | None => false
      end
  | SendDoc _ tk => match nth_error (tokens s) tk with Some t => (texp t <=? now s)%Z | None => false end
  | _ => false
  end.

Lemma expired_refused k cert fault s o :
  chal_expiry k = true -> expired k s cert o = true -> step_req k cert fault s o = (s, None).
Proof.
  intros Hk He. destruct o; try discriminate; cbn [expired] in He; cbn [step_req].
  - destruct code; [|discriminate]. destruct (auth k s cert cs any_mask) as [[w l]|]; [|reflexivity].
    apply Z.ltb_lt in He. replace (totp_step (now s) - 1 <=? stp)%Z with false by (symmetry; apply Z.leb_gt; lia).
    rewrite andb_false_r. reflexivity.
  - destruct (auth k s cert cs any_mask) as [[w l]|]; [|reflexivity].
    destruct (has_profile (devs k w) && has_any_key (devs k w)); [|reflexivity].
    destruct (chal s w); [|reflexivity]. rewrite Hk, He. reflexivity.
  - destruct (auth k s cert cs any_mask) as [[w l]|]; [|reflexivity].
    destruct (has_profile (devs k w)); [|reflexivity].
    destruct (chal s w); [|reflexivity]. rewrite Hk, He. reflexivity.
  - destruct (auth k s cert cs any_mask) as [[w l]|]; [|reflexivity].
    destruct (has_totp (devs k w) || has_u2f (devs k w)); [reflexivity|].
    destruct (boot s w); [|reflexivity]. rewrite He. reflexivity.
  - destruct (auth k s cert cs (webui k)) as [[w l]|]; [|reflexivity].
    destruct (nth_error (tokens s) tk) as [t|]; [|reflexivity]. rewrite He.
    destruct (negb (N.eqb (towner t) w)); reflexivity.
Qed.

(* ---------------------------------------------------------------- the code before the repairs *)
Definition dev_all : devices := {| has_totp := true; has_u2f := true; has_wa := true; has_profile := true |}.
Definition cfg_with (poll mono expi del : bool) : config :=
  {| devs := fun _ => dev_all; webui := 2 ^ F_U2F; sel_last := true; poll_checks_user := poll;
     totp_monotone := mono; chal_expiry := expi; chal_delete_wa := del; upgrade_checks_owner := true |}.

(* user 2 polls with the push cookie of user 1's approved transaction *)
Definition w_poll : list op := [Login 1 true; Login 2 true; PushStart [0%nat] 7; Approve 0; Poll [1%nat] 7].
Lemma old_poll_cross_user :
  let s := fst (run (cfg_with false true true true) init w_poll) in
  exists c, In c (issued s) /\ cuser c = 2%N /\ has (clevel c) F_VIP = true /\ ~ In (2%N, F_VIP) (proved s).
Proof.
  eexists. split; [vm_compute; right; right; left; reflexivity|]. split; [reflexivity|]. split; [vm_compute; reflexivity|].
  vm_compute. intros [H|[H|[H|H]]]; try discriminate; exact H.
Qed.

(* a code accepted in step n is accepted again in step n+1 *)
Definition w_totp : list op :=
  [Tick 3000; Login 1 true; Totp [0%nat] (TCode 1 100); Tick 30; Totp [0%nat] (TCode 1 100)].
Lemma old_totp_replay :
  ~ NoDup (spent (fst (run (cfg_with true false true true) init w_totp))) /\
  NoDup (spent (fst (run (cfg_with true true true true) init w_totp))).
Proof.
  split.
  - vm_compute. intros H. inversion H as [|x l Hn Hd]; subst. apply Hn. left. reflexivity.
  - vm_compute. repeat constructor. intros [].
Qed.

(* a challenge answered 31 s after it was issued; an assertion accepted twice *)
Definition asrt (u ch : N) (wa : bool) : assertion := {| a_owner := u; a_wa_key := wa; a_chal := ch |}.
Definition w_chal_exp : list op := [Login 1 true; U2fBegin [0%nat]; Tick 31; U2fFinish [0%nat] (asrt 1 0 false)].
Definition w_chal_twice : list op :=
  [Login 1 true; U2fBegin [0%nat]; U2fFinish [0%nat] (asrt 1 0 true); U2fFinish [0%nat] (asrt 1 0 true)].
Lemma old_challenge :
  nth 3 (snd (run (cfg_with true true false true) init w_chal_exp)) None <> None /\
  nth 3 (snd (run (cfg_with true true true true) init w_chal_exp)) None = None /\
  ~ NoDup (spent (fst (run (cfg_with true true true false) init w_chal_twice))) /\
  NoDup (spent (fst (run (cfg_with true true true true) init w_chal_twice))).
Proof.
  split; [vm_compute; discriminate|]. split; [vm_compute; reflexivity|]. split.
  - vm_compute. intros H. inversion H as [|x l Hn Hd]; subst. apply Hn. left. reflexivity.
  - vm_compute. repeat constructor. intros [].
Qed.

(* the upgrade as it was: user 1 authenticates with her client certificate and her own bootstrap
   OTP while the password-only cookie of user 2 is attached — user 2's cookie gains the factors *)
Definition dev_none : devices := {| has_totp := false; has_u2f := false; has_wa := false; has_profile := true |}.
Definition cfg_old_upgrade : config :=
  {| devs := fun _ => dev_none; webui := 2 ^ F_U2F; sel_last := true; poll_checks_user := true;
     totp_monotone := true; chal_expiry := true; chal_delete_wa := true; upgrade_checks_owner := false |}.
Definition cfg_new_upgrade : config :=
  {| devs := fun _ => dev_none; webui := 2 ^ F_U2F; sel_last := true; poll_checks_user := true;
     totp_monotone := true; chal_expiry := true; chal_delete_wa := true; upgrade_checks_owner := true |}.
Definition w_cert : list op :=
  [Login 2 true; IssueOtp 1 3600; Req (Some 1%N) false (Bootstrap [0%nat] (BCode 1 0))].
Lemma old_cert_cookie :
  let s := fst (run cfg_old_upgrade init w_cert) in
  (exists c, In c (issued s) /\ cuser c = 2%N /\ has (clevel c) F_BOOT = true /\ has (clevel c) F_X509 = true /\
             ~ In (2%N, F_BOOT) (proved s) /\ ~ In (2%N, F_X509) (proved s)) /\
  nth 2 (snd (run cfg_new_upgrade init w_cert)) None = None.
Proof.
  split; [|vm_compute; reflexivity].
  eexists. split; [vm_compute; right; left; reflexivity|]. split; [reflexivity|].
  split; [vm_compute; reflexivity|]. split; [vm_compute; reflexivity|].
  split; vm_compute; intros [H|[H|[H|H]]]; try discriminate; exact H.
Qed.

(* the ghost record of a presented certificate is invisible to the handlers *)
Lemma auth_present k s c cert cs m : auth k (present_cert s c) cert cs m = auth k s cert cs m.
Proof.
  unfold auth, session. rewrite (attached_ext s (present_cert s c) cs) by (destruct c; reflexivity). reflexivity.
Qed.

Lemma requester_present k s c cert o : requester k (present_cert s c) cert o = requester k s cert o.
Proof. destruct o; cbn [requester]; rewrite ?auth_present; reflexivity. Qed.

Lemma about_present s c o : about (present_cert s c) o = about s o.
Proof. destruct c; reflexivity. Qed.
