(* C06 — the booleans of Model/GateObs.v are the specification-side Props: what the case files evaluate on
   an observation IS the conclusion of c06_gate_sound / c06_routes. *)
From Coq Require Import ZArith List Bool String Lia.
From KM Require Import Base.Bytes Model.Auth Model.AuthGate Model.Routes.
From KM Require Model.IPExt.
From KM Require Import Model.GateObs.
Import ListNotations.
Open Scope N_scope.

Ltac btrue := repeat match goal with
  | H : _ && _ = true |- _ => apply andb_true_iff in H; destruct H
  | H : negb _ = true |- _ => apply negb_true_iff in H
  | H : (_ =? _) = true |- _ => apply N.eqb_eq in H
  | H : (_ <=? _)%Z = true |- _ => apply Z.leb_le in H
  end.

Lemma valid_cookieb_iff now t : valid_cookieb now t = true <-> valid_cookie now t.
Proof.
  unfold valid_cookieb, valid_cookie. split.
  - intros H. btrue. repeat split; auto.
  - intros (A & B & C & D & E & F & G1 & G2). rewrite A, B, C, D, E, F. simpl.
    apply andb_true_iff. split; apply Z.leb_le; assumption.
Qed.

Lemma km_certb_iff deny c : km_certb deny c = true <-> km_cert deny c.
Proof.
  unfold km_certb, km_cert, good_chain. split.
  - intros H. btrue. repeat split.
    + intros E. rewrite E in H. discriminate.
    + intros Hin. assert (X : existsb (N.eqb (x_key c)) deny = true).
      { apply existsb_exists. exists (x_key c). split; [exact Hin|apply N.eqb_refl]. } congruence.
    + apply existsb_exists in H0. destruct H0 as (ch & Hin & Hc). btrue. exists ch. repeat split; auto.
  - intros (A & B & ch & Hin & L & R & T).
    apply andb_true_iff. split; [apply andb_true_iff; split|].
    + apply negb_true_iff. apply N.eqb_neq. exact A.
    + apply negb_true_iff. destruct (existsb (N.eqb (x_key c)) deny) eqn:E; [|reflexivity]. exfalso.
      apply existsb_exists in E. destruct E as (k & Hk & Ek). apply N.eqb_eq in Ek. subst k. contradiction.
    + apply existsb_exists. exists ch. split; [exact Hin|]. rewrite L, R, T. reflexivity.
Qed.

Lemma peer_insideb_iff c : peer_insideb c = true <-> peer_inside c.
Proof.
  unfold peer_insideb, peer_inside, family_holds, block_holds. split.
  - destruct (x_ext c) as [ext|]; [|discriminate]. intros H.
    apply existsb_exists in H. destruct H as ([fam blocks] & Hin & H). cbn [fst snd] in H. btrue.
    apply bs_eqb_eq in H. subst fam.
    apply existsb_exists in H0. destruct H0 as (e & He & Hd).
    destruct (IPExt.decode e) as [b|] eqn:D; [|discriminate]. btrue.
    exists ext, blocks, e, b. repeat split; auto. now apply N.leb_le.
  - intros (ext & blocks & e & b & Hx & Hin & He & Hd & Hp & Hc). rewrite Hx.
    apply existsb_exists. exists (IPExt.ipv4_family, blocks). split; [exact Hin|]. cbn [fst snd].
    apply andb_true_iff. split; [apply bs_eqb_refl|].
    apply existsb_exists. exists e. split; [exact He|]. rewrite Hd, Hc.
    apply andb_true_iff. split; [now apply N.leb_le|reflexivity].
Qed.

Lemma ip_certb_iff c : ip_certb c = true <-> ip_cert c.
Proof.
  unfold ip_certb, ip_cert. split.
  - intros H. btrue. repeat split; auto.
    + intros E. rewrite E in H. discriminate.
    + now apply peer_insideb_iff.
  - intros (A & B & C & D & E & F). apply peer_insideb_iff in C. rewrite B, C, D, E, F.
    apply N.eqb_neq in A. rewrite A. reflexivity.
Qed.

Lemma cert_level_iff l : cert_level l = true <-> (l = bKMX509 \/ l = bIPCert \/ l = N.lor bKMX509 bIPCert).
Proof.
  unfold cert_level. rewrite !orb_true_iff, !N.eqb_eq. tauto.
Qed.

Lemma implb_iff (a b : bool) (P : Prop) : (b = true <-> P) -> (implb a b = true <-> (a = true -> P)).
Proof. intros [H1 H2]. destruct a, b; simpl; split; auto; intros; try discriminate; try (symmetry; apply H2; auto). Qed.

Theorem provesb_iff now deny q u l : provesb now deny q u l = true <-> proves now deny q u l.
Proof.
  unfold provesb, proves. rewrite !orb_true_iff. split.
  - intros [[H|H]|H].
    + left. destruct (k_cookie (q_cred q)) as [t|]; [|discriminate]. btrue. exists t. split; [reflexivity|]. split; [now apply valid_cookieb_iff|]. split; assumption.
    + right. left. destruct (k_basic (q_cred q)) as [b|]; [|discriminate]. btrue. exists b. auto.
    + right. right. destruct (q_tls q) as [c|]; [|discriminate]. btrue. exists c. split; [reflexivity|]. split; [assumption|].
      split; [now apply cert_level_iff|]. split.
      * apply (implb_iff _ _ _ (km_certb_iff deny c)). assumption.
      * apply (implb_iff _ _ _ (ip_certb_iff c)). assumption.
  - intros [(t & E & V & Eu & El)|[(b & E & Bo & Eu & El)|(c & E & Eu & Hl & Hk & Hi)]].
    + left. left. rewrite E. subst. apply valid_cookieb_iff in V. rewrite V, !N.eqb_refl. reflexivity.
    + left. right. rewrite E. subst. rewrite Bo, !N.eqb_refl. reflexivity.
    + right. rewrite E. subst u. rewrite N.eqb_refl. apply cert_level_iff in Hl. rewrite Hl. simpl.
      apply andb_true_iff. split.
      * apply (implb_iff _ _ _ (km_certb_iff deny c)). exact Hk.
      * apply (implb_iff _ _ _ (ip_certb_iff c)). exact Hi.
Qed.

Lemma origin_okb_iff q : origin_okb q = true <-> origin_ok q.
Proof.
  unfold origin_okb, origin_ok. destruct (q_origin q); split; intros H; auto; try discriminate;
    destruct H as [H|H]; discriminate.
Qed.

Lemma get_or_origin q : (is_get q || origin_okb q) = true <-> (q_meth q <> GET -> origin_ok q).
Proof.
  unfold is_get. rewrite orb_true_iff, origin_okb_iff. destruct (q_meth q); simpl; split; auto; try tauto.
  - intros [H|H] _; [discriminate|exact H].
  - intros H. right. apply H. discriminate.
  - intros [H|H] _; [discriminate|exact H].
  - intros H. right. apply H. discriminate.
Qed.

(* the boolean evaluated on an observed admission is exactly the conclusion of c06_gate_sound *)
Theorem gate_conclusion_iff now deny required q u l :
  gate_conclusion now deny required q u l = true <->
  (proves now deny q u l /\ hasb l required = true /\ (q_meth q <> GET -> origin_ok q)).
Proof.
  unfold gate_conclusion. rewrite !andb_true_iff, provesb_iff, get_or_origin. tauto.
Qed.

Lemma extra_okb_iff x env u l : extra_okb x env u l = true <-> extra_ok x env u l.
Proof.
  destruct x; simpl; rewrite ?orb_true_iff, ?andb_true_iff, ?N.eqb_eq; tauto.
Qed.

Lemma proves_candidate now deny q u l : proves now deny q u l -> In (u, l) (candidates q).
Proof.
  unfold candidates. intros [(t & E & _ & Eu & El)|[(b & E & _ & Eu & El)|(c & E & Eu & Hl & _)]]; subst.
  - rewrite E. apply in_or_app. left. now left.
  - rewrite E. apply in_or_app. right. apply in_or_app. left. now left.
  - rewrite E. apply in_or_app. right. apply in_or_app. right.
    destruct Hl as [ -> | [ -> | -> ] ]; simpl; auto.
Qed.

(* ... and on an observed effect exactly the conclusion of c06_routes *)
Theorem acceptsb_iff env q g : acceptsb env q g = true <-> accepts env q g.
Proof.
  destruct g as [| | |m x]; simpl.
  - split; [discriminate|contradiction].
  - tauto.
  - destruct (k_basic (q_cred q)) as [b|].
    + split; [intros H; exists b; auto|intros (b' & E & H); inversion E; subst; exact H].
    + split; [discriminate|intros (b' & E & _); discriminate].
  - rewrite existsb_exists. split.
    + intros ([u l] & _ & H). cbn [fst snd] in H. apply andb_true_iff in H. destruct H as [G X].
      apply gate_conclusion_iff in G. apply extra_okb_iff in X. exists u, l. tauto.
    + intros (u & l & P & Hh & Ho & X). exists (u, l). split; [eapply proves_candidate; eauto|]. cbn [fst snd].
      apply andb_true_iff. split; [apply gate_conclusion_iff; auto|apply extra_okb_iff; exact X].
Qed.

Theorem identity_okb_iff env q m u :
  identity_okb env q m u = true <->
  exists l, proves (e_now env) (e_deny env) q u l /\ hasb l (mask_val (e_webui env) m) = true /\ (q_meth q <> GET -> origin_ok q).
Proof.
  unfold identity_okb. rewrite existsb_exists. split.
  - intros ([u' l] & _ & H). cbn [fst snd] in H. apply andb_true_iff in H. destruct H as [E G].
    apply N.eqb_eq in E. subst u'. apply gate_conclusion_iff in G. exists l. exact G.
  - intros (l & P & Hh & Ho). exists (u, l). split; [eapply proves_candidate; eauto|]. cbn [fst snd].
    rewrite N.eqb_refl. simpl. apply gate_conclusion_iff. auto.
Qed.

(* the login route: the boolean evaluated on an observed Set-Cookie is the specification [login_spec] *)
Lemma login_conclusion_iff lq u l : login_conclusion lq u l = true <-> login_spec lq u l.
Proof.
  unfold login_conclusion, login_spec. split.
  - intros H. apply andb_true_iff in H. destruct H as [Hl Hc]. apply N.eqb_eq in Hl.
    destruct (login_credential lq) as [b|]; [|discriminate].
    apply andb_true_iff in Hc. destruct Hc as [Hok Hu]. apply N.eqb_eq in Hu.
    split; [exact Hl|]. exists b. auto.
  - intros (Hl & b & Hc & Hok & Hu). rewrite Hc, Hok. subst u l. rewrite !N.eqb_refl. reflexivity.
Qed.
