(* C01 — certGenHandler: soundness, refusals, completeness, the strict reading refuted *)
From Coq Require Import ZArith.
From KM Require Import Base.Bytes Base.Tactics Model.Auth Model.Certgen Model.CertgenCases Proofs.CertgenSpec Proofs.CertgenAuth.
From KM Require Model.Seal.
Open Scope N_scope.

Section Thms.
Variable expand : bs -> bs -> option bs.

Lemma ssh_cert_user st u user q u' c : ssh_cert expand st u user q = Issued u' c -> u' = u.
Proof.
  unfold ssh_cert. destruct (q_key q) as [[k ed]|]; [|discriminate].
  destruct (ed && negb (s_ed25519_ca st)); [discriminate|].
  destruct (expand_extensions expand (s_templates st) user []); [|discriminate].
  intro H. inversion H. reflexivity.
Qed.
Lemma x509_cert_user st u user q kube u' c : x509_cert st u user q kube = Issued u' c -> u' = u.
Proof.
  unfold x509_cert. destruct (if kube || q_add_groups q then s_groups st user else Some []); [|discriminate].
  destruct (s_methods st user); [|discriminate]. destruct (q_key q) as [[k ed]|]; [|discriminate].
  intro H. inversion H. reflexivity.
Qed.

(* the shape of every run that ends in a certificate *)
Lemma certgen_issued st now lim q u c :
  certgen expand st now lim q = Issued u c ->
  s_sealed st = false /\
  exists level iat, check_auth now lim bAny (auth_request st q) = Admit u level iat /\
    sufficient (s_cfg st) level = true /\ s_name st u = q_target q /\ q_method q = HPost /\
    q_form_ok q = true /\
    (q_type q = TSsh /\ ssh_cert expand st u (s_name st u) q = Issued u c \/
     q_type q = TX509 /\ x509_cert st u (s_name st u) q false = Issued u c \/
     q_type q = TKube /\ x509_cert st u (s_name st u) q true = Issued u c).
Proof.
  unfold certgen. destruct (s_sealed st); [discriminate|].
  destruct (check_auth now lim bAny (auth_request st q)) as [a level iat|code] eqn:CA; [|discriminate].
  destruct (sufficient (s_cfg st) level) eqn:S; simpl; [|discriminate].
  destruct (bs_eqb (s_name st a) (q_target q)) eqn:T; simpl; [|discriminate].
  apply bs_eqb_eq in T.
  destruct (q_method q); try discriminate.
  destruct (q_form_ok q) eqn:F; simpl; [|discriminate].
  intro H. split; [reflexivity|].
  destruct (q_type q) eqn:TY; try discriminate.
  - pose proof (ssh_cert_user _ _ _ _ _ _ H) as ->. exists level, iat. repeat split; auto.
  - pose proof (x509_cert_user _ _ _ _ _ _ _ H) as ->. exists level, iat. repeat split; auto.
  - pose proof (x509_cert_user _ _ _ _ _ _ _ H) as ->. exists level, iat. repeat split; auto.
Qed.

(* C01 soundness *)
Theorem certgen_sound st now lim q u c :
  certgen expand st now lim q = Issued u c ->
  s_sealed st = false /\
  (exists level, proves st now q u level /\ qualifies (s_cfg st) level) /\
  q_target q = s_name st u /\ q_method q = HPost.
Proof.
  intro H. apply certgen_issued in H. destruct H as [S [level [iat [CA [SU [T [M _]]]]]]].
  split; [exact S|]. split; [|auto].
  exists level. split; [eapply check_auth_sound; eauto|apply sufficient_iff; exact SU].
Qed.

(* ---- which signers are loaded.  The fail-closed test looks at the main signer alone: without it
   every request is answered 500, whatever else is loaded (the Ed25519 signer, CA certificates,
   trusted peer keys), whatever the credential and the requested key type. *)
Theorem sealed_refuses_everything st now lim q :
  Seal.signer (s_keys st) = None -> certgen expand st now lim q = Refused 500.
Proof. intro H. unfold certgen, s_sealed. rewrite H. reflexivity. Qed.

(* ... and the Ed25519 signer is used only together with the main signer *)
Theorem ed_signature_needs_main_signer st now lim q u c :
  certgen expand st now lim q = Issued u c ->
  Seal.signer (s_keys st) <> None.
Proof.
  intros H E. rewrite (sealed_refuses_everything st now lim q E) in H. discriminate.
Qed.

(* ---- the client address.  on_conn q blocks cn is the request q on a connection cn when the
   presented certificate carries the netblocks `blocks`: forwarding headers are no input ... *)
Theorem forwarding_headers_ignored st now lim q blocks peer xff xreal fw xff' xreal' fw' :
  certgen expand st now lim (on_conn q blocks {| n_peer := peer; n_xff := xff; n_xreal := xreal; n_forwarded := fw |}) =
  certgen expand st now lim (on_conn q blocks {| n_peer := peer; n_xff := xff'; n_xreal := xreal'; n_forwarded := fw' |}).
Proof. reflexivity. Qed.

(* ... and a certificate that is not a keymaster user certificate gets something signed only when
   the TCP peer lies in one of its blocks *)
Theorem ip_certificate_needs_peer_inside st now lim q blocks cn c u d :
  q_tls q = Some c -> km_signed c = None ->
  certgen expand st now lim (on_conn q blocks cn) = Issued u d ->
  exists l b, blocks = Some l /\ In b l /\ in_block (n_peer cn) b = true.
Proof.
  intros TL KM H. apply certgen_issued in H. destruct H as [_ [level [iat [CA _]]]].
  rewrite check_auth_any_eq in CA. unfold check_auth_any in CA.
  cbn [auth_request r_get r_origin r_tls r_cred] in CA.
  set (c' := with_ip_valid c (ip_valid blocks cn)).
  assert (TL' : q_tls (on_conn q blocks cn) = Some c') by (cbn [on_conn q_tls]; rewrite TL; reflexivity).
  assert (KM' : km_signed c' = None) by exact KM.
  assert (G : ip_restricted c' = IpOk -> exists l b, blocks = Some l /\ In b l /\ in_block (n_peer cn) b = true).
  { intro IP. apply ip_restricted_ok in IP. destruct IP as [_ [V _]]. unfold c' in V. cbn in V.
    unfold ip_valid in V. destruct blocks as [l|]; [|discriminate].
    apply existsb_exists in V. destruct V as [b [Hb Hin]]. exists l, b. auto. }
  destruct (csrf_cases (on_conn q blocks cn)) as [[code E]|E]; rewrite E in CA; [discriminate|].
  unfold effective_tls in CA. rewrite TL' in CA.
  destruct (s_name st (c_cn c')) as [|n0 nr] eqn:NM.
  - destruct (ip_restricted c') eqn:IP; [apply G; reflexivity| |];
      (destruct (tls_result_nameless now c') as [code2 E2]; [rewrite IP; discriminate|];
       unfold tls_result in E2; rewrite E2 in CA; discriminate).
  - rewrite KM' in CA. destruct (ip_restricted c') eqn:IP; try discriminate. apply G. reflexivity.
Qed.

(* a credential that proves only the password factor does not qualify unless "password" is listed *)
Lemma password_level_not_qualified cfg : ~ In sPassword cfg -> ~ qualifies cfg bPassword.
Proof.
  intros NP [H|[H|[s [f [_ [A C]]]]]].
  - vm_compute in H. discriminate.
  - exact (NP H).
  - destruct A; vm_compute in C; discriminate.
Qed.

Theorem password_only_refused st now lim q :
  ~ In sPassword (s_cfg st) ->
  (forall u level, proves st now q u level -> level = bPassword) ->
  exists code, certgen expand st now lim q = Refused code.
Proof.
  intros NP OnlyPw. destruct (certgen expand st now lim q) as [u c|code] eqn:E; [|eauto].
  exfalso. apply certgen_sound in E. destruct E as [_ [[level [P Q]] _]].
  rewrite (OnlyPw _ _ P) in Q. exact (password_level_not_qualified _ NP Q).
Qed.

(* the concrete case of the statement: a valid password-only session, only second factors listed *)
Theorem password_session_401 st now lim q w :
  s_sealed st = false -> ~ In sPassword (s_cfg st) ->
  q_tls q = None -> q_cookie q = Some w -> valid_session (issuer_of st) now w -> w_level w = bPassword ->
  q_origin q = NoOrigin \/ q_origin q = SameOrigin \/ q_method q = HGet ->
  certgen expand st now lim q = Refused 401.
Proof.
  intros S NP TL C V L O. unfold certgen. rewrite S, check_auth_any_eq. unfold check_auth_any.
  cbn [auth_request r_get r_origin r_tls r_cred]. unfold carried_cred. rewrite (effective_tls_none st q TL), C.
  assert (CS : (if match q_method q with HGet => true | _ => false end then None
                else match q_origin q with BadOrigin => Some (Refuse 400) | CrossOrigin => Some (Refuse 401) | _ => None end) = None).
  { destruct O as [ -> | [ -> | -> ] ]; destruct (q_method q); reflexivity. }
  rewrite CS. unfold cookie_branch_any. apply token_ok_valid in V. destruct V as [V1 V2].
  rewrite V1. cbn [t_exp t_level t_sub t_iat token_of]. rewrite V2, L. simpl.
  assert (SF : sufficient (s_cfg st) bPassword = false).
  { apply sufficient_false_iff. apply password_level_not_qualified. exact NP. }
  rewrite SF. reflexivity.
Qed.

(* every refusal is an error status; the Refused constructor carries nothing signed *)
Lemma ssh_cert_code st u user q code : ssh_cert expand st u user q = Refused code -> 400 <= code.
Proof.
  unfold ssh_cert. destruct (q_key q) as [[k ed]|].
  - destruct (ed && negb (s_ed25519_ca st)).
    + intro H. inversion H. vm_compute. discriminate.
    + destruct (expand_extensions expand (s_templates st) user []); intro H; inversion H. vm_compute. discriminate.
  - intro H. inversion H. vm_compute. discriminate.
Qed.
Lemma x509_cert_code st u user q kube code : x509_cert st u user q kube = Refused code -> 400 <= code.
Proof.
  unfold x509_cert. destruct (if kube || q_add_groups q then s_groups st user else Some []);
    [|intro H; inversion H; vm_compute; discriminate].
  destruct (s_methods st user); [|intro H; inversion H; vm_compute; discriminate].
  destruct (q_key q) as [[k ed]|]; intro H; inversion H. vm_compute. discriminate.
Qed.

Theorem refused_is_error st now lim q code :
  certgen expand st now lim q = Refused code -> 400 <= code.
Proof.
  unfold certgen. destruct (s_sealed st); [intro H; inversion H; vm_compute; discriminate|].
  destruct (check_auth now lim bAny (auth_request st q)) as [a level iat|c] eqn:CA.
  - destruct (sufficient (s_cfg st) level); simpl; [|intro H; inversion H; vm_compute; discriminate].
    destruct (bs_eqb (s_name st a) (q_target q)); simpl; [|intro H; inversion H; vm_compute; discriminate].
    destruct (q_method q); try (intro H; inversion H; vm_compute; discriminate).
    destruct (q_form_ok q); simpl; [|intro H; inversion H; vm_compute; discriminate].
    destruct (q_type q).
    + apply ssh_cert_code.
    + apply x509_cert_code.
    + apply x509_cert_code.
    + intro H; inversion H; vm_compute; discriminate.
  - intro H. inversion H. subst. eapply check_auth_refuse_code; eauto.
Qed.

Theorem everything_else_refused st now lim q :
  ~ (s_sealed st = false /\ q_method q = HPost /\
     exists u level, proves st now q u level /\ qualifies (s_cfg st) level /\ q_target q = s_name st u) ->
  exists code, certgen expand st now lim q = Refused code /\ 400 <= code.
Proof.
  intro N. destruct (certgen expand st now lim q) as [u c|code] eqn:E.
  - exfalso. apply N. apply certgen_sound in E. destruct E as [S [[level [P Q]] [T M]]].
    split; [exact S|]. split; [exact M|]. exists u, level. auto.
  - exists code. split; [reflexivity|]. eapply refused_is_error; eauto.
Qed.
End Thms.

Lemma qualifies_mono cfg l l' :
  (forall f, carries l f -> carries l' f) -> qualifies cfg l -> qualifies cfg l'.
Proof.
  intros M [H|[H|[s [f [I [A C]]]]]].
  - left. auto.
  - right. left. exact H.
  - right. right. exists s, f. auto.
Qed.

Lemma carries_lor_l a b f : carries a f -> carries (N.lor a b) f.
Proof. unfold carries. rewrite N.lor_spec. intros ->. reflexivity. Qed.
Lemma carries_lor_r a b f : carries b f -> carries (N.lor a b) f.
Proof. unfold carries. rewrite N.lor_spec. intros ->. apply orb_true_r. Qed.

Section Complete.
Variable expand : bs -> bs -> option bs.

(* once checkAuth lets (u, level) through: qualification, the right target and an orderly request
   are enough *)
Lemma after_auth st now lim q u level iat :
  check_auth now lim bAny (auth_request st q) = Admit u level iat ->
  qualifies (s_cfg st) level -> q_target q = s_name st u -> servable expand st q (s_name st u) ->
  exists c, certgen expand st now lim q = Issued u c.
Proof.
  intros CA Q T [S [M [_ [F [k [ed [K W]]]]]]].
  unfold certgen. rewrite S, CA. apply sufficient_iff in Q. rewrite Q. simpl.
  rewrite T, bs_eqb_refl. simpl. rewrite M, F. simpl.
  destruct (q_type q); [| | |contradiction].
  - destruct W as [E X]. unfold ssh_cert. rewrite K.
    assert (EE : ed && negb (s_ed25519_ca st) = false).
    { destruct ed; [rewrite (E eq_refl)|]; reflexivity. }
    rewrite EE. destruct (expand_extensions expand (s_templates st) (s_name st u) []); [eauto|contradiction].
  - destruct W as [G SM]. unfold x509_cert. rewrite K. simpl.
    destruct (q_add_groups q).
    + destruct (s_groups st (s_name st u)); [|exfalso; apply G; reflexivity].
      destruct (s_methods st (s_name st u)); [eauto|contradiction].
    + destruct (s_methods st (s_name st u)); [eauto|contradiction].
  - destruct W as [G SM]. unfold x509_cert. rewrite K. simpl.
    destruct (s_groups st (s_name st u)); [|contradiction].
    destruct (s_methods st (s_name st u)); [eauto|contradiction].
Qed.

Lemma csrf_pass q :
  q_method q = HPost -> q_origin q = NoOrigin \/ q_origin q = SameOrigin ->
  (if match q_method q with HGet => true | _ => false end then None
   else match q_origin q with BadOrigin => Some (Refuse 400) | CrossOrigin => Some (Refuse 401) | _ => None end) = None.
Proof. intros -> [ -> | -> ]; reflexivity. Qed.

(* a valid qualifying session is served whatever Basic header comes with it *)
Theorem complete_session st now lim q w :
  servable expand st q (s_name st (w_sub w)) ->
  q_tls q = None -> q_cookie q = Some w -> valid_session (issuer_of st) now w -> N.land (w_level w) bAny <> 0 ->
  qualifies (s_cfg st) (w_level w) -> q_target q = s_name st (w_sub w) ->
  exists c, certgen expand st now lim q = Issued (w_sub w) c.
Proof.
  intros SV TL C V L Q T. eapply after_auth with (iat := w_iat w); eauto.
  rewrite check_auth_any_eq. unfold check_auth_any. cbn [auth_request r_get r_origin r_tls r_cred].
  destruct SV as [_ [M [O _]]]. unfold carried_cred. rewrite (csrf_pass q M O), (effective_tls_none st q TL), C. unfold cookie_branch_any.
  apply token_ok_valid in V. destruct V as [V1 V2]. rewrite V1. cbn [t_exp t_level t_sub t_iat token_of]. rewrite V2. simpl.
  unfold hasb. apply N.eqb_neq in L. rewrite L. reflexivity.
Qed.

(* a good password is served when the request carries neither a client certificate nor any
   auth_cookie (a cookie, even a worthless one, is what checkAuth goes by) *)
Theorem complete_password st now q b :
  servable expand st q (s_name st (b_user b)) ->
  q_tls q = None -> q_cookie q = None -> q_basic q = Some b -> b_ok b = true -> b_err b = false ->
  qualifies (s_cfg st) bPassword -> q_target q = s_name st (b_user b) ->
  exists c, certgen expand st now true q = Issued (b_user b) c.
Proof.
  intros SV TL C B OK ER Q T. eapply after_auth with (iat := now); eauto.
  rewrite check_auth_any_eq. unfold check_auth_any. cbn [auth_request r_get r_origin r_tls r_cred].
  destruct SV as [_ [M [O _]]]. unfold carried_cred. rewrite (csrf_pass q M O), (effective_tls_none st q TL), C, B. simpl. rewrite ER, OK. reflexivity.
Qed.

Theorem complete_cert st now lim q c :
  servable expand st q (s_name st (c_cn c)) ->
  q_tls q = Some c -> names_somebody st c ->
  (keymaster_cert c /\ qualifies (s_cfg st) bKMX509) \/ (ip_cert_ok c /\ qualifies (s_cfg st) bIPCert) ->
  q_target q = s_name st (c_cn c) ->
  exists d, certgen expand st now lim q = Issued (c_cn c) d.
Proof.
  intros SV TL NS H T.
  assert (CA : exists level iat, check_auth now lim bAny (auth_request st q) = Admit (c_cn c) level iat /\
                                 qualifies (s_cfg st) level).
  { rewrite (check_auth_with_cert st now lim q c TL NS).
    destruct SV as [_ [M [O _]]]. rewrite (csrf_pass q M O). unfold tls_result.
    destruct H as [[K Q]|[I Q]].
    - rewrite (km_signed_complete c K). destruct (ip_restricted c); eexists; eexists; (split; [reflexivity|]); auto.
      eapply qualifies_mono; [|exact Q]. intros f. apply carries_lor_l.
    - apply ip_restricted_ok in I. rewrite I. destruct (km_signed c) as [[ku knb]|]; eexists; eexists; (split; [reflexivity|]); auto.
      eapply qualifies_mono; [|exact Q]. intros f. apply carries_lor_r. }
  destruct CA as [level [iat [CA Q]]]. eapply after_auth; eauto.
Qed.
End Complete.

(* ---- the strict reading of "password" is NOT what the handler implements: with only
   "password" listed it serves a federated-only session, a CLI-web-auth session and an
   IP-restricted certificate, none of which carries the password factor *)
Definition strict_witness (shp : N) : Prop :=
  let s := nth (N.to_nat shp) shapes default_shape in
  let st := case_server false [sPassword] in
  let q := case_req s 0 0 in
  (exists u c, certgen no_expand st 0%Z true q = Issued u c) /\
  (exists u level, proves st 0%Z q u level) /\
  forall u level, proves st 0%Z q u level -> ~ qualifies_strict (s_cfg st) level.

Lemma not_strict_password level :
  N.testbit level 3 = false -> N.testbit level 1 = false -> ~ qualifies_strict [sPassword] level.
Proof.
  intros U P [H|[[_ H]|[s [f [I [A _]]]]]].
  - unfold carries in H. simpl in H. congruence.
  - unfold carries in H. simpl in H. congruence.
  - destruct I as [<-|[]]. inversion A.
Qed.

Ltac closed_facts := vm_compute; repeat split; try reflexivity; try discriminate; try (eexists; reflexivity).

Theorem strict_refuted : strict_witness 7 /\ strict_witness 15 /\ strict_witness 56.
Proof.
  repeat split.
  - eexists; eexists; vm_compute; reflexivity.
  - exists 1, bFederated. eapply P_session; [reflexivity| |reflexivity|reflexivity]. closed_facts.
  - intros u level P. simpl.
    inversion P as [w C V E1 E2|b C OK ER E1 E2|c C NS K E1 E2|c C NS I E1 E2|c C NS K I E1 E2];
      vm_compute in C; try discriminate.
    inversion C. subst w. subst level. apply not_strict_password; reflexivity.
  - eexists; eexists; vm_compute; reflexivity.
  - exists 1, bCLI. eapply P_session; [reflexivity| |reflexivity|reflexivity]. closed_facts.
  - intros u level P. simpl.
    inversion P as [w C V E1 E2|b C OK ER E1 E2|c C NS K E1 E2|c C NS I E1 E2|c C NS K I E1 E2];
      vm_compute in C; try discriminate.
    inversion C. subst w. subst level. apply not_strict_password; reflexivity.
  - eexists; eexists; vm_compute; reflexivity.
  - exists 3, bIPCert. eapply P_ip_cert; [reflexivity| | |reflexivity|reflexivity]; [vm_compute; discriminate|closed_facts].
  - intros u level P. simpl.
    inversion P as [w C V E1 E2|b C OK ER E1 E2|c C NS K E1 E2|c C NS I E1 E2|c C NS K I E1 E2];
      vm_compute in C; try discriminate; inversion C; subst c.
    + destruct K as [_ [K _]]. exfalso. apply K. reflexivity.
    + subst level. apply not_strict_password; reflexivity.
    + destruct K as [_ [K _]]. exfalso. apply K. reflexivity.
Qed.

(* ---- the behaviour before the repairs made while building this check *)
Lemma old_refuted :
  (exists st q c, certgen_old no_expand false st 0%Z true q = Refused c /\ c < 400) /\
  (exists st q c, certgen_old no_expand true st 0%Z true q = Refused c /\ c < 400).
Proof.
  split.
  - exists (case_server false [sU2F]), (case_req (nth 68 shapes default_shape) 0 0), 0.
    vm_compute. split; reflexivity.
  - exists (case_server false [sU2F]), (case_req (nth 6 shapes default_shape) 0 0), 200.
    vm_compute. split; reflexivity.
Qed.

Lemma old_krb_refuted : exists realm user, krb_san_old realm user <> Some (realm, user).
Proof.
  exists [69;88;65;77;80;76;69;46;67;79;77], (repeat 117 100). vm_compute. discriminate.
Qed.

(* ---- combined credentials: a client certificate, a session cookie and a Basic header in one request *)
Section Combined.
Variable expand : bs -> bs -> option bs.

(* When a client certificate is presented, a certificate comes back only if the CERTIFICATE's own
   identity and level qualify: no cookie of whatever state (valid, expired, foreign) and no Basic
   header adds anything to it. *)
Theorem certificate_decides st now lim q c u d :
  q_tls q = Some c -> names_somebody st c -> certgen expand st now lim q = Issued u d ->
  exists level, cert_proves st q u level /\ qualifies (s_cfg st) level.
Proof.
  intros TL NS H. apply certgen_issued in H. destruct H as [_ [level [iat [CA [SU _]]]]].
  rewrite (check_auth_with_cert st now lim q c TL NS) in CA.
  destruct (csrf_cases q) as [[code E]|E]; rewrite E in CA; [discriminate|].
  exists level. split; [eapply tls_result_sound; eauto|apply sufficient_iff; exact SU].
Qed.

(* ... and the answer is the same whatever cookie and Basic header accompany the certificate *)
Theorem credentials_beside_certificate_ignored st now lim lim' q c ck b ck' b' :
  q_tls q = Some c -> names_somebody st c ->
  certgen expand st now lim (with_creds q ck b) = certgen expand st now lim' (with_creds q ck' b').
Proof.
  intros TL NS. unfold certgen.
  rewrite (check_auth_with_cert st now lim (with_creds q ck b) c TL NS).
  rewrite (check_auth_with_cert st now lim' (with_creds q ck' b') c TL NS).
  reflexivity.
Qed.

(* A certificate whose common name is the empty string is no identity: a certificate comes back only
   when the address test accepts the certificate, and then exactly as if the request had been made
   without it (the cookie / Basic header decide). *)
Theorem nameless_certificate_no_identity st now lim q c :
  q_tls q = Some c -> s_name st (c_cn c) = [] ->
  (ip_restricted c = IpOk /\ certgen expand st now lim q = certgen expand st now lim (without_tls q)) \/
  (ip_restricted c <> IpOk /\ exists code, certgen expand st now lim q = Refused code /\ 400 <= code).
Proof.
  intros TL NM. destruct (ip_restricted c) eqn:IP.
  - left. split; [reflexivity|]. unfold certgen, auth_request, effective_tls. cbn [q_tls without_tls].
    rewrite TL, NM, IP. reflexivity.
  - right. split; [discriminate|].
    destruct (certgen expand st now lim q) as [u d|code] eqn:E.
    + exfalso. apply certgen_issued in E. destruct E as [_ [level [iat [CA _]]]].
      rewrite check_auth_any_eq in CA. unfold check_auth_any in CA. cbn [auth_request r_get r_origin r_tls r_cred] in CA.
      unfold effective_tls in CA. rewrite TL, NM, IP in CA.
      destruct (csrf_cases q) as [[code E]|E]; rewrite E in CA; [discriminate|].
      destruct (tls_result_nameless now c) as [code E2]; [rewrite IP; discriminate|].
      unfold tls_result in E2. rewrite E2 in CA. discriminate.
    + exists code. split; [reflexivity|eapply refused_is_error; eauto].
  - right. split; [discriminate|].
    destruct (certgen expand st now lim q) as [u d|code] eqn:E.
    + exfalso. apply certgen_issued in E. destruct E as [_ [level [iat [CA _]]]].
      rewrite check_auth_any_eq in CA. unfold check_auth_any in CA. cbn [auth_request r_get r_origin r_tls r_cred] in CA.
      unfold effective_tls in CA. rewrite TL, NM, IP in CA.
      destruct (csrf_cases q) as [[code E]|E]; rewrite E in CA; [discriminate|].
      destruct (tls_result_nameless now c) as [code E2]; [rewrite IP; discriminate|].
      unfold tls_result in E2. rewrite E2 in CA. discriminate.
    + exists code. split; [reflexivity|eapply refused_is_error; eauto].
Qed.

Lemma token_ok_own_issuer issuer now w :
  token_ok now (token_of issuer w) = true -> w_iss w = issuer /\ exists rest, w_aud w = issuer :: rest.
Proof.
  unfold token_ok, token_of. cbn. rewrite !andb_true_iff, bs_eqb_eq, aud0_is_spec. tauto.
Qed.

(* Without a client certificate a request that carries an auth_cookie is judged by that cookie alone
   (whatever the Basic header says): a certificate comes back only if the cookie is a currently valid
   session of the server's OWN issuer - iss equal to the issuer string, the first audience equal to
   it - for the user named. *)
Theorem session_issuer_exact st now lim q w u d :
  q_tls q = None -> q_cookie q = Some w -> certgen expand st now lim q = Issued u d ->
  w_iss w = issuer_of st /\ (exists rest, w_aud w = issuer_of st :: rest) /\
  valid_session (issuer_of st) now w /\ u = w_sub w /\ qualifies (s_cfg st) (w_level w).
Proof.
  intros TL C H. apply certgen_issued in H. destruct H as [_ [level [iat [CA [SU _]]]]].
  rewrite check_auth_any_eq in CA. unfold check_auth_any in CA.
  cbn [auth_request r_get r_origin r_tls r_cred] in CA. unfold carried_cred in CA. rewrite (effective_tls_none st q TL), C in CA.
  destruct (csrf_cases q) as [[code E]|E]; rewrite E in CA; [discriminate|].
  unfold cookie_branch_any in CA.
  destruct (token_ok now (token_of (issuer_of st) w)) eqn:T; simpl in CA; [|discriminate].
  cbn [t_exp t_level t_sub t_iat token_of] in CA.
  destruct (w_exp w <? now)%Z eqn:X; [discriminate|].
  destruct (hasb (w_level w) bAny); simpl in CA; [|discriminate].
  inversion CA; subst.
  destruct (token_ok_own_issuer _ _ _ T) as [I A].
  split; [exact I|]. split; [exact A|]. split; [apply token_ok_valid; auto|].
  split; [reflexivity|apply sufficient_iff; exact SU].
Qed.

Corollary foreign_session_refused st now lim q w :
  q_tls q = None -> q_cookie q = Some w ->
  (w_iss w <> issuer_of st \/ forall rest, w_aud w <> issuer_of st :: rest) ->
  exists code, certgen expand st now lim q = Refused code /\ 400 <= code.
Proof.
  intros TL C NE. destruct (certgen expand st now lim q) as [u d|code] eqn:E.
  - exfalso. destruct (session_issuer_exact _ _ _ _ _ _ _ TL C E) as [I [[rest A] _]].
    destruct NE as [NE|NE]; [exact (NE I)|exact (NE rest A)].
  - exists code. split; [reflexivity|eapply refused_is_error; eauto].
Qed.
End Combined.

(* ---- the decision procedure `entitled` (Model/CertgenCases.v) decides the specification *)
Lemma keymaster_cert_b_iff c : keymaster_cert_b c = true <-> keymaster_cert c.
Proof.
  unfold keymaster_cert_b, keymaster_cert. rewrite !andb_true_iff, !negb_true_iff.
  destruct (c_issuer c); split; intros [[[A B] C] D] || intros [A [B [C D]]]; repeat split; auto; try discriminate.
  exfalso. apply B. reflexivity.
Qed.

Lemma ip_cert_ok_b_iff c : ip_cert_ok_b c = true <-> ip_cert_ok c.
Proof.
  unfold ip_cert_ok_b, ip_cert_ok. rewrite !andb_true_iff, !negb_true_iff. tauto.
Qed.

Lemma proved_levels_iff st now q u level :
  In level (proved_levels st now q u) <-> proves st now q u level.
Proof.
  unfold proved_levels. rewrite !in_app_iff. split.
  - intros [H|[H|H]].
    + destruct (q_cookie q) as [w|] eqn:C; [|destruct H].
      destruct (valid_session_b (issuer_of st) now w && (w_sub w =? u)) eqn:V; [|destruct H].
      apply andb_true_iff in V. destruct V as [V U]. apply valid_session_b_iff in V. apply N.eqb_eq in U.
      destruct H as [<-|[]]. eapply P_session; eauto.
    + destruct (q_basic q) as [b|] eqn:B; [|destruct H].
      destruct (b_ok b && negb (b_err b) && (b_user b =? u)) eqn:V; [|destruct H].
      apply andb_true_iff in V. destruct V as [V U]. apply andb_true_iff in V. destruct V as [O E].
      apply negb_true_iff in E. apply N.eqb_eq in U. destruct H as [<-|[]]. eapply P_password; eauto.
    + destruct (q_tls q) as [c|] eqn:TL; [|destruct H].
      destruct ((c_cn c =? u) && negb (bs_eqb (s_name st u) [])) eqn:U; [|destruct H].
      apply andb_true_iff in U. destruct U as [U NM]. apply N.eqb_eq in U. apply negb_true_iff, bs_eqb_neq in NM.
      assert (NS : names_somebody st c) by (unfold names_somebody; rewrite U; exact NM).
      rewrite !in_app_iff in H. destruct H as [H|[H|H]].
      * destruct (keymaster_cert_b c) eqn:K; [|destruct H]. apply keymaster_cert_b_iff in K.
        destruct H as [<-|[]]. eapply P_km_cert; eauto.
      * destruct (ip_cert_ok_b c) eqn:I; [|destruct H]. apply ip_cert_ok_b_iff in I.
        destruct H as [<-|[]]. eapply P_ip_cert; eauto.
      * destruct (keymaster_cert_b c && ip_cert_ok_b c) eqn:KI; [|destruct H].
        apply andb_true_iff in KI. destruct KI as [K I]. apply keymaster_cert_b_iff in K. apply ip_cert_ok_b_iff in I.
        destruct H as [<-|[]]. eapply P_both; eauto.
  - assert (NB : forall c, names_somebody st c -> u = c_cn c -> (c_cn c =? u) && negb (bs_eqb (s_name st u) []) = true).
    { intros c NS ->. rewrite N.eqb_refl. simpl. apply negb_true_iff, bs_eqb_neq. exact NS. }
    intros [w C V U L|b B O E U L|c TL NS K U L|c TL NS I U L|c TL NS K I U L].
    + left. rewrite C. apply valid_session_b_iff in V. rewrite V. subst u. rewrite N.eqb_refl. simpl. auto.
    + right. left. rewrite B, O, E. subst u. rewrite N.eqb_refl. simpl. auto.
    + right. right. rewrite TL, (NB c NS U). apply keymaster_cert_b_iff in K. rewrite K.
      rewrite !in_app_iff. left. simpl. auto.
    + right. right. rewrite TL, (NB c NS U). apply ip_cert_ok_b_iff in I. rewrite I.
      rewrite !in_app_iff. right. left. simpl. auto.
    + right. right. rewrite TL, (NB c NS U). apply keymaster_cert_b_iff in K. apply ip_cert_ok_b_iff in I.
      rewrite K, I. rewrite !in_app_iff. right. right. simpl. auto.
Qed.

Theorem entitled_iff st now q u :
  entitled st now q u = true <->
  (s_sealed st = false /\ q_method q = HPost /\ q_target q = s_name st u /\
   exists level, proves st now q u level /\ qualifies (s_cfg st) level).
Proof.
  unfold entitled. rewrite !andb_true_iff, negb_true_iff, bs_eqb_eq, existsb_exists. split.
  - intros [[[S M] T] [level [I Q]]]. repeat split; auto.
    + destruct (q_method q); try discriminate; reflexivity.
    + exists level. split; [apply proved_levels_iff; exact I|apply sufficient_iff; exact Q].
  - intros [S [M [T [level [P Q]]]]]. repeat split; auto.
    + rewrite M. reflexivity.
    + exists level. split; [apply proved_levels_iff; exact P|apply sufficient_iff; exact Q].
Qed.

(* the model's handler never violates it: an issued certificate is for an entitled user (this is
   c01_sound through the decision procedure; the case files evaluate `entitled` on OBSERVED answers) *)
Theorem issued_entitled expand st now lim q u c :
  certgen expand st now lim q = Issued u c -> entitled st now q u = true.
Proof.
  intro H. apply entitled_iff. apply certgen_sound in H. tauto.
Qed.
