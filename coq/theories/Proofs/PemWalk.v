From Coq Require Import NArith List Bool.
From KM Require Import Base.Bytes Model.KeyStrength Proofs.KeyStrength Model.ClaimAccess Model.PemWalk.

Import ListNotations.

Theorem select_first_total t : select_first t <> Panic.
Proof.
  unfold select_first. destruct (pem_decode t) as [[x r]|]; [|discriminate].
  destruct (is_pubkey x); discriminate.
Qed.

Theorem select_first_ok t x : select_first t = Ok x ->
  exists r, blocks t = x :: r /\ is_pubkey x = true.
Proof.
  unfold select_first, pem_decode. destruct (blocks t) as [|y r]; [discriminate|].
  destruct (is_pubkey y) eqn:E; [|discriminate]. intros H. inversion H; subst. exists r. split; [reflexivity|exact E].
Qed.

Lemma skip_walk_guarded_total rest : forall cur tr, skip_walk true cur rest tr <> Panic.
Proof.
  induction rest as [|y r IH]; intros cur tr; cbn [skip_walk].
  - destruct (is_pubkey cur); [discriminate|]. destruct tr; discriminate.
  - destruct (is_pubkey cur); [discriminate|]. apply IH.
Qed.

Lemma skip_walk_ok g rest : forall cur tr x, skip_walk g cur rest tr = Ok x ->
  In x (cur :: rest) /\ is_pubkey x = true.
Proof.
  induction rest as [|y r IH]; intros cur tr x; cbn [skip_walk].
  - destruct (is_pubkey cur) eqn:E.
    + intros H. inversion H; subst. split; [left; reflexivity|exact E].
    + destruct tr, g; discriminate.
  - destruct (is_pubkey cur) eqn:E.
    + intros H. inversion H; subst. split; [left; reflexivity|exact E].
    + intros H. destruct (IH y tr x H) as [Hin Hp]. split; [right; exact Hin|exact Hp].
Qed.

Theorem select_skip_guarded_total t : select_skip true t <> Panic.
Proof.
  unfold select_skip. destruct (blocks t) as [|x r]; [discriminate|]. apply skip_walk_guarded_total.
Qed.

Theorem select_skip_ok g t x : select_skip g t = Ok x -> In x (blocks t) /\ is_pubkey x = true.
Proof.
  unfold select_skip. destruct (blocks t) as [|y r]; [discriminate|]. apply skip_walk_ok.
Qed.

(* a complete block of another type followed by bytes that are not a complete block *)
Theorem select_skip_unguarded_panics : exists t, select_skip false t = Panic.
Proof. exists {| blocks := [{| is_pubkey := false; blk_key := None |}]; trailing := true |}. reflexivity. Qed.

(* and either ingredient alone does not *)
Theorem select_skip_unguarded_needs_both t :
  select_skip false t = Panic -> trailing t = true /\ exists x, In x (blocks t) /\ is_pubkey x = false.
Proof.
  unfold select_skip. destruct (blocks t) as [|y r]; [discriminate|]. generalize (trailing t). revert y.
  induction r as [|z r IH]; intros y tr; cbn [skip_walk].
  - destruct (is_pubkey y) eqn:E; [discriminate|]. destruct tr; [|discriminate].
    intros _. split; [reflexivity|]. exists y. split; [left; reflexivity|exact E].
  - destruct (is_pubkey y) eqn:E; [discriminate|]. intros H. destruct (IH z tr H) as [T [x [Hin Hx]]].
    split; [exact T|]. exists y. split; [left; reflexivity|exact E].
Qed.

Theorem pem_pipeline_total p t : pem_pipeline p t <> Panic.
Proof.
  unfold pem_pipeline. destruct (select_first t) eqn:S; try discriminate.
  exfalso. exact (select_first_total t S).
Qed.

Theorem pem_pipeline_signed p t k : pem_pipeline p t = Ok (Signed k) ->
  validate k = true /\ exists x r, blocks t = x :: r /\ is_pubkey x = true /\ option_map snd (blk_key x) = Some k.
Proof.
  unfold pem_pipeline. destruct (select_first t) as [x| |] eqn:S; try discriminate.
  - intros H. inversion H as [P]. split.
    + exact (pipeline_of_strong p (blk_key x) (blk_key x) k (fun _ => eq_refl) P).
    + destruct (select_first_ok t x S) as [r [B I]]. exists x, r. repeat split; try assumption.
      unfold pipeline_of, pipeline2 in P. cbn [validated signed] in P.
      destruct (blk_key x) as [kv|]; [|discriminate]. destruct (validate (snd kv)); [|discriminate].
      destruct (parses_twice p); inversion P; reflexivity.
Qed.

Theorem pem_pipeline_weak_is_client_error p t :
  (forall x k, select_first t = Ok x -> blk_key x = Some k -> validate (snd k) = false) ->
  pem_pipeline p t = Ok ClientError.
Proof.
  intros H. unfold pem_pipeline. destruct (select_first t) as [x| |] eqn:S.
  - rewrite (pipeline_of_weak_is_client_error p (blk_key x) (blk_key x)); [reflexivity|].
    intros k E. exact (H x k eq_refl E).
  - reflexivity.
  - exfalso. exact (select_first_total t S).
Qed.

(* ---- the pubkey form parameter of the role paths ---- *)
Theorem param_pipeline_signed p values k : param_pipeline p values = Signed k ->
  validate k = true /\ exists kv r, values = PDer (Some kv) :: r /\ snd kv = k.
Proof.
  unfold param_pipeline. destruct values as [|v r]; [discriminate|]. destruct v as [| |ko]; try discriminate.
  intros P. split; [exact (pipeline_of_strong p ko ko k (fun _ => eq_refl) P)|].
  unfold pipeline_of, pipeline2 in P. cbn [validated signed] in P.
  destruct ko as [kv|]; [|discriminate]. destruct (validate (snd kv)); [|discriminate].
  exists kv, r. split; [reflexivity|]. destruct (parses_twice p); inversion P; reflexivity.
Qed.

Theorem param_pipeline_weak_is_client_error p values :
  (forall kv r, values = PDer (Some kv) :: r -> validate (snd kv) = false) -> param_pipeline p values = ClientError.
Proof.
  intros H. unfold param_pipeline. destruct values as [|v r]; [reflexivity|]. destruct v as [| |ko]; try reflexivity.
  apply pipeline_of_weak_is_client_error. intros kv E. subst ko. exact (H kv r eq_refl).
Qed.
