(* C08 x C06 — the authorization tests of Model/Authz.v (C08) and the gate / route model of
   Model/AuthGate.v + Model/Routes.v (C06) speak about the same handlers.  Here the two are tied:
   each C08 operation has its C06 route row; the mask the C08 model requires is the mask of the
   row's declared gate; the handler test `authorize` IS the row's extra rule; hence "let in by
   the gate and allowed by authorize" implies that the C06 gate declared for the route accepts
   the request — one composed statement per route.

   C06 keeps users abstract (numbers), C08 has the names as byte strings: [uid] is any injective
   numbering of the names that gives the empty name the number 0. *)
From Coq Require Import ZArith List Bool String.
From KM Require Import Base.Bytes Model.Auth Model.AuthGate Model.Routes Model.Authz Proofs.AuthGate Proofs.Authz.
Import ListNotations.
Open Scope N_scope.

Definition route_of (o : op) : string :=
  match o with
  | ViewProfile => "runtimeState.profileHandler"
  | ManageU2F _ => "runtimeState.u2fTokenManagerHandler"
  | ManageTOTP _ => "runtimeState.totpTokenManagerHandler"
  | U2FRegBegin => "runtimeState.u2fRegisterRequest"
  | U2FRegFinish => "runtimeState.u2fRegisterResponse"
  | WARegBegin => "runtimeState.webauthnBeginRegistration"
  | WARegFinish => "runtimeState.webauthnFinishRegistration"
  | TOTPGenerate => "runtimeState.GenerateNewTOTP"
  | TOTPValidate => "runtimeState.validateNewTOTP"
  | ListUsers => "runtimeState.usersHandler"
  | AddUser => "runtimeState.addUserHandler"
  | DeleteUser => "runtimeState.deleteUserHandler"
  | NewBootstrapOTP => "runtimeState.generateBootstrapOTP"
  | RoleCert => "runtimeState.roleRequetingCertGenHandler"
  end%string.

Definition mask_of (o : op) : mask :=
  match o with
  | ListUsers | AddUser | DeleteUser | NewBootstrapOTP | RoleCert => MWebUIX509
  | _ => MWebUI
  end.

Definition extra_of (o : op) : extra :=
  match o with
  | ViewProfile => XProfile
  | ManageU2F _ | ManageTOTP _ | U2FRegBegin | U2FRegFinish | WARegBegin | WARegFinish => XSelfOrAdminU2F
  | TOTPGenerate | TOTPValidate => XNone
  | ListUsers | AddUser | DeleteUser | NewBootstrapOTP => XAdmin
  | RoleCert => XAutoAdmin
  end.

(* every C08 operation has its row in the C06 route table, with this mask and this extra rule *)
Lemma op_row o : exists r, find_row (route_of o) = Some r /\ In r route_table /\
                           rt_gate r = GMask (mask_of o) (extra_of o).
Proof.
  destruct o; try destruct a; simpl route_of; simpl mask_of; simpl extra_of;
    (eexists; split; [vm_compute; reflexivity|]; split; [vm_compute; tauto|reflexivity]).
Qed.

(* the mask C08 passes to checkAuth is the value of the row's mask expression *)
Lemma op_mask c o : required_for c o = mask_val (webui_required c) (mask_of o).
Proof. destruct o; reflexivity. Qed.

Section Tie.
Variable uid : name -> N.
Hypothesis uid_inj : forall a b, uid a = uid b -> a = b.
Hypothesis uid_empty : uid [] = 0.

Lemma uid_zero t : uid t = 0 <-> t = [].
Proof. split; [intros H; apply uid_inj; now rewrite uid_empty|intros ->; exact uid_empty]. Qed.

(* the C06 environment in which the C08 request is looked at *)
Definition env_agrees (c : cfg) (env : envx) (adm : bool) (actor target : name) : Prop :=
  e_webui env = webui_required c /\
  e_admin env (uid actor) = adm /\
  e_autoadmin env (uid actor) = is_automation_admin c adm actor /\
  e_target env = uid target.

(* the handler test of the C08 model IS the extra rule of the C06 row *)
Theorem authorize_is_extra c env adm actor level target o :
  env_agrees c env adm actor target ->
  (authorize c adm actor level target o = Allow <-> extra_ok (extra_of o) env (uid actor) level).
Proof.
  intros (Hw & Ha & Haa & Ht).
  assert (Eself : bs_eqb target actor = true <-> e_target env = uid actor).
  { rewrite Ht, bs_eqb_eq. split; [intros ->; reflexivity|apply uid_inj]. }
  assert (Eself' : bs_eqb actor target = true <-> e_target env = uid actor).
  { rewrite Ht, bs_eqb_eq. split; [intros ->; reflexivity|intros H; symmetry; now apply uid_inj]. }
  assert (Eadm : admin_and_u2f adm level = true <-> e_admin env (uid actor) = true /\ hasb level bU2F = true).
  { rewrite Ha. apply admin_and_u2f_true. }
  assert (Tok1 : (if negb (admin_and_u2f adm level) && negb (bs_eqb target actor) then Deny else Allow) = Allow <->
                 e_target env = uid actor \/ (e_admin env (uid actor) = true /\ hasb level bU2F = true)).
  { destruct (admin_and_u2f adm level) eqn:A; destruct (bs_eqb target actor) eqn:B; simpl; split; intros H;
      try reflexivity; try discriminate.
    - right. now apply Eadm.
    - right. now apply Eadm.
    - left. now apply Eself.
    - destruct H as [H|H]; [apply Eself in H|apply Eadm in H]; congruence. }
  assert (Tok2 : (if negb (admin_and_u2f adm level) && negb (bs_eqb actor target) then Deny else Allow) = Allow <->
                 e_target env = uid actor \/ (e_admin env (uid actor) = true /\ hasb level bU2F = true)).
  { destruct (admin_and_u2f adm level) eqn:A; destruct (bs_eqb actor target) eqn:B; simpl; split; intros H;
      try reflexivity; try discriminate.
    - right. now apply Eadm.
    - right. now apply Eadm.
    - left. now apply Eself'.
    - destruct H as [H|H]; [apply Eself' in H|apply Eadm in H]; congruence. }
  assert (Adm : (if negb adm then Deny else Allow) = Allow <-> e_admin env (uid actor) = true).
  { rewrite Ha. destruct adm; simpl; split; intros H; try reflexivity; discriminate. }
  destruct o; simpl authorize; simpl extra_of; simpl extra_ok; try exact Tok1; try exact Tok2; try exact Adm;
    try (split; [intros _; exact I|reflexivity]).
  - (* ViewProfile *)
    rewrite Ht. destruct target as [|x t]; simpl.
    + split; [intros _; left; exact uid_empty|reflexivity].
    + split.
      * intros H. right. now apply Adm.
      * intros [H|H]; [apply uid_zero in H; discriminate|now apply Adm].
  - (* RoleCert *)
    rewrite Haa. destruct (is_automation_admin c adm actor); simpl; split; intros H; try reflexivity; discriminate.
Qed.

(* one composed statement per route: a request that checkAuth lets in as the actor with the mask of
   the operation, and that the handler's test allows, is accepted by the gate the C06 model
   declares for that route: some credential of the request proves (actor, level), the level fits the
   route's mask, a non-GET request is same-site, and the route's extra rule holds *)
Theorem gate_and_authorize c env q adm actor level target o iat :
  env_agrees c env adm actor target ->
  check_auth (e_now env) (e_limiter env) (e_deny env) (required_for c o) q = Admit (uid actor) level iat ->
  authorize c adm actor level target o = Allow ->
  exists r, find_row (route_of o) = Some r /\ In r route_table /\ accepts env q (rt_gate r).
Proof.
  intros Henv Hca Hauth.
  destruct (op_row o) as (r & Hf & Hin & Hg). exists r. split; [exact Hf|]. split; [exact Hin|].
  rewrite Hg. simpl accepts.
  destruct (gate_sound _ _ _ _ _ _ _ _ Hca) as (Hp & Hl & Ho).
  exists (uid actor), level. destruct Henv as (Hw & Hrest).
  rewrite Hw, <- op_mask. repeat split; auto.
  apply (authorize_is_extra c env adm actor level target o); [split; auto|exact Hauth].
Qed.

(* ... and what that buys in the words of C08: the effective target is the actor, or the actor is
   an administrator (with the hardware-token bit unless the operation is plain administration) *)
Corollary gate_and_authorize_may_act c env q adm actor level target o iat :
  o <> RoleCert ->
  env_agrees c env adm actor target ->
  check_auth (e_now env) (e_limiter env) (e_deny env) (required_for c o) q = Admit (uid actor) level iat ->
  authorize c adm actor level target o = Allow ->
  proves (e_now env) (e_deny env) q (uid actor) level /\
  hasb level (required_for c o) = true /\
  (q_meth q <> GET -> origin_ok q) /\
  may_act adm actor level (effective_target actor target o) o.
Proof.
  intros Hrc Henv Hca Hauth.
  destruct (gate_sound _ _ _ _ _ _ _ _ Hca) as (Hp & Hl & Ho).
  repeat split; auto. apply (authorize_sound c _ _ _ _ _ Hrc Hauth).
Qed.

End Tie.
