(* C08 — the second role-certificate path, /v1/refreshRoleRequestingCert (Model/Authz.v refresh_step):
   a certificate issued there names the holder of the presented IP-restricted certificate, whatever the
   form says; with the minting path (Proofs/Authz.v rolecert_sound): a role certificate for identity B is
   issued to an (automation) administrator, or to B itself. *)
From KM Require Import Base.Bytes Base.Tactics Model.Auth Model.Authz Proofs.Authz Proofs.AuthzObs.
Import ListNotations.
Open Scope N_scope.

Lemma authenticate_ip_refresh cr actor level :
  authenticate_ip refresh_required cr = Some (actor, level) ->
  (cr = IPCert actor /\ level = bIPCert) \/
  (cr = Session actor level /\ hasb level bIPCert = true).
Proof.
  unfold authenticate_ip, refresh_required. destruct cr as [|u l|u|u|t l]; simpl.
  - discriminate.
  - destruct (hasb l bIPCert) eqn:H; [|discriminate]. intros E. inversion E; subst. right. split; [reflexivity|exact H].
  - change (hasb bIPCert bKMX509) with false. discriminate.
  - change (hasb bIPCert bIPCert) with true. destruct (empty u); simpl; [discriminate|].
    intros E. inversion E; subst. left. split; reflexivity.
  - discriminate.
Qed.

(* the store is never touched on this path *)
Lemma refresh_store c s r : fst (fst (refresh_step c s r)) = s.
Proof.
  unfold refresh_step.
  destruct (authenticate_ip refresh_required (resolve c (r_cred r))) as [[actor level]|]; [|reflexivity].
  destruct (ip_cert_accepted c (resolve c (r_cred r)) (r_dir_target r)) as [[|]|]; try reflexivity.
  destruct (negb (r_post r)); [reflexivity|].
  destruct (empty actor); [reflexivity|].
  destruct (is_automation_user c actor (r_dir_target r)) as [[|]|]; try reflexivity.
  destruct (negb (r_params_ok r)); [reflexivity|].
  destruct (negb (from_ip_certificate (resolve c (r_cred r)))); reflexivity.
Qed.

(* a 2xx from the refresh endpoint: the request was authenticated by an IP-restricted certificate, the issued
   certificate names the CN of that certificate — the form's identity ([r_target r]: absent, own, another
   configured identity, an administrator's name, unknown) does not occur in the conclusion — the holder is a
   non-empty configured automation identity, the request was a POST, and nothing was stored *)
Theorem refresh_identity_is_own c s r :
  snd (fst (refresh_step c s r)) = ROk ->
  exists actor,
    resolve c (r_cred r) = IPCert actor /\
    authenticate_ip refresh_required (resolve c (r_cred r)) = Some (actor, bIPCert) /\
    snd (refresh_step c s r) = Some actor /\
    actor <> [] /\
    is_automation_identity c actor (r_dir_target r) /\
    r_post r = true /\
    fst (fst (refresh_step c s r)) = s.
Proof.
  intros Hok. pose proof (refresh_store c s r) as Hst. revert Hok Hst. unfold refresh_step.
  destruct (authenticate_ip refresh_required (resolve c (r_cred r))) as [[actor level]|] eqn:Ha; [|discriminate].
  destruct (ip_cert_accepted c (resolve c (r_cred r)) (r_dir_target r)) as [[|]|]; try discriminate.
  destruct (r_post r) eqn:Hp; simpl negb; cbv iota; [|discriminate].
  destruct (empty actor) eqn:He; [discriminate|].
  destruct (is_automation_user c actor (r_dir_target r)) as [[|]|] eqn:Hu; try discriminate.
  destruct (negb (r_params_ok r)); [discriminate|].
  destruct (from_ip_certificate (resolve c (r_cred r))) eqn:Hf; simpl negb; cbv iota; [|discriminate].
  intros _ Hst. simpl in Hst.
  apply authenticate_ip_refresh in Ha as Ha'.
  destruct Ha' as [[Hc Hl]|[Hc _]]; [|rewrite Hc in Hf; discriminate].
  subst level. exists actor. repeat split; auto.
  - intros ->. discriminate.
  - apply is_automation_user_true. exact Hu.
Qed.

(* whatever two forms say, the same certificate obtains the same thing: the form's identity is not read *)
Lemma refresh_ignores_form c s r id :
  refresh_step c s {| r_cred := r_cred r; r_post := r_post r; r_op := r_op r; r_target := id; r_index := r_index r;
                      r_name := r_name r; r_proof := r_proof r; r_adm := r_adm r; r_dir_target := r_dir_target r;
                      r_params_ok := r_params_ok r |} = refresh_step c s r.
Proof. reflexivity. Qed.

(* both paths: a role certificate for identity B is issued to an administrator / automation administrator
   (minting endpoint), or to B itself (refresh endpoint: renewal by the holder) *)
Theorem rolecert_any_path p c s r s' B :
  (p = ViaMint -> r_op r = RoleCert) ->
  rolecert_issue p c s r = (s', ROk, Some B) ->
  s' = s /\
  ((p = ViaMint /\ B = r_target r /\
    exists actor level,
      authenticate (required_for c RoleCert) (resolve c (r_cred r)) = Some (actor, level) /\
      (r_adm r = true \/ In actor (automation_admins c)) /\
      is_automation_identity c B (r_dir_target r)) \/
   (p = ViaRefresh /\ resolve c (r_cred r) = IPCert B /\
    authenticate_ip refresh_required (resolve c (r_cred r)) = Some (B, bIPCert) /\
    is_automation_identity c B (r_dir_target r))).
Proof.
  intros Hop H. destruct p; simpl in H.
  - specialize (Hop eq_refl).
    destruct (step c s r) as [s1 x] eqn:Hs. inversion H; subst s1 x. clear H.
    match goal with H : (if resp_eqb ROk ROk then _ else _) = _ |- _ => simpl in H; inversion H; subst B end.
    assert (Hok : snd (step c s r) = ROk) by (rewrite Hs; reflexivity).
    destruct (rolecert_sound c s r Hop Hok) as (actor & level & Ha & Hadm & Hid & Hst).
    rewrite Hs in Hst. simpl in Hst. split; [exact Hst|]. left. split; [reflexivity|]. split; [reflexivity|].
    exists actor, level. auto.
  - assert (Hok : snd (fst (refresh_step c s r)) = ROk) by (rewrite H; reflexivity).
    destruct (refresh_identity_is_own c s r Hok) as (actor & Hc & Ha & Hi & Hne & Hid & _ & Hst).
    rewrite H in Hi, Hst. simpl in Hi, Hst. inversion Hi; subst actor. split; [exact Hst|]. right. auto.
Qed.

(* the variant that honours the form (NOT the server's code) lets an automation identity that is neither
   administrator nor automation administrator obtain a certificate for another identity *)
Definition rf_role1 : name := [114; 111; 108; 101; 49].
Definition rf_role2 : name := [114; 111; 108; 101; 50].
Definition rf_cfg : cfg :=
  {| admin_users := [[97; 100; 109; 105; 110]]; admin_groups := []; automation_users := [rf_role1; rf_role2];
     automation_user_groups := []; automation_admins := [[97; 117; 116; 111; 97; 100; 109]]; webui_required := 2;
     disable_normalisation := false |}.
Definition rf_req (id : name) : request :=
  {| r_cred := IPCert rf_role1; r_post := true; r_op := RoleCert; r_target := id; r_index := None; r_name := 0;
     r_proof := PGood; r_adm := false; r_dir_target := Some []; r_params_ok := true |}.

Theorem refresh_form_identity_refuted :
  exists c s r actor B,
    resolve c (r_cred r) = IPCert actor /\ r_adm r = false /\ ~ In actor (automation_admins c) /\ ~ In actor (admin_users c) /\
    B <> actor /\
    refresh_honours_form c s r = (s, ROk, Some B) /\
    refresh_step c s r = (s, ROk, Some actor).
Proof.
  exists rf_cfg, [], (rf_req rf_role2), rf_role1, rf_role2.
  split; [reflexivity|]. split; [reflexivity|].
  split; [simpl; intros [H|[]]; discriminate|]. split; [simpl; intros [H|[]]; discriminate|].
  split; [discriminate|]. split; vm_compute; reflexivity.
Qed.

(* ---------------------------------------------------------------- the predicate on OBSERVATIONS of a refresh cell:
   given the response class, the CN of the returned certificate (None = no certificate in the body) and the rows
   afterwards: some row differs from the fixture (nobody may change a row through this endpoint), or a success that
   is not "the holder of the presented IP-restricted certificate obtained a certificate for its own CN" *)
Definition refresh_cell_violating (c : cfg) (us : list name) (s : store) (r : request) (obs : resp) (issued : option name) (s' : store) : bool :=
  negb (match changed us s s' with [] => true | _ => false end) ||
  (is_ok obs && match resolve c (r_cred r), issued with
                | IPCert u, Some b => negb (bs_eqb b u)
                | _, _ => true
                end).

Theorem refresh_cell_violating_false_iff c us s r obs issued s' :
  refresh_cell_violating c us s r obs issued s' = false <->
  ((forall v, In v us -> oprofile_eqb (find s v) (find s' v) = true) /\
   (obs = ROk -> exists actor, resolve c (r_cred r) = IPCert actor /\ issued = Some actor)).
Proof.
  unfold refresh_cell_violating.
  assert (Hch : forall v, In v (changed us s s') <-> In v us /\ oprofile_eqb (find s v) (find s' v) = false).
  { intros v. unfold changed. rewrite filter_In, negb_true_iff. tauto. }
  rewrite orb_false_iff, negb_false_iff. split.
  - intros [Hnil Hok]. split.
    + intros v Hv. destruct (oprofile_eqb (find s v) (find s' v)) eqn:E; [reflexivity|]. exfalso.
      assert (X : In v (changed us s s')) by (apply Hch; auto).
      destruct (changed us s s'); [exact X|discriminate].
    + intros ->. simpl in Hok.
      destruct (resolve c (r_cred r)) as [|u l|u|u|t l]; try discriminate.
      destruct issued as [b|]; [|discriminate]. apply negb_false_iff, bs_eqb_eq in Hok. subst b. exists u. auto.
  - intros [Hrows Hok]. split.
    + destruct (changed us s s') as [|x xs] eqn:C; [reflexivity|]. exfalso.
      assert (X : In x (x :: xs)) by now left. apply Hch in X. destruct X as [Hv Hd].
      rewrite (Hrows x Hv) in Hd. discriminate.
    + destruct obs; try reflexivity. destruct (Hok eq_refl) as (actor & Hc & Hi). rewrite Hc, Hi. simpl.
      rewrite bs_eqb_refl. reflexivity.
Qed.

(* reflexivity of the comparison used for rows *)
Lemma tokens_eqb_refl l : tokens_eqb l l = true.
Proof.
  induction l as [|[i t] l IH]; simpl; [reflexivity|].
  rewrite Z.eqb_refl, IH. unfold tok_eqb. rewrite eqb_reflx.
  destruct (tk_name t) as [n|a]; simpl; [rewrite N.eqb_refl|rewrite bs_eqb_refl]; reflexivity.
Qed.
Lemma profile_eqb_refl p : profile_eqb p p = true.
Proof. unfold profile_eqb. rewrite !tokens_eqb_refl, !eqb_reflx. reflexivity. Qed.

(* the model's own output is never flagged (on any universe of names) *)
Lemma refresh_model_not_violating c us s r :
  refresh_cell_violating c us s r (snd (fst (refresh_step c s r))) (snd (refresh_step c s r)) (fst (fst (refresh_step c s r))) = false.
Proof.
  apply refresh_cell_violating_false_iff. split.
  - intros v _. rewrite refresh_store. destruct (find s v) as [p|]; simpl; [|reflexivity].
    apply profile_eqb_refl.
  - intros Hok. destruct (refresh_identity_is_own c s r Hok) as (actor & Hc & _ & Hi & _). exists actor. auto.
Qed.
