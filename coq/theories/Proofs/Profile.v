(* C15, first clause: the content of a profile is stable under what gob does to it. *)
From Coq Require Import List NArith ZArith Bool Lia.
From KM Require Import Base.Bytes.
From KM Require Import Model.Profile.
From KM Require Import Model.Storage Proofs.Storage.
Import ListNotations.
Open Scope Z_scope.

(* ------------------------------------------------------------------ association lists *)
Section MapLemmas.
  Context {A : Type}.
  Implicit Types l : list (Z * A).

  Lemma sorted_tail a l : sorted (a :: l) -> sorted l.
  Proof. destruct l as [|b r]; simpl; tauto. Qed.

  Lemma ins_keep_head k v l : exists v', exists r, ins_keep k v l = (Z.min k (match l with [] => k | a :: _ => fst a end), v') :: r.
  Proof.
    destruct l as [|[k' v'] r]; simpl.
    - exists v, []. rewrite Z.min_id. reflexivity.
    - destruct (k <? k') eqn:E1.
      + apply Z.ltb_lt in E1. exists v, ((k', v') :: r). rewrite Z.min_l by lia. reflexivity.
      + apply Z.ltb_ge in E1. destruct (k =? k') eqn:E2.
        * exists v', r. rewrite Z.min_r by lia. reflexivity.
        * exists v', (ins_keep k v r). rewrite Z.min_r by lia. reflexivity.
  Qed.

  Lemma sorted_ins_keep k v l : sorted l -> sorted (ins_keep k v l).
  Proof.
    induction l as [|[k' v'] r IH]; intro S; [exact I|].
    simpl. destruct (k <? k') eqn:E1.
    - apply Z.ltb_lt in E1. simpl. split; [exact E1|exact S].
    - apply Z.ltb_ge in E1. destruct (k =? k') eqn:E2; [exact S|].
      apply Z.eqb_neq in E2. pose proof (IH (sorted_tail _ _ S)) as S'.
      destruct (ins_keep_head k v r) as (v2 & r2 & H). rewrite H in *.
      change (k' < Z.min k (match r with [] => k | a :: _ => fst a end) /\ sorted ((Z.min k (match r with [] => k | a :: _ => fst a end), v2) :: r2)).
      split; [|exact S'].
      destruct r as [|[k2 w2] r']; simpl in *; [lia|]. destruct S as [S1 _]. lia.
  Qed.

  Lemma norm_sorted l : sorted (norm l).
  Proof. induction l as [|[k v] r IH]; [exact I|]. simpl. apply sorted_ins_keep. exact IH. Qed.

  Lemma norm_of_sorted l : sorted l -> norm l = l.
  Proof.
    induction l as [|[k v] r IH]; intro S; [reflexivity|].
    simpl. rewrite (IH (sorted_tail _ _ S)).
    destruct r as [|[k2 v2] r']; [reflexivity|].
    simpl in S. destruct S as [S1 _]. simpl. apply Z.ltb_lt in S1. rewrite S1. reflexivity.
  Qed.

  Lemma norm_idem l : norm (norm l) = norm l.
  Proof. apply norm_of_sorted, norm_sorted. Qed.
End MapLemmas.

Lemma ins_keep_map {A B} (f : A -> B) k v l :
  ins_keep k (f v) (map_vals f l) = map_vals f (ins_keep k v l).
Proof.
  induction l as [|[k' v'] r IH]; [reflexivity|].
  simpl. destruct (k <? k'); [reflexivity|]. destruct (k =? k'); [reflexivity|].
  rewrite IH. reflexivity.
Qed.

Lemma norm_map {A B} (f : A -> B) l : norm (map_vals f l) = map_vals f (norm l).
Proof.
  induction l as [|[k v] r IH]; [reflexivity|].
  simpl. rewrite IH. apply ins_keep_map.
Qed.

Lemma map_vals_comp {A B C} (f : A -> B) (g : B -> C) l : map_vals g (map_vals f l) = map_vals (fun x => g (f x)) l.
Proof. unfold map_vals. rewrite map_map. reflexivity. Qed.

Lemma map_vals_ext {A B} (f g : A -> B) l : (forall x, f x = g x) -> map_vals f l = map_vals g l.
Proof. intro H. unfold map_vals. apply map_ext. intros [k v]. simpl. rewrite H. reflexivity. Qed.

(* norm (map c (norm (map w l))) = norm (map (c . w) l) *)
Lemma norm_map_norm_map {A} (c w : A -> A) l :
  norm (map_vals c (norm (map_vals w l))) = norm (map_vals (fun x => c (w x)) l).
Proof. rewrite <- norm_map, norm_idem, map_vals_comp. reflexivity. Qed.

Lemma cmap_wmap {A} (c w : A -> A) m : (forall x, c (w x) = c x) -> cmap c (wmap w m) = cmap c m.
Proof.
  intro H. destruct m as [l|]; [|reflexivity]. unfold wmap, cmap.
  rewrite norm_map_norm_map, (map_vals_ext _ c) by exact H. reflexivity.
Qed.

Lemma cmap_idem {A} (c : A -> A) m : (forall x, c (c x) = c x) -> cmap c (cmap c m) = cmap c m.
Proof.
  intro H. destruct m as [l|]; [|reflexivity]. unfold cmap at 2 3.
  destruct (norm (map_vals c l)) as [|a n] eqn:E; [reflexivity|].
  unfold cmap. rewrite <- E, norm_map_norm_map, (map_vals_ext _ c) by exact H. rewrite E. reflexivity.
Qed.

Lemma cmap_made {A} (c : A -> A) m : cmap c (made m) = cmap c m.
Proof. destruct m; reflexivity. Qed.

(* ------------------------------------------------------------------ byte strings, slices, pointers *)
Lemma cbytes_wbytes b : cbytes (wbytes b) = cbytes b.
Proof. destruct b as [[|x r]|]; reflexivity. Qed.

Lemma cbytes_idem b : cbytes (cbytes b) = cbytes b.
Proof. destruct b as [[|x r]|]; reflexivity. Qed.

Lemma clist_wlist {A} (c w : A -> A) l : (forall x, c (w x) = c x) -> clist c (wlist w l) = clist c l.
Proof.
  intro H. destruct l as [[|x r]|]; try reflexivity. simpl. rewrite H, map_map.
  f_equal. f_equal. apply map_ext. exact H.
Qed.

Lemma clist_idem {A} (c : A -> A) l : (forall x, c (c x) = c x) -> clist c (clist c l) = clist c l.
Proof. apply clist_wlist. Qed.

Lemma cptr_wptr {A} (c w : A -> A) p : (forall x, c (w x) = c x) -> cptr_list c (wptr_list w p) = cptr_list c p.
Proof.
  intro H. destruct p as [l|]; [|reflexivity]. unfold wptr_list, cptr_list.
  rewrite <- (clist_wlist c w l H).
  destruct (wlist w l) as [l'|] eqn:E; reflexivity.
Qed.

Lemma cptr_idem {A} (c : A -> A) p : (forall x, c (c x) = c x) -> cptr_list c (cptr_list c p) = cptr_list c p.
Proof.
  intro H. destruct p as [l|]; [|reflexivity]. unfold cptr_list at 2 3.
  destruct (clist c l) as [l'|] eqn:E; [|reflexivity].
  unfold cptr_list. rewrite <- E, clist_idem by exact H. rewrite E. reflexivity.
Qed.

(* ------------------------------------------------------------------ the records *)
Lemma canon_wire_u2f e : canon_u2f (wire_u2f e) = canon_u2f e.
Proof. destruct e. unfold canon_u2f, wire_u2f. simpl. rewrite cbytes_wbytes. reflexivity. Qed.
Lemma canon_u2f_idem e : canon_u2f (canon_u2f e) = canon_u2f e.
Proof. destruct e. unfold canon_u2f. simpl. rewrite cbytes_idem. reflexivity. Qed.

Lemma canon_wire_wa e : canon_wa (wire_wa e) = canon_wa e.
Proof. destruct e. unfold canon_wa, wire_wa. simpl. rewrite !cbytes_wbytes. reflexivity. Qed.
Lemma canon_wa_idem e : canon_wa (canon_wa e) = canon_wa e.
Proof. destruct e. unfold canon_wa. simpl. rewrite !cbytes_idem. reflexivity. Qed.

Lemma canon_wire_totp e : canon_totp (wire_totp e) = canon_totp e.
Proof. destruct e. unfold canon_totp, wire_totp. simpl. rewrite clist_wlist by apply cbytes_wbytes. reflexivity. Qed.
Lemma canon_totp_idem e : canon_totp (canon_totp e) = canon_totp e.
Proof. destruct e. unfold canon_totp. simpl. rewrite clist_idem by apply cbytes_idem. reflexivity. Qed.

Lemma canon_wire_boot b : canon_boot (wire_boot b) = canon_boot b.
Proof. destruct b. unfold canon_boot, wire_boot. simpl. rewrite cbytes_wbytes. reflexivity. Qed.
Lemma canon_boot_idem b : canon_boot (canon_boot b) = canon_boot b.
Proof. destruct b. unfold canon_boot. simpl. rewrite cbytes_idem. reflexivity. Qed.

Lemma canon_wire_chal c : canon_chal (wire_chal c) = canon_chal c.
Proof.
  destruct c. unfold canon_chal, wire_chal. simpl. rewrite cbytes_wbytes.
  rewrite clist_wlist by reflexivity. reflexivity.
Qed.
Lemma canon_chal_idem c : canon_chal (canon_chal c) = canon_chal c.
Proof. destruct c. unfold canon_chal. simpl. rewrite cbytes_idem, clist_idem by reflexivity. reflexivity. Qed.

Lemma canon_wire_sess s : canon_sess (wire_sess s) = canon_sess s.
Proof.
  destruct s. unfold canon_sess, wire_sess. simpl. rewrite cbytes_wbytes.
  rewrite clist_wlist by apply cbytes_wbytes. reflexivity.
Qed.
Lemma canon_sess_idem s : canon_sess (canon_sess s) = canon_sess s.
Proof. destruct s. unfold canon_sess. simpl. rewrite !cbytes_idem, clist_idem by apply cbytes_idem. reflexivity. Qed.

Lemma option_map_comp {A} (c w : A -> A) o : (forall x, c (w x) = c x) -> option_map c (option_map w o) = option_map c o.
Proof. intro H. destruct o; simpl; [rewrite H|]; reflexivity. Qed.

(* ------------------------------------------------------------------ the profile *)
Lemma canon_gob_wire p : canon (gob_wire p) = canon p.
Proof.
  destruct p. unfold canon, gob_wire. simpl.
  rewrite !cmap_wmap by (first [apply canon_wire_u2f | apply canon_wire_totp | apply canon_wire_wa]).
  rewrite cptr_wptr by apply cbytes_wbytes.
  rewrite canon_wire_boot.
  rewrite !option_map_comp by (first [apply canon_wire_chal | apply canon_wire_sess]).
  reflexivity.
Qed.

Lemma canon_load_defaults p : canon (load_defaults p) = canon p.
Proof. destruct p. unfold canon, load_defaults. simpl. rewrite !cmap_made. reflexivity. Qed.

Theorem profile_roundtrip p : canon (gob_roundtrip p) = canon p.
Proof. unfold gob_roundtrip. rewrite canon_load_defaults. apply canon_gob_wire. Qed.

Theorem canon_idempotent p : canon (canon p) = canon p.
Proof.
  destruct p. unfold canon. simpl.
  rewrite !cmap_idem by (first [apply canon_u2f_idem | apply canon_totp_idem | apply canon_wa_idem]).
  rewrite cptr_idem by apply cbytes_idem.
  rewrite canon_boot_idem.
  rewrite !option_map_comp by (first [apply canon_chal_idem | apply canon_sess_idem]).
  reflexivity.
Qed.

(* what was loaded twice is what was loaded once: a load / save / load cycle changes nothing more *)
Theorem roundtrip_twice p : canon (gob_roundtrip (gob_roundtrip p)) = canon (gob_roundtrip p).
Proof. apply profile_roundtrip. Qed.

(* a later assignment to a key replaces the earlier one *)
Lemma norm_overwrite {A} (k : Z) (v1 v2 : A) l : norm ((k, v1) :: (k, v2) :: l) = norm ((k, v2) :: l).
Proof.
  simpl. generalize (norm l). clear l. induction l as [|[k' v'] r IH]; simpl.
  - rewrite Z.ltb_irrefl, Z.eqb_refl. reflexivity.
  - destruct (k <? k') eqn:E1; simpl.
    + rewrite Z.ltb_irrefl, Z.eqb_refl. reflexivity.
    + destruct (k =? k') eqn:E2; simpl; rewrite E1, E2; [reflexivity|]. rewrite IH. reflexivity.
Qed.

(* ------------------------------------------------------------------ on top of the storage model
   Model/Storage.v stores a blob (a number) per user.  For ANY pair of functions enc / dec between
   profiles and blobs that carry the content as gob does (dec (enc p) = Some (gob_roundtrip p): the
   trusted library, compared with the model on every run), a profile saved with the primary up is loaded
   back from the primary as gob_roundtrip p. *)
Definition loaded (dec : N -> option profile) (o : out) : option profile :=
  match o with OLoad true _ b => dec b | _ => None end.

Theorem profile_save_load (enc : profile -> N) (dec : N -> option profile) :
  (forall p, dec (enc p) = Some (gob_roundtrip p)) ->
  forall s u p, pmode s = Up ->
  loaded dec (snd (step (fst (step s (Save u (enc p)))) (Load u))) = Some (gob_roundtrip p) /\
  (exists q, loaded dec (snd (step (fst (step s (Save u (enc p)))) (Load u))) = Some q /\ canon q = canon p).
Proof.
  intros H s u p M. destruct (roundtrip s u (enc p) M) as [R _]. rewrite R. simpl. split; [apply H|].
  exists (gob_roundtrip p). split; [apply H|apply profile_roundtrip].
Qed.

(* ------------------------------------------------------------------ what "exactly the content" does NOT say *)
Definition ptr_to_empty_pending : profile :=
  mk_profile (Some []) None (Some (Some [])) 0 (Some []) (mk_boot 0 None) false None 0 [] [] None.

Definition zero_length_hash : profile :=
  mk_profile (Some []) None None 0 (Some []) (mk_boot 5 (Some [])) false (Some []) 0 [] [] None.

Definition unordered_map : profile :=
  mk_profile (Some [(7, mk_u2f true 1 [] 0 [] None); (3, mk_u2f false 2 [] 0 [] None); (7, mk_u2f false 9 [] 0 [] None)])
             None None 0 None (mk_boot 0 None) false None 0 [] [] None.

Definition ptr_to_zero_challenge : profile :=
  mk_profile None (Some (mk_chal None 0 [] None)) None 0 None (mk_boot 0 None) false None 0 [] [] None.

Theorem profile_identity_refuted :
  (* a pointer to an empty pending-secret list comes back as a nil pointer *)
  PendingTOTPSecret ptr_to_empty_pending = Some (Some []) /\
  PendingTOTPSecret (gob_roundtrip ptr_to_empty_pending) = None /\
  gob_roundtrip ptr_to_empty_pending <> ptr_to_empty_pending /\
  (* a zero-length hash comes back nil; an empty WebauthnData map comes back empty *)
  b_hash (BootstrapOTP (gob_roundtrip zero_length_hash)) = None /\
  WebauthnData (gob_roundtrip zero_length_hash) = Some [] /\
  gob_roundtrip zero_length_hash <> zero_length_hash /\
  (* nil U2fAuthData / TOTPAuthData maps come back empty (LoadUserProfile's destination), a nil
     WebauthnData stays nil *)
  U2fAuthData (gob_roundtrip empty_profile) = Some [] /\ WebauthnData (gob_roundtrip empty_profile) = None /\
  gob_roundtrip empty_profile <> empty_profile /\
  (* the listing order of a map and overwritten entries are not content *)
  U2fAuthData (gob_roundtrip unordered_map) = Some [(3, mk_u2f false 2 [] 0 [] None); (7, mk_u2f false 9 [] 0 [] None)] /\
  (* ... whereas a pointer to a zero STRUCT does come back as a pointer, and the canonical form keeps it apart
     from a nil pointer *)
  RegistrationChallenge (gob_roundtrip ptr_to_zero_challenge) = Some (mk_chal None 0 [] None) /\
  canon ptr_to_zero_challenge <> canon empty_profile /\
  (* and in all these cases the canonical content is the same before and after *)
  forallb (fun p => profile_eqb (canon (gob_roundtrip p)) (canon p))
          [ptr_to_empty_pending; zero_length_hash; empty_profile; unordered_map; ptr_to_zero_challenge] = true.
Proof.
  repeat split; try reflexivity; try (intro H; discriminate H).
Qed.

(* a codec that drops the write (the load returns what was there before) is told apart by the content *)
Example pcase_detects :
  pcase_ok (unordered_map, gob_roundtrip unordered_map) = true /\
  pcase_ok (unordered_map, gob_roundtrip empty_profile) = false /\
  pcase_content_kept (unordered_map, gob_roundtrip empty_profile) = false /\
  pcase_ok (ptr_to_empty_pending, empty_profile) = true.
Proof. vm_compute. repeat split; reflexivity. Qed.

Lemma profile_eqb_eq a b : profile_eqb a b = true <-> a = b.
Proof. unfold profile_eqb. destruct (profile_eq_dec a b); split; intro H; try reflexivity; try assumption; try discriminate; contradiction. Qed.

(* the two per-pair checks of the tie are one and the same (this is profile_roundtrip again) *)
Theorem pcase_ok_is_content_kept c : pcase_ok c = pcase_content_kept c.
Proof. unfold pcase_ok, pcase_content_kept. rewrite profile_roundtrip. reflexivity. Qed.
