(* C16 — a request that only reads the profile store leaves no trace: whatever the schedule, the store,
   the maps, the mutexes and every other request are exactly what they are in the run without its steps *)
From KM Require Import Base.Bytes Base.Tactics Model.Conc Proofs.Conc.
Open Scope N_scope.

Definition erase (r : nat) (s : list nat) : list nat := filter (fun i => negb (Nat.eqb i r)) s.

Definition sim (r : nat) (w1 w2 : world) : Prop :=
  store w1 = store w2 /\ mem w1 = mem w2 /\ owner w1 = owner w2 /\ saved w1 = saved w2 /\
  (forall j, j <> r -> nth_error (threads w1) j = nth_error (threads w2) j) /\
  (forall t, nth_error (threads w1) r = Some t -> reader (prog t) = true /\ held t = None).

Lemma reader_tail a p : reader (a :: p) = true -> is_local a = true /\ reader p = true.
Proof. unfold reader; simpl. intros H. apply andb_true_iff in H. exact H. Qed.

(* a step of the reader itself changes nothing but the reader *)
Lemma sim_step_reader r w1 w2 : sim r w1 w2 -> sim r (step w1 r) w2.
Proof.
  intros S. pose proof S as (Hs & Hm & Ho & Hv & Hj & Hr).
  unfold step.
  destruct (nth_error (threads w1) r) as [t|] eqn:Er; [|exact S].
  destruct (Hr t eq_refl) as [Hrd Hh].
  destruct (prog t) as [|a p] eqn:Ep; [exact S|].
  destruct (reader_tail _ _ Hrd) as [Hl Hp].
  assert (K : forall t', reader (prog t') = true -> held t' = None ->
              sim r (set_threads w1 (upd (threads w1) r t')) w2).
  { intros t' H1 H2. unfold sim, set_threads; simpl.
    split; [exact Hs|]. split; [exact Hm|]. split; [exact Ho|]. split; [exact Hv|]. split.
    - intros j Hne. rewrite nth_error_upd_other by congruence. apply Hj; exact Hne.
    - intros t0 H. rewrite (nth_error_upd_same _ _ _ _ Er) in H. inversion H; subst. split; assumption. }
  destruct a; simpl in Hl; try discriminate.
  - (* Load *) apply K; simpl; auto.
  - (* Check *) destruct (c (loaded_opt t)); apply K; simpl; auto.
    rewrite Hh; reflexivity.
  - (* Soft *) destruct (c (loaded_opt t)); apply K; simpl; auto.
  - (* Respond *) apply K; destruct (alive t); simpl; auto.
Qed.

(* a step of another request is the same step in both worlds *)
Lemma sim_step_other r i w1 w2 : i <> r -> sim r w1 w2 -> sim r (step w1 i) (step w2 i).
Proof.
  intros Hne S. pose proof S as (Hs & Hm & Ho & Hv & Hj & Hr).
  assert (Hi : nth_error (threads w1) i = nth_error (threads w2) i) by (apply Hj; exact Hne).
  assert (T : forall x j, j <> r -> nth_error (upd (threads w1) i x) j = nth_error (upd (threads w2) i x) j).
  { intros x j Hjr. destruct (Nat.eq_dec i j) as [<-|Nij].
    - destruct (nth_error (threads w1) i) as [t0|] eqn:E1.
      + rewrite (nth_error_upd_same _ _ _ _ E1). symmetry in Hi. rewrite (nth_error_upd_same _ _ _ _ Hi). reflexivity.
      + assert (L1 : nth_error (upd (threads w1) i x) i = None).
        { apply nth_error_None. rewrite length_upd. apply nth_error_None. exact E1. }
        assert (L2 : nth_error (upd (threads w2) i x) i = None).
        { apply nth_error_None. rewrite length_upd. apply nth_error_None. symmetry; exact Hi. }
        rewrite L1, L2; reflexivity.
    - rewrite !nth_error_upd_other by exact Nij. apply Hj; exact Hjr. }
  assert (Rr : forall x t, nth_error (upd (threads w1) i x) r = Some t -> reader (prog t) = true /\ held t = None).
  { intros x t H. rewrite nth_error_upd_other in H by exact Hne. apply Hr; exact H. }
  assert (K : forall s m o v x,
            sim r {| store := s; mem := m; owner := o; threads := upd (threads w1) i x; saved := v |}
                  {| store := s; mem := m; owner := o; threads := upd (threads w2) i x; saved := v |}).
  { intros. unfold sim; simpl. split; [reflexivity|]. split; [reflexivity|]. split; [reflexivity|]. split; [reflexivity|].
    split; [intros j Hjr; apply T; exact Hjr | intros t0 H; eapply Rr; exact H]. }
  unfold step. rewrite <- Hi.
  destruct (nth_error (threads w1) i) as [t|] eqn:Ei; [|exact S].
  destruct (prog t) as [|a p] eqn:Ep; [exact S|].
  destruct a; unfold set_threads; rewrite <- ?Hs, <- ?Hm, <- ?Ho, <- ?Hv;
    repeat match goal with |- context [if ?c then _ else _] => destruct c end;
    repeat match goal with |- context [match owner_of ?l ?o with _ => _ end] => destruct (owner_of l o) end;
    try apply K; try exact S.
Qed.

Lemma sim_run r : forall s w1 w2, sim r w1 w2 -> sim r (run w1 s) (run w2 (erase r s)).
Proof.
  induction s as [|i s IH]; intros w1 w2 H; [exact H|].
  unfold run, erase in *; simpl.
  destruct (Nat.eqb i r) eqn:E; simpl.
  - apply Nat.eqb_eq in E; subst i. apply IH. apply sim_step_reader; exact H.
  - apply Nat.eqb_neq in E. apply IH. apply sim_step_other; assumption.
Qed.

Lemma reader_leaves_no_trace w r t s :
  nth_error (threads w) r = Some t -> reader (prog t) = true -> held t = None ->
  let w1 := run w s in let w2 := run w (erase r s) in
  store w1 = store w2 /\ mem w1 = mem w2 /\ owner w1 = owner w2 /\ saved w1 = saved w2 /\
  forall j, j <> r -> nth_error (threads w1) j = nth_error (threads w2) j.
Proof.
  intros Er Hrd Hh w1 w2.
  assert (S0 : sim r w w).
  { unfold sim. split; [reflexivity|]. split; [reflexivity|]. split; [reflexivity|]. split; [reflexivity|].
    split; [reflexivity|]. intros t' H. rewrite Er in H. inversion H; subst. split; assumption. }
  destruct (sim_run r s w w S0) as (A & B & C & D & E & _).
  split; [exact A|]. split; [exact B|]. split; [exact C|]. split; [exact D|]. exact E.
Qed.

(* a load returns the value the store holds at the instant of its single step, and touches nothing else *)
Lemma load_linearizable w i t u p :
  nth_error (threads w) i = Some t -> prog t = Load u :: p ->
  let w' := step w i in
  store w' = store w /\ mem w' = mem w /\ owner w' = owner w /\ saved w' = saved w /\
  (forall j, j <> i -> nth_error (threads w') j = nth_error (threads w) j) /\
  exists t', nth_error (threads w') i = Some t' /\ reg t' = Some (u, get u (store w)) /\ prog t' = p /\
             resp t' = resp t /\ held t' = held t /\ mreg t' = mreg t /\ alive t' = alive t.
Proof.
  intros Ei Ep w'. subst w'. unfold step. rewrite Ei, Ep. simpl. repeat split; auto.
  - intros j Hne. apply nth_error_upd_other. congruence.
  - eexists. split; [apply (nth_error_upd_same _ _ _ _ Ei)|]. simpl. repeat split; reflexivity.
Qed.

(* the readers of the model *)
Lemma view_login_readers u : reader (handler (HView u)) = true /\ reader (handler (HLogin u)) = true.
Proof. split; reflexivity. Qed.

(* NOT the code: a reader that keeps the row it fetched where later requests answer from (a memo filled at
   the end of the load).  For those later requests the kept row IS the profile: modelled as the reader
   writing the fetched row back when it returns. *)
Definition view_planting (u : N) : list act := [Load u; Save u (fun p => p); Respond 200].

Definition plant_w0 : world :=
  init_world ex_db [] [view_planting 1; handler (HTokDisable 1 1); handler (HTokRename 1 2 22)].

(* the reader fetches, the disable runs from start to acknowledgement, the reader returns; afterwards a rename
   of the OTHER token: everything acknowledged, token 1 enabled again - no sequential order gives that *)
Lemma planting_reader_undoes_disable :
  exists sched, let w := run plant_w0 sched in
    map resp (threads w) = [Some 200; Some 200; Some 200] /\
    get 1 (store w) = Some {| toks := [tk 1 11; {| t_idx := 2; t_enabled := true; t_name := 22 |}]; botp := None; last_totp := 0 |} /\
    serializable_outcome [1; 2] plant_w0 w = false /\
    reader (view_planting 1) = false.
Proof. exists [0; 1; 1; 1; 1; 0; 0; 2; 2; 2; 2]%nat. vm_compute. repeat split; reflexivity. Qed.
