(* C19 — proofs about Model/ClientEnv.v: the installation touches only the agent SSH_AUTH_SOCK names *)
From Coq Require Import String.
From KM Require Import Base.Bytes Base.Tactics Model.Client Proofs.Client Model.ClientEnv.

Lemma lookup_wupdate p nd w q :
  lookup q (wupdate p nd w) =
  if bs_eqb p q then match lookup q w with Some _ => Some nd | None => None end else lookup q w.
Proof.
  induction w as [|[r x] t IH]; simpl.
  - destruct (bs_eqb p q); reflexivity.
  - destruct (bs_eqb r p) eqn:Erp; simpl.
    + apply bs_eqb_eq in Erp. subst r. destruct (bs_eqb p q) eqn:Epq; [reflexivity|exact IH].
    + destruct (bs_eqb r q) eqn:Erq.
      * apply bs_eqb_eq in Erq. subst r. destruct (bs_eqb p q) eqn:Epq; [|reflexivity].
        apply bs_eqb_eq in Epq. subst q. rewrite bs_eqb_refl in Erp. discriminate.
      * exact IH.
Qed.

Lemma lookup_wupdate_other p nd w q : p <> q -> lookup q (wupdate p nd w) = lookup q w.
Proof. intro N. rewrite lookup_wupdate. apply bs_eqb_neq in N. rewrite N. reflexivity. Qed.

Lemma connect_agent_of e w p a : connect e w = Some (CAgent p a) -> agent_of e = Some p /\ lookup p w = Some (NAgent a).
Proof.
  unfold connect. destruct (agent_of e) as [q|]; [|discriminate].
  destruct (lookup q w) as [[b| | | |]|] eqn:L; try discriminate.
  intro H. inversion H; subst. split; [reflexivity|exact L].
Qed.

(* every path that SSH_AUTH_SOCK does not name keeps what it had: for every environment and every world *)
Lemma world_upsert_frame e n w q : agent_of e <> Some q -> lookup q (fst (world_upsert e n w)) = lookup q w.
Proof.
  intro N. unfold world_upsert. destruct (connect e w) as [[p a|]|] eqn:C; simpl; try reflexivity.
  apply connect_agent_of in C. destruct C as [A _]. apply lookup_wupdate_other. intro E. subst q. contradiction.
Qed.

(* the agent SSH_AUTH_SOCK names receives exactly the upsert of Model/Client.v *)
Lemma world_upsert_designated e n w p a : agent_of e = Some p -> lookup p w = Some (NAgent a) ->
  lookup p (fst (world_upsert e n w)) = Some (NAgent (upsert n a)) /\ snd (world_upsert e n w) = true.
Proof.
  intros A L. unfold world_upsert, connect. rewrite A, L. simpl. split; [|reflexivity].
  rewrite lookup_wupdate, bs_eqb_refl, L. reflexivity.
Qed.

(* no usable agent behind SSH_AUTH_SOCK (unset, nothing there, nobody listening, not a socket, not an agent):
   an error, and the world is what it was *)
Lemma world_upsert_unusable e n w : usable e w = false -> world_upsert e n w = (w, false).
Proof. unfold usable, world_upsert. destruct (connect e w) as [[p a|]|]; [discriminate|reflexivity|reflexivity]. Qed.

Lemma agent_of_none_unusable e w : agent_of e = None -> usable e w = false.
Proof. unfold usable, connect. intros ->. reflexivity. Qed.

Lemma world_upsert_none e n w : agent_of e = None -> world_upsert e n w = (w, false).
Proof. intro A. apply world_upsert_unusable, agent_of_none_unusable, A. Qed.

Lemma world_upsert_usable e n w : usable e w = true -> snd (world_upsert e n w) = true.
Proof. unfold usable, world_upsert. destruct (connect e w) as [[p a|]|]; [reflexivity|discriminate|discriminate]. Qed.

(* the files of install_ssh *)
Lemma install_ssh_files suffix user s k sk : In sk (install_ssh false suffix user s k) ->
  match sk with
  | SAgent _ _ _ => False
  | SFile _ mode content => (exists a, In a content /\ is_priv a = true) -> mode = 384%N
  end.
Proof.
  simpl. intros [<-|[<-|[]]]; [intros _; reflexivity|].
  intros (a & [<-|[]] & P). discriminate.
Qed.

Lemma install_ssh_agent suffix user s k sk : In sk (install_ssh true suffix user s k) ->
  match sk with SAgent _ _ _ => True | SFile _ _ _ => False end.
Proof. simpl. intros [<-|[]]. exact I. Qed.

(* the client's installation of one SSH key, for every environment and every world *)
Theorem install_only_designated e w suffix user s k n :
  let r := install_ssh_env e w suffix user s k n in
  (forall q, agent_of e <> Some q -> lookup q (fst r) = lookup q w) /\
  (usable e w = false ->
     fst r = w /\
     forall sk, In sk (snd r) ->
       match sk with
       | SAgent _ _ _ => False
       | SFile _ mode content => (exists a, In a content /\ is_priv a = true) -> mode = 384%N
       end) /\
  (usable e w = true ->
     forall sk, In sk (snd r) -> match sk with SAgent _ _ _ => True | SFile _ _ _ => False end).
Proof.
  intro r. subst r. unfold install_ssh_env. split; [|split].
  - intros q N. destruct (snd (world_upsert e n w)) eqn:S1; simpl.
    + apply world_upsert_frame, N.
    + rewrite world_upsert_frame by exact N. apply world_upsert_frame, N.
  - intro U. rewrite (world_upsert_unusable e n w U). simpl. rewrite (world_upsert_unusable e n w U). simpl.
    split; [reflexivity|]. intros sk H. apply (install_ssh_files suffix user s k sk H).
  - intro U. rewrite (world_upsert_usable e n w U). rewrite (world_upsert_usable e n w U).
    intros sk H. apply (install_ssh_agent suffix user s k sk H).
Qed.

(* discovery refuted: with SSH_AUTH_SOCK unset an agent under $TMPDIR/ssh-*/ receives the identity *)
Definition ex_env : env := mkEnv None [116] [104] [120].                   (* TMPDIR = "t" *)
Definition ex_decoy : bs := [116; 47; 115; 115; 104; 45; 65; 47; 97].      (* "t/ssh-A/a" *)
Lemma discovery_reaches_undesignated :
  agent_of ex_env = None /\
  lookup ex_decoy (fst (world_upsert_discover ex_env ex_new [(ex_decoy, NAgent [])])) <> lookup ex_decoy [(ex_decoy, NAgent [])].
Proof. split; [reflexivity|]. vm_compute. discriminate. Qed.
