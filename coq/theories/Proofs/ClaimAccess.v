From Coq Require Import ZArith NArith List Bool.
From KM Require Import Base.Bytes Base.Tactics Model.ClaimAccess.
Import ListNotations.
Local Open Scope Z_scope.

Lemma get_auth_info_total issuer kind now payload : get_auth_info issuer kind now payload <> Panic.
Proof.
  unfold get_auth_info. destruct (dec_authclaims payload) as [c|]; [|discriminate].
  destruct (c_aud c) as [|a0 r] eqn:A; cbn [length index0].
  - rewrite orb_true_r. discriminate.
  - destruct (negb (bs_eqb (c_iss c) issuer) || negb (bs_eqb (c_tt c) kind) || (S (length r) <? 1)%nat); [discriminate|].
    destruct (negb (bs_eqb a0 issuer) || (now <? c_nbf c)); discriminate.
Qed.

Lemma get_auth_info_ok issuer kind now payload u l e i :
  get_auth_info issuer kind now payload = Ok (u, l, e, i) ->
  exists c, dec_authclaims payload = Some c /\ c_iss c = issuer /\ c_tt c = kind /\
            (exists r, c_aud c = issuer :: r) /\ c_nbf c <= now /\ u = c_sub c /\ l = c_level c /\ e = c_exp c /\ i = c_iat c.
Proof.
  unfold get_auth_info. destruct (dec_authclaims payload) as [c|]; [|discriminate].
  destruct (bs_eqb (c_iss c) issuer) eqn:I; cbn [negb orb]; [|discriminate].
  destruct (bs_eqb (c_tt c) kind) eqn:K; cbn [negb orb]; [|discriminate].
  destruct (c_aud c) as [|a0 r] eqn:A; cbn [length index0]; [discriminate|].
  destruct (S (length r) <? 1)%nat; [discriminate|].
  destruct (bs_eqb a0 issuer) eqn:A0; cbn [negb orb]; [|discriminate].
  destruct (now <? c_nbf c) eqn:N; [discriminate|].
  intros H. inversion H; subst. exists c.
  apply bs_eqb_eq in I, K, A0. apply Z.ltb_ge in N. subst a0.
  repeat split; auto. exists r. exact A.
Qed.

Lemma get_auth_info_unguarded_panics : exists issuer kind now payload, get_auth_info_unguarded issuer kind now payload = Panic.
Proof. exists [], [], 0, (JObj []). vm_compute. reflexivity. Qed.

Lemma check_typ_checked_total header : check_typ_checked header <> Panic.
Proof. unfold check_typ_checked. destruct (jfield s_typ header) as [v|]; [|discriminate]. destruct v; discriminate. Qed.

Lemma check_typ_unchecked_panics : exists header, check_typ_unchecked header = Panic.
Proof. exists [(s_typ, JNum true 7)]. vm_compute. reflexivity. Qed.
