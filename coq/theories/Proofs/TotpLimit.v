(* C14 — proofs about the per-user one-time-code throttle *)
From Coq Require Import List ZArith Bool Lia.
From KM Require Import Base.Tactics Model.TotpLimit.
Import ListNotations.
Open Scope Z_scope.

Section Proofs.
Variable k : consts.
Variable esc : bool.

Definition passes (o : outcome) : bool := match o with RefusedSpacing => false | _ => true end.

Lemma evaluated_passes o : evaluated o = true -> passes o = true.
Proof. destruct o; simpl; auto. Qed.

(* one attempt: if it gets past the spacing test it is at least min_secs after the previous one
   that did, and it becomes the new reference; otherwise the entry is untouched *)
Lemma attempt_spacing s t v :
  let (s', o) := attempt k esc s t v in
  (passes o = true -> last_check s + min_secs k * SEC <= t /\ last_check s' = t) /\
  (passes o = false -> s' = s).
Proof.
  unfold attempt. destruct (t <? last_check s + min_secs k * SEC) eqn:E.
  - split; [discriminate|reflexivity].
  - apply Z.ltb_ge in E. cbn [lockout last_check].
    destruct (t <? lockout s); [split; [auto|discriminate]|].
    destruct v; (split; [auto|discriminate]).
Qed.

(* every attempt of a run that gets past the spacing test is >= lc + min_secs, for any lc that
   is at most the entry's reference time *)
Lemma run_all_after : forall ops s lc, 0 <= min_secs k -> lc <= last_check s ->
  forall i t v o, nth_error ops i = Some (t, v) -> nth_error (snd (run k esc s ops)) i = Some o ->
  passes o = true -> lc + min_secs k * SEC <= t.
Proof.
  induction ops as [|[t0 v0] r IH]; intros s lc Hk Hlc i t v o Hi Ho Hp.
  - destruct i; discriminate.
  - cbn [run] in Ho. pose proof (attempt_spacing s t0 v0) as A.
    destruct (attempt k esc s t0 v0) as [s1 o1]. destruct (run k esc s1 r) as [s2 os] eqn:R.
    cbn [snd] in Ho. destruct A as [A1 A2]. destruct i as [|i]; simpl in Hi, Ho.
    + inversion Hi; inversion Ho; subst. destruct (A1 Hp) as [A _]. lia.
    + assert (Hlc1 : lc <= last_check s1).
      { destruct (passes o1) eqn:P; [destruct (A1 eq_refl) as [A B]; unfold SEC in *; nia|rewrite (A2 eq_refl); exact Hlc]. }
      apply (IH s1 lc Hk Hlc1 i t v o Hi); [|exact Hp]. rewrite R. exact Ho.
Qed.

(* any two attempts that were evaluated (or got as far as the lock-out test) are at least
   min_secs apart — whatever the arrival times, concurrent or not *)
Theorem spacing : forall ops s, 0 <= min_secs k ->
  forall i j ti vi oi tj vj oj, (i < j)%nat ->
  nth_error ops i = Some (ti, vi) -> nth_error (snd (run k esc s ops)) i = Some oi ->
  nth_error ops j = Some (tj, vj) -> nth_error (snd (run k esc s ops)) j = Some oj ->
  passes oi = true -> passes oj = true -> ti + min_secs k * SEC <= tj.
Proof.
  induction ops as [|[t0 v0] r IH]; intros s Hk i j ti vi oi tj vj oj Hij Hi Hoi Hj Hoj Pi Pj.
  - destruct i; discriminate.
  - cbn [run] in Hoi, Hoj. pose proof (attempt_spacing s t0 v0) as A.
    destruct (attempt k esc s t0 v0) as [s1 o1]. destruct (run k esc s1 r) as [s2 os] eqn:R.
    cbn [snd] in Hoi, Hoj. destruct j as [|j]; [lia|]. simpl in Hj, Hoj.
    destruct i as [|i]; simpl in Hi, Hoi.
    + inversion Hi; inversion Hoi; subst. destruct A as [A1 _]. destruct (A1 Pi) as [_ B].
      apply (run_all_after r s1 ti Hk ltac:(lia) j tj vj oj Hj); [|exact Pj]. rewrite R. exact Hoj.
    + apply (IH s1 Hk i j ti vi oi tj vj oj); try assumption; try lia; rewrite R; assumption.
Qed.

(* ---- lock-out ---- *)

(* a failure that brings the consecutive-failure count to a multiple of `every` locks
   verification until (count / every) hours later *)
Lemma fail_locks s t v s' :
  esc = true -> 0 < every k ->
  attempt k esc s t v = (s', EvalFail) ->
  last_fail s' = t /\
  (fail_count s' mod every k = 0 -> lockout s' = t + (fail_count s' / every k) * HOUR).
Proof.
  intros He Hev. unfold attempt.
  destruct (t <? last_check s + min_secs k * SEC); [intros H; inversion H|].
  cbn [lockout last_fail fail_count].
  destruct (t <? lockout s); [intros H; inversion H|].
  destruct v; intros H; inversion H as [[H1 ]]; clear H. cbn [last_fail fail_count lockout].
  split; [reflexivity|]. intros Hm. rewrite He. cbn [andb].
  apply Z.eqb_eq in Hm. rewrite Hm. reflexivity.
Qed.

(* while the lock-out lasts nothing is evaluated and the counters do not move *)
Lemma locked_attempt s t v :
  t < lockout s ->
  let (s', o) := attempt k esc s t v in
  evaluated o = false /\ lockout s' = lockout s /\ fail_count s' = fail_count s /\ last_fail s' = last_fail s.
Proof.
  intros Hl. unfold attempt. destruct (t <? last_check s + min_secs k * SEC); [simpl; auto|].
  cbn [lockout]. replace (t <? lockout s) with true by (symmetry; apply Z.ltb_lt; exact Hl).
  simpl. auto.
Qed.

Lemma locked_run : forall ops s,
  (forall t v, In (t, v) ops -> t < lockout s) ->
  Forall (fun o => evaluated o = false) (snd (run k esc s ops)) /\ lockout (fst (run k esc s ops)) = lockout s.
Proof.
  induction ops as [|[t v] r IH]; intros s H; [simpl; auto|].
  cbn [run]. pose proof (locked_attempt s t v (H t v (or_introl eq_refl))) as L.
  destruct (attempt k esc s t v) as [s1 o]. destruct L as [L1 [L2 _]].
  assert (H1 : forall t' v', In (t', v') r -> t' < lockout s1).
  { intros t' v' Hin. rewrite L2. apply (H t' v'). right. exact Hin. }
  specialize (IH s1 H1). destruct (run k esc s1 r) as [s2 os]. cbn [fst snd] in *.
  destruct IH as [I1 I2]. split; [constructor; assumption|]. rewrite I2. exact L2.
Qed.

(* the count really is the number of consecutive failures: a failure adds one (or starts again
   at one after the quiet period), an accepted code clears it, nothing else changes it *)
Lemma count_step s t v :
  let (s', o) := attempt k esc s t v in
  match o with
  | EvalFail => fail_count s' = (if last_fail s + reset_hours k * HOUR <? t then 0 else fail_count s) + 1
  | EvalOk => fail_count s' = 0
  | _ => fail_count s' = fail_count s
  end.
Proof.
  unfold attempt. destruct (t <? last_check s + min_secs k * SEC); [reflexivity|].
  cbn [lockout last_fail fail_count]. destruct (t <? lockout s); [reflexivity|].
  destruct v; reflexivity.
Qed.

End Proofs.

(* the lock-out grows with the number of failures: k-th lock lasts k hours *)
Lemma lock_duration_increasing a b : 0 <= a < b -> a * HOUR < b * HOUR.
Proof. unfold HOUR, SEC. lia. Qed.

(* after the failure that makes the count 5k (k >= 1), every attempt made before t + k hours —
   whatever is tried, however often — is refused without being evaluated *)
Theorem lockout_holds k s t v s' n ops :
  0 < every k -> 0 < n ->
  attempt k true s t v = (s', EvalFail) -> fail_count s' = every k * n ->
  (forall t2 v2, In (t2, v2) ops -> t2 < t + n * HOUR) ->
  lockout s' = t + n * HOUR /\ Forall (fun o => evaluated o = false) (snd (run k true s' ops)).
Proof.
  intros Hev Hn Ha Hfc Hops.
  destruct (fail_locks k true s t v s' eq_refl Hev Ha) as [_ L].
  assert (Hm : fail_count s' mod every k = 0) by (rewrite Hfc, Z.mul_comm; apply Z_mod_mult).
  specialize (L Hm). rewrite Hfc in L. rewrite (Z.mul_comm (every k) n), Z_div_mult in L by lia.
  split; [exact L|]. apply locked_run. intros t2 v2 Hin. rewrite L. apply (Hops t2 v2 Hin).
Qed.

(* users are independent: what the map holds for u after any interleaving is what u's own
   attempts alone produce *)
Lemma run_users_proj k esc u : forall ops m,
  fst (run_users k esc m ops) u = fst (run k esc (m u) (ops_of u ops)).
Proof.
  induction ops as [|[[u1 t] v] r IH]; intros m; [reflexivity|].
  cbn [run_users]. unfold ops_of. cbn [filter fst snd].
  destruct (attempt k esc (m u1) t v) as [s1 o] eqn:A.
  specialize (IH (upd m u1 s1)). destruct (run_users k esc (upd m u1 s1) r) as [m2 os]. cbn [fst] in *.
  rewrite IH. unfold upd at 1. destruct (N.eqb u1 u) eqn:E.
  - apply N.eqb_eq in E. subst u1. rewrite N.eqb_refl. cbn [map fst snd run]. rewrite A.
    fold (ops_of u r). destruct (run k esc s1 (ops_of u r)). reflexivity.
  - rewrite N.eqb_sym, E. reflexivity.
Qed.

(* ---- the code before the fix (the result of Add() dropped): failures never lock ---- *)
Definition five_then_one : list (Z * verdict) :=
  [(1000 * SEC, NoMatch); (1002 * SEC, NoMatch); (1004 * SEC, NoMatch); (1006 * SEC, NoMatch);
   (1008 * SEC, NoMatch); (1010 * SEC, NoMatch)].

Lemma old_never_locks :
  snd (run k_prop false rl0 five_then_one) = [EvalFail; EvalFail; EvalFail; EvalFail; EvalFail; EvalFail].
Proof. vm_compute. reflexivity. Qed.

Lemma new_locks :
  snd (run k_prop true rl0 five_then_one) = [EvalFail; EvalFail; EvalFail; EvalFail; EvalFail; RefusedLockout].
Proof. vm_compute. reflexivity. Qed.

(* ---- cleanup passes interleaved with attempts; the counter is bounded (no uint32 wrap) ---- *)
Section P.
Variable k : consts.
Variable esc : bool.

Lemma cleanup_never s now : cleanup k purge_never s now = s.
Proof. reflexivity. Qed.

(* a cleanup pass of the current code is invisible to the throttle *)
Lemma run_ops_never : forall ops s,
  fst (run_ops k esc purge_never s ops) = fst (run k esc s (attempts_of ops)) /\
  flat_map (fun x => match x with Some o => [o] | None => [] end) (snd (run_ops k esc purge_never s ops))
    = snd (run k esc s (attempts_of ops)).
Proof.
  induction ops as [|o r IH]; intros s; [simpl; auto|].
  destruct o as [t v|now]; cbn [run_ops step_op attempts_of flat_map app].
  - destruct (attempt k esc s t v) as [s1 o1] eqn:A. specialize (IH s1).
    destruct (run_ops k esc purge_never s1 r) as [s2 xs]. cbn [run]. rewrite A.
    fold (attempts_of r). destruct (run k esc s1 (attempts_of r)) as [s3 os]. cbn [fst snd flat_map app] in *.
    destruct IH as [I1 I2]. split; [exact I1|]. rewrite I2. reflexivity.
  - rewrite cleanup_never. specialize (IH s). destruct (run_ops k esc purge_never s r) as [s2 xs].
    cbn [fst snd flat_map app] in *. exact IH.
Qed.

(* the stored counter is the ghost streak, whatever cleanup passes are interleaved *)
Lemma ghost_agree_step s g t v :
  fail_count s = streak g -> last_fail s = g_last_fail g ->
  let (s', o) := attempt k esc s t v in
  fail_count s' = streak (ghost_step k g t o) /\ last_fail s' = g_last_fail (ghost_step k g t o).
Proof.
  intros H1 H2. unfold attempt. destruct (t <? last_check s + min_secs k * SEC); [simpl; auto|].
  cbn [lockout last_fail fail_count]. destruct (t <? lockout s); [simpl; auto|].
  destruct v; cbn [ghost_step streak g_last_fail fail_count last_fail]; auto.
  rewrite H1, H2. auto.
Qed.

Lemma ghost_agree : forall ops s g,
  fail_count s = streak g -> last_fail s = g_last_fail g ->
  let r := run_ops k esc purge_never s ops in
  fail_count (fst r) = streak (ghost_run k g ops (snd r)) /\
  last_fail (fst r) = g_last_fail (ghost_run k g ops (snd r)).
Proof.
  induction ops as [|o r IH]; intros s g H1 H2; [simpl; auto|].
  destruct o as [t v|now]; cbn [run_ops step_op].
  - pose proof (ghost_agree_step s g t v H1 H2) as A. destruct (attempt k esc s t v) as [s1 o1].
    destruct A as [A1 A2]. specialize (IH s1 _ A1 A2).
    destruct (run_ops k esc purge_never s1 r) as [s2 xs]. cbn [fst snd ghost_run] in *. exact IH.
  - rewrite cleanup_never. specialize (IH s g H1 H2).
    destruct (run_ops k esc purge_never s r) as [s2 xs]. cbn [fst snd ghost_run] in *. exact IH.
Qed.

Lemma locked_run_ops : forall ops s,
  (forall t v, In (Att t v) ops -> t < lockout s) ->
  Forall (fun x => unevaluated x = true) (snd (run_ops k esc purge_never s ops)) /\
  lockout (fst (run_ops k esc purge_never s ops)) = lockout s.
Proof.
  induction ops as [|o r IH]; intros s H; [simpl; auto|].
  destruct o as [t v|now]; cbn [run_ops step_op].
  - pose proof (locked_attempt k esc s t v (H t v (or_introl eq_refl))) as L.
    destruct (attempt k esc s t v) as [s1 o]. destruct L as [L1 [L2 _]].
    assert (H1 : forall t' v', In (Att t' v') r -> t' < lockout s1).
    { intros t' v' Hin. rewrite L2. apply (H t' v'). right. exact Hin. }
    specialize (IH s1 H1). destruct (run_ops k esc purge_never s1 r) as [s2 os]. cbn [fst snd] in *.
    destruct IH as [I1 I2]. split; [constructor; [simpl; rewrite L1; reflexivity|assumption]|]. rewrite I2. exact L2.
  - rewrite cleanup_never.
    assert (H1 : forall t' v', In (Att t' v') r -> t' < lockout s) by (intros t' v' Hin; apply (H t' v'); right; exact Hin).
    specialize (IH s H1). destruct (run_ops k esc purge_never s r) as [s2 os]. cbn [fst snd] in *.
    destruct IH as [I1 I2]. split; [constructor; [reflexivity|assumption]|exact I2].
Qed.
End P.

(* history form of the lock-out statement: any history of attempts and cleanup passes (at any
   times) from the empty entry; whenever an evaluated failure brings the number of consecutive
   failures (counted by the ghost, which does not see the entry) to every*n, everything tried
   before t + n hours is refused unevaluated, whatever cleanup passes follow *)
Theorem lockout_history k pre t v post n :
  0 < every k -> 0 < n ->
  let r1 := run_ops k true purge_never rl0 pre in
  let g1 := ghost_run k ghost0 pre (snd r1) in
  let a := attempt k true (fst r1) t v in
  snd a = EvalFail -> streak (ghost_step k g1 t EvalFail) = every k * n ->
  (forall t2 v2, In (Att t2 v2) post -> t2 < t + n * HOUR) ->
  lockout (fst a) = t + n * HOUR /\
  Forall (fun x => unevaluated x = true) (snd (run_ops k true purge_never (fst a) post)).
Proof.
  intros Hev Hn r1 g1 a Ha Hs Hpost.
  destruct (ghost_agree k true pre rl0 ghost0 eq_refl eq_refl) as [G1 G2]. fold r1 in G1, G2. fold g1 in G1, G2.
  pose proof (ghost_agree_step k true (fst r1) g1 t v G1 G2) as A. fold a in A.
  destruct a as [s' o] eqn:E. cbn [fst snd] in *. subst o. destruct A as [A1 _].
  rewrite Hs in A1.
  destruct (lockout_holds k (fst r1) t v s' n [] Hev Hn E A1 ltac:(intros ? ? []))  as [L _].
  split; [exact L|]. apply locked_run_ops. intros t2 v2 Hin. rewrite L. apply (Hpost t2 v2 Hin).
Qed.

(* ---- the counter stays small: after `every*(reset_hours+1)` consecutive failures the lock-out
   is longer than the quiet period that restarts the count ---- *)
Definition cnt_inv (k : consts) (s : rl) : Prop :=
  0 <= fail_count s <= every k * (reset_hours k + 1) /\
  (0 < fail_count s -> fail_count s mod every k = 0 -> lockout s = last_fail s + (fail_count s / every k) * HOUR).

Lemma cnt_inv_attempt k s t v :
  0 < every k -> 0 <= reset_hours k -> cnt_inv k s -> cnt_inv k (fst (attempt k true s t v)).
Proof.
  intros Hev Hr [[I0 I1] I2]. unfold attempt.
  destruct (t <? last_check s + min_secs k * SEC); [split; auto|].
  cbn [lockout last_fail fail_count].
  destruct (t <? lockout s) eqn:L; [split; auto|]. apply Z.ltb_ge in L.
  destruct v; cbn [fst].
  - split; cbn [fail_count]; [nia|lia].
  - split; auto.
  - destruct (last_fail s + reset_hours k * HOUR <? t) eqn:R.
    + split; cbn [fail_count lockout last_fail].
      * nia.
      * intros _ Hm. rewrite Z.add_0_l in *. cbn [andb]. apply Z.eqb_eq in Hm. rewrite Hm. reflexivity.
    + apply Z.ltb_ge in R. split; cbn [fail_count lockout last_fail].
      * assert (fail_count s <> every k * (reset_hours k + 1)).
        { intros E. assert (Hm : fail_count s mod every k = 0) by (rewrite E, Z.mul_comm; apply Z_mod_mult).
          assert (Hp : 0 < fail_count s) by nia.
          specialize (I2 Hp Hm). rewrite E, (Z.mul_comm (every k)), Z_div_mult in I2 by lia.
          unfold HOUR, SEC in *. nia. }
        lia.
      * intros _ Hm. cbn [andb]. apply Z.eqb_eq in Hm. rewrite Hm. reflexivity.
Qed.

Lemma cnt_inv_rl0 k : 0 < every k -> 0 <= reset_hours k -> cnt_inv k rl0.
Proof. intros. split; simpl; [nia|lia]. Qed.

Theorem count_bounded k : 0 < every k -> 0 <= reset_hours k -> forall ops s, cnt_inv k s ->
  cnt_inv k (fst (run_ops k true purge_never s ops)) .
Proof.
  intros Hev Hr. induction ops as [|o r IH]; intros s I; [exact I|].
  destruct o as [t v|now]; cbn [run_ops step_op].
  - pose proof (cnt_inv_attempt k s t v Hev Hr I) as A. destruct (attempt k true s t v) as [s1 o1]. cbn [fst] in A.
    specialize (IH s1 A). destruct (run_ops k true purge_never s1 r). exact IH.
  - rewrite cleanup_never. specialize (IH s I). destruct (run_ops k true purge_never s r). exact IH.
Qed.

Lemma attempt32_eq k s t v :
  0 < every k -> 0 <= reset_hours k -> every k * (reset_hours k + 1) < W32 -> cnt_inv k s ->
  attempt32 k true s t v = attempt k true s t v.
Proof.
  intros Hev Hr Hw I. pose proof (cnt_inv_attempt k s t v Hev Hr I) as A. destruct I as [[I0 I1] _].
  unfold attempt32, attempt in *.
  destruct (t <? last_check s + min_secs k * SEC); [reflexivity|].
  cbn [lockout last_fail fail_count] in *. destruct (t <? lockout s); [reflexivity|].
  destruct v; try reflexivity. cbn [fst] in A. destruct A as [[A0 A1] _]. cbn [fail_count] in A0, A1.
  rewrite Z.mod_small by lia. reflexivity.
Qed.

Theorem run_ops32_eq k : 0 < every k -> 0 <= reset_hours k -> every k * (reset_hours k + 1) < W32 ->
  forall ops s, cnt_inv k s -> run_ops32 k true purge_never s ops = run_ops k true purge_never s ops.
Proof.
  intros Hev Hr Hw. induction ops as [|o r IH]; intros s I; [reflexivity|].
  destruct o as [t v|now]; cbn [run_ops32 run_ops step_op32 step_op].
  - rewrite (attempt32_eq k s t v Hev Hr Hw I).
    pose proof (cnt_inv_attempt k s t v Hev Hr I) as A. destruct (attempt k true s t v) as [s1 o1]. cbn [fst] in A.
    rewrite (IH s1 A). reflexivity.
  - rewrite cleanup_never, (IH s I). reflexivity.
Qed.

(* users *)
Lemma run_users_ops_proj k esc pol u : forall ops m,
  fst (run_users_ops k esc pol m ops) u = fst (run_ops k esc pol (m u) (uops_of u ops)).
Proof.
  induction ops as [|o r IH]; intros m; [reflexivity|].
  destruct o as [u1 t v|now]; cbn [run_users_ops uops_of flat_map].
  - destruct (attempt k esc (m u1) t v) as [s1 o] eqn:A.
    specialize (IH (upd m u1 s1)). destruct (run_users_ops k esc pol (upd m u1 s1) r) as [m2 os]. cbn [fst] in *.
    rewrite IH. unfold upd at 1. destruct (N.eqb u1 u) eqn:E.
    + apply N.eqb_eq in E. subst u1. rewrite N.eqb_refl. cbn [app run_ops step_op]. rewrite A.
      fold (uops_of u r). destruct (run_ops k esc pol s1 (uops_of u r)). reflexivity.
    + rewrite N.eqb_sym, E. reflexivity.
  - specialize (IH (fun x => cleanup k pol (m x) now)).
    destruct (run_users_ops k esc pol (fun x => cleanup k pol (m x) now) r) as [m2 os]. cbn [fst app run_ops step_op] in *.
    rewrite IH. fold (uops_of u r). destruct (run_ops k esc pol (cleanup k pol (m u) now) (uops_of u r)). reflexivity.
Qed.

(* a cleanup that drops idle entries (lock-out over, last check older than the spacing) restarts
   the count: six evaluated failures in 12 s and no lock-out; and the lock-out after sitting the
   first one out is again one hour *)
Definition purge_hist1 : list op :=
  [Att (1000 * SEC) NoMatch; Att (1002 * SEC) NoMatch; Att (1004 * SEC) NoMatch; Att (1006 * SEC) NoMatch;
   Cleanup (1009 * SEC); Att (1010 * SEC) NoMatch; Att (1012 * SEC) NoMatch].
Lemma purge_idle_no_lock :
  let r := run_ops k_prop true purge_idle rl0 purge_hist1 in
  snd r = [Some EvalFail; Some EvalFail; Some EvalFail; Some EvalFail; None; Some EvalFail; Some EvalFail] /\
  streak (ghost_run k_prop ghost0 purge_hist1 (snd r)) = 6 /\
  snd (run_ops k_prop true purge_never rl0 purge_hist1)
   = [Some EvalFail; Some EvalFail; Some EvalFail; Some EvalFail; None; Some EvalFail; Some RefusedLockout].
Proof. vm_compute. auto. Qed.

(* ---- concurrent guesses of one user: whatever order the requests take the mutex in ---- *)
Theorem gate_any_order k esc (thr : nat -> Z * verdict) : forall order s, 0 <= min_secs k ->
  forall a b ia ib oa ob, (a < b)%nat ->
  nth_error order a = Some ia -> nth_error (snd (gate_run k esc thr s order)) a = Some oa ->
  nth_error order b = Some ib -> nth_error (snd (gate_run k esc thr s order)) b = Some ob ->
  evaluated oa = true -> evaluated ob = true ->
  fst (thr ia) + min_secs k * SEC <= fst (thr ib).
Proof.
  intros order s Hk a b ia ib oa ob Hab Ha Hoa Hb Hob Ea Eb. unfold gate_run in *.
  apply (spacing k esc (map thr order) s Hk a b (fst (thr ia)) (snd (thr ia)) oa (fst (thr ib)) (snd (thr ib)) ob Hab).
  - rewrite nth_error_map, Ha. cbn [option_map]. destruct (thr ia); reflexivity.
  - exact Hoa.
  - rewrite nth_error_map, Hb. cbn [option_map]. destruct (thr ib); reflexivity.
  - exact Hob.
  - apply evaluated_passes; exact Ea.
  - apply evaluated_passes; exact Eb.
Qed.

(* the split gate: two wrong guesses in flight at the same instant are both evaluated, and the
   second write-back overwrites the first: two evaluated failures, counter 1 *)
Definition split_thr (i : nat) : Z * verdict := (1000 * SEC, NoMatch).
Definition split_sched : list gstep := [GRead 0; GRead 1; GFinish 0; GFinish 1].
Lemma split_gate_two_evaluated :
  let r := split_run k_prop true split_thr rl0 split_sched in
  g_outs r = [(0%nat, EvalFail); (1%nat, EvalFail)] /\ fail_count (g_entry r) = 1 /\
  snd (gate_run k_prop true split_thr rl0 [0%nat; 1%nat]) = [EvalFail; RefusedSpacing].
Proof. vm_compute. auto. Qed.

Lemma split_gate_refuted : exists thr sched,
  let r := split_run k_prop true thr rl0 sched in
  g_outs r = [(0%nat, EvalFail); (1%nat, EvalFail)] /\ fst (thr 0%nat) = fst (thr 1%nat) /\
  fail_count (g_entry r) = 1.
Proof. exists split_thr, split_sched. vm_compute. auto. Qed.
