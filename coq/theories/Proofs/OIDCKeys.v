(* C12 — signers, KeymasterPublicKeys and the JWKS: every ID token the token endpoint releases
   verifies under a key the JWKS handler publishes, whatever the configured signer; what the
   discovery document advertises; redirect_uri is mandatory at the token endpoint. *)
From Coq Require Import String ZArith NArith List Bool Lia.
From KM Require Import Base.Bytes Model.Tokens Model.OIDC Proofs.Tokens Proofs.OIDC.
Import ListNotations.
Open Scope Z_scope.

Lemma keytype_eqb_eq x y : keytype_eqb x y = true <-> x = y.
Proof. destruct x, y; cbn; split; intro H; try reflexivity; discriminate. Qed.

Lemma pubkey_eqb_eq x y : pubkey_eqb x y = true <-> x = y.
Proof.
  unfold pubkey_eqb. destruct x as [i t], y as [j u]. cbn. rewrite andb_true_iff, N.eqb_eq, keytype_eqb_eq.
  split; [intros [-> ->]; reflexivity|intro H; inversion H; auto].
Qed.

Lemma add_key_in keys k : In k (add_key keys k).
Proof.
  unfold add_key. destruct (existsb (pubkey_eqb k) keys) eqn:E.
  - apply existsb_exists in E. destruct E as [x [Hx E]]. apply pubkey_eqb_eq in E. subst x. exact Hx.
  - apply in_or_app. right. left. reflexivity.
Qed.

Lemma add_key_keeps keys k x : In x keys -> In x (add_key keys k).
Proof. unfold add_key. destruct (existsb (pubkey_eqb k) keys); [auto|]. intro H. apply in_or_app. auto. Qed.

(* what start-up leaves in KeymasterPublicKeys: the signer (of an accepted type), the Ed25519 CA
   when one is configured, every key of the file *)
Lemma load_sound kc keys : load kc = Some keys ->
  signer_type_ok (pk_type (kc_signer kc)) = true /\ In (kc_signer kc) keys /\
  (forall e, kc_ed kc = Some e -> pk_type e = KEd25519 /\ In e keys) /\
  (forall k, In k (kc_file kc) -> In k keys).
Proof.
  unfold load. destruct (signer_type_ok (pk_type (kc_signer kc))) eqn:S; cbn [negb]; [|discriminate].
  destruct (kc_ed kc) as [e|].
  - destruct (ed_type_ok (pk_type e)) eqn:E; [|discriminate]. intro H. inversion H. subst keys. clear H.
    split; [reflexivity|]. split; [apply add_key_in|]. split.
    + intros e' H. inversion H. subst e'. split; [destruct (pk_type e); try discriminate E; reflexivity|].
      apply add_key_keeps. apply add_key_in.
    + intros k Hk. apply add_key_keeps. apply add_key_keeps. exact Hk.
  - intro H. inversion H. subst keys. clear H.
    split; [reflexivity|]. split; [apply add_key_in|]. split; [discriminate|].
    intros k Hk. apply add_key_keeps. exact Hk.
Qed.

(* the JWKS leaves no loaded key out *)
Lemma jwks_complete keys k : In k keys -> In (pk_id k, pk_type k) (jwks_of keys).
Proof. intro H. unfold jwks_of. apply in_map_iff. exists k. auto. Qed.

Lemma jwks_length keys : length (jwks_of keys) = length keys.
Proof. unfold jwks_of. apply map_length. Qed.

Lemma under_jwks_signed iss ui keys signer c :
  In signer keys -> under_jwks (jwks_of keys) (sign (server_of iss ui keys signer) c) = true.
Proof.
  intro H. unfold under_jwks, sign, server_of. cbn [t_tampered t_signer t_alg s_signer s_signer_alg negb andb].
  apply existsb_exists. exists (pk_id signer, pk_type signer). split; [apply jwks_complete; exact H|].
  cbn [fst snd]. rewrite !N.eqb_refl. reflexivity.
Qed.

(* the server's own verification accepts what it signs *)
Lemma verify_signed iss ui keys signer c :
  In signer keys -> verify (server_of iss ui keys signer) (sign (server_of iss ui keys signer) c) = true.
Proof.
  intro H. unfold verify, sign, trusted_key, allowed_alg, server_of.
  cbn [t_tampered t_signer t_alg s_signer s_signer_alg s_keys negb].
  assert (E1 : existsb (fun e : N * N => (fst e =? pk_id signer)%N) (map (fun k => (pk_id k, alg_of (pk_type k))) keys) = true).
  { apply existsb_exists. exists (pk_id signer, alg_of (pk_type signer)). split; [apply in_map_iff; exists signer; auto|].
    cbn. apply N.eqb_refl. }
  assert (E2 : existsb (fun e : N * N => (snd e =? alg_of (pk_type signer))%N) (map (fun k => (pk_id k, alg_of (pk_type k))) keys) = true).
  { apply existsb_exists. exists (pk_id signer, alg_of (pk_type signer)). split; [apply in_map_iff; exists signer; auto|].
    cbn. apply N.eqb_refl. }
  rewrite E1, E2. reflexivity.
Qed.

(* Whatever key files the daemon started with: every ID token (and access token) the token
   endpoint releases is signed with the signer's preferred algorithm, its kid names an entry of
   the JWKS whose key type is the signer's, and it verifies under the JWKS. *)
Lemma released_under_jwks iss ui kc keys cls now r idt act :
  load kc = Some keys ->
  token_endpoint {| srv := server_of iss ui keys (kc_signer kc); clients := cls |} now r = Release idt act ->
  under_jwks (jwks_of keys) idt = true /\ under_jwks (jwks_of keys) act = true /\
  In (t_signer idt, pk_type (kc_signer kc)) (jwks_of keys) /\
  t_signer idt = pk_id (kc_signer kc) /\ t_alg idt = alg_of (pk_type (kc_signer kc)) /\ t_tampered idt = false /\
  verify (server_of iss ui keys (kc_signer kc)) act = true.
Proof.
  intros L R. apply load_sound in L. destruct L as [_ [IN _]].
  apply token_release_sound in R. cbn [srv] in R.
  destruct R as [k [c [_ [_ [_ [_ [_ [_ [_ [_ [-> ->]]]]]]]]]]].
  unfold p_id, p_access.
  split; [apply under_jwks_signed; exact IN|]. split; [apply under_jwks_signed; exact IN|].
  split; [cbn; apply jwks_complete; exact IN|].
  split; [reflexivity|]. split; [reflexivity|]. split; [reflexivity|].
  apply verify_signed. exact IN.
Qed.

(* what the discovery document advertises covers RSA, P-256 and P-384 signers ... *)
Lemma released_alg_advertised iss ui kc keys cls now r idt act :
  load kc = Some keys -> pk_type (kc_signer kc) <> KP521 ->
  token_endpoint {| srv := server_of iss ui keys (kc_signer kc); clients := cls |} now r = Release idt act ->
  advertised (t_alg idt) = true.
Proof.
  intros L NP R. destruct (released_under_jwks _ _ _ _ _ _ _ _ _ L R) as [_ [_ [_ [_ [A _]]]]]. rewrite A.
  apply load_sound in L. destruct L as [S _].
  destruct (pk_type (kc_signer kc)); try discriminate S; try reflexivity. exfalso. apply NP. reflexivity.
Qed.

(* ---------------------------------------------------------------- redirect_uri is mandatory *)

Lemma redirect_required i now r : tr_redirect r = [] -> token_endpoint i now r = Refuse 400.
Proof.
  intro E. unfold token_endpoint, token_endpoint_gen. rewrite E. cbn [nonempty negb andb].
  destruct (tr_post r); cbn [negb]; [|reflexivity].
  destruct (bs_eqb (tr_grant r) gt_authcode); reflexivity.
Qed.

(* ---------------------------------------------------------------- witnesses *)

Definition kc_p521 : keyconf :=
  {| kc_file := []; kc_ed := Some {| pk_id := 1; pk_type := KEd25519 |}; kc_signer := {| pk_id := 2; pk_type := KP521 |} |}.
Definition keys_p521 : list pubkey := [ {| pk_id := 1; pk_type := KEd25519 |}; {| pk_id := 2; pk_type := KP521 |} ].
Definition idp_p521 : idp :=
  {| srv := server_of (b "https://keymaster.example") (b "https://keymaster.example/idp/oauth2/userinfo") keys_p521 (kc_signer kc_p521);
     clients := [ {| cl_id := b "clientA"; cl_secret := b "secretA"; cl_allow_aud := false; cl_other := [] |}; {| cl_id := b "clientB"; cl_secret := []; cl_allow_aud := false; cl_other := [] |} ] |}.

Definition areq_w (client chal meth : bs) : areq :=
  {| ar_method_ok := true; ar_response_type := rt_code; ar_client := client; ar_scope := b "openid";
     ar_scope_openid := true; ar_redirect := b "https://a.example/cb"; ar_redirect_ok := true;
     ar_challenge := chal; ar_method := meth; ar_audience := []; ar_audience_ok := false;
     ar_nonce := b "nonce123"; ar_jti := b "jti" |}.

Definition treq_w (code : token) (redirect : bs) (basic : option (bs * bs)) (fc verifier vhash : bs) : treq :=
  {| tr_conn := conn_none; tr_post := true; tr_grant := gt_authcode; tr_redirect := redirect; tr_code := code;
     tr_verifier := verifier; tr_vhash := vhash; tr_basic := basic; tr_form_client := fc; tr_form_secret := [] |}.

(* with a P-521 signer the daemon starts, the secret flow releases an ID token signed ES512 ... *)
Definition idt_p521 : option token :=
  match authorize idp_p521 (1000 * NS) (b "alice") (areq_w (b "clientA") [] []) with
  | Some code =>
      match token_endpoint idp_p521 (1010 * NS) (treq_w code (b "https://a.example/cb") (Some (b "clientA", b "secretA")) [] [] []) with
      | Release idt _ => Some idt
      | Refuse _ => None
      end
  | None => None
  end.

(* ---------------------------------------------------------------- PKCE needs RSA keys *)

Lemma pkce_ok_open st k v h : pkce_ok st k v h = true -> can_open st = true.
Proof.
  unfold pkce_ok. destruct (c_sealed k) as [[[n chal] meth]|]; [|discriminate].
  destruct (can_open st); [reflexivity|discriminate].
Qed.

(* a challenge is sealed into a code only if some loaded key is an RSA key *)
Lemma authorize_seal_needs_rsa i now u a t :
  authorize i now u a = Some t -> ar_challenge a <> [] -> can_seal (srv i) = true.
Proof.
  unfold authorize. intros A NE. apply nonempty_true in NE. rewrite NE in A. cbn [andb] in A.
  destruct (ar_method_ok a); cbn [negb] in A; [|discriminate].
  destruct (bs_eqb (ar_response_type a) rt_code); cbn [negb] in A; [|discriminate].
  destruct (nonempty (ar_client a)); cbn [negb] in A; [|discriminate].
  destruct (ar_scope_openid a); cbn [negb] in A; [|discriminate].
  destruct (find_client (ar_client a) (clients i)) as [c|]; [|discriminate].
  destruct (ar_redirect_ok a); cbn [negb] in A; [|discriminate].
  destruct (nonempty (ar_method a) && negb (bs_eqb (ar_method a) m_S256)); [discriminate|].
  destruct (can_seal (srv i)); [reflexivity|discriminate].
Qed.

(* a secret-less client is served only by a daemon whose signer is an RSA key *)
Lemma pkce_release_needs_rsa i now r idt act :
  token_endpoint i now r = Release idt act -> tr_verifier r <> [] -> can_open (srv i) = true.
Proof.
  unfold token_endpoint, token_endpoint_gen. cbn [andb negb]. rewrite !andb_true_r. intros R NV.
  apply nonempty_true in NV. rewrite NV in R. cbn [andb] in R.
  destruct (tr_post r); cbn [negb] in R; [|discriminate].
  destruct (bs_eqb (tr_grant r) gt_authcode); cbn [negb] in R; [|discriminate].
  destruct (nonempty (tr_redirect r)); cbn [negb] in R; [|discriminate].
  destruct (verify (srv i) (tr_code r)); cbn [negb] in R; [|discriminate].
  destruct (dec_code (t_claims (tr_code r))) as [k|]; [|discriminate].
  destruct (caller r) as [[id pass]|s]; [|discriminate].
  destruct (find_client id (clients i)) as [c|]; [|discriminate].
  destruct (nonempty (cl_secret c)) eqn:NS; [discriminate|]. apply nonempty_false in NS.
  destruct (pkce_ok (srv i) k (tr_verifier r) (tr_vhash r)) eqn:P; [eapply pkce_ok_open; exact P|].
  cbn [negb andb] in R. destruct (nonempty pass) eqn:NP.
  - destruct (bs_eqb pass (cl_secret c)) eqn:E; cbn [negb] in R; [|discriminate].
    apply bs_eqb_eq in E. rewrite NS in E. subst pass. discriminate NP.
  - discriminate.
Qed.
