(* C16 — proofs about Model/Conc.v *)
From KM Require Import Base.Bytes Base.Tactics Model.Conc.
Open Scope N_scope.

(* ------------------------------------------------------------------ lists with one element replaced *)
Lemma nth_error_upd_same {A} (l : list A) : forall i x t, nth_error l i = Some t -> nth_error (upd l i x) i = Some x.
Proof. induction l as [|y l IH]; intros [|i] x t H; simpl in *; try discriminate; [reflexivity|eapply IH; eauto]. Qed.

Lemma nth_error_upd_other {A} (l : list A) : forall i j x, i <> j -> nth_error (upd l i x) j = nth_error l j.
Proof.
  induction l as [|y l IH]; intros [|i] [|j] x H; simpl; try reflexivity; try congruence.
  apply IH. congruence.
Qed.

Lemma length_upd {A} (l : list A) : forall i x, length (upd l i x) = length l.
Proof. induction l as [|y l IH]; intros [|i] x; simpl; auto. Qed.

Ltac break_step :=
  repeat match goal with
         | |- context[match ?x with _ => _ end] => destruct x eqn:?
         end.

(* a step of thread i leaves every other thread as it is *)
Lemma step_other w i j : i <> j -> nth_error (threads (step w i)) j = nth_error (threads w) j.
Proof.
  intros Ne. unfold step.
  destruct (nth_error (threads w) i) as [t|] eqn:Ei; [|reflexivity].
  destruct (prog t) as [|a r]; [reflexivity|].
  destruct a; simpl; break_step; simpl; try reflexivity; apply nth_error_upd_other; exact Ne.
Qed.

Lemma step_length w i : length (threads (step w i)) = length (threads w).
Proof.
  unfold step.
  destruct (nth_error (threads w) i) as [t|] eqn:Ei; [|reflexivity].
  destruct (prog t) as [|a r]; [reflexivity|].
  destruct a; simpl; break_step; simpl; try reflexivity; apply length_upd.
Qed.

(* ------------------------------------------------------------------ owners *)
Lemma owner_of_release_other l l' o : l' <> l -> owner_of l (release l' o) = owner_of l o.
Proof.
  intros Ne. induction o as [|[k i] o IH]; simpl; [reflexivity|].
  destruct (k =? l') eqn:E1.
  - apply N.eqb_eq in E1. subst k. destruct (l' =? l) eqn:E2; [apply N.eqb_eq in E2; congruence|exact IH].
  - simpl. destruct (k =? l); [reflexivity|exact IH].
Qed.

Lemma oN_eqb_true h l : oN_eqb h l = true -> h = Some l.
Proof. destruct h as [x|]; simpl; [|discriminate]. intros H. apply N.eqb_eq in H. congruence. Qed.

Lemma is_none_true {A} (h : option A) : is_none h = true -> h = None.
Proof. destruct h; [discriminate|reflexivity]. Qed.

(* ------------------------------------------------------------------ (1) lock discipline *)
Definition disc_inv (w : world) : Prop :=
  forall i t, nth_error (threads w) i = Some t ->
    cs_ok (held t) (prog t) = true /\ forall l, held t = Some l -> owner_of l (owner w) = Some i.

Lemma cs_ok_fail_hard t x : cs_ok (held (fail_hard t x)) (prog (fail_hard t x)) = true.
Proof. unfold fail_hard. simpl. destruct (held t) as [l|]; simpl; [rewrite N.eqb_refl|]; reflexivity. Qed.

Lemma disc_step w i : disc_inv w -> disc_inv (step w i).
Proof.
  intros HI j tj Hj.
  destruct (Nat.eq_dec i j) as [<-|Ne].
  - (* the stepping thread *)
    unfold step in *.
    destruct (nth_error (threads w) i) as [t|] eqn:Ei; [|apply HI; exact Hj].
    destruct (HI i t Ei) as [Hcs Hown].
    destruct (prog t) as [|a r] eqn:Ep; [rewrite Ei in Hj; inversion Hj; subst; rewrite Ep; split; assumption|].
    destruct a; simpl in Hcs.
    + (* Load *) simpl in Hj. rewrite (nth_error_upd_same _ _ _ _ Ei) in Hj. inversion Hj; subst; simpl. split; assumption.
    + (* Check *) destruct (c (loaded_opt t)); simpl in Hj; rewrite (nth_error_upd_same _ _ _ _ Ei) in Hj; inversion Hj; subst.
      * simpl. split; assumption.
      * split; [apply cs_ok_fail_hard|]. simpl. exact Hown.
    + (* Soft *) destruct (c (loaded_opt t)); simpl in Hj; rewrite (nth_error_upd_same _ _ _ _ Ei) in Hj; inversion Hj; subst; simpl; split; assumption.
    + (* Save *) destruct (alive t); simpl in Hj; rewrite (nth_error_upd_same _ _ _ _ Ei) in Hj; inversion Hj; subst; simpl; split; assumption.
    + (* Del *) simpl in Hj. rewrite (nth_error_upd_same _ _ _ _ Ei) in Hj. inversion Hj; subst; simpl. split; assumption.
    + (* Lock *) apply andb_true_iff in Hcs. destruct Hcs as [Hn Hcs]. apply is_none_true in Hn.
      destruct (owner_of l (owner w)) eqn:Eo.
      * rewrite Ei in Hj. inversion Hj; subst. rewrite Ep. simpl. rewrite Hn. simpl. split; [exact Hcs|]. intros l0 X. congruence.
      * simpl in Hj. rewrite (nth_error_upd_same _ _ _ _ Ei) in Hj. inversion Hj; subst; simpl. split; [exact Hcs|].
        intros l0 X. inversion X; subst. rewrite N.eqb_refl. reflexivity.
    + (* Unlock *) apply andb_true_iff in Hcs. destruct Hcs as [Hh Hcs].
      simpl in Hj. rewrite (nth_error_upd_same _ _ _ _ Ei) in Hj. inversion Hj; subst; simpl. split; [exact Hcs|]. intros l0 X. discriminate.
    + (* MapGet *) apply andb_true_iff in Hcs. destruct Hcs as [Hh Hcs].
      simpl in Hj. rewrite (nth_error_upd_same _ _ _ _ Ei) in Hj. inversion Hj; subst; simpl. split; assumption.
    + (* CheckMap *) destruct (c (mreg t)); simpl in Hj; rewrite (nth_error_upd_same _ _ _ _ Ei) in Hj; inversion Hj; subst.
      * simpl. split; assumption.
      * split; [apply cs_ok_fail_hard|]. simpl. exact Hown.
    + (* MapSet *) apply andb_true_iff in Hcs. destruct Hcs as [Hh Hcs].
      simpl in Hj. rewrite (nth_error_upd_same _ _ _ _ Ei) in Hj. inversion Hj; subst; simpl. split; assumption.
    + (* MapSetReg *) apply andb_true_iff in Hcs. destruct Hcs as [Hh Hcs].
      simpl in Hj. rewrite (nth_error_upd_same _ _ _ _ Ei) in Hj. inversion Hj; subst; simpl. split; assumption.
    + (* MapDel *) apply andb_true_iff in Hcs. destruct Hcs as [Hh Hcs].
      simpl in Hj. rewrite (nth_error_upd_same _ _ _ _ Ei) in Hj. inversion Hj; subst; simpl. split; assumption.
    + (* Respond *) simpl in Hj. rewrite (nth_error_upd_same _ _ _ _ Ei) in Hj. inversion Hj; subst.
      destruct (alive t); simpl; split; assumption.
  - (* another thread: only the owner table may have changed *)
    rewrite step_other in Hj by exact Ne.
    destruct (HI j tj Hj) as [Hcs Hown]. split; [exact Hcs|].
    intros l Hl. specialize (Hown l Hl).
    unfold step.
    destruct (nth_error (threads w) i) as [t|] eqn:Ei; [|exact Hown].
    destruct (prog t) as [|a r] eqn:Ep; [exact Hown|].
    destruct a; simpl; break_step; simpl; try exact Hown.
    + (* Lock l0 by i, free *)
      destruct (l0 =? l) eqn:E; [apply N.eqb_eq in E; subst; congruence|exact Hown].
    + (* Unlock l0 by i, owner n = i *)
      destruct (N.eq_dec l0 l) as [->|Nl].
      * rewrite Hown in Heqo. inversion Heqo; subst. apply Nat.eqb_eq in Heqb. congruence.
      * rewrite owner_of_release_other by exact Nl. exact Hown.
Qed.

Lemma disc_run sched : forall w, disc_inv w -> disc_inv (run w sched).
Proof. induction sched as [|i l IH]; intros w H; simpl; [exact H|]. apply IH, disc_step, H. Qed.

Lemma disc_init d s progs : Forall (fun p => disciplined p = true) progs -> disc_inv (init_world d s progs).
Proof.
  intros HF i t Hi. simpl in Hi. apply nth_error_In in Hi. apply in_map_iff in Hi. destruct Hi as [p [<- Hp]].
  simpl. split; [|discriminate]. rewrite Forall_forall in HF. apply HF, Hp.
Qed.

Lemma at_map_holds w i t m b : disc_inv w -> nth_error (threads w) i = Some t -> at_map t = Some (m, b) ->
  owner_of (guard m) (owner w) = Some i.
Proof.
  intros HI Hi Ha. destruct (HI i t Hi) as [Hcs Hown]. apply Hown.
  unfold at_map in Ha. destruct (prog t) as [|a r]; [discriminate|].
  destruct a; try discriminate; inversion Ha; subst; simpl in Hcs;
    apply andb_true_iff in Hcs; destruct Hcs as [Hh _]; apply oN_eqb_true in Hh; exact Hh.
Qed.

Theorem lock_discipline d s progs sched :
  Forall (fun p => disciplined p = true) progs -> ~ data_race (run (init_world d s progs) sched).
Proof.
  intros HF [i [j [ti [tj [m [bi [bj [Ne [Hi [Hj [Ai [Aj _]]]]]]]]]]]].
  pose proof (disc_run sched _ (disc_init d s progs HF)) as HI.
  pose proof (at_map_holds _ _ _ _ _ HI Hi Ai) as Oi.
  pose proof (at_map_holds _ _ _ _ _ HI Hj Aj) as Oj.
  congruence.
Qed.

Lemma handlers_disciplined h :
  (forall u v, h <> HU2fSignRespOld u v) -> h <> HUnsealSplit -> h <> HReadKeys -> disciplined (handler h) = true.
Proof. intros H H1 H2. destruct h; try reflexivity; try congruence; try (exfalso; eapply H; reflexivity). Qed.

(* ------------------------------------------------------------------ (2) no torn profile *)
Lemma get_In u p d : get u d = Some p -> In (u, p) d.
Proof.
  induction d as [|[v q] d IH]; simpl; [discriminate|].
  destruct (v =? u) eqn:E; intros H; [apply N.eqb_eq in E; inversion H; subst; left; reflexivity|right; apply IH, H].
Qed.

Lemma get_del_same u d : get u (del u d) = None.
Proof. induction d as [|[v q] d IH]; simpl; [reflexivity|]. destruct (v =? u) eqn:E; [exact IH|simpl; rewrite E; exact IH]. Qed.

Lemma get_del_other u v d : u <> v -> get v (del u d) = get v d.
Proof.
  intros Ne. induction d as [|[x q] d IH]; simpl; [reflexivity|].
  destruct (x =? u) eqn:E.
  - apply N.eqb_eq in E. subst x. destruct (u =? v) eqn:E2; [apply N.eqb_eq in E2; congruence|exact IH].
  - simpl. destruct (x =? v); [reflexivity|exact IH].
Qed.

Definition torn_inv (d0 : db) (w : world) : Prop :=
  (forall u p, get u (store w) = Some p -> In (u, p) (d0 ++ saved w)) /\
  (forall i t u p, nth_error (threads w) i = Some t -> reg t = Some (u, Some p) -> In (u, p) (d0 ++ saved w)).

Lemma in_app_cons {A} (x y : A) l1 l2 : In x (l1 ++ l2) -> In x (l1 ++ y :: l2).
Proof. intros H. apply in_app_or in H. apply in_or_app. destruct H; [left|right; right]; assumption. Qed.

Lemma torn_step d0 w i : torn_inv d0 w -> torn_inv d0 (step w i).
Proof.
  intros [HS HT]. unfold step.
  destruct (nth_error (threads w) i) as [t|] eqn:Ei; [|split; assumption].
  destruct (prog t) as [|a r] eqn:Ep; [split; assumption|].
  assert (Keep : forall t', reg t' = reg t ->
     torn_inv d0 (set_threads w (upd (threads w) i t'))).
  { intros t' Hr. split; simpl; [exact HS|]. intros j tj u p Hj Hreg.
    destruct (Nat.eq_dec i j) as [<-|Ne].
    - rewrite (nth_error_upd_same _ _ _ _ Ei) in Hj. inversion Hj; subst. rewrite Hr in Hreg. eapply HT; eauto.
    - rewrite nth_error_upd_other in Hj by exact Ne. eapply HT; eauto. }
  destruct a.
  - (* Load *) split; simpl; [exact HS|]. intros j tj u0 p Hj Hreg.
    destruct (Nat.eq_dec i j) as [<-|Ne].
    + rewrite (nth_error_upd_same _ _ _ _ Ei) in Hj. inversion Hj; subst. simpl in Hreg. inversion Hreg; subst. apply HS. assumption.
    + rewrite nth_error_upd_other in Hj by exact Ne. eapply HT; eauto.
  - destruct (c (loaded_opt t)); apply Keep; reflexivity.
  - destruct (c (loaded_opt t)); apply Keep; reflexivity.
  - (* Save *) destruct (alive t); [|apply Keep; reflexivity].
    split; simpl.
    + intros u0 p. destruct (u =? u0) eqn:E.
      * intros H. inversion H; subst. apply N.eqb_eq in E. subst. apply in_or_app. right. left. reflexivity.
      * intros H. apply N.eqb_neq in E. rewrite get_del_other in H by exact E. apply in_app_cons, HS, H.
    + intros j tj u0 p Hj Hreg. apply in_app_cons.
      destruct (Nat.eq_dec i j) as [<-|Ne].
      * rewrite (nth_error_upd_same _ _ _ _ Ei) in Hj. inversion Hj; subst. simpl in Hreg. eapply HT; eauto.
      * rewrite nth_error_upd_other in Hj by exact Ne. eapply HT; eauto.
  - (* Del *) split; simpl.
    + intros u0 p H. destruct (N.eq_dec u u0) as [->|Ne]; [rewrite get_del_same in H; discriminate|].
      rewrite get_del_other in H by exact Ne. apply HS, H.
    + intros j tj u0 p Hj Hreg.
      destruct (Nat.eq_dec i j) as [<-|Ne].
      * rewrite (nth_error_upd_same _ _ _ _ Ei) in Hj. inversion Hj; subst. simpl in Hreg. eapply HT; eauto.
      * rewrite nth_error_upd_other in Hj by exact Ne. eapply HT; eauto.
  - (* Lock *) destruct (owner_of l (owner w)); [split; assumption|].
    split; simpl; [exact HS|]. intros j tj u0 p Hj Hreg.
    destruct (Nat.eq_dec i j) as [<-|Ne].
    + rewrite (nth_error_upd_same _ _ _ _ Ei) in Hj. inversion Hj; subst. simpl in Hreg. eapply HT; eauto.
    + rewrite nth_error_upd_other in Hj by exact Ne. eapply HT; eauto.
  - (* Unlock *) split; simpl; [exact HS|]. intros j tj u0 p Hj Hreg.
    destruct (Nat.eq_dec i j) as [<-|Ne].
    + rewrite (nth_error_upd_same _ _ _ _ Ei) in Hj. inversion Hj; subst. simpl in Hreg. eapply HT; eauto.
    + rewrite nth_error_upd_other in Hj by exact Ne. eapply HT; eauto.
  - apply Keep; reflexivity.
  - destruct (c (mreg t)); apply Keep; reflexivity.
  - (* MapSet *) split; simpl; [exact HS|]. intros j tj u0 p Hj Hreg.
    destruct (Nat.eq_dec i j) as [<-|Ne].
    + rewrite (nth_error_upd_same _ _ _ _ Ei) in Hj. inversion Hj; subst. simpl in Hreg. eapply HT; eauto.
    + rewrite nth_error_upd_other in Hj by exact Ne. eapply HT; eauto.
  - (* MapSetReg *) split; simpl; [exact HS|]. intros j tj u0 p Hj Hreg.
    destruct (Nat.eq_dec i j) as [<-|Ne].
    + rewrite (nth_error_upd_same _ _ _ _ Ei) in Hj. inversion Hj; subst. simpl in Hreg. eapply HT; eauto.
    + rewrite nth_error_upd_other in Hj by exact Ne. eapply HT; eauto.
  - (* MapDel *) split; simpl; [exact HS|]. intros j tj u0 p Hj Hreg.
    destruct (Nat.eq_dec i j) as [<-|Ne].
    + rewrite (nth_error_upd_same _ _ _ _ Ei) in Hj. inversion Hj; subst. simpl in Hreg. eapply HT; eauto.
    + rewrite nth_error_upd_other in Hj by exact Ne. eapply HT; eauto.
  - destruct (alive t); apply Keep; reflexivity.
Qed.

Lemma torn_run d0 sched : forall w, torn_inv d0 w -> torn_inv d0 (run w sched).
Proof. induction sched as [|i l IH]; intros w H; simpl; [exact H|]. apply IH, torn_step, H. Qed.

Theorem no_torn_profile d0 s progs sched i t u p :
  let w := run (init_world d0 s progs) sched in
  nth_error (threads w) i = Some t -> reg t = Some (u, Some p) ->
  In (u, p) d0 \/ In (u, p) (saved w).
Proof.
  intros w Hi Hr.
  assert (HI : torn_inv d0 w).
  { apply torn_run. split; simpl.
    - intros u0 p0 H. rewrite app_nil_r. apply get_In, H.
    - intros j tj u0 p0 Hj Hreg. apply nth_error_In in Hj. apply in_map_iff in Hj. destruct Hj as [pr [<- _]]. discriminate. }
  destruct HI as [_ HT]. apply in_app_or. eapply HT; eauto.
Qed.

(* ------------------------------------------------------------------ (3) the spacing test-and-set *)
Lemma mget_mset_same m k v s : mget m k (mset m k v s) = Some v.
Proof. unfold mset. simpl. rewrite !N.eqb_refl. reflexivity. Qed.

Section Spacing.
Variable u : N.
Variable nows : list N.
Hypothesis window : forall a b, In a nows -> In b nows -> a < b + 2.

Definition sp_tail (now : N) (n : nat) : list act := skipn (6 - n) (handler (HSpacing u now)).

Lemma sp_tail_length now n : (n <= 6)%nat -> length (sp_tail now n) = n.
Proof.
  intros H. unfold sp_tail. rewrite skipn_length.
  replace (length (handler (HSpacing u now))) with 6%nat by reflexivity. lia.
Qed.

Definition sp_shape (now : N) (t : thread) : Prop :=
  (exists n, (n <= 6)%nat /\ prog t = sp_tail now n /\ alive t = true /\
             resp t = (if Nat.eqb n 0 then Some 200 else None) /\
             held t = (if (Nat.leb 2 n && Nat.leb n 5)%bool then Some L_totp else None)) \/
  (alive t = false /\ resp t = Some 401 /\
   ((prog t = [Unlock L_totp] /\ held t = Some L_totp) \/ (prog t = [] /\ held t = None))).

Definition passed (t : thread) : Prop := alive t = true /\ (length (prog t) <= 3)%nat.

Definition stamped (m : maps) : Prop := exists k, In k nows /\ mget M_totpRate u m = Some k.

Record SP (ts : list thread) (m : maps) : Prop := {
  sp_len : length ts = length nows;
  sp_shapes : forall i now t, nth_error nows i = Some now -> nth_error ts i = Some t -> sp_shape now t;
  sp_one : forall i j ti tj, nth_error ts i = Some ti -> nth_error ts j = Some tj -> passed ti -> passed tj -> i = j;
  sp_stamp : forall i t, nth_error ts i = Some t -> passed t -> (length (prog t) <= 2)%nat -> stamped m;
  sp_mreg : forall i t, nth_error ts i = Some t -> alive t = true -> length (prog t) = 4%nat -> mreg t = mget M_totpRate u m
}.

Lemma now_of ts m i t : SP ts m -> nth_error ts i = Some t -> exists now, nth_error nows i = Some now.
Proof.
  intros H Hi. assert (L : (i < length nows)%nat).
  { rewrite <- (sp_len _ _ H). apply nth_error_Some. congruence. }
  destruct (nth_error nows i) as [now|] eqn:E; [eauto|]. apply nth_error_None in E. lia.
Qed.

(* thread i replaced, memory unchanged, nobody newly let through *)
Lemma SP_plain ts m i t t' now :
  SP ts m -> nth_error ts i = Some t -> nth_error nows i = Some now ->
  sp_shape now t' ->
  (passed t' -> passed t /\ ((length (prog t') <= 2)%nat -> (length (prog t) <= 2)%nat \/ stamped m)) ->
  (alive t' = true -> length (prog t') = 4%nat -> mreg t' = mget M_totpRate u m) ->
  SP (upd ts i t') m.
Proof.
  intros H Ei En Hs Hp Hm. constructor.
  - rewrite length_upd. apply (sp_len _ _ H).
  - intros j now' tj Hn Hj. destruct (Nat.eq_dec i j) as [<-|Ne].
    + rewrite (nth_error_upd_same _ _ _ _ Ei) in Hj. inversion Hj; subst. rewrite En in Hn. inversion Hn; subst. exact Hs.
    + rewrite nth_error_upd_other in Hj by exact Ne. eapply (sp_shapes _ _ H); eauto.
  - intros a b ta tb Ha Hb Pa Pb.
    destruct (Nat.eq_dec i a) as [<-|Na]; destruct (Nat.eq_dec i b) as [<-|Nb]; try reflexivity.
    + rewrite (nth_error_upd_same _ _ _ _ Ei) in Ha. inversion Ha; subst.
      rewrite nth_error_upd_other in Hb by exact Nb. eapply (sp_one _ _ H); eauto. apply Hp, Pa.
    + rewrite (nth_error_upd_same _ _ _ _ Ei) in Hb. inversion Hb; subst.
      rewrite nth_error_upd_other in Ha by exact Na. eapply (sp_one _ _ H); eauto. apply Hp, Pb.
    + rewrite nth_error_upd_other in Ha by exact Na. rewrite nth_error_upd_other in Hb by exact Nb. eapply (sp_one _ _ H); eauto.
  - intros j tj Hj Pj Lj. destruct (Nat.eq_dec i j) as [<-|Ne].
    + rewrite (nth_error_upd_same _ _ _ _ Ei) in Hj. inversion Hj; subst.
      destruct (Hp Pj) as [P0 X]. destruct (X Lj) as [L0|S0]; [eapply (sp_stamp _ _ H); eauto|exact S0].
    + rewrite nth_error_upd_other in Hj by exact Ne. eapply (sp_stamp _ _ H); eauto.
  - intros j tj Hj Aj Lj. destruct (Nat.eq_dec i j) as [<-|Ne].
    + rewrite (nth_error_upd_same _ _ _ _ Ei) in Hj. inversion Hj; subst. apply Hm; assumption.
    + rewrite nth_error_upd_other in Hj by exact Ne. eapply (sp_mreg _ _ H); eauto.
Qed.

Definition SI (w : world) : Prop := disc_inv w /\ SP (threads w) (mem w).

Lemma holder_unique w i j ti tj :
  disc_inv w -> nth_error (threads w) i = Some ti -> nth_error (threads w) j = Some tj ->
  held ti = Some L_totp -> held tj = Some L_totp -> i = j.
Proof.
  intros HD Hi Hj Hhi Hhj.
  destruct (HD i ti Hi) as [_ Oi]. destruct (HD j tj Hj) as [_ Oj].
  specialize (Oi _ Hhi). specialize (Oj _ Hhj). congruence.
Qed.

Lemma shape_held_mid now t n :
  prog t = sp_tail now n -> (2 <= n <= 5)%nat ->
  held t = (if (Nat.leb 2 n && Nat.leb n 5)%bool then Some L_totp else None) -> held t = Some L_totp.
Proof.
  intros _ Hn H. rewrite H.
  replace (Nat.leb 2 n) with true by (symmetry; apply Nat.leb_le; lia).
  replace (Nat.leb n 5) with true by (symmetry; apply Nat.leb_le; lia). reflexivity.
Qed.

Lemma sp_step w i : SI w -> SI (step w i).
Proof.
  intros [HD HS]. split; [apply disc_step, HD|].
  unfold step.
  destruct (nth_error (threads w) i) as [t|] eqn:Ei; [|exact HS].
  destruct (now_of _ _ _ _ HS Ei) as [now En].
  pose proof (sp_shapes _ _ HS i now t En Ei) as Hshape.
  destruct Hshape as [[n [Hn [Hp [Ha [Hr Hh]]]]]|[Ha [Hr [[Hp Hh]|[Hp Hh]]]]].
  - (* alive *)
    assert (Hc : (n = 0 \/ n = 1 \/ n = 2 \/ n = 3 \/ n = 4 \/ n = 5 \/ n = 6)%nat) by lia.
    unfold sp_tail in Hp.
    destruct Hc as [->|[->|[->|[->|[->|[->| ->]]]]]]; simpl in Hp, Hr, Hh; rewrite Hp.
    + (* finished *) exact HS.
    + (* Respond 200 *)
      simpl. rewrite Ha. eapply (SP_plain _ _ i t _ now HS Ei En).
      * left. exists 0%nat. simpl. unfold first_resp. rewrite Hr. repeat split; auto; lia.
      * intros P. split; [split; [exact Ha|rewrite Hp; simpl; lia]|]. intros _. left. rewrite Hp. simpl. lia.
      * simpl. intros _ X. discriminate.
    + (* Unlock *)
      simpl. eapply (SP_plain _ _ i t _ now HS Ei En).
      * left. exists 1%nat. simpl. repeat split; auto; lia.
      * intros P. split; [split; [exact Ha|rewrite Hp; simpl; lia]|]. intros _. left. rewrite Hp. simpl. lia.
      * simpl. intros _ X. discriminate.
    + (* MapSet: the stamp *)
      simpl.
      assert (Hin : In now nows) by (eapply nth_error_In; eauto).
      constructor; simpl.
      * rewrite length_upd. apply (sp_len _ _ HS).
      * intros j now' tj Hnj Hj. destruct (Nat.eq_dec i j) as [<-|Ne].
        -- rewrite (nth_error_upd_same _ _ _ _ Ei) in Hj. inversion Hj; subst. rewrite En in Hnj. inversion Hnj; subst.
           left. exists 2%nat. simpl. repeat split; auto; lia.
        -- rewrite nth_error_upd_other in Hj by exact Ne. eapply (sp_shapes _ _ HS); eauto.
      * intros a b ta tb Hxa Hxb Pa Pb.
        assert (Pt : passed t) by (split; [exact Ha|rewrite Hp; simpl; lia]).
        destruct (Nat.eq_dec i a) as [<-|Na]; destruct (Nat.eq_dec i b) as [<-|Nb]; try reflexivity.
        -- rewrite nth_error_upd_other in Hxb by exact Nb. eapply (sp_one _ _ HS); eauto.
        -- rewrite nth_error_upd_other in Hxa by exact Na. eapply (sp_one _ _ HS); eauto.
        -- rewrite nth_error_upd_other in Hxa by exact Na. rewrite nth_error_upd_other in Hxb by exact Nb. eapply (sp_one _ _ HS); eauto.
      * intros j tj Hj Pj Lj. exists now. split; [exact Hin|apply mget_mset_same].
      * intros j tj Hj Aj Lj. destruct (Nat.eq_dec i j) as [<-|Ne].
        -- rewrite (nth_error_upd_same _ _ _ _ Ei) in Hj. inversion Hj; subst. simpl in Lj. discriminate.
        -- rewrite nth_error_upd_other in Hj by exact Ne.
           (* a thread at its CheckMap holds the mutex: it cannot be another one *)
           exfalso. apply Ne.
           destruct (now_of _ _ _ _ HS Hj) as [nowj Enj].
           destruct (sp_shapes _ _ HS j nowj tj Enj Hj) as [[nj [Hnj [Hpj [_ [_ Hhj]]]]]|[Afj _]]; [|congruence].
           assert (nj = 4%nat).
           { rewrite Hpj, sp_tail_length in Lj by exact Hnj. lia. }
           subst nj. eapply (holder_unique w i j t tj HD Ei Hj); [exact Hh|exact Hhj].
    + (* CheckMap *)
      simpl.
      destruct (spacing_ok now (mreg t)) eqn:Eok.
      * (* let through: nobody else is *)
        pose proof (sp_mreg _ _ HS i t Ei Ha ltac:(rewrite Hp; reflexivity)) as Hm.
        assert (Nobody : forall j tj, j <> i -> nth_error (threads w) j = Some tj -> ~ passed tj).
        { intros j tj Ne Hj [Aj Lj].
          destruct (now_of _ _ _ _ HS Hj) as [nowj Enj].
          destruct (sp_shapes _ _ HS j nowj tj Enj Hj) as [[nj [Hnj [Hpj [_ [_ Hhj]]]]]|[Afj _]]; [|congruence].
          assert (Lnj : (nj <= 3)%nat).
          { rewrite Hpj, sp_tail_length in Lj by exact Hnj. lia. }
          destruct (Nat.le_gt_cases 2 nj) as [G|G].
          - (* holds the mutex *)
            apply Ne. symmetry. eapply (holder_unique w i j t tj HD Ei Hj); [exact Hh|].
            apply (shape_held_mid nowj tj nj Hpj); [lia|exact Hhj].
          - (* already stamped: the stamp refuses this attempt *)
            assert (Lj2 : (length (prog tj) <= 2)%nat).
            { rewrite Hpj, sp_tail_length by exact Hnj. lia. }
            destruct (sp_stamp _ _ HS j tj Hj (conj Aj Lj) Lj2) as [k [Hk Hg]].
            rewrite Hm, Hg in Eok. simpl in Eok. apply N.leb_le in Eok.
            assert (In now nows) by (eapply nth_error_In; eauto).
            pose proof (window now k H Hk). lia. }
        constructor; simpl.
        -- rewrite length_upd. apply (sp_len _ _ HS).
        -- intros j now' tj Hnj Hj. destruct (Nat.eq_dec i j) as [<-|Ne].
           ++ rewrite (nth_error_upd_same _ _ _ _ Ei) in Hj. inversion Hj; subst. rewrite En in Hnj. inversion Hnj; subst.
              left. exists 3%nat. simpl. repeat split; auto; lia.
           ++ rewrite nth_error_upd_other in Hj by exact Ne. eapply (sp_shapes _ _ HS); eauto.
        -- intros a b ta tb Hxa Hxb Pa Pb.
           destruct (Nat.eq_dec i a) as [<-|Na]; destruct (Nat.eq_dec i b) as [<-|Nb]; try reflexivity.
           ++ rewrite nth_error_upd_other in Hxb by exact Nb. exfalso. eapply (Nobody b tb); eauto.
           ++ rewrite nth_error_upd_other in Hxa by exact Na. exfalso. eapply (Nobody a ta); eauto.
           ++ rewrite nth_error_upd_other in Hxa by exact Na. rewrite nth_error_upd_other in Hxb by exact Nb. eapply (sp_one _ _ HS); eauto.
        -- intros j tj Hj Pj Lj. destruct (Nat.eq_dec i j) as [<-|Ne].
           ++ rewrite (nth_error_upd_same _ _ _ _ Ei) in Hj. inversion Hj; subst. simpl in Lj. lia.
           ++ rewrite nth_error_upd_other in Hj by exact Ne. eapply (sp_stamp _ _ HS); eauto.
        -- intros j tj Hj Aj Lj. destruct (Nat.eq_dec i j) as [<-|Ne].
           ++ rewrite (nth_error_upd_same _ _ _ _ Ei) in Hj. inversion Hj; subst. simpl in Lj. discriminate.
           ++ rewrite nth_error_upd_other in Hj by exact Ne. eapply (sp_mreg _ _ HS); eauto.
      * (* refused *)
        eapply (SP_plain _ _ i t _ now HS Ei En).
        -- right. unfold fail_hard. simpl. unfold first_resp. rewrite Hr, Hh. simpl. repeat split; auto.
        -- intros [X _]. simpl in X. discriminate.
        -- simpl. intros X. discriminate.
    + (* MapGet *)
      simpl. eapply (SP_plain _ _ i t _ now HS Ei En).
      * left. exists 4%nat. simpl. repeat split; auto; lia.
      * intros [_ X]. simpl in X. lia.
      * simpl. intros _ _. reflexivity.
    + (* Lock *)
      simpl. destruct (owner_of L_totp (owner w)); [exact HS|]. simpl.
      eapply (SP_plain _ _ i t _ now HS Ei En).
      * left. exists 5%nat. simpl. repeat split; auto; lia.
      * intros [_ X]. simpl in X. lia.
      * simpl. intros _ X. discriminate.
  - (* refused, still has to unlock *)
    rewrite Hp. simpl. eapply (SP_plain _ _ i t _ now HS Ei En).
    + right. simpl. repeat split; auto.
    + intros [X _]. simpl in X. congruence.
    + simpl. intros X. congruence.
  - rewrite Hp. exact HS.
Qed.

Lemma sp_run sched : forall w, SI w -> SI (run w sched).
Proof. induction sched as [|i l IH]; intros w H; simpl; [exact H|]. apply IH, sp_step, H. Qed.

Lemma sp_init d s : SI (init_world d s (map (fun now => handler (HSpacing u now)) nows)).
Proof.
  split.
  - apply disc_init. apply Forall_forall. intros p Hp. apply in_map_iff in Hp. destruct Hp as [now [<- _]]. reflexivity.
  - assert (G : forall i now t, nth_error nows i = Some now ->
                nth_error (map mk_thread (map (fun now0 => handler (HSpacing u now0)) nows)) i = Some t ->
                t = mk_thread (handler (HSpacing u now))).
    { intros i now t Hn Ht. rewrite map_map in Ht. rewrite (map_nth_error _ _ _ Hn) in Ht. inversion Ht. reflexivity. }
    assert (NP : forall i t, nth_error (map mk_thread (map (fun now0 => handler (HSpacing u now0)) nows)) i = Some t -> length (prog t) = 6%nat).
    { intros i t Ht. apply nth_error_In in Ht. apply in_map_iff in Ht. destruct Ht as [p [<- Hp]].
      apply in_map_iff in Hp. destruct Hp as [now [<- _]]. reflexivity. }
    constructor; simpl.
    + rewrite !map_length. reflexivity.
    + intros i now t Hn Ht. rewrite (G i now t Hn Ht). left. exists 6%nat. simpl. repeat split; auto.
    + intros i j ti tj Hi Hj [_ Pi] _. rewrite (NP i ti Hi) in Pi. lia.
    + intros i t Hi [_ Pi] _. rewrite (NP i t Hi) in Pi. lia.
    + intros i t Hi _ L. rewrite (NP i t Hi) in L. discriminate.
Qed.

Theorem spacing_atomic d s sched i j ti tj :
  let w := run (init_world d s (map (fun now => handler (HSpacing u now)) nows)) sched in
  nth_error (threads w) i = Some ti -> nth_error (threads w) j = Some tj ->
  resp ti = Some 200 -> resp tj = Some 200 -> i = j.
Proof.
  intros w Hi Hj Ri Rj.
  destruct (sp_run sched _ (sp_init d s)) as [_ HS]. fold w in HS.
  assert (P : forall k t, nth_error (threads w) k = Some t -> resp t = Some 200 -> passed t).
  { intros k t Hk Rk. destruct (now_of _ _ _ _ HS Hk) as [now En].
    destruct (sp_shapes _ _ HS k now t En Hk) as [[n [Hn [Hp [Ha [Hr _]]]]]|[_ [Hr _]]]; [|congruence].
    destruct n; simpl in Hr; [|congruence]. split; [exact Ha|]. rewrite Hp. unfold sp_tail. simpl. lia. }
  eapply (sp_one _ _ HS); eauto.
Qed.

End Spacing.

(* ------------------------------------------------------------------ (4) segment runs are runs *)
Lemma run_app w a b : run w (a ++ b) = run (run w a) b.
Proof. apply fold_left_app. Qed.

Lemma burst_is_run f : forall w i, exists k, burst f w i = run w (repeat i k).
Proof.
  induction f as [|f IH]; intros w i; simpl; [exists 0%nat; reflexivity|].
  destruct (nth_error (threads w) i) as [t|]; [|exists 0%nat; reflexivity].
  destruct (prog t) as [|a r]; [exists 0%nat; reflexivity|].
  destruct (is_yield a); [exists 0%nat; reflexivity|].
  destruct (IH (step w i) i) as [k Hk]. exists (S k). simpl. exact Hk.
Qed.

Lemma fold_runs (f : world -> nat -> world) :
  (forall w i, exists s, f w i = run w s) -> forall l w, exists s, fold_left f l w = run w s.
Proof.
  intros H. induction l as [|i l IH]; intros w; simpl; [exists []; reflexivity|].
  destruct (H w i) as [s1 H1]. destruct (IH (f w i)) as [s2 H2]. exists (s1 ++ s2).
  rewrite run_app, <- H1. exact H2.
Qed.

Lemma seg_is_run w i : exists s, seg w i = run w s.
Proof.
  unfold seg. destruct (burst_is_run (fuel_of (step w i) i) (step w i) i) as [k Hk].
  exists (i :: repeat i k). simpl. exact Hk.
Qed.

Theorem segments_are_runs w sched : exists s, run_seg w sched = run w s.
Proof.
  unfold run_seg, start.
  destruct (fold_runs (fun w i => burst (fuel_of w i) w i)
              (fun w i => let (k, Hk) := burst_is_run (fuel_of w i) w i in ex_intro _ (repeat i k) Hk)
              (seq 0 (length (threads w))) w) as [s1 H1].
  destruct (fold_runs seg seg_is_run sched (fold_left (fun w i => burst (fuel_of w i) w i) (seq 0 (length (threads w))) w)) as [s2 H2].
  exists (s1 ++ s2). rewrite run_app, <- H1. exact H2.
Qed.

(* ------------------------------------------------------------------ (5) what is false *)
Definition racing (w : world) (i j : nat) : bool :=
  match nth_error (threads w) i, nth_error (threads w) j with
  | Some ti, Some tj =>
      match at_map ti, at_map tj with
      | Some (m1, b1), Some (m2, b2) => (m1 =? m2) && (b1 || b2)
      | _, _ => false
      end
  | _, _ => false
  end.

Lemma racing_sound w i j : i <> j -> racing w i j = true -> data_race w.
Proof.
  intros Ne H. unfold racing in H.
  destruct (nth_error (threads w) i) as [ti|] eqn:Ei; [|discriminate].
  destruct (nth_error (threads w) j) as [tj|] eqn:Ej; [|discriminate].
  destruct (at_map ti) as [[m1 b1]|] eqn:Ai; [|discriminate].
  destruct (at_map tj) as [[m2 b2]|] eqn:Aj; [|discriminate].
  apply andb_true_iff in H. destruct H as [Hm Hb]. apply N.eqb_eq in Hm. subst m2.
  exists i, j, ti, tj, m1, b1, b2. repeat split; auto. apply orb_true_iff in Hb. exact Hb.
Qed.

Definition tk (i n : N) : token := {| t_idx := i; t_enabled := true; t_name := n |}.
Definition ex_db : db :=
  [(1, {| toks := [tk 1 11; tk 2 12]; botp := None; last_totp := 0 |});
   (2, {| toks := []; botp := Some 7; last_totp := 0 |})].

(* the sign-response handler as it was (delete outside the mutex) races with a sign request *)
Lemma old_unlocked_delete :
  exists sched, data_race (run (init_world ex_db [(M_localAuth, 1, 3)] [handler (HU2fSignRespOld 1 3); handler (HU2fSignReq 1 5)]) sched).
Proof.
  exists [0; 0; 0; 0; 0; 0; 0; 1; 1; 1]%nat. apply (racing_sound _ 0%nat 1%nat); [discriminate|]. vm_compute. reflexivity.
Qed.

(* disable || rename on one user: both acknowledged, the token is still enabled; no sequential order does that *)
Definition lost_w0 : world := init_world ex_db [] [handler (HTokDisable 1 1); handler (HTokRename 1 1 21)].
Lemma lost_update :
  exists sched, let w := run lost_w0 sched in
    map resp (threads w) = [Some 200; Some 200] /\
    get 1 (store w) = Some {| toks := [{| t_idx := 1; t_enabled := true; t_name := 21 |}; tk 2 12]; botp := None; last_totp := 0 |} /\
    serializable_outcome [1; 2] lost_w0 w = false.
Proof. exists [0; 1; 0; 0; 0; 1; 1; 1]%nat. vm_compute. repeat split; reflexivity. Qed.

(* one bootstrap OTP presented twice at the same moment: both accepted; sequentially exactly one is *)
Definition spend_w0 : world := init_world ex_db [] [handler (HBootAuth 2 7); handler (HBootAuth 2 7)].
Lemma double_spend :
  exists sched, let w := run spend_w0 sched in
    map resp (threads w) = [Some 200; Some 200] /\
    serializable_outcome [1; 2] spend_w0 w = false /\
    forallb (fun o => let '(r, _, _) := o in negb (list_eqb oN_eq r [Some 200; Some 200])) (serial_outcomes [1; 2] spend_w0) = true.
Proof. exists [0; 1; 0; 0; 0; 0; 1; 1; 1; 1]%nat. vm_compute. repeat split; reflexivity. Qed.

(* an acknowledged deletion of a user is undone by a concurrent rename that had loaded the profile before *)
Definition undo_w0 : world := init_world ex_db [] [handler (HDelUser 1); handler (HTokRename 1 1 21)].
Lemma delete_undone :
  exists sched, let w := run undo_w0 sched in
    map resp (threads w) = [Some 200; Some 200] /\ is_some (get 1 (store w)) = true /\
    serializable_outcome [1; 2] undo_w0 w = false.
Proof. exists [1; 0; 0; 1; 1; 1]%nat. vm_compute. repeat split; reflexivity. Qed.

(* non-vacuity: sequential orders are serializable, the handlers do something *)
Example serial_is_serializable :
  serializable_outcome [1; 2] lost_w0 (run lost_w0 [0; 0; 0; 0; 1; 1; 1; 1]%nat) = true /\
  get 1 (store (run lost_w0 [0; 0; 0; 0; 1; 1; 1; 1]%nat)) =
    Some {| toks := [{| t_idx := 1; t_enabled := false; t_name := 21 |}; tk 2 12]; botp := None; last_totp := 0 |}.
Proof. vm_compute. split; reflexivity. Qed.

(* two simultaneous TOTP attempts with a valid code: one gets through, at segment granularity *)
Example totp_pair :
  map resp (threads (run_seg (init_world ex_db [] [handler (HTotpAuth 1 100 1000 true); handler (HTotpAuth 1 100 1000 true)]) [0; 1; 0; 1; 0; 0]%nat))
  = [Some 200; Some 401].
Proof. vm_compute. reflexivity. Qed.

