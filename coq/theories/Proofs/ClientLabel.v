(* C19 — proofs about Model/ClientLabel.v: repeated installations under one label, for every label byte string *)
From KM Require Import Base.Bytes Base.Tactics Model.Client Proofs.Client.
From KM Require Import Model.ClientLabel.

Arguments is_dup : simpl never.

Lemma install_cert_upsert label blob a : install_cert label blob a = upsert (mkEntry label blob true) a.
Proof. reflexivity. Qed.

Lemma install_many_cons label b blobs a :
  install_many label (b :: blobs) a = install_many label blobs (install_cert label b a).
Proof. reflexivity. Qed.

Lemma is_dup_new label blob : is_dup label (mkEntry label blob true) = true.
Proof. unfold is_dup. simpl. apply bs_eqb_refl. Qed.

(* k >= 1 installations under one label, the last one with blob `last`: exactly that certificate is under the
   label; everything that was there before, is not a certificate under the label and has none of the installed
   blobs is still there; nothing else appeared; blobs stay unique *)
Lemma install_many_replaces label : forall blobs last a, NoDup (map e_blob a) ->
  let n := mkEntry label last true in
  let a' := install_many label (blobs ++ [last]) a in
  under_label label a' = [n] /\
  (forall e, In e a -> is_dup label e = false -> ~ In (e_blob e) (blobs ++ [last]) -> In e a') /\
  (forall e, In e a' -> e = n \/ (In e a /\ is_dup label e = false)) /\
  NoDup (map e_blob a').
Proof.
  induction blobs as [|b r IH]; intros last a N n a'; subst a'.
  - simpl. change (install_many label [last] a) with (upsert n a).
    destruct (agent_replace n a N eq_refl) as (A & B & C & D). simpl in A, B, C.
    split; [exact A|]. split; [|split; [exact C|exact D]].
    intros e He De Ne. apply B; [exact He|exact De|]. intro E. apply Ne. left. symmetry. exact E.
  - simpl app. rewrite install_many_cons. rewrite install_cert_upsert.
    set (nb := mkEntry label b true).
    destruct (agent_replace nb a N eq_refl) as (A & B & C & D). simpl in A, B, C.
    destruct (IH last (upsert nb a) D) as (A' & B' & C' & D'). fold n in A', C'.
    split; [exact A'|]. split; [|split; [|exact D']].
    + intros e He De Ne. apply B'; [|exact De|].
      * apply B; [exact He|exact De|]. intro E. apply Ne. left. symmetry. exact E.
      * intro H. apply Ne. right. exact H.
    + intros e He. destruct (C' e He) as [->|[H1 H2]]; [left; reflexivity|]. right.
      destruct (C e H1) as [->|H3]; [|exact H3].
      unfold nb in H2. rewrite is_dup_new in H2. discriminate.
Qed.

(* certificates under ANOTHER label (a prefix of the label, the label in another case, ... : any different
   byte string) are exactly the ones that were there, as long as the new blob is not one of theirs *)
Lemma is_dup_other label label' e : label <> label' -> is_dup label' e = true -> is_dup label e = false.
Proof.
  intros Ne D. unfold is_dup in *. apply andb_true_iff in D. destruct D as [C E]. apply bs_eqb_eq in E.
  rewrite C. simpl. apply bs_eqb_neq. intro H. apply Ne. rewrite <- H. exact E.
Qed.

Lemma install_other_label label label' blob a : NoDup (map e_blob a) -> label <> label' ->
  (forall e, In e a -> is_dup label' e = true -> e_blob e <> blob -> In e (install_cert label blob a)) /\
  (forall e, In e (install_cert label blob a) -> is_dup label' e = true -> In e a).
Proof.
  intros N Ne. rewrite install_cert_upsert. set (n := mkEntry label blob true).
  destruct (agent_replace n a N eq_refl) as (A & B & C & D). simpl in A, B, C. split.
  - intros e He De Nb. apply B; [exact He|apply (is_dup_other label label' e Ne De)|exact Nb].
  - intros e He De. destruct (C e He) as [->|[H _]]; [|exact H].
    exfalso. unfold n, is_dup in De. simpl in De. apply bs_eqb_eq in De. apply Ne. exact De.
Qed.

(* storing a normalised comment while looking for the raw label: two runs, two certificates *)
Definition ex_label : bs := [106; 111; 104; 110; 32; 115].    (* "john s" *)
Lemma normalised_comment_accumulates :
  let a' := install_many_with normalised_comment ex_label [[1]; [2]] [] in
  length (certs_of a') = 2%nat /\ under_label ex_label a' = [].
Proof. vm_compute. split; reflexivity. Qed.

Lemma normalised_comment_examples :
  normalised_comment [32; 97; 9; 10; 98; 32] = [97; 95; 98] /\ normalised_comment [97; 98] = [97; 98].
Proof. vm_compute. split; reflexivity. Qed.
