(* C14 — proofs about the token bucket model *)
From Coq Require Import List ZArith Bool Lia.
From KM Require Import Base.Tactics Model.Limiter.
Import ListNotations.
Open Scope Z_scope.

(* positive rate, positive cost, non-negative cap *)
Definition wf (c : cfg) : Prop := 0 < p c /\ 0 < C c /\ 0 <= B c.

(* reachable limiter states: never above the cap, never at or below -p *)
Definition ok_state (c : cfg) (s : st) : Prop := T s <= B c /\ - p c < T s.

Fixpoint nondecr_from (t0 : Z) (ts : list Z) : Prop :=
  match ts with [] => True | t :: r => t0 <= t /\ nondecr_from t r end.

Lemma nondecr_weaken a b ts : a <= b -> nondecr_from b ts -> nondecr_from a ts.
Proof. destruct ts as [|t r]; simpl; [auto|]. intros Hab [Hb Hr]. split; [lia|exact Hr]. Qed.

Lemma nondecr_all_ge t0 ts : nondecr_from t0 ts -> forall t, In t ts -> t0 <= t.
Proof.
  revert t0. induction ts as [|a r IH]; intros t0 H t Hin; [destruct Hin|].
  simpl in H. destruct H as [Ha Hr]. destruct Hin as [<-|Hin]; [exact Ha|].
  specialize (IH a Hr t Hin). lia.
Qed.

Lemma init_ok c t : wf c -> ok_state c (init c t).
Proof. intros [Hp [HC HB]]. unfold ok_state, init; simpl. lia. Qed.

(* tokens available at time t >= last s *)
Definition level (c : cfg) (s : st) (t : Z) : Z := Z.min (T s + (t - last s) * p c) (B c).

Lemma advance_level c s t : last s <= t -> advance c s t = level c s t.
Proof. intros H. unfold advance, level. rewrite (Z.min_l (last s) t) by lia. reflexivity. Qed.

Lemma allow_cases c s t : last s <= t ->
  (allow c s t = ({| last := t; T := level c s t - C c |}, true) /\ - p c < level c s t - C c /\ C c <= B c)
  \/ (allow c s t = (s, false)).
Proof.
  intros H. unfold allow. rewrite (advance_level c s t H).
  destruct (C c <=? B c) eqn:E1; simpl; [|right; reflexivity].
  destruct (- p c <? level c s t - C c) eqn:E2; [left|right; reflexivity].
  apply Z.leb_le in E1. apply Z.ltb_lt in E2. auto.
Qed.

Lemma allow_ok_state c s t : wf c -> ok_state c s -> last s <= t -> ok_state c (fst (allow c s t)).
Proof.
  intros [Hp [HC HB]] [H1 H2] Ht. destruct (allow_cases c s t Ht) as [[E [E2 _]]|E]; rewrite E; simpl.
  - unfold ok_state; simpl. unfold level in *. lia.
  - split; assumption.
Qed.

Lemma allow_last c s t : last s <= t -> last s <= last (fst (allow c s t)) <= t.
Proof. intros Ht. destruct (allow_cases c s t Ht) as [[E _]|E]; rewrite E; simpl; lia. Qed.

(* nothing inside the window once the limiter's clock is past it *)
Lemma calls_after c t0 t1 : forall ts s, t1 < last s -> nondecr_from (last s) ts -> calls c s t0 t1 ts = 0.
Proof.
  induction ts as [|t r IH]; intros s Hl Hnd; [reflexivity|].
  simpl in Hnd. destruct Hnd as [Ht Hr]. cbn [calls].
  destruct (allow_cases c s t Ht) as [[E _]|E]; rewrite E.
  - replace (t <=? t1) with false by (symmetry; apply Z.leb_gt; lia).
    rewrite andb_false_r. rewrite IH; [reflexivity|simpl; lia|exact Hr].
  - simpl. rewrite IH; [reflexivity|exact Hl|]. apply (nondecr_weaken _ t); [exact Ht|exact Hr].
Qed.

Lemma calls_nonneg c t0 t1 : forall ts s, 0 <= calls c s t0 t1 ts.
Proof.
  induction ts as [|t r IH]; intros s; [simpl; lia|]. cbn [calls].
  destruct (allow c s t) as [s' ok]. specialize (IH s').
  destruct (ok && (t0 <=? t) && (t <=? t1)); lia.
Qed.

Lemma level_gt c s t : wf c -> ok_state c s -> last s <= t -> - p c < level c s t.
Proof.
  intros [Hp [HC HB]] [H1 H2] Ht. unfold level.
  assert (0 <= (t - last s) * p c) by (apply Z.mul_nonneg_nonneg; lia). lia.
Qed.

Lemma level_le_B c s t : level c s t <= B c.
Proof. unfold level. lia. Qed.

Lemma level_step c s a b : wf c -> a <= b ->
  level c s b <= level c s a + (b - a) * p c.
Proof.
  intros [Hp _] Hab. unfold level.
  assert (0 <= (b - a) * p c) by (apply Z.mul_nonneg_nonneg; lia).
  replace ((b - last s) * p c) with ((a - last s) * p c + (b - a) * p c) by ring. lia.
Qed.

(* the accounting invariant: allowed requests inside [t0,t1] are paid for by what is in the
   bucket when the window opens plus the refill during the window *)
Lemma calls_bound c t0 t1 : wf c -> forall ts s,
  ok_state c s -> nondecr_from (last s) ts -> last s <= t1 -> t0 <= t1 ->
  calls c s t0 t1 ts * C c < level c s (Z.max t0 (last s)) + (t1 - Z.max t0 (last s)) * p c + p c.
Proof.
  intros W. pose proof W as [Hp [HC HB]].
  induction ts as [|t r IH]; intros s Hs Hnd Hl H01.
  - simpl. pose proof (level_gt c s (Z.max t0 (last s)) W Hs ltac:(lia)).
    assert (0 <= (t1 - Z.max t0 (last s)) * p c) by (apply Z.mul_nonneg_nonneg; lia). lia.
  - simpl in Hnd. destruct Hnd as [Ht Hr]. cbn [calls].
    pose proof (allow_ok_state c s t W Hs Ht) as Hs'.
    destruct (allow_cases c s t Ht) as [[E [E2 E3]]|E]; rewrite E in *; simpl in Hs'.
    + (* allowed *)
      set (s' := {| last := t; T := level c s t - C c |}) in *.
      destruct (Z_lt_le_dec t1 t) as [Hgt|Hle].
      * (* after the window: not counted, nothing later is *)
        replace (t <=? t1) with false by (symmetry; apply Z.leb_gt; lia).
        rewrite andb_false_r. rewrite (calls_after c t0 t1 r s'); [|simpl; lia|exact Hr].
        pose proof (level_gt c s (Z.max t0 (last s)) W Hs ltac:(lia)).
        assert (0 <= (t1 - Z.max t0 (last s)) * p c) by (apply Z.mul_nonneg_nonneg; lia). lia.
      * specialize (IH s' Hs' Hr Hle H01). cbn [last s'] in IH.
        destruct (Z_lt_le_dec t t0) as [Hb|Hin].
        -- (* before the window *)
           replace (t0 <=? t) with false by (symmetry; apply Z.leb_gt; lia).
           rewrite andb_false_r. cbn [andb]. rewrite Z.add_0_l.
           rewrite (Z.max_l t0 t) in IH by lia. rewrite (Z.max_l t0 (last s)) by lia.
           (* level s' t0 <= level s t0 *)
           assert (Hlev : level c s' t0 <= level c s t0).
           { pose proof (level_step c s t t0 W ltac:(lia)) as L.
             unfold level at 1. cbn [last T s']. pose proof (level_le_B c s t0).
             unfold level in L |- *. lia. }
           lia.
        -- replace (t0 <=? t) with true by (symmetry; apply Z.leb_le; lia).
           replace (t <=? t1) with true by (symmetry; apply Z.leb_le; lia). cbn [andb].
           rewrite (Z.max_r t0 t) in IH by lia.
           assert (Hlev : level c s' t <= level c s t - C c).
           { unfold level at 1. cbn [last T s']. lia. }
           pose proof (level_step c s (Z.max t0 (last s)) t W ltac:(lia)) as L.
           replace ((t1 - Z.max t0 (last s)) * p c)
             with ((t - Z.max t0 (last s)) * p c + (t1 - t) * p c) by ring.
           lia.
    + (* refused: state unchanged *)
      cbn [andb]. rewrite Z.add_0_l. apply IH; [exact Hs| |exact Hl|exact H01].
      apply (nondecr_weaken _ t); [exact Ht|exact Hr].
Qed.

Theorem bucket_window c t_init ts t0 t1 :
  wf c -> nondecr_from t_init ts -> t0 <= t1 ->
  calls c (init c t_init) t0 t1 ts * C c < B c + (t1 - t0) * p c + p c.
Proof.
  intros W Hnd H01. pose proof W as [Hp [HC HB]].
  destruct (Z_lt_le_dec t1 t_init) as [Hgt|Hle].
  - rewrite calls_after; [nia|simpl; lia|exact Hnd].
  - pose proof (calls_bound c t0 t1 W ts (init c t_init) (init_ok c t_init W) Hnd Hle H01) as Hb.
    cbn [last init] in Hb. unfold level in Hb. cbn [T last init] in Hb. nia.
Qed.

(* with a rate of at most 10^9 tokens per second (p <= C) the slack is at most one request *)
Corollary bucket_window_plus1 c t_init ts t0 t1 :
  wf c -> p c <= C c -> nondecr_from t_init ts -> t0 <= t1 ->
  calls c (init c t_init) t0 t1 ts * C c < B c + (t1 - t0) * p c + C c.
Proof. intros W Hpc Hnd H01. pose proof (bucket_window c t_init ts t0 t1 W Hnd H01). lia. Qed.

(* the same from any reachable state, e.g. in the middle of a run *)
Theorem bucket_window_from c s ts t0 t1 :
  wf c -> ok_state c s -> nondecr_from (last s) ts -> t0 <= t1 ->
  calls c s t0 t1 ts * C c < B c + (t1 - t0) * p c + p c.
Proof.
  intros W Hs Hnd H01. pose proof W as [Hp [HC HB]].
  destruct (Z_lt_le_dec t1 (last s)) as [Hgt|Hle].
  - rewrite calls_after; [nia|exact Hgt|exact Hnd].
  - pose proof (calls_bound c t0 t1 W ts s Hs Hnd Hle H01) as Hb. unfold level in Hb. nia.
Qed.

(* calls counts exactly the `true` decisions inside the window *)
Lemma calls_decisions c t0 t1 : forall ts s,
  calls c s t0 t1 ts =
  Z.of_nat (length (filter (fun x : Z * bool => snd x && (t0 <=? fst x) && (fst x <=? t1))
                           (combine ts (decisions c s ts)))).
Proof.
  induction ts as [|t r IH]; intros s; [reflexivity|].
  cbn [calls decisions]. destruct (allow c s t) as [s' ok]. cbn [combine filter fst snd].
  rewrite IH. destruct (ok && (t0 <=? t) && (t <=? t1)); cbn [length]; lia.
Qed.

(* ---- handlers ---- *)
Lemma login_step_429 c s e t a :
  status (snd (login_step c s e t a)) = 429 <-> backend_called (snd (login_step c s e t a)) = false.
Proof.
  unfold login_step. destruct (allow c s t) as [s' ok]. destruct ok; simpl.
  - destruct a; split; intros H; discriminate.
  - split; reflexivity.
Qed.

Lemma login_step_refused c s e t a :
  snd (allow c s t) = false ->
  login_step c s e t a = (s, {| status := 429; backend_called := false; lookups := 0 |}).
Proof.
  unfold login_step, allow.
  destruct ((C c <=? B c) && (- p c <? advance c s t - C c)); simpl; [discriminate|reflexivity].
Qed.

Lemma login_step_state c s e t a : fst (login_step c s e t a) = fst (allow c s t).
Proof. unfold login_step. destruct (allow c s t) as [s' ok]. destruct ok; reflexivity. Qed.

Lemma login_step_called c s e t a : backend_called (snd (login_step c s e t a)) = snd (allow c s t).
Proof. unfold login_step. destruct (allow c s t) as [s' ok]. destruct ok; reflexivity. Qed.

(* the entry point and the backend's answer do not influence the limiter *)
Lemma login_run_calls c : forall reqs s,
  map backend_called (login_run c s reqs) = decisions c s (map (fun r => snd (fst r)) reqs).
Proof.
  induction reqs as [|[[e t] a] r IH]; intros s; [reflexivity|].
  cbn [login_run map decisions fst snd].
  pose proof (login_step_state c s e t a) as E1. pose proof (login_step_called c s e t a) as E2.
  destruct (login_step c s e t a) as [s1 o]. destruct (allow c s t) as [s2 ok]. simpl in *. subst.
  rewrite IH. reflexivity.
Qed.

(* ---- clamps ---- *)
Definition frate_ge1 (r : frate) : Prop :=
  match r with Fin n d => 0 < d -> d <= n | PInf => True | NInf => False | NaN => False end.

Lemma clamp_burst_ge b : 10 <= clamp_burst b.
Proof. unfold clamp_burst, min_burst. destruct (b <? 10) eqn:E; [lia|]. apply Z.ltb_ge in E. exact E. Qed.

Lemma clamp_rate_ge r : frate_ge1 (clamp_rate r).
Proof.
  unfold clamp_rate. destruct (rate_ge1 r) eqn:E.
  - destruct r; simpl in *; try discriminate; auto. intros _. apply Z.leb_le in E. exact E.
  - simpl. lia.
Qed.

Lemma clamp_rate_keeps r : rate_ge1 r = true -> clamp_rate r = r.
Proof. unfold clamp_rate. intros ->. reflexivity. Qed.

Lemma clamp_rate_old_nan : clamp_rate_old NaN = NaN /\ ~ frate_ge1 (clamp_rate_old NaN).
Proof. split; [reflexivity|]. simpl. auto. Qed.

(* ---- the bound stated on what the handlers do: backend invocations inside a window ---- *)
Definition req_time (r : entry * Z * backend_answer) : Z := snd (fst r).

Definition backend_calls_in (t0 t1 : Z) (ts : list Z) (outs : list login_out) : Z :=
  Z.of_nat (length (filter (fun x : Z * login_out => backend_called (snd x) && (t0 <=? fst x) && (fst x <=? t1))
                           (combine ts outs))).

Lemma filter_combine_map {A B C} (g : B -> C) (f : C -> A -> bool) : forall (l1 : list A) (l2 : list B),
  length (filter (fun x => f (g (snd x)) (fst x)) (combine l1 l2)) =
  length (filter (fun x => f (snd x) (fst x)) (combine l1 (map g l2))).
Proof.
  induction l1 as [|a r IH]; intros l2; [reflexivity|]. destruct l2 as [|b l2]; [reflexivity|].
  cbn [combine map filter fst snd]. destruct (f (g b) a); cbn [length]; rewrite IH; reflexivity.
Qed.

Theorem backend_window c t_init reqs t0 t1 :
  wf c -> nondecr_from t_init (map req_time reqs) -> t0 <= t1 ->
  backend_calls_in t0 t1 (map req_time reqs) (login_run c (init c t_init) reqs) * C c
    < B c + (t1 - t0) * p c + p c.
Proof.
  intros W Hnd H01. unfold backend_calls_in.
  rewrite (filter_combine_map backend_called (fun b t => b && (t0 <=? t) && (t <=? t1))).
  rewrite login_run_calls. fold req_time.
  change (map (fun r : entry * Z * backend_answer => snd (fst r)) reqs) with (map req_time reqs).
  rewrite <- calls_decisions. apply bucket_window; assumption.
Qed.

(* the order of the two calls: when the backend is asked, the limiter has already been charged for
   this attempt — the state the backend would see if it looked is the state after Allow() *)
Lemma limiter_first c s e t a :
  backend_called (snd (login_step c s e t a)) = true ->
  T (fst (login_step c s e t a)) = advance c s t - C c /\ last (fst (login_step c s e t a)) = t.
Proof.
  unfold login_step, allow.
  destruct ((C c <=? B c) && (- p c <? advance c s t - C c)); cbn [fst snd backend_called T last]; [auto|discriminate].
Qed.

(* ---- lookups: one per token, whatever the backend answers ---- *)
Definition areq_time (r : entry * Z * answers) : Z := snd (fst r).

Lemma ask_once a : ask 1 a = (1, first_answer a).
Proof. unfold ask. destruct (first_answer a); reflexivity. Qed.

(* the code's checkUserPassword (one try) is login_step on the first answer *)
Lemma login_step_tries_code c s e t a :
  login_step_tries code_tries c s e t a = login_step c s e t (first_answer a).
Proof.
  unfold login_step_tries, login_step, code_tries. destruct (allow c s t) as [s' ok].
  destruct ok; [|reflexivity]. rewrite ask_once. unfold status_of.
  destruct (first_answer a); reflexivity.
Qed.

(* every attempt that is let through performs exactly one lookup, every refused one none: for every request
   sequence and EVERY answer stream of the backend (good, bad, failing always or now and then) *)
Theorem one_lookup_per_token c : forall (reqs : list (entry * Z * answers)) s,
  map lookups (login_run_tries code_tries c s reqs)
  = map (fun ok : bool => if ok then 1 else 0) (decisions c s (map areq_time reqs)).
Proof.
  induction reqs as [|[[e t] a] r IH]; intros s; [reflexivity|].
  cbn [login_run_tries map decisions areq_time fst snd].
  unfold login_step_tries, code_tries. destruct (allow c s t) as [s' ok]. destruct ok.
  - rewrite ask_once. cbn [map lookups]. rewrite IH. reflexivity.
  - cbn [map lookups]. rewrite IH. reflexivity.
Qed.

Lemma lookups_calls c t0 t1 : forall (reqs : list (entry * Z * answers)) s,
  lookups_in t0 t1 (map areq_time reqs) (login_run_tries code_tries c s reqs)
  = calls c s t0 t1 (map areq_time reqs).
Proof.
  induction reqs as [|[[e t] a] r IH]; intros s; [reflexivity|].
  cbn [login_run_tries map calls areq_time fst snd].
  unfold login_step_tries, code_tries. destruct (allow c s t) as [s' ok]. destruct ok.
  - rewrite ask_once. cbn [lookups_in lookups]. rewrite IH. cbn [andb].
    destruct ((t0 <=? t) && (t <=? t1)); reflexivity.
  - cbn [lookups_in lookups andb]. rewrite IH. destruct ((t0 <=? t) && (t <=? t1)); reflexivity.
Qed.

(* the bound of the property counted in LOOKUPS (invocations of the backend), not in attempts *)
Theorem lookups_window c t_init (reqs : list (entry * Z * answers)) t0 t1 :
  wf c -> nondecr_from t_init (map areq_time reqs) -> t0 <= t1 ->
  lookups_in t0 t1 (map areq_time reqs) (login_run_tries code_tries c (init c t_init) reqs) * C c
    < B c + (t1 - t0) * p c + p c.
Proof. intros W Hnd H01. rewrite lookups_calls. apply bucket_window; assumption. Qed.

(* one retry after an error: against a backend that keeps failing, twelve guesses at one instant
   on a fresh limiter (burst 10, one token per second) cost twenty lookups *)
Definition retry_cfg : cfg := mkcfg 1 1 10.
Definition retry_burst : list (entry * Z * answers) :=
  map (fun e => (e, 5, [PwError; PwError; PwError]))
      [Form; BasicAuth; Form; BasicAuth; Form; BasicAuth; Form; BasicAuth; Form; BasicAuth; Form; BasicAuth].

Lemma retry_exceeds :
  nondecr_from 0 (map areq_time retry_burst) /\
  B retry_cfg + (5 - 5) * p retry_cfg + p retry_cfg
    <= lookups_in 5 5 (map areq_time retry_burst) (login_run_tries 2 retry_cfg (init retry_cfg 0) retry_burst) * C retry_cfg /\
  lookups_in 5 5 (map areq_time retry_burst) (login_run_tries 2 retry_cfg (init retry_cfg 0) retry_burst) = 20.
Proof. vm_compute. repeat split; discriminate. Qed.

Lemma retry_on_error_refuted : exists c t_init (reqs : list (entry * Z * answers)) t0 t1,
  wf c /\ nondecr_from t_init (map areq_time reqs) /\ t0 <= t1 /\
  B c + (t1 - t0) * p c + p c
    <= lookups_in t0 t1 (map areq_time reqs) (login_run_tries 2 c (init c t_init) reqs) * C c.
Proof.
  exists retry_cfg, 0, retry_burst, 5, 5. destruct retry_exceeds as [Hn [Hb _]].
  split; [unfold wf, retry_cfg, mkcfg; simpl; lia|]. split; [exact Hn|]. split; [lia|exact Hb].
Qed.

