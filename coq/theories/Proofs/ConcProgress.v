(* C16 — nobody waits for ever: a request blocked at a Lock is blocked by a request that can run *)
From KM Require Import Base.Bytes Base.Tactics Model.Conc Proofs.Conc.
Open Scope N_scope.

Lemma owner_of_release_same l o : owner_of l (release l o) = None.
Proof.
  induction o as [|[k i] o IH]; simpl; [reflexivity|].
  destruct (k =? l) eqn:E; [exact IH|]. simpl. rewrite E. exact IH.
Qed.

(* the owner table says nothing that is not true: an owner is a thread that holds that mutex *)
Definition own_inv (w : world) : Prop :=
  forall l j, owner_of l (owner w) = Some j -> exists t, nth_error (threads w) j = Some t /\ held t = Some l.

Lemma cs_ok_unlock_ahead l p : cs_ok (Some l) p = true -> In (Unlock l) p.
Proof.
  induction p as [|a r IH]; simpl; [discriminate|].
  destruct a; intros H; try (right; apply IH; exact H);
    try (apply andb_true_iff in H; destruct H as [H1 H2]).
  - discriminate.
  - simpl in H1. apply N.eqb_eq in H1. subst. left. reflexivity.
  - right. apply IH. exact H2.
  - right. apply IH. exact H2.
  - right. apply IH. exact H2.
  - right. apply IH. exact H2.
Qed.

Lemma own_step w i : disc_inv w -> own_inv w -> own_inv (step w i).
Proof.
  intros HD HO. unfold step.
  destruct (nth_error (threads w) i) as [t|] eqn:Ei; [|exact HO].
  destruct (prog t) as [|a r] eqn:Ep; [exact HO|].
  destruct (HD i t Ei) as [Hcs Hown]. rewrite Ep in Hcs.
  (* actions that leave the owner table and the stepping thread's `held` alone *)
  assert (Keep : forall t', held t' = held t ->
     own_inv (set_threads w (upd (threads w) i t'))).
  { intros t' Hh l j Hl. simpl in Hl. destruct (HO l j Hl) as [tj [Hj Hhj]].
    destruct (Nat.eq_dec i j) as [<-|Ne].
    - exists t'. simpl. split; [eapply nth_error_upd_same; eauto|]. rewrite Hh. congruence.
    - exists tj. simpl. split; [rewrite nth_error_upd_other by exact Ne; exact Hj|exact Hhj]. }
  destruct a.
  - apply Keep. reflexivity.
  - destruct (c (loaded_opt t)); apply Keep; reflexivity.
  - destruct (c (loaded_opt t)); apply Keep; reflexivity.
  - destruct (alive t); [|apply Keep; reflexivity].
    intros l j Hl. simpl in Hl. destruct (HO l j Hl) as [tj [Hj Hhj]].
    destruct (Nat.eq_dec i j) as [<-|Ne].
    + eexists. simpl. split; [eapply nth_error_upd_same; eauto|]. simpl. congruence.
    + exists tj. simpl. split; [rewrite nth_error_upd_other by exact Ne; exact Hj|exact Hhj].
  - intros l j Hl. simpl in Hl. destruct (HO l j Hl) as [tj [Hj Hhj]].
    destruct (Nat.eq_dec i j) as [<-|Ne].
    + eexists. simpl. split; [eapply nth_error_upd_same; eauto|]. simpl. congruence.
    + exists tj. simpl. split; [rewrite nth_error_upd_other by exact Ne; exact Hj|exact Hhj].
  - (* Lock *)
    simpl in Hcs. apply andb_true_iff in Hcs. destruct Hcs as [Hn _]. apply is_none_true in Hn.
    destruct (owner_of l (owner w)) eqn:Eo; [exact HO|].
    intros l0 j Hl. simpl in Hl. destruct (l =? l0) eqn:E.
    + apply N.eqb_eq in E. subst l0. inversion Hl; subst j.
      eexists. simpl. split; [eapply nth_error_upd_same; eauto|]. reflexivity.
    + destruct (HO l0 j Hl) as [tj [Hj Hhj]].
      destruct (Nat.eq_dec i j) as [<-|Ne]; [congruence|].
      exists tj. simpl. split; [rewrite nth_error_upd_other by exact Ne; exact Hj|exact Hhj].
  - (* Unlock *)
    simpl in Hcs. apply andb_true_iff in Hcs. destruct Hcs as [Hh _]. apply oN_eqb_true in Hh.
    pose proof (Hown l Hh) as Ho. rewrite Ho. rewrite Nat.eqb_refl.
    intros l0 j Hl. simpl in Hl.
    destruct (N.eq_dec l l0) as [<-|Nl]; [rewrite owner_of_release_same in Hl; discriminate|].
    rewrite owner_of_release_other in Hl by exact Nl.
    destruct (HO l0 j Hl) as [tj [Hj Hhj]].
    destruct (Nat.eq_dec i j) as [<-|Ne]; [congruence|].
    exists tj. simpl. split; [rewrite nth_error_upd_other by exact Ne; exact Hj|exact Hhj].
  - apply Keep. reflexivity.
  - destruct (c (mreg t)); apply Keep; reflexivity.
  - intros l j Hl. simpl in Hl. destruct (HO l j Hl) as [tj [Hj Hhj]].
    destruct (Nat.eq_dec i j) as [<-|Ne].
    + eexists. simpl. split; [eapply nth_error_upd_same; eauto|]. simpl. congruence.
    + exists tj. simpl. split; [rewrite nth_error_upd_other by exact Ne; exact Hj|exact Hhj].
  - intros l j Hl. simpl in Hl. destruct (HO l j Hl) as [tj [Hj Hhj]].
    destruct (Nat.eq_dec i j) as [<-|Ne].
    + eexists. simpl. split; [eapply nth_error_upd_same; eauto|]. simpl. congruence.
    + exists tj. simpl. split; [rewrite nth_error_upd_other by exact Ne; exact Hj|exact Hhj].
  - intros l j Hl. simpl in Hl. destruct (HO l j Hl) as [tj [Hj Hhj]].
    destruct (Nat.eq_dec i j) as [<-|Ne].
    + eexists. simpl. split; [eapply nth_error_upd_same; eauto|]. simpl. congruence.
    + exists tj. simpl. split; [rewrite nth_error_upd_other by exact Ne; exact Hj|exact Hhj].
  - destruct (alive t); apply Keep; reflexivity.
Qed.

Lemma own_run sched : forall w, disc_inv w -> own_inv w -> own_inv (run w sched).
Proof.
  induction sched as [|i l IH]; intros w HD HO; simpl; [exact HO|].
  apply IH; [apply disc_step, HD|apply own_step; assumption].
Qed.

(* Any pool of disciplined programs, any initial state, ANY schedule: whenever a request stands at
   `Lock l` and finds the mutex taken, the owner is ANOTHER request of the pool that is inside its
   critical section: it holds l, its next action is not a Lock (it is not waiting for anybody), and the
   Unlock l is still ahead of it.  So nobody waits for a mutex that no running request will release. *)
Theorem blocked_by_runnable d s progs sched i t l r :
  Forall (fun p => disciplined p = true) progs ->
  let w := run (init_world d s progs) sched in
  nth_error (threads w) i = Some t -> prog t = Lock l :: r ->
  forall j, owner_of l (owner w) = Some j ->
  j <> i /\ exists tj, nth_error (threads w) j = Some tj /\ held tj = Some l /\
    In (Unlock l) (prog tj) /\ (forall l' r', prog tj <> Lock l' :: r').
Proof.
  intros HF w Hi Hp j Ho.
  assert (HD : disc_inv w) by (apply disc_run, disc_init, HF).
  assert (HO : own_inv w).
  { apply own_run; [apply disc_init, HF|]. intros l0 j0 H. discriminate. }
  destruct (HO l j Ho) as [tj [Hj Hh]].
  destruct (HD i t Hi) as [Hcs _]. rewrite Hp in Hcs. simpl in Hcs.
  apply andb_true_iff in Hcs. destruct Hcs as [Hn _]. apply is_none_true in Hn.
  split; [intros ->; congruence|].
  exists tj. destruct (HD j tj Hj) as [Hcj _]. rewrite Hh in Hcj.
  repeat split; try assumption.
  - apply cs_ok_unlock_ahead, Hcj.
  - intros l' r' E. rewrite E in Hcj. simpl in Hcj. discriminate.
Qed.
