(* C07 — proofs about Model/PwBackend.v *)
From Coq Require Import List NArith ZArith Bool Lia.
From KM Require Import Base.Bytes Model.PwCache Model.PwBackend.
Import ListNotations.
Open Scope N_scope.

(* ------------------------------------------------------------------ the content as a map *)
Lemma lookup_remove_same u f : lookup u (remove_user u f) = None.
Proof.
  induction f as [|[v p] r IH]; simpl; [reflexivity|].
  destruct (bs_eqb v u) eqn:E; [exact IH|]. simpl. rewrite E. exact IH.
Qed.

Lemma lookup_remove_other u v f : v <> u -> lookup v (remove_user u f) = lookup v f.
Proof.
  intro N. induction f as [|[w p] r IH]; simpl; [reflexivity|].
  destruct (bs_eqb w u) eqn:E.
  - apply bs_eqb_eq in E. subst w.
    destruct (bs_eqb u v) eqn:F; [apply bs_eqb_eq in F; congruence|]. exact IH.
  - simpl. destruct (bs_eqb w v); [reflexivity|exact IH].
Qed.

Lemma lookup_set_same u p f : lookup u (set_user u p f) = Some p.
Proof. unfold set_user. simpl. rewrite bs_eqb_refl. reflexivity. Qed.

Lemma lookup_set_other u v p f : v <> u -> lookup v (set_user u p f) = lookup v f.
Proof.
  intro N. unfold set_user. simpl.
  destruct (bs_eqb u v) eqn:E; [apply bs_eqb_eq in E; congruence|].
  apply lookup_remove_other. exact N.
Qed.

Lemma edit_other f o v : subject o <> Some v -> lookup v (edit f o) = lookup v f.
Proof.
  destruct o as [raw pw|h u p|h u|h u p]; simpl; intro N; try reflexivity.
  - destruct (lookup u f); [|reflexivity]. apply lookup_set_other. congruence.
  - apply lookup_remove_other. congruence.
  - destruct (lookup u f); [reflexivity|]. apply lookup_set_other. congruence.
Qed.

Lemma edit_change f h u p : lookup u f <> None -> lookup u (edit f (BChangePw h u p)) = Some p.
Proof. simpl. destruct (lookup u f) eqn:E; [intros _; apply lookup_set_same|congruence]. Qed.

Lemma edit_remove f h u : lookup u (edit f (BRemoveUser h u)) = None.
Proof. apply lookup_remove_same. Qed.

Lemma edit_add f h u p : lookup u f = None -> lookup u (edit f (BAddUser h u p)) = Some p.
Proof. simpl. intro E. rewrite E. apply lookup_set_same. Qed.

(* an edit is final for its user and leaves everybody else alone *)
Lemma edit_final f h u p pw :
  (lookup u f <> None -> file_accepts (edit f (BChangePw h u p)) u pw = (p =? pw)) /\
  file_accepts (edit f (BRemoveUser h u)) u pw = false /\
  (lookup u f = None -> file_accepts (edit f (BAddUser h u p)) u pw = (p =? pw)) /\
  (forall o v, subject o <> Some v -> file_accepts (edit f o) v pw = file_accepts f v pw).
Proof.
  unfold file_accepts. repeat split.
  - intro H. rewrite (edit_change f h u p H). reflexivity.
  - rewrite edit_remove. reflexivity.
  - intro H. rewrite (edit_add f h u p H). reflexivity.
  - intros o v H. rewrite (edit_other f o v H). reflexivity.
Qed.

(* ------------------------------------------------------------------ the machine *)
Lemma blogin_spec f raw pw : blogin f raw pw = file_accepts f (normalise raw) pw.
Proof. reflexivity. Qed.

Lemma bstep_content s o : b_content (fst (bstep s o)) = edit (b_content s) o.
Proof. destruct o; reflexivity. Qed.

Lemma bstep_login s raw pw : bstep s (BLogin raw pw) = (s, Some (file_accepts (b_content s) (normalise raw) pw)).
Proof. reflexivity. Qed.

Lemma bstep_edit_out s o : how_of o <> None -> snd (bstep s o) = None.
Proof. destruct o; simpl; congruence. Qed.

Lemma brun_content ops : forall s, b_content (brun s ops) = content_after (b_content s) ops.
Proof.
  induction ops as [|o r IH]; intro s; [reflexivity|].
  unfold brun, content_after. simpl. fold (brun (fst (bstep s o)) r).
  rewrite IH, bstep_content. reflexivity.
Qed.

Lemma bouts_length ops : forall s, length (bouts s ops) = length ops.
Proof.
  induction ops as [|o r IH]; intro s; [reflexivity|].
  simpl. destruct (bstep s o) as [s1 x]. simpl. rewrite IH. reflexivity.
Qed.

Lemma bouts_app pre : forall s post, bouts s (pre ++ post) = bouts s pre ++ bouts (brun s pre) post.
Proof.
  induction pre as [|o r IH]; intros s post; [reflexivity|].
  simpl. unfold brun. simpl. destruct (bstep s o) as [s1 x] eqn:E. simpl.
  fold (brun s1 r). rewrite IH. reflexivity.
Qed.

(* the verdict at time t is the backend's verdict on the content of the file at time t *)
Lemma backend_fresh s pre raw pw post :
  nth (length pre) (bouts s (pre ++ BLogin raw pw :: post)) None =
  Some (file_accepts (content_after (b_content s) pre) (normalise raw) pw).
Proof.
  rewrite bouts_app. rewrite app_nth2; rewrite bouts_length; [|lia].
  rewrite Nat.sub_diag. simpl. rewrite brun_content. reflexivity.
Qed.

(* edits answer nothing *)
Lemma backend_edit_silent s pre o post :
  how_of o <> None -> nth (length pre) (bouts s (pre ++ o :: post)) None = None.
Proof.
  intro H. rewrite bouts_app. rewrite app_nth2; rewrite bouts_length; [|lia].
  rewrite Nat.sub_diag. simpl. destruct (bstep (brun s pre) o) as [s1 x] eqn:E. simpl.
  change x with (snd (s1, x)). rewrite <- E. apply bstep_edit_out. exact H.
Qed.

(* ------------------------------------------------------------------ the way an edit is made is irrelevant *)
Definition how0 : how := mkHow false 0 0%Z.
Definition erase (o : bop) : bop :=
  match o with
  | BLogin raw pw => BLogin raw pw
  | BChangePw _ u p => BChangePw how0 u p
  | BRemoveUser _ u => BRemoveUser how0 u
  | BAddUser _ u p => BAddUser how0 u p
  end.

Lemma edit_erase f o : edit f (erase o) = edit f o.
Proof. destruct o; reflexivity. Qed.

Lemma erase_login o raw pw : erase o = BLogin raw pw -> o = BLogin raw pw.
Proof. destruct o; simpl; intro H; try discriminate. exact H. Qed.

Lemma bouts_erase ops : forall ops' s s',
  map erase ops = map erase ops' -> b_content s = b_content s' -> bouts s ops = bouts s' ops'.
Proof.
  induction ops as [|o r IH]; intros [|o' r'] s s' M C; simpl in M; try discriminate; [reflexivity|].
  inversion M as [[Mo Mr]]. simpl.
  destruct (bstep s o) as [s1 x] eqn:E1. destruct (bstep s' o') as [s1' x'] eqn:E2.
  assert (C1 : b_content s1 = b_content s1').
  { change s1 with (fst (s1, x)). change s1' with (fst (s1', x')). rewrite <- E1, <- E2.
    rewrite !bstep_content. rewrite <- (edit_erase _ o), <- (edit_erase _ o'), Mo, C. reflexivity. }
  assert (X : x = x').
  { change x with (snd (s1, x)). change x' with (snd (s1', x')). rewrite <- E1, <- E2.
    destruct o as [raw pw|h u p|h u|h u p]; simpl in Mo.
    - symmetry in Mo. apply erase_login in Mo. subst o'. simpl. rewrite C. reflexivity.
    - destruct o'; try discriminate. reflexivity.
    - destruct o'; try discriminate. reflexivity.
    - destruct o'; try discriminate. reflexivity. }
  rewrite X. f_equal. apply IH; assumption.
Qed.

(* ------------------------------------------------------------------ NOT the code: the stat-keyed in-memory copy *)
Definition alice : bs := [97; 108; 105; 99; 101].
Definition stat_cache_history : list bop :=
  [BLogin alice 1; BChangePw (mkHow false 300 1000%Z) alice 2; BLogin alice 1; BLogin alice 2].

Lemma stat_cache_refuted :
  let f0 := [(alice, 1)] in
  couts (cinit f0 300 1000%Z) stat_cache_history = [Some true; None; Some true; Some false] /\
  bouts (binit f0 300 1000%Z) stat_cache_history = [Some true; None; Some false; Some true] /\
  file_accepts (content_after f0 (firstn 2 stat_cache_history)) alice 1 = false /\
  file_accepts (content_after f0 (firstn 2 stat_cache_history)) alice 2 = true.
Proof. vm_compute. repeat split; reflexivity. Qed.

(* the same edit made in any way that changes the size or the modification time is seen by that variant too:
   this is why only a history that carries the WAY of an edit reaches the defect *)
Lemma stat_cache_sees_other_ways :
  let f0 := [(alice, 1)] in
  couts (cinit f0 300 1000%Z) [BLogin alice 1; BChangePw (mkHow false 301 1000%Z) alice 2; BLogin alice 1; BLogin alice 2]
    = [Some true; None; Some false; Some true] /\
  couts (cinit f0 300 1000%Z) [BLogin alice 1; BChangePw (mkHow true 300 1001%Z) alice 2; BLogin alice 1; BLogin alice 2]
    = [Some true; None; Some false; Some true].
Proof. vm_compute. split; reflexivity. Qed.
