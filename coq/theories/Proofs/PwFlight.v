(* C07 — proofs about Model/PwFlight.v: overlapping logins *)
From Coq Require Import List NArith Bool Lia.
From KM Require Import Base.Bytes Model.PwCache Model.PwBackend Model.PwFlight.
Import ListNotations.
Open Scope N_scope.

(* the ops that speak about login id *)
Definition mentions (id : N) (o : fop) : bool :=
  match o with
  | FStart i _ _ | FAnswer i => i =? id
  | _ => false
  end.

Definition starts_id (id : N) (o : fop) : bool :=
  match o with FStart i _ _ => i =? id | _ => false end.

(* ------------------------------------------------------------------ run / table / asked *)
Lemma frun_app s a b : frun s (a ++ b) = frun (frun s a) b.
Proof. unfold frun. apply fold_left_app. Qed.

Lemma frun_cons s o r : frun s (o :: r) = frun (fst (fstep s o)) r.
Proof. reflexivity. Qed.

Lemma fstep_table s o : f_table (fst (fstep s o)) = fedit (f_table s) o.
Proof.
  destruct o as [id raw pw|id|u p|u]; simpl; try reflexivity.
  destruct (find_flight id (f_pending s)); reflexivity.
Qed.

Lemma frun_table ops : forall s, f_table (frun s ops) = table_after (f_table s) ops.
Proof.
  induction ops as [|o r IH]; intro s; [reflexivity|].
  rewrite frun_cons, IH, fstep_table. reflexivity.
Qed.

Lemma fstep_asked s o : f_asked (fst (fstep s o)) = f_asked s ++ question o.
Proof.
  destruct o as [id raw pw|id|u p|u]; simpl; try (rewrite app_nil_r; reflexivity).
  - reflexivity.
  - destruct (find_flight id (f_pending s)); simpl; rewrite app_nil_r; reflexivity.
Qed.

Lemma frun_asked ops : forall s, f_asked (frun s ops) = f_asked s ++ questions ops.
Proof.
  induction ops as [|o r IH]; intro s.
  - simpl. rewrite app_nil_r. reflexivity.
  - rewrite frun_cons, IH, fstep_asked. unfold questions. simpl. rewrite app_assoc. reflexivity.
Qed.

(* ------------------------------------------------------------------ the logins in flight *)
Lemma find_app_some id l x y : find_flight id l = Some x -> find_flight id (l ++ [y]) = Some x.
Proof.
  induction l as [|z r IH]; simpl; [discriminate|].
  destruct (fl_id z =? id); [trivial|exact IH].
Qed.

Lemma find_app_none id l y : find_flight id l = None ->
  find_flight id (l ++ [y]) = if fl_id y =? id then Some y else None.
Proof.
  induction l as [|z r IH]; simpl; [reflexivity|].
  destruct (fl_id z =? id); [discriminate|exact IH].
Qed.

Lemma find_drop_other id j l : j <> id -> find_flight id (drop_flight j l) = find_flight id l.
Proof.
  intro NE. induction l as [|z r IH]; simpl; [reflexivity|].
  destruct (fl_id z =? j) eqn:EJ.
  - apply N.eqb_eq in EJ. destruct (fl_id z =? id) eqn:EI; [apply N.eqb_eq in EI; congruence|reflexivity].
  - simpl. destruct (fl_id z =? id); [reflexivity|exact IH].
Qed.

(* a step that does not mention login id leaves its flight alone *)
Lemma fstep_keeps id s o : mentions id o = false ->
  find_flight id (f_pending (fst (fstep s o))) = find_flight id (f_pending s).
Proof.
  destruct o as [i raw pw|i|u p|u]; simpl; intro M; try reflexivity.
  - destruct (find_flight id (f_pending s)) as [x|] eqn:F.
    + apply find_app_some. exact F.
    + rewrite (find_app_none _ _ _ F). simpl. rewrite M. reflexivity.
  - destruct (find_flight i (f_pending s)); simpl; [|reflexivity].
    apply find_drop_other. intro E. subst i. rewrite N.eqb_refl in M. discriminate.
Qed.

Lemma frun_keeps id ops : forall s, forallb (fun o => negb (mentions id o)) ops = true ->
  find_flight id (f_pending (frun s ops)) = find_flight id (f_pending s).
Proof.
  induction ops as [|o r IH]; intros s H; [reflexivity|].
  simpl in H. apply andb_true_iff in H. destruct H as [H1 H2].
  rewrite frun_cons, (IH _ H2). apply fstep_keeps. apply negb_true_iff. exact H1.
Qed.

(* a login that never arrived is not in flight *)
Lemma fstep_not_started id s o : starts_id id o = false ->
  find_flight id (f_pending s) = None -> find_flight id (f_pending (fst (fstep s o))) = None.
Proof.
  destruct o as [i raw pw|i|u p|u]; simpl; intros M F; try exact F.
  - rewrite (find_app_none _ _ _ F). simpl. rewrite M. reflexivity.
  - destruct (find_flight i (f_pending s)) eqn:G; simpl; [|exact F].
    destruct (N.eq_dec i id) as [E|NE].
    + subst i. congruence.
    + rewrite (find_drop_other _ _ _ NE). exact F.
Qed.

Lemma frun_not_started id ops : forall s, forallb (fun o => negb (starts_id id o)) ops = true ->
  find_flight id (f_pending s) = None -> find_flight id (f_pending (frun s ops)) = None.
Proof.
  induction ops as [|o r IH]; intros s H F; [exact F|].
  simpl in H. apply andb_true_iff in H. destruct H as [H1 H2].
  rewrite frun_cons. apply (IH _ H2). apply fstep_not_started; [apply negb_true_iff; exact H1|exact F].
Qed.

Lemma fstep_answer s id x : find_flight id (f_pending s) = Some x ->
  snd (fstep s (FAnswer id)) = [(id, file_accepts (f_table s) (fl_user x) (fl_pw x))].
Proof. intro F. simpl. rewrite F. reflexivity. Qed.

(* ------------------------------------------------------------------ the theorem *)
(* ANY interleaving: whatever happened before login id arrived (logins of anybody, answered or still in
   flight, edits of the table), whatever happens between its arrival and its answer (other logins of the
   same user with other passwords arrive and are answered, the table is edited), the verdict of login
   id is the backend's verdict on ITS OWN (normalised name, password) on the table the backend holds at
   the moment of the answer; and over any history the backend is asked exactly the logins' own pairs. *)
Lemma verdict_per_password :
  (forall f0 pre mid id raw pw,
     forallb (fun o => negb (starts_id id o)) pre = true ->
     forallb (fun o => negb (mentions id o)) mid = true ->
     let h := pre ++ FStart id raw pw :: mid in
     snd (fstep (frun (finit f0) h) (FAnswer id)) =
       [(id, file_accepts (table_after f0 h) (normalise raw) pw)]) /\
  (forall f0 ops, f_asked (frun (finit f0) ops) = questions ops).
Proof.
  split.
  - intros f0 pre mid id raw pw Hpre Hmid h. unfold h.
    rewrite frun_app, frun_cons.
    assert (F : find_flight id (f_pending (frun (fst (fstep (frun (finit f0) pre) (FStart id raw pw))) mid))
                = Some (mkFl id (normalise raw) pw)).
    { rewrite (frun_keeps _ _ _ Hmid). simpl.
      rewrite (find_app_none id _ _ (frun_not_started id pre (finit f0) Hpre eq_refl)).
      simpl. rewrite N.eqb_refl. reflexivity. }
    rewrite (fstep_answer _ _ _ F). simpl fl_user. simpl fl_pw.
    rewrite frun_table, fstep_table, frun_table.
    unfold table_after. rewrite fold_left_app. reflexivity.
  - intros f0 ops. rewrite frun_asked. reflexivity.
Qed.

(* the same for the collected outputs of a whole history in which the ids are used once: see
   [fouts_app] for reading a step's output out of [fouts] *)
Lemma fouts_cons s o r : fouts s (o :: r) = snd (fstep s o) ++ fouts (fst (fstep s o)) r.
Proof. simpl. destruct (fstep s o); reflexivity. Qed.

Lemma fouts_app a : forall s b, fouts s (a ++ b) = fouts s a ++ fouts (frun s a) b.
Proof.
  induction a as [|o r IH]; intros s b; [reflexivity|].
  change ((o :: r) ++ b) with (o :: (r ++ b)).
  rewrite !fouts_cons, frun_cons, IH, app_assoc. reflexivity.
Qed.

(* read off the collected outputs of a whole history (what the case files compare) *)
Lemma verdict_in_outputs f0 pre mid post id raw pw :
  forallb (fun o => negb (starts_id id o)) pre = true ->
  forallb (fun o => negb (mentions id o)) mid = true ->
  let h := pre ++ FStart id raw pw :: mid in
  fouts (finit f0) (h ++ FAnswer id :: post) =
    fouts (finit f0) h ++ (id, file_accepts (table_after f0 h) (normalise raw) pw)
                          :: fouts (frun (finit f0) (h ++ [FAnswer id])) post.
Proof.
  intros Hpre Hmid h. subst h.
  pose proof (proj1 verdict_per_password f0 pre mid id raw pw Hpre Hmid) as V. cbv zeta in V.
  rewrite fouts_app, fouts_cons, V.
  rewrite (frun_app _ _ [FAnswer id]). reflexivity.
Qed.

(* ------------------------------------------------------------------ the single flight keyed by the
   user name shares verdicts across passwords *)
Definition fl_alice : bs := [97; 108; 105; 99; 101].

Lemma single_flight_refuted :
  let f := [(fl_alice, 1)] in
  (* the right password in flight, a wrong one arrives: accepted, the backend never asked about it *)
  let h1 := [FStart 0 fl_alice 1; FStart 1 fl_alice 2; FAnswer 1; FAnswer 0] in
  (* a wrong password in flight, the right one arrives: refused *)
  let h2 := [FStart 0 fl_alice 2; FStart 1 fl_alice 1; FAnswer 1; FAnswer 0] in
  gouts (ginit f) h1 = [(0, true); (1, true)] /\
  f_asked (g_base (grun (ginit f) h1)) = [(fl_alice, 1)] /\
  fouts (finit f) h1 = [(1, false); (0, true)] /\
  gouts (ginit f) h2 = [(0, false); (1, false)] /\
  fouts (finit f) h2 = [(1, true); (0, false)].
Proof. vm_compute. repeat split. Qed.

(* non-vacuity: a history with overlap, an edit between arrival and answer, two users *)
Definition fl_bob : bs := [98; 111; 98].
Example flight_history :
  fouts (finit [(fl_alice, 1); (fl_bob, 3)])
        [FStart 0 fl_alice 1; FStart 1 [65; 108; 105; 99; 101] 2; FStart 2 fl_bob 3; FAnswer 1; FSet fl_alice 2;
         FStart 3 fl_alice 2; FAnswer 0; FAnswer 3; FAnswer 2]
  = [(1, false); (0, false); (3, true); (2, true)].
Proof. vm_compute. reflexivity. Qed.
