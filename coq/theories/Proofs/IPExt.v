From KM Require Import Base.Bytes Model.IPExt.

Ltac eval_closed :=
  repeat match goal with
  | |- context [mask_octet ?p ?i] =>
      let v := eval vm_compute in (mask_octet p i) in change (mask_octet p i) with v
  | H : context [mask_octet ?p ?i] |- _ =>
      let v := eval vm_compute in (mask_octet p i) in change (mask_octet p i) with v in H
  | |- context [nbytes ?p] =>
      let v := eval vm_compute in (nbytes p) in change (nbytes p) with v
  end.

Lemma le32_cases p : p <= 32 -> In p (map N.of_nat (seq 0 33)).
Proof.
  intros H. apply in_map_iff. exists (N.to_nat p). split; [apply N2Nat.id|].
  apply in_seq. lia.
Qed.

Lemma land0 x : N.land x 0 = x -> x = 0.
Proof. rewrite N.land_0_r. auto. Qed.

Theorem roundtrip b : wf_block b = true -> decode (encode b) = Some b.
Proof.
  destruct b as [a0 a1 a2 a3 p]. unfold wf_block, masked, encode, decode, octets.
  cbn [plen o0 o1 o2 o3].
  rewrite !andb_true_iff. intros [[[[[Hp _] _] _] _] [[[M0 M1] M2] M3]].
  apply N.leb_le in Hp. apply N.eqb_eq in M0, M1, M2, M3.
  apply le32_cases in Hp. cbn [map seq N.of_nat Pos.of_succ_nat Pos.succ] in Hp.
  repeat (destruct Hp as [<-|Hp]; [
    eval_closed; cbn [firstn length N.of_nat Pos.of_succ_nat Pos.succ];
    try (apply land0 in M0; subst a0); try (apply land0 in M1; subst a1);
    try (apply land0 in M2; subst a2); try (apply land0 in M3; subst a3);
    reflexivity |]).
  destruct Hp.
Qed.

(* decode never yields a prefix longer than 32 bits, whatever the bytes *)
Lemma decode_plen e b : decode e = Some b -> plen b <= 32 /\ plen b = snd e.
Proof.
  destruct e as [bytes bitlen]. unfold decode.
  destruct (32 <? bitlen) eqn:A; [discriminate|]. cbn [orb].
  destruct (N.of_nat (length bytes) <? (bitlen + 7) / 8); [discriminate|].
  intros H. inversion H; subst. cbn [plen snd]. apply N.ltb_ge in A. split; [exact A|reflexivity].
Qed.

(* membership, blocks level *)
Lemma verify_blocks_true l p :
  verify_blocks l p = Some true -> exists e b, In e l /\ decode e = Some b /\ contains b p = true.
Proof.
  induction l as [|e r IH]; cbn [verify_blocks]; [discriminate|].
  destruct (decode e) as [b|] eqn:D; [|discriminate].
  destruct (contains b p) eqn:C.
  - intros _. exists e, b. cbn. auto.
  - intros H. destruct (IH H) as [e' [b' [I [D' C']]]]. exists e', b'. cbn. auto.
Qed.

(* never widens: acceptance is always witnessed by a block literally present in the extension *)
Theorem verify_ip_sound ext p :
  verify_ip ext p = true ->
  exists blocks e b, In (ipv4_family, blocks) ext /\ In e blocks /\ decode e = Some b /\
                     plen b <= 32 /\ contains b p = true.
Proof.
  unfold verify_ip. induction ext as [|[fam blocks] r IH]; cbn [verify_families]; [discriminate|].
  destruct (bs_eqb fam ipv4_family) eqn:F.
  - apply bs_eqb_eq in F. subst fam.
    destruct (verify_blocks blocks p) as [[|]|] eqn:V.
    + intros _. destruct (verify_blocks_true _ _ V) as [e [b [I [D C]]]].
      exists blocks, e, b. cbn. repeat split; auto. apply (decode_plen _ _ D).
    + intros H. destruct (IH H) as [bl [e [b [I R]]]]. exists bl, e, b. cbn. tauto.
    + discriminate.
  - intros H. destruct (IH H) as [bl [e [b [I R]]]]. exists bl, e, b. cbn. tauto.
Qed.

(* peers that are not IPv4(-mapped) never authenticate *)
Lemma contains_v4 b p : contains b p = true -> exists a0 a1 a2 a3, p = V4 a0 a1 a2 a3.
Proof. destruct p; cbn; try discriminate. eauto. Qed.

(* well-formed minted blocks *)
Lemma verify_blocks_minted blocks p :
  forallb wf_block blocks = true ->
  verify_blocks (map encode blocks) p = Some (existsb (fun b => contains b p) blocks).
Proof.
  induction blocks as [|b r IH]; cbn [map verify_blocks existsb forallb]; [reflexivity|].
  rewrite andb_true_iff. intros [W R]. rewrite (roundtrip _ W).
  destruct (contains b p); cbn [orb]; auto.
Qed.

Theorem minted_iff blocks p :
  forallb wf_block blocks = true ->
  (verify_ip (ext_of blocks) p = true <-> exists b, In b blocks /\ contains b p = true).
Proof.
  intros W. unfold verify_ip, ext_of. cbn [verify_families].
  change (bs_eqb ipv4_family ipv4_family) with true. cbv iota.
  rewrite (verify_blocks_minted _ p W).
  destruct (existsb (fun b => contains b p) blocks) eqn:E.
  - split; auto. intros _. apply existsb_exists in E. exact E.
  - split; [discriminate|]. intros H. apply existsb_exists in H. congruence.
Qed.

Lemma extract_blocks_minted blocks :
  forallb wf_block blocks = true -> extract_blocks (map encode blocks) = Some blocks.
Proof.
  induction blocks as [|b r IH]; cbn [map extract_blocks forallb]; [reflexivity|].
  rewrite andb_true_iff. intros [W R]. rewrite (roundtrip _ W), (IH R). reflexivity.
Qed.

Theorem extract_minted blocks :
  forallb wf_block blocks = true -> extract (ext_of blocks) = Some blocks.
Proof.
  intros W. unfold ext_of. cbn [extract].
  change (bs_eqb ipv4_family ipv4_family) with true. cbv iota.
  rewrite (extract_blocks_minted _ W). rewrite app_nil_r. reflexivity.
Qed.

(* refresh: the new certificate's extension is the old one *)
Theorem refresh_same_blocks blocks bl' :
  forallb wf_block blocks = true ->
  extract (ext_of blocks) = Some bl' -> ext_of bl' = ext_of blocks.
Proof. intros W H. rewrite (extract_minted _ W) in H. inversion H. reflexivity. Qed.

(* the decoder before the fix panicked on an over-long bit string *)
Lemma decode_old_panics : exists e, decode_old e = DPanic.
Proof. exists ([10; 0; 0; 0; 0], 40). vm_compute. reflexivity. Qed.

(* octet masks really are the CIDR mask: bits above the prefix boundary only *)
Lemma mask_octet_table :
  forallb (fun p => forallb (fun i =>
     let m := mask_octet (N.of_nat p) (N.of_nat i) in
     let k := N.of_nat p - 8 * N.of_nat i in     (* prefix bits that fall into this octet *)
     if N.of_nat p <=? 8 * N.of_nat i then m =? 0
     else if 8 <=? k then m =? 255 else m =? 256 - 2 ^ (8 - k)) (seq 0 4)) (seq 0 33) = true.
Proof. vm_compute. reflexivity. Qed.

(* ---- the octet-wise mask comparison IS the numeric prefix comparison ---- *)
From KM Require Import Base.Tactics.

Definition num (a0 a1 a2 a3 : N) : N := a0 * 16777216 + a1 * 65536 + a2 * 256 + a3.
Definition bnum (b : netblock) : N := num (o0 b) (o1 b) (o2 b) (o3 b).

(* x land (256 - 2^k) keeps the top 8-k bits of a byte *)
Lemma land_himask_table :
  forallb (fun x => forallb (fun k =>
     N.land (N.of_nat x) (256 - 2 ^ (N.of_nat k)) =? (N.of_nat x / 2 ^ (N.of_nat k)) * 2 ^ (N.of_nat k))
     (seq 0 9)) (seq 0 256) = true.
Proof. vm_compute. reflexivity. Qed.

Lemma land_himask x k : x < 256 -> k <= 8 -> N.land x (256 - 2 ^ k) = (x / 2 ^ k) * 2 ^ k.
Proof.
  intros Hx Hk.
  pose proof land_himask_table as T. rewrite forallb_forall in T.
  specialize (T (N.to_nat x)). rewrite N2Nat.id in T.
  assert (In (N.to_nat x) (seq 0 256)) as I by (apply in_seq; lia).
  specialize (T I). rewrite forallb_forall in T.
  specialize (T (N.to_nat k)). rewrite N2Nat.id in T.
  apply N.eqb_eq, T. apply in_seq. lia.
Qed.

Lemma land_255 x : x < 256 -> N.land x 255 = x.
Proof.
  intros H. change 255 with (N.ones 8). rewrite N.land_ones. apply N.mod_small. exact H.
Qed.

Theorem contains_numeric b a0 a1 a2 a3 :
  plen b <= 32 -> o0 b < 256 -> o1 b < 256 -> o2 b < 256 -> o3 b < 256 ->
  a0 < 256 -> a1 < 256 -> a2 < 256 -> a3 < 256 ->
  (contains b (V4 a0 a1 a2 a3) = true <->
   bnum b / 2 ^ (32 - plen b) = num a0 a1 a2 a3 / 2 ^ (32 - plen b)).
Proof.
  destruct b as [b0 b1 b2 b3 p]. unfold bnum, num, contains. cbn [plen o0 o1 o2 o3].
  intros Hp B0 B1 B2 B3 A0 A1 A2 A3.
  rewrite !andb_true_iff, !N.eqb_eq.
  apply le32_cases in Hp. cbn [map seq N.of_nat Pos.of_succ_nat Pos.succ] in Hp.
  repeat (destruct Hp as [<-|Hp]; [
    eval_closed;
    rewrite ?N.land_0_r, ?(land_255 _ B0), ?(land_255 _ B1), ?(land_255 _ B2), ?(land_255 _ B3),
            ?(land_255 _ A0), ?(land_255 _ A1), ?(land_255 _ A2), ?(land_255 _ A3);
    repeat match goal with
    | |- context [N.land ?x ?m] =>
        match m with
        | 0 => fail 1 | 255 => fail 1
        | _ => let k := eval vm_compute in (N.log2 (256 - m)) in
               replace (N.land x m) with ((x / 2 ^ k) * 2 ^ k)
                 by (symmetry; apply (land_himask x k); [assumption | vm_compute; discriminate])
        end
    end;
    match goal with |- context [2 ^ ?e] => idtac end;
    repeat match goal with |- context [2 ^ ?e] =>
       let v := eval vm_compute in (2 ^ e) in change (2 ^ e) with v end;
    lia |]).
  destruct Hp.
Qed.

(* ---- the refresh endpoint with its form ---- *)
Lemma refresh_ignores_form c p f f' k : refresh c p f k = refresh c p f' k.
Proof. reflexivity. Qed.

Theorem refresh_sound cn blocks p f k id bl :
  forallb wf_block blocks = true ->
  refresh (minted cn blocks) p f k = Some (id, bl) ->
  id = cn /\ bl = blocks /\ k = true /\ exists b, In b blocks /\ contains b p = true.
Proof.
  intros W. unfold refresh, minted. cbn [rc_ext rc_cn].
  destruct (verify_ip (ext_of blocks) p) eqn:V; [|discriminate].
  destruct k; [|discriminate].
  rewrite (extract_minted _ W). intros H. injection H as E1 E2. subst id bl.
  repeat split. apply (minted_iff blocks p W). exact V.
Qed.

Theorem refresh_complete cn blocks p f :
  forallb wf_block blocks = true ->
  (exists b, In b blocks /\ contains b p = true) ->
  refresh (minted cn blocks) p f true = Some (cn, blocks).
Proof.
  intros W E. unfold refresh, minted. cbn [rc_ext rc_cn].
  rewrite (proj2 (minted_iff blocks p W) E). rewrite (extract_minted _ W). reflexivity.
Qed.

(* however often a certificate is refreshed, from wherever, with whatever forms: the certificate in
   hand is the one that was minted *)
Theorem refresh_chain_same steps : forall cn blocks c',
  forallb wf_block blocks = true ->
  refresh_chain (minted cn blocks) steps = Some c' -> c' = minted cn blocks.
Proof.
  induction steps as [|[p f] r IH]; intros cn blocks c' W H; simpl in H.
  - inversion H. reflexivity.
  - destruct (refresh (minted cn blocks) p f true) as [[id bl]|] eqn:R; [|discriminate].
    destruct (refresh_sound _ _ _ _ _ _ _ W R) as [-> [-> _]]. apply IH; assumption.
Qed.

(* so a refreshed certificate is accepted only from inside the blocks of the FIRST one *)
Theorem refresh_chain_reach steps cn blocks c' q :
  forallb wf_block blocks = true ->
  refresh_chain (minted cn blocks) steps = Some c' ->
  verify_ip (rc_ext c') q = true -> exists b, In b blocks /\ contains b q = true.
Proof.
  intros W H V. rewrite (refresh_chain_same _ _ _ _ W H) in V. cbn [minted rc_ext] in V.
  apply (minted_iff blocks q W). exact V.
Qed.

(* the narrowing variant that compares base addresses only widens: /24 -> /8 *)
Theorem refresh_narrowing_by_base_refuted :
  exists cn blocks p req id bl q,
    forallb wf_block blocks = true /\
    refresh_narrowing_by_base (minted cn blocks) p req = Some (id, bl) /\
    verify_ip (ext_of bl) q = true /\ verify_ip (ext_of blocks) q = false.
Proof.
  exists [115], [mk 10 0 0 0 24], (V4 10 0 0 7), [mk 10 0 0 0 8], [115], [mk 10 0 0 0 8], (V4 10 99 0 1).
  vm_compute. repeat split; reflexivity.
Qed.

(* ---- request-side netblock parsing: the canonical block ---- *)
Lemma land_idem x m : N.land (N.land x m) m = N.land x m.
Proof. rewrite <- N.land_assoc, N.land_diag. reflexivity. Qed.

Lemma land_byte x m : x < 256 -> N.land x m < 256.
Proof.
  intros H. destruct (N.eq_dec (N.land x m) 0) as [E|E]; [rewrite E; lia|].
  change 256 with (2 ^ 8). apply N.log2_lt_pow2; [lia|].
  eapply N.le_lt_trans; [apply N.log2_land|].
  apply N.min_lt_iff. left.
  destruct (N.eq_dec x 0) as [->|Hx]; [rewrite N.land_0_l in E; contradiction|].
  apply N.log2_lt_pow2; [lia|exact H].
Qed.

Lemma canon_wf b : cidr_ok b = true -> wf_block (canon b) = true.
Proof.
  unfold cidr_ok, wf_block, masked, canon, mk, is_byte. cbn [plen o0 o1 o2 o3].
  rewrite !andb_true_iff, !N.ltb_lt. intros [[[[Hp B0] B1] B2] B3].
  rewrite !land_idem, !N.eqb_refl. repeat split; try assumption; apply land_byte; assumption.
Qed.

Lemma canon_contains b p : contains (canon b) p = contains b p.
Proof. destruct p; cbn [contains canon mk plen o0 o1 o2 o3]; rewrite ?land_idem; reflexivity. Qed.

Lemma canon_idem b : canon (canon b) = canon b.
Proof. unfold canon, mk. cbn [plen o0 o1 o2 o3]. rewrite !land_idem. reflexivity. Qed.

Lemma canon_all_wf req : forallb cidr_ok req = true -> forallb wf_block (map canon req) = true.
Proof.
  induction req as [|b r IH]; cbn [forallb map]; [reflexivity|].
  rewrite !andb_true_iff. intros [A B]. split; [apply canon_wf; exact A|apply IH; exact B].
Qed.

(* minting from the request text: the certificate authenticates exactly the addresses of the CIDRs
   as written (any address of the block may stand in the text), reads back as the canonical blocks *)
Theorem mint_parse_exact cn req p :
  forallb cidr_ok req = true ->
  (verify_ip (rc_ext (mint_request cn req)) p = true <-> exists b, In b req /\ contains b p = true).
Proof.
  intros W. unfold mint_request, minted. cbn [rc_ext].
  rewrite (minted_iff _ p (canon_all_wf _ W)). split.
  - intros [b [I C]]. apply in_map_iff in I. destruct I as [b0 [<- I]]. exists b0. split; [exact I|].
    rewrite canon_contains in C. exact C.
  - intros [b [I C]]. exists (canon b). split; [apply in_map; exact I|]. rewrite canon_contains. exact C.
Qed.

Theorem mint_parse_readback cn req :
  forallb cidr_ok req = true -> extract (rc_ext (mint_request cn req)) = Some (map canon req).
Proof. intros W. apply extract_minted. apply canon_all_wf. exact W. Qed.

(* in numbers: a.b.c.d/p accepts the peer iff the peer's leading p bits are those of a.b.c.d *)
Theorem mint_parse_numeric cn req a0 a1 a2 a3 :
  forallb cidr_ok req = true -> a0 < 256 -> a1 < 256 -> a2 < 256 -> a3 < 256 ->
  (verify_ip (rc_ext (mint_request cn req)) (V4 a0 a1 a2 a3) = true <->
   exists b, In b req /\ bnum b / 2 ^ (32 - plen b) = num a0 a1 a2 a3 / 2 ^ (32 - plen b)).
Proof.
  intros W A0 A1 A2 A3. rewrite (mint_parse_exact cn req _ W).
  rewrite forallb_forall in W.
  split; intros [b [I C]]; exists b; (split; [exact I|]);
    specialize (W b I); unfold cidr_ok, is_byte in W; rewrite !andb_true_iff, !N.ltb_lt, N.leb_le in W;
    destruct W as [[[[Hp B0] B1] B2] B3];
    apply (contains_numeric b a0 a1 a2 a3 Hp B0 B1 B2 B3 A0 A1 A2 A3); exact C.
Qed.
