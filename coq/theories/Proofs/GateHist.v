From Coq Require Import ZArith List Bool.
From KM Require Import Base.Bytes Model.Auth Model.AuthGate Model.GateObs Model.GateHist Proofs.AuthGate Proofs.GateObs.
From KM Require Model.IPExt.
Import ListNotations.
Open Scope N_scope.

Lemma gate_run_mem m h : fst (gate_run m h) = m.
Proof.
  revert m. induction h as [|r t IH]; intros m; simpl; [reflexivity|].
  specialize (IH m). destruct (gate_run m t) as [m2 vs]. simpl in *. exact IH.
Qed.

Lemma gate_run_verdicts m h : snd (gate_run m h) = map verdict h.
Proof.
  revert m. induction h as [|r t IH]; intros m; simpl; [reflexivity|].
  specialize (IH m). destruct (gate_run m t) as [m2 vs]. simpl in *. rewrite IH. reflexivity.
Qed.

(* the verdict of a daemon with ANY history is the verdict of a daemon that has just started *)
Theorem verdict_history_independent h r : verdict_after h r = verdict_after [] r.
Proof. reflexivity. Qed.

Theorem verdict_after_is_verdict h r : verdict_after h r = verdict r.
Proof. reflexivity. Qed.

(* every request of a history is judged as if it were the first *)
Theorem run_is_pointwise h : snd (gate_run tt h) = map (verdict_after []) h.
Proof. rewrite gate_run_verdicts. reflexivity. Qed.

(* soundness over histories: whoever is let in after whatever came before is established by the credentials of
   THIS request *)
Theorem gate_sound_after_history h r u l iat :
  verdict_after h r = Admit u l iat ->
  proves (h_now r) (h_deny r) (h_q r) u l /\ hasb l (h_mask r) = true /\ (q_meth (h_q r) <> GET -> origin_ok (h_q r)).
Proof. intros H. exact (gate_sound _ _ _ _ _ _ _ _ H). Qed.

(* two requests that carry the same things get the same verdict on two daemons with different pasts *)
Theorem same_request_same_verdict h h' r : verdict_after h r = verdict_after h' r.
Proof. reflexivity. Qed.

(* ---- sharpness: the memoising gate *)
Definition main_ch := {| ch_len2 := true; ch_role_ca := false; ch_key_trusted := true |}.
Definition other_ca_ch := {| ch_len2 := true; ch_role_ca := false; ch_key_trusted := false |}.
(* alice's certificate from the keymaster CA ... *)
Definition genuine : tlsx :=
  {| x_chains := [main_ch]; x_cn := 1; x_key := 1; x_nb := 0%Z; x_ip_error := false;
     x_ext := None; x_peer := IPExt.V4 10 1 2 3; x_auto_error := false; x_automation := false; x_revoked := false |}.
(* ... and a certificate with the same subject (and key) from another CA the TLS layer trusts *)
Definition lookalike : tlsx :=
  {| x_chains := [other_ca_ch]; x_cn := 1; x_key := 1; x_nb := 5%Z; x_ip_error := false;
     x_ext := None; x_peer := IPExt.V4 10 1 2 3; x_auto_error := false; x_automation := false; x_revoked := false |}.
Definition presenting (c : tlsx) : hreq :=
  HQ 100%Z true [] bKMX509 {| q_meth := GET; q_origin := NoOrigin; q_tls := Some c; q_cred := no_cred |}.

(* for EVERY key function that does not tell the two certificates apart: on a fresh daemon the look-alike is
   refused, after one request of the genuine holder it is admitted as alice, and nothing the request carries
   proves alice at any level *)
Theorem memo_refuted (kf : tlsx -> N) :
  kf genuine = kf lookalike ->
  memo_verdict_after kf [] (presenting lookalike) = Refuse 401 /\
  memo_verdict_after kf [presenting genuine] (presenting lookalike) = Admit 1 bKMX509 5%Z /\
  verdict_after [presenting genuine] (presenting lookalike) = Refuse 401 /\
  forall l, ~ proves 100%Z [] (h_q (presenting lookalike)) 1 l.
Proof.
  intros E. split; [reflexivity|]. split.
  - unfold memo_verdict_after. cbn [memo_run].
    assert (S1 : memo_step kf [] (presenting genuine) = ([kf genuine], Admit 1 bKMX509 0%Z)) by reflexivity.
    rewrite S1. cbn [fst]. unfold memo_step.
    change (verdict (presenting lookalike)) with (Refuse 401).
    change (q_tls (h_q (presenting lookalike))) with (Some lookalike).
    cbn [remembers existsb]. rewrite <- E, N.eqb_refl. reflexivity.
  - split; [reflexivity|].
    intros l [[t [E1 _]]|[[b [E1 _]]|[c (TL & _ & Hl & Hkm & Hip)]]]; try discriminate.
    inversion TL; subst c.
    destruct Hl as [->|[->| ->]].
    + destruct (Hkm eq_refl) as (_ & _ & ch & Hin & _ & _ & Ht). destruct Hin as [<-|[]]. discriminate.
    + destruct (Hip eq_refl) as (_ & _ & (ext & _ & _ & _ & Hx & _) & _). discriminate.
    + destruct (Hkm eq_refl) as (_ & _ & ch & Hin & _ & _ & Ht). destruct Hin as [<-|[]]. discriminate.
Qed.
