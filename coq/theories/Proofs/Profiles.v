(* C05 — the profile store serves a user the row stored under exactly that user's name *)
From KM Require Import Base.Bytes Base.Tactics Model.Session Model.Profiles.

Lemma key_is_eq n r : key_is n r = true <-> fst r = n.
Proof. unfold key_is. apply bs_eqb_eq. Qed.

(* the row returned was stored under exactly the name asked for *)
Lemma lookup_exact n t d : lookup n t = Some d -> In (n, d) t.
Proof.
  unfold lookup. destruct (find (key_is n) t) as [r|] eqn:F; [|discriminate].
  intros H; inversion H; subst d. apply find_some in F. destruct F as [Hin Hk].
  apply key_is_eq in Hk. destruct r as [n' d']. cbn in *. subst n'. exact Hin.
Qed.

Lemma lookup_none n t : lookup n t = None -> forall d, ~ In (n, d) t.
Proof.
  unfold lookup. destruct (find (key_is n) t) as [r|] eqn:F; [discriminate|].
  intros _ d Hin. pose proof (find_none _ _ F _ Hin) as H. unfold key_is in H. cbn in H.
  rewrite bs_eqb_refl in H. discriminate.
Qed.

Lemma find_app {A} (f : A -> bool) l1 l2 :
  find f (l1 ++ l2) = match find f l1 with Some x => Some x | None => find f l2 end.
Proof. induction l1 as [|a r IH]; [reflexivity|]. simpl. destruct (f a); [reflexivity|exact IH]. Qed.

Lemma find_filter_other n n' t :
  n' <> n -> find (key_is n') (filter (fun r => negb (key_is n r)) t) = find (key_is n') t.
Proof.
  intros Hne. induction t as [|r t IH]; [reflexivity|]. simpl.
  destruct (key_is n r) eqn:E; simpl.
  - destruct (key_is n' r) eqn:E'; [|exact IH].
    apply key_is_eq in E. apply key_is_eq in E'. congruence.
  - destruct (key_is n' r); [reflexivity|exact IH].
Qed.

Lemma find_filter_same n t : find (key_is n) (filter (fun r => negb (key_is n r)) t) = None.
Proof.
  induction t as [|r t IH]; [reflexivity|]. simpl. destruct (key_is n r) eqn:E; simpl; [exact IH|].
  rewrite E. exact IH.
Qed.

(* what was saved under a name is what that name is served, whatever else the table holds *)
Lemma lookup_save_same n d t : lookup n (save n d t) = Some d.
Proof.
  unfold lookup, save. rewrite find_app, find_filter_same. simpl. unfold key_is. simpl.
  rewrite bs_eqb_refl. reflexivity.
Qed.

(* saving under one name changes nothing for any other name — however similar the two are *)
Lemma lookup_save_other n n' d t : n' <> n -> lookup n' (save n d t) = lookup n' t.
Proof.
  intros Hne. unfold lookup, save. rewrite find_app, (find_filter_other n n' t Hne).
  destruct (find (key_is n') t); [reflexivity|]. simpl. unfold key_is. simpl.
  replace (bs_eqb n n') with false; [reflexivity|]. symmetry. apply bs_eqb_neq. congruence.
Qed.

Lemma lookup_save n n' d t : lookup n' (save n d t) = if bs_eqb n' n then Some d else lookup n' t.
Proof.
  destruct (bs_eqb n' n) eqn:E.
  - apply bs_eqb_eq in E. subst n'. apply lookup_save_same.
  - apply bs_eqb_neq in E. apply lookup_save_other, E.
Qed.

Lemma lookup_delete n n' t : lookup n' (delete n t) = if bs_eqb n' n then None else lookup n' t.
Proof.
  unfold lookup, delete. destruct (bs_eqb n' n) eqn:E.
  - apply bs_eqb_eq in E. subst n'. rewrite find_filter_same. reflexivity.
  - apply bs_eqb_neq in E. rewrite (find_filter_other n n' t E). reflexivity.
Qed.

(* a table as the code builds it: at most one row per name (the column is UNIQUE) *)
Definition wf (t : table) : Prop := NoDup (map fst t).

Lemma wf_nil : wf [].
Proof. constructor. Qed.

Lemma filter_keys_incl n (t : table) x : In x (map fst (filter (fun r => negb (key_is n r)) t)) -> In x (map fst t) /\ x <> n.
Proof.
  rewrite in_map_iff. intros [r [Hx Hr]]. apply filter_In in Hr. destruct Hr as [Hin Hk].
  split; [rewrite in_map_iff; exists r; auto|]. intros ->.
  apply negb_true_iff in Hk. unfold key_is in Hk. rewrite Hx, bs_eqb_refl in Hk. discriminate.
Qed.

Lemma wf_filter n t : wf t -> wf (filter (fun r => negb (key_is n r)) t).
Proof.
  unfold wf. induction t as [|r t IH]; [intros; constructor|]. simpl. intros H. inversion H as [|x l Hn Hd]; subst.
  destruct (negb (key_is n r)); simpl; [|apply IH, Hd].
  constructor; [|apply IH, Hd]. intros Hin. apply filter_keys_incl in Hin. tauto.
Qed.

Lemma NoDup_app_single {A} (l : list A) x : NoDup l -> ~ In x l -> NoDup (l ++ [x]).
Proof.
  induction l as [|a r IH]; simpl; intros Hd Hn; [constructor; [intros []|constructor]|].
  inversion Hd as [|y l' Hy Hr]; subst. constructor.
  - intros Hin. apply in_app_or in Hin. destruct Hin as [Hin|[->|[]]]; [contradiction|]. apply Hn. now left.
  - apply IH; [exact Hr|]. intros Hin. apply Hn. now right.
Qed.

Lemma wf_save n d t : wf t -> wf (save n d t).
Proof.
  intros H. unfold wf, save. rewrite map_app. simpl.
  apply NoDup_app_single; [apply (wf_filter n t H)|].
  intros Hin. apply filter_keys_incl in Hin. tauto.
Qed.

Lemma wf_delete n t : wf t -> wf (delete n t).
Proof. apply wf_filter. Qed.

(* in such a table a row is served to exactly the name it is stored under ... *)
Lemma wf_lookup n d t : wf t -> In (n, d) t -> lookup n t = Some d.
Proof.
  unfold wf. induction t as [|r t IH]; [intros _ []|]. simpl. intros Hnd Hin.
  inversion Hnd as [|x l Hn Hd]; subst. unfold lookup. simpl.
  destruct Hin as [->|Hin].
  - unfold key_is. simpl. rewrite bs_eqb_refl. reflexivity.
  - destruct (key_is n r) eqn:E.
    + exfalso. apply Hn. apply key_is_eq in E. rewrite E. rewrite in_map_iff. exists (n, d). auto.
    + apply (IH Hd Hin).
Qed.

(* ... so the ORDER of the rows (which account was written more recently) never matters *)
Lemma lookup_order n t t' :
  wf t -> wf t' -> (forall r, In r t <-> In r t') -> lookup n t = lookup n t'.
Proof.
  intros H H' Hp. destruct (lookup n t) as [d|] eqn:E.
  - symmetry. apply wf_lookup; [exact H'|]. apply Hp, lookup_exact, E.
  - destruct (lookup n t') as [d'|] eqn:E'; [|reflexivity].
    exfalso. apply (lookup_none n t E d'). apply Hp, lookup_exact, E'.
Qed.

(* seen from the session machine: saving user u's profile changes the enrolment of u and of nobody
   else, provided distinct users have distinct names *)
Lemma devs_of_save names t u d v :
  (forall a b, names a = names b -> a = b) ->
  devs_of names (save (names u) d t) v = if N.eqb v u then d else devs_of names t v.
Proof.
  intros Hinj. unfold devs_of. rewrite lookup_save. destruct (N.eqb v u) eqn:E.
  - apply N.eqb_eq in E. subst v. rewrite bs_eqb_refl. reflexivity.
  - replace (bs_eqb (names v) (names u)) with false; [reflexivity|].
    symmetry. apply bs_eqb_neq. intros H. apply Hinj in H. apply N.eqb_neq in E. contradiction.
Qed.

(* ---- the same table read through LIKE: a name that is a pattern is served another account's row,
        and which one depends on the order of the rows ---- *)
Definition n_j_doe : bs := [106; 95; 100; 111; 101].      (* j_doe *)
Definition n_jadoe : bs := [106; 97; 100; 111; 101].      (* jadoe *)
Definition d_totp : devices := {| has_totp := true; has_u2f := false; has_wa := false; has_profile := true |}.
Definition d_key : devices := {| has_totp := false; has_u2f := true; has_wa := false; has_profile := true |}.

Lemma like_lookup_foreign :
  let t := save n_j_doe d_key (save n_jadoe d_totp []) in
  let t' := save n_jadoe d_totp (save n_j_doe d_key []) in
  wf t /\ lookup_like n_j_doe t = Some d_totp /\ ~ In (n_j_doe, d_totp) t /\
  lookup_like n_j_doe t' = Some d_key /\
  lookup n_j_doe t = Some d_key /\ lookup n_j_doe t' = Some d_key /\
  lookup_like n_j_doe (save n_jadoe d_totp []) = Some d_totp /\ lookup n_j_doe (save n_jadoe d_totp []) = None.
Proof.
  cbv zeta. split; [repeat apply wf_save; apply wf_nil|].
  split; [vm_compute; reflexivity|]. split.
  - vm_compute. intros [H|[H|[]]]; discriminate.
  - repeat split; vm_compute; reflexivity.
Qed.
