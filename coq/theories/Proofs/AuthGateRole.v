(* C06 — a certificate that carries the address delegation extension is never a plain keymaster certificate:
   proofs over the issuer model (Model/AuthGateRole.v) and the gate (Model/AuthGate.v). *)
From Coq Require Import ZArith List Bool String Lia.
From KM Require Import Base.Bytes Model.Auth Model.AuthGate Model.Routes Model.GateObs Model.AuthGateRole.
From KM Require Import Proofs.AuthGate Proofs.GateObs.
From KM Require Model.IPExt.
Import ListNotations.
Open Scope N_scope.

(* every certificate of the modelled issuers that carries the extension was signed by the role CA *)
Lemma issue_ext_role e k has_ed cn key nb ext m :
  issue e k has_ed cn key nb ext = Some m -> m_ext m <> None -> m_issuer m = IRoleCA.
Proof.
  unfold issue, issue_gen. destruct (key_accepted k); simpl; [|discriminate].
  destruct e; intros H; inversion H; subst; simpl; intros Hext; try reflexivity; now elim Hext.
Qed.

Lemma issue_fields e k has_ed cn key nb ext m :
  issue e k has_ed cn key nb ext = Some m -> m_cn m = cn /\ m_key m = key /\ m_nb m = nb.
Proof.
  unfold issue, issue_gen. destruct (key_accepted k); simpl; [|discriminate].
  destruct e; intros H; inversion H; subst; simpl; auto.
Qed.

(* the verified chain of a role-CA leaf is no keymaster chain: the gate's walk skips it *)
Lemma role_chain_not_km has_ed m p deny :
  m_issuer m = IRoleCA -> ~ km_cert deny (present has_ed m p).
Proof.
  intros Hi (_ & _ & ch & Hin & _ & Hrole & _).
  unfold present, verified_chains in Hin. simpl in Hin. rewrite Hi in Hin. simpl in Hin.
  destruct Hin as [<-|[]]. discriminate.
Qed.

Theorem ip_extension_never_plain e k has_ed cn key nb ext m p now lim deny required q u l iat :
  issue e k has_ed cn key nb ext = Some m ->
  m_ext m <> None ->
  q_tls q = Some (present has_ed m p) ->
  check_auth now lim deny required q = Admit u l iat ->
  (exists t, k_cookie (q_cred q) = Some t /\ valid_cookie now t /\ u = t_sub t /\ l = t_level t) \/
  (exists b, k_cookie (q_cred q) = None /\ k_basic (q_cred q) = Some b /\ b_ok b = true /\ u = b_user b /\ l = bPassword) \/
  (u = cn /\ l = bIPCert /\ hasb required bIPCert = true /\ peer_inside (present has_ed m p) /\ pr_automation p = true).
Proof.
  intros Hiss Hext Htls H.
  pose proof (issue_ext_role _ _ _ _ _ _ _ _ Hiss Hext) as Hrole.
  destruct (issue_fields _ _ _ _ _ _ _ _ Hiss) as (Hcn & _).
  destruct (gate_cases _ _ _ _ _ _ _ _ H) as (Hreq & Hp & He).
  destruct He as [(t & E & V & Eu & El & _)|[(b & E0 & E & Bo & _ & Eu & El & _)|(c & Ec & Eu & Hu0 & El & _ & Hkm & Hip)]].
  - left. exists t. auto.
  - right. left. exists b. auto.
  - right. right. rewrite Htls in Ec. inversion Ec; subst c. clear Ec.
    assert (KU : km_user true deny (present has_ed m p) = false).
    { destruct (km_user true deny (present has_ed m p)) eqn:KU; [|reflexivity].
      exfalso. apply (role_chain_not_km has_ed m p deny Hrole). now apply km_user_cert. }
    assert (Hl : l = bIPCert /\ hasb required bIPCert = true).
    { unfold tls_level in El. rewrite KU in El.
      destruct (hasb required bIPCert) eqn:RI.
      - destruct (ip_res (present has_ed m p)); subst l; try (split; reflexivity);
          rewrite hasb_zero_l in Hreq; discriminate.
      - subst l. rewrite hasb_zero_l in Hreq. discriminate. }
    destruct Hl as [-> Hri].
    assert (Hic : ip_cert (present has_ed m p)) by (apply Hip; reflexivity).
    destruct Hic as (_ & _ & Hin & _ & Ha & _).
    splits; auto. rewrite Eu. simpl. exact Hcn.
Qed.

(* the request carries nothing but the certificate *)
Corollary ip_extension_cert_alone e k has_ed cn key nb ext m p now lim deny required meth org u l iat :
  issue e k has_ed cn key nb ext = Some m ->
  m_ext m <> None ->
  check_auth now lim deny required
    {| q_meth := meth; q_origin := org; q_tls := Some (present has_ed m p); q_cred := no_cred |} = Admit u l iat ->
  u = cn /\ l = bIPCert /\ hasb l bKMX509 = false /\ hasb required bIPCert = true /\ peer_inside (present has_ed m p).
Proof.
  intros Hiss Hext H.
  set (q := {| q_meth := meth; q_origin := org; q_tls := Some (present has_ed m p); q_cred := no_cred |}) in *.
  assert (Htls : q_tls q = Some (present has_ed m p)) by reflexivity.
  destruct (ip_extension_never_plain _ _ _ _ _ _ _ _ _ _ _ _ _ _ _ _ _ Hiss Hext Htls H)
    as [(t & E & _)|[(b & _ & E & _)|(Hu & Hl & Hr & Hin & _)]]; try discriminate.
  subst l. splits; auto.
Qed.

Lemma role_conclusion_iff c l : role_conclusion c l = true <-> (l = bIPCert /\ peer_inside c).
Proof.
  unfold role_conclusion. rewrite andb_true_iff, N.eqb_eq, peer_insideb_iff. tauto.
Qed.

(* sharpness: choose the issuer of a role certificate by the type of the certified key (Ed25519 keys under the
   Ed25519 CA of a server that has one) and the gate of the tree takes the certificate - real verified chain
   [leaf, Ed25519 CA], address extension for 10.0.0.0/8, presented from 192.168.1.1 - for a plain keymaster
   certificate: admitted at the KeymasterX509 level on a mask without the IP-certificate bit *)
Lemma role_issuer_by_key_type_refuted :
  exists m p,
    issue_gen mint_role_by_key_type EGetRole KEd25519 true 4 9 50%Z (IPExt.ext_of [IPExt.mk 10 0 0 0 8]) = Some m /\
    m_ext m <> None /\ peer_insideb (present true m p) = false /\
    check_auth 100 true [] bKMX509
      {| q_meth := POST; q_origin := NoOrigin; q_tls := Some (present true m p); q_cred := no_cred |} = Admit 4 bKMX509 50%Z /\
    (* the issuer of the tree on the same request: refused *)
    (forall m', issue EGetRole KEd25519 true 4 9 50%Z (IPExt.ext_of [IPExt.mk 10 0 0 0 8]) = Some m' ->
       check_auth 100 true [] bKMX509
         {| q_meth := POST; q_origin := NoOrigin; q_tls := Some (present true m' p); q_cred := no_cred |} = Refuse 401).
Proof.
  eexists. exists {| pr_peer := IPExt.V4 192 168 1 1; pr_ip_error := false; pr_auto_error := false; pr_automation := true; pr_revoked := false |}.
  split; [reflexivity|]. split; [discriminate|]. split; [vm_compute; reflexivity|]. split; [vm_compute; reflexivity|].
  intros m' Hm'. vm_compute in Hm'. inversion Hm'; subst m'. vm_compute. reflexivity.
Qed.
