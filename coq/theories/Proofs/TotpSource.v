From Coq Require Import List ZArith Bool Lia.
From KM Require Import Base.Tactics Model.TotpLimit Proofs.TotpLimit.

Import ListNotations.
Open Scope Z_scope.

Section SourceProofs.
Variable k : consts.
Variable esc : bool.
Variable pol : purge_policy.

(* the throttle component of a step is `attempt` on the verdict the guard gives; the source is not an argument *)
Lemma attempt_src_thr cached s t c :
  thr (fst (attempt_src k esc cached s t c)) = fst (attempt k esc (thr s) t (verdict_of_code s c)) /\
  snd (attempt_src k esc cached s t c) = snd (attempt k esc (thr s) t (verdict_of_code s c)).
Proof.
  unfold attempt_src. destruct (attempt k esc (thr s) t (verdict_of_code s c)) as [r o].
  destruct o, c; simpl; auto.
Qed.

Lemma accepted_needs_fresh s t v s' :
  attempt k esc s t v = (s', EvalOk) -> v = Fresh.
Proof.
  unfold attempt. destruct (t <? last_check s + min_secs k * SEC); [discriminate|].
  cbn [lockout]. destruct (t <? lockout s); [discriminate|].
  destruct v; intros H; inversion H; reflexivity.
Qed.

(* two states that agree on the throttle record and on the value the guard compares with make the
   same step whatever the read source of either *)
Lemma attempt_src_source b1 b2 s1 s2 t c :
  thr s1 = thr s2 -> guard s1 = guard s2 ->
  let a1 := attempt_src k esc b1 s1 t c in
  let a2 := attempt_src k esc b2 s2 t c in
  snd a1 = snd a2 /\ thr (fst a1) = thr (fst a2) /\ guard (fst a1) = guard (fst a2).
Proof.
  intros Ht Hg. cbv zeta. unfold attempt_src.
  assert (Hv : verdict_of_code s1 c = verdict_of_code s2 c) by (unfold verdict_of_code; rewrite Hg; reflexivity).
  rewrite <- Hv, <- Ht.
  destruct (attempt k esc (thr s1) t (verdict_of_code s1 c)) as [r o] eqn:A.
  destruct o; try (destruct c; cbn [fst snd thr guard mem persisted]; auto).
  (* EvalOk, Matches n: n is beyond the guard *)
  apply accepted_needs_fresh in A. unfold verdict_of_code in A.
  destruct (n <=? guard s1) eqn:G; [discriminate|]. apply Z.leb_gt in G.
  assert (G2 : guard s2 < n) by (rewrite <- Hg; exact G).
  unfold guard in *. cbn [fst snd thr guard mem persisted].
  split; [reflexivity|split; [reflexivity|]]. destruct b1, b2; lia.
Qed.

Lemma step_src_source s1 s2 r1 r2 :
  body r1 = body r2 -> thr s1 = thr s2 -> guard s1 = guard s2 ->
  snd (step_src k esc pol s1 r1) = snd (step_src k esc pol s2 r2) /\
  thr (fst (step_src k esc pol s1 r1)) = thr (fst (step_src k esc pol s2 r2)) /\
  guard (fst (step_src k esc pol s1 r1)) = guard (fst (step_src k esc pol s2 r2)).
Proof.
  intros Hb Ht Hg. unfold step_src. rewrite <- Hb. destruct (body r1) as [t c|now].
  - pose proof (attempt_src_source (from_cache r1) (from_cache r2) s1 s2 t c Ht Hg) as A. cbv zeta in A.
    destruct (attempt_src k esc (from_cache r1) s1 t c) as [x1 o1].
    destruct (attempt_src k esc (from_cache r2) s2 t c) as [x2 o2].
    cbn [fst snd] in *. destruct A as [A1 [A2 A3]]. rewrite A1. auto.
  - cbn [fst snd thr guard]. unfold guard in *. cbn [mem persisted]. rewrite Ht. auto.
Qed.

Lemma run_src_source : forall h1 h2 s1 s2,
  map body h1 = map body h2 -> thr s1 = thr s2 -> guard s1 = guard s2 ->
  snd (run_src k esc pol s1 h1) = snd (run_src k esc pol s2 h2) /\
  thr (fst (run_src k esc pol s1 h1)) = thr (fst (run_src k esc pol s2 h2)) /\
  guard (fst (run_src k esc pol s1 h1)) = guard (fst (run_src k esc pol s2 h2)).
Proof.
  induction h1 as [|r1 h1 IH]; intros h2 s1 s2 Hm Ht Hg; destruct h2 as [|r2 h2]; try discriminate.
  - simpl. auto.
  - cbn [map] in Hm. injection Hm as Hb Hm.
    destruct (step_src_source s1 s2 r1 r2 Hb Ht Hg) as [A1 [A2 A3]].
    cbn [run_src]. destruct (step_src k esc pol s1 r1) as [x1 o1]. destruct (step_src k esc pol s2 r2) as [x2 o2].
    cbn [fst snd] in *. specialize (IH h2 x1 x2 Hm A2 A3).
    destruct (run_src k esc pol x1 h1) as [y1 os1]. destruct (run_src k esc pol x2 h2) as [y2 os2].
    cbn [fst snd] in *. destruct IH as [I1 [I2 I3]]. rewrite A1, I1. auto.
Qed.

Lemma map_body_uncached h : map body (map uncached h) = map body h.
Proof. induction h as [|r h IH]; [reflexivity|]. cbn [map]. rewrite IH. destruct r; reflexivity. Qed.

(* the read source of any request of a history is irrelevant for verdicts, throttle record and guard *)
Theorem read_source_irrelevant h s :
  snd (run_src k esc pol s h) = snd (run_src k esc pol s (map uncached h)) /\
  thr (fst (run_src k esc pol s h)) = thr (fst (run_src k esc pol s (map uncached h))) /\
  guard (fst (run_src k esc pol s h)) = guard (fst (run_src k esc pol s (map uncached h))).
Proof. apply run_src_source; auto. symmetry. apply map_body_uncached. Qed.

(* any two assignments of read sources to the same requests *)
Theorem read_source_any h1 h2 s :
  map body h1 = map body h2 ->
  snd (run_src k esc pol s h1) = snd (run_src k esc pol s h2) /\
  thr (fst (run_src k esc pol s h1)) = thr (fst (run_src k esc pol s h2)) /\
  guard (fst (run_src k esc pol s h1)) = guard (fst (run_src k esc pol s h2)).
Proof. intros H. apply run_src_source; auto. Qed.

(* a request served from the cache writes nothing to the profile *)
Lemma cached_no_write s o : persisted (fst (step_src k esc pol s (Cached o))) = persisted s.
Proof.
  unfold step_src. cbn [body from_cache]. destruct o as [t c|now]; [|reflexivity].
  unfold attempt_src. destruct (attempt k esc (thr s) t (verdict_of_code s c)) as [r x].
  destruct x, c; reflexivity.
Qed.

(* the run with sources is the throttle's run on the resolved history *)
Lemma step_src_resolve s r :
  thr (fst (step_src k esc pol s r)) = fst (step_op k esc pol (thr s) (resolve_op s r)) /\
  snd (step_src k esc pol s r) = snd (step_op k esc pol (thr s) (resolve_op s r)).
Proof.
  unfold step_src, resolve_op. destruct (body r) as [t c|now]; cbn [step_op].
  - pose proof (attempt_src_thr (from_cache r) s t c) as A.
    destruct (attempt_src k esc (from_cache r) s t c) as [x o].
    destruct (attempt k esc (thr s) t (verdict_of_code s c)) as [y o']. cbn [fst snd] in *.
    destruct A as [A1 A2]. rewrite A1, A2. auto.
  - cbn [fst snd thr]. auto.
Qed.

Lemma run_src_resolve : forall h s,
  thr (fst (run_src k esc pol s h)) = fst (run_ops k esc pol (thr s) (resolve k esc pol s h)) /\
  snd (run_src k esc pol s h) = snd (run_ops k esc pol (thr s) (resolve k esc pol s h)).
Proof.
  induction h as [|r h IH]; intros s; [simpl; auto|].
  cbn [run_src resolve run_ops]. pose proof (step_src_resolve s r) as A.
  destruct (step_src k esc pol s r) as [x o]. cbn [fst snd] in *.
  destruct (step_op k esc pol (thr s) (resolve_op s r)) as [y o']. cbn [fst snd] in A.
  destruct A as [A1 A2]. subst y o'. specialize (IH x).
  destruct (run_src k esc pol x h) as [x2 os]. destruct (run_ops k esc pol (thr x) (resolve k esc pol x h)) as [y2 os'].
  cbn [fst snd] in *. destruct IH as [I1 I2]. rewrite I1, I2. auto.
Qed.

Lemma resolve_in : forall h s t v, In (Att t v) (resolve k esc pol s h) -> exists r c, In r h /\ body r = CAtt t c.
Proof.
  induction h as [|r h IH]; intros s t v H; [destruct H|].
  cbn [resolve] in H. destruct H as [H|H].
  - unfold resolve_op in H. destruct (body r) as [t1 c1|now] eqn:B; [|discriminate].
    injection H as H1 _. subst t1. exists r, c1. split; [left; reflexivity|exact B].
  - destruct (IH _ _ _ H) as [r' [c' [I B]]]. exists r', c'. split; [right; exact I|exact B].
Qed.
End SourceProofs.

(* lock-out, history form, over the alphabet with read sources *)
Theorem lockout_history_src k pre cached t c post n :
  0 < every k -> 0 < n ->
  let r1 := run_src k true purge_never tst0 pre in
  let g1 := ghost_run k ghost0 (resolve k true purge_never tst0 pre) (snd r1) in
  let a := attempt_src k true cached (fst r1) t c in
  snd a = EvalFail -> streak (ghost_step k g1 t EvalFail) = every k * n ->
  (forall r t2 c2, In r post -> body r = CAtt t2 c2 -> t2 < t + n * HOUR) ->
  lockout (thr (fst a)) = t + n * HOUR /\
  Forall (fun x => unevaluated x = true) (snd (run_src k true purge_never (fst a) post)).
Proof.
  intros Hev Hn r1 g1 a Ha Hs Hpost.
  destruct (run_src_resolve k true purge_never pre tst0) as [R1 R2]. fold r1 in R1, R2. cbn [thr tst0] in R1, R2.
  destruct (attempt_src_thr k true cached (fst r1) t c) as [A1 A2]. fold a in A1, A2.
  destruct (run_src_resolve k true purge_never post (fst a)) as [P1 P2].
  pose proof (lockout_history k (resolve k true purge_never tst0 pre) t (verdict_of_code (fst r1) c)
                (resolve k true purge_never (fst a) post) n Hev Hn) as L. cbv zeta in L.
  rewrite <- R1, <- R2 in L. fold g1 in L. rewrite <- A1, <- A2 in L.
  destruct (L Ha Hs) as [L1 L2].
  - intros t2 v2 I. destruct (resolve_in _ _ _ _ _ _ _ I) as [r [c2 [I2 B]]]. exact (Hpost r t2 c2 I2 B).
  - split; [exact L1|]. rewrite P2. exact L2.
Qed.

(* the lenient shape: five wrong codes 2.2 s apart served from the cache, then a sixth *)
Definition lenient_hist : list rop :=
  [Cached (CAtt (1000 * SEC) Wrong); Cached (CAtt (1002 * SEC + 200000000) Wrong); Cached (CAtt (1004 * SEC + 400000000) Wrong);
   Cached (CAtt (1006 * SEC + 600000000) Wrong); Cached (CAtt (1008 * SEC + 800000000) Wrong); Cached (CAtt (1011 * SEC) Wrong);
   Direct (CAtt (1013 * SEC + 200000000) (Matches 34))].
Lemma lenient_refuted :
  let r := run_src_lenient k_prop true tst0 lenient_hist in
  snd r = [Some EvalFail; Some EvalFail; Some EvalFail; Some EvalFail; Some EvalFail; Some EvalFail; Some EvalOk] /\
  fail_count (thr (fst r)) = 0 /\
  snd (run_src k_prop true purge_never tst0 lenient_hist)
    = [Some EvalFail; Some EvalFail; Some EvalFail; Some EvalFail; Some EvalFail; Some RefusedLockout; Some RefusedLockout].
Proof. vm_compute. auto. Qed.
