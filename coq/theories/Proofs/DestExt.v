(* C17 — proofs about the external-URL dimension of the destination model. *)
From KM Require Import Base.Bytes Model.Dest Model.DestReq Model.DestExt Proofs.Dest.

(* ---- proofs ---- *)
Theorem location_ext_allowed : forall ext pf s,
  allowed ext (location_ext ext pf s) = true /\ allowed ext (federated_location_ext ext pf s) = true.
Proof.
  intros ext pf s. unfold allowed, location_ext, federated_location_ext.
  rewrite location_same_origin, federated_same_origin. split; reflexivity.
Qed.
Theorem allowed_none : forall loc, allowed None loc = same_origin loc.
Proof. intro loc. unfold allowed. apply Bool.orb_false_r. Qed.
Theorem location_ext_independent : forall ext ext' pf s,
  location_ext ext pf s = location_ext ext' pf s /\ federated_location_ext ext pf s = federated_location_ext ext' pf s.
Proof. intros. split; reflexivity. Qed.

(* "https://sso.example.org/km" *)
Definition ext_example : bs :=
  [104;116;116;112;115;58;47;47;115;115;111;46;101;120;97;109;112;108;101;46;111;114;103;47;107;109].
(* "/https://e.x/" *)
Theorem strip_resolve_refuted : exists e pf s, allowed (Some e) (location_strip_resolve (Some e) pf s) = false.
Proof. exists ext_example, false, [47;104;116;116;112;115;58;47;47;101;46;120;47]. vm_compute. reflexivity. Qed.
