(* C04 — "bound to the server that issued them": what a server does with the artefacts of ANOTHER
   instance of the deployment (a peer: own host identity, own signer, possibly trusted key). *)
From Coq Require Import String ZArith NArith List Bool Lia.
From KM Require Import Base.Bytes Model.Tokens Model.OIDC Proofs.Tokens Proofs.OIDC.
Import ListNotations.
Open Scope Z_scope.

(* ---------------------------------------------------------------- the boolean form of names_server *)

Lemma names_server_b_true st c : names_server_b st c = true <-> names_server st c.
Proof.
  unfold names_server_b, names_server. split.
  - destruct (rd_str "iss" c) as [i|]; [|discriminate].
    destruct (rd_list "aud" c) as [[|a rest]|]; try discriminate.
    intro H. apply andb_true_iff in H. destruct H as [Hi Ha].
    apply bs_eqb_eq in Hi. apply bs_eqb_eq in Ha. subst. split; [reflexivity|]. exists rest. reflexivity.
  - intros [Hi [rest Ha]]. rewrite Hi, Ha. rewrite !bs_eqb_refl. reflexivity.
Qed.

(* ---------------------------------------------------------------- a token that names somebody else *)

(* the issuer / audience clause of accepts_sound read backwards: a consumer of session cookies, CLI
   tokens or storage records refuses every token that does not name THIS server as issuer and first
   audience - whoever signed it, a trusted peer key included *)
Lemma other_server_token_refused i now c t :
  must_name_server c -> names_server_b (srv i) (t_claims t) = false -> accepts i now c t = false.
Proof.
  intros M N. destruct (accepts i now c t) eqn:A; [|reflexivity].
  apply accepts_sound in A. destruct A as [_ [_ [_ [NS _]]]].
  apply NS in M. apply names_server_b_true in M. congruence.
Qed.

(* ---------------------------------------------------------------- the artefacts of a peer *)

(* every artefact carries its minter's identity in "iss" *)
Lemma emit_iss pe t_issue a : rd_str "iss" (t_claims (emit pe t_issue a)) = Some (s_issuer pe).
Proof. destruct a; reflexivity. Qed.

(* session cookies, CLI tokens and storage records carry it as their sole audience too *)
Lemma emit_names_minter pe t_issue a :
  match kind_of a with KSession | KCli | KStorage => True | _ => False end ->
  names_server pe (t_claims (emit pe t_issue a)).
Proof.
  destruct a; cbn [kind_of]; intro H; try contradiction; (split; [reflexivity|exists []; reflexivity]).
Qed.

(* what the "type" claim of an artefact says (absent = the empty string) *)
Lemma emit_type_not_code pe t_issue a : kind_of a <> KCode ->
  rd_str "type" (t_claims (emit pe t_issue a)) <> Some k_code.
Proof.
  destruct a; cbn [kind_of]; intro H; try (exfalso; apply H; reflexivity);
    cbn; unfold k_code, k_access; cbn; discriminate.
Qed.

(* Whatever a peer mints - with ALL parameters free, at any time - and whether or not this server
   trusts the peer's signing key: every consumer of this server refuses it, authorization codes at
   the token endpoint excepted (a code is not required to name the server, and the token endpoint
   does not look at its iss). *)
Lemma peer_artefact_refused i pe t_issue now a c :
  s_issuer pe <> s_issuer (srv i) -> kind_of a <> KCode -> accepts i now c (emit pe t_issue a) = false.
Proof.
  intros D K. destruct (accepts i now c (emit pe t_issue a)) eqn:A; [exfalso|reflexivity].
  pose proof (emit_iss pe t_issue a) as I.
  destruct c as [req|l| |l u|p u col other|r|].
  1-5: apply accepts_sound in A; destruct A as [_ [_ [_ [NS _]]]];
       destruct (NS Logic.I) as [NI _]; rewrite I in NI; inversion NI; auto.
  - apply accepts_sound in A. destruct A as [_ [KC _]]. cbn [kind_claim kind_const consumes] in KC.
    exact (emit_type_not_code pe t_issue a K KC).
  - unfold accepts in A. cbn [op_of exec] in A.
    destruct (c_userinfo (srv i) now (emit pe t_issue a)) as [u|] eqn:C; [|discriminate].
    apply c_userinfo_sound in C. destruct C as [_ [_ [CI _]]]. rewrite I in CI. inversion CI; auto.
Qed.

(* ---------------------------------------------------------------- distinct hosts, distinct identities *)

Lemma issuer_of_injective h1 h2 addr : issuer_of h1 addr = issuer_of h2 addr -> h1 = h2.
Proof.
  unfold issuer_of. intro H. apply app_inv_head in H. apply app_inv_tail in H. exact H.
Qed.

(* two instances that listen on the same address and differ in their host identity: none honours
   what the other minted *)
Lemma bound_to_issuing_server i pe host peer_host addr t_issue now a c :
  s_issuer (srv i) = issuer_of host addr -> s_issuer pe = issuer_of peer_host addr -> host <> peer_host ->
  kind_of a <> KCode -> accepts i now c (emit pe t_issue a) = false.
Proof.
  intros HA HB D K. apply peer_artefact_refused; [|exact K].
  rewrite HA, HB. intro E. apply issuer_of_injective in E. auto.
Qed.

(* ---------------------------------------------------------------- non-vacuity / the other reading *)

Definition peer_keys : list (N * N) := [(1, 1); (2, 1)]%N.
Definition up : bs := b "/idp/oauth2/userinfo".
(* member A signs with key 2, member B with key 1; both list both keys *)
Definition memberA : server := server_at (b "keymaster-a.example") (b ":443") up peer_keys 2 1.
Definition memberB : server := server_at (b "keymaster-b.example") (b ":443") up peer_keys 1 1.
Definition idpA : idp := {| srv := memberA; clients := [] |}.
Definition idpB : idp := {| srv := memberB; clients := [] |}.

(* NOT the code: an identity taken from a setting the members share instead of the host identity *)
Definition shared_identity (st : server) (name : bs) : server :=
  {| s_issuer := name; s_keys := s_keys st; s_signer := s_signer st; s_signer_alg := s_signer_alg st;
     s_userinfo := name ++ up |}.

Lemma peers_trust_keys_not_tokens :
  let now := 1010 * NS in
  let cookieB := emit memberB (1000 * NS) (ASession (b "alice") 2 57600) in
  let cliB := emit memberB (1000 * NS) (ACli (b "alice") 600) in
  let recB := emit memberB (1000 * NS) (AStorage (b "alice") 1 (b "h") 5000) in
  (* A verifies what B signs ... *)
  trusts_signer memberA memberB = true /\ verify memberA cookieB = true /\
  (* ... B honours its own artefacts ... *)
  accepts idpB now (CSession 2) cookieB = true /\ accepts idpB now CCliVerify cliB = true /\
  accepts idpB now (CStorage PPrimary (b "alice") 5000 None) recB = true /\
  (* ... A refuses them ... *)
  accepts idpA now (CSession 2) cookieB = false /\ accepts idpA now CCliVerify cliB = false /\
  accepts idpA now (CStorage PPrimary (b "alice") 5000 None) recB = false /\
  (* ... but honours a cookie signed by B's key that names A: the key IS trusted, the refusal above
     rests on the issuer / audience comparison alone *)
  accepts idpA now (CSession 2)
    {| t_signer := 1%N; t_alg := 1%N; t_tampered := false;
       t_claims := t_claims (emit memberA (1000 * NS) (ASession (b "alice") 2 57600)) |} = true.
Proof. vm_compute. repeat split; reflexivity. Qed.

(* were the identity a value the members share, each would honour the other's cookies, CLI tokens
   and storage records *)
Lemma shared_identity_refuted :
  let now := 1010 * NS in
  let name := b "https://sso.example" in
  let A := {| srv := shared_identity memberA name; clients := [] |} in
  let B := shared_identity memberB name in
  accepts A now (CSession 2) (emit B (1000 * NS) (ASession (b "alice") 2 57600)) = true /\
  accepts A now CCliVerify (emit B (1000 * NS) (ACli (b "alice") 600)) = true /\
  accepts A now (CStorage PCache (b "alice") 5000 None) (emit B (1000 * NS) (AStorage (b "alice") 1 (b "h") 5000)) = true.
Proof. vm_compute. repeat split; reflexivity. Qed.
