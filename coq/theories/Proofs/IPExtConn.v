From KM Require Import Base.Bytes Base.Tactics Model.IPExt Model.IPExtConn Proofs.IPExt.


Lemma auth_ip_flag_history h h' v d d' c p :
  auth_ip h {| cs_verified := v; did_resume := d |} c p = auth_ip h' {| cs_verified := v; did_resume := d' |} c p.
Proof. reflexivity. Qed.

Lemma auth_ip_independent h h' conn conn' c p :
  cs_verified conn = cs_verified conn' -> auth_ip h conn c p = auth_ip h' conn' c p.
Proof. intros Hv. unfold auth_ip. rewrite Hv. reflexivity. Qed.

Theorem iff_conn h conn cn blocks p :
  forallb wf_block blocks = true ->
  (auth_ip h conn (minted cn blocks) p = true <->
   cs_verified conn = true /\ exists b, In b blocks /\ contains b p = true).
Proof.
  intros Hwf. unfold auth_ip. simpl rc_ext. rewrite Bool.andb_true_iff.
  rewrite (minted_iff blocks p Hwf). reflexivity.
Qed.

Theorem iff_conn_mint h conn cn req p :
  forallb cidr_ok req = true ->
  (auth_ip h conn (mint_request cn req) p = true <->
   cs_verified conn = true /\ exists b, In b req /\ contains b p = true).
Proof.
  intros Hok. unfold auth_ip. rewrite Bool.andb_true_iff.
  rewrite (mint_parse_exact cn req p Hok). reflexivity.
Qed.

Lemma run_pointwise rs : forall h,
  run h rs = map (fun r => cs_verified (rq_conn r) && verify_ip (rc_ext (rq_cert r)) (rq_peer r)) rs.
Proof.
  induction rs as [|r t IH]; intros h; [reflexivity|].
  simpl. rewrite IH. reflexivity.
Qed.

Theorem run_history_independent rs h h' : run h rs = run h' rs.
Proof. rewrite (run_pointwise rs h), (run_pointwise rs h'). reflexivity. Qed.

(* whatever came before and whatever the flags: a request of the sequence that is let in with a
   minted certificate comes from inside the certificate's blocks *)
Theorem run_sound rs : forall h r cn blocks,
  forallb wf_block blocks = true ->
  In (r, true) (combine rs (run h rs)) -> rq_cert r = minted cn blocks ->
  cs_verified (rq_conn r) = true /\ exists b, In b blocks /\ contains b (rq_peer r) = true.
Proof.
  induction rs as [|x t IH]; intros h r cn blocks Hwf Hin Hc; [destruct Hin|].
  simpl in Hin. destruct Hin as [Heq|Hin].
  - injection Heq as Hx Hv. subst x. unfold auth_req in Hv. rewrite Hc in Hv.
    exact (proj1 (iff_conn h (rq_conn r) cn blocks (rq_peer r) Hwf) Hv).
  - exact (IH (h ++ [x]) r cn blocks Hwf Hin Hc).
Qed.

Theorem resume_cache_refuted :
  exists cn blocks inside outside full resumed,
    forallb wf_block blocks = true /\
    verify_ip (ext_of blocks) outside = false /\
    did_resume full = false /\ did_resume resumed = true /\
    let first := {| rq_conn := full; rq_peer := inside; rq_cert := minted cn blocks |} in
    auth_ip_cached [] full (minted cn blocks) inside = true /\
    auth_ip_cached [first] resumed (minted cn blocks) outside = true /\
    auth_ip [first] resumed (minted cn blocks) outside = false /\
    auth_ip_cached [] resumed (minted cn blocks) outside = false.
Proof.
  exists [115; 118; 99], [mk 10 0 0 0 24], (V4 10 0 0 7), (V4 203 0 113 9),
         {| cs_verified := true; did_resume := false |}, {| cs_verified := true; did_resume := true |}.
  vm_compute. repeat split; reflexivity.
Qed.
