(* C02 — issued certificates bind the authenticated (normalised) user to the submitted key only.
   The certificate is the abstract certdesc of Model/Certgen.v; the correspondence check decodes
   every real certificate and compares it field by field with this description, and verifies its
   signature under the published CA material. *)
From Coq Require Import ZArith.
From KM Require Import Base.Bytes Model.Auth Model.Certgen Model.CertgenCases Model.CertgenIdent Model.CertgenEnv
                       Model.DerPatch Proofs.DerPatch Proofs.CertgenSpec Proofs.CertgenAuth Proofs.Certgen Proofs.CertgenCert Proofs.CertgenIdent Proofs.CertgenEnv.
From KM Require Model.Seal.
Open Scope N_scope.

(* every issued certificate names exactly the user the request authenticates (and the URL
   names, byte for byte), certifies exactly the submitted key, is an end-entity user
   certificate with client-authentication usage, and is signed by a key the server publishes: the
   key material of the server is ANY state the sealing model (Model/Seal.v, C09) reaches from a
   freshly loaded configuration kc - any key files, any list of keys in
   keymaster_public_keys_filename (any content, any order, duplicates, the server's own keys
   among them or not) - by any list of injections; the signing key is then among the keys served by
   /public/sshca (KeymasterPublicKeys) and among the CA certificates served by /public/x509ca. *)
Theorem c02_binding : forall expand kc l st now lim q u c,
  s_keys st = Seal.inject_all kc (Seal.sealed_init kc) l ->
  certgen expand st now lim q = Issued u c ->
  (exists level, proves st now q u level) /\
  d_names c = [s_name st u] /\ q_target q = s_name st u /\
  (exists ed, q_key q = Some (d_key c, ed)) /\
  d_user_type c = true /\ d_is_ca c = false /\
  (d_ssh c = false -> In EkuClientAuth (d_ekus c)) /\
  In (d_signer c) (published_ssh st) /\ In (d_signer c) (published_x509 st).
Proof. exact binding. Qed.
Print Assumptions c02_binding.

(* the signing key is a loaded signer: the main one, or the Ed25519 one for an SSH certificate *)
Theorem c02_signed_by_loaded_signer : forall expand st now lim q u c,
  certgen expand st now lim q = Issued u c ->
  Seal.signer (s_keys st) <> None /\
  (Seal.signer (s_keys st) = Some (d_signer c) \/ (d_ssh c = true /\ Seal.ed (s_keys st) = Some (d_signer c))).
Proof. exact issued_signer. Qed.
Print Assumptions c02_signed_by_loaded_signer.

(* signerPublicKeyToKeymasterKeys as a function from (initial key list, loaded signers) to the
   published list: every loaded signer's key is in the result, for every initial list *)
Theorem c02_published_for_every_initial_list : forall s k,
  (Seal.signer s = Some k \/ (Seal.ed s = Some k /\ Seal.signer s <> None)) ->
  Seal.mem k (Seal.add_pubkeys s) = true.
Proof. exact published_for_every_initial_list. Qed.
Print Assumptions c02_published_for_every_initial_list.

(* a request made on behalf of any other name is refused (403 when it would otherwise qualify) *)
Theorem c02_other_user_refused : forall expand st now lim q u level iat,
  check_auth now lim bAny (auth_request st q) = Admit u level iat ->
  s_name st u <> q_target q ->
  (exists code, certgen expand st now lim q = Refused code /\ 400 <= code) /\
  (s_sealed st = false -> qualifies (s_cfg st) level -> certgen expand st now lim q = Refused 403).
Proof. exact other_user_refused. Qed.
Print Assumptions c02_other_user_refused.

(* SSH extensions are exactly the five standard ones plus the configured ones with the user
   name substituted (spec_ext: last configured writer of a key wins, empty keys are dropped),
   each key once *)
Theorem c02_extensions : forall expand st now lim q u c,
  certgen expand st now lim q = Issued u c -> d_ssh c = true ->
  (forall k, lookup (d_exts c) k = spec_ext expand (s_templates st) (s_name st u) k) /\
  NoDup (map fst (d_exts c)).
Proof. exact extensions. Qed.
Print Assumptions c02_extensions.

(* ... and an SSH certificate exists only if EVERY configured template - name and value - expands for
   this user; a template the expander rejects (for everybody or for this name only) is never skipped:
   nothing is issued *)
Theorem c02_failed_expansion_refused : forall expand st now lim q u c,
  certgen expand st now lim q = Issued u c -> d_ssh c = true ->
  forall k v, In (k, v) (s_templates st) ->
    expand k (s_name st u) <> None /\ expand v (s_name st u) <> None.
Proof. exact failed_expansion_refused. Qed.
Print Assumptions c02_failed_expansion_refused.

(* ---- the daemon's process environment is NO input of a certificate.  The expander is split into
   shell.Expand proper (shexpand mapper template, any function) and the mapper it asks for the value of a
   variable; the mapper of the code (Model/CertgenEnv.v user_mapper) knows the authenticated user as USERNAME
   and nothing else.  For EVERY environment env the daemon may have been started in - a USERNAME, HOME, HOSTNAME
   ... binding of any value - an issued SSH certificate carries exactly the extensions of the specification
   evaluated with the user alone (expand_user does not mention the environment), every configured template
   expands for the user alone, and the same request in any other environment env' gets the same certificate *)
Theorem c02_extensions_env_independent : forall shexpand env st now lim q u c,
  certgen_env shexpand env st now lim q = Issued u c ->
  (d_ssh c = true ->
   (forall k, lookup (d_exts c) k = spec_ext (expand_user shexpand) (s_templates st) (s_name st u) k) /\
   NoDup (map fst (d_exts c)) /\
   (forall k v, In (k, v) (s_templates st) ->
      expand_user shexpand k (s_name st u) <> None /\ expand_user shexpand v (s_name st u) <> None)) /\
  (forall env', certgen_env shexpand env' st now lim q = Issued u c).
Proof. exact extensions_env_independent. Qed.
Print Assumptions c02_extensions_env_independent.

(* NOT the code: a mapper that looks a variable up in the environment before the user (env_mapper: the
   request's USERNAME first, the daemon's environment after it, the last binding wins).  One template
   l -> ${USERNAME}, USERNAME=root in the environment: alice's certificate says root - not spec_ext for
   alice, and not what the same daemon issues without the variable; the code's mapper on the same input
   does not notice the variable *)
Theorem c02_env_shadows_user_refuted :
  exists shexpand env st now lim q u c,
    certgen_env_shadow shexpand env st now lim q = Issued u c /\ d_ssh c = true /\
    (exists k, lookup (d_exts c) k <> spec_ext (expand_user shexpand) (s_templates st) (s_name st u) k) /\
    certgen_env_shadow shexpand [] st now lim q <> certgen_env_shadow shexpand env st now lim q /\
    certgen_env shexpand env st now lim q = certgen_env shexpand [] st now lim q.
Proof. exact env_shadows_user_refuted. Qed.
Print Assumptions c02_env_shadows_user_refuted.

(* no two distinct authenticated users ever receive the same certified name (SSH principals / X.509
   common name), across servers, requests, certificate and key types: the name goes into the
   certificate byte for byte - not cut, not folded, not normalised *)
Theorem c02_names_injective : forall expand st1 now1 lim1 q1 u1 c1 st2 now2 lim2 q2 u2 c2,
  certgen expand st1 now1 lim1 q1 = Issued u1 c1 ->
  certgen expand st2 now2 lim2 q2 = Issued u2 c2 ->
  d_names c1 = d_names c2 -> s_name st1 u1 = s_name st2 u2.
Proof. exact names_injective. Qed.
Print Assumptions c02_names_injective.

(* the authenticated user's name is the ONLY identity the certificate carries: no further principal or
   critical option (SSH); no DNS, e-mail, URI, address, directory or other-name entry in the subject
   alternative name, no further subject attribute, no second common name (X.509); the PKINIT name, when
   a realm is configured, is the same user in that realm *)
Theorem c02_no_other_names : forall expand st now lim q u c,
  certgen expand st now lim q = Issued u c ->
  d_other_names c = [] /\ d_names c = [s_name st u] /\
  match d_krb c with Some (r, p) => s_realm st = Some r /\ p = s_name st u | None => True end.
Proof. exact no_other_names. Qed.
Print Assumptions c02_no_other_names.

(* ---- the authenticated (NORMALISED) user, on EVERY credential path.  A certificate request can
   authenticate with a name whose spelling the client chose in five ways (Model/CertgenIdent.v credkind):
   the session cookie of a login by form or by Basic header, the Basic header on the request itself, a
   client certificate of this keymaster, an IP-restricted automation certificate.  Whatever the way k, the name as typed, the password, the
   password backend, the Okta filter, the normalisation switch, the server and the rest of the request:
   if a certificate is issued then the credential path handed on exactly account_of k typed - the
   normalisation (reprocessUsername) of the typed name; a certificate's common name as it stands -, the
   certificate names exactly that account, the URL segment is that account byte for byte (NOT the name
   as typed, unless that is the account), the certified key is the submitted one, and on the password
   paths the backend accepted the password for THAT account. *)
Theorem c02_user_is_normalised : forall okta disable backend automation expand st0 q0 now k typed pw u c,
  ident_certgen okta disable backend automation expand st0 q0 now k typed pw = Issued u c ->
  identity_of okta disable backend automation k typed pw = Some (account_of okta disable k typed) /\
  d_names c = [account_of okta disable k typed] /\
  q_target q0 = account_of okta disable k typed /\
  (exists ed, q_key q0 = Some (d_key c, ed)) /\
  (password_kind k = true -> backend (account_of okta disable k typed) pw = true) /\
  (k = KIpCert -> automation (account_of okta disable k typed) = true).
Proof. exact ident_issued. Qed.
Print Assumptions c02_user_is_normalised.

(* forall credential kind: the identity checkAuth returns = normalise (typed name) (a certificate: its common
   name), on the password paths it is the one account the backend was asked about and accepted the password
   for, and an IP-restricted certificate's name is byte for byte a configured automation user *)
Theorem c02_identity_is_account : forall okta disable backend automation k typed pw id,
  identity_of okta disable backend automation k typed pw = Some id ->
  id = account_of okta disable k typed /\
  (password_kind k = true -> p_asked (cred_path okta disable backend automation k typed pw) = Some id /\ backend id pw = true) /\
  (k = KIpCert -> automation id = true).
Proof. exact path_identity. Qed.
Print Assumptions c02_identity_is_account.

(* a request for any other spelling than the account - the name as typed, when that is not the
   normalised one - is refused on every credential path *)
Theorem c02_other_spelling_refused : forall okta disable backend automation expand st0 q0 now k typed pw,
  q_target q0 <> account_of okta disable k typed ->
  exists code, ident_certgen okta disable backend automation expand st0 q0 now k typed pw = Refused code.
Proof. exact ident_other_spelling_refused. Qed.
Print Assumptions c02_other_spelling_refused.

(* the endpoint alone: the subject's name is compared with the raw URL segment and written into the
   certificate *)
Theorem c02_normalised_name_certified : forall expand okta disable st now lim q submitted u c,
  s_name st u = normalise okta disable submitted ->
  certgen expand st now lim q = Issued u c ->
  q_target q = normalise okta disable submitted /\ d_names c = [normalise okta disable submitted].
Proof. exact user_is_normalised. Qed.
Print Assumptions c02_normalised_name_certified.

Theorem c02_normalise_idempotent : forall disable name,
  normalise None disable (normalise None disable name) = normalise None disable name.
Proof. exact normalise_idem. Qed.
Print Assumptions c02_normalise_idempotent.

(* ... also with the Okta backend's default filter ("@.*"): nothing of a mail domain survives it *)
Theorem c02_normalise_idempotent_okta : forall disable name,
  normalise (Some okta_at_filter) disable (normalise (Some okta_at_filter) disable name) =
  normalise (Some okta_at_filter) disable name.
Proof. exact normalise_okta_idem. Qed.
Print Assumptions c02_normalise_idempotent_okta.

(* a basic-auth branch that checks the password for the normalised account but hands on the name AS TYPED
   (Model/CertgenIdent.v basic_branch_typed) breaks c02_identity_is_account: "Alice" with alice's password *)
Theorem c02_typed_identity_refuted :
  exists okta disable backend typed pw id,
    p_identity (basic_branch_typed okta disable backend typed pw) = Some id /\
    p_asked (basic_branch_typed okta disable backend typed pw) <> Some id /\
    id <> normalise okta disable typed.
Proof. exact typed_identity_refuted. Qed.
Print Assumptions c02_typed_identity_refuted.

(* Before the repair of lib/certgen (0889d74) the PKINIT name of a long user name was corrupt:
   realm EXAMPLE.COM, a 100-byte name *)
Theorem c02_old_krb_refuted : exists realm user, krb_san_old realm user <> Some (realm, user).
Proof. exact old_krb_refuted. Qed.
Print Assumptions c02_old_krb_refuted.

(* ---- the Kerberos SAN byte patching, lib/certgen's own byte-level code (Model/DerPatch.v is
   changePrintableStringToGeneralString + derWalk line by line; krb_der is what asn1.Marshal hands it for
   (realm, name)).  For EVERY realm and name - short and long length forms, nested - whose encoding stays below
   the 2^24 bytes that derWalk's three length octets can express: the function succeeds, the result has the same
   length, and input and result are the SAME bytes  pre ++ [tag] ++ len ++ realm ++ mid ++ [tag] ++ len ++ name
   with the two string tags (PrintableString 19 or UTF8String 12) replaced by GeneralString 27; krb_pre and krb_mid
   are made of headers only and do not mention the tags. *)
Theorem c02_krb_patch_tags_only : forall realm name,
  blen (krb_der realm name) < 16777216 ->
  patch (krb_der realm name) = Some (retag realm name) /\
  length (retag realm name) = length (krb_der realm name) /\
  krb_der realm name = krb_pre realm name ++ tlv (str_tag realm) realm ++ krb_mid name ++ tlv (str_tag name) name /\
  retag realm name = krb_pre realm name ++ tlv 27 realm ++ krb_mid name ++ tlv 27 name.
Proof. exact krb_patch_tags_only. Qed.
Print Assumptions c02_krb_patch_tags_only.

(* the size condition in terms of the two strings (81 bounds what the eleven headers, the object identifier and the
   integer can take) *)
Theorem c02_krb_patch_tags_only_sizes : forall realm name,
  blen realm + blen name + 81 < 16777216 -> patch (krb_der realm name) = Some (retag realm name).
Proof. exact krb_patch_tags_only_sizes. Qed.
Print Assumptions c02_krb_patch_tags_only_sizes.

(* on ANY input (truncated, mutated, not DER at all) the function returns bytes or an error: no slice index is
   ever out of range (every der[i] of the Go code is an nth_error in the model; None there is the outcome Panic) *)
Theorem c02_krb_patch_total : forall b, patch_res b <> Panic.
Proof. exact krb_patch_total. Qed.
Print Assumptions c02_krb_patch_total.

Theorem c02_krb_patch_length : forall b o, patch b = Some o -> length o = length b.
Proof. exact krb_patch_length. Qed.
Print Assumptions c02_krb_patch_length.

(* the function before 0889d74 (fixed offsets 16 and 31+len(realm)) on EXAMPLE.COM and a 100-byte name: not the
   retagged bytes; the function as it is now: the retagged bytes *)
Theorem c02_old_krb_patch_refuted :
  let realm := [69; 88; 65; 77; 80; 76; 69; 46; 67; 79; 77] in
  let name := repeat 110 100 in
  patch_old (blen realm) (krb_der realm name) <> Ok (retag realm name) /\
  patch (krb_der realm name) = Some (retag realm name).
Proof. exact old_patch_refuted. Qed.
Print Assumptions c02_old_krb_patch_refuted.

(* ---- non-vacuity: with no templates the extension map is the five standard names; a
   template ${USERNAME}-style pair is substituted, a colliding later pair overrides it, an
   empty key is dropped; "Alice" normalises to "alice", so /certgen/Alice is refused (shape 48) *)
Example c02_ext_std : forall u, ssh_extensions [] = map (fun k => (k, [])) std5 /\
  spec_ext no_expand [] u e_pty = Some [] /\ spec_ext no_expand [] u [120] = None.
Proof. intro u. vm_compute. repeat split; reflexivity. Qed.

Example c02_ext_override :
  let expand := fun t u : bs => Some (if bs_eqb t [36] then u else t) in   (* "$" stands for ${USERNAME} *)
  let tpl := [([107], [36]); ([], [118]); ([107], [119]); (e_pty, [36])] in
  expand_extensions expand tpl n_alice [] = Some [([107], [119]); ([], [118]); (e_pty, n_alice)] /\
  lookup (ssh_extensions [([107], [119]); ([], [118]); (e_pty, n_alice)]) [107] = Some [119] /\
  lookup (ssh_extensions [([107], [119]); ([], [118]); (e_pty, n_alice)]) [] = None /\
  lookup (ssh_extensions [([107], [119]); ([], [118]); (e_pty, n_alice)]) e_pty = Some n_alice /\
  length (ssh_extensions [([107], [119]); ([], [118]); (e_pty, n_alice)]) = 6%nat.
Proof. vm_compute. repeat split; reflexivity. Qed.

(* non-vacuity of the published-key part: Ed25519 CA configured, the server's own main key already
   listed (with a foreign key, twice): after the right injection an SSH certificate on an Ed25519
   user key is signed by key 2, and the published list is [9; 1; 9; 1; 2] *)
Example c02_published_example :
  let kc := {| Seal.right_pass := key_pass; Seal.main_key := 1; Seal.main_res := Seal.FGood; Seal.role_ok := true;
               Seal.ed_file := Some (key_pass, 2, Seal.FGood); Seal.extra_pubkeys := [9; 1; 9; 1] |} in
  let r := Seal.admin_inj (Some key_pass) in
  let ks := Seal.inject_all kc (Seal.sealed_init kc) [r] in
  Seal.pubkeys ks = [9; 1; 9; 1; 2] /\ Seal.ca_ders ks = [2; 1] /\
  match certgen no_expand {| s_keys := ks; s_cfg := [sU2F]; s_name := case_name; s_host := case_host; s_addr := s_port443; s_templates := [];
                             s_realm := None; s_groups := fun _ => Some []; s_methods := fun _ => Some [] |}
                0%Z true (case_req (nth 8 shapes default_shape) 4 0) with
  | Issued u d => d_signer d = 2 /\ u = 1
  | Refused _ => False
  end.
Proof. vm_compute. repeat split; reflexivity. Qed.

(* non-vacuity of the credential paths: "Alice@Company.COM" by Basic header, alice's password, Okta filter:
   the account is "alice"; /certgen/alice is served with a certificate naming alice, /certgen/Alice
   is refused 403; with the wrong password 401 *)
Example c02_ident_example :
  let typed := n_Alice ++ [64;67;111;109;112;97;110;121;46;67;79;77] in
  let backend := fun a p : bs => bs_eqb a n_alice && bs_eqb p [112] in
  let st0 := case_server_at 0 [sPassword] 0 in
  let q0 t := case_req (sh NoCr t) 0 0 in
  account_of (Some okta_at_filter) false KBasic typed = n_alice /\
  (match ident_certgen (Some okta_at_filter) false backend (fun _ => false) no_expand st0 (q0 1) 0%Z KBasic typed [112] with
   | Issued _ d => d_names d = [n_alice] | Refused _ => False end) /\
  ident_certgen (Some okta_at_filter) false backend (fun _ => false) no_expand st0 (q0 5) 0%Z KBasic typed [112] = Refused 403 /\
  ident_certgen (Some okta_at_filter) false backend (fun _ => false) no_expand st0 (q0 1) 0%Z KBasic typed [113] = Refused 401.
Proof. vm_compute. repeat split; reflexivity. Qed.

Example c02_alice : normalise None false n_Alice = n_alice /\ run_case 4 48 0 0 0 = 0 /\ run_case 4 8 0 0 0 = 6.
Proof. vm_compute. repeat split; reflexivity. Qed.
