(* C06 — no protected effect without a valid credential the endpoint accepts. *)
From Coq Require Import ZArith List Bool String.
From KM Require Import Base.Bytes Model.Auth Model.AuthGate Model.Routes Proofs.AuthGate.
From KM Require Model.IPExt Proofs.IPExt.
From KM Require Import Model.GateObs Proofs.GateObs.
Import ListNotations.
Open Scope N_scope.

(* Whenever checkAuth lets a request in as (u, level): the request really carries a currently
   valid credential establishing exactly that user and level ([proves] is the specification:
   trusted untampered unexpired session token of this issuer; or a verified password; or a
   verified certificate chain to a keymaster key that is not the role CA's, with a key that is
   at no position of the deny list; or an IP-restricted automation certificate whose TCP peer
   lies in its blocks), the level shares a bit with the mask the endpoint passed, and unless the
   method is GET the Origin/Referer did not name another site.  All clocks, masks, limiter
   states, deny lists of any length, chain lists, and every COMBINATION of credentials a request
   can carry at once (client certificate x auth_cookie x basic-auth header, each present or
   absent, valid or not). *)
Theorem c06_gate_sound : forall now lim deny required q u l iat,
  check_auth now lim deny required q = Admit u l iat ->
  proves now deny q u l /\ hasb l required = true /\ (q_meth q <> GET -> origin_ok q).
Proof. exact gate_sound. Qed.
Print Assumptions c06_gate_sound.

(* The identity, level and issue instant are exactly what the presented credential establishes:
   subject / level / iat of the session token; the password user at level Password (only when the
   request carries no auth_cookie); or the common name of the verified leaf with exactly the bits
   its chain and its address extension justify. *)
Theorem c06_identity_real : forall now lim deny required q u l iat,
  check_auth now lim deny required q = Admit u l iat -> established now deny required q u l iat.
Proof. exact identity_real. Qed.
Print Assumptions c06_identity_real.

(* a deny-listed key — the list has any length, the key sits at any position, duplicates or not —
   never yields the keymaster-certificate bit, an IP-restricted certificate presented from outside
   its netblocks never yields the IP-certificate bit (if such a bit is in the level let in, it
   came from a valid session token) *)
Theorem c06_never_denied : forall now lim deny required q u l iat c,
  check_auth now lim deny required q = Admit u l iat -> q_tls q = Some c -> In (x_key c) deny ->
  hasb l bKMX509 = true -> exists t, k_cookie (q_cred q) = Some t /\ valid_cookie now t /\ l = t_level t.
Proof. exact never_denied. Qed.
Print Assumptions c06_never_denied.

(* position by position: a request without auth_cookie let in with the keymaster-certificate bit
   presents a key that is at NO index of the deny list *)
Theorem c06_deny_no_position : forall now lim deny required q u l iat c,
  check_auth now lim deny required q = Admit u l iat -> q_tls q = Some c -> k_cookie (q_cred q) = None ->
  hasb l bKMX509 = true -> forall i, nth_error deny i <> Some (x_key c).
Proof. exact deny_no_position. Qed.
Print Assumptions c06_deny_no_position.

(* IP-restricted certificates, as a statement about ADDRESSES ([peer_inside]): whoever is let in with
   the IP-certificate bit presents a leaf whose address delegation extension literally carries an IPv4
   prefix b of at most 32 bits with IPExt.contains b peer = true - the peer's leading plen bits are the
   block's, partial octets included - for every extension content (any families, any bit strings, any
   prefix length 0..32, any number of blocks) and every peer (IPv4, IPv4-mapped, other IPv6, unparsable);
   or the bit came out of a valid session token. *)
Theorem c06_never_outside : forall now lim deny required q u l iat c,
  check_auth now lim deny required q = Admit u l iat -> q_tls q = Some c -> hasb l bIPCert = true ->
  peer_inside c \/ exists t, k_cookie (q_cred q) = Some t /\ valid_cookie now t /\ l = t_level t.
Proof. exact never_outside. Qed.
Print Assumptions c06_never_outside.

(* block by block: when no prefix of the extension holds the peer, a request without auth_cookie never
   gets the bit *)
Theorem c06_never_outside_blocks : forall now lim deny required q u l iat c,
  check_auth now lim deny required q = Admit u l iat -> q_tls q = Some c -> k_cookie (q_cred q) = None ->
  (forall ext blocks e b, x_ext c = Some ext -> In (IPExt.ipv4_family, blocks) ext -> In e blocks ->
                          IPExt.decode e = Some b -> IPExt.contains b (x_peer c) = false) ->
  hasb l bIPCert = false.
Proof. exact never_outside_blocks. Qed.
Print Assumptions c06_never_outside_blocks.

(* in numbers, for what the role-certificate endpoints mint (well-formed blocks) and an IPv4 peer
   a0.a1.a2.a3: some block of the certificate and the peer have the same quotient by 2^(32 - plen),
   i.e. the same leading plen bits - 10.20.16.0/20 holds 10.20.16.0 .. 10.20.31.255 and nothing else *)
Theorem c06_never_outside_numeric : forall now lim deny required q u l iat c blocks a0 a1 a2 a3,
  check_auth now lim deny required q = Admit u l iat -> q_tls q = Some c -> k_cookie (q_cred q) = None ->
  x_ext c = Some (IPExt.ext_of blocks) -> forallb IPExt.wf_block blocks = true ->
  x_peer c = IPExt.V4 a0 a1 a2 a3 -> a0 < 256 -> a1 < 256 -> a2 < 256 -> a3 < 256 ->
  hasb l bIPCert = true ->
  exists b, In b blocks /\
    Proofs.IPExt.bnum b / 2 ^ (32 - IPExt.plen b) = Proofs.IPExt.num a0 a1 a2 a3 / 2 ^ (32 - IPExt.plen b).
Proof. exact never_outside_numeric. Qed.
Print Assumptions c06_never_outside_numeric.

(* credential combinations: the password of a basic-auth header counts only when the request has
   no auth_cookie at all AND the endpoint's mask has the password bit.  With a cookie present
   (valid, stale, of another kind, junk) or a mask without the password bit, whoever is let in
   is the subject of a valid cookie or the holder of a certificate. *)
Theorem c06_basic_only_without_cookie : forall now lim deny required q u l iat,
  check_auth now lim deny required q = Admit u l iat ->
  (exists t, k_cookie (q_cred q) = Some t) \/ hasb required bPassword = false ->
  (exists t, k_cookie (q_cred q) = Some t /\ valid_cookie now t /\ u = t_sub t /\ l = t_level t) \/
  (exists c, q_tls q = Some c /\ u = x_cn c /\ hasb l (N.lor bKMX509 bIPCert) = true).
Proof. exact basic_only_without_cookie. Qed.
Print Assumptions c06_basic_only_without_cookie.

(* the time window of the session cookie is EXACT, to the time unit of the clock, on both sides: a
   request carrying an auth_cookie is let in on its strength only while nbf <= now <= exp (when it is
   let in otherwise, it is as the holder of its client certificate); without a client certificate a
   cookie outside its window - by one unit or by a day, expired or not yet valid - is refused; and the
   statement is sharp: a gate with ANY positive grace period after exp admits a cookie that is not
   valid ([cookie_admits_with_grace] is not the code of the tree) *)
Theorem c06_cookie_window : forall now lim deny required q u l iat t,
  check_auth now lim deny required q = Admit u l iat -> k_cookie (q_cred q) = Some t ->
  ((t_nbf t <= now <= t_exp t)%Z /\ u = t_sub t /\ l = t_level t) \/
  (exists c, q_tls q = Some c /\ u = x_cn c /\ hasb l (N.lor bKMX509 bIPCert) = true).
Proof. exact cookie_window. Qed.
Print Assumptions c06_cookie_window.

Theorem c06_cookie_outside_window_refused : forall now lim deny required q t,
  q_tls q = None -> k_cookie (q_cred q) = Some t -> (t_exp t < now \/ now < t_nbf t)%Z ->
  exists code, check_auth now lim deny required q = Refuse code.
Proof. exact cookie_outside_window_refused. Qed.
Print Assumptions c06_cookie_outside_window_refused.

Theorem c06_grace_refuted : forall grace, (0 < grace)%Z ->
  exists now required t, cookie_admits_with_grace grace now required t = true /\ ~ valid_cookie now t.
Proof. exact grace_refuted. Qed.
Print Assumptions c06_grace_refuted.

(* configuration dimension: for EVERY list of web-UI backends that does not name `password`,
   an endpoint that passes getRequiredWebUIAuthLevel() lets in nobody but the subject of a valid
   session cookie whose level has a bit of that list — whatever certificate, basic-auth header or
   further material the request carries *)
Theorem c06_webui_without_password : forall now lim deny backends q u l iat,
  ~ In BPassword backends ->
  check_auth now lim deny (webui_level backends) q = Admit u l iat ->
  exists t, k_cookie (q_cred q) = Some t /\ valid_cookie now t /\ u = t_sub t /\ l = t_level t /\
            hasb (t_level t) (webui_level backends) = true.
Proof. exact webui_without_password. Qed.
Print Assumptions c06_webui_without_password.

(* a non-GET request whose Origin/Referer names another site (or does not parse) is refused,
   for every credential, mask and clock — also by the two older variants of the gate *)
Theorem c06_csrf : forall sr mt now lim deny required q,
  q_meth q <> GET -> (q_origin q = CrossOrigin \/ q_origin q = BadOrigin) ->
  exists code, check_auth_gen sr mt now lim deny required q = Refuse code.
Proof. exact csrf_refused. Qed.
Print Assumptions c06_csrf.

(* every row of the route model: a protected effect implies that the request is accepted by the
   gate declared for that route (valid credential of an accepted kind and level, the route's
   extra rule — admin, automation admin, self or admin+U2F, own credential —, no cross-site
   non-GET) *)
Theorem c06_routes : forall r env q e,
  In r route_table -> In e (snd (run env q (rt_steps r) None)) -> accepts env q (rt_gate r).
Proof. exact routes_sound. Qed.
Print Assumptions c06_routes.

Theorem c06_public_no_effect : forall r env q,
  In r route_table -> rt_gate r = GPublic -> snd (run env q (rt_steps r) None) = [].
Proof. exact public_no_effect. Qed.
Print Assumptions c06_public_no_effect.

(* state-changing requests from another site, partial form: on every route whose state-changing
   effects sit behind checkAuth and a method test excluding GET, such an effect implies that
   Origin/Referer did not name another site — whatever the method *)
Theorem c06_csrf_partial : forall r env q e,
  In r route_table -> csrf_safe (rt_steps r) = true ->
  In e (snd (run env q (rt_steps r) None)) -> state_changing e = true -> origin_ok q.
Proof. exact routes_csrf. Qed.
Print Assumptions c06_csrf_partial.

(* ... and on every masked route for every method but GET *)
Theorem c06_csrf_nonget : forall r env q m x,
  In r route_table -> rt_gate r = GMask m x -> q_meth q <> GET ->
  (q_origin q = CrossOrigin \/ q_origin q = BadOrigin) -> snd (run env q (rt_steps r) None) = [].
Proof.
  intros r env q m x Hr Hg Hm Ho.
  destruct (snd (run env q (rt_steps r) None)) as [|e es] eqn:E; [reflexivity|]. exfalso.
  assert (He : In e (snd (run env q (rt_steps r) None))) by (rewrite E; now left).
  pose proof (routes_sound r env q e Hr He) as A. rewrite Hg in A.
  destruct A as (u & l & _ & _ & Hc & _). destruct (Hc Hm) as [O|O]; destruct Ho as [O'|O']; congruence.
Qed.
Print Assumptions c06_csrf_nonget.

(* the full form is false of the current tree (finding F15): these are exactly the routes whose
   state-changing effect a cross-site GET carrying the victim's session reaches (nine since the
   registration-finish handlers and the WebAuthn login finish insist on POST) *)
Theorem c06_get_state_changers :
  get_state_changers =
  ["runtimeState.u2fRegisterRequest"; "runtimeState.u2fSignRequest";
   "runtimeState.webauthnBeginRegistration";
   "runtimeState.webauthnAuthLogin"; "runtimeState.vipPushStartHandler";
   "runtimeState.GenerateNewTOTP"; "runtimeState.oktaPushStartHandler"; "runtimeState.oktaPollCheckHandler";
   "runtimeState.BootstrapOtpAuthHandler"]%string.
Proof. vm_compute. reflexivity. Qed.
Print Assumptions c06_get_state_changers.

Definition good_token (u l : N) : token :=
  {| t_signer_trusted := true; t_alg_allowed := true; t_tampered := false; t_iss_ok := true;
     t_aud_ok := true; t_kind := 0; t_nbf := 0%Z; t_exp := 1000%Z; t_iat := 0%Z; t_sub := u; t_level := l |}.
Definition env0 : envx :=
  {| e_now := 100%Z; e_limiter := true; e_webui := N.lor bU2F bTOTP; e_deny := [7]; e_admin := fun u => u =? 3;
     e_autoadmin := fun u => u =? 3; e_target := 1; e_own := false; e_check := true |}.
Definition cross_get (u l : N) : reqx :=
  {| q_meth := GET; q_origin := CrossOrigin; q_tls := None; q_cred := cookie_only (good_token u l) |}.

Theorem c06_get_effects_refuted :
  exists r env q e, In r route_table /\ q_origin q = CrossOrigin /\
                    In e (snd (run env q (rt_steps r) None)) /\ state_changing e = true.
Proof.
  exists {| rt_key := "runtimeState.GenerateNewTOTP"; rt_gate := GMask MWebUI XNone;
            rt_steps := [SAuth MWebUI; SCheck; SEff EChange] |}, env0, (cross_get 1 bU2F), EChange.
  split; [vm_compute; tauto|]. split; [reflexivity|]. split; [vm_compute; tauto|reflexivity].
Qed.
Print Assumptions c06_get_effects_refuted.

(* the token manager before it insisted on POST: GET .../manageU2FToken?...&action=Disable with a
   foreign Referer and the victim's session changed the profile *)
Theorem c06_old_manage_refuted :
  exists env q e, q_origin q = CrossOrigin /\ In e (snd (run env q manage_u2f_old_steps None)) /\
                  state_changing e = true /\ csrf_safe manage_u2f_old_steps = false.
Proof. exists env0, (cross_get 1 bU2F), EChange. vm_compute. tauto. Qed.
Print Assumptions c06_old_manage_refuted.

(* the two registration-finish handlers before 8abc791: a GET carrying the token's answer, a foreign
   Referer and the victim's session stored a new hardware token *)
Theorem c06_old_register_finish_refuted :
  exists env q e, q_origin q = CrossOrigin /\ In e (snd (run env q register_finish_old_steps None)) /\
                  state_changing e = true /\ csrf_safe register_finish_old_steps = false.
Proof. exists env0, (cross_get 1 bU2F), EChange. vm_compute. tauto. Qed.
Print Assumptions c06_old_register_finish_refuted.

(* the WebAuthn login finish before it insisted on POST: a GET carrying the token's assertion for the pending
   challenge, a foreign Origin and the victim's session stored the token's counter and raised the session *)
Theorem c06_old_auth_finish_refuted :
  exists env q e, q_origin q = CrossOrigin /\ In e (snd (run env q auth_finish_old_steps None)) /\
                  state_changing e = true /\ csrf_safe auth_finish_old_steps = false.
Proof. exists env0, (cross_get 1 bU2F), EChange. vm_compute. tauto. Qed.
Print Assumptions c06_old_auth_finish_refuted.

(* the certificate branch before the two repairs: (a) chains issued by the role CA counted as
   plain keymaster certificates (an automation certificate outside its netblocks was let in
   although nothing [proves] it); (b) the branch result was returned without testing it against
   the mask (a plain user certificate was let in where only IP certificates are taken) *)
Theorem c06_old_tls_refuted :
  (exists now lim deny required q u l iat,
     check_auth_gen false true now lim deny required q = Admit u l iat /\ ~ proves now deny q u l) /\
  (exists now lim deny required q u l iat,
     check_auth_gen true false now lim deny required q = Admit u l iat /\ hasb l required = false).
Proof. split; [exact old_role_refuted|exact old_mask_refuted]. Qed.
Print Assumptions c06_old_tls_refuted.

(* The property's predicate on OBSERVATIONS.  When the correspondence reports a case on which the code and
   the model differ, the case file evaluates on the observed output of that case the boolean
   [gate_conclusion] (direct call: the implementation admitted (u, l)) resp. [acceptsb] / [identity_okb]
   (probe through a route: an effect was seen / an identity was logged).  These booleans are exactly the
   conclusions of c06_gate_sound and c06_routes: a case on which they are false is an input on which the
   implementation does what the theorems exclude. *)
Theorem c06_obs_gate_is_spec : forall now deny required q u l,
  gate_conclusion now deny required q u l = true <->
  (proves now deny q u l /\ hasb l required = true /\ (q_meth q <> GET -> origin_ok q)).
Proof. exact gate_conclusion_iff. Qed.
Print Assumptions c06_obs_gate_is_spec.

Theorem c06_obs_route_is_spec : forall env q g, acceptsb env q g = true <-> accepts env q g.
Proof. exact acceptsb_iff. Qed.
Print Assumptions c06_obs_route_is_spec.

Theorem c06_obs_identity_is_spec : forall env q m u,
  identity_okb env q m u = true <->
  exists l, proves (e_now env) (e_deny env) q u l /\ hasb l (mask_val (e_webui env) m) = true /\
            (q_meth q <> GET -> origin_ok q).
Proof. exact identity_okb_iff. Qed.
Print Assumptions c06_obs_identity_is_spec.

(* The login route as ISSUER of sessions.  A login request is a request (method, Origin/Referer, client
   certificate, auth_cookie, Authorization: Basic header) plus the form's user name / password; the login
   credential is the header if there is one, else the form.  Whenever the handler mints a session (u, l):
   l is the password level EXACTLY, the login credential is a password the backend verified, and u is the
   (normalised) user of that credential - for every auth_cookie the request arrives with (none, the same
   user's, ANOTHER user's; password only, with U2F / TOTP / VIP / any bits; valid, expired, foreign, junk),
   every client certificate, every origin and clock.  Second-factor bits are never inherited from what is
   attached to a login. *)
Theorem c06_login_mints_password_only : forall now lim lq u l,
  login_handler now lim lq = LMint u l ->
  l = bPassword /\ exists b, login_credential lq = Some b /\ b_ok b = true /\ u = b_user b.
Proof. exact login_mints_password_only. Qed.
Print Assumptions c06_login_mints_password_only.

(* ... and the attached credentials are IGNORED altogether: two login requests that agree on the method, the
   Authorization header and the form get the same answer (refusal code, or minted subject and level),
   whatever auth_cookie, client certificate, Origin/Referer and clock each of them has *)
Theorem c06_login_ignores_attached : forall now now' lim lq lq',
  q_meth (lq_req lq) = q_meth (lq_req lq') ->
  k_basic (q_cred (lq_req lq)) = k_basic (q_cred (lq_req lq')) ->
  lq_form lq = lq_form lq' ->
  login_handler now lim lq = login_handler now' lim lq'.
Proof. exact login_ignores_attached. Qed.
Print Assumptions c06_login_ignores_attached.

(* at the gates: the session a login minted, presented on its own, is refused by every endpoint whose mask has
   no password bit - at every clock, with every method / origin / validity window of the cookie *)
Theorem c06_login_session_needs_second_factor : forall now lim lq u l now' lim' deny required m o nbf exp iat,
  login_handler now lim lq = LMint u l -> hasb bPassword required = false ->
  exists code, check_auth now' lim' deny required
                 {| q_meth := m; q_origin := o; q_tls := None; q_cred := cookie_only (session_token u l nbf exp iat) |} = Refuse code.
Proof. exact login_session_needs_second_factor. Qed.
Print Assumptions c06_login_session_needs_second_factor.

(* the login row of the route table is this issuer (the route cases carry the form as k_basic) *)
Theorem c06_login_row_is_issuer : forall r env q e,
  find_row "runtimeState.loginHandler" = Some r -> In e (snd (run env q (rt_steps r) None)) ->
  exists u, login_handler (e_now env) (e_limiter env) {| lq_req := q; lq_form := None |} = LMint u bPassword.
Proof. intros r env q e F. vm_compute in F. inversion F; subst r. exact (login_row_is_issuer env q e). Qed.
Print Assumptions c06_login_row_is_issuer.

(* sharpness: a login handler that keeps the factors of the session the request arrives with
   ([login_handler_gen true], NOT the code of the tree) mints for the user whose password was typed a level with
   the U2F bit - outside [login_spec], and although no credential of the request proves that user at any level
   with that bit (the cookie is another user's); the handler of the tree mints the password level there *)
Theorem c06_login_carry_refuted :
  exists now lim lq u l,
    login_handler_gen true now lim lq = LMint u l /\ hasb l bU2F = true /\ ~ login_spec lq u l /\
    (forall l', hasb l' bU2F = true -> ~ proves now [] (lq_req lq) u l') /\
    login_handler now lim lq = LMint u bPassword.
Proof. exact login_carry_refuted. Qed.
Print Assumptions c06_login_carry_refuted.

(* the boolean the login case file evaluates on an observed Set-Cookie is the conclusion of
   c06_login_mints_password_only *)
Theorem c06_obs_login_is_spec : forall lq u l,
  login_conclusion lq u l = true <->
  (l = bPassword /\ exists b, login_credential lq = Some b /\ b_ok b = true /\ u = b_user b).
Proof. exact login_conclusion_iff. Qed.
Print Assumptions c06_obs_login_is_spec.

(* ---- non-vacuity ---- *)
Definition inside_cert : tlsx :=
  {| x_chains := [role_chain]; x_cn := 4; x_key := 1; x_nb := 0%Z; x_ip_error := false;
     x_ext := Some (IPExt.ext_of [IPExt.mk 10 0 0 0 8]); x_peer := IPExt.V4 10 1 2 3;
     x_auto_error := false; x_automation := true; x_revoked := false |}.
(* an automation certificate for 10.20.16.0/20 presented from [p] *)
Definition slash20_cert (p : IPExt.peer) : tlsx :=
  {| x_chains := [role_chain]; x_cn := 4; x_key := 1; x_nb := 0%Z; x_ip_error := false;
     x_ext := Some (IPExt.ext_of [IPExt.mk 192 168 0 0 16; IPExt.mk 10 20 16 0 20]); x_peer := p;
     x_auto_error := false; x_automation := true; x_revoked := false |}.
(* alice's certificate over the key with fingerprint 9 *)
Definition key9_cert : tlsx :=
  {| x_chains := [main_chain]; x_cn := 1; x_key := 9; x_nb := 0%Z; x_ip_error := false;
     x_ext := None; x_peer := IPExt.V4 10 1 2 3; x_auto_error := false; x_automation := false; x_revoked := false |}.
Definition same_post (u l : N) : reqx :=
  {| q_meth := POST; q_origin := SameOrigin; q_tls := None; q_cred := cookie_only (good_token u l) |}.
Definition cross_post (u l : N) : reqx :=
  {| q_meth := POST; q_origin := CrossOrigin; q_tls := None; q_cred := cookie_only (good_token u l) |}.
Definition junk_token : token :=
  {| t_signer_trusted := false; t_alg_allowed := false; t_tampered := true; t_iss_ok := false;
     t_aud_ok := false; t_kind := 0; t_nbf := 0%Z; t_exp := 0%Z; t_iat := 0%Z; t_sub := 0; t_level := 0 |}.
Definition good_basic : option basicx := Some {| b_user := 1; b_ok := true; b_err := false |}.
Definition combo (t : option token) (b : option basicx) (c : option tlsx) : reqx :=
  {| q_meth := GET; q_origin := NoOrigin; q_tls := c; q_cred := {| k_cookie := t; k_basic := b |} |}.

Example c06_nonvacuous_gate :
  let d := [7] in
  check_auth 100 true d (N.lor bU2F bTOTP) (same_post 1 (N.lor bPassword bU2F)) = Admit 1 (N.lor bPassword bU2F) 0 /\
  check_auth 100 true d (N.lor bU2F bTOTP) (same_post 1 bPassword) = Refuse 401 /\
  check_auth 100 true d (N.lor bU2F bTOTP) (cross_post 1 (N.lor bPassword bU2F)) = Refuse 401 /\
  check_auth 1001 true d (N.lor bU2F bTOTP) (same_post 1 (N.lor bPassword bU2F)) = Refuse 401 /\
  check_auth 100 true d (N.lor bU2F bKMX509) (with_cert POST user_cert) = Admit 1 bKMX509 0 /\
  check_auth 100 true d bIPCert (with_cert POST user_cert) = Refuse 401 /\
  check_auth 100 true d bIPCert (with_cert POST inside_cert) = Admit 4 bIPCert 100 /\
  check_auth 100 true d bIPCert (with_cert POST outside_cert) = Refuse 403 /\
  check_auth 100 true d bAny (with_cert POST outside_cert) = Refuse 403 /\
  check_auth 100 true d (N.lor bU2F bKMX509) (with_cert POST outside_cert) = Refuse 401.
Proof. vm_compute. repeat split; reflexivity. Qed.

(* netblocks whose prefix ends inside an octet: the remaining bits of that octet count *)
Example c06_nonvacuous_netblocks :
  let adm p := check_auth 100 true [] bIPCert (with_cert POST (slash20_cert p)) in
  adm (IPExt.V4 10 20 16 0) = Admit 4 bIPCert 100 /\ adm (IPExt.V4 10 20 31 255) = Admit 4 bIPCert 100 /\
  adm (IPExt.V4 192 168 77 1) = Admit 4 bIPCert 100 /\
  adm (IPExt.V4 10 20 32 0) = Refuse 403 /\ adm (IPExt.V4 10 20 15 255) = Refuse 403 /\
  adm (IPExt.V4 10 20 40 7) = Refuse 403 /\ adm (IPExt.V4 10 20 0 1) = Refuse 403 /\
  adm (IPExt.V4 172 16 0 1) = Refuse 403 /\ adm IPExt.V6other = Refuse 403 /\ adm IPExt.Garbage = Refuse 403.
Proof. vm_compute. repeat split; reflexivity. Qed.

(* deny lists: every position counts, whatever the length *)
Example c06_nonvacuous_deny :
  let m := N.lor bU2F bKMX509 in
  check_auth 100 true [] m (with_cert POST key9_cert) = Admit 1 bKMX509 0 /\
  check_auth 100 true [7; 8] m (with_cert POST key9_cert) = Admit 1 bKMX509 0 /\
  check_auth 100 true [9] m (with_cert POST key9_cert) = Refuse 401 /\
  check_auth 100 true [9; 7] m (with_cert POST key9_cert) = Refuse 401 /\
  check_auth 100 true [7; 9] m (with_cert POST key9_cert) = Refuse 401 /\
  check_auth 100 true [7; 9; 8] m (with_cert POST key9_cert) = Refuse 401 /\
  check_auth 100 true [9; 7; 8; 6] m (with_cert POST key9_cert) = Refuse 401 /\
  check_auth 100 true [7; 9; 9; 8] m (with_cert POST key9_cert) = Refuse 401.
Proof. vm_compute. repeat split; reflexivity. Qed.

(* combinations: a password never stands in for a cookie that does not verify, and never counts
   where the mask has no password bit; the certificate comes first; a valid cookie wins over the
   basic-auth header *)
Example c06_nonvacuous_combinations :
  let u2f := webui_level [BU2F] in let pw := webui_level [BPassword; BU2F] in
  check_auth 100 true [] pw (combo None good_basic None) = Admit 1 bPassword 100 /\
  check_auth 100 true [] u2f (combo None good_basic None) = Refuse 401 /\
  check_auth 100 true [] u2f (combo (Some junk_token) good_basic None) = Refuse 401 /\
  check_auth 100 true [] pw (combo (Some junk_token) good_basic None) = Refuse 401 /\
  check_auth 1001 true [] pw (combo (Some (good_token 2 bU2F)) good_basic None) = Refuse 401 /\
  check_auth 100 true [] pw (combo (Some (good_token 2 bU2F)) good_basic None) = Admit 2 bU2F 0 /\
  check_auth 100 true [] (N.lor pw bKMX509) (combo (Some (good_token 2 bU2F)) good_basic (Some user_cert)) = Admit 1 bKMX509 0 /\
  check_auth 100 true [1] (N.lor pw bKMX509) (combo (Some (good_token 2 bU2F)) good_basic (Some user_cert)) = Admit 2 bU2F 0 /\
  check_auth 100 true [1] (N.lor pw bKMX509) (combo None good_basic (Some user_cert)) = Admit 1 bPassword 100 /\
  check_auth 100 true [1] (N.lor u2f bKMX509) (combo (Some junk_token) good_basic (Some user_cert)) = Refuse 401.
Proof. vm_compute. repeat split; reflexivity. Qed.

Example c06_nonvacuous_routes :
  (* the owner disables her own token by a same-site POST: effect *)
  (exists r, find_row "runtimeState.u2fTokenManagerHandler" = Some r /\
             snd (run env0 (same_post 1 bU2F) (rt_steps r) None) = [EChange]) /\
  (* the same by GET, or from another site, or for another user: nothing *)
  (exists r, find_row "runtimeState.u2fTokenManagerHandler" = Some r /\
             snd (run env0 (cross_get 1 bU2F) (rt_steps r) None) = [] /\
             snd (run env0 (cross_post 1 bU2F) (rt_steps r) None) = [] /\
             snd (run env0 (same_post 2 bU2F) (rt_steps r) None) = []) /\
  (* an administrator with U2F may *)
  (exists r, find_row "runtimeState.u2fTokenManagerHandler" = Some r /\
             snd (run env0 (same_post 3 bU2F) (rt_steps r) None) = [EChange]) /\
  (* refresh takes IP certificates from inside their blocks only *)
  (exists r, find_row "runtimeState.refreshRoleRequestingCertGenHandler" = Some r /\
             snd (run env0 (with_cert POST inside_cert) (rt_steps r) None) = [ESigned] /\
             snd (run env0 (with_cert POST outside_cert) (rt_steps r) None) = [] /\
             snd (run env0 (with_cert POST user_cert) (rt_steps r) None) = []).
Proof. vm_compute. repeat split; eexists; repeat split; reflexivity. Qed.

(* the login route: Bob's password with nothing attached, with Eve's U2F session attached, with Bob's own
   U2F session attached, with a client certificate: always (bob, password); a wrong password, a PUT: nothing *)
Example c06_nonvacuous_login :
  let bob ok := Some {| b_user := 2; b_ok := ok; b_err := false |} in
  let lq m ck hdr form c := {| lq_req := {| q_meth := m; q_origin := NoOrigin; q_tls := c; q_cred := {| k_cookie := ck; k_basic := hdr |} |}; lq_form := form |} in
  login_handler 100 true (lq POST None None (bob true) None) = LMint 2 bPassword /\
  login_handler 100 true (lq POST (Some (good_token 1 (N.lor bPassword bU2F))) None (bob true) None) = LMint 2 bPassword /\
  login_handler 100 true (lq POST (Some (good_token 2 (N.lor bPassword bU2F))) None (bob true) None) = LMint 2 bPassword /\
  login_handler 100 true (lq GET (Some junk_token) (bob true) None (Some user_cert)) = LMint 2 bPassword /\
  login_handler 100 true (lq POST None (bob true) good_basic None) = LMint 2 bPassword /\
  login_handler 100 true (lq POST (Some (good_token 1 bAny)) (bob false) good_basic None) = LRefuse 401 /\
  login_handler 100 true (lq POST (Some (good_token 2 bAny)) None None None) = LRefuse 401 /\
  login_handler 100 true (lq OTHER None None (bob true) None) = LRefuse 405.
Proof. vm_compute. repeat split; reflexivity. Qed.

(* ---- The gate over the life of a daemon (Model/GateHist.v).  The verdict on a request does not depend on
   what the daemon has answered before: after ANY history of requests h - genuine credentials of the same or
   of other users, look-alikes of them, admitted or refused, under any masks, clocks, deny lists - the verdict
   on r is the verdict a daemon that has just started gives. *)
From KM Require Import Model.GateHist Proofs.GateHist.

Theorem c06_verdict_history_independent : forall h r, verdict_after h r = verdict_after [] r.
Proof. exact verdict_history_independent. Qed.
Print Assumptions c06_verdict_history_independent.

(* ... every request of a history is judged as if it were the first one the daemon sees ... *)
Theorem c06_history_pointwise : forall h, snd (gate_run tt h) = map (verdict_after []) h.
Proof. exact run_is_pointwise. Qed.
Print Assumptions c06_history_pointwise.

(* ... so whoever is let in, after whatever came before, is established by the credentials of THIS request:
   c06_gate_sound for a daemon of any age. *)
Theorem c06_gate_sound_after_history : forall h r u l iat,
  verdict_after h r = Admit u l iat ->
  proves (h_now r) (h_deny r) (h_q r) u l /\ hasb l (h_mask r) = true /\
  (q_meth (h_q r) <> GET -> origin_ok (h_q r)).
Proof. exact gate_sound_after_history. Qed.
Print Assumptions c06_gate_sound_after_history.

(* Sharpness: a gate that remembers the certificates it has matched to a keymaster signer under ANY key of the
   leaf that does not determine the issuer (subject, subject + serial number, public key, key id ...) and looks
   into that memory before it examines the issuer of the presented chain ([memo_step], not the code): the
   look-alike from another CA is refused by a fresh daemon, admitted as alice after one request of the genuine
   alice, while the gate of the tree refuses it there too and nothing in the request proves alice. *)
Theorem c06_verdict_memo_refuted : forall kf : tlsx -> N,
  kf genuine = kf lookalike ->
  memo_verdict_after kf [] (presenting lookalike) = Refuse 401 /\
  memo_verdict_after kf [presenting genuine] (presenting lookalike) = Admit 1 bKMX509 5%Z /\
  verdict_after [presenting genuine] (presenting lookalike) = Refuse 401 /\
  forall l, ~ proves 100%Z [] (h_q (presenting lookalike)) 1 l.
Proof. exact memo_refuted. Qed.
Print Assumptions c06_verdict_memo_refuted.
(* ------------------------------------------------------------------------------------------
   Fifth wave (C06-I): the issuers of client certificates next to the gate that reads them. *)
From KM Require Import Model.AuthGateRole Proofs.AuthGateRole.

(* A certificate that carries the address delegation extension is NEVER a plain keymaster certificate,
   whatever key it certifies and whatever signers the server has loaded.  For every certificate [m] that an
   endpoint of the tree hands out ([issue]: /v1/getRoleRequestingCert, /v1/refreshRoleRequestingCert, /certgen/,
   the AWS role endpoint; every accepted key type RSA / P-256 / P-384 / P-521 / Ed25519; server with or without
   an Ed25519 CA), if it carries the extension then a request that presents it with the chain crypto/x509 really
   verifies against the service port's client-CA pool ([present]) - from any peer, with any auth_cookie or
   basic-auth header besides, under any mask, clock, deny list - is let in either on the strength of a valid
   session token or a verified password it carries as well, or as the certificate's common name at EXACTLY the
   IP-certificate level, under a mask that asks for IP certificates, with the TCP peer inside a block the
   certificate carries and the name a configured automation identity.  Never the KeymasterX509 bit. *)
Theorem c06_ip_extension_never_plain : forall e k has_ed cn key nb ext m p now lim deny required q u l iat,
  issue e k has_ed cn key nb ext = Some m ->
  m_ext m <> None ->
  q_tls q = Some (present has_ed m p) ->
  check_auth now lim deny required q = Admit u l iat ->
  (exists t, k_cookie (q_cred q) = Some t /\ valid_cookie now t /\ u = t_sub t /\ l = t_level t) \/
  (exists b, k_cookie (q_cred q) = None /\ k_basic (q_cred q) = Some b /\ b_ok b = true /\ u = b_user b /\ l = bPassword) \/
  (u = cn /\ l = bIPCert /\ hasb required bIPCert = true /\ peer_inside (present has_ed m p) /\ pr_automation p = true).
Proof. exact ip_extension_never_plain. Qed.
Print Assumptions c06_ip_extension_never_plain.

(* the same for a request whose only credential is the certificate: outside its blocks, or under a mask
   without the IP-certificate bit (admin routes, /v1/getRoleRequestingCert, the web UI), it establishes nothing *)
Theorem c06_ip_extension_cert_alone : forall e k has_ed cn key nb ext m p now lim deny required meth org u l iat,
  issue e k has_ed cn key nb ext = Some m ->
  m_ext m <> None ->
  check_auth now lim deny required
    {| q_meth := meth; q_origin := org; q_tls := Some (present has_ed m p); q_cred := no_cred |} = Admit u l iat ->
  u = cn /\ l = bIPCert /\ hasb l bKMX509 = false /\ hasb required bIPCert = true /\ peer_inside (present has_ed m p).
Proof. exact ip_extension_cert_alone. Qed.
Print Assumptions c06_ip_extension_cert_alone.

(* the invariant of the issuers the two statements rest on *)
Theorem c06_extension_only_under_role_ca : forall e k has_ed cn key nb ext m,
  issue e k has_ed cn key nb ext = Some m -> m_ext m <> None -> m_issuer m = IRoleCA.
Proof. exact issue_ext_role. Qed.
Print Assumptions c06_extension_only_under_role_ca.

(* the boolean the case file evaluates on an observed admission level is the conclusion of c06_ip_extension_cert_alone *)
Theorem c06_obs_role_is_spec : forall c l, role_conclusion c l = true <-> (l = bIPCert /\ peer_inside c).
Proof. exact role_conclusion_iff. Qed.
Print Assumptions c06_obs_role_is_spec.

(* sharpness: with the issuer of a role certificate chosen by the type of the certified key
   ([mint_role_by_key_type], not the code: Ed25519 keys under the Ed25519 CA of a server that has one) the gate of
   the tree admits an Ed25519 role certificate for 10.0.0.0/8 presented from 192.168.1.1 with its real verified
   chain at the KeymasterX509 level under a mask without the IP-certificate bit; with the issuer of the tree the
   same request is refused *)
Theorem c06_role_issuer_by_key_type_refuted :
  exists m p,
    issue_gen mint_role_by_key_type EGetRole KEd25519 true 4 9 50%Z (IPExt.ext_of [IPExt.mk 10 0 0 0 8]) = Some m /\
    m_ext m <> None /\ peer_insideb (present true m p) = false /\
    check_auth 100 true [] bKMX509
      {| q_meth := POST; q_origin := NoOrigin; q_tls := Some (present true m p); q_cred := no_cred |} = Admit 4 bKMX509 50%Z /\
    (forall m', issue EGetRole KEd25519 true 4 9 50%Z (IPExt.ext_of [IPExt.mk 10 0 0 0 8]) = Some m' ->
       check_auth 100 true [] bKMX509
         {| q_meth := POST; q_origin := NoOrigin; q_tls := Some (present true m' p); q_cred := no_cred |} = Refuse 401).
Proof. exact role_issuer_by_key_type_refuted. Qed.
Print Assumptions c06_role_issuer_by_key_type_refuted.

(* non-vacuity: an Ed25519 role certificate of a server with an Ed25519 CA, presented from inside its block to the
   refresh mask: admitted at the IP-certificate level; from outside, and from inside under the mask of the
   admin routes: refused *)
Example c06_nonvacuous_role :
  let pr peer := {| pr_peer := peer; pr_ip_error := false; pr_auto_error := false; pr_automation := true; pr_revoked := false |} in
  let rq m peer := {| q_meth := POST; q_origin := NoOrigin; q_tls := Some (present true m (pr peer)); q_cred := no_cred |} in
  exists m, issue EGetRole KEd25519 true 4 9 50%Z (IPExt.ext_of [IPExt.mk 10 0 0 0 8]) = Some m /\
    check_auth 100 true [] bIPCert (rq m (IPExt.V4 10 1 2 3)) = Admit 4 bIPCert 100%Z /\
    check_auth 100 true [] bIPCert (rq m (IPExt.V4 192 168 1 1)) = Refuse 403 /\
    check_auth 100 true [] (N.lor bU2F bKMX509) (rq m (IPExt.V4 10 1 2 3)) = Refuse 401 /\
    check_auth 100 true [] bAny (rq m (IPExt.V4 10 1 2 3)) = Admit 4 bIPCert 100%Z.
Proof. eexists. split; [reflexivity|]. vm_compute. repeat split; reflexivity. Qed.
