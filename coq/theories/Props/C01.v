(* C01 — certificates are issued only after the operator-required authentication.
   Model: Model/Auth.v check_auth (app.go checkAuth, jwt.go getAuthInfoFromJWT) and
   Model/Certgen.v certgen (certgen.go certGenHandler); specification: Proofs/CertgenSpec.v
   (proves, qualifies, servable).  All theorems hold for every server state (any list of strings
   as allowed_auth_backends_for_certs, any name table), every clock reading, every request
   (any credential, any level mask, any certificate type and method) and every behaviour of the
   shell-expansion oracle. *)
From Coq Require Import ZArith.
From KM Require Import Base.Bytes Model.Auth Model.Certgen Model.CertgenCases Model.CertgenLife
                       Proofs.CertgenSpec Proofs.CertgenAuth Proofs.Certgen Proofs.CertgenLife.
From KM Require Model.Seal.
Open Scope N_scope.

(* A certificate comes back only from an unsealed server, for a POST whose URL names the
   authenticated user, and only if the request proves a currently valid credential (session
   cookie, password, keymaster client certificate, IP-restricted certificate inside its blocks)
   for that user at a level the operator's list accepts. *)
Theorem c01_sound : forall expand st now lim q u c,
  certgen expand st now lim q = Issued u c ->
  s_sealed st = false /\
  (exists level, proves st now q u level /\ qualifies (s_cfg st) level) /\
  q_target q = s_name st u /\ q_method q = HPost.
Proof. exact certgen_sound. Qed.
Print Assumptions c01_sound.

(* "Sealed server": the key material of the server is the state record of the sealing model
   (Model/Seal.v), and sealed means that the MAIN signer is absent.  Whatever else is loaded - the
   Ed25519 SSH CA signer after a half-finished load, CA certificates, trusted peer keys under which
   a presented session cookie still verifies - and whatever the request (any credential, any
   certificate type, any user key type), the answer is the error 500 and nothing is signed. *)
Theorem c01_sealed_refuses_everything : forall expand st now lim q,
  Seal.signer (s_keys st) = None -> certgen expand st now lim q = Refused 500.
Proof. exact sealed_refuses_everything. Qed.
Print Assumptions c01_sealed_refuses_everything.

(* The address an IP-restricted certificate is tested against is the TCP peer of the connection;
   the forwarding headers of the request (X-Forwarded-For, X-Real-Ip, Forwarded) are no input of
   the decision: two requests that differ only in them get the same answer ... *)
Theorem c01_forwarding_headers_ignored : forall expand st now lim q blocks peer xff xreal fw xff' xreal' fw',
  certgen expand st now lim (on_conn q blocks {| n_peer := peer; n_xff := xff; n_xreal := xreal; n_forwarded := fw |}) =
  certgen expand st now lim (on_conn q blocks {| n_peer := peer; n_xff := xff'; n_xreal := xreal'; n_forwarded := fw' |}).
Proof. exact forwarding_headers_ignored. Qed.
Print Assumptions c01_forwarding_headers_ignored.

(* ... and a client certificate that is not a keymaster user certificate yields a certificate only
   if the TCP peer lies inside one of its netblocks *)
Theorem c01_ip_certificate_needs_peer_inside : forall expand st now lim q blocks cn c u d,
  q_tls q = Some c -> km_signed c = None ->
  certgen expand st now lim (on_conn q blocks cn) = Issued u d ->
  exists l b, blocks = Some l /\ In b l /\ in_block (n_peer cn) b = true.
Proof. exact ip_certificate_needs_peer_inside. Qed.
Print Assumptions c01_ip_certificate_needs_peer_inside.

(* the loop of certGenHandler decides exactly `qualifies`, for every list and every mask *)
Theorem c01_sufficient_iff : forall cfg level, sufficient cfg level = true <-> qualifies cfg level.
Proof. exact sufficient_iff. Qed.
Print Assumptions c01_sufficient_iff.

(* "in particular a password-only session gets no certificate when only second factors are
   listed": whatever else the request carries, if all it can prove is the password factor and
   "password" is not listed, nothing is issued ... *)
Theorem c01_password_only_refused : forall expand st now lim q,
  ~ In sPassword (s_cfg st) ->
  (forall u level, proves st now q u level -> level = bPassword) ->
  exists code, certgen expand st now lim q = Refused code.
Proof. exact password_only_refused. Qed.
Print Assumptions c01_password_only_refused.

(* ... and the plain case answers 401 *)
Theorem c01_password_session_401 : forall expand st now lim q w,
  s_sealed st = false -> ~ In sPassword (s_cfg st) ->
  q_tls q = None -> q_cookie q = Some w -> valid_session (issuer_of st) now w -> w_level w = bPassword ->
  q_origin q = NoOrigin \/ q_origin q = SameOrigin \/ q_method q = HGet ->
  certgen expand st now lim q = Refused 401.
Proof. exact password_session_401. Qed.
Print Assumptions c01_password_session_401.

(* Every other request receives an error and nothing signed: the causes of refusal are
   exhaustive (the Refused constructor carries no certificate, and its status is >= 400). *)
Theorem c01_everything_else_refused : forall expand st now lim q,
  ~ (s_sealed st = false /\ q_method q = HPost /\
     exists u level, proves st now q u level /\ qualifies (s_cfg st) level /\ q_target q = s_name st u) ->
  exists code, certgen expand st now lim q = Refused code /\ 400 <= code.
Proof. exact everything_else_refused. Qed.
Print Assumptions c01_everything_else_refused.

Theorem c01_refused_is_error : forall expand st now lim q code,
  certgen expand st now lim q = Refused code -> 400 <= code.
Proof. exact refused_is_error. Qed.
Print Assumptions c01_refused_is_error.

(* A user who did complete an acceptable factor is served (orderly request: Proofs/CertgenSpec.v
   servable).  The credentials of a request are a combination (client certificate x auth_cookie x
   Basic header), looked at in this order: a presented certificate decides alone; otherwise the
   auth_cookie, whatever Basic header comes with it; the Basic header only when no auth_cookie is
   sent at all.  The session must carry at least one of the sixteen level bits. *)
Theorem c01_complete_session : forall expand st now lim q w,
  servable expand st q (s_name st (w_sub w)) ->
  q_tls q = None -> q_cookie q = Some w -> valid_session (issuer_of st) now w -> N.land (w_level w) bAny <> 0 ->
  qualifies (s_cfg st) (w_level w) -> q_target q = s_name st (w_sub w) ->
  exists c, certgen expand st now lim q = Issued (w_sub w) c.
Proof. exact complete_session. Qed.
Print Assumptions c01_complete_session.

Theorem c01_complete_password : forall expand st now q b,
  servable expand st q (s_name st (b_user b)) ->
  q_tls q = None -> q_cookie q = None -> q_basic q = Some b -> b_ok b = true -> b_err b = false ->
  qualifies (s_cfg st) bPassword -> q_target q = s_name st (b_user b) ->
  exists c, certgen expand st now true q = Issued (b_user b) c.
Proof. exact complete_password. Qed.
Print Assumptions c01_complete_password.

(* ... whatever cookie and Basic header the request carries beside the certificate *)
Theorem c01_complete_cert : forall expand st now lim q c,
  servable expand st q (s_name st (c_cn c)) ->
  q_tls q = Some c -> names_somebody st c ->
  (keymaster_cert c /\ qualifies (s_cfg st) bKMX509) \/ (ip_cert_ok c /\ qualifies (s_cfg st) bIPCert) ->
  q_target q = s_name st (c_cn c) ->
  exists d, certgen expand st now lim q = Issued (c_cn c) d.
Proof. exact complete_cert. Qed.
Print Assumptions c01_complete_cert.

(* ---- combined credentials.  With a client certificate on the connection a certificate is issued
   only if the CERTIFICATE's own identity and level qualify - a session cookie next to it adds
   nothing, be it valid, expired, not yet valid or foreign ... *)
Theorem c01_certificate_decides : forall expand st now lim q c u d,
  q_tls q = Some c -> names_somebody st c -> certgen expand st now lim q = Issued u d ->
  exists level, cert_proves st q u level /\ qualifies (s_cfg st) level.
Proof. exact certificate_decides. Qed.
Print Assumptions c01_certificate_decides.

(* ... and the answer does not depend on them at all *)
Theorem c01_credentials_beside_certificate_ignored : forall expand st now lim lim' q c ck b ck' b',
  q_tls q = Some c -> names_somebody st c ->
  certgen expand st now lim (with_creds q ck b) = certgen expand st now lim' (with_creds q ck' b').
Proof. exact credentials_beside_certificate_ignored. Qed.
Print Assumptions c01_credentials_beside_certificate_ignored.

(* A client certificate whose common name is the EMPTY string names nobody (`tlsAuthUser != ""`,
   `authData.Username != ""` in checkAuth) and is no credential: whoever signed it, the request is
   refused unless the address test accepts the certificate, and then it is answered exactly as the
   same request without a certificate. *)
Theorem c01_nameless_certificate_no_identity : forall expand st now lim q c,
  q_tls q = Some c -> s_name st (c_cn c) = [] ->
  (ip_restricted c = IpOk /\ certgen expand st now lim q = certgen expand st now lim (without_tls q)) \/
  (ip_restricted c <> IpOk /\ exists code, certgen expand st now lim q = Refused code /\ 400 <= code).
Proof. exact nameless_certificate_no_identity. Qed.
Print Assumptions c01_nameless_certificate_no_identity.

(* The session cookie's issuer and audience are byte strings, compared for EQUALITY with the server's
   issuer string (idpGetIssuer: "https://" + HostIdentity + listen address unless ":443").  Without a
   client certificate a request that carries an auth_cookie gets a certificate only if the cookie's
   iss IS that string and its first audience IS that string (and the cookie is otherwise a currently
   valid session of the user named, at a qualifying level) - whatever Basic header comes with it ... *)
Theorem c01_session_issuer_exact : forall expand st now lim q w u d,
  q_tls q = None -> q_cookie q = Some w -> certgen expand st now lim q = Issued u d ->
  w_iss w = issuer_of st /\ (exists rest, w_aud w = issuer_of st :: rest) /\
  valid_session (issuer_of st) now w /\ u = w_sub w /\ qualifies (s_cfg st) (w_level w).
Proof. exact session_issuer_exact. Qed.
Print Assumptions c01_session_issuer_exact.

(* ... so every near miss - a proper prefix, an extension by a port, a label, a path, a dot or a
   slash, another case, another scheme, surrounding blanks, the empty string, the right value in the
   second place of the audience list - is refused with an error *)
Theorem c01_foreign_session_refused : forall expand st now lim q w,
  q_tls q = None -> q_cookie q = Some w ->
  (w_iss w <> issuer_of st \/ forall rest, w_aud w <> issuer_of st :: rest) ->
  exists code, certgen expand st now lim q = Refused code /\ 400 <= code.
Proof. exact foreign_session_refused. Qed.
Print Assumptions c01_foreign_session_refused.

(* The property's predicate as a decision procedure (Model/CertgenCases.v entitled), evaluated by the
   generated case files on the OBSERVED answer of every case on which implementation and model
   differ: it decides exactly the specification ... *)
Theorem c01_entitled_decides : forall st now q u,
  entitled st now q u = true <->
  (s_sealed st = false /\ q_method q = HPost /\ q_target q = s_name st u /\
   exists level, proves st now q u level /\ qualifies (s_cfg st) level).
Proof. exact entitled_iff. Qed.
Print Assumptions c01_entitled_decides.

(* ... and the model never violates it *)
Theorem c01_issued_entitled : forall expand st now lim q u c,
  certgen expand st now lim q = Issued u c -> entitled st now q u = true.
Proof. exact issued_entitled. Qed.
Print Assumptions c01_issued_entitled.

(* The stricter reading of the "password" entry (only a credential carrying the password factor
   meets it) is NOT what the handler implements: with ["password"] configured a federated-only
   session (shape 7), a CLI-web-auth session (15) and an IP-restricted certificate (56) are
   served.  The same three cases are part of the enumeration run against the real handler. *)
Theorem c01_strict_refuted : strict_witness 7 /\ strict_witness 15 /\ strict_witness 56.
Proof. exact strict_refuted. Qed.
Print Assumptions c01_strict_refuted.

(* Before the two repairs (335bec7, a68ed8d) "every other request receives an error" was false:
   a POST with an unparsable Origin header got an empty 200 (shape 68), and an HTML client with a
   password-only session under [U2F] got the second-factor page with status 200 (shape 6). *)
Theorem c01_old_refuted :
  (exists st q c, certgen_old no_expand false st 0%Z true q = Refused c /\ c < 400) /\
  (exists st q c, certgen_old no_expand true st 0%Z true q = Refused c /\ c < 400).
Proof. exact old_refuted. Qed.
Print Assumptions c01_old_refuted.

(* ---- the life of one server process (Model/CertgenLife.v): histories of logins, second-factor requests,
   certificate requests, requests to any other route and unseal operations on ONE RuntimeState.  A session
   token is a value (signing key, header algorithm, claims); `p_minted` lists the values handed out so far so
   that a later operation can present "the cookie minted at step i".

   The verdict on a certificate request depends on the presented credential and the configuration only,
   never on earlier requests: after ANY history of requests h - second factors completed with the very
   cookie that is presented, other users' logins, failed attempts - the answer to (q, cookie minted at
   step i) is the answer the process gave / would have given before h ... *)
Theorem c01_verdict_history_independent : forall alg_of expand now life lim lim' p h ref q,
  (forall o, In o h -> is_inject o = false) ->
  (forall i, ref = Some i -> (i < length (p_minted p))%nat) ->
  snd (step alg_of expand now life lim' (run alg_of expand now life lim p h) (OCertgen ref q)) =
  snd (step alg_of expand now life lim' p (OCertgen ref q)).
Proof. exact verdict_history_independent. Qed.
Print Assumptions c01_verdict_history_independent.

(* ... with unseal operations in the history, only they matter ... *)
Theorem c01_verdict_depends_on_unseals_only : forall alg_of expand now life lim lim' p h q,
  snd (step alg_of expand now life lim' (run alg_of expand now life lim p h) (OCertgen None q)) =
  snd (step alg_of expand now life lim' (run alg_of expand now life lim p (filter is_inject h)) (OCertgen None q)).
Proof. exact verdict_depends_on_unseals_only. Qed.
Print Assumptions c01_verdict_depends_on_unseals_only.

(* ... a token handed out is the same value for ever ... *)
Theorem c01_minted_token_stable : forall alg_of expand now life lim p h i m,
  nth_error (p_minted p) i = Some m -> nth_error (p_minted (run alg_of expand now life lim p h)) i = Some m.
Proof. exact minted_stable. Qed.
Print Assumptions c01_minted_token_stable.

(* ... a second-factor handler hands out a NEW token for the same user whose level is the presented
   session's level plus the factor, only for a currently valid session, and leaves the presented one as it
   was ... *)
Theorem c01_second_factor_mints : forall alg_of expand now life lim p ref bit m',
  snd (step alg_of expand now life lim p (OSecond ref bit true)) = XMinted m' ->
  exists m, nth_error (p_minted p) ref = Some m /\ m_sub m' = m_sub m /\ m_level m' = N.lor (m_level m) bit /\
            nth_error (p_minted (fst (step alg_of expand now life lim p (OSecond ref bit true)))) ref = Some m /\
            valid_session (issuer_of (p_srv p)) now (see alg_of (keys_of p) m).
Proof. exact second_factor_mints. Qed.
Print Assumptions c01_second_factor_mints.

(* ... so the cookie of a password login stays a password-only session whatever was done with it since:
   presented again after the user completed a second factor with it, it gets no certificate when only
   second factors are listed *)
Theorem c01_old_cookie_stays_password_only : forall alg_of expand now life lim lim' p h i m q,
  (forall o, In o h -> is_inject o = false) ->
  nth_error (p_minted p) i = Some m -> m_level m = bPassword ->
  ~ In sPassword (s_cfg (p_srv p)) -> q_tls q = None -> q_basic q = None ->
  exists code, snd (step alg_of expand now life lim' (run alg_of expand now life lim p h) (OCertgen (Some i) q)) = XCert (Refused code).
Proof. exact old_cookie_stays_password_only. Qed.
Print Assumptions c01_old_cookie_stays_password_only.

(* The accepted JWS algorithms are a function of the CURRENT key list (`accepted_algs ks = map alg_of
   (pubkeys ks)`, jwt.go getJoseKeymastedVerifierList).  Whatever happened since the daemon started - any
   key files, any peer keys of any type (`alg_of` is any function), any requests while sealed, token-parsing
   ones included, any number of refused and accepted injections -: once a signer is loaded its key is
   listed and its algorithm is accepted ... *)
Theorem c01_own_alg_accepted_after_unseal : forall alg_of expand now life lim c st h k,
  Seal.signer (keys_of (run alg_of expand now life lim (boot c st) h)) = Some k ->
  Seal.mem k (Seal.pubkeys (keys_of (run alg_of expand now life lim (boot c st) h))) = true /\
  Seal.mem (alg_of k) (accepted_algs alg_of (keys_of (run alg_of expand now life lim (boot c st) h))) = true.
Proof. exact own_alg_accepted_after_unseal. Qed.
Print Assumptions c01_own_alg_accepted_after_unseal.

(* ... and completeness holds over the whole life cycle: after ANY history from the start, on the unsealed
   process a password login, a second factor completed with the login's cookie, and an orderly certificate
   request with the upgraded cookie is SERVED whenever the operator's list accepts password + that factor *)
Theorem c01_complete_after_unseal : forall alg_of expand now life lim lim' c st h k u bit q,
  let p := run alg_of expand now life lim (boot c st) h in
  Seal.signer (keys_of p) = Some k -> (0 <= life)%Z ->
  let i0 := length (p_minted p) in
  let p1 := fst (step alg_of expand now life lim' p (OLogin u true)) in
  let p2 := fst (step alg_of expand now life lim' p1 (OSecond i0 bit true)) in
  servable expand (p_srv p) q (s_name (p_srv p) u) -> q_tls q = None -> q_target q = s_name (p_srv p) u ->
  qualifies (s_cfg (p_srv p)) (N.lor bPassword bit) ->
  exists m0 m1 c,
    snd (step alg_of expand now life lim' p (OLogin u true)) = XMinted m0 /\ m_level m0 = bPassword /\
    snd (step alg_of expand now life lim' p1 (OSecond i0 bit true)) = XMinted m1 /\ m_level m1 = N.lor bPassword bit /\
    snd (step alg_of expand now life lim' p2 (OCertgen (Some (S i0)) q)) = XCert (Issued u c).
Proof. exact complete_after_unseal_history. Qed.
Print Assumptions c01_complete_after_unseal.

(* ---- non-vacuity *)
(* a TOTP session under [TOTP; Okta2FA] is served, the same session under [Okta2FA] is not,
   a password-only session under [U2F; TOTP] gets 401, a sealed server answers 500 *)
Example c01_nonvacuous :
  run_case 96 11 0 0 0 = 6 /\ run_case 64 11 0 0 0 = 0 /\ run_case 36 6 0 0 0 = 0 /\
  run_case 96 11 0 0 1 = 0 /\ run_case 1 6 1 0 0 = 7.
Proof. vm_compute. repeat split; reflexivity. Qed.

(* the signer-state dimension: under [password] with good basic-auth credentials (shape 1), POST:
   both signers loaded - an ECDSA user key, an Ed25519 user key and an X.509 request are all served;
   only the Ed25519 signer loaded - all three refused; main signer only - the Ed25519 user key is
   refused (422); the address shapes: an automation certificate for 10.0.0.0/8 from 127.0.0.1 with
   X-Forwarded-For naming an inside address (75) is refused, from inside with headers naming an
   outside address (79) is served *)
Example c01_key_states_nonvacuous :
  map (ks_case 1 1) [0; 1; 2; 3; 4; 5; 6; 7] = [6; 6; 7; 0; 0; 0; 0; 0] /\
  run_case 16 75 0 0 0 = 0 /\ run_case 16 79 0 0 0 = 14 /\ run_case 16 82 0 0 0 = 14 /\
  Seal.signer (case_keys 3) = None /\ Seal.ed (case_keys 3) = Some 2 /\ Seal.pubkeys (case_keys 3) = [1].
Proof. vm_compute. repeat split; reflexivity. Qed.

Example c01_servable_nonvacuous :
  servable no_expand (case_server false [sTOTP]) (case_req (nth 11 shapes default_shape) 0 0) n_alice /\
  valid_session iss0 0 (tok 1 bTOTP) /\ qualifies [sTOTP] bTOTP /\ ~ qualifies [sOkta] bTOTP.
Proof.
  split; [|split; [|split]].
  - unfold servable. simpl. repeat split; auto. exists 0, false. repeat split; auto; discriminate.
  - closed_facts.
  - right. right. exists sTOTP, FTOTP. repeat split; [left; reflexivity|constructor].
  - apply sufficient_false_iff. reflexivity.
Qed.

(* combined credentials, non-vacuity (block D of the enumeration, xshapes): under [U2F; TOTP]
   a keymaster certificate of alice alone is refused, and stays refused next to a valid U2F cookie,
   an expired U2F cookie and a good password of the same user; without a certificate the valid cookie is
   served; under [password] the certificate is served whatever comes with it.  Issuer near misses:
   with the listen address :8443 the cookie of "https://keymaster.example:8443" is served, the one of
   "https://keymaster.example" (proper prefix) and of "...:84430" are refused.  A main-CA certificate
   with an empty common name: 403 with or without a valid cookie; an address-restricted one accepted by
   the address test: the cookie decides.  A cookie without exp claim is refused, one without nbf claim is
   served, one that expires in 2100 is served where its factor is listed. *)
Definition xclass (cfg : N) (i : nat) : N := run_xcase (cfg, nth i xshapes default_shape).
Example c01_combined_nonvacuous :
  map (xclass 36) [127; 130; 139; 159; 0; 3]%nat = [0; 0; 0; 0; 0; 6] /\
  map (xclass 1) [127; 130; 139; 159]%nat = [6; 6; 6; 6] /\
  n_xshapes = 1589 /\ map (xclass 36) [1493; 1579; 1504; 1583]%nat = [6; 0; 0; 6] /\
  map (xclass 36) [1016; 1019; 1143; 1146; 1273]%nat = [0; 0; 0; 6; 6] /\
  map (xclass 36) [18; 19; 20]%nat = [0; 6; 6] /\ map (xclass 4) [20]%nat = [0] /\
  length (near_misses 1) = 19%nat /\ ~ In (case_issuer 1) (near_misses 1) /\ ~ In (case_issuer 0) (near_misses 0).
Proof.
  split; [vm_compute; reflexivity|]. split; [vm_compute; reflexivity|]. split; [reflexivity|]. split; [vm_compute; reflexivity|]. split; [vm_compute; reflexivity|]. split; [vm_compute; reflexivity|]. split; [vm_compute; reflexivity|]. split; [reflexivity|].
  split; intro H; vm_compute in H; repeat (destruct H as [H|H]; [discriminate|]); exact H.
Qed.
