(* C09 — a sealed server signs nothing; only the right passphrase unseals it, once. *)
From KM Require Import Base.Bytes Model.Seal Proofs.Seal.
Open Scope N_scope.

(* While the signer is absent, whatever sequence of primitives a handler reaches on whatever
   request — guards, signing of any kind for the body or for a cookie (with the main or the
   Ed25519 key), unsigned output — nothing signed is emitted, neither in the body nor in a
   cookie; a request that reaches a guard or a signing primitive ends in an error; readiness
   answers 503.  (The handler program is universally quantified: the statement holds for every
   route of the table and for handlers that do not exist yet.) *)
Theorem c09_sealed_inert : forall (s : state) (p : list hstep),
  signer s = None ->
  snd (run_handler s p []) = [] /\
  (reaches_signing p = true -> is_error (fst (run_handler s p [])) = true) /\
  (In HGuard p -> is_error (fst (run_handler s p [])) = true) /\
  readyz s = 503.
Proof. exact sealed_inert. Qed.

(* The signer appears only through an injection over TLS, with a verified client chain, carrying
   exactly the passphrase of the key file; that injection is answered 200 and installs the key of the file. *)
Theorem c09_only_right_pass : forall c s r s' code,
  inject c s r = (s', code) -> signer s = None -> signer s' <> None ->
  i_tls r = true /\ i_chain r = true /\ i_field r = Some (right_pass c) /\ code = 200 /\
  signer s' = Some (main_key c).
Proof. exact only_right_pass. Qed.

(* A wrong passphrase, or a request without TLS / verified chain, changes nothing at all and is not answered 200. *)
Theorem c09_wrong_pass_unchanged : forall c s r p,
  i_field r = Some p -> p <> right_pass c -> fst (inject c s r) = s /\ snd (inject c s r) <> 200.
Proof. exact wrong_pass_unchanged. Qed.

Theorem c09_no_chain_unchanged : forall c s r,
  i_tls r && i_chain r = false -> fst (inject c s r) = s /\ snd (inject c s r) <> 200.
Proof. exact no_chain_unchanged. Qed.

(* Every injection that is not answered 200 — whatever the reason: no TLS, no verified chain, no
   field, a wrong passphrase, the right passphrase on a main file that does not parse / holds a key of
   the wrong type / cannot produce its CA certificates, an Ed25519 file under another passphrase or
   unusable in any of these ways, an already unsealed server — leaves the whole state exactly as it
   was (quantified over every configuration record, i.e. every combination of per-file outcomes). *)
Theorem c09_refused_unchanged : forall c s r, snd (inject c s r) <> 200 -> fst (inject c s r) = s.
Proof. exact refused_unchanged. Qed.

(* ... in particular a refused injection leaves a sealed server sealed, not ready, with no ready
   message and an unchanged published-key list *)
Theorem c09_refused_still_sealed : forall c s r,
  signer s = None -> snd (inject c s r) <> 200 ->
  signer (fst (inject c s r)) = None /\ readyz (fst (inject c s r)) = 503 /\
  ready_sent (fst (inject c s r)) = ready_sent s /\ pubkeys (fst (inject c s r)) = pubkeys s.
Proof. exact refused_still_sealed. Qed.

(* exactly which injections a sealed server answers with 200 *)
Theorem c09_accepted_iff : forall c s r, signer s = None ->
  (snd (inject c s r) = 200 <->
   i_tls r = true /\ i_chain r = true /\ exists p, i_field r = Some p /\ all_good c p = true).
Proof. exact accepted_iff. Qed.

(* The auto-unseal path (unseal.go tryAwsUnseal: the secret stored in the cloud secret manager is
   handed to unsealCA directly, there is no TLS / client-certificate gate on that path): an attempt that
   returns an error leaves the state as it was, and the signer appears only if the secret decrypts
   every configured key file and every file loads.  (Model-level: the secret manager is not reachable
   offline, so this path has no correspondence run of its own; unsealCA itself is the function the
   injection sequences exercise.) *)
Theorem c09_auto_unseal_refused_unchanged : forall c s p,
  snd (unseal_ca c s p) = false -> fst (unseal_ca c s p) = s.
Proof. exact unseal_ca_error_unchanged. Qed.

Theorem c09_auto_unseal_only_right_pass : forall c s p,
  signer s = None -> signer (fst (unseal_ca c s p)) <> None ->
  snd (unseal_ca c s p) = true /\ all_good c p = true /\ signer (fst (unseal_ca c s p)) = Some (main_key c).
Proof. exact auto_unseal_only_right_pass. Qed.

(* Before the repair (loadSignersFromPemData assigned the Ed25519 signer and its CA certificate
   before looking at the main key) a refused injection changed the state: right passphrase, good
   Ed25519 file, main file holding a key of the wrong type -> 400, yet Ed25519Signer set and a CA
   certificate appended.  The repaired model leaves the state as it was. *)
Theorem c09_old_refused_changes_state_refuted :
  exists c s r, snd (inject_old c s r) <> 200 /\ fst (inject_old c s r) <> s /\ fst (inject c s r) = s.
Proof. exact old_refused_changes_state_refuted. Qed.

(* Repeated injections, any sequence: at most one is answered 200, exactly one iff the server ends unsealed;
   one ready message iff unsealed. *)
Theorem c09_once_sequential : forall c l,
  (count200 (inject_run c (sealed_init c) l) <= 1)%nat /\
  (count200 (inject_run c (sealed_init c) l) = 1%nat <-> signer (inject_all c (sealed_init c) l) <> None) /\
  ready_sent (inject_all c (sealed_init c) l) = (if is_some (signer (inject_all c (sealed_init c) l)) then 1 else 0)%nat.
Proof. exact once_sequential. Qed.

(* Concurrent injections and requests, ANY pool and ANY interleaving (the scheduler is an arbitrary list of
   thread indices), starting from any sealed state: at most one ready message, the signer changes at most
   once, and it changed exactly when the server is unsealed. *)
Theorem c09_once : forall c s (jobs : list job) (sched : list nat),
  signer s = None -> ready_sent s = 0%nat ->
  let w := run c (init_world s jobs) sched in
  (ready_sent (st w) <= 1)%nat /\ (transitions w <= 1)%nat /\
  (transitions w = 1%nat <-> signer (st w) <> None).
Proof. exact once_any_interleaving. Qed.

(* No half-initialised signer is ever observed: whenever the lock is free an unsealed state has all its
   key material (CA certificates, role CA, published keys, Ed25519 signer when configured) and the ready
   message has been sent; every use a request made after its locked test saw complete material and the
   very signer it had tested. *)
Theorem c09_no_half_init : forall c s (jobs : list job) (sched : list nat),
  signer s = None -> ready_sent s = 0%nat ->
  let w := run c (init_world s jobs) sched in
  (lock w = None -> signer (st w) <> None -> completeb c (st w) = true /\ ready_sent (st w) = 1%nat) /\
  (forall j t, nth_error (threads w) j = Some t ->
     Forall (fun b => b = true) (obs t) /\
     forall k, saw t = Some k -> signer (st w) = Some k /\ completeb c (st w) = true).
Proof. exact no_half_init. Qed.

(* unsealCA is exactly its action sequence run without interference *)
Theorem c09_unseal_is_its_body : forall c s p,
  unseal_ca c s p =
  let '(s', t') := run_body c (unseal_body p) s (mk_thread []) in (s', negb (aborted t')).
Proof. exact unseal_ca_body. Qed.

(* After unsealing, whatever any handler signs is signed with a key that is in the published x509 CA
   list and in the published key list (ssh CA / JWKS). *)
Theorem c09_published : forall c l (p : list hstep) kd k ck,
  let s := inject_all c (sealed_init c) l in
  In (kd, k, ck) (snd (run_handler s p [])) ->
  In k (ca_ders s) /\ In k (pubkeys s).
Proof. exact published. Qed.

(* Publication is STABLE over time and under any other writer of the published-key list.  The model of
   c09_once / c09_no_half_init is opened to events `EWrite f`: some other goroutine runs one critical
   section `Lock; KeymasterPublicKeys = f state; Unlock`.  For ANY pool of injections and requests, ANY
   such writers that keep a loaded signer's listed key listed (appending does; so does re-reading a file
   with the local signers' keys taken in the SAME critical section), ANY interleaving, from a sealed state:
   whenever the mutex is free and the server is unsealed, and at every moment for every request that saw
   the signer under its locked test, the key material is complete and whatever any handler signs — session
   cookie, SSH / X.509 certificate, token, with the main or the Ed25519 key — is signed with a key that is
   in the published CA list and in the published key list (ssh CA / JWKS / cookie verification).  (evs is
   universally quantified: this is every reachable state after the unsealing, not only the next one.) *)
Theorem c09_published_stable : forall c s (jobs : list job) (evs : list ev),
  signer s = None -> ed s = None -> ready_sent s = 0%nat ->
  (forall f, In (EWrite f) evs ->
     forall s' k, (signer s' = Some k \/ ed s' = Some k) -> mem k (pubkeys s') = true -> mem k (f s') = true) ->
  let w := run2 c (init_world s jobs) evs in
  (lock w = None -> signer (st w) <> None ->
     completeb c (st w) = true /\
     forall p kd k ck, In (kd, k, ck) (snd (run_handler (st w) p [])) -> In k (ca_ders (st w)) /\ In k (pubkeys (st w))) /\
  (forall j t k0, nth_error (threads w) j = Some t -> saw t = Some k0 ->
     signer (st w) = Some k0 /\ completeb c (st w) = true /\
     forall p kd k ck, In (kd, k, ck) (snd (run_handler (st w) p [])) -> In k (ca_ders (st w)) /\ In k (pubkeys (st w))).
Proof. exact published_stable. Qed.

(* the hypothesis on writers is met by the two writers of the model: an append, and an atomic reload *)
Theorem c09_writers_keep : forall k file s' k',
  (signer s' = Some k' \/ ed s' = Some k') -> mem k' (pubkeys s') = true ->
  mem k' (w_append k s') = true /\ mem k' (w_reload file s') = true.
Proof. intros k file s' k' A B. split; [apply w_append_keeps|apply w_reload_keeps]; assumption. Qed.

(* NOT the code, the variant the theorem excludes: a reloader that takes the local signers' keys in one
   critical section and REPLACES the list in a later one (step3: ESnap ... EReplace).  Snapshot while sealed,
   the injection runs to its end (14 steps), the stale list is installed: the server is unsealed and ready,
   the mutex is free, it signs cookies with key 1 and certificates with key 2, and neither is published.
   With the reload in one critical section (a writer that meets the hypothesis) both stay published. *)
Theorem c09_stale_replace_refuted :
  let x := run3 stale_cfg {| w3 := init_world (sealed_init stale_cfg) [JInject [112]]; snap := None |} stale_evs in
  let s := st (w3 x) in
  lock (w3 x) = None /\ signer s = Some 1 /\ ready_sent s = 1%nat /\ readyz s = 200 /\
  pubkeys s = [9] /\ mem 1 (pubkeys s) = false /\ mem 2 (pubkeys s) = false /\
  run_handler s [HGuard; HSign 3 true false; HSign 2 false true] [] = (Done, [(3, 1, true); (2, 2, false)]) /\
  pubkeys (st (run2 stale_cfg (init_world (sealed_init stale_cfg) [JInject [112]])
                     (repeat (EThread 0%nat) 14 ++ [EWrite (w_reload [9])]))) = [2; 1; 9].
Proof. exact stale_replace_refuted. Qed.

(* ------------------------------------------------------------------ non-vacuity *)
Definition ex_cfg : cfg :=
  {| right_pass := [112; 119]; main_key := 1; main_res := FGood; role_ok := true;
     ed_file := Some ([112; 119], 2, FGood); extra_pubkeys := [9] |}.

(* non-vacuity of c09_refused_unchanged: each way a key file can be unusable is refused with 400 and
   changes nothing *)
Example c09_refused_examples :
  let r := {| i_tls := true; i_chain := true; i_field := Some [112; 119] |} in
  let bad m e := {| right_pass := [112; 119]; main_key := 1; main_res := m; role_ok := true;
                    ed_file := Some ([112; 119], 2, e); extra_pubkeys := [9] |} in
  forallb (fun c => (snd (inject c (sealed_init c) r) =? 400) && negb (is_some (signer (fst (inject c (sealed_init c) r))))
                    && negb (is_some (ed (fst (inject c (sealed_init c) r)))))
          [bad FUnparsable FGood; bad FWrongType FGood; bad FCaFails FGood;
           bad FGood FUnparsable; bad FGood FWrongType; bad FGood FCaFails; bad FWrongType FWrongType] = true.
Proof. vm_compute. reflexivity. Qed.

(* the right passphrase with a verified chain does unseal, and a handler then signs with published keys *)
Example c09_right_pass_unseals :
  let r := {| i_tls := true; i_chain := true; i_field := Some [112; 119] |} in
  let s := fst (inject ex_cfg (sealed_init ex_cfg) r) in
  snd (inject ex_cfg (sealed_init ex_cfg) r) = 200 /\ signer s = Some 1 /\ completeb ex_cfg s = true /\
  pubkeys s = [9; 2; 1] /\ ca_ders s = [2; 1] /\
  run_handler s [HGuard; HSign 1 false false; HSign 2 false true; HSign 3 true false] [] =
    (Done, [(1, 1, false); (2, 2, false); (3, 1, true)]).
Proof. vm_compute. repeat split; reflexivity. Qed.

(* the same handler on the sealed state: error, nothing emitted *)
Example c09_sealed_example :
  run_handler (sealed_init ex_cfg) [HPlain 200; HSign 3 true false] [] = (Crashed, []) /\
  run_handler (sealed_init ex_cfg) [HGuard; HSign 1 false false] [] = (Failed, []).
Proof. vm_compute. split; reflexivity. Qed.

(* an injection, two requests and two other writers (an append of a foreign key, an atomic reload of the
   peer-key file) interleaved: unsealed once, both signing keys published at the end, every observation of
   the requests complete *)
Example c09_stable_example :
  let jobs := [JInject [112; 119]; JRequest 2; JRequest 3] in
  let evs := concat (repeat [EThread 0%nat; EThread 1%nat; EWrite (w_append 7); EThread 2%nat; EWrite (w_reload [9; 8])] 40) in
  let w := run2 ex_cfg (init_world (sealed_init ex_cfg) jobs) evs in
  transitions w = 1%nat /\ lock w = None /\ completeb ex_cfg (st w) = true /\
  mem 1 (pubkeys (st w)) = true /\ mem 2 (pubkeys (st w)) = true /\ mem 7 (pubkeys (st w)) = false /\
  map (fun t => length (prog t)) (threads w) = [0; 0; 0]%nat.
Proof. vm_compute. repeat split; reflexivity. Qed.

(* two right injections, one wrong one and two requests under a round-robin schedule: one transition,
   one ready message, the lock is free again, every observation of the requests is complete *)
Example c09_interleaving_example :
  let jobs := [JInject [112; 119]; JRequest 2; JInject [112; 119]; JInject [120]; JRequest 3] in
  let sched := concat (repeat [0; 1; 2; 3; 4]%nat 64) in
  let w := run ex_cfg (init_world (sealed_init ex_cfg) jobs) sched in
  transitions w = 1%nat /\ ready_sent (st w) = 1%nat /\ lock w = None /\
  map (fun t => length (prog t)) (threads w) = [0; 0; 0; 0; 0]%nat /\
  map obs (threads w) = [[]; [true; true]; []; []; [true; true; true]].
Proof. vm_compute. repeat split; reflexivity. Qed.
