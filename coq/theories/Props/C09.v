(* C09 — a sealed server signs nothing; only the right passphrase unseals it, once. *)
From KM Require Import Base.Bytes Model.Seal Proofs.Seal Model.SealLife Proofs.SealLife.
Open Scope N_scope.

(* While the signer is absent, whatever sequence of primitives a handler reaches on whatever
   request — guards, signing of any kind for the body or for a cookie (with the main or the
   Ed25519 key), unsigned output — nothing signed is emitted, neither in the body nor in a
   cookie; a request that reaches a guard or a signing primitive ends in an error; readiness
   answers 503.  (The handler program is universally quantified: the statement holds for every
   route of the table and for handlers that do not exist yet.) *)
Theorem c09_sealed_inert : forall (s : state) (p : list hstep),
  signer s = None ->
  snd (run_handler s p []) = [] /\
  (reaches_signing p = true -> is_error (fst (run_handler s p [])) = true) /\
  (In HGuard p -> is_error (fst (run_handler s p [])) = true) /\
  readyz s = 503.
Proof. exact sealed_inert. Qed.

(* What the handler sees of the connection is the record http.Request.TLS: nil, or a connection state with
   PeerCertificates (what the client PRESENTED) and VerifiedChains (what crypto/tls VERIFIED against the
   client CA pool).  The signer appears only through an injection whose connection state exists and carries
   a first verified chain with a leaf (VerifiedChains[0][0], the certificate the handler names in its log),
   and whose field is exactly the passphrase of the key file; that injection is answered 200 and installs the
   key of the file.  PeerCertificates does not occur in the conclusion: a certificate that was merely
   presented (self-signed, of a foreign CA, the admin certificate itself but unverified, expired) opens nothing. *)
Theorem c09_only_right_pass : forall c s r s' code,
  inject c s r = (s', code) -> signer s = None -> signer s' <> None ->
  (exists cs leaf rest chains, i_conn r = Some cs /\ verified_chains cs = (leaf :: rest) :: chains) /\
  i_field r = Some (right_pass c) /\ code = 200 /\ signer s' = Some (main_key c).
Proof. exact only_right_pass. Qed.

(* PeerCertificates is never consulted: requests that differ only in what was presented are treated alike *)
Theorem c09_presented_irrelevant : forall c s cs pcs field,
  inject c s {| i_conn := Some {| peer_certs := pcs; verified_chains := verified_chains cs |}; i_field := field |} =
  inject c s {| i_conn := Some cs; i_field := field |}.
Proof. exact presented_irrelevant. Qed.

(* A connection state without verified chain - whatever was presented, whatever the passphrase - is answered 403
   and changes nothing. *)
Theorem c09_presented_only_refused : forall c s r cs,
  i_conn r = Some cs -> verified_chains cs = [] -> inject c s r = (s, 403).
Proof. exact presented_only_refused. Qed.

(* NOT the code: the variant "a presented certificate suffices" (inject_presented: the leaf of the first non-empty
   verified chain, else PeerCertificates[0]).  A sealed server, VerifiedChains empty, a self-signed certificate
   presented, the right passphrase: that variant unseals and answers 200; the code's handler answers 403 and
   leaves the state as it was. *)
Theorem c09_presented_suffices_refuted :
  exists c s r, signer s = None /\ i_chains r = [] /\ i_presented r <> [] /\
    signer (fst (inject_presented c s r)) <> None /\ snd (inject_presented c s r) = 200 /\
    inject c s r = (s, 403).
Proof. exact presented_suffices_refuted. Qed.

(* Whatever listener stands in front of the handler: crypto/tls with ANY ClientAuth policy (none, request, require
   any, verify if given, require and verify), ANY client CA pool, ANY presented certificate (described by its
   issuer and whether it has expired) or none, ANY field.  The signer appears only if the request reached the
   handler over a listener that verifies, the presented certificate verifies against the pool (issuer in the
   pool, not expired), and the field is exactly the passphrase.  In particular a listener that asks for but
   does not verify client certificates (RequestClientCert / RequireAnyClientCert) never unseals. *)
Theorem c09_any_listener : forall policy pool presented field c s reached s' code,
  inject_over policy pool c s presented field = (reached, s', code) ->
  signer s = None -> signer s' <> None ->
  reached = true /\
  (policy = VerifyClientCertIfGiven \/ policy = RequireAndVerifyClientCert) /\
  (exists x, presented = Some x /\ cert_verifies pool x = true) /\
  field = Some (right_pass c) /\ code = 200 /\ signer s' = Some (main_key c).
Proof. exact any_listener. Qed.

Theorem c09_unverifying_listener_never_unseals : forall policy pool presented field c s,
  (policy = NoClientCert \/ policy = RequestClientCert \/ policy = RequireAnyClientCert) ->
  signer s = None ->
  let '(_, s', code) := inject_over policy pool c s presented field in s' = s /\ code <> 200.
Proof. exact unverifying_listener_never_unseals. Qed.

(* The predicate the correspondence evaluates on OBSERVED injection sequences (seq_violation: a step after which
   the real server is unsealed although the step's connection record has no verified chain with a leaf, or its
   field is not the passphrase) flags nothing on the model's own run from any state. *)
Theorem c09_observation_predicate_sound : forall c ops s,
  seq_violation c (negb (is_some (signer s))) ops (inject_run c s ops) = 0.
Proof. intros c ops s. exact (seq_violation_model c ops s). Qed.

(* A wrong passphrase, or a request without TLS / verified chain, changes nothing at all and is not answered 200. *)
Theorem c09_wrong_pass_unchanged : forall c s r p,
  i_field r = Some p -> p <> right_pass c -> fst (inject c s r) = s /\ snd (inject c s r) <> 200.
Proof. exact wrong_pass_unchanged. Qed.

Theorem c09_no_chain_unchanged : forall c s r,
  i_tls r && i_chain r = false -> fst (inject c s r) = s /\ snd (inject c s r) <> 200.
Proof. exact no_chain_unchanged. Qed.

(* Every injection that is not answered 200 — whatever the reason: no TLS, no verified chain, no
   field, a wrong passphrase, the right passphrase on a main file that does not parse / holds a key of
   the wrong type / cannot produce its CA certificates, an Ed25519 file under another passphrase or
   unusable in any of these ways, an already unsealed server — leaves the whole state exactly as it
   was (quantified over every configuration record, i.e. every combination of per-file outcomes). *)
Theorem c09_refused_unchanged : forall c s r, snd (inject c s r) <> 200 -> fst (inject c s r) = s.
Proof. exact refused_unchanged. Qed.

(* ... in particular a refused injection leaves a sealed server sealed, not ready, with no ready
   message and an unchanged published-key list *)
Theorem c09_refused_still_sealed : forall c s r,
  signer s = None -> snd (inject c s r) <> 200 ->
  signer (fst (inject c s r)) = None /\ readyz (fst (inject c s r)) = 503 /\
  ready_sent (fst (inject c s r)) = ready_sent s /\ pubkeys (fst (inject c s r)) = pubkeys s.
Proof. exact refused_still_sealed. Qed.

(* exactly which injections a sealed server answers with 200 (i_tls: r.TLS != nil; i_chain: VerifiedChains non-empty;
   i_leaf: VerifiedChains[0][0] exists - an empty first chain makes the handler panic, code_panic, nothing changes) *)
Theorem c09_accepted_iff : forall c s r, signer s = None ->
  (snd (inject c s r) = 200 <->
   i_tls r = true /\ i_chain r = true /\ i_leaf r <> None /\ exists p, i_field r = Some p /\ all_good c p = true).
Proof. exact accepted_iff. Qed.

(* The auto-unseal path (unseal.go tryAwsUnseal: the secret stored in the cloud secret manager is
   handed to unsealCA directly, there is no TLS / client-certificate gate on that path): an attempt that
   returns an error leaves the state as it was, and the signer appears only if the secret decrypts
   every configured key file and every file loads.  (Model-level: the secret manager is not reachable
   offline, so this path has no correspondence run of its own; unsealCA itself is the function the
   injection sequences exercise.) *)
Theorem c09_auto_unseal_refused_unchanged : forall c s p,
  snd (unseal_ca c s p) = false -> fst (unseal_ca c s p) = s.
Proof. exact unseal_ca_error_unchanged. Qed.

Theorem c09_auto_unseal_only_right_pass : forall c s p,
  signer s = None -> signer (fst (unseal_ca c s p)) <> None ->
  snd (unseal_ca c s p) = true /\ all_good c p = true /\ signer (fst (unseal_ca c s p)) = Some (main_key c).
Proof. exact auto_unseal_only_right_pass. Qed.

(* Before the repair (loadSignersFromPemData assigned the Ed25519 signer and its CA certificate
   before looking at the main key) a refused injection changed the state: right passphrase, good
   Ed25519 file, main file holding a key of the wrong type -> 400, yet Ed25519Signer set and a CA
   certificate appended.  The repaired model leaves the state as it was. *)
Theorem c09_old_refused_changes_state_refuted :
  exists c s r, snd (inject_old c s r) <> 200 /\ fst (inject_old c s r) <> s /\ fst (inject c s r) = s.
Proof. exact old_refused_changes_state_refuted. Qed.

(* Repeated injections, any sequence: at most one is answered 200, exactly one iff the server ends unsealed;
   one ready message iff unsealed. *)
Theorem c09_once_sequential : forall c l,
  (count200 (inject_run c (sealed_init c) l) <= 1)%nat /\
  (count200 (inject_run c (sealed_init c) l) = 1%nat <-> signer (inject_all c (sealed_init c) l) <> None) /\
  ready_sent (inject_all c (sealed_init c) l) = (if is_some (signer (inject_all c (sealed_init c) l)) then 1 else 0)%nat.
Proof. exact once_sequential. Qed.

(* Concurrent injections and requests, ANY pool and ANY interleaving (the scheduler is an arbitrary list of
   thread indices), starting from any sealed state: at most one ready message, the signer changes at most
   once, and it changed exactly when the server is unsealed. *)
Theorem c09_once : forall c s (jobs : list job) (sched : list nat),
  signer s = None -> ready_sent s = 0%nat ->
  let w := run c (init_world s jobs) sched in
  (ready_sent (st w) <= 1)%nat /\ (transitions w <= 1)%nat /\
  (transitions w = 1%nat <-> signer (st w) <> None).
Proof. exact once_any_interleaving. Qed.

(* No half-initialised signer is ever observed: whenever the lock is free an unsealed state has all its
   key material (CA certificates, role CA, published keys, Ed25519 signer when configured) and the ready
   message has been sent; every use a request made after its locked test saw complete material and the
   very signer it had tested. *)
Theorem c09_no_half_init : forall c s (jobs : list job) (sched : list nat),
  signer s = None -> ready_sent s = 0%nat ->
  let w := run c (init_world s jobs) sched in
  (lock w = None -> signer (st w) <> None -> completeb c (st w) = true /\ ready_sent (st w) = 1%nat) /\
  (forall j t, nth_error (threads w) j = Some t ->
     Forall (fun b => b = true) (obs t) /\
     forall k, saw t = Some k -> signer (st w) = Some k /\ completeb c (st w) = true).
Proof. exact no_half_init. Qed.

(* unsealCA is exactly its action sequence run without interference *)
Theorem c09_unseal_is_its_body : forall c s p,
  unseal_ca c s p =
  let '(s', t') := run_body c (unseal_body p) s (mk_thread []) in (s', negb (aborted t')).
Proof. exact unseal_ca_body. Qed.

(* After unsealing, whatever any handler signs is signed with a key that is in the published x509 CA
   list and in the published key list (ssh CA / JWKS). *)
Theorem c09_published : forall c l (p : list hstep) kd k ck,
  let s := inject_all c (sealed_init c) l in
  In (kd, k, ck) (snd (run_handler s p [])) ->
  In k (ca_ders s) /\ In k (pubkeys s).
Proof. exact published. Qed.

(* Publication is STABLE over time and under any other writer of the published-key list.  The model of
   c09_once / c09_no_half_init is opened to events `EWrite f`: some other goroutine runs one critical
   section `Lock; KeymasterPublicKeys = f state; Unlock`.  For ANY pool of injections and requests, ANY
   such writers that keep a loaded signer's listed key listed (appending does; so does re-reading a file
   with the local signers' keys taken in the SAME critical section), ANY interleaving, from a sealed state:
   whenever the mutex is free and the server is unsealed, and at every moment for every request that saw
   the signer under its locked test, the key material is complete and whatever any handler signs — session
   cookie, SSH / X.509 certificate, token, with the main or the Ed25519 key — is signed with a key that is
   in the published CA list and in the published key list (ssh CA / JWKS / cookie verification).  (evs is
   universally quantified: this is every reachable state after the unsealing, not only the next one.) *)
Theorem c09_published_stable : forall c s (jobs : list job) (evs : list ev),
  signer s = None -> ed s = None -> ready_sent s = 0%nat ->
  (forall f, In (EWrite f) evs ->
     forall s' k, (signer s' = Some k \/ ed s' = Some k) -> mem k (pubkeys s') = true -> mem k (f s') = true) ->
  let w := run2 c (init_world s jobs) evs in
  (lock w = None -> signer (st w) <> None ->
     completeb c (st w) = true /\
     forall p kd k ck, In (kd, k, ck) (snd (run_handler (st w) p [])) -> In k (ca_ders (st w)) /\ In k (pubkeys (st w))) /\
  (forall j t k0, nth_error (threads w) j = Some t -> saw t = Some k0 ->
     signer (st w) = Some k0 /\ completeb c (st w) = true /\
     forall p kd k ck, In (kd, k, ck) (snd (run_handler (st w) p [])) -> In k (ca_ders (st w)) /\ In k (pubkeys (st w))).
Proof. exact published_stable. Qed.

(* the hypothesis on writers is met by the two writers of the model: an append, and an atomic reload *)
Theorem c09_writers_keep : forall k file s' k',
  (signer s' = Some k' \/ ed s' = Some k') -> mem k' (pubkeys s') = true ->
  mem k' (w_append k s') = true /\ mem k' (w_reload file s') = true.
Proof. intros k file s' k' A B. split; [apply w_append_keeps|apply w_reload_keeps]; assumption. Qed.

(* NOT the code, the variant the theorem excludes: a reloader that takes the local signers' keys in one
   critical section and REPLACES the list in a later one (step3: ESnap ... EReplace).  Snapshot while sealed,
   the injection runs to its end (14 steps), the stale list is installed: the server is unsealed and ready,
   the mutex is free, it signs cookies with key 1 and certificates with key 2, and neither is published.
   With the reload in one critical section (a writer that meets the hypothesis) both stay published. *)
Theorem c09_stale_replace_refuted :
  let x := run3 stale_cfg {| w3 := init_world (sealed_init stale_cfg) [JInject [112]]; snap := None |} stale_evs in
  let s := st (w3 x) in
  lock (w3 x) = None /\ signer s = Some 1 /\ ready_sent s = 1%nat /\ readyz s = 200 /\
  pubkeys s = [9] /\ mem 1 (pubkeys s) = false /\ mem 2 (pubkeys s) = false /\
  run_handler s [HGuard; HSign 3 true false; HSign 2 false true] [] = (Done, [(3, 1, true); (2, 2, false)]) /\
  pubkeys (st (run2 stale_cfg (init_world (sealed_init stale_cfg) [JInject [112]])
                     (repeat (EThread 0%nat) 14 ++ [EWrite (w_reload [9])]))) = [2; 1; 9].
Proof. exact stale_replace_refuted. Qed.

(* ------------------------------------------------------------------ non-vacuity *)
Definition ex_cfg : cfg :=
  {| right_pass := [112; 119]; main_key := 1; main_res := FGood; role_ok := true;
     ed_file := Some ([112; 119], 2, FGood); extra_pubkeys := [9] |}.

(* non-vacuity of c09_refused_unchanged: each way a key file can be unusable is refused with 400 and
   changes nothing *)
Example c09_refused_examples :
  let r := admin_inj (Some [112; 119]) in
  let bad m e := {| right_pass := [112; 119]; main_key := 1; main_res := m; role_ok := true;
                    ed_file := Some ([112; 119], 2, e); extra_pubkeys := [9] |} in
  forallb (fun c => (snd (inject c (sealed_init c) r) =? 400) && negb (is_some (signer (fst (inject c (sealed_init c) r))))
                    && negb (is_some (ed (fst (inject c (sealed_init c) r)))))
          [bad FUnparsable FGood; bad FWrongType FGood; bad FCaFails FGood;
           bad FGood FUnparsable; bad FGood FWrongType; bad FGood FCaFails; bad FWrongType FWrongType] = true.
Proof. vm_compute. reflexivity. Qed.

(* the right passphrase with a verified chain does unseal, and a handler then signs with published keys *)
Example c09_right_pass_unseals :
  let r := admin_inj (Some [112; 119]) in
  let s := fst (inject ex_cfg (sealed_init ex_cfg) r) in
  snd (inject ex_cfg (sealed_init ex_cfg) r) = 200 /\ signer s = Some 1 /\ completeb ex_cfg s = true /\
  pubkeys s = [9; 2; 1] /\ ca_ders s = [2; 1] /\
  run_handler s [HGuard; HSign 1 false false; HSign 2 false true; HSign 3 true false] [] =
    (Done, [(1, 1, false); (2, 2, false); (3, 1, true)]).
Proof. vm_compute. repeat split; reflexivity. Qed.

(* the same handler on the sealed state: error, nothing emitted *)
Example c09_sealed_example :
  run_handler (sealed_init ex_cfg) [HPlain 200; HSign 3 true false] [] = (Crashed, []) /\
  run_handler (sealed_init ex_cfg) [HGuard; HSign 1 false false] [] = (Failed, []).
Proof. vm_compute. split; reflexivity. Qed.

(* an injection, two requests and two other writers (an append of a foreign key, an atomic reload of the
   peer-key file) interleaved: unsealed once, both signing keys published at the end, every observation of
   the requests complete *)
Example c09_stable_example :
  let jobs := [JInject [112; 119]; JRequest 2; JRequest 3] in
  let evs := concat (repeat [EThread 0%nat; EThread 1%nat; EWrite (w_append 7); EThread 2%nat; EWrite (w_reload [9; 8])] 40) in
  let w := run2 ex_cfg (init_world (sealed_init ex_cfg) jobs) evs in
  transitions w = 1%nat /\ lock w = None /\ completeb ex_cfg (st w) = true /\
  mem 1 (pubkeys (st w)) = true /\ mem 2 (pubkeys (st w)) = true /\ mem 7 (pubkeys (st w)) = false /\
  map (fun t => length (prog t)) (threads w) = [0; 0; 0]%nat.
Proof. vm_compute. repeat split; reflexivity. Qed.

(* two right injections, one wrong one and two requests under a round-robin schedule: one transition,
   one ready message, the lock is free again, every observation of the requests is complete *)
Example c09_interleaving_example :
  let jobs := [JInject [112; 119]; JRequest 2; JInject [112; 119]; JInject [120]; JRequest 3] in
  let sched := concat (repeat [0; 1; 2; 3; 4]%nat 64) in
  let w := run ex_cfg (init_world (sealed_init ex_cfg) jobs) sched in
  transitions w = 1%nat /\ ready_sent (st w) = 1%nat /\ lock w = None /\
  map (fun t => length (prog t)) (threads w) = [0; 0; 0; 0; 0]%nat /\
  map obs (threads w) = [[]; [true; true]; []; []; [true; true; true]].
Proof. vm_compute. repeat split; reflexivity. Qed.

(* non-vacuity of the connection-record dimension: the same right passphrase on each shape of http.Request.TLS.
   plain HTTP 500; empty state 403; presented only (self-signed 3 / foreign 4,5 / the admin certificate 1 unverified)
   403; verified admin chain 200; verified chain of another CA (a user certificate) 200 as well - the handler has
   no authorisation beyond "crypto/tls verified it"; verified chain with another certificate presented 200;
   an empty first chain: panic, still sealed *)
Example c09_connection_shapes :
  let f := Some [112; 119] in
  let run cs := let '(s', code) := inject ex_cfg (sealed_init ex_cfg) {| i_conn := cs; i_field := f |} in (code, is_some (signer s')) in
  map run [None;
           Some {| peer_certs := []; verified_chains := [] |};
           Some {| peer_certs := [3]; verified_chains := [] |};
           Some {| peer_certs := [4; 5]; verified_chains := [] |};
           Some {| peer_certs := [1]; verified_chains := [] |};
           Some {| peer_certs := [1]; verified_chains := [[1; 2]] |};
           Some {| peer_certs := [7]; verified_chains := [[7; 8]] |};
           Some {| peer_certs := [3]; verified_chains := [[1; 2]] |};
           Some {| peer_certs := [3]; verified_chains := [[]] |};
           Some {| peer_certs := [1]; verified_chains := [[]; [1; 2]] |}]
  = [(500, false); (403, false); (403, false); (403, false); (403, false); (200, true); (200, true); (200, true);
     (code_panic, false); (code_panic, false)].
Proof. vm_compute. reflexivity. Qed.

(* non-vacuity of c09_any_listener: the admin certificate (issuer 2, in the pool) over a verifying listener unseals;
   a self-signed one (issuer = itself) is refused by the handshake there, reaches the handler over
   RequestClientCert / RequireAnyClientCert and gets 403; an expired certificate of the admin CA likewise *)
Example c09_listener_examples :
  let f := Some [112; 119] in
  let admin := {| c_id := 1; c_issuer := 2; c_expired := false |} in
  let self := {| c_id := 3; c_issuer := 3; c_expired := false |} in
  let old := {| c_id := 6; c_issuer := 2; c_expired := true |} in
  let run pol x := let '(reached, s', code) := inject_over pol [2] ex_cfg (sealed_init ex_cfg) x f in (reached, code, is_some (signer s')) in
  map (fun px => run (fst px) (snd px))
      [(VerifyClientCertIfGiven, Some admin); (RequireAndVerifyClientCert, Some admin); (VerifyClientCertIfGiven, None);
       (VerifyClientCertIfGiven, Some self); (RequestClientCert, Some self); (RequireAnyClientCert, Some self);
       (RequireAnyClientCert, None); (RequestClientCert, Some old); (VerifyClientCertIfGiven, Some old);
       (RequestClientCert, Some admin); (NoClientCert, Some admin)]
  = [(true, 200, true); (true, 200, true); (true, 403, false);
     (false, 0, false); (true, 403, false); (true, 403, false);
     (false, 0, false); (true, 403, false); (false, 0, false);
     (true, 403, false); (true, 403, false)].
Proof. vm_compute. reflexivity. Qed.

(* the observation predicate does flag what it is meant to flag: a run that reports "unsealed" after a
   presented-only request (class 1) and after a verified request with a wrong passphrase (class 2) *)
Example c09_observation_predicate_flags :
  seq_violation ex_cfg true [{| i_conn := Some {| peer_certs := [3]; verified_chains := [] |}; i_field := Some [112; 119] |}]
                [(200, 200, (true, true, 2%nat, 3%nat, 1%nat, true))] = 1 /\
  seq_violation ex_cfg true [admin_inj (Some [120])] [(200, 200, (true, true, 2%nat, 3%nat, 1%nat, true))] = 2 /\
  seq_violation ex_cfg true [admin_inj (Some [112; 119])] [(200, 200, (true, true, 2%nat, 3%nat, 1%nat, true))] = 0.
Proof. vm_compute. repeat split; reflexivity. Qed.

(* ------------------------------------------------------------------ the readiness probe as a request *)
(* For EVERY state and EVERY shape of the probe (method, query string with any parameter names and values,
   Accept header): the answer is 200 exactly when the signer is present (and the path is the registered one);
   while the signer is absent no probe whatsoever is answered 200; the answer is 200, 503 or 404. *)
Theorem c09_readyz_iff_unsealed : forall s p,
  (readyz_probe s p = 200 <-> (signer s <> None /\ p_slash p = false)) /\
  (signer s = None -> readyz_probe s p <> 200) /\
  (readyz_probe s p = 200 \/ readyz_probe s p = 503 \/ readyz_probe s p = 404).
Proof. exact readyz_probe_iff. Qed.

(* the request is not an input: two probes for the same path are answered alike *)
Theorem c09_readyz_request_independent : forall s p p',
  p_slash p = p_slash p' -> readyz_probe s p = readyz_probe s p'.
Proof. exact readyz_probe_request_independent. Qed.

(* on every state reachable by injections from the sealed start: a probe answered 200 means the signer of the key
   file is loaded (with c09_only_right_pass: some injection carried the passphrase over a verified chain) *)
Theorem c09_readyz_reachable : forall c l p,
  let s := inject_all c (sealed_init c) l in
  readyz_probe s p = 200 -> signer s = Some (main_key c).
Proof. exact readyz_probe_reachable. Qed.

(* the predicate the case file evaluates on OBSERVED probes is never true of the model *)
Theorem c09_probe_predicate_sound : forall s p, probe_violates (is_some (signer s)) (readyz_probe s p) = false.
Proof. exact probe_predicate_sound. Qed.

(* NOT the code: a handler that writes a line per check before the status line when the query carries one of some
   parameter names answers 200 on a sealed state *)
Theorem c09_readyz_chatty_refuted :
  exists (c : cfg) (p : probe),
    let s := sealed_init c in
    signer s = None /\ readyz_probe_chatty [[118; 101; 114; 98; 111; 115; 101]] s p = 200 /\ readyz_probe s p = 503 /\
    probe_violates (is_some (signer s)) (readyz_probe_chatty [[118; 101; 114; 98; 111; 115; 101]] s p) = true.
Proof. exact chatty_refuted. Qed.

(* ------------------------------------------------------------------ life cycles across restarts *)
(* After ANY earlier runs on the data directory (any key files, any injections, the directory kept or emptied before
   any start) and for ANY content `d` the directory had before the first of them: the state of the present run is
   the same for every history and every disk (it is a function of the key files decrypted NOW and of this run's
   injections); its CA certificates are those of exactly the signers loaded now, each a key of the present key
   files; and whatever any handler signs is signed with a key that has a CA certificate and is published. *)
Theorem c09_published_across_restarts : forall (d : disk) (before : list cycle) (last : cycle),
  let c := cy_cfg last in
  let s := life d before last in
  (forall d' before', life d' before' last = s) /\
  ca_ders s = loaded_keys s /\
  (forall k, In k (ca_ders s) -> k = main_key c \/ exists pe r, ed_file c = Some (pe, k, r)) /\
  (forall (p : list hstep) kd k ck, In (kd, k, ck) (snd (run_handler s p [])) -> In k (ca_ders s) /\ In k (pubkeys s)).
Proof. exact published_across_restarts. Qed.

(* NOT the code (CA certificate kept in the data directory per KIND of key and reused unchecked): run with key 1,
   rotate to key 11 of the same kind on the kept directory: signer 11, published CA certificate of key 1, a
   certificate signed with 11 which is not among the CA certificates; the code publishes 11; the variant agrees with
   the code on an emptied directory and without a rotation *)
Theorem c09_kept_ca_refuted :
  let s := life_kept 0 [] [run_of cfg_a false] (run_of cfg_b false) in
  signer s = Some 11 /\ ca_ders s = [1] /\ pubkeys s = [11] /\
  In (1, 11, false) (snd (run_handler s [HGuard; HSign 1 false false] [])) /\ ~ In 11 (ca_ders s) /\
  ca_ders (life [] [run_of cfg_a false] (run_of cfg_b false)) = [11] /\
  ca_ders (life_kept 0 [] [run_of cfg_a false] (run_of cfg_b true)) = [11] /\
  ca_ders (life_kept 0 [] [run_of cfg_a false] (run_of cfg_a false)) = [1].
Proof. exact kept_ca_refuted. Qed.

(* every published key is a pre-listed one or has a CA certificate (for every configuration and injection list) *)
Theorem c09_pubkeys_listed_or_loaded : forall c l,
  let s := inject_all c (sealed_init c) l in
  forall k, In k (pubkeys s) -> In k (extra_pubkeys c) \/ In k (ca_ders s).
Proof. exact pubkeys_listed_or_loaded. Qed.

(* the predicate the case file evaluates on OBSERVED runs (a key of /public/sshca without CA certificate, or the
   requested X.509 certificate not issued) is never true of the model's own observation, for every history and
   disk, when keymaster_public_keys_filename lists nothing (as in the life cases) *)
Theorem c09_life_predicate_sound : forall d before last,
  extra_pubkeys (cy_cfg last) = [] ->
  let s := life d before last in
  life_case_violates (is_some (signer s), pubkeys s, ca_ders s, is_some (signer s)) = false.
Proof. exact life_predicate_sound. Qed.
