(* C13 — authorization codes are redirected only to the client's own https hosts
   (decision layer over the components url.Parse delivers; agreement between net/url and a
   browser on what "the host" of the raw string is, is checked differentially, not proved). *)
From KM Require Import Base.Bytes Model.Redirect Proofs.Redirect Model.UrlSplit Proofs.UrlSplit.

Theorem c13_decision : forall domains np re parse,
  can_redirect domains np re parse = true ->
  exists u, parse = Some u /\ scheme u = https /\ opaque u = false /\ uhost u <> [] /\
    rawquery u = [] /\ has_dotdot (upath u) = false /\
    (domains <> [] -> exists d, In d domains /\ dom_spec (hostname u) d) /\
    (np <> 0%nat -> re = true) /\
    (domains = [] -> np <> 0%nat /\ re = true).
Proof. exact can_redirect_sound. Qed.
Print Assumptions c13_decision.

(* suffix without a dot boundary never matches *)
Theorem c13_no_lookalike : forall pre c d,
  d <> [] -> starts_with_dot d = false -> c <> DOT -> host_matches (pre ++ c :: d) d = false.
Proof. exact no_lookalike. Qed.
Print Assumptions c13_no_lookalike.

(* the domain itself and its subdomains do match *)
Theorem c13_own_hosts_match : forall host d, d <> [] -> starts_with_dot d = false ->
  (host = d \/ exists pre, host = pre ++ DOT :: d) -> host_matches host d = true.
Proof. exact host_matches_complete. Qed.
Print Assumptions c13_own_hosts_match.

(* the pattern list as the code evaluates it (the regexp library's verdict per configured pattern is the
   input, PErr = the library refuses the pattern): a redirect needs a pattern that really matched whenever
   patterns are configured, and an unusable pattern met before any match refuses (error), never widens *)
Theorem c13_patterns : forall domains pats parse,
  can_redirect_p domains pats parse = Some true ->
  (exists u, parse = Some u /\ scheme u = https /\ opaque u = false /\ uhost u <> [] /\
    rawquery u = [] /\ has_dotdot (upath u) = false /\
    (domains <> [] -> exists d, In d domains /\ dom_spec (hostname u) d)) /\
  (pats <> [] -> exists pre post, pats = pre ++ PMatch :: post /\ Forall (fun x => x = PNoMatch) pre) /\
  (domains = [] -> pats <> []).
Proof. exact can_redirect_p_sound. Qed.
Print Assumptions c13_patterns.

Theorem c13_unusable_pattern_refuses : forall domains pre post parse,
  Forall (fun x => x = PNoMatch) pre -> can_redirect_p domains (pre ++ PErr :: post) parse <> Some true.
Proof. exact pattern_error_refuses. Qed.
Print Assumptions c13_unusable_pattern_refuses.

Theorem c13_skip_unusable_refuted : exists domains pats parse,
  can_redirect_p_skip domains pats parse = Some true /\ can_redirect_p domains pats parse = None.
Proof. exact skip_errors_refuted. Qed.
Print Assumptions c13_skip_unusable_refuted.

Theorem c13_no_config : forall re parse, can_redirect [] 0 re parse = false.
Proof. exact no_config_refused. Qed.
Print Assumptions c13_no_config.

Theorem c13_cors : forall domains parse,
  cors_allowed domains parse = true ->
  exists u, parse = Some u /\ scheme u = https /\ exists d, In d domains /\ dom_spec (hostname u) d.
Proof. exact cors_sound. Qed.
Print Assumptions c13_cors.

Theorem c13_old_rule_refuted : exists host d,
  host_matches_old host d = true /\ host_matches host d = false.
Proof. exact old_rule_refuted. Qed.
Print Assumptions c13_old_rule_refuted.

(* Layer B: on the conservative grammar  "https://" host [":" port] ["/" path]  (host over
   a-z 0-9 - . ; no user-info, escapes, backslashes or upper case) the splitter — compared with
   net/url.Parse by the correspondence check — returns exactly the parts of the raw string ... *)
Theorem c13_split_complete : forall host portpart path,
  host <> [] -> forallb is_hostc host = true ->
  (portpart = [] \/ exists port, portpart = COLON :: port /\ port <> [] /\ forallb is_digit port = true) ->
  path_ok path = true ->
  plain_split (https_pfx ++ host ++ portpart ++ path) = Some (mkp host (host ++ portpart) path).
Proof. exact plain_split_complete. Qed.
Print Assumptions c13_split_complete.

Theorem c13_split_sound : forall s u, plain_split s = Some u ->
  exists portpart,
    s = https_pfx ++ hostname u ++ portpart ++ upath u /\
    hostname u <> [] /\ forallb is_hostc (hostname u) = true /\
    (portpart = [] \/ exists port, portpart = COLON :: port /\ port <> [] /\ forallb is_digit port = true) /\
    path_ok (upath u) = true /\
    uhost u = hostname u ++ portpart /\ scheme u = https /\ opaque u = false /\ rawquery u = [].
Proof. exact plain_split_sound. Qed.
Print Assumptions c13_split_sound.

(* ... so that on raw strings of that grammar acceptance means: the bytes between "https://"
   and the first ':' , '/' or the end ARE a configured domain or a dot-separated subdomain *)
Theorem c13_plain_grammar : forall domains np re s,
  domains <> [] -> can_redirect domains np re (plain_split s) = true ->
  exists host rest d,
    s = https_pfx ++ host ++ rest /\ host <> [] /\ forallb is_hostc host = true /\
    (rest = [] \/ exists c r, rest = c :: r /\ (c = COLON \/ c = SLASH)) /\
    In d domains /\ dom_spec host d.
Proof. exact plain_grammar_decision. Qed.
Print Assumptions c13_plain_grammar.

Example c13_plain_nonvacuous :
  can_redirect [[101;120;46;99;111]] 0 false
    (plain_split (https_pfx ++ [97;46;101;120;46;99;111] ++ [58;52;52;51] ++ [47;99;98])) = true.
Proof. vm_compute. reflexivity. Qed.

(* ---- the client AS CONFIGURED (configured_domains = the allowed_redirect_domains strings of the configuration
   file, byte for byte; rc_public = no secret): for EVERY client kind an allowed redirect is https, has a host,
   no query, no "..", and its host is one of the CONFIGURED strings or a dot-boundary subdomain of one *)
Theorem c13_decision_as_configured : forall c pats parse,
  can_redirect_c c pats parse = Some true ->
  (exists u, parse = Some u /\ scheme u = https /\ opaque u = false /\ uhost u <> [] /\
    rawquery u = [] /\ has_dotdot (upath u) = false /\
    (configured_domains c <> [] -> exists d, In d (configured_domains c) /\ dom_spec (hostname u) d)) /\
  (pats <> [] -> exists pre post, pats = pre ++ PMatch :: post /\ Forall (fun x => x = PNoMatch) pre) /\
  (configured_domains c = [] -> pats <> []).
Proof. exact can_redirect_c_sound. Qed.
Print Assumptions c13_decision_as_configured.

Theorem c13_cors_as_configured : forall c parse,
  cors_allowed_c c parse = true ->
  exists u, parse = Some u /\ scheme u = https /\
    exists d, In d (configured_domains c) /\ dom_spec (hostname u) d.
Proof. exact cors_c_sound. Qed.
Print Assumptions c13_cors_as_configured.

(* two clients with the same configured entries decide alike, whatever their kind (public or with a secret) and
   whatever the values of their other options *)
Theorem c13_client_kind_irrelevant : forall c1 c2 pats parse,
  configured_domains c1 = configured_domains c2 ->
  can_redirect_c c1 pats parse = can_redirect_c c2 pats parse /\
  cors_allowed_c c1 parse = cors_allowed_c c2 parse.
Proof. exact client_kind_irrelevant. Qed.
Print Assumptions c13_client_kind_irrelevant.

(* an entry in a form no host name takes (it contains a byte the host does not: "https://x/", "*.x", " x ",
   "X" against a lower-case host) matches nothing — it never widens *)
Theorem c13_odd_entry_matches_nothing : forall host d c,
  In c d -> ~ In c host -> host_matches host d = false.
Proof. exact odd_entry_matches_nothing. Qed.
Print Assumptions c13_odd_entry_matches_nothing.

Theorem c13_trimset_loader_refuted : exists c pats u,
  can_redirect_c_trimset c pats (Some u) = Some true /\ can_redirect_c c pats (Some u) = Some false /\
  forall d, In d (configured_domains c) -> host_matches (hostname u) d = false.
Proof. exact trimset_loader_refuted. Qed.
Print Assumptions c13_trimset_loader_refuted.

Theorem c13_loopback_prefix_refuted : exists c pats u,
  can_redirect_c_loopback c pats (Some u) = Some true /\ can_redirect_c c pats (Some u) = Some false /\
  scheme u <> https.
Proof. exact loopback_prefix_refuted. Qed.
Print Assumptions c13_loopback_prefix_refuted.

Example c13_public_client_nonvacuous :
  can_redirect_c {| rc_public := true; rc_options := []; configured_domains := [[101;120;46;99;111]] |} []
    (plain_split (https_pfx ++ [97;46;101;120;46;99;111] ++ [47;99;98])) = Some true.
Proof. vm_compute. reflexivity. Qed.
