(* C13 — authorization codes are redirected only to the client's own https hosts
   (decision layer over the components url.Parse delivers; agreement between net/url and a
   browser on what "the host" of the raw string is, is checked differentially, not proved). *)
From KM Require Import Base.Bytes Model.Redirect Proofs.Redirect.

Theorem c13_decision : forall domains np re parse,
  can_redirect domains np re parse = true ->
  exists u, parse = Some u /\ scheme u = https /\ opaque u = false /\ uhost u <> [] /\
    rawquery u = [] /\ has_dotdot (upath u) = false /\
    (domains <> [] -> exists d, In d domains /\ dom_spec (hostname u) d) /\
    (np <> 0%nat -> re = true) /\
    (domains = [] -> np <> 0%nat /\ re = true).
Proof. exact can_redirect_sound. Qed.
Print Assumptions c13_decision.

(* suffix without a dot boundary never matches *)
Theorem c13_no_lookalike : forall pre c d,
  d <> [] -> starts_with_dot d = false -> c <> DOT -> host_matches (pre ++ c :: d) d = false.
Proof. exact no_lookalike. Qed.
Print Assumptions c13_no_lookalike.

(* the domain itself and its subdomains do match *)
Theorem c13_own_hosts_match : forall host d, d <> [] -> starts_with_dot d = false ->
  (host = d \/ exists pre, host = pre ++ DOT :: d) -> host_matches host d = true.
Proof. exact host_matches_complete. Qed.
Print Assumptions c13_own_hosts_match.

Theorem c13_no_config : forall re parse, can_redirect [] 0 re parse = false.
Proof. exact no_config_refused. Qed.
Print Assumptions c13_no_config.

Theorem c13_cors : forall domains parse,
  cors_allowed domains parse = true ->
  exists u, parse = Some u /\ scheme u = https /\ exists d, In d domains /\ dom_spec (hostname u) d.
Proof. exact cors_sound. Qed.
Print Assumptions c13_cors.

Theorem c13_old_rule_refuted : exists host d,
  host_matches_old host d = true /\ host_matches host d = false.
Proof. exact old_rule_refuted. Qed.
Print Assumptions c13_old_rule_refuted.
