(* C20 — every certificate issued is reported to the audit stream with exactly the bytes
   returned, no later than the response; a slow subscriber never blocks issuance; the monitoring
   daemon's per-user history keeps the same events in the same order across save and restart,
   dropping only entries older than its retention. *)
From Coq Require Import String.
From KM Require Import Base.Bytes Model.Events Proofs.Events.
From KM Require Import Model.EventsChurn Proofs.EventsChurn Model.EventsReaders Proofs.EventsReaders.
From KM Require Import Model.EventsClock Proofs.EventsClock.

(* ---------------------------------------------------------------- issuing paths *)

(* every one of the six issuing paths, for every certificate: the bytes are signed, an event
   carrying exactly these bytes is published, then these bytes are written to the response, and
   nothing is written to the response before the publish *)
Theorem c20_published : forall p c, reported c (issue_effects p c).
Proof. exact issue_reported. Qed.
Print Assumptions c20_published.

(* the same for the rows of the regenerated signing-site table: a row accepted by site_row_ok is
   the start-up CA construction or reports every certificate it signs (Obl_C20 closes
   forallb site_row_ok over the table of the current tree) *)
Theorem c20_published_sites : forall fn callee class pub,
  site_row_ok (fn, callee, class, pub) = true ->
  class = "ca-init"%string \/ forall ty c, reported c (site_effects ty pub c).
Proof. exact site_row_reported. Qed.
Print Assumptions c20_published_sites.

(* and no other verdict of the table would do *)
Theorem c20_site_verdict_needed : forall ty pub c,
  pub <> "same-bytes-before-response"%string -> trace_ok c (site_effects ty pub c) = false.
Proof. exact site_other_not_ok. Qed.
Print Assumptions c20_site_verdict_needed.

(* a successful issuance is handed to every connected subscriber with a free slot, as the
   newest element of its queue, with the bytes of the response *)
Theorem c20_issue_delivered : forall s p c i ch,
  nth_error s i = Some ch -> live ch = true -> (length (buf ch) < cap ch)%nat ->
  exists ch', nth_error (dstep s (DIssue p true c)) i = Some ch' /\
              buf ch' = buf ch ++ [ECert (cert_type p) c] /\ got ch' = got ch.
Proof. exact dstep_issue_delivers. Qed.
Print Assumptions c20_issue_delivered.

(* ---------------------------------------------------------------- non-blocking fan-out *)

(* publish is a total function; none of its sends blocks, whatever the subscribers' state; the
   number of channel operations it performs depends only on the number of subscribers *)
Theorem c20_nonblocking : forall e s,
  Forall (fun o => o <> Blocked) (fst (publish e s)) /\
  publish_cost e s = length s /\
  (forall i c, nth_error s i = Some c -> live c = true -> (length (buf c) < cap c)%nat ->
     exists c', nth_error (snd (publish e s)) i = Some c' /\ buf c' = buf c ++ [e] /\ got c' = got c) /\
  (forall i c, nth_error s i = Some c -> (cap c <= length (buf c))%nat ->
     nth_error (snd (publish e s)) i = Some c).
Proof.
  intros e s. split; [apply publish_never_blocks|]. split; [apply publish_cost_length|]. split.
  - intros i c H L F. eexists. split; [apply publish_nth; exact H|].
    rewrite (try_send_free e c L F). simpl. auto.
  - intros i c H F. rewrite (publish_nth e s i c H), (try_send_full e c F). reflexivity.
Qed.
Print Assumptions c20_nonblocking.

(* over any history of publishes, reads, connects and disconnects the stream handed to a
   subscriber grows by a subsequence of the published events, in publication order *)
Theorem c20_order : forall ops s i c, nth_error s i = Some c ->
  exists c' l, nth_error (nrun ops s) i = Some c' /\ cap c' = cap c /\
               delivered c' = delivered c ++ l /\ sublist l (pubs ops).
Proof. exact nrun_delivered_sublist. Qed.
Print Assumptions c20_order.

(* ... and it is the whole sequence when the channel has room for it, however slowly (or never)
   the subscriber reads *)
Theorem c20_order_complete : forall ops s i c, nth_error s i = Some c -> live c = true ->
  Forall (fun o => o <> NUnsub i) ops ->
  (length (buf c) + length (pubs ops) <= cap c)%nat ->
  exists c', nth_error (nrun ops s) i = Some c' /\ delivered c' = delivered c ++ pubs ops.
Proof. exact nrun_delivered_all. Qed.
Print Assumptions c20_order_complete.

(* ... and also for a subscriber that reads late, interleaved with the publications in any way: as
   long as its queue has a free slot whenever something is published (it never lags by more than the
   capacity), what it is handed is EXACTLY the published sequence — the same events (an event carries
   its certificate bytes), in the same order. *)
Theorem c20_lagging_reader_complete : forall ops s i c, nth_error s i = Some c -> live c = true ->
  Forall (fun o => o <> NUnsub i) ops -> never_full i ops s = true ->
  exists c', nth_error (nrun ops s) i = Some c' /\ delivered c' = delivered c ++ pubs ops.
Proof. exact nrun_lagging_all. Qed.
Print Assumptions c20_lagging_reader_complete.

(* ---------------------------------------------------------------- history *)
Open Scope Z_scope.

(* save followed by a restart at time `now`: the same events in the same order, minus exactly
   those older than 31 days *)
Theorem c20_roundtrip : forall l now,
  load (min_ctime now) (save l) = filter (fun e => now - 31 * 24 * 3600 <=? ctime e) l.
Proof. intros l now. apply roundtrip. Qed.
Print Assumptions c20_roundtrip.

(* expiry on a history in creation order drops exactly the entries older than the retention *)
Theorem c20_expire : forall l now, sorted l ->
  expire (min_ctime now) l = filter (fun e => now - 31 * 24 * 3600 <=? ctime e) l.
Proof. intros l now. apply expire_sorted. Qed.
Print Assumptions c20_expire.

(* without any assumption on the order it still never drops a young entry: what it removes is a
   block at the old end all of whose entries are older than the retention *)
Theorem c20_expire_only_old : forall l now, exists dropped,
  l = expire (min_ctime now) l ++ dropped /\
  Forall (fun e => ctime e < now - 31 * 24 * 3600) dropped.
Proof.
  intros l now. destruct (expire_split (min_ctime now) l) as (d & E & F & _).
  exists d. split; [exact E|]. eapply Forall_impl; [|exact F].
  intros e H. unfold is_old in H. apply Z.ltb_lt in H. exact H.
Qed.
Print Assumptions c20_expire_only_old.

(* the whole life of a recorder: after any sequence of recordings, hourly expiries and
   save/restart cycles (clock readings never going backwards) every user's history is exactly
   what was recorded for that user, newest first, minus the entries older than the strictest
   cut-off applied so far *)
Theorem c20_history : forall t0 ops u, monotone t0 ops ->
  events_of u (rrun ops []) = filter (keep (cut_of ops)) (recorded u ops).
Proof. exact history. Qed.
Print Assumptions c20_history.


(* the recorder's event loop (cached read-out, save timer): from a fresh start and for every
   sequence of events, hourly expiries, history requests and save-timer firings, a history request
   is answered with the history as it is now, and whenever no save is pending the file holds the
   current history (or nothing changed since the start) — so a restart loses nothing that was
   recorded before the last save window closed *)
Theorem c20_loop_request : forall now file ops,
  let st := lrun ops (l_start now file) in snd (l_get st) = l_map st.
Proof. exact loop_request_current. Qed.
Print Assumptions c20_loop_request.

Theorem c20_loop_saved : forall now file ops,
  let st := lrun ops (l_start now file) in
  l_armed st = false -> l_file st = Some (l_map st) \/ l_map st = l_map (l_start now file).
Proof. exact loop_saved. Qed.
Print Assumptions c20_loop_saved.

(* ---------------------------------------------------------------- what the code did before the fixes *)

(* the cloud-role path signed and answered without publishing *)
Theorem c20_old_aws_refuted : exists c, ~ reported c (issue_effects_old PAws c).
Proof. exists [1%N]. apply old_aws_not_reported. Qed.
Print Assumptions c20_old_aws_refuted.

(* the old loader rebuilt the list in reverse *)
Theorem c20_old_roundtrip_refuted : exists l now,
  load_old (min_ctime now) (save l) <> filter (fun e => now - 31 * 24 * 3600 <=? ctime e) l.
Proof.
  exists [evB; evA], 2000001. destruct old_roundtrip_reverses as [A B].
  unfold min_ctime, retention in *. rewrite A. vm_compute. discriminate.
Qed.
Print Assumptions c20_old_roundtrip_refuted.

(* ... after which expiry stopped at the first (really the newest) element and kept an entry
   older than the retention, while the repaired recorder drops it *)
Theorem c20_old_expire_refuted : exists ops u, monotone 0 ops /\
  events_of u (fold_left rstep_old ops []) <> filter (keep (cut_of ops)) (recorded u ops) /\
  events_of u (rrun ops []) = filter (keep (cut_of ops)) (recorded u ops).
Proof.
  exists [RWeb 1000 [97%N]; RWeb 2000000 [97%N]; RReload 2000001; RExpire (1010 + retention)], [97%N].
  split; [vm_compute; repeat split; intros; discriminate|]. split; [vm_compute; discriminate|].
  vm_compute. reflexivity.
Qed.
Print Assumptions c20_old_expire_refuted.

(* ---------------------------------------------------------------- non-vacuity *)

Example c20_ex_publish :
  let s := [mkChan 2 true [] []; mkChan 1 true [EWebLogin [1%N]] []; mkChan 16 false [] []] in
  publish (ECert 1 [7%N]) s =
  ([Delivered; Dropped; Skipped],
   [mkChan 2 true [ECert 1 [7%N]] []; mkChan 1 true [EWebLogin [1%N]] []; mkChan 16 false [] []]).
Proof. vm_compute. reflexivity. Qed.

Example c20_ex_blocking_would_block :
  fst (publish_with blocking_send (ECert 1 [7%N]) [mkChan 1 true [EWebLogin [1%N]] []]) = [Blocked].
Proof. vm_compute. reflexivity. Qed.

Example c20_ex_loop :
  let u := [97%N] in
  let st := lrun [LRec (RWeb 10 u); LRequest; LRec (RWeb 11 u); LSave] (l_start 5 None) in
  l_armed st = false /\ l_file st = Some [(u, [mkEv 11 0 0 [] false true false 0; mkEv 10 0 0 [] false true false 0])].
Proof. vm_compute. split; reflexivity. Qed.

Example c20_ex_history :
  let u := [97%N] in
  let ops := [RWeb 1000 u; RCert 5000 u 3600000 true false; RReload 6000;
              RWeb (2000 + retention) u; RExpire (2000 + retention)] in
  monotone 0 ops /\
  map ctime (events_of u (rrun ops [])) = [2000 + retention; 5000].
Proof. vm_compute. repeat split; intros; discriminate. Qed.

(* ---------------------------------------------------------------- a stalled subscriber *)
Open Scope nat_scope.

(* Subscriber j stops reading (from some state on its connection goroutine never takes another
   event), whatever its queue holds and however long the history goes on — publishes, reads,
   connects and disconnects of the others in any order:
   every publish of the history terminates (no send blocks) after one channel operation per
   subscriber, the same number whatever j's queue holds; j itself is handed nothing more and its
   queue stays within its capacity; what every other subscriber holds and has been handed is the
   same as if j were in any other state (it cannot even observe that j is stalled); and every other
   live subscriber whose queue has a free slot at each publish is handed exactly the published
   sequence. *)
Theorem c20_stalled_subscriber : forall ops s j cj,
  stalled j ops = true -> nth_error s j = Some cj ->
  (forall pre e post, ops = pre ++ NPub e :: post ->
     let st := nrun pre s in
     Forall (fun o => o <> Blocked) (fst (publish e st)) /\
     forall cj', publish_cost e (update_nth j (fun _ => cj') st) = publish_cost e st) /\
  (exists cj', nth_error (nrun ops s) j = Some cj' /\ got cj' = got cj /\
               (length (buf cj) <= cap cj -> length (buf cj') <= cap cj')) /\
  (forall cj', others j (nrun ops (update_nth j (fun _ => cj') s)) = others j (nrun ops s)) /\
  (forall i c, i <> j -> nth_error s i = Some c -> live c = true ->
     Forall (fun o => o <> NUnsub i) ops -> never_full i ops s = true ->
     exists c', nth_error (nrun ops s) i = Some c' /\ delivered c' = delivered c ++ pubs ops).
Proof. exact stalled_subscriber. Qed.
Print Assumptions c20_stalled_subscriber.

(* a fan-out that waits for a free slot (a send without the default branch, or a second select
   that waits for the slot or for the subscriber to go away) does block on a connected subscriber
   whose queue is full *)
Theorem c20_waiting_fanout_refuted :
  exists e s j c, nth_error s j = Some c /\ live c = true /\ length (buf c) = cap c /\
    In Blocked (fst (publish_with blocking_send e s)).
Proof. exact waiting_fanout_blocks. Qed.
Print Assumptions c20_waiting_fanout_refuted.

(* ---------------------------------------------------------------- the history file across crashes and failed saves *)

(* One save of generation g to file f (open f~, write, flush, fsync, close, rename f~ -> f, remove
   f~) over ANY file system, ending in ANY way — it completes, the process dies before step k, or
   step k fails and the error path runs: what a restart loads from f is what it would have loaded
   before the save or the new generation, never nothing when a generation existed; a completed save
   gives the new generation; a save that dies or fails at any step up to and including the rename
   leaves the restart exactly what it had; and no other file is touched. *)
Theorem c20_save_atomic : forall f g st fs,
  let fs' := run_save (save_prog f g) (save_cleanup f) st fs in
  (startup_load fs' f = startup_load fs f \/ startup_load fs' f = LGen g) /\
  (forall old, fs_get f fs = Some (FWhole old) ->
     startup_load fs' f = LGen old \/ startup_load fs' f = LGen g) /\
  (st = Completes -> startup_load fs' f = LGen g) /\
  (forall k, st = FaultAt k \/ st = CrashAt k -> k <= 5 -> startup_load fs' f = startup_load fs f) /\
  (forall n, n <> f -> n <> tmp_name f -> fs_get n fs' = fs_get n fs).
Proof. exact save_atomic. Qed.
Print Assumptions c20_save_atomic.

(* any number of saves, each ending in any way: a restart loads the generation of the last save
   that got as far as its rename, or what was there before when none did *)
Theorem c20_saves_last_renamed : forall f saves fs,
  startup_load (run_saves f saves fs) f =
  match last_renamed saves None with Some g => LGen g | None => startup_load fs f end.
Proof. exact saves_load. Qed.
Print Assumptions c20_saves_last_renamed.

(* moving the previous generation aside before the final rename is not atomic: there is a crash
   point and there is a failing step after which a restart finds no history file although a
   generation existed *)
Theorem c20_backup_rename_refuted :
  exists f g old fs, fs_get f fs = Some (FWhole old) /\
    (exists k, startup_load (run_save (save_prog_aside f g) (save_cleanup f) (CrashAt k) fs) f = LFirstStart) /\
    (exists k, startup_load (run_save (save_prog_aside f g) (save_cleanup f) (FaultAt k) fs) f = LFirstStart).
Proof. exact aside_loses. Qed.
Print Assumptions c20_backup_rename_refuted.

(* what a start-up loads depends on the content under the history file's own name alone: files
   left next to it (a half-written or complete f~, any other name) neither win nor disturb *)
Theorem c20_startup_name_only : forall now fs fs' f,
  fs_get f fs = fs_get f fs' -> startup now fs f = startup now fs' f.
Proof. exact startup_name_only. Qed.
Print Assumptions c20_startup_name_only.

Theorem c20_startup_leftover : forall now fs f n c, n <> f ->
  startup now (fs_set n c fs) f = startup now fs f /\ startup now (fs_del n fs) f = startup now fs f.
Proof. exact startup_leftover. Qed.
Print Assumptions c20_startup_leftover.

Example c20_ex_save_fault :
  let f := [102%N] in let fs := [(f, FWhole (gen_tag 1))] in
  startup_load (run_save (save_prog f (gen_tag 2)) (save_cleanup f) (FaultAt 3) fs) f = LGen (gen_tag 1) /\
  startup_load (run_save (save_prog f (gen_tag 2)) (save_cleanup f) (CrashAt 6) fs) f = LGen (gen_tag 2) /\
  run_save (save_prog f (gen_tag 2)) (save_cleanup f) (CrashAt 3) fs = [(tmp_name f, FWhole (gen_tag 2)); (f, FWhole (gen_tag 1))].
Proof. vm_compute. repeat split; reflexivity. Qed.

(* ---------------------------------------------------------------- subscribers that come and go *)
Open Scope nat_scope.

(* The subscriber table keyed as in the code (by the connection's own channel), from an empty
   notifier, after ANY history of connects, disconnects, publishes and reads — in every order, any
   number of them: a connection that is connected and has a free slot is handed the next published
   event (so: every certificate issued) as the newest element of its queue, exactly once; a
   connection that has left is handed nothing. *)
Theorem c20_issue_delivered_churn : forall ops i c e,
  let st := krun kalloc_chan ops k_init in
  nth_error (k_conns st) i = Some c ->
  (kc_on c = true -> length (buf (kc_ch c)) < cap (kc_ch c) ->
     exists c', nth_error (k_conns (kstep kalloc_chan st (KPub e))) i = Some c' /\ kc_on c' = true /\
                buf (kc_ch c') = buf (kc_ch c) ++ [e] /\ got (kc_ch c') = got (kc_ch c)) /\
  (kc_on c = false -> nth_error (k_conns (kstep kalloc_chan st (KPub e))) i = Some c).
Proof. exact churn_delivered. Qed.
Print Assumptions c20_issue_delivered_churn.

(* a table keyed by "number of entries + 1" does not have this property: connect, connect, the
   first leaves, connect — the second connection is connected, its queue is empty, and no
   publication reaches it any more *)
Theorem c20_count_keyed_table_refuted :
  let st := krun kalloc_count ex_churn k_init in
  exists c, nth_error (k_conns st) 1 = Some c /\ kc_on c = true /\ buf (kc_ch c) = [] /\
    forall e, nth_error (k_conns (kstep kalloc_count st (KPub e))) 1 = Some c.
Proof. exact count_keyed_loses. Qed.
Print Assumptions c20_count_keyed_table_refuted.

(* ---------------------------------------------------------------- readers of the history *)

(* The event loop hands every reader its cached read-out itself.  For a reader that leaves what it
   was handed as it found it (and a life in which every earlier reader did), serving the request
   changes nothing: the history, the file, the pending save, and what the next reader or the save
   timer will be handed are what they were — the current history. *)
Theorem c20_read_pure : forall now file ops f, readers_pure ops -> reader_pure f ->
  let st := lrun2 ops (l_start now file) in
  let st' := lstep2 st (LRead f) in
  l_map st' = l_map st /\ l_file st' = l_file st /\ l_armed st' = l_armed st /\
  snd (l_get st') = snd (l_get st) /\ snd (l_get st') = l_map st.
Proof. exact read_pure. Qed.
Print Assumptions c20_read_pure.

(* ... hence whatever such readers came by, and at whatever points of the life: history, file and
   pending save are those of the same life with every reader taken out, and whenever no save is
   pending the file holds the current history (or nothing changed since the start) *)
Theorem c20_history_reader_independent : forall now file ops, readers_pure ops ->
  let st := lrun2 ops (l_start now file) in
  let st0 := lrun (drop_reads ops) (l_start now file) in
  (l_map st = l_map st0 /\ l_file st = l_file st0 /\ l_armed st = l_armed st0) /\
  (l_armed st = false -> l_file st = Some (l_map st) \/ l_map st = l_map (l_start now file)).
Proof. exact readers_transparent. Qed.
Print Assumptions c20_history_reader_independent.

(* purity is needed: a reader that filters the slices it was handed in place (two events, the
   reader, the save) makes the loop save something that is not the history, although the same life
   without the reader saves exactly it *)
Theorem c20_mutating_reader_refuted :
  let st := lrun2 ex_mutating_history (l_start 0 None) in
  l_armed st = false /\ l_map st <> l_map (l_start 0 None) /\ l_file st <> Some (l_map st) /\
  l_file (lrun (drop_reads ex_mutating_history) (l_start 0 None)) = Some (l_map st).
Proof. exact mutating_reader_corrupts. Qed.
Print Assumptions c20_mutating_reader_refuted.

Example c20_ex_churn :
  map (fun kc => delivered (kc_ch kc))
      (k_conns (krun kalloc_chan [KConn 16; KConn 16; KPub (EWebLogin [1%N]); KDisc 0; KConn 16; KPub (EWebLogin [2%N])] k_init)) =
  [[EWebLogin [1%N]]; [EWebLogin [1%N]; EWebLogin [2%N]]; [EWebLogin [2%N]]].
Proof. vm_compute. reflexivity. Qed.

(* ---------------------------------------------------------------- entries stamped ahead of the checking clock *)
Open Scope Z_scope.

(* The clock of the process that reloads or expires and the stamps of the entries are independent
   (the clock was stepped back; the history file comes from a host whose clock is ahead).  The
   retention test drops exactly the entries OLDER than the retention: for every clock reading,
   every retention >= 0 and every history (any order), an entry stamped later than the clock
   reading survives the hourly expiry and a save and restart. *)
Theorem c20_expire_keeps_future : forall now ret l e, 0 <= ret -> In e l -> now < ctime e ->
  In e (expire (now - ret) l) /\ In e (load (now - ret) (save l)).
Proof. exact keeps_future. Qed.
Print Assumptions c20_expire_keeps_future.

(* ... as a special case of: whatever is not older than the retention is kept (together with
   c20_expire_only_old and c20_roundtrip: the survivors are the same entries in the same order,
   what is gone is older than the retention) *)
Theorem c20_retention_keeps_young : forall now l e, In e l -> now - 31 * 24 * 3600 <= ctime e ->
  In e (expire (min_ctime now) l) /\ In e (load (min_ctime now) (save l)).
Proof. exact retention_keeps_young. Qed.
Print Assumptions c20_retention_keeps_young.

(* The code computes the cut-off on machine words: uint64(int64 clock - 31 days), then compares two
   uint64 values.  For every clock reading from 1970-02-01 on (within int64) and entries with ANY
   stamps this is the model's expire / load over Z ... *)
Theorem c20_code_u64_is_model : forall now l, retention <= now < 2 ^ 63 ->
  expire_by (is_old_u64 now) l = expire (min_ctime now) l /\
  load_by (is_old_u64 now) (save l) = load (min_ctime now) (save l).
Proof. exact code_u64_is_model. Qed.
Print Assumptions c20_code_u64_is_model.

(* ... so the code on machine words keeps the entries from the future *)
Theorem c20_code_u64_keeps_future : forall now l e, retention <= now < 2 ^ 63 -> In e l -> now < ctime e ->
  In e (expire_by (is_old_u64 now) l) /\ In e (load_by (is_old_u64 now) (save l)).
Proof. exact code_u64_keeps_future. Qed.
Print Assumptions c20_code_u64_keeps_future.

(* the hypothesis on the clock is needed: before 1970-02-01 the subtraction is negative, its
   conversion to uint64 is huge, and an entry stamped at that very instant counts as old *)
Theorem c20_clock_before_retention_wraps : exists now e,
  0 <= now < retention /\ ctime e = now /\ is_old_u64 now e = true /\ is_old (min_ctime now) e = false.
Proof. exact small_clock_drops_now. Qed.
Print Assumptions c20_clock_before_retention_wraps.

(* The variant "age := now - CreateTime (uint64); old iff age > retention" agrees with the code's
   test on every entry stamped at or before the clock reading ... *)
Theorem c20_age_subtraction_same_in_past : forall now e, 0 <= ctime e <= now -> now < two64 ->
  is_old_age now e = is_old (min_ctime now) e.
Proof. exact age_same_in_past. Qed.
Print Assumptions c20_age_subtraction_same_in_past.

(* ... and is wrong for an entry one second ahead of it: the age wraps around, expiry and reload
   drop the entry although the code's own test keeps it *)
Theorem c20_age_subtraction_refuted : exists now l e,
  retention <= now < 2 ^ 63 /\ In e l /\ ctime e = now + 1 /\
  ~ In e (expire_by (is_old_age now) l) /\ ~ In e (load_by (is_old_age now) (save l)) /\
  In e (expire_by (is_old_u64 now) l) /\ In e (load_by (is_old_u64 now) (save l)).
Proof. exact age_drops_future. Qed.
Print Assumptions c20_age_subtraction_refuted.

Example c20_ex_future :
  let l := [ev_at 5000000; ev_at 1000; ev_at 9000000; ev_at 3000000] in   (* newest first; any order *)
  map ctime (expire (min_ctime 4000000) l) = [5000000; 1000; 9000000; 3000000] /\
  map ctime (expire (min_ctime 6000000) l) = [5000000; 1000; 9000000] /\
  map ctime (load (min_ctime 6000000) (save l)) = [5000000; 9000000] /\
  map ctime (expire_by (is_old_age 4000000) l) = [5000000; 1000; 9000000; 3000000] /\
  map ctime (load_by (is_old_age 4000000) (save l)) = [3000000] /\
  (* recorded at 4000060, clock stepped back, recorded at 3999990, expiry at 4000000 *)
  map ctime (expire (min_ctime 4000000) [ev_at 3999990; ev_at 4000060]) = [3999990; 4000060] /\
  map ctime (expire_by (is_old_age 4000000) [ev_at 3999990; ev_at 4000060]) = [3999990].
Proof. vm_compute. repeat split; reflexivity. Qed.
