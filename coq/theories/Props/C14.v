(* C14 — password and one-time-code guessing is throttled. *)
From Coq Require Import List ZArith Bool.
From KM Require Import Model.Limiter Model.TotpLimit Proofs.Limiter Proofs.TotpLimit.
Import ListNotations.
Open Scope Z_scope.

(* Units: time in ns; rate = p/q tokens per second; C = q*10^9 is the cost of one request and
   B = burst*C the cap, so the inequality below reads, divided by C,
        backend calls in [t0,t1]  <  burst + rate*(t1-t0) + rate*1ns.
   For EVERY non-decreasing sequence of requests (any number, either entry point, any backend
   answers) and every window. *)
Theorem c14_bucket : forall c t_init reqs t0 t1,
  wf c -> nondecr_from t_init (map req_time reqs) -> t0 <= t1 ->
  backend_calls_in t0 t1 (map req_time reqs) (login_run c (init c t_init) reqs) * C c
    < B c + (t1 - t0) * p c + p c.
Proof. exact backend_window. Qed.

(* the limiter alone, from the initial and from any reachable state; with a rate of at most
   10^9/s the slack is "+ 1 request", the form of the property text *)
Theorem c14_bucket_limiter : forall c t_init ts t0 t1,
  wf c -> nondecr_from t_init ts -> t0 <= t1 ->
  calls c (init c t_init) t0 t1 ts * C c < B c + (t1 - t0) * p c + p c.
Proof. exact bucket_window. Qed.

Theorem c14_bucket_plus1 : forall c t_init ts t0 t1,
  wf c -> p c <= C c -> nondecr_from t_init ts -> t0 <= t1 ->
  calls c (init c t_init) t0 t1 ts * C c < B c + (t1 - t0) * p c + C c.
Proof. exact bucket_window_plus1. Qed.

Theorem c14_bucket_any_state : forall c s ts t0 t1,
  wf c -> ok_state c s -> nondecr_from (last s) ts -> t0 <= t1 ->
  calls c s t0 t1 ts * C c < B c + (t1 - t0) * p c + p c.
Proof. exact bucket_window_from. Qed.

(* the excess is answered 429 without a backend lookup (and 429 is only ever that);
   a refusal leaves the limiter untouched *)
Theorem c14_excess_429 : forall c s e t a,
  (status (snd (login_step c s e t a)) = 429 <-> backend_called (snd (login_step c s e t a)) = false) /\
  (snd (allow c s t) = false -> login_step c s e t a = (s, {| status := 429; backend_called := false |})).
Proof. intros. split; [apply login_step_429|apply login_step_refused]. Qed.

(* both entry points, whatever the backend answers, consult the same limiter in arrival order *)
Theorem c14_entry_points : forall c reqs s,
  map backend_called (login_run c s reqs) = decisions c s (map (fun r => snd (fst r)) reqs).
Proof. exact login_run_calls. Qed.

(* loadVerifyConfigFile's clamps: whatever the configuration file says *)
Theorem c14_config : forall b r, 10 <= clamp_burst b /\ frate_ge1 (clamp_rate r).
Proof. intros. split; [apply clamp_burst_ge|apply clamp_rate_ge]. Qed.

(* the clamp as it was written (rate < 1 -> 1) let a not-a-number rate through, and with it
   the limiter lets everything through *)
Theorem c14_old_clamp_refuted : exists r, ~ frate_ge1 (clamp_rate_old r).
Proof. exists NaN. exact (proj2 clamp_rate_old_nan). Qed.

(* evaluated attempts of one user are at least min_secs (2 s) apart, for every sequence of
   attempts at any times *)
Theorem c14_totp_spacing : forall k esc ops s, 0 <= min_secs k ->
  forall i j ti vi oi tj vj oj, (i < j)%nat ->
  nth_error ops i = Some (ti, vi) -> nth_error (snd (run k esc s ops)) i = Some oi ->
  nth_error ops j = Some (tj, vj) -> nth_error (snd (run k esc s ops)) j = Some oj ->
  evaluated oi = true -> evaluated oj = true -> ti + min_secs k * SEC <= tj.
Proof.
  intros k esc ops s Hk i j ti vi oi tj vj oj Hij Hi Hoi Hj Hoj Ei Ej.
  apply (spacing k esc ops s Hk i j ti vi oi tj vj oj); auto using evaluated_passes.
Qed.

(* the n-th lock (the failure that makes the count of consecutive failures every*n) refuses
   every attempt, whatever is tried, until n hours later; and n hours grow with n *)
Theorem c14_lockout : forall k s t v s' n ops,
  0 < every k -> 0 < n ->
  attempt k true s t v = (s', EvalFail) -> fail_count s' = every k * n ->
  (forall t2 v2, In (t2, v2) ops -> t2 < t + n * HOUR) ->
  lockout s' = t + n * HOUR /\
  Forall (fun o => evaluated o = false) (snd (run k true s' ops)).
Proof. exact lockout_holds. Qed.

Theorem c14_lockout_escalates : forall a b, 0 <= a < b -> a * HOUR < b * HOUR.
Proof. exact lock_duration_increasing. Qed.

(* the counter is the number of consecutive failures *)
Theorem c14_fail_count : forall k esc s t v,
  let (s', o) := attempt k esc s t v in
  match o with
  | EvalFail => fail_count s' = (if last_fail s + reset_hours k * HOUR <? t then 0 else fail_count s) + 1
  | EvalOk => fail_count s' = 0
  | _ => fail_count s' = fail_count s
  end.
Proof. exact count_step. Qed.

(* users do not influence each other *)
Theorem c14_totp_per_user : forall k esc u ops m,
  fst (run_users k esc m ops) u = fst (run k esc (m u) (ops_of u ops)).
Proof. exact run_users_proj. Qed.

(* before the fix the lock-out time was never assigned: a sixth guess right after five
   failures was evaluated *)
Theorem c14_old_lockout_refuted : exists ops,
  Forall (fun o => o = EvalFail) (snd (run k_prop false rl0 ops)) /\ (length ops = 6)%nat /\
  nth_error (snd (run k_prop true rl0 ops)) 5 = Some RefusedLockout.
Proof.
  exists five_then_one. rewrite old_never_locks, new_locks.
  split; [repeat constructor|split; reflexivity].
Qed.

(* non-vacuity *)
Example c14_burst_then_429 :
  let c := mkcfg 1 1 10 in
  decisions c (init c 0) [5; 5; 5; 5; 5; 5; 5; 5; 5; 5; 5; 5; 1000000005; 1000000005]
  = [true; true; true; true; true; true; true; true; true; true; false; false; true; false].
Proof. vm_compute. reflexivity. Qed.

Example c14_two_locks :
  let ops := [(1000 * SEC, NoMatch); (1002 * SEC, NoMatch); (1004 * SEC, NoMatch); (1006 * SEC, NoMatch);
              (1008 * SEC, NoMatch); (1010 * SEC, Fresh); (4607 * SEC, Fresh); (4609 * SEC, NoMatch);
              (4611 * SEC, NoMatch); (4613 * SEC, NoMatch); (4615 * SEC, NoMatch); (4617 * SEC, NoMatch);
              (4619 * SEC + 3600 * SEC, Fresh); (4619 * SEC + 7200 * SEC, Fresh)] in
  map outcome_code (snd (run k_prop true rl0 ops)) = [4; 4; 4; 4; 4; 1; 1; 4; 4; 4; 4; 4; 1; 2].
Proof. vm_compute. reflexivity. Qed.
